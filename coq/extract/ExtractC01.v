(* Extraction of the C01 executable model (and value-level spec functions) to OCaml. *)
From Coq Require Import Extraction ExtrOcamlBasic ExtrOcamlZBigInt ZArith List.
From TF Require Import Word BFieldGen BField XField.
Extraction Language OCaml.
Extraction "../ocaml/gen_c01/model.ml"
  P bfe_new bfe_value bfe_add bfe_sub bfe_mul bfe_neg bfe_zero bfe_one
  mod_pow inverse inverse_or_zero bfe_div bfe_batch_inversion primitive_root_of_unity
  from_u128 from_i64 bfe_to_i64 try_into_unsigned try_into_signed
  bfe_new_ok bfe_value_ok bfe_add_ok bfe_sub_ok bfe_mul_ok mod_reduce_ok from_i64_u128_ok bfe_to_i64_ok
  xadd xsub xneg xmul xscale xaddb baddx xsubb bsubx xpow xinverse xinverse_or_zero xdiv
  xbatch_inversion xlift xunlift xeqb
  montyred power_accumulator raw_bytes raw_u16s from_le_chunks is_canonical bfe_sum cyclic_group_elements
  xsum xnew_const xtry_from_slice xincrement xdecrement xroot.
