(* Pure extraction of the C01 base-field model: ExtrOcamlBasic only (Z, positive, N stay Coq's binary inductive types,
   no zarith mapping, no custom Extract Constant).  Used for a per-run cross-check of the fast zarith extraction. *)
From Coq Require Import Extraction ExtrOcamlBasic ZArith List.
From TF Require Import Word BFieldGen BField XField.
Extraction Language OCaml.
Extraction "../ocaml/gen_c01pure/model.ml"
  bfe_new bfe_value bfe_add bfe_sub bfe_mul bfe_neg mod_pow inverse from_u128 from_i64 bfe_to_i64 montyred xmul xinverse.
