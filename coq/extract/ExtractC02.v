(* Extraction of the C02 executable model (Tip5 on Montgomery words) and of the value-level specification. *)
From Coq Require Import Extraction ExtrOcamlBasic ExtrOcamlZBigInt ZArith List.
From TF Require Import Word BFieldGen Tip5Ssa Tip5Gen Tip5 Tip5Spec.
Extraction Language OCaml.
Extraction "../ocaml/gen_c02/model.ml"
  P bfe_new bfe_value
  permutation trace hash_10 hash_pair digest_hash sbox_layer mds_generated round
  mds_lane_ok mds_split_hi_ok mds_split_lo_ok
  spec_p spec_permutation spec_trace spec_hash_10 spec_hash_pair spec_digest_hash spec_sbox spec_mds.
