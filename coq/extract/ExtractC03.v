(* Extraction of the codec model (C03, C13; shared with C14) to OCaml. *)
From Coq Require Import Extraction ExtrOcamlBasic ExtrOcamlZBigInt ZArith NArith List.
From TF Require Import Codec.
Extraction Language OCaml.
Extraction "../ocaml/gen_c03/model.ml"
  ty value outcome static_length encode decode has_type canon_seq implemented no_width0_list width0 cost cost_coeff
  TXfe TDigest TTip5 TMmrAcc TMmrMp TMmrSp zlen.
