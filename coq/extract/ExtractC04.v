(* Extraction of the Merkle model and specification (C04 and C10 share it), instantiated with the
   free hash: D := term, H := Node, dflt := Dflt, equality structural. *)
From Coq Require Import Extraction ExtrOcamlBasic ExtrOcamlZBigInt ZArith List.
From TF Require Import Merkle MerkleSpec.
Extraction Language OCaml.

Definition t_from_digests := from_digests term Node Dflt.
Definition t_build_fuel := build_fuel term.
Definition t_num_leafs := mt_num_leafs term.
Definition t_height := mt_height term.
Definition t_root := mt_root term.
Definition t_node := mt_node term.
Definition t_leafs := mt_leafs term.
Definition t_leaf := mt_leaf term.
Definition t_indexed_leafs := mt_indexed_leafs term.
Definition t_asni := auth_structure_node_indices.
Definition t_auth_structure := mt_authentication_structure term.
Definition t_inclusion_proof := mt_inclusion_proof term.
Definition t_verify := ip_verify term Node term_eqb.
Definition t_paths := ip_into_authentication_paths term Node term_eqb.
Definition t_mkproof : Z -> list (Z * term) -> list term -> iproof term := MkProof.
Definition t_ip_height : iproof term -> Z := ip_height.
Definition t_ip_leafs : iproof term -> list (Z * term) := ip_leafs.
Definition t_ip_auth : iproof term -> list term := ip_auth.

Definition s_spec_tree := spec_tree term Node Dflt.
Definition s_minimal_list := minimal_list.
Definition s_verify := verify_spec_b term Node Dflt term_eqb.
Definition s_paths := paths_spec term Node Dflt term_eqb.
Definition s_tree_path := tree_path term Dflt.

Extraction "../ocaml/gen_c04/model.ml"
  t_from_digests t_build_fuel t_num_leafs t_height t_root t_node t_leafs t_leaf t_indexed_leafs
  t_asni t_auth_structure t_inclusion_proof t_verify t_paths t_mkproof t_ip_height t_ip_leafs t_ip_auth
  s_spec_tree s_minimal_list s_verify s_paths s_tree_path
  term_eqb CUR_LEAF_FIXED CUR_CUTOFF_FIXED.
