(* Extraction of the C06 executable model (model/Ntt.v instantiated for both fields) to OCaml.
   Besides the directives of ExtrOcamlZBigInt, `Z.pow` is mapped to zarith's power function: the
   regenerated word operations evaluate `2 ^ 64` / `2 ^ 128` on every call, which costs 30 us per field
   multiplication with the extracted square-and-multiply (0.5 us with the directive). *)
From Coq Require Import Extraction ExtrOcamlBasic ExtrOcamlZBigInt ZArith List.
From TF Require Import Word BFieldGen BField XField FieldOps Ntt.
Extraction Language OCaml.
Extract Constant Z.pow => "Big_int_Z.(fun x y -> if sign_big_int y < 0 then zero_big_int else power_big_int_positive_big_int x y)".
Extraction "../ocaml/gen_c06/model.ml"
  P PRIMITIVE_ROOTS bfe_new bfe_value bfe_mul bfe_add bfe_sub
  ntt_b intt_b ntt_noswap_b intt_noswap_b unscale_b
  ntt_x intt_x ntt_noswap_x intt_noswap_x
  bitreverse_order bitreverse logn_of root_b root_x.
