(* Extraction of the C06 executable model (model/Ntt.v instantiated for both fields) to OCaml. *)
From Coq Require Import Extraction ExtrOcamlBasic ExtrOcamlZBigInt ZArith List.
From TF Require Import Word BFieldGen BField XField FieldOps Ntt.
Extraction Language OCaml.
Extraction "../ocaml/gen_c06/model.ml"
  P PRIMITIVE_ROOTS bfe_new bfe_value
  ntt_b intt_b ntt_noswap_b intt_noswap_b unscale_b
  ntt_x intt_x ntt_noswap_x intt_noswap_x
  bitreverse_order bitreverse logn_of root_b root_x.
