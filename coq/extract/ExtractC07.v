(* Extraction of the C07 / C17 executable model (model/PolyCore.v) to OCaml.  The generic functions are
   extracted as they are (they take the `fops` records as arguments); the oracle driver ocaml/c07.ml
   instantiates them with `bfe_ops` / `xfe_ops`.
   NTT: `ntt_b`/`intt_b`/`ntt_x`/`intt_x` of model/Ntt.v (the C06 mirror of math/ntt.rs). *)
From Coq Require Import Extraction ExtrOcamlBasic ExtrOcamlZBigInt ZArith List.
From TF Require Import Word BFieldGen BField XField FieldOps PolyGen PolyCore Ntt.
Extraction Language OCaml.
(* Z.pow / Z.log2 / Z.testbit are not covered by ExtrOcamlZBigInt; the structural versions dominate the run time of
   the Word.v operations (`x mod 2 ^ 64` is evaluated in every field operation).  Map them to zarith. *)
Extract Constant Z.pow => "(fun x y -> if Big_int_Z.sign_big_int y < 0 then Big_int_Z.zero_big_int else Big_int_Z.power_big_int_positive_big_int x y)".
Extract Constant Z.log2 => "(fun x -> let rec lg x acc = if Big_int_Z.le_big_int x Big_int_Z.unit_big_int then acc else lg (Big_int_Z.shift_right_big_int x 1) (acc + 1) in Big_int_Z.big_int_of_int (lg x 0))".
Extract Constant Z.testbit => "(fun x i -> if Big_int_Z.sign_big_int i < 0 then false else Big_int_Z.sign_big_int (Big_int_Z.and_big_int (Big_int_Z.shift_right_big_int x (Big_int_Z.int_of_big_int i)) Big_int_Z.unit_big_int) <> 0)".
Extraction "../ocaml/gen_c07/model.ml"
  P bfe_new bfe_value bfe_zero bfe_one bfe_mul bfe_add xscale xlift xunlift
  bfe_ops xfe_ops bb_act xb_act xx_act fzero fone fadd fsub fmul fneg finv feqb ffrom_u64 smul slift
  ntt_b intt_b ntt_x intt_x
  FAST_MULTIPLY_CUTOFF_THRESHOLD SQUARE_FAST_CUTOFF_LEN
  poly_new poly_zero poly_one poly_from_constant poly_x_to_the poly_from_vec
  poly_normalize poly_degree poly_coefficients poly_into_coefficients poly_leading_coefficient
  poly_eqb poly_is_zero poly_is_one poly_is_x poly_hash_feed poly_hash_feed_v0 poly_hash_feed_v1
  poly_display_terms poly_formal_derivative poly_evaluate_gen poly_evaluate
  poly_add poly_sub poly_add_assign poly_scalar_mul_gen poly_scalar_mul poly_scalar_mul_mut poly_neg
  poly_scale_gen poly_scale poly_shift_coefficients
  poly_truncate poly_truncate_v0 poly_truncate_v1 poly_mod_x_to_the_n poly_reverse
  poly_encode poly_decode bfe_enc bfe_dec xfe_enc xfe_dec
  poly_naive_multiply_gen poly_fast_multiply_gen poly_multiply_gen poly_multiply_arm
  poly_naive_multiply poly_fast_multiply poly_multiply poly_mul
  poly_slow_square poly_slow_square_v0 poly_slow_square_v1 poly_square poly_square_v0 poly_square_v1
  poly_fast_square poly_pow poly_fast_pow poly_batch_multiply poly_par_batch_multiply.
