(* Extraction of the C08 executable model (model/PolyInterp.v on top of model/PolyCore.v and model/Ntt.v) to OCaml.
   The generic functions are extracted as they are (they take the `fops` / `fact` records and ntt / intt as
   arguments); the oracle driver ocaml/c08.ml instantiates them with bfe_ops / xfe_ops, ntt_b / ntt_x. *)
From Coq Require Import Extraction ExtrOcamlBasic ExtrOcamlZBigInt ZArith List.
From TF Require Import Word BFieldGen BField XField FieldOps PolyGen PolyCore Ntt PolyInterp.
Extraction Language OCaml.
(* as in ExtractC07.v: Z.pow / Z.log2 / Z.testbit are not covered by ExtrOcamlZBigInt *)
Extract Constant Z.pow => "(fun x y -> if Big_int_Z.sign_big_int y < 0 then Big_int_Z.zero_big_int else Big_int_Z.power_big_int_positive_big_int x y)".
Extract Constant Z.log2 => "(fun x -> let rec lg x acc = if Big_int_Z.le_big_int x Big_int_Z.unit_big_int then acc else lg (Big_int_Z.shift_right_big_int x 1) (acc + 1) in Big_int_Z.big_int_of_int (lg x 0))".
Extract Constant Z.testbit => "(fun x i -> if Big_int_Z.sign_big_int i < 0 then false else Big_int_Z.sign_big_int (Big_int_Z.and_big_int (Big_int_Z.shift_right_big_int x (Big_int_Z.int_of_big_int i)) Big_int_Z.unit_big_int) <> 0)".
(* lib/Word.v: `wrap w x = x mod 2 ^ w`, `wshr a k = a / 2 ^ k`, `wshl w a k = wrap w (a * 2 ^ k)` are evaluated in every field
   operation (w is always one of the literal widths 8..128, k a literal shift).  Map them to zarith's bit operations:
   Z.extract x 0 w is x mod 2^w for every integer x (two's complement for negative x), Z.shift_right is the floor division
   by 2^k.  5x faster field multiplication; the quick tier of C08 is not affordable without it. *)
Extract Constant wrap => "(fun w x -> let n = Big_int_Z.int_of_big_int w in if n <= 0 then (if n = 0 then Big_int_Z.zero_big_int else failwith ""wrap: negative width"") else Big_int_Z.extract_big_int x 0 n)".
Extract Constant wshr => "(fun a k -> if Big_int_Z.sign_big_int k < 0 then Big_int_Z.zero_big_int else Big_int_Z.shift_right_big_int a (Big_int_Z.int_of_big_int k))".
Extract Constant wshl => "(fun w a k -> if Big_int_Z.sign_big_int k < 0 then Big_int_Z.zero_big_int else wrap w (Big_int_Z.shift_left_big_int a (Big_int_Z.int_of_big_int k)))".
(* Coq's List.rev is the quadratic `rev l' ++ [x]`; poly_normalize / poly_degree (model/PolyCore.v) reverse the coefficient list
   twice on every call, which makes degree 2^15 cost seconds.  OCaml's List.rev is the same function of the list. *)
Extract Constant rev => "List.rev".
Extraction "../ocaml/gen_c08/model.ml"
  P PRIMITIVE_ROOTS bfe_new bfe_value bfe_zero bfe_one bfe_mul bfe_add inverse mod_pow primitive_root_of_unity
  xscale xlift xunlift
  bfe_ops xfe_ops bb_act xb_act xx_act fzero fone fadd fsub fmul fneg finv feqb ffrom_u64 smul slift
  ntt_b intt_b ntt_x intt_x
  FAST_MULTIPLY_CUTOFF_THRESHOLD FAST_INTERPOLATE_CUTOFF_THRESHOLD_SEQUENTIAL FAST_INTERPOLATE_CUTOFF_THRESHOLD_PARALLEL
  FAST_MODULAR_COSET_INTERPOLATE_CUTOFF_THRESHOLD_PREFER_LAGRANGE FAST_MODULAR_COSET_INTERPOLATE_CUTOFF_THRESHOLD_PREFER_INTT
  FAST_COSET_EXTRAPOLATE_THRESHOLD FAST_REDUCE_CUTOFF_THRESHOLD REDUCE_BEFORE_EVALUATE_THRESHOLD_RATIO
  FAST_ZEROFIER_CUTOFF_THRESHOLD OPTIMAL_CUTOFF_POINT_FOR_BATCHED_INTERPOLATION ZEROFIER_TREE_RECURSION_CUTOFF_THRESHOLD
  poly_normalize poly_degree poly_evaluate poly_multiply poly_scale poly_add poly_sub
  pint_naive_divide pint_divide pint_reduce pint_fast_reduce pint_reduce_long_division
  pint_fpsi_minimal pint_structured_multiple_of_degree pint_structured_multiple
  pint_shift_factor_ntt_with_tail_length pint_reduce_by_ntt_friendly_modulus pint_reduce_by_structured_modulus
  pint_smart_zerofier pint_naive_zerofier pint_zerofier pint_fast_zerofier pint_par_zerofier
  pint_tree_new_from_domain pint_tree_zerofier
  pint_iterative_batch_evaluate pint_dac_batch_evaluate pint_reduce_then_batch_evaluate pint_batch_evaluate_arm
  pint_batch_evaluate pint_par_batch_evaluate
  pint_lagrange_interpolate pint_lagrange_interpolate_zipped pint_interpolate pint_fast_interpolate
  pint_par_interpolate pint_par_fast_interpolate
  pint_batch_fast_interpolate_with_memoization pint_batch_fast_interpolate
  pint_fast_coset_evaluate pint_fast_coset_evaluate_b pint_fast_coset_interpolate pint_fast_coset_interpolate_b
  pint_fmci_preprocess pint_fmci_with_thresholds pint_fmci_with_zerofiers_and_ntt_friendly_multiple
  pint_fast_modular_coset_interpolate
  pint_coset_interpolant pint_naive_coset_extrapolate pint_fast_coset_extrapolate pint_coset_extrapolate
  pint_batch_fast_coset_extrapolate pint_batch_naive_coset_extrapolate pint_batch_coset_extrapolate
  pint_par_batch_coset_extrapolate
  pint_barycentric_evaluate pint_are_colinear_3 pint_are_colinear pint_get_colinear_y.
