(* Extraction of the C09 executable model (model/PolyDiv.v on top of model/PolyCore.v and model/Ntt.v) to OCaml.
   The generic functions are extracted as they are (they take the `fops` records and the transforms as arguments);
   the oracle driver ocaml/c09.ml instantiates them with `bfe_ops` / `xfe_ops` and `ntt_b intt_b` / `ntt_x intt_x`. *)
From Coq Require Import Extraction ExtrOcamlBasic ExtrOcamlZBigInt ZArith List.
From TF Require Import Word BFieldGen BField XField FieldOps PolyGen PolyCore Ntt PolyDiv.
Extraction Language OCaml.
(* Z.pow / Z.log2 / Z.testbit are not covered by ExtrOcamlZBigInt; the structural versions dominate the run time of
   the Word.v operations (`x mod 2 ^ 64` is evaluated in every field operation).  Map them to zarith (as ExtractC07). *)
Extract Constant Z.pow => "(fun x y -> if Big_int_Z.sign_big_int y < 0 then Big_int_Z.zero_big_int else Big_int_Z.power_big_int_positive_big_int x y)".
Extract Constant Z.log2 => "(fun x -> let rec lg x acc = if Big_int_Z.le_big_int x Big_int_Z.unit_big_int then acc else lg (Big_int_Z.shift_right_big_int x 1) (acc + 1) in Big_int_Z.big_int_of_int (lg x 0))".
Extract Constant Z.testbit => "(fun x i -> if Big_int_Z.sign_big_int i < 0 then false else Big_int_Z.sign_big_int (Big_int_Z.and_big_int (Big_int_Z.shift_right_big_int x (Big_int_Z.int_of_big_int i)) Big_int_Z.unit_big_int) <> 0)".
Extraction "../ocaml/gen_c09/model.ml"
  P bfe_new bfe_value bfe_zero bfe_one bfe_mul bfe_add xscale xlift xunlift xinverse
  bfe_ops xfe_ops bb_act xb_act xx_act fzero fone fadd fsub fmul fneg finv feqb ffrom_u64 smul slift
  ntt_b intt_b ntt_x intt_x
  FAST_MULTIPLY_CUTOFF_THRESHOLD FAST_REDUCE_CUTOFF_THRESHOLD FAST_REDUCE_MAKES_SENSE_MULTIPLE
  FORMAL_POWER_SERIES_INVERSE_CUTOFF CLEAN_DIVIDE_CUTOFF_THRESHOLD_TEST CLEAN_DIVIDE_CUTOFF_THRESHOLD_PROD
  poly_normalize poly_degree poly_mul poly_multiply poly_evaluate
  pdiv_naive_divide pdiv_divide pdiv_div pdiv_rem pdiv_reduce_long_division
  pdiv_xgcd pdiv_xgcd_fuel pdiv_fpsi_minimal pdiv_fpsi_newton pdiv_fpsi_newton_uses_ntt
  pdiv_structured_multiple_of_degree pdiv_structured_multiple pdiv_shift_factor_ntt_with_tail_length
  pdiv_reduce_by_ntt_friendly_modulus pdiv_reduce_by_structured_modulus
  pdiv_fast_reduce pdiv_fast_reduce_stages pdiv_reduce pdiv_reduce_arm
  pdiv_clean_divide pdiv_clean_divide_v0 pdiv_clean_divide_v1 pdiv_clean_divide_v2 pdiv_vanishes_on_coset
  pdiv_shah pdiv_xfe_from_poly pdiv_xfe_inverse.
