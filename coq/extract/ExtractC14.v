(* Extraction of the codec model and the derive-shape translation (C14) to OCaml. *)
From Coq Require Import Extraction ExtrOcamlBasic ExtrOcamlZBigInt ZArith NArith List.
From TF Require Import Codec DeriveModel.
Extraction Language OCaml.
Extraction "../ocaml/gen_c14/model.ml"
  ty value outcome static_length encode decode has_type canon_seq no_width0_list zlen
  field shape lower lower_spec shape_has_type shape_encode shape_decode shape_reset shape_static_length default_value
  project inject.
