(* Extraction of the C15 executable model (Tip5 sponge on Montgomery words) and of the value-level specification. *)
From Coq Require Import Extraction ExtrOcamlBasic ExtrOcamlZBigInt ZArith List.
From TF Require Import Word BFieldGen Tip5Ssa Tip5Gen Tip5 Tip5Spec.
Extraction Language OCaml.
(* Z.pow on zarith integers: the stdlib definition iterates a multiplication y times (2^64 costs 64 big-integer
   products, and coq/lib/Word.v computes 2^w in every wrap); this directive has the semantics of Z.pow
   (0 for a negative exponent) and is part of the trusted base of the correspondence, like ExtrOcamlZBigInt. *)
Extract Constant Z.pow =>
  "(fun x y -> if Big_int_Z.sign_big_int y < 0 then Big_int_Z.zero_big_int else Big_int_Z.power_big_int_positive_big_int x y)".
Extraction "../ocaml/gen_c15/model.ml"
  P bfe_new bfe_value bfe_one bfe_zero
  tip5_new tip5_init absorb squeeze hash_varlen tip5_pad_and_absorb_all recording_pad_and_absorb_all
  sample_indices sample_scalars permutation hash_10
  spec_p spec_pad spec_hash_varlen spec_absorb spec_squeeze spec_stream spec_sample_indices spec_min_squeezes
  spec_sample_scalars spec_permutation spec_hash_10.
