(* Extraction of the C16 executable model (translated functions + hand-written loops) and of the forest
   specification to OCaml. *)
From Coq Require Import Extraction ExtrOcamlBasic ExtrOcamlZBigInt ZArith List.
From TF Require Import Word MmrIndexGen MmrIndex Forest.
Extraction Language OCaml.
(* Z.pow is not among the operations ExtrOcamlZBigInt maps to zarith; the structural Pos.iter version costs 64
   multiplications for every 2^64 in Word.wrap.  Mapped like the operations of ExtrOcamlZBigInt (a ^ b = 0 for
   b < 0, as in Coq).  Named in the trusted base of C16. *)
Extract Constant Z.pow =>
  "(fun a b -> if Big_int_Z.sign_big_int b < 0 then Big_int_Z.zero_big_int else Big_int_Z.power_big_int_positive_big_int a b)".
Extraction "../ocaml/gen_c16/model.ml"
  left_child left_child_ok right_child right_child_ok
  leaf_index_to_mt_index_and_peak_index leaf_index_to_mt_index_and_peak_index_ok
  right_lineage_length_from_leaf_index right_lineage_length_from_leaf_index_ok
  leftmost_ancestor leftmost_ancestor_ok leaf_index_to_node_index leaf_index_to_node_index_ok
  left_sibling left_sibling_ok right_sibling right_sibling_ok
  num_leafs_to_num_nodes num_leafs_to_num_nodes_ok
  mm_left_child mm_right_child mm_leaf_index_to_mt_index_and_peak_index mm_right_lineage_length_from_leaf_index
  mm_leftmost_ancestor mm_leaf_index_to_node_index mm_left_sibling mm_right_sibling mm_num_leafs_to_num_nodes
  mm_right_lineage_length_and_own_height mm_right_lineage_length_from_node_index mm_parent
  mm_node_indices_added_by_append mm_get_authentication_path_node_indices mm_get_peak_heights
  mm_get_peak_heights_and_peak_node_indices mm_node_index_to_leaf_index
  tsize tleafs forest pt_root spec_peak_heights spec_peak_node_indices spec_node_count
  f_locate f_locate_in f_find_leaf t_leaf_node t_leaf_mt
  spec_leaf_index_to_node_index spec_mt_index_and_peak_index spec_node_index_to_leaf_index spec_leaf_rll
  spec_added_by_append spec_auth_path mforest m_infos m_leafs m_postorder grow.
