(* Extraction of the C18 executable model (lattice.rs) and of the O(n^2) specification to OCaml. *)
From Coq Require Import Extraction ExtrOcamlBasic ExtrOcamlZBigInt ZArith List.
From TF Require Import Word BFieldGen LatticeGen Lattice LatticeSpec.
Extraction Language OCaml.
Extraction "../ocaml/gen_c18/model.ml"
  P N_INV PSI_BITREV PSI_INV_BITREV RING_SIZE CIPHERTEXT_SIZE
  SHAPE_GA SHAPE_BG SHAPE_BGA SHAPE_DEC
  fp_new fp_add fp_sub fp_mul
  coset_ntt_noswap_64 coset_intt_noswap_64 ntt_sched intt_sched
  re_zero re_add re_sub re_hadamard re_mul re_is_zero
  me_add me_sub me_ntt me_intt me_eqb me_multiply me_multiply_hadamard me_fast_multiply
  sample_short_bfield_element re_sample_short re_sample_uniform me_sample_short me_sample_uniform
  embed_msg extract_msg ct_of_array array_of_ct ct_eqb
  derive_public_matrix derive_secret_vectors derive_public_key keygen generate_ciphertext_derandomized
  enc dec_payload dec
  negacyclic negacyclic_explicit module_product zeval ntt_root.
