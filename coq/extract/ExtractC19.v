(* Extraction of the C19 executable model (U32s) and the value-level spec functions to OCaml. *)
From Coq Require Import Extraction ExtrOcamlBasic ExtrOcamlZBigInt ZArith List.
From TF Require Import Word BFieldGen U32sGen U32s U32sSpec.
Extraction Language OCaml.
(* Z.pow is not mapped by ExtrOcamlZBigInt (it extracts to 32 multiplications for every `2 ^ 32` in Word.wrap, which made
   rem_div cost 1.6 ms); map it to zarith's power, keeping Coq's convention b ^ e = 0 for e < 0. *)
Extract Constant Z.pow =>
  "(fun b e -> if Big_int_Z.sign_big_int e < 0 then Big_int_Z.zero_big_int else Big_int_Z.power_big_int_positive_big_int b e)".
Extraction "../ocaml/gen_c19/model.ml"
  u32s_zero u32s_is_zero u32s_one u32s_is_one u32s_eqb u32s_from_u32
  u32s_set_bit u32s_get_bit u32s_div_two u32s_mul_two u32s_cmp u32s_ge
  u32s_sub u32s_add u32s_sum u32s_rem_div u32s_div u32s_rem u32s_mul
  u32s_to_big u32s_from_big u32s_try_from_u64 u32s_try_from_u128
  tryfrom_u64_rejects tryfrom_u64_rejects_ok tryfrom_u128_rejects tryfrom_u128_rejects_ok
  u32s_to_bfes u32s_encode u32s_static_length u32s_decode
  bfe_new bfe_value
  u32s_value u32s_wfb u32s_fitsb.
