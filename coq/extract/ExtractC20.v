(* Extraction of the C20 executable model (digest / element conversions) to OCaml. *)
From Coq Require Import Extraction ExtrOcamlBasic ExtrOcamlZBigInt ZArith List.
From TF Require Import BFieldGen DigestConv.
Extraction Language OCaml.
Extraction "../ocaml/gen_c20/model.ml"
  P bfe_new_val bfe_try_new canonb wf_digestb
  bfe_to_bytes bfe_try_from_array bfe_try_from_slice
  digest_to_bytes digest_try_from_array digest_try_from_slice
  hex_encode hex_decode digest_to_hex digest_to_hex_upper digest_try_from_hex
  u64_to_string u64_from_str bfe_from_str bfe_display
  digest_elem_canonical digest_elem_nonneg digest_elem_to_string
  digest_to_string_with digest_to_string digest_from_str
  digest_try_from_vec digest_to_vec
  digest_to_big digest_try_from_big big_value
  digest_cmp digest_reversed
  digest_ser_json digest_de_json bfe_ser_json bfe_de_json
  bfe_ser_bincode bfe_de_bincode digest_ser_bincode digest_de_bincode
  digest_from_xfe xfe_try_from_digest.
