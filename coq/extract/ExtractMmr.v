(* Extraction of the MMR model (C05, C11, C12), its specification and the free term algebra. *)
From Coq Require Import Extraction ExtrOcamlBasic ExtrOcamlZBigInt ZArith List.
From TF Require Import Word MmrIdxLocal Mmr MmrSpec MmrTerm.
Extraction Language OCaml.
(* Z.pow by repeated multiplication costs O(exponent) big-integer products and dominated the oracle's
   run time (2^k for every bit position k < 64 in the specification functions): map it to zarith's
   power function (same value for exponents >= 0; 0 for negative exponents as in Coq). *)
Extract Constant Z.pow =>
  "(fun x y -> if Big_int_Z.sign_big_int y < 0 then Big_int_Z.zero_big_int else Big_int_Z.power_big_int_positive_big_int x y)".
Extraction "../ocaml/gen_mmr/model.ml"
  term term_eqb term_hash0
  li_mt_pk rll_leaf l2n num_nodes peak_heights_and_indices node_indices_added_by_append
  acc_init acc_is_empty acc_num_leafs acc_peaks bag_peaks
  calculate_new_peaks_from_append calculate_new_peaks_from_leaf_mutation
  acc_append new_from_leafs acc_mutate_leaf batch_mutate_leaf_and_update_mps verify_batch_update
  mp_verify get_node_indices get_direct_path_indices
  update_from_append batch_update_from_append update_from_leaf_mutation
  batch_update_from_leaf_mutation batch_update_from_batch_leaf_mutation
  sp_new_from_batch_append sp_verify_v0 sp_verify_v1
  peaks_spec path locate num_peaks fold_up bag_spec mp_verify_spec upd apply_muts succ_verify_spec root.
