(* FieldOps.v - the record of field operations against which the generic algorithms
   (NTT, polynomial arithmetic, batch inversion, ...) are modelled, and its two concrete
   instances: base-field Montgomery words (the REGENERATED operations of gen/BFieldGen.v) and
   extension-field triples (model/XField.v).  Definitions only.

   The Rust code is generic over `FF: FiniteField`; algorithms in coq/model take `ops : fops F`
   the same way.  `finv` is None where the Rust `inverse()` panics (zero). *)
From Coq Require Import ZArith Bool List.
From TF Require Import Word BFieldGen BField XField.
Open Scope Z_scope.

Record fops (F : Type) : Type := mk_fops {
  fzero : F;
  fone : F;
  fadd : F -> F -> F;
  fsub : F -> F -> F;
  fmul : F -> F -> F;
  fneg : F -> F;
  finv : F -> option F;            (* Inverse::inverse ; None = panic on zero *)
  feqb : F -> F -> bool;           (* derived PartialEq *)
  ffrom_u64 : Z -> F;              (* From<u64> *)
  fpow : F -> Z -> F;              (* ModPowU32 / mod_pow_u64 *)
  froot : Z -> option F            (* PrimitiveRootOfUnity::primitive_root_of_unity *)
}.
Arguments fzero {F}. Arguments fone {F}. Arguments fadd {F}. Arguments fsub {F}. Arguments fmul {F}.
Arguments fneg {F}. Arguments finv {F}. Arguments feqb {F}. Arguments ffrom_u64 {F}. Arguments fpow {F}.
Arguments froot {F}.

Definition fis_zero {F} (o : fops F) (x : F) : bool := feqb o x (fzero o).
Definition finv_or_zero {F} (o : fops F) (x : F) : F :=
  if fis_zero o x then fzero o else match finv o x with Some y => y | None => fzero o end.
Definition fdiv {F} (o : fops F) (a b : F) : option F :=
  match finv o b with Some bi => Some (fmul o a bi) | None => None end.

(* base field: Montgomery words *)
Definition bfe_ops : fops Z :=
  mk_fops Z bfe_zero bfe_one bfe_add bfe_sub bfe_mul bfe_neg inverse Z.eqb bfe_new mod_pow primitive_root_of_unity.

(* extension field: triples of Montgomery words *)
Definition xfe_ops : fops xfe :=
  mk_fops xfe xzero xone xadd xsub xmul xneg xinverse xeqb (fun v => xlift (bfe_new v)) xpow
    (fun n => match primitive_root_of_unity n with Some r => Some (xlift r) | None => None end).

(* scalar action of one field on another (BFE scalars on XFE vectors etc.), used by mixed-field routines *)
Record fact (S F : Type) : Type := mk_fact { smul : F -> S -> F; slift : S -> F }.
Arguments smul {S F}. Arguments slift {S F}.
Definition bb_act : fact Z Z := mk_fact Z Z bfe_mul (fun x => x).
Definition xb_act : fact Z xfe := mk_fact Z xfe xscale xlift.
Definition xx_act : fact xfe xfe := mk_fact xfe xfe xmul (fun x => x).
