(* lib/FieldTheory.v - the algebra interface of the polynomial / NTT properties (C06-C09, C17).
   Standard library only (no mathcomp); equality is Leibniz equality, so `ring` and `field` work.

   INTERFACE (everything other files are meant to use)

   1. Abstract fields.
        Record fieldK (K : Type) := { k0 k1 : K; kadd kmul ksub : K -> K -> K; kopp : K -> K;
                                      kdiv : K -> K -> K; kinv : K -> K;
                                      kFT : field_theory k0 k1 kadd kmul ksub kopp kdiv kinv eq;
                                      keq_dec : forall x y : K, {x = y} + {x <> y} }.
      Use inside a Section:
          Context {K : Type} (fk : fieldK K).
          Add Field kfield : (kFT fk).            (* now `ring` / `field` solve goals written with kadd fk .. *)
      (or `Import FieldNotations` style local notations, see Section KTheory below for the pattern).
        kpow fk x (n : nat)     x^n            kpow_0 kpow_S kpow_add kpow_mul kpow_1_l kpow_mul_l
        kpowZ fk x (e : Z)      x^(Z.to_nat e) (the exponent type of `fpow`)
        kofZ fk (z : Z)         the image of an integer (ring morphism: kofZ_0 kofZ_1 kofZ_add kofZ_mul kofZ_opp kofZ_sub)
        ksum fk f n             sum_{j<n} f j  (ksum_ext ksum_add ksum_mul_l ksum_0 ...)
        k_integral              kmul x y = k0 -> x = k0 \/ y = k0
        kinv_l kinv_r           x <> 0 -> /x * x = 1, x * /x = 1
   2. Refinement of an operations record (lib/FieldOps.v, `fops F`) to an abstract field:
        Record field_ok (o : fops F) (fk : fieldK K) (ok : F -> Prop) (den : F -> K) : Prop
      `ok` = representation invariant (canonical Montgomery word, ...), `den` = denoted field element.
      Fields: fo_zero fo_one fo_add fo_sub fo_mul fo_neg fo_inv fo_inv0 fo_eqb fo_inj fo_from fo_pow
      (statements below).  Generic algorithms are proved in a Section with hypothesis
      `field_ok ops fk ok den`; the base-field instance is  proofs/BFieldOk.v : bfe_field_ok.
        kops fk : fops K,  kact fk : fact K K   the ideal operations record of the field itself
        kops_field_ok : field_ok (kops fk) fk (fun _ => True) (fun x => x)
   3. The concrete prime field  Fp = { x : Z | 0 <= x < P } (P = 2^64 - 2^32 + 1, Lucas.P):
        fp_of : Z -> Fp (reduction mod P)   fval : Fp -> Z   Fp_eq : fval a = fval b -> a = b
        fp_field : fieldK Fp                 (field axioms from Lucas.fermat)
        fval_add fval_mul fval_sub fval_opp fval_of : the operations are arithmetic mod P
        fp_kpow : fval (kpow fp_field x n) = fval x ^ n mod P
        fp_kofZ : kofZ fp_field z = fp_of z *)
From Coq Require Import ZArith Lia List Bool Ring Field Field_theory Ring_theory InitialRing Setoid Eqdep_dec.
From TF Require Import FieldOps Lucas.
Import ListNotations.
Open Scope Z_scope.

(* ------------------------------------------------------------------ abstract fields *)
Record fieldK (K : Type) : Type := mk_fieldK {
  k0 : K; k1 : K;
  kadd : K -> K -> K; kmul : K -> K -> K; ksub : K -> K -> K; kopp : K -> K;
  kdiv : K -> K -> K; kinv : K -> K;
  kFT : field_theory k0 k1 kadd kmul ksub kopp kdiv kinv eq;
  keq_dec : forall x y : K, {x = y} + {x <> y}
}.
Arguments k0 {K}. Arguments k1 {K}. Arguments kadd {K}. Arguments kmul {K}. Arguments ksub {K}.
Arguments kopp {K}. Arguments kdiv {K}. Arguments kinv {K}. Arguments kFT {K}. Arguments keq_dec {K}.

Section KTheory.
  Context {K : Type} (fk : fieldK K).
  Local Notation "0" := (k0 fk).
  Local Notation "1" := (k1 fk).
  Local Infix "+" := (kadd fk).
  Local Infix "*" := (kmul fk).
  Local Infix "-" := (ksub fk).
  Local Notation "- x" := (kopp fk x).
  Local Notation "/ x" := (kinv fk x).
  Add Field kfield_KTheory : (kFT fk).

  Fixpoint kpow (x : K) (n : nat) : K :=
    match n with O => 1 | S m => x * kpow x m end.
  Definition kpowZ (x : K) (e : Z) : K := kpow x (Z.to_nat e).
  Definition kofZ (z : Z) : K := gen_phiZ 0 1 (kadd fk) (kmul fk) (kopp fk) z.
  Fixpoint ksum (f : nat -> K) (n : nat) : K :=
    match n with O => 0 | S m => ksum f m + f m end.

  Lemma kinv_l x : x <> 0 -> / x * x = 1.
  Proof. intros H. field. exact H. Qed.
  Lemma kinv_r x : x <> 0 -> x * / x = 1.
  Proof. intros H. field. exact H. Qed.
  Lemma k1_neq_0 : 1 <> 0.
  Proof. exact (F_1_neq_0 (kFT fk)). Qed.
  Lemma k_integral x y : x * y = 0 -> x = 0 \/ y = 0.
  Proof.
    intros H. destruct (keq_dec fk x 0) as [E|E]; [left; exact E|right].
    transitivity (/ x * (x * y)); [field; exact E|]. rewrite H. ring.
  Qed.
  Lemma kmul_cancel_l x a b : x <> 0 -> x * a = x * b -> a = b.
  Proof.
    intros Hx H. transitivity (/ x * (x * a)); [field; exact Hx|]. rewrite H. field. exact Hx.
  Qed.
  Lemma kopp_involutive x : - - x = x. Proof. ring. Qed.
  Lemma kinv_neq_0 x : x <> 0 -> / x <> 0.
  Proof.
    intros Hx E. apply k1_neq_0. rewrite <- (kinv_l x Hx), E. ring.
  Qed.
  Lemma kinv_unique x y : y * x = 1 -> y = / x.
  Proof.
    intros H. assert (Hx : x <> 0).
    { intros E. apply k1_neq_0. rewrite <- H, E. ring. }
    transitivity (y * x * / x); [field; exact Hx|]. rewrite H. ring.
  Qed.
  Lemma kinv_involutive x : x <> 0 -> / / x = x.
  Proof. intros Hx. symmetry. apply kinv_unique. apply kinv_r. exact Hx. Qed.

  (* powers *)
  Lemma kpow_0 x : kpow x 0 = 1. Proof. reflexivity. Qed.
  Lemma kpow_S x n : kpow x (S n) = x * kpow x n. Proof. reflexivity. Qed.
  Lemma kpow_1 x : kpow x 1 = x. Proof. cbn. ring. Qed.
  Lemma kpow_add x n m : kpow x (n + m) = kpow x n * kpow x m.
  Proof. induction n; cbn [kpow Nat.add]; [ring|rewrite IHn; ring]. Qed.
  Lemma kpow_1_l n : kpow 1 n = 1.
  Proof. induction n; cbn [kpow]; [reflexivity|rewrite IHn; ring]. Qed.
  Lemma kpow_mul x n m : kpow x (n * m) = kpow (kpow x n) m.
  Proof.
    induction m; cbn [kpow]; [rewrite Nat.mul_0_r; reflexivity|].
    rewrite Nat.mul_succ_r, Nat.add_comm, kpow_add, IHm. reflexivity.
  Qed.
  Lemma kpow_mul_l x y n : kpow (x * y) n = kpow x n * kpow y n.
  Proof. induction n; cbn [kpow]; [ring|rewrite IHn; ring]. Qed.
  Lemma kpow_0_l n : kpow 0 (S n) = 0. Proof. cbn [kpow]. ring. Qed.
  Lemma kpow_neq_0 x n : x <> 0 -> kpow x n <> 0.
  Proof.
    intros Hx. induction n; cbn [kpow]; [exact k1_neq_0|].
    intros E. destruct (k_integral _ _ E); contradiction.
  Qed.
  Lemma kpow_inv x n : x <> 0 -> kpow (/ x) n = / kpow x n.
  Proof.
    intros Hx. apply kinv_unique. rewrite <- kpow_mul_l, kinv_l by exact Hx. apply kpow_1_l.
  Qed.
  Lemma kpow_opp1_2 : kpow (- (1)) 2 = 1. Proof. cbn [kpow]. ring. Qed.
  Lemma kpowZ_of_nat x n : kpowZ x (Z.of_nat n) = kpow x n.
  Proof. unfold kpowZ. rewrite Nat2Z.id. reflexivity. Qed.

  (* the integers in K *)
  Lemma kofZ_morph : ring_morph 0 1 (kadd fk) (kmul fk) (ksub fk) (kopp fk) eq
                                0%Z 1%Z Z.add Z.mul Z.sub Z.opp Zeq_bool kofZ.
  Proof.
    apply gen_phiZ_morph.
    - exact (Eqsth K).
    - exact (Eq_ext (kadd fk) (kmul fk) (kopp fk)).
    - exact (F_R (kFT fk)).
  Qed.
  Lemma kofZ_0 : kofZ 0 = 0. Proof. exact (morph0 kofZ_morph). Qed.
  Lemma kofZ_1 : kofZ 1 = 1. Proof. exact (morph1 kofZ_morph). Qed.
  Lemma kofZ_add a b : kofZ (a + b) = kofZ a + kofZ b. Proof. exact (morph_add kofZ_morph a b). Qed.
  Lemma kofZ_mul a b : kofZ (a * b) = kofZ a * kofZ b. Proof. exact (morph_mul kofZ_morph a b). Qed.
  Lemma kofZ_sub a b : kofZ (a - b) = kofZ a - kofZ b. Proof. exact (morph_sub kofZ_morph a b). Qed.
  Lemma kofZ_opp a : kofZ (- a) = - kofZ a. Proof. exact (morph_opp kofZ_morph a). Qed.
  Lemma kofZ_succ_nat n : kofZ (Z.of_nat (S n)) = kofZ (Z.of_nat n) + 1.
  Proof. rewrite Nat2Z.inj_succ. unfold Z.succ. rewrite kofZ_add, kofZ_1. reflexivity. Qed.

  (* finite sums *)
  Lemma ksum_ext f g n : (forall j, (j < n)%nat -> f j = g j) -> ksum f n = ksum g n.
  Proof.
    induction n; intros H; cbn [ksum]; [reflexivity|].
    rewrite IHn by (intros; apply H; lia). rewrite H by lia. reflexivity.
  Qed.
  Lemma ksum_0 n : ksum (fun _ => 0) n = 0.
  Proof. induction n; cbn [ksum]; [reflexivity|rewrite IHn; ring]. Qed.
  Lemma ksum_add f g n : ksum (fun j => f j + g j) n = ksum f n + ksum g n.
  Proof. induction n; cbn [ksum]; [ring|rewrite IHn; ring]. Qed.
  Lemma ksum_mul_l c f n : ksum (fun j => c * f j) n = c * ksum f n.
  Proof. induction n; cbn [ksum]; [ring|rewrite IHn; ring]. Qed.
  Lemma ksum_mul_r c f n : ksum (fun j => f j * c) n = ksum f n * c.
  Proof. induction n; cbn [ksum]; [ring|rewrite IHn; ring]. Qed.
  Lemma ksum_const c n : ksum (fun _ => c) n = kofZ (Z.of_nat n) * c.
  Proof.
    induction n; [cbn [ksum]; change (Z.of_nat 0) with 0%Z; rewrite kofZ_0; ring|].
    cbn [ksum]. rewrite IHn, kofZ_succ_nat. ring.
  Qed.
  (* sum over 2h indices = sum over the even ones + sum over the odd ones *)
  Lemma ksum_even_odd f h :
    ksum f (2 * h) = ksum (fun j => f (2 * j)%nat) h + ksum (fun j => f (2 * j + 1)%nat) h.
  Proof.
    induction h; [cbn; ring|].
    replace (2 * S h)%nat with (S (S (2 * h))) by lia. cbn [ksum]. rewrite IHh.
    replace (S (2 * h)) with (2 * h + 1)%nat by lia. ring.
  Qed.
  (* exchange of two finite sums *)
  Lemma ksum_swap (f : nat -> nat -> K) n m :
    ksum (fun i => ksum (fun j => f i j) m) n = ksum (fun j => ksum (fun i => f i j) n) m.
  Proof.
    induction n; cbn [ksum]; [symmetry; apply ksum_0|].
    rewrite IHn, <- ksum_add. reflexivity.
  Qed.
  (* only one non-zero term *)
  Lemma ksum_single f n k : (k < n)%nat -> (forall j, (j < n)%nat -> j <> k -> f j = 0) -> ksum f n = f k.
  Proof.
    induction n; intros Hk H; [lia|]. cbn [ksum].
    destruct (Nat.eq_dec k n) as [->|Hne].
    - rewrite (ksum_ext f (fun _ => 0)) by (intros; apply H; lia). rewrite ksum_0. ring.
    - rewrite IHn by (try lia; intros; apply H; lia). rewrite (H n) by lia. ring.
  Qed.
  (* geometric sum: (x - 1) * sum_{j<n} x^j = x^n - 1 *)
  Lemma ksum_geometric x n : (x - 1) * ksum (fun j => kpow x j) n = kpow x n - 1.
  Proof. induction n; cbn [ksum kpow]; [ring|]. transitivity ((x - 1) * ksum (fun j => kpow x j) n + (x - 1) * kpow x n); [ring|]. rewrite IHn. ring. Qed.
End KTheory.

(* ------------------------------------------------------------------ refinement of an ops record *)
Record field_ok {F K : Type} (o : fops F) (fk : fieldK K) (ok : F -> Prop) (den : F -> K) : Prop := mk_field_ok {
  fo_zero : ok (fzero o) /\ den (fzero o) = k0 fk;
  fo_one : ok (fone o) /\ den (fone o) = k1 fk;
  fo_add : forall a b, ok a -> ok b -> ok (fadd o a b) /\ den (fadd o a b) = kadd fk (den a) (den b);
  fo_sub : forall a b, ok a -> ok b -> ok (fsub o a b) /\ den (fsub o a b) = ksub fk (den a) (den b);
  fo_mul : forall a b, ok a -> ok b -> ok (fmul o a b) /\ den (fmul o a b) = kmul fk (den a) (den b);
  fo_neg : forall a, ok a -> ok (fneg o a) /\ den (fneg o a) = kopp fk (den a);
  (* Inverse::inverse: panics exactly on zero *)
  fo_inv : forall a, ok a -> den a <> k0 fk -> exists y, finv o a = Some y /\ ok y /\ den y = kinv fk (den a);
  fo_inv0 : forall a, ok a -> den a = k0 fk -> finv o a = None;
  (* derived PartialEq decides equality of the denoted elements; representations are unique *)
  fo_eqb : forall a b, ok a -> ok b -> (feqb o a b = true <-> den a = den b);
  fo_inj : forall a b, ok a -> ok b -> den a = den b -> a = b;
  fo_from : forall v, 0 <= v < 2 ^ 64 -> ok (ffrom_u64 o v) /\ den (ffrom_u64 o v) = kofZ fk v;
  fo_pow : forall a e, ok a -> 0 <= e < 2 ^ 64 -> ok (fpow o a e) /\ den (fpow o a e) = kpowZ fk (den a) e
}.

Section FieldOkFacts.
  Context {F K : Type} (o : fops F) (fk : fieldK K) (ok : F -> Prop) (den : F -> K).
  Hypothesis H : field_ok o fk ok den.
  Lemma fo_is_zero a : ok a -> (fis_zero o a = true <-> den a = k0 fk).
  Proof.
    intros Ha. unfold fis_zero. rewrite (fo_eqb _ _ _ _ H a (fzero o) Ha (proj1 (fo_zero _ _ _ _ H))).
    rewrite (proj2 (fo_zero _ _ _ _ H)). reflexivity.
  Qed.
  Lemma fo_inv_or_zero a : ok a ->
    ok (finv_or_zero o a) /\
    den (finv_or_zero o a) = if keq_dec fk (den a) (k0 fk) then k0 fk else kinv fk (den a).
  Proof.
    intros Ha. unfold finv_or_zero. destruct (fis_zero o a) eqn:E.
    - apply (fo_is_zero a Ha) in E. destruct (keq_dec fk (den a) (k0 fk)); [|contradiction].
      exact (fo_zero _ _ _ _ H).
    - assert (Hn : den a <> k0 fk).
      { intros E'. apply (fo_is_zero a Ha) in E'. congruence. }
      destruct (keq_dec fk (den a) (k0 fk)); [contradiction|].
      destruct (fo_inv _ _ _ _ H a Ha Hn) as [y [E1 [E2 E3]]]. rewrite E1. split; assumption.
  Qed.
End FieldOkFacts.

(* the operations record of an abstract field itself (the "ideal" instance generic algorithms are compared with) *)
Definition kops {K : Type} (fk : fieldK K) : fops K :=
  mk_fops K (k0 fk) (k1 fk) (kadd fk) (ksub fk) (kmul fk) (kopp fk)
    (fun x => if keq_dec fk x (k0 fk) then None else Some (kinv fk x))
    (fun x y => if keq_dec fk x y then true else false)
    (kofZ fk) (kpowZ fk) (fun _ => None).
Definition kact {K : Type} (fk : fieldK K) : fact K K := mk_fact K K (kmul fk) (fun x => x).
Lemma kops_field_ok {K : Type} (fk : fieldK K) : field_ok (kops fk) fk (fun _ => True) (fun x => x).
Proof.
  constructor; cbn [kops fzero fone fadd fsub fmul fneg finv feqb ffrom_u64 fpow]; try (intros; split; [exact I|reflexivity]).
  - intros a _ Hn. exists (kinv fk a). destruct (keq_dec fk a (k0 fk)); [contradiction|]. repeat split.
  - intros a _ Hz. destruct (keq_dec fk a (k0 fk)); [reflexivity|contradiction].
  - intros a b _ _. destruct (keq_dec fk a b); split; intros; congruence.
  - intros a b _ _ H. exact H.
Qed.

(* ------------------------------------------------------------------ the prime field Fp *)
Definition inFp (x : Z) : bool := (0 <=? x) && (x <? P).
Record Fp : Type := mkFp { fval : Z; fval_ok : inFp fval = true }.

Lemma inFp_spec x : inFp x = true <-> 0 <= x < P.
Proof. unfold inFp. rewrite andb_true_iff, Z.leb_le, Z.ltb_lt. reflexivity. Qed.
Lemma fval_range a : 0 <= fval a < P.
Proof. apply inFp_spec, fval_ok. Qed.
Lemma Fp_eq a b : fval a = fval b -> a = b.
Proof.
  destruct a as [x Hx], b as [y Hy]. cbn. intros ->. f_equal.
  apply UIP_dec, bool_dec.
Qed.
Lemma inFp_mod x : inFp (x mod P) = true.
Proof. apply inFp_spec, Z.mod_pos_bound, P_pos. Qed.
Definition fp_of (x : Z) : Fp := mkFp (x mod P) (inFp_mod x).
Lemma fval_of x : fval (fp_of x) = x mod P. Proof. reflexivity. Qed.
Lemma fp_of_fval a : fp_of (fval a) = a.
Proof. apply Fp_eq. rewrite fval_of. apply Z.mod_small, fval_range. Qed.
Lemma fp_of_eq x y : x mod P = y mod P -> fp_of x = fp_of y.
Proof. intros H. apply Fp_eq. exact H. Qed.
Lemma fp_of_mod x : fp_of (x mod P) = fp_of x.
Proof. apply fp_of_eq. apply Z.mod_mod. unfold P; lia. Qed.

Definition fp_add (a b : Fp) : Fp := fp_of (fval a + fval b).
Definition fp_mul (a b : Fp) : Fp := fp_of (fval a * fval b).
Definition fp_sub (a b : Fp) : Fp := fp_of (fval a - fval b).
Definition fp_opp (a : Fp) : Fp := fp_of (- fval a).
Definition fp_inv (a : Fp) : Fp := fp_of (fval a ^ (P - 2)).
Definition fp_div (a b : Fp) : Fp := fp_mul a (fp_inv b).
Definition fp_eq_dec (a b : Fp) : {a = b} + {a <> b}.
Proof.
  destruct (Z.eq_dec (fval a) (fval b)) as [E|E]; [left; apply Fp_eq; exact E|right; intros ->; apply E; reflexivity].
Defined.

Lemma fval_add a b : fval (fp_add a b) = (fval a + fval b) mod P. Proof. reflexivity. Qed.
Lemma fval_mul a b : fval (fp_mul a b) = (fval a * fval b) mod P. Proof. reflexivity. Qed.
Lemma fval_sub a b : fval (fp_sub a b) = (fval a - fval b) mod P. Proof. reflexivity. Qed.
Lemma fval_opp a : fval (fp_opp a) = (- fval a) mod P. Proof. reflexivity. Qed.

Lemma fval_0 : fval (fp_of 0) = 0. Proof. reflexivity. Qed.
Lemma fval_1 : fval (fp_of 1) = 1. Proof. reflexivity. Qed.
Local Ltac fp_ring :=
  intros; apply Fp_eq; rewrite ?fval_add, ?fval_mul, ?fval_sub, ?fval_opp, ?fval_0, ?fval_1;
  rewrite ?fval_add, ?fval_mul, ?fval_sub, ?fval_opp, ?fval_0, ?fval_1;
  repeat (rewrite ?Z.add_mod_idemp_l, ?Z.add_mod_idemp_r, ?Z.mul_mod_idemp_l, ?Z.mul_mod_idemp_r,
            ?Zminus_mod_idemp_l, ?Zminus_mod_idemp_r by (unfold P; lia));
  try (f_equal; ring).

Lemma fp_ring_theory : ring_theory (fp_of 0) (fp_of 1) fp_add fp_mul fp_sub fp_opp eq.
Proof.
  constructor.
  - fp_ring; try (rewrite Z.add_0_l; apply Z.mod_small, fval_range).
  - fp_ring.
  - fp_ring.
  - fp_ring; try (rewrite Z.mul_1_l; apply Z.mod_small, fval_range).
  - fp_ring.
  - fp_ring.
  - fp_ring.
  - fp_ring.
  - fp_ring; try (replace (fval x + - fval x) with 0 by ring; reflexivity).
Qed.

Lemma fp_inv_l a : a <> fp_of 0 -> fp_mul (fp_inv a) a = fp_of 1.
Proof.
  intros Ha. apply Fp_eq. rewrite fval_mul, fval_1. unfold fp_inv. rewrite fval_of.
  rewrite Z.mul_mod_idemp_l by (unfold P; lia).
  replace (fval a ^ (P - 2) * fval a) with (fval a ^ (P - 1)).
  - apply (fermat (fval a)).
    pose proof (fval_range a) as Hr. assert (fval a <> 0); [|lia].
    intros E. apply Ha. apply Fp_eq. rewrite E. reflexivity.
  - replace (P - 1) with (P - 2 + 1) by ring. rewrite Z.pow_add_r, Z.pow_1_r by (unfold P; lia). reflexivity.
Qed.

Lemma fp_field_theory : field_theory (fp_of 0) (fp_of 1) fp_add fp_mul fp_sub fp_opp fp_div fp_inv eq.
Proof.
  constructor.
  - exact fp_ring_theory.
  - intros E. apply (f_equal fval) in E. rewrite fval_0, fval_1 in E. discriminate E.
  - reflexivity.
  - exact fp_inv_l.
Qed.

Definition fp_field : fieldK Fp :=
  mk_fieldK Fp (fp_of 0) (fp_of 1) fp_add fp_mul fp_sub fp_opp fp_div fp_inv fp_field_theory fp_eq_dec.

Lemma fp_kpow x n : fval (kpow fp_field x n) = fval x ^ Z.of_nat n mod P.
Proof.
  induction n.
  - reflexivity.
  - cbn [kpow]. change (kmul fp_field) with fp_mul. rewrite fval_mul, IHn.
    rewrite Z.mul_mod_idemp_r by (unfold P; lia). rewrite Nat2Z.inj_succ, Z.pow_succ_r by lia. reflexivity.
Qed.

Lemma fp_of_add x y : fp_of (x + y) = fp_add (fp_of x) (fp_of y).
Proof. apply Fp_eq. rewrite fval_add, !fval_of. apply Z.add_mod. unfold P; lia. Qed.
Lemma fp_of_mul x y : fp_of (x * y) = fp_mul (fp_of x) (fp_of y).
Proof. apply Fp_eq. rewrite fval_mul, !fval_of. apply Z.mul_mod. unfold P; lia. Qed.
Lemma fp_of_opp x : fp_of (- x) = fp_opp (fp_of x).
Proof.
  apply Fp_eq. rewrite fval_opp, !fval_of. rewrite <- (Z.sub_0_l x), <- (Z.sub_0_l (x mod P)).
  rewrite Zminus_mod_idemp_r. reflexivity.
Qed.

Lemma fp_two : fp_add (fp_of 1) (fp_of 1) = fp_of 2.
Proof. apply Fp_eq. reflexivity. Qed.
Lemma fp_kofpos p : gen_phiPOS (fp_of 1) fp_add fp_mul p = fp_of (Zpos p).
Proof.
  rewrite <- (same_gen (Eqsth Fp) (Eq_ext fp_add fp_mul fp_opp) (Rth_ARth (Eqsth Fp) (Eq_ext fp_add fp_mul fp_opp) fp_ring_theory)).
  induction p; cbn [gen_phiPOS1].
  - rewrite IHp, Pos2Z.inj_xI, fp_of_add, fp_of_mul, fp_two. apply (Radd_comm fp_ring_theory).
  - rewrite IHp, Pos2Z.inj_xO, fp_of_mul, fp_two. reflexivity.
  - reflexivity.
Qed.

Lemma fp_kofZ z : kofZ fp_field z = fp_of z.
Proof.
  unfold kofZ. destruct z; cbn [gen_phiZ].
  - reflexivity.
  - apply fp_kofpos.
  - change (kopp fp_field) with fp_opp. cbn [k1 kadd kmul fp_field]. rewrite fp_kofpos.
    rewrite <- fp_of_opp. reflexivity.
Qed.
