(* Lucas.v - primality of the Goldilocks prime P = 2^64 - 2^32 + 1 and Fermat's little theorem for it,
   from a Lucas certificate (generator 7, factorisation of P-1).  Stdlib only, no axioms. *)
From Coq Require Import ZArith Znumtheory Zpow_facts Lia List.
Import ListNotations.
Open Scope Z_scope.

Definition P : Z := 18446744069414584321.
Definition G : Z := 7.

(* verified square-and-multiply *)
Fixpoint powmod_pos (a : Z) (e : positive) (m : Z) : Z :=
  match e with
  | xH => a mod m
  | xO e' => let r := powmod_pos a e' m in (r * r) mod m
  | xI e' => let r := powmod_pos a e' m in ((r * r) mod m * (a mod m)) mod m
  end.
Definition powmod (a e m : Z) : Z :=
  match e with Z0 => 1 mod m | Zpos e' => powmod_pos a e' m | Zneg _ => 0 end.

Lemma powmod_pos_spec a e m : 0 < m -> powmod_pos a e m = (a ^ Zpos e) mod m.
Proof.
  intros Hm. induction e as [e IH|e IH|]; cbn [powmod_pos].
  - rewrite IH. rewrite Pos2Z.inj_xI.
    replace (2 * Z.pos e + 1) with (Z.pos e + Z.pos e + 1) by lia.
    rewrite !Z.pow_add_r, Z.pow_1_r by lia.
    rewrite <- (Z.mul_mod (a ^ Z.pos e) (a ^ Z.pos e) m) by lia.
    rewrite <- (Z.mul_mod (a ^ Z.pos e * a ^ Z.pos e) a m) by lia. reflexivity.
  - rewrite IH. rewrite Pos2Z.inj_xO.
    replace (2 * Z.pos e) with (Z.pos e + Z.pos e) by lia.
    rewrite Z.pow_add_r by lia. rewrite <- (Z.mul_mod (a ^ Z.pos e) (a ^ Z.pos e) m) by lia. reflexivity.
  - rewrite Z.pow_1_r. reflexivity.
Qed.

Lemma powmod_spec a e m : 0 < m -> 0 <= e -> powmod a e m = (a ^ e) mod m.
Proof.
  intros Hm He. destruct e as [|e|e]; cbn [powmod].
  - reflexivity.
  - apply powmod_pos_spec; assumption.
  - lia.
Qed.

Definition N := P - 1.
Lemma N_factor : N = 2^32 * 3 * 5 * 17 * 257 * 65537. Proof. reflexivity. Qed.

Lemma cert_one : powmod G N P = 1. Proof. vm_compute. reflexivity. Qed.
Lemma cert_2 : powmod G (N / 2) P <> 1. Proof. vm_compute. discriminate. Qed.
Lemma cert_3 : powmod G (N / 3) P <> 1. Proof. vm_compute. discriminate. Qed.
Lemma cert_5 : powmod G (N / 5) P <> 1. Proof. vm_compute. discriminate. Qed.
Lemma cert_17 : powmod G (N / 17) P <> 1. Proof. vm_compute. discriminate. Qed.
Lemma cert_257 : powmod G (N / 257) P <> 1. Proof. vm_compute. discriminate. Qed.
Lemma cert_65537 : powmod G (N / 65537) P <> 1. Proof. vm_compute. discriminate. Qed.

(* small primes by full-range check with a Z counter *)
Fixpoint nd (fuel : nat) (d q : Z) : bool :=
  match fuel with O => true | S f => negb (q mod d =? 0) && nd f (d + 1) q end.
Lemma nd_spec f : forall d q, 0 < d -> nd f d q = true ->
  forall n, d <= n < d + Z.of_nat f -> ~ (n | q).
Proof.
  induction f as [|f IH]; intros d q Hd H n Hn; [lia|].
  cbn [nd] in H. apply andb_prop in H. destruct H as [H1 H2].
  destruct (Z.eq_dec n d) as [->|Hne].
  - apply Bool.negb_true_iff, Z.eqb_neq in H1. intros [k Hk]. apply H1. subst q. apply Z.mod_mul. lia.
  - apply (IH (d + 1) q); [lia|assumption|lia].
Qed.
Definition no_divisor_below (q : Z) : bool := nd (Z.to_nat (q - 2)) 2 q.
Lemma small_prime q : 1 < q -> no_divisor_below q = true -> prime q.
Proof.
  intros Hq H. apply prime_alt. split; [assumption|].
  intros n Hn. apply (nd_spec _ 2 q ltac:(lia) H). rewrite Z2Nat.id by lia. lia.
Qed.
Lemma prime_65537 : prime 65537. Proof. apply small_prime; [lia|]. vm_compute. reflexivity. Qed.
Lemma prime_257 : prime 257. Proof. apply small_prime; [lia|vm_compute; reflexivity]. Qed.
Lemma prime_17 : prime 17. Proof. apply small_prime; [lia|vm_compute; reflexivity]. Qed.
Lemma prime_5 : prime 5. Proof. apply small_prime; [lia|vm_compute; reflexivity]. Qed.

(* prime divisors of N are in the list *)
Lemma prime_div_N q : prime q -> (q | N) -> q = 2 \/ q = 3 \/ q = 5 \/ q = 17 \/ q = 257 \/ q = 65537.
Proof.
  intros Hq Hd. rewrite N_factor in Hd.
  apply prime_mult in Hd; [|assumption]. destruct Hd as [Hd|Hd].
  2:{ right; right; right; right; right. apply prime_div_prime; auto using prime_65537. }
  apply prime_mult in Hd; [|assumption]. destruct Hd as [Hd|Hd].
  2:{ right; right; right; right; left. apply prime_div_prime; auto using prime_257. }
  apply prime_mult in Hd; [|assumption]. destruct Hd as [Hd|Hd].
  2:{ right; right; right; left. apply prime_div_prime; auto using prime_17. }
  apply prime_mult in Hd; [|assumption]. destruct Hd as [Hd|Hd].
  2:{ right; right; left. apply prime_div_prime; auto using prime_5. }
  apply prime_mult in Hd; [|assumption]. destruct Hd as [Hd|Hd].
  2:{ right; left. apply prime_div_prime; auto using prime_3. }
  left. apply (prime_power_prime q 2 32); auto using prime_2. lia.
Qed.


Lemma P_pos : 0 < P. Proof. reflexivity. Qed.
Lemma N_pos : 0 < N. Proof. reflexivity. Qed.
Definition pw (i : Z) := G ^ i mod P.
Lemma pw_range i : 0 <= pw i < P. Proof. apply Z.mod_pos_bound, P_pos. Qed.
Lemma pw_N : pw N = 1.
Proof. unfold pw. rewrite <- powmod_spec by (try apply P_pos; unfold N, P; lia). apply cert_one. Qed.
Lemma pw_add i j : 0 <= i -> 0 <= j -> pw (i + j) = (pw i * pw j) mod P.
Proof. intros. unfold pw. rewrite Z.pow_add_r by assumption. apply Z.mul_mod. unfold P; lia. Qed.
Lemma pw_mul i k : 0 <= i -> 0 <= k -> pw (i * k) = (pw i) ^ k mod P.
Proof. intros. unfold pw. rewrite Z.pow_mul_r by assumption. apply Zpower_mod. apply P_pos. Qed.
Lemma one_pow_mod k : 0 <= k -> 1 ^ k mod P = 1.
Proof. intros. rewrite Z.pow_1_l by assumption. reflexivity. Qed.

Lemma ord_mod a b : 0 <= a -> 0 < b -> pw a = 1 -> pw b = 1 -> pw (a mod b) = 1.
Proof.
  intros Ha Hb H1 H2.
  assert (Hdm := Z.div_mod a b ltac:(lia)).
  assert (Hq : 0 <= a / b) by (apply Z.div_pos; lia).
  assert (Hr : 0 <= a mod b) by (apply Z.mod_pos_bound; lia).
  rewrite Hdm in H1. rewrite pw_add in H1 by (try apply Z.mul_nonneg_nonneg; lia).
  rewrite pw_mul in H1 by lia. rewrite H2, one_pow_mod in H1 by assumption.
  rewrite Z.mul_1_l in H1. rewrite Z.mod_small in H1 by apply pw_range. exact H1.
Qed.

Lemma ord_gcd : forall b, 0 <= b -> forall a, 0 <= a -> pw a = 1 -> pw b = 1 -> pw (Z.gcd a b) = 1.
Proof.
  intros b Hb. pattern b. apply Zlt_0_ind; [|exact Hb]. clear b Hb.
  intros b IH Hb a Ha H1 H2.
  destruct (Z.eq_dec b 0) as [->|Hnz].
  - rewrite Z.gcd_0_r, Z.abs_eq by assumption. exact H1.
  - assert (Hm : 0 <= a mod b < b) by (apply Z.mod_pos_bound; lia).
    rewrite Z.gcd_comm, <- Z.gcd_mod by assumption. rewrite Z.gcd_comm.
    apply IH; try lia; try assumption. apply ord_mod; try lia; assumption.
Qed.

Lemma exists_prime_factor : forall m, 1 < m -> exists q, prime q /\ (q | m).
Proof.
  intros m Hm. assert (H0 : 0 <= m) by lia. revert Hm. pattern m. apply Zlt_0_ind; [|exact H0].
  clear m H0. intros m IH _ Hm.
  destruct (prime_dec m) as [Hp|Hnp].
  - exists m. split; [assumption|apply Z.divide_refl].
  - destruct (not_prime_divide m Hm Hnp) as [n [Hn Hd]].
    destruct (IH n ltac:(lia) ltac:(lia)) as [q [Hq Hqn]].
    exists q. split; [assumption|]. eapply Z.divide_trans; eassumption.
Qed.

Lemma cert_list q : q = 2 \/ q = 3 \/ q = 5 \/ q = 17 \/ q = 257 \/ q = 65537 -> pw (N / q) <> 1.
Proof.
  intros H Hc. unfold pw in Hc.
  rewrite <- powmod_spec in Hc; [|apply P_pos|].
  - destruct H as [->|[->|[->|[->|[->| ->]]]]];
      [apply cert_2|apply cert_3|apply cert_5|apply cert_17|apply cert_257|apply cert_65537]; exact Hc.
  - apply Z.div_pos; [unfold N, P; lia|]. destruct H as [->|[->|[->|[->|[->| ->]]]]]; lia.
Qed.

Lemma no_small_period k : 0 < k < N -> pw k <> 1.
Proof.
  intros Hk H1.
  assert (He : pw (Z.gcd k N) = 1).
  { apply ord_gcd. - unfold N, P; lia. - lia. - exact H1. - exact pw_N. }
  set (e := Z.gcd k N) in *.
  assert (HeN : (e | N)) by apply Z.gcd_divide_r.
  assert (Hek : (e | k)) by apply Z.gcd_divide_l.
  assert (Hepos : 0 < e).
  { assert (0 <= e) by apply Z.gcd_nonneg. destruct (Z.eq_dec e 0) as [E|E]; [|lia].
    apply Z.gcd_eq_0_l in E. lia. }
  assert (Helt : e <= k) by (apply Z.divide_pos_le; [lia|assumption]).
  destruct HeN as [m Hm].
  assert (Hm1 : 1 < m) by nia.
  destruct (exists_prime_factor m Hm1) as [q [Hq [m' Hm']]].
  assert (HqN : (q | N)) by (exists (m' * e); rewrite Hm, Hm'; ring).
  assert (Hl := prime_div_N q Hq HqN).
  assert (Hq1 : 1 < q) by (destruct Hq; assumption).
  assert (HNq : N / q = e * m').
  { rewrite Hm, Hm'. replace (m' * q * e) with (e * m' * q) by ring. apply Z.div_mul. lia. }
  apply (cert_list q Hl). rewrite HNq.
  assert (Hm'pos : 0 <= m') by nia.
  rewrite pw_mul by lia. rewrite He. apply one_pow_mod. assumption.
Qed.

Lemma pw_inv i : 0 <= i <= N -> (pw i * pw (N - i)) mod P = 1.
Proof. intros. rewrite <- pw_add by lia. replace (i + (N - i)) with N by ring. apply pw_N. Qed.

Lemma pw_inj i j : 0 <= i < N -> 0 <= j < N -> pw i = pw j -> i = j.
Proof.
  revert i j.
  assert (W : forall i j, 0 <= i -> i < j -> j < N -> pw i = pw j -> False).
  { intros i j Hi Hij Hj E. apply (no_small_period (j - i)); [lia|].
    assert (A : pw j = (pw i * pw (j - i)) mod P).
    { rewrite <- pw_add by lia. f_equal. ring. }
    assert (B := pw_inv i ltac:(lia)).
    assert (R := pw_range (j - i)).
    (* pw (j-i) = pw(N-i) * pw i * pw (j-i) = pw (N-i) * pw j = pw (N-i) * pw i = 1 *)
    rewrite <- (Z.mod_small (pw (j - i)) P) by assumption.
    rewrite <- (Z.mul_1_l (pw (j - i))). rewrite <- B at 1.
    rewrite Z.mul_mod_idemp_l by (unfold P; lia).
    replace (pw i * pw (N - i) * pw (j - i)) with (pw (N - i) * (pw i * pw (j - i))) by ring.
    rewrite <- Z.mul_mod_idemp_r by (unfold P; lia). rewrite <- A, <- E.
    rewrite Z.mul_comm. exact B. }
  intros i j Hi Hj E. destruct (Z.lt_trichotomy i j) as [L|[L|L]]; [exfalso|exact L|exfalso].
  - eapply (W i j); lia || assumption.
  - eapply (W j i); lia.
Qed.

Lemma pw_nonzero i : 0 <= i <= N -> pw i <> 0.
Proof. intros H E. assert (B := pw_inv i H). rewrite E in B. discriminate B. Qed.

Lemma NoDup_map_inj_on {A B} (f : A -> B) l :
  (forall a b, In a l -> In b l -> f a = f b -> a = b) -> NoDup l -> NoDup (map f l).
Proof.
  induction l as [|x l IH]; intros Hinj Hnd; cbn [map]; [constructor|].
  inversion Hnd as [|? ? Hx Hl]; subst. constructor.
  - intros Hin. apply in_map_iff in Hin. destruct Hin as [y [E Hy]].
    assert (y = x) by (apply Hinj; [right; assumption|left; reflexivity|assumption]). subst. contradiction.
  - apply IH; [|assumption]. intros a b Ha Hb. apply Hinj; right; assumption.
Qed.

Section Pigeon.
  Variables (n p : Z) (m : nat) (f : Z -> Z).
  Hypothesis Hm : Z.of_nat m = n.
  Hypothesis Hnp : n = p - 1.
  Hypothesis f_range : forall i, 0 <= i < n -> 0 < f i < p.
  Hypothesis f_inj : forall i j, 0 <= i < n -> 0 <= j < n -> f i = f j -> i = j.
  Let Lf := map (fun k => f (Z.of_nat k)) (seq 0 m).
  Let La := map Z.of_nat (seq 1 m).
  Lemma pigeon_surj x : 0 < x < p -> exists i, 0 <= i < n /\ x = f i.
  Proof.
    intros Hx.
    assert (ND : NoDup Lf).
    { apply NoDup_map_inj_on; [|apply seq_NoDup].
      intros a b Ha Hb E. apply in_seq in Ha, Hb. apply Nat2Z.inj. apply f_inj; try lia; assumption. }
    assert (IN : incl Lf La).
    { intros y Hy. apply in_map_iff in Hy. destruct Hy as [k [<- Hk]]. apply in_seq in Hk.
      assert (R := f_range (Z.of_nat k) ltac:(lia)).
      apply in_map_iff. exists (Z.to_nat (f (Z.of_nat k))). split; [apply Z2Nat.id; lia|].
      apply in_seq. lia. }
    assert (I : incl La Lf).
    { apply NoDup_length_incl; [exact ND| |exact IN].
      unfold La, Lf. rewrite !map_length, !seq_length. apply Nat.le_refl. }
    assert (Hin : In x La).
    { apply in_map_iff. exists (Z.to_nat x). split; [apply Z2Nat.id; lia|]. apply in_seq. lia. }
    apply I in Hin. apply in_map_iff in Hin. destruct Hin as [k [E Hk]].
    apply in_seq in Hk. exists (Z.of_nat k). split; [lia|symmetry; exact E].
  Qed.
End Pigeon.

Lemma M_eq : Z.of_nat (Z.to_nat N) = N.
Proof. apply Z2Nat.id. discriminate. Qed.

Theorem generator_surj x : 0 < x < P -> exists i, 0 <= i < N /\ x = pw i.
Proof.
  apply (pigeon_surj N P (Z.to_nat N) pw M_eq eq_refl).
  - intros i Hi. assert (R := pw_range i). assert (NZ := pw_nonzero i ltac:(lia)). lia.
  - apply pw_inj.
Qed.

Theorem fermat x : 0 < x < P -> x ^ N mod P = 1.
Proof.
  intros Hx. destruct (generator_surj x Hx) as [i [Hi ->]].
  unfold pw. rewrite <- Zpower_mod by apply P_pos.
  rewrite <- Z.pow_mul_r by (unfold N, P; lia). rewrite Z.mul_comm.
  change (pw (N * i) = 1). rewrite pw_mul by (unfold N, P; lia). rewrite pw_N. apply one_pow_mod. lia.
Qed.

Theorem P_prime : prime P.
Proof.
  apply prime_intro; [reflexivity|]. intros n Hn.
  assert (F := fermat n ltac:(lia)).
  apply bezout_rel_prime.
  assert (D := Z.div_mod (n ^ N) P ltac:(unfold P; lia)). rewrite F in D.
  replace (n ^ N) with (n ^ (N - 1) * n) in D.
  2:{ rewrite <- (Z.pow_1_r n) at 2. rewrite <- Z.pow_add_r by (unfold N, P; lia). f_equal; ring. }
  apply (Bezout_intro n P 1 (n ^ (N - 1)) (- (n ^ (N - 1) * n / P))). lia.
Qed.
