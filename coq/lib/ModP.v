(* ModP.v - congruence modulo the Goldilocks prime as a setoid, so that value-level identities
   can be proved by `rewrite !mod_eqP` followed by `ring`. *)
From Coq Require Import ZArith Lia Setoid Morphisms.
From TF Require Import BFieldGen.
Open Scope Z_scope.

Definition eqP (a b : Z) : Prop := a mod P = b mod P.

Lemma P_nz : P <> 0. Proof. discriminate. Qed.

Global Instance eqP_equiv : Equivalence eqP.
Proof. unfold eqP; constructor; congruence. Qed.
Global Instance add_eqP : Proper (eqP ==> eqP ==> eqP) Z.add.
Proof.
  unfold eqP; intros a b H c d H'.
  rewrite (Z.add_mod a), (Z.add_mod b) by exact P_nz. rewrite H, H'. reflexivity.
Qed.
Global Instance sub_eqP : Proper (eqP ==> eqP ==> eqP) Z.sub.
Proof.
  unfold eqP; intros a b H c d H'.
  rewrite (Zminus_mod a), (Zminus_mod b). rewrite H, H'. reflexivity.
Qed.
Global Instance mul_eqP : Proper (eqP ==> eqP ==> eqP) Z.mul.
Proof.
  unfold eqP; intros a b H c d H'.
  rewrite (Z.mul_mod a), (Z.mul_mod b) by exact P_nz. rewrite H, H'. reflexivity.
Qed.
Global Instance opp_eqP : Proper (eqP ==> eqP) Z.opp.
Proof.
  intros a b H. change (eqP (0 - a) (0 - b)). rewrite H. reflexivity.
Qed.

Lemma mod_eqP a : eqP (a mod P) a.
Proof. unfold eqP. apply Z.mod_mod. exact P_nz. Qed.

Lemma eqP_of_eq a b : a = b -> eqP a b.
Proof. intros ->. reflexivity. Qed.

Lemma eqP_mod_eq a b : eqP a b -> a mod P = b mod P.
Proof. exact (fun H => H). Qed.

(* conversions between eqP and equations on residues, and decidability (eqP is opaque) *)
Lemma eqP_of_mod a b : a mod P = b mod P -> eqP a b.
Proof. exact (fun H => H). Qed.
Lemma eqP_to_mod a b : eqP a b -> a mod P = b mod P.
Proof. exact (fun H => H). Qed.
Lemma eqP_dec a b : {eqP a b} + {~ eqP a b}.
Proof. unfold eqP. apply Z.eq_dec. Qed.

Global Opaque eqP.

(* goal  x mod P = y mod P  where x, y contain nested `_ mod P`: strip the inner mods, close by ring *)
Ltac modP_ring :=
  apply eqP_mod_eq; repeat setoid_rewrite mod_eqP; apply eqP_of_eq; ring.

Global Instance pow_eqP : Proper (eqP ==> eq ==> eqP) Z.pow.
Proof.
  intros a b H n m <-. destruct n as [|p|p].
  - reflexivity.
  - induction p as [|p IH] using Pos.peano_ind.
    + rewrite !Z.pow_1_r. exact H.
    + rewrite Pos2Z.inj_succ, !Z.pow_succ_r by lia. apply mul_eqP; [exact H|exact IH].
  - reflexivity.
Qed.
