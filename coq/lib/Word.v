(* Word.v - semantics of Rust fixed-width integer operations over Z.
   Unsigned values of width w are integers in [0, 2^w).  Signed values of width w are
   integers in [-2^(w-1), 2^(w-1)).  Every operation writes its wrap-around explicitly.
   The translator tools/rs2v.py emits compositions of these operations; the companion
   "_ok" functions it emits collect the side conditions under which Rust's *unchecked*
   operators (+ - * << on integers) do not overflow (= do not panic in a checked build and
   do not wrap in a release build). *)
From Coq Require Import ZArith Bool Lia.
Open Scope Z_scope.

Definition wrap (w x : Z) : Z := x mod 2 ^ w.

(* wrapping_* and, for release builds, the plain operators *)
Definition wadd (w a b : Z) : Z := wrap w (a + b).
Definition wsub (w a b : Z) : Z := wrap w (a - b).
Definition wmul (w a b : Z) : Z := wrap w (a * b).

(* overflowing_* : result and carry/borrow flag *)
Definition ovf_add (w a b : Z) : Z * bool := (wrap w (a + b), 2 ^ w <=? a + b).
Definition ovf_sub (w a b : Z) : Z * bool := (wrap w (a - b), a <? b).

(* shifts; Rust panics (checked) / masks the amount (release) when k >= w: side condition *)
Definition wshl (w a k : Z) : Z := wrap w (a * 2 ^ k).
Definition wshr (a k : Z) : Z := a / 2 ^ k.
Definition wnot (w a : Z) : Z := 2 ^ w - 1 - a.

(* casts *)
Definition ucast (w a : Z) : Z := wrap w a.            (* any int -> unsigned of width w *)
Definition scast (w a : Z) : Z :=                        (* any int -> signed of width w *)
  let y := wrap w a in if y <? 2 ^ (w - 1) then y else y - 2 ^ w.
Definition b2z (b : bool) : Z := if b then 1 else 0.

(* side conditions of unchecked operators on unsigned operands *)
Definition add_ok (w a b : Z) : bool := a + b <? 2 ^ w.
Definition sub_ok (a b : Z) : bool := b <=? a.
Definition mul_ok (w a b : Z) : bool := a * b <? 2 ^ w.
Definition shift_ok (w k : Z) : bool := (0 <=? k) && (k <? w).
(* signed: result must stay in range *)
Definition sadd_ok (w a b : Z) : bool := (- 2 ^ (w - 1) <=? a + b) && (a + b <? 2 ^ (w - 1)).
Definition ssub_ok (w a b : Z) : bool := (- 2 ^ (w - 1) <=? a - b) && (a - b <? 2 ^ (w - 1)).

(* bit counting on unsigned values *)
Definition ilog2 (a : Z) : Z := Z.log2 a.                         (* a > 0 required: side condition *)
Definition bitlen (a : Z) : Z := if a =? 0 then 0 else Z.log2 a + 1.
Definition leading_zeros (w a : Z) : Z := w - bitlen a.
Fixpoint popcount_pos (p : positive) : Z :=
  match p with xH => 1 | xO q => popcount_pos q | xI q => 1 + popcount_pos q end.
Definition count_ones (a : Z) : Z := match a with Zpos p => popcount_pos p | _ => 0 end.
Fixpoint tz_pos (p : positive) : Z :=
  match p with xO q => 1 + tz_pos q | _ => 0 end.
Definition trailing_zeros (w a : Z) : Z := match a with Zpos p => tz_pos p | _ => w end.
Definition next_pow2 (a : Z) : Z := if a <=? 1 then 1 else 2 ^ (Z.log2 (a - 1) + 1).

Definition inrange (w a : Z) : Prop := 0 <= a < 2 ^ w.
Definition inrangeb (w a : Z) : bool := (0 <=? a) && (a <? 2 ^ w).

Lemma wrap_range w x : 0 <= w -> 0 <= wrap w x < 2 ^ w.
Proof. intros Hw. unfold wrap. apply Z.mod_pos_bound. apply Z.pow_pos_nonneg; lia. Qed.

Lemma wrap_small w x : 0 <= x < 2 ^ w -> wrap w x = x.
Proof. intros H. unfold wrap. apply Z.mod_small. exact H. Qed.
