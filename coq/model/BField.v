(* model/BField.v - hand-written executable models of the looping base-field routines
   (b_field_element.rs: mod_pow, Inverse::inverse, inverse_or_zero, Div; traits.rs: batch_inversion).
   They call the REGENERATED straight-line operations of gen/BFieldGen.v.  Definitions only.
   A Rust panic is the outcome None. *)
From Coq Require Import ZArith Bool List.
From TF Require Import Word BFieldGen.
Import ListNotations.
Open Scope Z_scope.

(* pub const fn mod_pow(&self, exp: u64): loop over the bits of exp, most significant first *)
Fixpoint mod_pow_go (k : nat) (a e acc : Z) : Z :=
  match k with
  | O => acc
  | S k' =>
      let acc := bfe_mul acc acc in
      let acc := if Z.testbit e (Z.of_nat k') then bfe_mul acc a else acc in
      mod_pow_go k' a e acc
  end.
Definition mod_pow (a e : Z) : Z := mod_pow_go (Z.to_nat (bitlen e)) a e bfe_one.

(* fn exp(base, exponent): `exponent` squarings *)
Fixpoint sqn (n : nat) (a : Z) : Z :=
  match n with O => a | S n' => sqn n' (bfe_mul a a) end.

Definition inverse_chain (x : Z) : Z :=
  let bin_2_ones := bfe_mul (bfe_mul x x) x in
  let bin_3_ones := bfe_mul (bfe_mul bin_2_ones bin_2_ones) x in
  let bin_6_ones := bfe_mul (sqn 3 bin_3_ones) bin_3_ones in
  let bin_12_ones := bfe_mul (sqn 6 bin_6_ones) bin_6_ones in
  let bin_24_ones := bfe_mul (sqn 12 bin_12_ones) bin_12_ones in
  let bin_30_ones := bfe_mul (sqn 6 bin_24_ones) bin_6_ones in
  let bin_31_ones := bfe_mul (bfe_mul bin_30_ones bin_30_ones) x in
  let bin_31_ones_1_zero := bfe_mul bin_31_ones bin_31_ones in
  let bin_32_ones := bfe_mul (bfe_mul bin_31_ones bin_31_ones) x in
  bfe_mul (sqn 32 bin_31_ones_1_zero) bin_32_ones.

(* Inverse::inverse: assert_ne!(x, zero) *)
Definition inverse (x : Z) : option Z :=
  if x =? bfe_zero then None else Some (inverse_chain x).
Definition inverse_or_zero (x : Z) : Z :=
  if x =? bfe_zero then bfe_zero else inverse_chain x.
(* Div: other.inverse() * self *)
Definition bfe_div (a b : Z) : option Z :=
  match inverse b with None => None | Some bi => Some (bfe_mul bi a) end.

(* FiniteField::batch_inversion, generic in the field operations *)
Section Batch.
  Variable F : Type.
  Variables (fone : F) (fmul : F -> F -> F) (fis_zero : F -> bool) (finv : F -> option F).
  (* first loop: scratch[i] = product of input[0..i) ; panics on a zero *)
  Fixpoint prefix_products (l : list F) (acc : F) : option (list F * F) :=
    match l with
    | [] => Some ([], acc)
    | x :: r =>
        if fis_zero x then None else
        match prefix_products r (fmul acc x) with
        | None => None
        | Some (s, a) => Some (acc :: s, a)
        end
    end.
  (* second loop, from the back: tmp = acc*res[i]; res[i] = acc*scratch[i]; acc = tmp.
     Written over the reversed lists. *)
  Fixpoint back_loop (rev_in rev_scratch : list F) (acc : F) : list F :=
    match rev_in, rev_scratch with
    | x :: ri, s :: rs => fmul acc s :: back_loop ri rs (fmul acc x)
    | _, _ => []
    end.
  Definition batch_inversion (input : list F) : option (list F) :=
    match input with
    | [] => Some []
    | _ =>
        match prefix_products input fone with
        | None => None
        | Some (scratch, acc) =>
            match finv acc with
            | None => None
            | Some ai => Some (rev (back_loop (rev input) (rev scratch) ai))
            end
        end
    end.
End Batch.

Definition bfe_batch_inversion : list Z -> option (list Z) :=
  batch_inversion Z bfe_one bfe_mul (fun x => x =? bfe_zero) inverse.

(* PrimitiveRootOfUnity::primitive_root_of_unity *)
Fixpoint assoc (k : Z) (l : list (Z * Z)) : option Z :=
  match l with [] => None | (a, b) :: r => if a =? k then Some b else assoc k r end.
Definition primitive_root_of_unity (n : Z) : option Z :=
  match assoc n PRIMITIVE_ROOTS with None => None | Some r => Some (bfe_new r) end.

(* From<u128>, From<i64> and friends; TryFrom<BFieldElement> for small ints *)
Definition from_u128 (x : Z) : Z := bfe_new (mod_reduce x).
Definition from_i64 (v : Z) : Z := from_u128 (from_i64_u128 v).
Definition try_into_unsigned (w : Z) (a : Z) : option Z :=
  let v := bfe_value a in if v <? 2 ^ w then Some v else None.
Definition try_into_signed (w : Z) (a : Z) : option Z :=
  let v := bfe_value a in if v <? 2 ^ (w - 1) then Some v else None.

(* ---- further public API (raw views, power_accumulator, Sum, cyclic group) *)
(* power_accumulator<N, M>(base, tail): square every base element M times, then multiply by the tail element *)
Definition power_accumulator (m : nat) (base tail : list Z) : list Z :=
  map (fun bt => bfe_mul (sqn m (fst bt)) (snd bt)) (combine base tail).
(* raw_bytes / raw_u16s: little-endian chunks of the Montgomery word; from_raw_* are their inverses *)
Fixpoint le_chunks (w : Z) (n : nat) (x : Z) : list Z :=
  match n with O => [] | S n' => (x mod 2 ^ w) :: le_chunks w n' (x / 2 ^ w) end.
Fixpoint from_le_chunks (w : Z) (l : list Z) : Z :=
  match l with [] => 0 | c :: r => c + 2 ^ w * from_le_chunks w r end.
Definition raw_bytes (a : Z) : list Z := le_chunks 8 8 a.
Definition raw_u16s (a : Z) : list Z := le_chunks 16 4 a.
Definition is_canonical (x : Z) : bool := x <? P.
(* Sum: reduce with +, zero for the empty iterator *)
Definition bfe_sum (l : list Z) : Z :=
  match l with [] => bfe_zero | x :: r => fold_left bfe_add r x end.
(* get_cyclic_group_elements(max): [1, g, g^2, ...] until the power returns to one or `max` elements are collected
   (the loop pushes before it tests, so at least two elements are returned); fuel bounds the loop *)
Fixpoint cyclic_go (fuel : nat) (g v : Z) (maxn : option Z) (acc : list Z) : option (list Z) :=
  match fuel with
  | O => None
  | S f =>
      let acc := acc ++ [v] in
      let v' := bfe_mul v g in
      if (v' =? bfe_one) || (match maxn with Some m => Z.of_nat (length acc) >=? m | None => false end)
      then Some acc else cyclic_go f g v' maxn acc
  end.
Definition cyclic_group_elements (fuel : nat) (g : Z) (maxn : option Z) : option (list Z) :=
  cyclic_go fuel g g maxn [bfe_one].
