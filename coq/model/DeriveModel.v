(* model/DeriveModel.v - the shapes accepted by `#[derive(BFieldCodec)]` (bfieldcodec_derive/src/lib.rs) and their
   translation into the codec grammar of model/Codec.v.  Definitions only, no proofs.

   What the macro does with a definition (read off `BFieldCodecDeriveBuilder`, both the workspace 0.7.0 and the
   published 0.7.1 sources; they differ only in `x as usize` versus `usize::try_from(x)`, see `usize_try_from`):

     struct X;                    unit struct: encodes to [], decode accepts [] only, static_length = Some 0
     struct X { f: T, .. }        `extract_named_fields` reverses the declaration order, `field_is_ignored`
                                  partitions off the fields carrying `#[bfield_codec(ignore)]`; the included fields are
                                  encoded / decoded in that (reversed) order, each one prefixed by its length iff its
                                  static_length is None; decode puts Default::default() into the ignored fields
     struct X(T, ..)              `extract_unnamed_fields` takes ALL fields: the attribute is accepted (it is a declared
                                  helper attribute) but never looked at - the field is encoded like any other
     enum X { A, B(T, ..), .. }   discriminant = position of the variant in the declaration (`enumerate`), an explicit
                                  Rust discriminant (`A = 5`) and variant-level attributes are not looked at; then the
                                  variant's fields like a tuple struct
     generics                     `X<T>` at T := t is the definition with t substituted (the macro only adds the bound
                                  `T: BFieldCodec` to parameters not mentioned in ignored fields): a generic definition
                                  is a function from types to shapes, and every theorem quantifies over all shapes

   Rejected at compile time (outside the model): enum variants with named fields, `A()` / `A {}` variants, enums
   without variants, unions, the attribute on a field of an enum variant, a named field called `sequence` / `elements`,
   two attributes on one field, unknown attribute arguments.  Recursive types are outside the grammar (a `ty` is a
   finite tree). *)
From Coq Require Import ZArith NArith Bool List.
From TF Require Import BFieldGen Codec.
Import ListNotations.
Open Scope Z_scope.

(* a field: does it carry #[bfield_codec(ignore)], and its type *)
Record field : Type := Field { fign : bool; fty : ty }.

Inductive shape : Type :=
| SUnit                                           (* struct X; *)
| SNamed (fs : list field)                        (* struct X { .. }  declaration order *)
| STuple (fs : list field)                        (* struct X( .. );  declaration order *)
| SEnum (vs : list (option Z * list ty)).         (* per variant: explicit Rust discriminant (if written), field types *)

(* the fields that take part in the encoding of a named-field struct, in declaration order *)
Definition included (fs : list field) : list ty := map fty (filter (fun f => negb (fign f)) fs).

(* the code the macro generates for a shape is the code modelled by this type of the codec grammar *)
Definition lower (s : shape) : ty :=
  match s with
  | SUnit => TStruct []
  | SNamed fs => TStruct (included fs)
  | STuple fs => TStruct (map fty fs)              (* the attribute has no effect on unnamed fields *)
  | SEnum vs => TEnum (map snd vs)                 (* explicit discriminants have no effect *)
  end.

(* what the property text asks for: every field carrying the attribute is omitted *)
Definition lower_spec (s : shape) : ty :=
  match s with
  | STuple fs => TStruct (included fs)
  | _ => lower s
  end.

(* the order in which the macro itself walks the named fields: reversed declaration order, then the partition *)
Definition macro_field_order (fs : list field) : list ty := map fty (filter (fun f => negb (fign f)) (rev fs)).

(* ---------------------------------------------------------------- values with their ignored fields
   A value of a named-field struct is the list of ALL its fields in declaration order.  `dflt t` stands for
   Default::default() of the Rust type behind t; every statement quantifies over it. *)
Section Defaults.
  Variable dflt : ty -> value.

  (* the included fields of a value *)
  Fixpoint project (fs : list field) (vs : list value) : list value :=
    match fs, vs with
    | f :: fs', v :: vs' => if fign f then project fs' vs' else v :: project fs' vs'
    | _, _ => []
    end.

  (* the decoded included fields, with Default::default() in the ignored positions *)
  Fixpoint inject (fs : list field) (ws : list value) : list value :=
    match fs with
    | [] => []
    | f :: fs' =>
        if fign f then dflt (fty f) :: inject fs' ws
        else match ws with
             | w :: ws' => w :: inject fs' ws'
             | [] => []
             end
    end.

  (* a value with every ignored field reset to its default *)
  Definition reset_fields (fs : list field) (vs : list value) : list value :=
    map (fun fv => if fign (fst fv) then dflt (fty (fst fv)) else snd fv) (combine fs vs).

  Definition field_ok (f : field) (v : value) : bool := fign f || has_type (fty f) v.

  Definition shape_has_type (s : shape) (v : value) : bool :=
    match s, v with
    | SNamed fs, VList vs => forall2b field_ok fs vs
    | SNamed _, _ => false
    | _, _ => has_type (lower s) v
    end.

  Definition shape_encode (s : shape) (v : value) : list Z :=
    match s, v with
    | SNamed fs, VList vs => encode (lower s) (VList (project fs vs))
    | _, _ => encode (lower s) v
    end.

  Definition shape_decode (chk : bool) (s : shape) (sq : list Z) : outcome value :=
    match s with
    | SNamed fs =>
        obind (decode chk (lower s) sq) (fun v =>
          match v with
          | VList ws => Ok (VList (inject fs ws))
          | _ => Ok v                                  (* unreachable: a struct decodes to a field list *)
          end)
    | _ => decode chk (lower s) sq
    end.

  Definition shape_reset (s : shape) (v : value) : value :=
    match s, v with
    | SNamed fs, VList vs => VList (reset_fields fs vs)
    | _, _ => v
    end.
End Defaults.

Definition shape_static_length (s : shape) : option Z := static_length (lower s).

(* the one place where the published macro (0.7.1) differs from the workspace macro (0.7.0): a length prefix or
   discriminant x is converted with `usize::try_from(x.value())` instead of `x.value() as usize`.  usize is 64 bits. *)
Definition usize_as (x : Z) : Z := x mod 18446744073709551616.
Definition usize_try_from (x : Z) : option Z := if x <? 18446744073709551616 then Some x else None.

(* Default::default() for the types of the grammar that implement Default (used by the oracle; the theorems do not
   depend on it).  Enums have no Default unless the user writes one: variant 0 stands in. *)
Fixpoint default_value (t : ty) : value :=
  match t with
  | TBfe | TU8 | TU16 | TU32 | TU64 | TU128 => VInt 0
  | TBool => VBool false
  | TPhantom => VUnit
  | TBox t => default_value t
  | TOption _ => VNone
  | TVec _ | TPoly _ => VList []
  | TArray n t => VList (zrepeat (default_value t) (Z.of_N n))
  | TTuple ts | TStruct ts => VList (map default_value ts)
  | TU32s n => VList (zrepeat (VInt 0) (Z.of_N n))
  | TEnum vs => VEnum 0 (match vs with fs :: _ => map default_value fs | [] => [] end)
  end.
