(* model/DigestConv.v - executable model of the conversions of property C20
   (twenty-first/src/math/digest.rs, the conversion parts of b_field_element.rs and
   x_field_element.rs).  Definitions only, no proofs.

   Level: field VALUES.  A base field element is its canonical value v in [0, P)
   (`BFieldElement::value()`; C01 proves `value (new x) = x mod P`).  A Digest is the list of
   its five values, element 0 first.  A Rust `Result` is an `option` (the property does not fix
   the error variant); none of the modelled routines has a reachable panic.
   Strings and byte strings are lists of byte codes (Z in [0, 256)); `&str` arguments are valid
   UTF-8, so that `split(',')` and the ASCII digit tests act on bytes exactly as on chars.

   External code modelled by its documented behaviour (trusted, tied by the correspondence run):
   `u64::from_str`, `u64`'s `Display`, `{:>020}`, `hex::encode / encode_upper / decode` (hex 0.4.3),
   `u64::to_le_bytes / from_le_bytes`, `num_bigint::BigUint` (as non-negative Z),
   `Iterator::cmp` (lexicographic), `str::split`, `[String]::join`, serde_json (at the level of
   JSON values) and bincode 1.3 `serialize / deserialize` (fixed-width little-endian integers, arrays
   without length prefix, trailing bytes ignored). *)
From Coq Require Import ZArith Bool List.
From TF Require Import BFieldGen.
Import ListNotations.
Open Scope Z_scope.
Open Scope bool_scope.

(* ------------------------------------------------------------------ generic helpers *)

(* Iterator::try_collect / collect::<Result<Vec<_>,_>>: first failure wins *)
Fixpoint map_opt {A B : Type} (f : A -> option B) (l : list A) : option (list B) :=
  match l with
  | [] => Some []
  | x :: r =>
      match f x with
      | None => None
      | Some y => match map_opt f r with None => None | Some ys => Some (y :: ys) end
      end
  end.

Definition is_byte (b : Z) : bool := (0 <=? b) && (b <? 256).
Definition is_u64 (v : Z) : bool := (0 <=? v) && (v <? 2 ^ 64).

(* BFieldElement::new at value level (C01_value_new) and is_canonical / try_new *)
Definition bfe_new_val (v : Z) : Z := v mod P.
Definition bfe_is_canonical (v : Z) : bool := v <? P.
Definition bfe_try_new (v : Z) : option Z := if bfe_is_canonical v then Some (bfe_new_val v) else None.

Definition canonb (v : Z) : bool := (0 <=? v) && (v <? P).
Definition digest_len : nat := 5.
Definition wf_digestb (d : list Z) : bool := Nat.eqb (length d) digest_len && forallb canonb d.

(* ------------------------------------------------------------------ u64 <-> little-endian bytes *)

Fixpoint le_bytes (n : nat) (v : Z) : list Z :=
  match n with
  | O => []
  | S k => v mod 256 :: le_bytes k (v / 256)
  end.

Fixpoint from_le_bytes (l : list Z) : Z :=
  match l with
  | [] => 0
  | b :: r => b + 256 * from_le_bytes r
  end.

(* From<BFieldElement> for [u8; 8] *)
Definition bfe_to_bytes (v : Z) : list Z := le_bytes 8 v.
(* TryFrom<[u8; 8]> (precondition: 8 bytes) *)
Definition bfe_try_from_array (l : list Z) : option Z := bfe_try_new (from_le_bytes l).
(* TryFrom<&[u8]> *)
Definition bfe_try_from_slice (l : list Z) : option Z :=
  if Nat.eqb (length l) 8 then bfe_try_from_array l else None.

(* slice::chunks_exact(8): full chunks only, the remainder is dropped *)
Fixpoint chunks8 (l : list Z) : list (list Z) :=
  match l with
  | a :: b :: c :: d :: e :: f :: g :: h :: r => [a; b; c; d; e; f; g; h] :: chunks8 r
  | _ => []
  end.

(* From<Digest> for [u8; 40] *)
Definition digest_to_bytes (d : list Z) : list Z := flat_map bfe_to_bytes d.
(* TryFrom<[u8; 40]> (precondition: 40 bytes, guaranteed by the array type) *)
Definition digest_try_from_array (l : list Z) : option (list Z) := map_opt bfe_try_from_slice (chunks8 l).
(* TryFrom<&[u8]> *)
Definition digest_try_from_slice (l : list Z) : option (list Z) :=
  if Nat.eqb (length l) 40 then digest_try_from_array l else None.

(* ------------------------------------------------------------------ hex *)

Definition hex_digit (upper : bool) (n : Z) : Z :=
  if n <? 10 then 48 + n else (if upper then 55 else 87) + n.
Definition hex_encode (upper : bool) (bytes : list Z) : list Z :=
  flat_map (fun b => [hex_digit upper (b / 16); hex_digit upper (b mod 16)]) bytes.

Definition hex_val (c : Z) : option Z :=
  if (65 <=? c) && (c <=? 70) then Some (c - 65 + 10)
  else if (97 <=? c) && (c <=? 102) then Some (c - 97 + 10)
  else if (48 <=? c) && (c <=? 57) then Some (c - 48)
  else None.

(* hex::decode: odd length or any non-hex character is an error *)
Fixpoint hex_decode (s : list Z) : option (list Z) :=
  match s with
  | [] => Some []
  | [_] => None
  | a :: b :: r =>
      match hex_val a, hex_val b, hex_decode r with
      | Some x, Some y, Some l => Some (16 * x + y :: l)
      | _, _, _ => None
      end
  end.

(* LowerHex / UpperHex / to_hex / try_from_hex *)
Definition digest_to_hex (d : list Z) : list Z := hex_encode false (digest_to_bytes d).
Definition digest_to_hex_upper (d : list Z) : list Z := hex_encode true (digest_to_bytes d).
Definition digest_try_from_hex (s : list Z) : option (list Z) :=
  match hex_decode s with
  | None => None
  | Some bytes => digest_try_from_slice bytes
  end.

(* ------------------------------------------------------------------ decimal strings *)

(* u64's Display: decimal, no sign, no leading zeros, "0" for 0.  Digits least significant first. *)
Fixpoint dec_digits_rev (fuel : nat) (v : Z) : list Z :=
  match fuel with
  | O => []
  | S k => (48 + v mod 10) :: (if v <? 10 then [] else dec_digits_rev k (v / 10))
  end.
Definition u64_to_string (v : Z) : list Z := rev (dec_digits_rev 20 v).

Definition is_digit (c : Z) : bool := (48 <=? c) && (c <=? 57).

(* digit loop of from_str_radix(_, 10) for u64: checked_mul(10) then checked_add(digit) *)
Fixpoint parse_digits (acc : Z) (s : list Z) : option Z :=
  match s with
  | [] => Some acc
  | c :: r =>
      if is_digit c then
        let acc' := acc * 10 + (c - 48) in
        if acc' <? 2 ^ 64 then parse_digits acc' r else None
      else None
  end.

(* u64::from_str: empty -> Err; a lone "+" or "-" -> Err; one leading '+' is skipped ('-' is not,
   the type is unsigned); then one or more ASCII digits; overflow -> Err. *)
Definition u64_from_str (s : list Z) : option Z :=
  match s with
  | [] => None
  | c :: r =>
      if c =? 43 then (match r with [] => None | _ => parse_digits 0 r end)
      else parse_digits 0 s
  end.

(* FromStr for BFieldElement *)
Definition bfe_from_str (s : list Z) : option Z :=
  match u64_from_str s with
  | None => None
  | Some v => bfe_try_new v
  end.

(* `{v:>020}`: the `0` flag pads with zeros after the (absent) sign up to width 20 *)
Definition zero_pad20 (s : list Z) : list Z := repeat 48 (20 - length s) ++ s.

(* Display for BFieldElement *)
Definition bfe_display (v : Z) : list Z :=
  let cutoff := 256 in
  if P - cutoff <=? v then 45 :: u64_to_string (P - v)
  else if v <=? cutoff then u64_to_string v
  else zero_pad20 (u64_to_string v).

(* The function Digest's Display applies to each element.
   TODAY (pinned tree): `elem.to_string()`, i.e. BFieldElement's Display.
   Candidate repairs: print the canonical value always (`digest_elem_canonical`), or only where the
   element form would be negative (`digest_elem_nonneg`).  To switch the model after a repair of
   `Digest::fmt`, change the right-hand side of `digest_elem_to_string` to one of them. *)
Definition digest_elem_canonical (v : Z) : list Z := u64_to_string v.
Definition digest_elem_nonneg (v : Z) : list Z := if P - 256 <=? v then u64_to_string v else bfe_display v.
Definition digest_elem_to_string (v : Z) : list Z := digest_elem_canonical v.

(* [String; 5]::join(",") *)
Fixpoint join_comma (l : list (list Z)) : list Z :=
  match l with
  | [] => []
  | x :: r => match r with [] => x | _ => x ++ 44 :: join_comma r end
  end.

(* Display for Digest, parametric in the element printer *)
Definition digest_to_string_with (pr : Z -> list Z) (d : list Z) : list Z := join_comma (map pr d).
Definition digest_to_string (d : list Z) : list Z := digest_to_string_with digest_elem_to_string d.

(* str::split(c): always at least one field *)
Fixpoint split_on (c : Z) (s : list Z) : list (list Z) :=
  match s with
  | [] => [[]]
  | x :: r =>
      if x =? c then [] :: split_on c r
      else match split_on c r with
           | h :: t => (x :: h) :: t
           | [] => [[x]]
           end
  end.

(* FromStr for Digest: every field must parse (first error wins), then exactly 5 fields *)
Definition digest_from_str (s : list Z) : option (list Z) :=
  match map_opt bfe_from_str (split_on 44 s) with
  | None => None
  | Some bfes => if Nat.eqb (length bfes) digest_len then Some bfes else None
  end.

(* ------------------------------------------------------------------ Vec<BFieldElement> *)
Definition digest_try_from_vec (l : list Z) : option (list Z) :=
  if Nat.eqb (length l) digest_len then Some l else None.
Definition digest_to_vec (d : list Z) : list Z := d.

(* ------------------------------------------------------------------ BigUint *)

(* From<Digest> for BigUint: for i in (0..5).rev() { ret *= p; ret += d[i] } *)
Definition digest_to_big (d : list Z) : Z := fold_left (fun acc x => acc * P + x) (rev d) 0.

(* the loop of TryFrom<BigUint>: n steps of (remaining % p, remaining /= p) *)
Fixpoint big_to_elems (n : nat) (remaining : Z) : list Z * Z :=
  match n with
  | O => ([], remaining)
  | S k =>
      let element := remaining mod P in
      let '(l, r) := big_to_elems k (remaining / P) in
      (bfe_new_val element :: l, r)
  end.
Definition digest_try_from_big (v : Z) : option (list Z) :=
  let '(l, r) := big_to_elems digest_len v in
  if r =? 0 then Some l else None.

(* ------------------------------------------------------------------ Ord, reversed *)

(* Iterator::cmp: lexicographic, a strict prefix is Less *)
Fixpoint lex_cmp (a b : list Z) : comparison :=
  match a, b with
  | [], [] => Eq
  | [], _ :: _ => Lt
  | _ :: _, [] => Gt
  | x :: a', y :: b' => match x ?= y with Eq => lex_cmp a' b' | c => c end
  end.
(* Ord for Digest: iter().rev().map(value) compared lexicographically *)
Definition digest_cmp (d1 d2 : list Z) : comparison := lex_cmp (rev d1) (rev d2).
Definition digest_reversed (d : list Z) : list Z :=
  match d with
  | [d0; d1; d2; d3; d4] => [d4; d3; d2; d1; d0]
  | _ => d
  end.

(* ------------------------------------------------------------------ serde *)

(* JSON documents, as far as the two Deserialize impls can tell them apart *)
Inductive json : Type :=
| JNull
| JBool (b : bool)
| JNum (n : Z)                 (* an integer literal *)
| JStr (s : list Z)
| JArrNum (l : list Z).        (* an array of integer literals *)

(* human readable: Serialize = to_hex().serialize -> a JSON string;
   Deserialize = String::deserialize then try_from_hex *)
Definition digest_ser_json (d : list Z) : json := JStr (digest_to_hex d).
Definition digest_de_json (j : json) : option (list Z) :=
  match j with
  | JStr s => digest_try_from_hex s
  | _ => None
  end.
(* BFieldElement: Serialize = value().serialize; Deserialize = new(u64::deserialize) : reduces *)
Definition bfe_ser_json (v : Z) : json := JNum v.
Definition bfe_de_json (j : json) : option Z :=
  match j with
  | JNum n => if is_u64 n then Some (bfe_new_val n) else None
  | _ => None
  end.

(* bincode 1.3 `serialize`/`deserialize`: u64 = 8 bytes little endian, [T; 5] = the 5 items, input may
   be longer than needed, too short is an error *)
Definition bfe_ser_bincode (v : Z) : list Z := le_bytes 8 v.
Definition bfe_de_bincode (l : list Z) : option Z :=
  if Nat.ltb (length l) 8 then None else Some (bfe_new_val (from_le_bytes (firstn 8 l))).
Definition digest_ser_bincode (d : list Z) : list Z := flat_map bfe_ser_bincode d.
Definition digest_de_bincode (l : list Z) : option (list Z) :=
  if Nat.ltb (length l) 40 then None
  else Some (map (fun c => bfe_new_val (from_le_bytes c)) (chunks8 (firstn 40 l))).

(* ------------------------------------------------------------------ XFieldElement <-> Digest *)
Definition xfe_val : Type := (Z * Z * Z)%type.
Definition digest_from_xfe (x : xfe_val) : list Z := let '(c0, c1, c2) := x in [c0; c1; c2; 0; 0].
Definition xfe_try_from_digest (d : list Z) : option xfe_val :=
  match d with
  | [c0; c1; c2; z0; z1] =>
      if negb (z0 =? 0) || negb (z1 =? 0) then None else Some (c0, c1, c2)
  | _ => None
  end.

(* ------------------------------------------------------------------ specification side (independent) *)
(* base-p positional value, element 0 least significant *)
Fixpoint big_value (d : list Z) : Z :=
  match d with
  | [] => 0
  | x :: r => x + P * big_value r
  end.

(* predicates used in the statements *)
Definition canon_val (v : Z) : Prop := 0 <= v < P.
Definition wf_digest (d : list Z) : Prop := length d = 5%nat /\ Forall canon_val d.
Definition byte_list (l : list Z) : Prop := Forall (fun b => 0 <= b < 256) l.
Definition u64_val (v : Z) : Prop := 0 <= v < 2 ^ 64.
(* the characters hex::decode accepts / hex::encode produces *)
Definition hex_char (c : Z) : Prop := 48 <= c <= 57 \/ 97 <= c <= 102 \/ 65 <= c <= 70.
Definition lower_hex_char (c : Z) : Prop := 48 <= c <= 57 \/ 97 <= c <= 102.
Definition digit_char (c : Z) : Prop := 48 <= c <= 57.
(* value of a string of decimal digits read left to right, starting from acc *)
Definition dec_fold (s : list Z) (acc : Z) : Z := fold_left (fun a c => a * 10 + (c - 48)) s acc.
Definition no_comma (s : list Z) : Prop := Forall (fun c => c <> 44) s.
