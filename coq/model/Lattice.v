(* model/Lattice.v - hand-written executable model of twenty-first/src/math/lattice.rs (property C18).
   Definitions only.  The model works on field VALUES (integers in [0, P)): lattice.rs only calls the
   base-field operations + - * and BFieldElement::new / value, which C01 proves exact and canonical
   (C01_add, C01_sub, C01_mul, C01_value_new), so `a + b` is modelled as (a + b) mod P etc.
   Tables and numeric constants come from the REGENERATED gen/LatticeGen.v.
   A Rust panic (index out of bounds, unwrap of a failed try_into) is the outcome None.
   SHAKE256 and SHA3-256 are parameters (Section variables) of the KEM part. *)
From Coq Require Import ZArith Bool List.
From TF Require Import Word BFieldGen LatticeGen.
Import ListNotations.
Open Scope Z_scope.

(* ---------------------------------------------------------------- field values *)
Definition fp_new (v : Z) : Z := v mod P.              (* BFieldElement::new(v).value() *)
Definition fp_add (a b : Z) : Z := (a + b) mod P.
Definition fp_sub (a b : Z) : Z := (a - b) mod P.
Definition fp_mul (a b : Z) : Z := (a * b) mod P.

(* ---------------------------------------------------------------- arrays as lists *)
Fixpoint upd {A} (l : list A) (i : nat) (x : A) : list A :=      (* l[i] = x ; callers read l[i] first *)
  match l, i with
  | [], _ => []
  | _ :: t, O => x :: t
  | h :: t, S i' => h :: upd t i' x
  end.
Fixpoint map2 {A B C} (f : A -> B -> C) (la : list A) (lb : list B) : list C :=
  match la, lb with
  | a :: la', b :: lb' => f a b :: map2 f la' lb'
  | _, _ => []
  end.
Fixpoint opt_all {A} (l : list (option A)) : option (list A) :=
  match l with
  | [] => Some []
  | None :: _ => None
  | Some x :: r => match opt_all r with Some r' => Some (x :: r') | None => None end
  end.
Fixpoint list_eqb {A} (eqb : A -> A -> bool) (a b : list A) : bool :=
  match a, b with
  | [], [] => true
  | x :: a', y :: b' => eqb x y && list_eqb eqb a' b'
  | _, _ => false
  end.
(* &l[lo..hi] with lo <= hi: panics when hi > len *)
Definition slice {A} (l : list A) (lo hi : nat) : option (list A) :=
  if (hi <=? length l)%nat then Some (firstn (hi - lo) (skipn lo l)) else None.
(* slice::chunks(n), n >= 1 *)
Fixpoint chunks_go {A} (fuel n : nat) (l : list A) : list (list A) :=
  match fuel with
  | O => []
  | S f => match l with [] => [] | _ => firstn n l :: chunks_go f n (skipn n l) end
  end.
Definition chunks {A} (n : nat) (l : list A) : list (list A) := chunks_go (length l) n l.

(* ---------------------------------------------------------------- coset NTT of size 64
   Both transforms are in-place butterfly networks whose index sequence does not depend on the data.
   The loop structure of the source is kept as the generator of the butterfly schedule
   (array index j, array index j + t, table index of zeta); the schedule is then executed on the array. *)

(* coset_ntt_noswap_64:
     let mut m = 1; let mut t = N;
     while m < N { t >>= 1;
       for i in 0..m { let s = i * t * 2; let zeta = table[m + i];
         for j in s..(s + t) { u = a[j]; v = a[j + t] * zeta; a[j] = u + v; a[j + t] = u - v; } }
       m *= 2; } *)
Definition ntt_stage (m t : nat) : list (nat * nat * nat) :=
  flat_map (fun i => let s := (i * t * 2)%nat in
                     map (fun j => (j, (j + t)%nat, (m + i)%nat)) (seq s t)) (seq 0 m).
Fixpoint ntt_sched_go (fuel m t : nat) : option (list (nat * nat * nat)) :=
  match fuel with
  | O => None                                                (* out of fuel: excluded by ntt_sched_defined *)
  | S f =>
      if (m <? NTT_N)%nat then
        let t' := Nat.div2 t in
        match ntt_sched_go f (m * 2)%nat t' with
        | Some r => Some (ntt_stage m t' ++ r)
        | None => None
        end
      else Some []
  end.
Definition ntt_sched : option (list (nat * nat * nat)) := ntt_sched_go (S NTT_N) 1%nat NTT_N.

Definition step_fwd (tbl : list Z) (st : option (list Z)) (e : nat * nat * nat) : option (list Z) :=
  match st with
  | None => None
  | Some a =>
      let '(j, jt, zi) := e in
      match nth_error tbl zi with None => None | Some zeta =>
      match nth_error a j with None => None | Some u =>
      match nth_error a jt with None => None | Some v0 =>
        let v := fp_mul v0 zeta in
        Some (upd (upd a j (fp_add u v)) jt (fp_sub u v))
      end end end
  end.
Definition coset_ntt_noswap_64 (a : list Z) : option (list Z) :=
  match ntt_sched with
  | None => None
  | Some s => fold_left (step_fwd PSI_BITREV) s (Some a)
  end.

(* coset_intt_noswap_64:
     let mut t = 1; let mut h = N / 2;
     for _ in 0..LOGN { let mut k = 0;
       for i in 0..h { let zeta = table[h + i];
         for j in k..(k + t) { u = a[j]; v = a[j + t]; a[j] = u + v; a[j + t] = (u - v) * zeta; }
         k += 2 * t; }
       t *= 2; h >>= 1; }
     for a in array { *a *= N_INV } *)
Fixpoint intt_stage (t h : nat) (is : list nat) (k : nat) : list (nat * nat * nat) :=
  match is with
  | [] => []
  | i :: r => map (fun j => (j, (j + t)%nat, (h + i)%nat)) (seq k t) ++ intt_stage t h r (k + 2 * t)%nat
  end.
Fixpoint intt_sched_go (rounds t h : nat) : list (nat * nat * nat) :=
  match rounds with
  | O => []
  | S r => intt_stage t h (seq 0 h) 0 ++ intt_sched_go r (t * 2)%nat (Nat.div2 h)
  end.
Definition intt_sched : list (nat * nat * nat) := intt_sched_go INTT_LOGN 1%nat (Nat.div2 INTT_N).

Definition step_inv (tbl : list Z) (st : option (list Z)) (e : nat * nat * nat) : option (list Z) :=
  match st with
  | None => None
  | Some a =>
      let '(j, jt, zi) := e in
      match nth_error tbl zi with None => None | Some zeta =>
      match nth_error a j with None => None | Some u =>
      match nth_error a jt with None => None | Some v =>
        Some (upd (upd a j (fp_add u v)) jt (fp_mul (fp_sub u v) zeta))
      end end end
  end.
Definition coset_intt_noswap_64 (a : list Z) : option (list Z) :=
  match fold_left (step_inv PSI_INV_BITREV) intt_sched (Some a) with
  | None => None
  | Some r => Some (map (fun x => fp_mul x N_INV) r)
  end.

(* ---------------------------------------------------------------- CyclotomicRingElement ([BFieldElement; 64]) *)
Definition re_zero : list Z := repeat 0 RING_SIZE.
Definition re_add (a b : list Z) : list Z := map2 fp_add a b.          (* Add and AddAssign *)
Definition re_sub (a b : list Z) : list Z := map2 fp_sub a b.
Definition re_hadamard (a b : list Z) : list Z := map2 fp_mul a b.
(* Mul: coset NTT of both operands, pointwise product, inverse coset NTT *)
Definition re_mul (a b : list Z) : option (list Z) :=
  match coset_ntt_noswap_64 a with None => None | Some l =>
  match coset_ntt_noswap_64 b with None => None | Some r =>
    coset_intt_noswap_64 (map2 fp_mul l r)
  end end.
Definition re_is_zero (a : list Z) : bool := list_eqb Z.eqb a re_zero.

(* ---------------------------------------------------------------- ModuleElement<N> ([CyclotomicRingElement; N]) *)
Definition mod_elem := list (list Z).
Definition me_zero (n : nat) : mod_elem := repeat re_zero n.
Definition me_add (a b : mod_elem) : mod_elem := map2 re_add a b.      (* rayon indexed collect: order preserved *)
Definition me_sub (a b : mod_elem) : mod_elem := map2 re_sub a b.
Definition me_ntt (a : mod_elem) : option mod_elem := opt_all (map coset_ntt_noswap_64 a).
Definition me_intt (a : mod_elem) : option mod_elem := opt_all (map coset_intt_noswap_64 a).
Definition me_eqb (a b : mod_elem) : bool := list_eqb (list_eqb Z.eqb) a b.

(* for h in 0..LHS_H { for w in 0..RHS_W { for i in 0..INNER {
     out[h * RHS_W + w] += f(lhs[h * INNER + i], rhs[i * RHS_W + w]) } } } *)
Definition mm_sched (lhs_h rhs_w inner : nat) : list (nat * nat * nat) :=
  flat_map (fun h => flat_map (fun w =>
    map (fun i => ((h * rhs_w + w)%nat, (h * inner + i)%nat, (i * rhs_w + w)%nat)) (seq 0 inner))
    (seq 0 rhs_w)) (seq 0 lhs_h).
Definition mm_step (f : list Z -> list Z -> option (list Z)) (lhs rhs : mod_elem)
    (st : option mod_elem) (e : nat * nat * nat) : option mod_elem :=
  match st with
  | None => None
  | Some acc =>
      let '(o, l, r) := e in
      match nth_error lhs l with None => None | Some x =>
      match nth_error rhs r with None => None | Some y =>
      match f x y with None => None | Some prod =>
      match nth_error acc o with None => None | Some c => Some (upd acc o (re_add c prod))
      end end end end
  end.
(* shape = the const generics as written: (LHS_H, LHS_N, RHS_W, RHS_N, INNER, OUT_N).  LHS_N and RHS_N are the
   array lengths of the operands (fixed by their types); the debug_assert_eq!s relating them are not modelled
   (all call sites satisfy them; the harness only instantiates consistent shapes). *)
Definition me_mul_with (f : list Z -> list Z -> option (list Z))
    (shape : nat * nat * nat * nat * nat * nat) (lhs rhs : mod_elem) : option mod_elem :=
  let '(lhs_h, _, rhs_w, _, inner, out_n) := shape in
  fold_left (mm_step f lhs rhs) (mm_sched lhs_h rhs_w inner) (Some (me_zero out_n)).
Definition me_multiply := me_mul_with re_mul.
Definition me_multiply_hadamard := me_mul_with (fun a b => Some (re_hadamard a b)).
Definition me_fast_multiply (shape : nat * nat * nat * nat * nat * nat) (lhs rhs : mod_elem) : option mod_elem :=
  match me_ntt lhs with None => None | Some l =>
  match me_ntt rhs with None => None | Some r =>
  match me_multiply_hadamard shape l r with None => None | Some o => me_intt o
  end end end.

(* ---------------------------------------------------------------- sampling (bytes are integers in [0, 256)) *)
(* const fn num_set_bits(a: u8): loop over the eight bits *)
Definition num_set_bits (a : Z) : Z :=
  fold_left (fun s i => s + (if Z.testbit a (Z.of_nat i) then 1 else 0)) (seq 0 8) 0.
Definition sample_short_bfield_element (r : list Z) : Z :=
  let term k := Z.shiftl (num_set_bits (nth k r 0)) (nth k SHORT_SHIFTS 0) in
  let left := term 0%nat + term 1%nat + term 2%nat + term 3%nat in
  let right := term 4%nat + term 5%nat + term 6%nat + term 7%nat in
  fp_sub (fp_new left) (fp_new right).
(* CyclotomicRingElement::sample_short: chunks(8), each chunk try_into [u8; 8] (unwrap), collect, try_into [_; 64] (unwrap) *)
Definition re_sample_short (randomness : list Z) : option (list Z) :=
  let cs := chunks SHORT_BYTES randomness in
  if forallb (fun c => (length c =? SHORT_BYTES)%nat) cs then
    let v := map sample_short_bfield_element cs in
    if (length v =? RING_SIZE)%nat then Some v else None
  else None.
(* CyclotomicRingElement::sample_uniform:
     for i in 0..64 { acc = 0u128; for j in 0..9 { acc = acc * 256 + randomness[i * 9 + j] as u128 } acc %= P; new(acc as u64) }
   The index i * 9 + j runs through 0, 1, 2, ... consecutively, so the bytes are consumed front to back;
   running out of bytes is the index panic. *)
Fixpoint uniform_acc (n : nat) (r : list Z) (acc : Z) : option (Z * list Z) :=
  match n with
  | O => Some (acc, r)
  | S n' => match r with [] => None | b :: r' => uniform_acc n' r' (acc * UNIFORM_RADIX + b) end
  end.
Fixpoint uniform_go (n : nat) (r : list Z) : option (list Z) :=
  match n with
  | O => Some []
  | S n' =>
      match uniform_acc UNIFORM_BYTES r 0 with
      | None => None
      | Some (acc, r') =>
          match uniform_go n' r' with None => None | Some t => Some (fp_new (acc mod P) :: t) end
      end
  end.
Definition re_sample_uniform (randomness : list Z) : option (list Z) := uniform_go UNIFORM_COEFFS randomness.
Definition me_sample_short (n : nat) (randomness : list Z) : option mod_elem :=
  opt_all (map (fun k => match slice randomness (MODULE_SHORT_STRIDE * k) (MODULE_SHORT_STRIDE * (k + 1)) with
                         | None => None | Some s => re_sample_short s end) (seq 0 n)).
Definition me_sample_uniform (n : nat) (randomness : list Z) : option mod_elem :=
  opt_all (map (fun k => match slice randomness (k * MODULE_UNIFORM_STRIDE) ((k + 1) * MODULE_UNIFORM_STRIDE) with
                         | None => None | Some s => re_sample_uniform s end) (seq 0 n)).

(* ---------------------------------------------------------------- message embedding *)
(* integer += (((msg[i] >> (sh + j)) & 1) as u64) << (15 + 16 * j)  for j in 0..4 *)
Definition embed_nibble (byte sh : Z) : Z :=
  fold_left (fun acc j => acc + Z.shiftl (Z.land (Z.shiftr byte (sh + Z.of_nat j)) 1)
                                         (EMBED_OFFSET + LANE_BITS * Z.of_nat j)) (seq 0 LANES) 0.
(* embedding[2 * i] and embedding[2 * i + 1] for every byte of the message ([u8; 32] -> 64 coefficients) *)
Definition embed_msg (msg : list Z) : list Z :=
  flat_map (fun b => [fp_new (embed_nibble b 0); fp_new (embed_nibble b HI_NIBBLE_SHIFT)]) msg.

Definition lane_bit (chunk : Z) : Z :=
  if (chunk <? EXTRACT_THRESHOLD) || (EXTRACT_WRAP - chunk <? EXTRACT_THRESHOLD) then 0 else 1.
(* for j in 0..4 { chunk = value & 0xffff; value >>= 16; byte |= bit << (sh + j) } *)
Fixpoint extract_lanes (n : nat) (value sh : Z) : Z :=
  match n with
  | O => 0
  | S n' => Z.lor (Z.shiftl (lane_bit (Z.land value LANE_MASK)) sh)
                  (extract_lanes n' (Z.shiftr value EXTRACT_SHIFT) (sh + 1))
  end.
(* coefficients.chunks(2): pair[0] gives the low nibble, pair[1] the high nibble *)
Fixpoint extract_msg (emb : list Z) : option (list Z) :=
  match emb with
  | [] => Some []
  | [_] => None                                              (* pair[1] out of bounds *)
  | x0 :: x1 :: r =>
      match extract_msg r with
      | None => None
      | Some m => Some (Z.lor (extract_lanes EXTRACT_LANES x0 0) (extract_lanes EXTRACT_LANES x1 EXTRACT_HI_SHIFT) :: m)
      end
  end.

(* ---------------------------------------------------------------- kem *)
(* Ciphertext { bg: ModuleElement<4>, bga_m: ModuleElement<1> } <-> [BFieldElement; 320] *)
Definition ciphertext := (mod_elem * mod_elem)%type.
Definition ct_of_array (v : list Z) : option ciphertext :=
  let split := (SECRET_VECTOR_N * RING_SIZE)%nat in
  match slice v 0 split with None => None | Some bg_slice =>
    let bga_m_slice := skipn split v in
    let cs := chunks RING_SIZE bg_slice in
    if forallb (fun c => (length c =? RING_SIZE)%nat) cs && (length cs =? SECRET_VECTOR_N)%nat
       && (length bga_m_slice =? RING_SIZE)%nat
    then Some (cs, [bga_m_slice]) else None
  end.
Definition array_of_ct (c : ciphertext) : option (list Z) :=
  let v := concat (fst c) ++ concat (snd c) in
  if (length v =? CIPHERTEXT_SIZE)%nat then Some v else None.
Definition ct_eqb (a b : ciphertext) : bool := me_eqb (fst a) (fst b) && me_eqb (snd a) (snd b).

Section KEM.
  Variable shake256 : list Z -> Z -> list Z.     (* input bytes, number of output bytes -> output bytes *)
  Variable sha3_256 : list Z -> list Z.

  Definition derive_public_matrix (seed : list Z) : option mod_elem :=
    me_sample_uniform PUBLIC_MATRIX_N (shake256 seed PUBLIC_MATRIX_BYTES).

  Definition derive_secret_vectors (seed : list Z) : option (mod_elem * mod_elem) :=
    let randomness := shake256 seed SECRET_VECTORS_BYTES in
    let half := Z.to_nat (SECRET_VECTORS_BYTES / 2) in
    match slice randomness 0 half with None => None | Some r1 =>
    match me_sample_short SECRET_VECTOR_N r1 with None => None | Some a =>
    match slice randomness half (length randomness) with None => None | Some r2 =>
    match me_sample_short SECRET_VECTOR_N r2 with None => None | Some b => Some (a, b)
    end end end end.

  Definition public_key := (list Z * mod_elem)%type.     (* seed, ga *)
  Definition secret_key := (list Z * list Z)%type.       (* key, seed *)

  Definition derive_public_key (key seed : list Z) : option public_key :=
    match derive_secret_vectors key with None => None | Some (a, c) =>
    match derive_public_matrix seed with None => None | Some g =>
    match me_ntt a with None => None | Some a_ntt =>
    match me_multiply_hadamard SHAPE_GA g a_ntt with None => None | Some ga0 =>
    match me_ntt c with None => None | Some c_ntt => Some (seed, me_add ga0 c_ntt)
    end end end end end.

  Definition keygen (randomness : list Z) : option (secret_key * public_key) :=
    let seed := shake256 (randomness ++ [KEYGEN_SEED_TAG]) KEYGEN_OUTPUT_LENGTH in
    let key := shake256 (randomness ++ [KEYGEN_KEY_TAG]) KEYGEN_OUTPUT_LENGTH in
    match derive_public_key key seed with None => None | Some pk => Some ((key, seed), pk) end.

  Definition generate_ciphertext_derandomized (pk : public_key) (payload : list Z) : option ciphertext :=
    match derive_secret_vectors payload with None => None | Some (b, d) =>
    match me_ntt b with None => None | Some b_ntt =>
    match me_ntt d with None => None | Some d_ntt =>
    match derive_public_matrix (fst pk) with None => None | Some g =>
    match me_multiply_hadamard SHAPE_BG b_ntt g with None => None | Some bg0 =>
      let bg := me_add bg0 d_ntt in
      let m := embed_msg payload in
      match me_multiply_hadamard SHAPE_BGA b_ntt (snd pk) with None => None | Some bga0 =>
      match me_ntt [m] with None => None | Some m_ntt => Some (bg, me_add bga0 m_ntt)
      end end
    end end end end end.

  Definition enc (pk : public_key) (randomness : list Z) : option (list Z * ciphertext) :=
    let payload := shake256 randomness ENC_OUTPUT_LENGTH in
    match generate_ciphertext_derandomized pk payload with
    | None => None
    | Some ct => Some (sha3_256 payload, ct)
    end.

  (* the payload that dec extracts from a ciphertext (before the re-encryption check) *)
  Definition dec_payload (sk : secret_key) (ct : ciphertext) : option (list Z) :=
    match derive_secret_vectors (fst sk) with None => None | Some (a, _) =>
    match me_ntt a with None => None | Some a_ntt =>
    match me_multiply_hadamard SHAPE_DEC (fst ct) a_ntt with None => None | Some bga =>
    match me_intt (me_sub (snd ct) bga) with None => None | Some m =>
    match nth_error m 0 with None => None | Some m0 => extract_msg m0
    end end end end end.

  (* outer None: panic; Some None: the ciphertext is rejected; Some (Some k): shared key *)
  Definition dec (sk : secret_key) (ct : ciphertext) : option (option (list Z)) :=
    match dec_payload sk ct with None => None | Some payload =>
    match derive_public_key (fst sk) (snd sk) with None => None | Some pk =>
    match generate_ciphertext_derandomized pk payload with None => None | Some regenerated =>
      if ct_eqb regenerated ct then Some (Some (sha3_256 payload)) else Some None
    end end end.
End KEM.
