(* model/Merkle.v - executable model of twenty-first/src/util_types/merkle_tree.rs (non-test part).
   Hand-written, definitions only.  Parametric in the digest type [D], the pair hash [H], digest
   equality [Deqb] and the filler digest [dflt] (Digest::default()).

   Conventions
   * indices, heights and counts are [Z]; usize is 64 bit.  Every place where the code adds or
     multiplies usize values goes through [uadd]/[umul], which wrap in [Release] and are [Panic] in
     [Checked] mode (overflow-checks / debug-assertions on).
   * results are [outcome]: [Ok v], [Err] (any MerkleTreeError), [Panic], [OutOfFuel].
     [OutOfFuel] is produced only by the `while count >= cutoff` loop of from_digests.
   * HashSet/HashMap: sets are lists that are de-duplicated when the code materialises them;
     maps are association lists, newest binding first ([mget] returns the newest).
   * two functions exist in two variants selected by a boolean: [mt_leaf fixed] and
     [from_digests fixed].  [false] = the originally pinned tree (d7d20b5), [true] = after the
     repairs b29c426 (`first_leaf_index.checked_add(index)?`) and 2570109
     (`while count > 0 && count >= cutoff`).  The constants [CUR_LEAF_FIXED] / [CUR_CUTOFF_FIXED]
     say which variant describes the current /repo; the oracle uses them and props pin them. *)
From Coq Require Import ZArith List Bool.
Import ListNotations.
Open Scope Z_scope.

Inductive outcome (A : Type) : Type :=
| Ok (a : A) | Err | Panic | OutOfFuel.
Arguments Ok {A} a.
Arguments Err {A}.
Arguments Panic {A}.
Arguments OutOfFuel {A}.

Definition obind {A B} (x : outcome A) (f : A -> outcome B) : outcome B :=
  match x with Ok a => f a | Err => Err | Panic => Panic | OutOfFuel => OutOfFuel end.
Notation "'do' x <- e ; f" := (obind e (fun x => f)) (at level 200, x pattern, e at level 100, f at level 200).

Fixpoint mapO {A B} (f : A -> outcome B) (l : list A) : outcome (list B) :=
  match l with
  | [] => Ok []
  | x :: r => do y <- f x ; do ys <- mapO f r ; Ok (y :: ys)
  end.

Inductive mmode : Type := Release | Checked.

Definition USZ : Z := 18446744073709551616.   (* 2^64 *)

Definition uadd (m : mmode) (a b : Z) : outcome Z :=
  if a + b <? USZ then Ok (a + b)
  else match m with Release => Ok ((a + b) mod USZ) | Checked => Panic end.
Definition umul (m : mmode) (a b : Z) : outcome Z :=
  if a * b <? USZ then Ok (a * b)
  else match m with Release => Ok ((a * b) mod USZ) | Checked => Panic end.

Definition zlen {A} (l : list A) : Z := Z.of_nat (length l).
(* slice::get.  Written with a Z counter so that no unary number proportional to the index is built
   (an index near 2^64 simply runs off the end of the list). *)
Fixpoint zget_aux {A} (l : list A) (i : Z) : option A :=
  match l with
  | [] => None
  | x :: r => if i =? 0 then Some x else zget_aux r (i - 1)
  end.
Definition zget {A} (l : list A) (i : Z) : option A :=
  if i <? 0 then None else zget_aux l i.

(* dst[start .. start + src.len()].clone_from_slice(src); None = range out of bounds (panic) *)
Fixpoint overwrite {A} (dst src : list A) : option (list A) :=
  match src with
  | [] => Some dst
  | s :: sr => match dst with
               | [] => None
               | _ :: dr => option_map (cons s) (overwrite dr sr)
               end
  end.
Fixpoint write_at {A} (dst : list A) (start : Z) (src : list A) : option (list A) :=
  if start =? 0 then overwrite dst src
  else match dst with
       | [] => None
       | x :: r => option_map (cons x) (write_at r (start - 1) src)
       end.

Fixpoint zrange (a : Z) (c : nat) : list Z :=
  match c with O => [] | S c' => a :: zrange (a + 1) c' end.

(* usize::is_power_of_two *)
Definition is_pow2 (n : Z) : bool := (0 <? n) && (n =? 2 ^ Z.log2 n).

(* CUR_*: which variant of the two repairable functions describes the current /repo tree *)
Definition CUR_LEAF_FIXED : bool := true.
Definition CUR_CUTOFF_FIXED : bool := true.

(* sorting helpers: slice::sort_unstable, Vec::dedup (adjacent duplicates only) *)
Fixpoint insert_asc (x : Z) (l : list Z) : list Z :=
  match l with
  | [] => [x]
  | y :: r => if x <=? y then x :: l else y :: insert_asc x r
  end.
Definition isort_asc (l : list Z) : list Z := fold_right insert_asc [] l.
Fixpoint dedup_adj (l : list Z) : list Z :=
  match l with
  | [] => []
  | x :: r => match r with
              | [] => [x]
              | y :: _ => if x =? y then dedup_adj r else x :: dedup_adj r
              end
  end.
Definition zmem (x : Z) (l : list Z) : bool := existsb (Z.eqb x) l.

(* `while node_index > ROOT_INDEX { ...; node_index /= 2 }` : the visited node indices.
   A usize needs at most 64 halvings; [path_up 64] is the loop (fuel-independence is proved). *)
Fixpoint path_up (fuel : nat) (x : Z) : list Z :=
  match fuel with
  | O => []
  | S f => if 1 <? x then x :: path_up f (x / 2) else []
  end.
Definition sibling (x : Z) : Z := Z.lxor x 1.

Section Merkle.
  Variable D : Type.
  Variable H : D -> D -> D.
  Variable Deqb : D -> D -> bool.
  Variable dflt : D.

  (* ------------------------------------------------------------------ MerkleTree construction *)
  (* nodes[start .. start + src.len()].clone_from_slice(src) *)
  Definition write_slice (nodes : list D) (start : Z) (src : list D) : outcome (list D) :=
    if start <? 0 then Panic
    else match write_at nodes start src with Some r => Ok r | None => Panic end.

  Definition hash_children (nodes : list D) (j : Z) : outcome D :=
    match zget nodes (j * 2), zget nodes (j * 2 + 1) with
    | Some l, Some r => Ok (H l r)
    | _, _ => Panic
    end.

  (* one pass of the rayon loop: (0..cnt).into_par_iter().map(..).collect_into_vec; copy back.
     par_iter().map(f) is modelled as map f (DESIGN 1.5). *)
  Definition par_level (nodes : list D) (cnt : Z) : outcome (list D) :=
    do local <- mapO (fun i => hash_children nodes (cnt + i)) (zrange 0 (Z.to_nat cnt)) ;
    write_slice nodes cnt local.

  (* `while node_count_on_this_level >= cutoff` ; [fixed] adds the guard `&& count > 0` *)
  Definition par_guard (fixed : bool) (cutoff cnt : Z) : bool :=
    (cutoff <=? cnt) && (if fixed then 0 <? cnt else true).

  Fixpoint par_loop (fixed : bool) (cutoff : Z) (fuel : nat) (nodes : list D) (cnt acc : Z)
    : outcome (list D * Z) :=
    if par_guard fixed cutoff cnt then
      match fuel with
      | O => OutOfFuel
      | S f => do nodes' <- par_level nodes cnt ;
               par_loop fixed cutoff f nodes' (cnt / 2) (acc + cnt)
      end
    else Ok (nodes, acc).

  (* `for i in (ROOT_INDEX..(len - count_acc)).rev() { nodes[i] = hash_pair(nodes[2i], nodes[2i+1]) }` *)
  Fixpoint seq_loop (nodes : list D) (is : list Z) : outcome (list D) :=
    match is with
    | [] => Ok nodes
    | i :: r => do d <- hash_children nodes i ;
                do nodes' <- write_slice nodes i [d] ;
                seq_loop nodes' r
    end.

  (* CpuParallel::from_digests with the parallelisation cutoff explicit.  No usize operation in
     here can overflow: a slice of 40-byte digests has fewer than 2^58 elements. *)
  Definition from_digests (fixed : bool) (cutoff : Z) (fuel : nat) (ds : list D) : outcome (list D) :=
    let n := zlen ds in
    if n =? 0 then Err
    else if negb (is_pow2 n) then Err
    else
      do nodes0 <- write_slice (repeat dflt (Z.to_nat (2 * n))) n ds ;
      do na <- par_loop fixed cutoff fuel nodes0 (n / 2) 0 ;
      let '(nodes1, acc) := na in
      if n <? acc then Panic
      else seq_loop nodes1 (rev (zrange 1 (Z.to_nat (n - acc - 1)))).

  (* fuel that is always enough when the loop terminates at all: one unit per level *)
  Definition build_fuel (ds : list D) : nat := S (length ds).

  (* ------------------------------------------------------------------ MerkleTree accessors *)
  Definition mt_num_leafs (m : mmode) (t : list D) : outcome Z :=
    let c := zlen t in
    match m with
    | Checked => if is_pow2 c then Ok (c / 2) else Panic      (* debug_assert! *)
    | Release => Ok (c / 2)
    end.

  Definition mt_height (m : mmode) (t : list D) : outcome Z :=
    do n <- mt_num_leafs m t ;
    match m with
    | Checked => if is_pow2 n then Ok (Z.log2 n) else Panic   (* debug_assert!, ilog2(0) *)
    | Release => if n =? 0 then Panic else Ok (Z.log2 n)       (* ilog2(0) panics in every profile *)
    end.

  Definition mt_root (t : list D) : outcome D :=
    match zget t 1 with Some d => Ok d | None => Panic end.
  Definition mt_node (t : list D) (i : Z) : option D := zget t i.
  Definition mt_leafs (t : list D) : list D := skipn (Z.to_nat (zlen t / 2)) t.

  (* leaf: `self.nodes.get(first_leaf_index + index)`; the repaired variant answers None when the
     sum does not fit (checked_add / range test) *)
  Definition mt_leaf (fixed : bool) (m : mmode) (t : list D) (i : Z) : outcome (option D) :=
    let first := zlen t / 2 in
    if fixed then
      if first + i <? USZ then Ok (zget t (first + i)) else Ok None
    else
      do k <- uadd m first i ; Ok (zget t k).

  Definition mt_indexed_leafs (fixed : bool) (m : mmode) (t : list D) (idxs : list Z)
    : outcome (list (Z * D)) :=
    do _n <- mt_num_leafs m t ;
    mapO (fun i => do o <- mt_leaf fixed m t i ;
                   match o with Some d => Ok (i, d) | None => Err end) idxs.

  (* ------------------------------------------------------------------ authentication structure *)
  Fixpoint asni_loop (m : mmode) (n : Z) (idxs : list Z) (needed computable : list Z)
    : outcome (list Z * list Z) :=
    match idxs with
    | [] => Ok (needed, computable)
    | i :: r =>
        if n <=? i then Err
        else do x <- uadd m i n ;
             let p := path_up 64 x in
             asni_loop m n r (needed ++ map sibling p) (computable ++ p)
    end.

  (* needed \ computable, `.sorted_unstable().rev()` *)
  Definition auth_structure_node_indices (m : mmode) (n : Z) (idxs : list Z) : outcome (list Z) :=
    do nc <- asni_loop m n idxs [] [] ;
    let '(needed, computable) := nc in
    Ok (rev (dedup_adj (isort_asc (filter (fun x => negb (zmem x computable)) needed)))).

  Definition mt_authentication_structure (m : mmode) (t : list D) (idxs : list Z) : outcome (list D) :=
    do n <- mt_num_leafs m t ;
    do ni <- auth_structure_node_indices m n idxs ;
    mapO (fun i => match zget t i with Some d => Ok d | None => Panic end) ni.

  Record iproof : Type := MkProof { ip_height : Z; ip_leafs : list (Z * D); ip_auth : list D }.

  Definition mt_inclusion_proof (fixed : bool) (m : mmode) (t : list D) (idxs : list Z) : outcome iproof :=
    do h <- mt_height m t ;
    do il <- mt_indexed_leafs fixed m t idxs ;
    do a <- mt_authentication_structure m t idxs ;
    Ok (MkProof h il a).

  (* ------------------------------------------------------------------ PartialMerkleTree *)
  Definition pmap : Type := list (Z * D).
  Fixpoint mget (mp : pmap) (k : Z) : option D :=
    match mp with
    | [] => None
    | (k', v) :: r => if k =? k' then Some v else mget r k
    end.

  Record pmt : Type := MkPmt { pt_height : Z; pt_leaf_indices : list Z; pt_nodes : pmap }.

  Definition MAX_TREE_HEIGHT : Z := 31.

  Definition pmt_num_leafs (m : mmode) (h : Z) : outcome Z :=
    if MAX_TREE_HEIGHT <? h then Err else Ok (2 ^ h).      (* 1 << h, h <= 31 *)

  (* the `for (leaf_index, leaf_digest) in proof.indexed_leafs` loop of try_from *)
  Fixpoint add_leafs (m : mmode) (n : Z) (il : list (Z * D)) (nodes : pmap) : outcome pmap :=
    match il with
    | [] => Ok nodes
    | (i, d) :: r =>
        do k <- uadd m i n ;
        match mget nodes k with
        | None => add_leafs m n r ((k, d) :: nodes)
        | Some d' => if Deqb d' d then add_leafs m n r nodes else Err
        end
    end.

  Definition first_layer_parents (m : mmode) (h : Z) (idxs : list Z) : outcome (list Z) :=
    do n <- pmt_num_leafs m h ;
    do ps <- mapO (fun i => do x <- uadd m i n ; Ok (x / 2)) idxs ;
    Ok (dedup_adj (isort_asc ps)).

  (* insert_digest_for_index over one layer *)
  Fixpoint fill_layer (m : mmode) (nodes : pmap) (parents : list Z) : outcome pmap :=
    match parents with
    | [] => Ok nodes
    | p :: r =>
        do lc <- umul m p 2 ;
        let rc := Z.lxor lc 1 in
        match mget nodes lc with
        | None => Err                                   (* MissingNodeIndex *)
        | Some l =>
            match mget nodes rc with
            | None => Err
            | Some rr =>
                match mget nodes p with
                | Some _ => Err                         (* SpuriousNodeIndex *)
                | None => fill_layer m ((p, H l rr) :: nodes) r
                end
            end
        end
    end.

  Fixpoint fill_loop (m : mmode) (rounds : nat) (nodes : pmap) (parents : list Z) : outcome pmap :=
    match rounds with
    | O => Ok nodes
    | S r => do nodes' <- fill_layer m nodes parents ;
             fill_loop m r nodes' (dedup_adj (map (fun i => i / 2) parents))
    end.

  Definition pmt_fill (m : mmode) (h : Z) (idxs : list Z) (nodes : pmap) : outcome pmap :=
    do ps <- first_layer_parents m h idxs ;
    fill_loop m (Z.to_nat h) nodes ps.

  (* TryFrom<MerkleTreeInclusionProof> for PartialMerkleTree, checks in the code's order *)
  Definition pmt_try_from (m : mmode) (p : iproof) : outcome pmt :=
    let idxs := map fst (ip_leafs p) in
    let h := ip_height p in
    do n <- pmt_num_leafs m h ;
    if existsb (fun i => n <=? i) idxs then Err
    else
      do ni <- auth_structure_node_indices m n idxs ;
      if negb (zlen (ip_auth p) =? zlen ni) then Err
      else
        let nodes0 := rev (combine ni (ip_auth p)) in
        do nodes1 <- add_leafs m n (ip_leafs p) nodes0 ;
        do nodes2 <- pmt_fill m h idxs nodes1 ;
        Ok (MkPmt h idxs nodes2).

  Definition pmt_root (t : pmt) : outcome D :=
    match mget (pt_nodes t) 1 with Some d => Ok d | None => Err end.

  Definition is_trivial (p : iproof) : bool :=
    match ip_leafs p, ip_auth p with [], [] => true | _, _ => false end.

  (* MerkleTreeInclusionProof::verify : Ok verdict, or Panic *)
  Definition ip_verify (m : mmode) (p : iproof) (expected : D) : outcome bool :=
    if is_trivial p then Ok true
    else match pmt_try_from m p with
         | Ok t => match pmt_root t with
                   | Ok r => Ok (Deqb r expected)
                   | Err => Ok false
                   | Panic => Panic
                   | OutOfFuel => OutOfFuel
                   end
         | Err => Ok false
         | Panic => Panic
         | OutOfFuel => OutOfFuel
         end.

  Definition auth_path_for_index (m : mmode) (t : pmt) (i : Z) : outcome (list D) :=
    do n <- pmt_num_leafs m (pt_height t) ;
    do x <- uadd m i n ;
    mapO (fun k => match mget (pt_nodes t) (sibling k) with Some d => Ok d | None => Err end)
         (path_up 64 x).

  Definition ip_into_authentication_paths (m : mmode) (p : iproof) : outcome (list (list D)) :=
    do t <- pmt_try_from m p ;
    mapO (auth_path_for_index m t) (pt_leaf_indices t).
End Merkle.

Arguments MkProof {D}.
Arguments ip_height {D}.
Arguments ip_leafs {D}.
Arguments ip_auth {D}.

(* ---------------------------------------------------------------------- the free hash (DESIGN 1.3) *)
Inductive term : Type :=
| Atom (k : Z)
| Dflt
| Node (l r : term).

Fixpoint term_eqb (a b : term) : bool :=
  match a, b with
  | Atom x, Atom y => x =? y
  | Dflt, Dflt => true
  | Node a1 a2, Node b1 b2 => term_eqb a1 b1 && term_eqb a2 b2
  | _, _ => false
  end.
