(* Mmr.v - executable model of the MMR accumulator, membership proofs and successor proofs
   (twenty-first/src/util_types/mmr/{mmr_accumulator, mmr_membership_proof, mmr_successor_proof,
   shared_basic}.rs and util_types/shared.rs), over an abstract hash.  Definitions only.

   D        digests;        H a b = Tip5::hash_pair(a, b);      deq = derived PartialEq on Digest
   dflt     Digest::default()                                    hash0 = Tip5::hash(&0u128)
   option   None = the call panics (index out of bounds, unwrap on None, assert!, ilog2 of 0, arithmetic
            overflow as in a checked build, see MmrIdxLocal.v)
   HashMap<u64, Digest> = association list, newest binding first (lookup = latest insert); HashSet = list
   used through membership only.  The only iteration over a hash container in the code is
   `intersection.next()` twice in update_from_leaf_mutation, which is order independent: no element ->
   false, two or more -> assert panic, exactly one -> that element. *)
From Coq Require Import ZArith List Bool.
From TF Require Import Word MmrIdxLocal.
Import ListNotations.
Open Scope Z_scope.

Fixpoint zmem (x : Z) (l : list Z) : bool :=
  match l with [] => false | y :: r => (x =? y) || zmem x r end.
Fixpoint znodup (l : list Z) : bool :=
  match l with [] => true | x :: r => negb (zmem x r) && znodup r end.
Fixpoint zmax (l : list Z) (m : Z) : Z :=
  match l with [] => m | x :: r => zmax r (Z.max x m) end.
Definition zlen {A : Type} (l : list A) : Z := Z.of_nat (length l).
Fixpoint set_nth {A : Type} (l : list A) (n : nat) (x : A) : option (list A) :=
  match l, n with
  | [], _ => None
  | _ :: r, O => Some (x :: r)
  | y :: r, S n' => match set_nth r n' x with Some r' => Some (y :: r') | None => None end
  end.
Fixpoint last_opt {A : Type} (l : list A) : option A :=
  match l with [] => None | [x] => Some x | _ :: r => last_opt r end.
(* Vec::dedup : remove consecutive repeats *)
Fixpoint zdedup (l : list Z) : list Z :=
  match l with
  | x :: (y :: _) as r => if x =? y then zdedup r else x :: zdedup r
  | _ => l
  end.
Fixpoint omap {A B : Type} (f : A -> option B) (l : list A) : option (list B) :=
  match l with
  | [] => Some []
  | x :: r => let? y := f x in let? r' := omap f r in Some (y :: r')
  end.

Section Mmr.
Variable D : Type.
Variable H : D -> D -> D.
Variable deq : D -> D -> bool.
Variable dflt : D.
Variable hash0 : D.

Definition dmap := list (Z * D).
Fixpoint dget (m : dmap) (k : Z) : option D :=
  match m with [] => None | (k', v) :: r => if k =? k' then Some v else dget r k end.
Definition dins (m : dmap) (k : Z) (v : D) : dmap := (k, v) :: m.

Fixpoint list_deq (a b : list D) : bool :=
  match a, b with
  | [], [] => true
  | x :: a', y :: b' => deq x y && list_deq a' b'
  | _, _ => false
  end.

Definition accumulator : Type := (Z * list D)%type.        (* (leaf_count, peaks) *)
Definition mproof : Type := list D.                         (* authentication_path *)
Definition leaf_mutation : Type := (Z * D * list D)%type.   (* (leaf_index, new_leaf, membership_proof) *)

Definition acc_init (peaks : list D) (leaf_count : Z) : accumulator := (leaf_count, peaks).
Definition acc_is_empty (a : accumulator) : bool := fst a =? 0.
Definition acc_num_leafs (a : accumulator) : Z := fst a.
Definition acc_peaks (a : accumulator) : list D := snd a.

(* ---------------------------------------------------------------- util_types/shared.rs bag_peaks *)
Definition bag_peaks (peaks : list D) : D :=
  match rev peaks with
  | [] => hash0
  | [last_peak] => last_peak
  | last_peak :: second_to_last :: rest =>
      fold_left (fun acc peak => H peak acc) rest (H second_to_last last_peak)
  end.

(* ---------------------------------------------------------------- shared_basic.rs *)
(* the while loop of calculate_new_peaks_from_append on the reversed peak vector (top :: rest):
   each turn pops new_hash = top and previous_peak = head of rest *)
Fixpoint append_loop (rlc : Z) (top : D) (rest : list D) : option (list D * list D) :=
  if rlc =? 0 then Some (top :: rest, [])
  else match rest with
       | [] => None
       | prev :: rest' =>
         match append_loop (rlc - 1) (H prev top) rest' with
         | Some (st, ap) => Some (st, prev :: ap)
         | None => None
         end
       end.
Definition calculate_new_peaks_from_append (old_leaf_count : Z) (old_peaks : list D) (new_leaf : D)
  : option (list D * mproof) :=
  let? rlc := rll_leaf old_leaf_count in
  let? (st, ap) := append_loop rlc new_leaf (rev old_peaks) in
  Some (rev st, ap).

(* the `while acc_mt_index != 1` loops (leaf mutation and verify): consumes one path element per
   turn, an exhausted path is the index panic; surplus elements are ignored *)
Fixpoint fold_mt (mt : Z) (acc : D) (path : list D) : option D :=
  if mt =? 1 then Some acc
  else match path with
       | [] => None
       | ap_element :: path' =>
         fold_mt (mt / 2) (if mt mod 2 =? 1 then H ap_element acc else H acc ap_element) path'
       end.

Definition calculate_new_peaks_from_leaf_mutation (old_peaks : list D) (leaf_count : Z) (new_leaf : D)
           (leaf_index : Z) (mp : mproof) : option (list D) :=
  let? (mt, pk) := li_mt_pk leaf_index leaf_count in
  let? acc := fold_mt mt new_leaf mp in
  set_nth old_peaks (Z.to_nat pk) acc.

(* ---------------------------------------------------------------- MmrAccumulator *)
Definition acc_append (a : accumulator) (new_leaf : D) : option (accumulator * mproof) :=
  let? (peaks, mp) := calculate_new_peaks_from_append (fst a) (snd a) new_leaf in
  let? n := add64 (fst a) 1 in
  Some ((n, peaks), mp).

Fixpoint acc_append_all (a : accumulator) (ds : list D) : option accumulator :=
  match ds with
  | [] => Some a
  | d :: r => let? (a', _) := acc_append a d in acc_append_all a' r
  end.
Definition new_from_leafs (ds : list D) : option accumulator := acc_append_all (0, []) ds.

Definition acc_mutate_leaf (a : accumulator) (lm : leaf_mutation) : option accumulator :=
  let '(leaf_index, new_leaf, mp) := lm in
  let? peaks := calculate_new_peaks_from_leaf_mutation (snd a) (fst a) new_leaf leaf_index mp in
  Some (fst a, peaks).

(* ---------------------------------------------------------------- MmrMembershipProof *)
(* peaks.len().try_into::<u32>().unwrap() *)
Definition len_u32 {A : Type} (l : list A) : option Z :=
  if zlen l <? 4294967296 then Some (zlen l) else None.

Definition mp_verify (ap : mproof) (leaf_index : Z) (leaf_hash : D) (peaks : list D) (leaf_count : Z)
  : option bool :=
  if leaf_count <=? leaf_index then Some false
  else
    let? (mt, pk) := li_mt_pk leaf_index leaf_count in
    let? received := len_u32 peaks in
    if negb (count_ones leaf_count =? received) then Some false
    else if negb (Z.log2 mt =? zlen ap) then Some false
    else
      let? acc := fold_mt mt leaf_hash ap in
      let? expected := nth_error peaks (Z.to_nat pk) in
      Some (deq expected acc).

Fixpoint node_indices_loop (n : nat) (node_index : Z) : option (list Z) :=
  match n with
  | O => Some []
  | S n' =>
    let? (_, s, p) := up_info node_index in
    let? r := node_indices_loop n' p in Some (s :: r)
  end.
Definition get_node_indices (ap : mproof) (leaf_index : Z) : option (list Z) :=
  let? ni := l2n leaf_index in node_indices_loop (length ap) ni.

Fixpoint direct_path_loop (n : nat) (node_index : Z) : option (list Z) :=
  match n with
  | O => Some []
  | S n' => let? p := parent node_index in let? r := direct_path_loop n' p in Some (p :: r)
  end.
Definition get_direct_path_indices (ap : mproof) (leaf_index : Z) : option (list Z) :=
  let? ni := l2n leaf_index in
  let? r := direct_path_loop (length ap) ni in Some (ni :: r).

Definition get_peak_index_and_height (ap : mproof) (leaf_index : Z) : option (Z * Z) :=
  let? dp := get_direct_path_indices ap leaf_index in
  let? l := last_opt dp in Some (l, zlen ap).

(* known_digests built from the old peaks: zip(old_peak_indices, old_peaks) inserted in order *)
Fixpoint insert_zip (m : dmap) (ks : list Z) (vs : list D) : dmap :=
  match ks, vs with
  | k :: ks', v :: vs' => insert_zip (dins m k v) ks' vs'
  | _, _ => m
  end.

Fixpoint lookup_all (m : dmap) (ks : list Z) : option (list D) :=
  match ks with
  | [] => Some []
  | k :: r => let? v := dget m k in let? vs := lookup_all m r in Some (v :: vs)
  end.

(* update_from_append, step 5.b: for (node_index, old_peak) in zip(added, rev old_peaks) *)
Fixpoint ufa_loop (m : dmap) (acc : D) (added : list Z) (rpeaks : list D) (missing : list Z) : dmap :=
  match added, rpeaks with
  | ni :: added', pk :: rpeaks' =>
    let m' := dins m ni acc in
    if zmem ni missing then m' else ufa_loop m' (H pk acc) added' rpeaks' missing
  | _, _ => m
  end.

Definition update_from_append (ap : mproof) (mp_leaf_index old_leaf_count : Z) (new_leaf : D)
           (old_peaks : list D) : option (mproof * bool) :=
  let? (own_old_peak_index, own_old_peak_height) := get_peak_index_and_height ap mp_leaf_index in
  let? added := node_indices_added_by_append old_leaf_count in
  let? sh := shl1 (own_old_peak_height + 1) in
  let? peak_parent_index := add64 own_old_peak_index sh in
  if negb (zmem peak_parent_index added) then Some (ap, false)
  else
    let? new_peak_index := last_opt added in
    let? n1 := add64 old_leaf_count 1 in
    let? new_node_count := num_nodes n1 in
    let? missing_o := get_authentication_path_node_indices own_old_peak_index new_peak_index new_node_count in
    let? missing := missing_o in
    let? old_pi := peak_heights_and_indices old_leaf_count in
    let known := insert_zip [] (map snd old_pi) old_peaks in
    let known := ufa_loop known new_leaf added (rev old_peaks) missing in
    let? ext := lookup_all known missing in
    Some (ap ++ ext, true).

(* batch_update_from_append, step 2.b: count = position in `added`; break when count = len - 2 *)
Fixpoint bufa_loop (m : dmap) (acc : D) (count stop : Z) (added : list Z) (rpeaks : list D) : dmap :=
  match added, rpeaks with
  | ni :: added', pk :: rpeaks' =>
    let m' := dins m ni acc in
    if count =? stop then m' else bufa_loop m' (H pk acc) (count + 1) stop added' rpeaks'
  | _, _ => m
  end.

(* the per-proof loop; returns the updated proofs and the `modified` positions *)
Fixpoint bufa_proofs (i : Z) (mps : list mproof) (idxs : list Z) (added : list Z) (known : dmap)
         (new_peak_index new_node_count : Z) : option (list mproof * list Z) :=
  match mps, idxs with
  | ap :: mps', li :: idxs' =>
    let? (old_peak_index, old_peak_height) := get_peak_index_and_height ap li in
    let? sh := shl1 (old_peak_height + 1) in
    let? peak_parent_index := add64 old_peak_index sh in
    if negb (zmem peak_parent_index added) then
      let? (r, md) := bufa_proofs (i + 1) mps' idxs' added known new_peak_index new_node_count in
      Some (ap :: r, md)
    else
      let? missing_o := get_authentication_path_node_indices old_peak_index new_peak_index new_node_count in
      let? missing := missing_o in
      let? ext := lookup_all known missing in
      let? (r, md) := bufa_proofs (i + 1) mps' idxs' added known new_peak_index new_node_count in
      Some ((ap ++ ext) :: r, i :: md)
  | _, _ => Some ([], [])
  end.

Definition batch_update_from_append (mps : list mproof) (idxs : list Z) (old_leaf_count : Z)
           (new_leaf : D) (old_peaks : list D) : option (list mproof * list Z) :=
  if negb (length mps =? length idxs)%nat then None
  else if negb (forallb (fun x => x <? old_leaf_count) idxs) then None
  else
    let? added := node_indices_added_by_append old_leaf_count in
    if zlen added =? 1 then Some (mps, [])
    else
      let? old_pi := peak_heights_and_indices old_leaf_count in
      let known := insert_zip [] (map snd old_pi) old_peaks in
      let known := bufa_loop known new_leaf 0 (zlen added - 2) added (rev old_peaks) in
      let? new_peak_index := last_opt added in
      let? n1 := add64 old_leaf_count 1 in
      let? new_node_count := num_nodes n1 in
      bufa_proofs 0 mps idxs added known new_peak_index new_node_count.

(* replace the path elements whose node index has a binding *)
Fixpoint replace_known (m : dmap) (ap : list D) (idxs : list Z) : list D :=
  match ap, idxs with
  | d :: ap', k :: idxs' =>
    (match dget m k with Some v => v | None => d end) :: replace_known m ap' idxs'
  | _, _ => ap
  end.

(* update_from_leaf_mutation: deducible hashes up to the intersecting node *)
Fixpoint uflm_loop (m : dmap) (node_index : Z) (acc : D) (path : list D) (stop : Z) : option dmap :=
  match path with
  | [] => Some m
  | hash :: path' =>
    if stop =? node_index then Some m
    else
      let? (is_right, p) := step_up node_index in
      let acc' := if is_right then H hash acc else H acc hash in
      uflm_loop (dins m p acc') p acc' path' stop
  end.

Fixpoint zfilter_mem (l s : list Z) : list Z :=
  match l with [] => [] | x :: r => if zmem x s then x :: zfilter_mem r s else zfilter_mem r s end.
Fixpoint zuniq (l : list Z) : list Z :=
  match l with [] => [] | x :: r => if zmem x r then zuniq r else x :: zuniq r end.

Definition update_from_leaf_mutation (ap : mproof) (own_leaf_index : Z) (lm : leaf_mutation)
  : option (mproof * bool) :=
  let '(leaf_index, new_leaf, lm_ap) := lm in
  let? affected := get_direct_path_indices lm_ap leaf_index in
  let? own := get_node_indices ap own_leaf_index in
  match zfilter_mem (zuniq own) affected with
  | [] => Some (ap, false)
  | [intersection_index] =>
    let? ni := l2n leaf_index in
    let? m := uflm_loop (dins [] ni new_leaf) ni new_leaf lm_ap intersection_index in
    Some (replace_known m ap own, true)
  | _ => None
  end.

(* batch_update_from_leaf_mutation: deducible hashes, stopping before the peak *)
Fixpoint buflm_loop (m : dmap) (node_index : Z) (acc : D) (path : list D) : option dmap :=
  match path with
  | [] => Some m
  | [_] => Some m
  | hash :: path' =>
    let? (is_right, p) := step_up node_index in
    let acc' := if is_right then H hash acc else H acc hash in
    buflm_loop (dins m p acc') p acc' path'
  end.

(* first element with a binding that differs is replaced; at most one *)
Fixpoint replace_first_changed (m : dmap) (ap : list D) (idxs : list Z) : list D * bool :=
  match ap, idxs with
  | d :: ap', k :: idxs' =>
    match dget m k with
    | Some v => if negb (deq d v) then (v :: ap', true)
                else let '(r, b) := replace_first_changed m ap' idxs' in (d :: r, b)
    | None => let '(r, b) := replace_first_changed m ap' idxs' in (d :: r, b)
    end
  | _, _ => (ap, false)
  end.

Fixpoint buflm_proofs (i : Z) (m : dmap) (mps : list mproof) (idxs : list Z) : option (list mproof * list Z) :=
  match mps, idxs with
  | ap :: mps', li :: idxs' =>
    let? ap_indices := get_node_indices ap li in
    let '(ap2, changed) := replace_first_changed m ap ap_indices in
    let? (r, md) := buflm_proofs (i + 1) m mps' idxs' in
    Some (ap2 :: r, if changed then i :: md else md)
  | _, _ => Some ([], [])
  end.

Definition batch_update_from_leaf_mutation (mps : list mproof) (idxs : list Z) (lm : leaf_mutation)
  : option (list mproof * list Z) :=
  let '(leaf_index, new_leaf, lm_ap) := lm in
  if negb (length mps =? length idxs)%nat then None
  else
    let? ni := l2n leaf_index in
    let? m := buflm_loop (dins [] ni new_leaf) ni new_leaf lm_ap in
    buflm_proofs 0 m mps idxs.

(* inner loop of the two batch-mutation routines.  `keep_last` = false: stop before the last path
   element (batch_update_from_batch_leaf_mutation); true: go to the peak but do not record it
   (batch_mutate_leaf_and_update_mps).  Returns the map and the last accumulated hash. *)
Fixpoint bm_inner (keep_last : bool) (m : dmap) (node_index : Z) (acc : D) (path : list D)
  : option (dmap * D) :=
  match path with
  | [] => Some (m, acc)
  | hash :: path' =>
    match path', keep_last with
    | [], false => Some (m, acc)
    | _, _ =>
      let? (is_right, s, p) := up_info node_index in
      let sibling_hash := match dget m s with Some v => v | None => hash end in
      let acc' := if is_right then H sibling_hash acc else H acc sibling_hash in
      match path' with
      | [] => Some (m, acc')
      | _ => bm_inner keep_last (dins m p acc') p acc' path'
      end
    end
  end.

(* every element with a binding that differs is replaced; one `i` pushed per replaced element *)
Fixpoint replace_all_changed (m : dmap) (ap : list D) (idxs : list Z) : list D * Z :=
  match ap, idxs with
  | d :: ap', k :: idxs' =>
    let '(r, c) := replace_all_changed m ap' idxs' in
    match dget m k with
    | Some v => if negb (deq d v) then (v :: r, c + 1) else (d :: r, c)
    | None => (d :: r, c)
    end
  | _, _ => (ap, 0)
  end.

Fixpoint bm_proofs (i : Z) (m : dmap) (mps : list mproof) (idxs : list Z) : option (list mproof * list Z) :=
  match mps, idxs with
  | ap :: mps', li :: idxs' =>
    let? ap_indices := get_node_indices ap li in
    let '(ap2, c) := replace_all_changed m ap ap_indices in
    let? (r, md) := bm_proofs (i + 1) m mps' idxs' in
    Some (ap2 :: r, repeat i (Z.to_nat c) ++ md)
  | _, _ => Some ([], [])
  end.

(* the `while let Some(..) = leaf_mutations.pop()` loop: last mutation first *)
Fixpoint bubm_muts (m : dmap) (rmuts : list leaf_mutation) : option dmap :=
  match rmuts with
  | [] => Some m
  | (leaf_index, new_leaf, lm_ap) :: r =>
    let? ni := l2n leaf_index in
    match dget m ni with
    | Some _ => None
    | None =>
      let? (m', _) := bm_inner false (dins m ni new_leaf) ni new_leaf lm_ap in
      bubm_muts m' r
    end
  end.

Definition batch_update_from_batch_leaf_mutation (mps : list mproof) (idxs : list Z)
           (lms : list leaf_mutation) : option (list mproof * list Z) :=
  if negb (length mps =? length idxs)%nat then None
  else
    let? m := bubm_muts [] (rev lms) in
    let? (r, md) := bm_proofs 0 m mps idxs in
    Some (r, zdedup md).

Fixpoint bmlu_muts (m : dmap) (peaks : list D) (leaf_count : Z) (rmuts : list leaf_mutation)
  : option (dmap * list D) :=
  match rmuts with
  | [] => Some (m, peaks)
  | (leaf_index, new_leaf, lm_ap) :: r =>
    let? ni := l2n leaf_index in
    match dget m ni with
    | Some _ => None
    | None =>
      let? (m', acc) := bm_inner true (dins m ni new_leaf) ni new_leaf lm_ap in
      let? (_, pk) := li_mt_pk leaf_index leaf_count in
      let? peaks' := set_nth peaks (Z.to_nat pk) acc in
      bmlu_muts m' peaks' leaf_count r
    end
  end.

Definition batch_mutate_leaf_and_update_mps (a : accumulator) (mps : list mproof) (idxs : list Z)
           (lms : list leaf_mutation) : option (accumulator * list mproof * list Z) :=
  if negb (length mps =? length idxs)%nat then None
  else if negb (forallb (fun x => x <? fst a) idxs) then None
  else
    let? (m, peaks) := bmlu_muts [] (snd a) (fst a) (rev lms) in
    let? (r, md) := bm_proofs 0 m mps idxs in
    Some ((fst a, peaks), r, zdedup md).

(* verify_batch_update.  The vectors are reversed and popped, i.e. the mutations are applied in the
   given order; after each one the proofs of the mutations still to come are passed through
   batch_update_from_leaf_mutation (they sit in reversed order in the vector; the routine treats
   each proof independently, so the order is immaterial and the returned positions are unused). *)
Fixpoint vbu_muts (running : list D) (leaf_count : Z) (ivs : list (Z * D)) (aps : list mproof)
  : option (list D) :=
  match ivs, aps with
  | (leaf_index, new_leaf) :: ivs', lm_ap :: aps' =>
    let? running' := calculate_new_peaks_from_leaf_mutation running leaf_count new_leaf leaf_index lm_ap in
    let? (aps2, _) := batch_update_from_leaf_mutation aps' (map fst ivs') (leaf_index, new_leaf, lm_ap) in
    vbu_muts running' leaf_count ivs' aps2
  | _, _ => Some running
  end.
Fixpoint vbu_appends (running : list D) (count : Z) (ds : list D) : option (list D) :=
  match ds with
  | [] => Some running
  | d :: r =>
    let? (pk, _) := calculate_new_peaks_from_append count running d in
    let? c := add64 count 1 in
    vbu_appends pk c r
  end.
Definition verify_batch_update (a : accumulator) (new_peaks : list D) (appended : list D)
           (lms : list leaf_mutation) : option bool :=
  let idxs := map (fun x => fst (fst x)) lms in
  if negb (znodup idxs) then Some false
  else if (acc_is_empty a && negb (length idxs =? 0)%nat)
          || (negb (length idxs =? 0)%nat && (fst a <=? zmax idxs 0)) then Some false
  else
    let? running := vbu_muts (snd a) (fst a) (map fst lms) (map snd lms) in
    let? running := vbu_appends running (fst a) appended in
    Some (list_deq running new_peaks).

(* ---------------------------------------------------------------- MmrSuccessorProof *)
(* needed_indices[i]: climb from an old peak until a new peak index is reached *)
Fixpoint needed_loop (fuel : nat) (current_index current_height : Z) (new_peak_idx : list Z) (k : Z)
  : option (list (option (Z * Z))) :=
  if zmem current_index new_peak_idx then Some []
  else match fuel with
       | O => None
       | S f =>
         let? rs := right_sibling current_index current_height in
         let? parent_index := parent current_index in
         let? prs := parent rs in
         let? sibling := (if negb (prs =? parent_index) then left_sibling current_index current_height
                          else Some rs) in
         let? r := needed_loop f parent_index (current_height + 1) new_peak_idx (k + 1) in
         Some (Some (k, sibling) :: r)
       end.

(* find the first still-wanted slot with this node index; returns its list position and clears it *)
Fixpoint take_slot (slots : list (option (Z * Z))) (index : Z) : option (Z * list (option (Z * Z))) :=
  match slots with
  | [] => None
  | Some (pos, ni) :: r =>
    if ni =? index then Some (pos, None :: r)
    else match take_slot r index with Some (p, r') => Some (p, Some (pos, ni) :: r') | None => None end
  | None :: r =>
    match take_slot r index with Some (p, r') => Some (p, None :: r') | None => None end
  end.

(* for (path, path_indices) in zip(paths, needed): fill one node *)
Fixpoint fill_node (paths : list (list D)) (needed : list (list (option (Z * Z)))) (index : Z) (node : D)
  : option (list (list D) * list (list (option (Z * Z)))) :=
  match paths, needed with
  | path :: paths', slots :: needed' =>
    let? (paths2, needed2) := fill_node paths' needed' index node in
    match take_slot slots index with
    | Some (pos, slots') =>
      let? path' := set_nth path (Z.to_nat pos) node in
      Some (path' :: paths2, slots' :: needed2)
    | None => Some (path :: paths2, slots :: needed2)
    end
  | _, _ => Some (paths, needed)
  end.

Fixpoint fill_nodes (paths : list (list D)) (needed : list (list (option (Z * Z)))) (nodes : list (Z * D))
  : option (list (list D) * list (list (option (Z * Z)))) :=
  match nodes with
  | [] => Some (paths, needed)
  | (index, node) :: r =>
    let? (p, n) := fill_node paths needed index node in fill_nodes p n r
  end.

(* scan(new_leaf, |runner, path_node| { yld = runner; runner = H(path_node, runner); yld }) *)
Fixpoint scan_nodes (runner : D) (path : list D) : list D :=
  match path with [] => [] | pn :: r => runner :: scan_nodes (H pn runner) r end.

Fixpoint sp_appends (paths : list (list D)) (needed : list (list (option (Z * Z))))
         (current_peaks : list D) (current_peak_indices : list Z) (current_leaf_count : Z)
         (new_leafs : list D) : option (list (list D)) :=
  match new_leafs with
  | [] => Some paths
  | new_leaf :: r =>
    let? new_node_indices := node_indices_added_by_append current_leaf_count in
    let? (new_peaks, mp) := calculate_new_peaks_from_append current_leaf_count current_peaks new_leaf in
    let? c1 := add64 current_leaf_count 1 in
    let? new_pi := peak_heights_and_indices c1 in
    let new_nodes := scan_nodes new_leaf mp in
    let? (paths', needed') :=
       fill_nodes paths needed (combine new_node_indices new_nodes ++ combine current_peak_indices current_peaks) in
    sp_appends paths' needed' new_peaks (map snd new_pi) c1 r
  end.

Fixpoint needed_all (old_pi : list (Z * Z)) (new_peak_idx : list Z) : option (list (list (option (Z * Z)))) :=
  match old_pi with
  | [] => Some []
  | (height, index) :: r =>
    let? n := needed_loop 65 index height new_peak_idx 0 in
    let? rest := needed_all r new_peak_idx in Some (n :: rest)
  end.

Definition sp_new_from_batch_append (a : accumulator) (new_leafs : list D) : option (list D) :=
  let? old_pi := peak_heights_and_indices (fst a) in
  let? total := add64 (fst a) (zlen new_leafs) in
  let? new_pi := peak_heights_and_indices total in
  let? needed := needed_all old_pi (map snd new_pi) in
  let paths := map (fun ni => repeat dflt (length ni)) needed in
  let? paths' := sp_appends paths needed (snd a) (map snd old_pi) (fst a) new_leafs in
  Some (concat paths').

(* the `while current_merkle_tree_index != 1` loop of verify: log2(index) turns; index 0 would spin
   forever (unreachable: old <= new was checked) and is None.  A missing digest is
   Digest::default().  Returns (node, ap_index). *)
Fixpoint sp_climb (n : nat) (idx : Z) (node : D) (paths : list D) (ap_index : Z) : D * Z :=
  match n with
  | O => (node, ap_index)
  | S n' =>
    let sibling := nth (Z.to_nat ap_index) paths dflt in
    let node' := if Z.land idx 1 =? 0 then H node sibling else H sibling node in
    sp_climb n' (idx / 2) node' paths (ap_index + 1)
  end.

Fixpoint sp_verify_loop (old_peaks : list D) (num_leafs_remaining running_leaf_count ap_index : Z)
         (paths : list D) (new_count : Z) (new_peaks : list D) : option bool :=
  match old_peaks with
  | [] => Some (ap_index =? zlen paths)
  | old_peak :: r =>
    if num_leafs_remaining <=? 0 then None      (* 0.ilog2() *)
    else
      let old_height := Z.log2 num_leafs_remaining in
      let nlr := num_leafs_remaining - 2 ^ old_height in
      let? (mt, new_peak_index) := li_mt_pk running_leaf_count new_count in
      let cur := mt / 2 ^ old_height in
      let? running' := add64 running_leaf_count (2 ^ old_height) in
      if cur <=? 0 then None
      else
        let '(node, ap') := sp_climb (Z.to_nat (Z.log2 cur)) cur old_peak paths ap_index in
        let? np := nth_error new_peaks (Z.to_nat new_peak_index) in
        if negb (deq np node) then Some false
        else sp_verify_loop r nlr running' ap' paths new_count new_peaks
  end.

(* guard_old = false: the code as it is (v0); true: with the additional rejection of an old
   accumulator whose peak count differs from count_ones (v1, fixes/C12-...patch) *)
Definition sp_verify_gen (guard_old : bool) (paths : list D) (old new : accumulator) : option bool :=
  if fst new <? fst old then Some false
  else
    let? num_new_peaks := len_u32 (snd new) in
    if negb (count_ones (fst new) =? num_new_peaks) then Some false
    else
      let? go := (if guard_old then
                    let? num_old_peaks := len_u32 (snd old) in
                    Some (count_ones (fst old) =? num_old_peaks)
                  else Some true) in
      if negb go then Some false
      else sp_verify_loop (snd old) (fst old) 0 0 paths (fst new) (snd new).

Definition sp_verify_v0 := sp_verify_gen false.
Definition sp_verify_v1 := sp_verify_gen true.

End Mmr.
