(* MmrIdxLocal.v - the MMR index functions needed by the C05/C11/C12 models, written by hand and
   faithful to twenty-first/src/util_types/mmr/{shared_basic.rs, shared_advanced.rs}.
   (Local stand-in for gen/MmrIndexGen.v + model/MmrIndex.v of C16.)

   u64/u32 values are integers in Z.  An arithmetic overflow / underflow / over-long shift of an
   unchecked Rust operator is the outcome `None` (= the panic of a checked build; a release build
   would wrap - this only concerns leaf counts >= 2^63, outside the domain of the properties).
   `assert!`, `unwrap`, `ilog2(0)` are `None` as well.  Loops are structural recursions on a height
   (<= 64); running out of that fuel is `None` too and is unreachable for node indices in [1, 2^64). *)
From Coq Require Import ZArith List Bool.
From TF Require Import Word.
Import ListNotations.
Open Scope Z_scope.

Definition obind {A B : Type} (o : option A) (f : A -> option B) : option B :=
  match o with Some a => f a | None => None end.
Notation "'let?' x := e 'in' f" := (obind e (fun x => f)) (at level 200, x pattern, right associativity).

Definition two64 : Z := 18446744073709551616.
Definition two63 : Z := 9223372036854775808.

Definition add64 (a b : Z) : option Z := if a + b <? two64 then Some (a + b) else None.
Definition sub64 (a b : Z) : option Z := if b <=? a then Some (a - b) else None.
(* 1 << k on u64 *)
Definition shl1 (k : Z) : option Z := if (0 <=? k) && (k <? 64) then Some (2 ^ k) else None.

(* shared_basic::leaf_index_to_mt_index_and_peak_index.  No operation in it can overflow once the
   assert holds (lemma li_mt_pk_spec in the proofs), so the function is exact for all u64 inputs. *)
Definition li_mt_pk (leaf_index leaf_count : Z) : option (Z * Z) :=
  if leaf_index <? leaf_count then
    let discrepancies := Z.lxor leaf_index leaf_count in
    let local_mt_height := Z.log2 discrepancies in
    let local_mt_leaf_count := 2 ^ local_mt_height in
    let remainder_bitmask := local_mt_leaf_count - 1 in
    let local_leaf_index := Z.land remainder_bitmask leaf_index in
    let mt_index := local_leaf_index + local_mt_leaf_count in
    let all_the_ones := count_ones leaf_count in
    let ones_to_subtract := count_ones (Z.land leaf_count remainder_bitmask) in
    Some (mt_index, all_the_ones - ones_to_subtract - 1)
  else None.

(* shared_basic::right_lineage_length_from_leaf_index *)
Definition rll_leaf (leaf_index : Z) : option Z :=
  if leaf_index + 1 <? two64 then
    let pow2 := Z.land (leaf_index + 1) (wnot 64 leaf_index) in
    Some (64 - leading_zeros 64 pow2 - 1)
  else None.

(* shared_advanced::leftmost_ancestor; node_index = 0 underflows the u32 subtraction *)
Definition leftmost_ancestor (node_index : Z) : option (Z * Z) :=
  if node_index <=? 0 then None
  else if leading_zeros 64 node_index =? 0 then Some (two64 - 1, 63)
  else let h := 64 - leading_zeros 64 node_index - 1 in Some (2 ^ (h + 1) - 1, h).

(* shared_advanced::right_lineage_length_and_own_height; fuel = candidate height, the decrement of
   height 0 is the u32 underflow *)
Fixpoint rll_loop (fuel : nat) (candidate ch node_index rac : Z) : option (Z * Z) :=
  if candidate =? node_index then Some (rac, ch)
  else match fuel with
       | O => None
       | S f =>
         let? lc := sub64 candidate (2 ^ ch) in
         if lc <? node_index then rll_loop f (candidate - 1) (ch - 1) node_index (rac + 1)
         else rll_loop f lc (ch - 1) node_index 0
       end.
Definition rll_and_height (node_index : Z) : option (Z * Z) :=
  let? (c, h) := leftmost_ancestor node_index in rll_loop (Z.to_nat h) c h node_index 0.

(* shared_advanced::right_lineage_length_from_node_index (recursive in the code; the bit width
   strictly decreases) *)
Fixpoint rll_node_fuel (fuel : nat) (node_index : Z) : option Z :=
  match fuel with
  | O => None
  | S f =>
    if node_index <=? 0 then None
    else let bit_width := Z.log2 node_index + 1 in
         let dist := 2 ^ bit_width - node_index in
         if bit_width <? dist then rll_node_fuel f (node_index - 2 ^ (bit_width - 1) + 1)
         else Some (dist - 1)
  end.
Definition rll_node (node_index : Z) : option Z := rll_node_fuel 65 node_index.

(* shared_advanced::leaf_index_to_node_index: 2 * leaf_index overflows from 2^63 on *)
Definition l2n (leaf_index : Z) : option Z :=
  if leaf_index <? two63 then Some (2 * leaf_index - count_ones leaf_index + 1) else None.

(* shared_advanced::num_leafs_to_num_nodes *)
Definition num_nodes (num_leafs : Z) : option Z :=
  if num_leafs <? two63 then Some (2 * num_leafs - count_ones num_leafs) else None.

Definition left_sibling (node_index height : Z) : option Z :=
  let? p := shl1 (height + 1) in let? a := sub64 node_index p in add64 a 1.
Definition right_sibling (node_index height : Z) : option Z :=
  let? p := shl1 (height + 1) in let? a := add64 node_index p in sub64 a 1.

(* one step towards the parent, as written inline in many loops:
   right child -> +1 ; left child -> + (1 << (height + 1)).  Returns (is_right_child, sibling, parent). *)
Definition up_info (node_index : Z) : option (bool * Z * Z) :=
  let? (rac, h) := rll_and_height node_index in
  if negb (rac =? 0) then
    let? s := left_sibling node_index h in let? p := add64 node_index 1 in Some (true, s, p)
  else
    let? s := right_sibling node_index h in let? q := shl1 (h + 1) in let? p := add64 node_index q in Some (false, s, p).

(* the same step without computing the sibling (update_from_leaf_mutation etc.): (is_right, parent) *)
Definition step_up (node_index : Z) : option (bool * Z) :=
  let? (rac, h) := rll_and_height node_index in
  if negb (rac =? 0) then let? p := add64 node_index 1 in Some (true, p)
  else let? q := shl1 (h + 1) in let? p := add64 node_index q in Some (false, p).

(* shared_advanced::parent *)
Definition parent (node_index : Z) : option Z :=
  let? (_, p) := step_up node_index in Some p.

(* shared_advanced::node_indices_added_by_append *)
Fixpoint added_loop (n : nat) (node_index : Z) : option (list Z) :=
  match n with
  | O => Some []
  | S n' => let? ni := add64 node_index 1 in let? r := added_loop n' ni in Some (ni :: r)
  end.
Definition node_indices_added_by_append (old_leaf_count : Z) : option (list Z) :=
  let? ni := l2n old_leaf_count in
  let? rc := rll_node ni in
  let? r := added_loop (Z.to_nat rc) ni in Some (ni :: r).

(* shared_advanced::get_authentication_path_node_indices; every iteration moves one level up, so
   65 iterations exhaust the u64 range *)
Fixpoint auth_path_loop (fuel : nat) (node_index peak node_count : Z) : option (option (list Z)) :=
  if (node_index <=? node_count) && negb (node_index =? peak) then
    match fuel with
    | O => None
    | S f =>
      let? (_, s, p) := up_info node_index in
      let? r := auth_path_loop f p peak node_count in
      Some (match r with Some l => Some (s :: l) | None => None end)
    end
  else Some (if node_index =? peak then Some [] else None).
Definition get_authentication_path_node_indices (start peak node_count : Z) : option (option (list Z)) :=
  auth_path_loop 66 start peak node_count.

(* shared_advanced::get_peak_heights_and_peak_node_indices, as a list of (height, node index).
   `candidate <= node_count` at the head of the inner loop would make the code spin forever; it is
   unreachable (a peak has no right sibling inside the MMR) and modelled as None. *)
Fixpoint peaks_loop (hn : nat) (height candidate node_count : Z) : option (list (Z * Z)) :=
  match hn with
  | O => Some []
  | S hn' =>
    if candidate <=? node_count then None
    else let? c := sub64 candidate (2 ^ height) in
         let h' := height - 1 in
         if c <=? node_count then
           let? rs := right_sibling c h' in
           let? r := peaks_loop hn' h' rs node_count in Some ((h', c) :: r)
         else peaks_loop hn' h' c node_count
  end.
Definition peak_heights_and_indices (leaf_count : Z) : option (list (Z * Z)) :=
  if leaf_count =? 0 then Some []
  else
    let? rightmost := l2n (leaf_count - 1) in
    let? node_count := num_nodes leaf_count in
    let? (top_peak, top_height) := leftmost_ancestor rightmost in
    let? (top_peak, top_height) :=
       (if node_count <? top_peak then
          let? tp := sub64 top_peak (2 ^ top_height) in
          let? th := sub64 top_height 1 in Some (tp, th)
        else Some (top_peak, top_height)) in
    let? cand := right_sibling top_peak top_height in
    let? r := peaks_loop (Z.to_nat top_height) top_height cand node_count in
    Some ((top_height, top_peak) :: r).
