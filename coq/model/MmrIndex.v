(* model/MmrIndex.v - hand-written executable models of the looping / recursive MMR index functions of
   util_types/mmr/shared_advanced.rs.  They call the REGENERATED straight-line functions of gen/MmrIndexGen.v.
   Definitions only, no proofs (C05/C11/C12 import this file).

   Conventions.  Every integer is a Z holding a u64 (heights, counts: u32).  A Rust panic - here: an unchecked
   operator that overflows, a shift amount out of range, a failing assert! - is the outcome None, and so is
   running out of fuel (the theorems of proofs/MmrIndexProofs.v show that neither happens on the documented
   domain).  So `f x = Some v` means: the call returns v in a checked build (overflow-checks on) AND in a release
   build (where nothing wrapped).  Functions whose Rust result is itself an Option return `option (option _)`:
   the outer level is panic / fuel, the inner one is Rust's Option.

   `mm_`-prefixed names are the models of the Rust functions of the same name; the `_loop` / `_rec` functions
   are their loop bodies. *)
From Coq Require Import ZArith Bool List.
From TF Require Import Word MmrIndexGen.
Import ListNotations.
Open Scope Z_scope.
Open Scope bool_scope.

(* checked call of a translated function: its value if its side conditions hold, a panic otherwise *)
Definition mm_chk {A : Type} (ok : bool) (v : A) : option A := if ok then Some v else None.

Local Notation "'guard' c ';;' k" := (if c then k else None) (at level 200, c at level 100, right associativity, only parsing).

(* checked variants of the translated straight-line functions *)
Definition mm_left_child (node_index height : Z) : option Z :=
  mm_chk (left_child_ok node_index height) (left_child node_index height).
Definition mm_right_child (node_index : Z) : option Z :=
  mm_chk (right_child_ok node_index) (right_child node_index).
Definition mm_leaf_index_to_mt_index_and_peak_index (leaf_index leaf_count : Z) : option (Z * Z) :=
  mm_chk (leaf_index_to_mt_index_and_peak_index_ok leaf_index leaf_count)
      (leaf_index_to_mt_index_and_peak_index leaf_index leaf_count).
Definition mm_right_lineage_length_from_leaf_index (leaf_index : Z) : option Z :=
  mm_chk (right_lineage_length_from_leaf_index_ok leaf_index) (right_lineage_length_from_leaf_index leaf_index).
Definition mm_leftmost_ancestor (node_index : Z) : option (Z * Z) :=
  mm_chk (leftmost_ancestor_ok node_index) (leftmost_ancestor node_index).
Definition mm_leaf_index_to_node_index (leaf_index : Z) : option Z :=
  mm_chk (leaf_index_to_node_index_ok leaf_index) (leaf_index_to_node_index leaf_index).
Definition mm_left_sibling (node_index height : Z) : option Z :=
  mm_chk (left_sibling_ok node_index height) (left_sibling node_index height).
Definition mm_right_sibling (node_index height : Z) : option Z :=
  mm_chk (right_sibling_ok node_index height) (right_sibling node_index height).
Definition mm_num_leafs_to_num_nodes (num_leafs : Z) : option Z :=
  mm_chk (num_leafs_to_num_nodes_ok num_leafs) (num_leafs_to_num_nodes num_leafs).

(* ------------------------------------------------------------------------------------------------
   pub fn right_lineage_length_and_own_height(node_index: u64) -> (u32, u32)
     let (mut candidate, mut candidate_height) = leftmost_ancestor(node_index);
     let mut right_ancestor_count = 0;
     loop { if candidate == node_index { return (right_ancestor_count, candidate_height); }
            let left_child = left_child(candidate, candidate_height);
            if left_child < node_index { candidate = right_child(candidate); right_ancestor_count += 1; }
            else { candidate = left_child; right_ancestor_count = 0; };
            candidate_height -= 1; }                                                             *)
Fixpoint rll_height_loop (fuel : nat) (node_index candidate candidate_height rac : Z) : option (Z * Z) :=
  match fuel with
  | O => None
  | S f =>
      if candidate =? node_index then Some (rac, candidate_height) else
      guard left_child_ok candidate candidate_height ;;
      let lc := left_child candidate candidate_height in
      if lc <? node_index then
        guard right_child_ok candidate && add_ok 32 rac 1 && sub_ok candidate_height 1 ;;
        rll_height_loop f node_index (right_child candidate) (wsub 32 candidate_height 1) (wadd 32 rac 1)
      else
        guard sub_ok candidate_height 1 ;;
        rll_height_loop f node_index lc (wsub 32 candidate_height 1) 0
  end.

Definition mm_right_lineage_length_and_own_height (node_index : Z) : option (Z * Z) :=
  guard leftmost_ancestor_ok node_index ;;
  let '(candidate, candidate_height) := leftmost_ancestor node_index in
  rll_height_loop 65 node_index candidate candidate_height 0.

(* ------------------------------------------------------------------------------------------------
   pub fn right_lineage_length_from_node_index(node_index: u64) -> u32   (recursive)
     let bit_width = u64::BITS - node_index.leading_zeros();
     let npo2 = 1u128 << bit_width;
     let dist = (npo2 - (node_index as u128)) as u64;
     if (bit_width as u64) < dist { rec(node_index - (1 << (bit_width - 1)) + 1) } else { (dist - 1) as u32 } *)
Fixpoint rll_node_rec (fuel : nat) (node_index : Z) : option Z :=
  match fuel with
  | O => None
  | S f =>
      guard sub_ok 64 (leading_zeros 64 node_index) ;;
      let bit_width := wsub 32 64 (leading_zeros 64 node_index) in
      guard shift_ok 128 bit_width ;;
      let npo2 := wshl 128 1 bit_width in
      guard sub_ok npo2 node_index ;;
      let dist := ucast 64 (wsub 128 npo2 node_index) in
      if bit_width <? dist then
        guard sub_ok bit_width 1 ;;
        guard shift_ok 64 (wsub 32 bit_width 1) ;;
        let p := wshl 64 1 (wsub 32 bit_width 1) in
        guard sub_ok node_index p ;;
        guard add_ok 64 (wsub 64 node_index p) 1 ;;
        rll_node_rec f (wadd 64 (wsub 64 node_index p) 1)
      else
        guard sub_ok dist 1 ;;
        Some (ucast 32 (wsub 64 dist 1))
  end.

Definition mm_right_lineage_length_from_node_index (node_index : Z) : option Z :=
  rll_node_rec 65 node_index.

(* ------------------------------------------------------------------------------------------------
   pub fn parent(node_index: u64) -> u64
     let (right_ancestor_count, height) = right_lineage_length_and_own_height(node_index);
     if right_ancestor_count != 0 { node_index + 1 } else { node_index + (1 << (height + 1)) }     *)
Definition mm_parent (node_index : Z) : option Z :=
  match mm_right_lineage_length_and_own_height node_index with
  | None => None
  | Some (rac, height) =>
      if negb (rac =? 0) then mm_chk (add_ok 64 node_index 1) (wadd 64 node_index 1)
      else
        guard add_ok 32 height 1 ;;
        guard shift_ok 64 (wadd 32 height 1) ;;
        mm_chk (add_ok 64 node_index (wshl 64 1 (wadd 32 height 1)))
            (wadd 64 node_index (wshl 64 1 (wadd 32 height 1)))
  end.

(* ------------------------------------------------------------------------------------------------
   pub fn node_indices_added_by_append(old_leaf_count: u64) -> Vec<u64>
     let mut node_index = leaf_index_to_node_index(old_leaf_count);
     let mut added = vec![node_index];
     let mut right_count = right_lineage_length_from_node_index(node_index);
     while right_count != 0 { node_index += 1; added.push(node_index); right_count -= 1; }          *)
Fixpoint added_loop (fuel : nat) (node_index right_count : Z) : option (list Z) :=
  match fuel with
  | O => None
  | S f =>
      if right_count =? 0 then Some [] else
      guard add_ok 64 node_index 1 ;;
      guard sub_ok right_count 1 ;;
      match added_loop f (wadd 64 node_index 1) (wsub 32 right_count 1) with
      | None => None
      | Some l => Some (wadd 64 node_index 1 :: l)
      end
  end.

Definition mm_node_indices_added_by_append (old_leaf_count : Z) : option (list Z) :=
  match mm_leaf_index_to_node_index old_leaf_count with
  | None => None
  | Some node_index =>
      match mm_right_lineage_length_from_node_index node_index with
      | None => None
      | Some right_count =>
          match added_loop 65 node_index right_count with
          | None => None
          | Some l => Some (node_index :: l)
          end
      end
  end.

(* ------------------------------------------------------------------------------------------------
   pub fn get_authentication_path_node_indices(start_node_index, peak_node_index, node_count) -> Option<Vec<u64>>
     let mut node_index = start_node_index;
     while node_index <= node_count && node_index != peak_node_index {
        let (right_ancestor_count, height) = right_lineage_length_and_own_height(node_index);
        if right_ancestor_count != 0 { sibling = left_sibling(node_index, height); node_index += 1; }
        else { sibling = right_sibling(node_index, height); node_index += 1 << (height + 1); }
        path.push(sibling); }
     if node_index == peak_node_index { Some(path) } else { None }                                 *)
Fixpoint auth_path_loop (fuel : nat) (node_index peak_node_index node_count : Z) : option (option (list Z)) :=
  match fuel with
  | O => None
  | S f =>
      if (node_index <=? node_count) && negb (node_index =? peak_node_index) then
        match mm_right_lineage_length_and_own_height node_index with
        | None => None
        | Some (rac, height) =>
            let step (sibling next : Z) :=
              match auth_path_loop f next peak_node_index node_count with
              | None => None
              | Some None => Some None
              | Some (Some l) => Some (Some (sibling :: l))
              end in
            if negb (rac =? 0) then
              guard left_sibling_ok node_index height ;;
              guard add_ok 64 node_index 1 ;;
              step (left_sibling node_index height) (wadd 64 node_index 1)
            else
              guard right_sibling_ok node_index height ;;
              guard add_ok 32 height 1 ;;
              guard shift_ok 64 (wadd 32 height 1) ;;
              guard add_ok 64 node_index (wshl 64 1 (wadd 32 height 1)) ;;
              step (right_sibling node_index height) (wadd 64 node_index (wshl 64 1 (wadd 32 height 1)))
        end
      else if node_index =? peak_node_index then Some (Some []) else Some None
  end.

Definition mm_get_authentication_path_node_indices (start_node_index peak_node_index node_count : Z)
  : option (option (list Z)) :=
  auth_path_loop 66 start_node_index peak_node_index node_count.

(* ------------------------------------------------------------------------------------------------
   pub fn get_peak_heights(leaf_count: u64) -> Vec<u32>
     let Some(nb) = leaf_count.checked_ilog2() else { return vec![]; };
     for bit_index in 0..=nb { let bit_mask = 1 << bit_index; if bit_mask & leaf_count != 0 { v.push(bit_index); } }
     v.reverse();
   The accumulator below is built by consing, which is the reversal.                              *)
Fixpoint peak_heights_loop (fuel : nat) (bit_index nb leaf_count : Z) (acc : list Z) : option (list Z) :=
  match fuel with
  | O => None
  | S f =>
      if nb <? bit_index then Some acc else
      guard shift_ok 64 bit_index ;;
      let bit_mask := wshl 64 1 bit_index in
      peak_heights_loop f (bit_index + 1) nb leaf_count
        (if negb (Z.land bit_mask leaf_count =? 0) then bit_index :: acc else acc)
  end.

Definition mm_get_peak_heights (leaf_count : Z) : option (list Z) :=
  if leaf_count =? 0 then Some [] else peak_heights_loop 66 0 (ilog2 leaf_count) leaf_count [].

(* ------------------------------------------------------------------------------------------------
   pub fn get_peak_heights_and_peak_node_indices(leaf_count: u64) -> (Vec<u32>, Vec<u64>)
   The two nested loops
     'outer: while height > 0 {
        while candidate > node_count && height > 0 {
           candidate = left_child(candidate, height); height -= 1;
           if candidate <= node_count { push(height, candidate); candidate = right_sibling(candidate, height);
                                        continue 'outer; } } }
   are one loop over the state (height, candidate): at the outer test with height > 0 either the inner
   body runs (candidate > node_count), after which control is back at a test that is equivalent to the outer
   one, or the inner loop does not run at all and the outer loop spins forever (modelled as out of fuel, None). *)
Fixpoint peaks_loop (fuel : nat) (node_count height candidate : Z) : option (list (Z * Z)) :=
  match fuel with
  | O => None
  | S f =>
      if height =? 0 then Some [] else
      if candidate >? node_count then
        guard left_child_ok candidate height ;;
        guard sub_ok height 1 ;;
        let c := left_child candidate height in
        let h := wsub 32 height 1 in
        if c <=? node_count then
          guard right_sibling_ok c h ;;
          match peaks_loop f node_count h (right_sibling c h) with
          | None => None
          | Some l => Some ((h, c) :: l)
          end
        else peaks_loop f node_count h c
      else None
  end.

Definition mm_get_peak_heights_and_peak_node_indices (leaf_count : Z) : option (list Z * list Z) :=
  if leaf_count =? 0 then Some ([], []) else
  guard sub_ok leaf_count 1 ;;
  guard leaf_index_to_node_index_ok (wsub 64 leaf_count 1) ;;
  let node_index_of_rightmost_leaf := leaf_index_to_node_index (wsub 64 leaf_count 1) in
  guard num_leafs_to_num_nodes_ok leaf_count ;;
  let node_count := num_leafs_to_num_nodes leaf_count in
  guard leftmost_ancestor_ok node_index_of_rightmost_leaf ;;
  let '(top_peak0, top_height0) := leftmost_ancestor node_index_of_rightmost_leaf in
  guard (if top_peak0 >? node_count then left_child_ok top_peak0 top_height0 && sub_ok top_height0 1 else true) ;;
  let top_peak := if top_peak0 >? node_count then left_child top_peak0 top_height0 else top_peak0 in
  let top_height := if top_peak0 >? node_count then wsub 32 top_height0 1 else top_height0 in
  guard right_sibling_ok top_peak top_height ;;
  match peaks_loop 65 node_count top_height (right_sibling top_peak top_height) with
  | None => None
  | Some l => Some (top_height :: map fst l, top_peak :: map snd l)
  end.

(* ------------------------------------------------------------------------------------------------
   pub fn node_index_to_leaf_index(node_index: u64) -> Option<u64>
     let (_right, own_height) = right_lineage_length_and_own_height(node_index);
     if own_height != 0 { return None; }
     let (mut node, mut node_height) = leftmost_ancestor(node_index);
     let mut leaf_index = 0;
     while node_height > 0 {
        let left_child = left_child(node, node_height);
        if node_index <= left_child { node = left_child; node_height -= 1; }
        else { node = right_child(node); node_height -= 1; leaf_index += 1 << node_height; } }
     Some(leaf_index)                                                                            *)
Fixpoint n2l_loop (fuel : nat) (node_index node node_height leaf_index : Z) : option Z :=
  match fuel with
  | O => None
  | S f =>
      if node_height =? 0 then Some leaf_index else
      guard left_child_ok node node_height ;;
      let lc := left_child node node_height in
      guard sub_ok node_height 1 ;;
      let h := wsub 32 node_height 1 in
      if node_index <=? lc then n2l_loop f node_index lc h leaf_index
      else
        guard right_child_ok node ;;
        guard shift_ok 64 h ;;
        guard add_ok 64 leaf_index (wshl 64 1 h) ;;
        n2l_loop f node_index (right_child node) h (wadd 64 leaf_index (wshl 64 1 h))
  end.

Definition mm_node_index_to_leaf_index (node_index : Z) : option (option Z) :=
  match mm_right_lineage_length_and_own_height node_index with
  | None => None
  | Some (_, own_height) =>
      if negb (own_height =? 0) then Some None else
      guard leftmost_ancestor_ok node_index ;;
      let '(node, node_height) := leftmost_ancestor node_index in
      match n2l_loop 65 node_index node node_height 0 with
      | None => None
      | Some l => Some (Some l)
      end
  end.
