(* MmrTerm.v - the free hash used by the correspondence check and by concrete witnesses:
   digests are terms, hash_pair is the constructor Node, equality is structural.
   Atom k  = the leaf digest Tip5::hash(&(k as u64));  Dflt = Digest::default();
   Varlen l = Tip5::hash_varlen of the field elements l (only Varlen [0;0;0;0] = Tip5::hash(&0u128) is used). *)
From Coq Require Import ZArith List Bool.
Import ListNotations.
Open Scope Z_scope.

Inductive term : Type :=
| Atom (k : Z)
| Dflt
| Varlen (l : list Z)
| Node (a b : term).

Fixpoint zlist_eqb (l m : list Z) : bool :=
  match l, m with
  | [], [] => true
  | x :: l', y :: m' => (x =? y) && zlist_eqb l' m'
  | _, _ => false
  end.

Fixpoint term_eqb (a b : term) : bool :=
  match a, b with
  | Atom x, Atom y => x =? y
  | Dflt, Dflt => true
  | Varlen l, Varlen m => zlist_eqb l m
  | Node a1 a2, Node b1 b2 => term_eqb a1 b1 && term_eqb a2 b2
  | _, _ => false
  end.

Definition term_hash0 : term := Varlen [0; 0; 0; 0].
