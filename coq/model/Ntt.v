(* model/Ntt.v - executable model of twenty-first/src/math/ntt.rs.  Definitions only.

   Generic the way the Rust code is: `ntt<FF: FiniteField + MulAssign<BFieldElement>>`.
     B    the twiddle field (always BFieldElement in the code)       sops : fops B
     F    the field of the vector entries (BFieldElement / XFieldElement)   ops : fops F
     act  `*elem *= twiddle`  (MulAssign<BFieldElement> for FF)       act : fact B F
   Instances:  ntt bfe_ops bfe_ops bb_act   and   ntt bfe_ops xfe_ops xb_act.

   A Rust panic (`expect`, `assert!`, `unwrap` on None, slice index out of bounds, `inverse()` of
   zero, `debug_assert!` in a checked build) is the outcome None.  `dbg` = debug assertions enabled
   (the `checked` profile of the harness).

   Vectors are lists.  The in-place loops are rendered as follows (each rendering is tied to the
   code by the correspondence check; see coq/proofs/NttProofs.v for what is proved about them):
   * the bit-reversal swap loop runs literally (k = 0..len, `if k < rk { swap }`) on a functional
     array (PositiveMap), O(n log n);
   * one butterfly stage (`while k < len { for j in 0..m {...} k += 2m }`) consumes the list block
     by block: x[k..k+m] and x[k+m..k+2m] are the two halves of the block, the running twiddle `w`
     is threaded through the inner loop exactly as written (`w *= w_m`);
   * the outer `for _ in 0..log2_slice_len` / `while m < n` loops are recursion on fuel.
   Integer widths: all index arithmetic of the code stays below 2^32 (u32) resp. 2^64 (usize) for
   every slice length that passes the length checks, so no wrap-around is modelled for it;
   `bitreverse` cannot wrap because r < 2^i after i iterations. *)
From Coq Require Import ZArith Bool List FMapPositive.
From TF Require Import Word FieldOps.
Import ListNotations.
Open Scope Z_scope.

(* ------------------------------------------------------------------ functional arrays *)
Definition arr (A : Type) : Type := PositiveMap.t A.
Definition akey (i : Z) : positive := Z.to_pos (i + 1).
Definition aget {A} (a : arr A) (i : Z) : option A := PositiveMap.find (akey i) a.
Definition aset {A} (a : arr A) (i : Z) (v : A) : arr A := PositiveMap.add (akey i) v a.
Fixpoint of_list_go {A} (x : list A) (i : Z) (a : arr A) : arr A :=
  match x with [] => a | v :: r => of_list_go r (i + 1) (aset a i v) end.
Definition of_list {A} (x : list A) : arr A := of_list_go x 0 (PositiveMap.empty A).
(* read back positions i, i+1, ..., i+fuel-1 ; None if one is missing (never for arrays built by of_list) *)
Fixpoint to_list_go {A} (fuel : nat) (i : Z) (a : arr A) : option (list A) :=
  match fuel with
  | O => Some []
  | S f => match aget a i, to_list_go f (i + 1) a with
           | Some v, Some r => Some (v :: r)
           | _, _ => None
           end
  end.
Definition to_list {A} (n : nat) (a : arr A) : option (list A) := to_list_go n 0 a.
(* slice::swap(i, j): panics when an index is out of bounds *)
Definition aswap {A} (a : arr A) (i j : Z) : option (arr A) :=
  match aget a i, aget a j with
  | Some vi, Some vj => Some (aset (aset a i vj) j vi)
  | _, _ => None
  end.

(* ------------------------------------------------------------------ bit reversal *)
(* fn bitreverse(mut n: u32, l: u32) / pub fn bitreverse_usize(mut n: usize, l: usize):
     let mut r = 0; for _ in 0..l { r = (r << 1) | (n & 1); n >>= 1; } r *)
Fixpoint bitrev_go (l : nat) (n r : Z) : Z :=
  match l with
  | O => r
  | S l' => bitrev_go l' (Z.shiftr n 1) (Z.lor (Z.shiftl r 1) (Z.land n 1))
  end.
Definition bitreverse (n : Z) (l : nat) : Z := bitrev_go l n 0.

(* for k in 0..len { let rk = bitreverse(k, l); if k < rk { x.swap(rk, k); } } *)
Fixpoint swap_loop {A} (fuel : nat) (k : Z) (l : nat) (a : arr A) : option (arr A) :=
  match fuel with
  | O => Some a
  | S f =>
      let rk := bitreverse k l in
      match (if k <? rk then aswap a rk k else Some a) with
      | None => None
      | Some a' => swap_loop f (k + 1) l a'
      end
  end.
Definition bitrev_permute {A} (l : nat) (x : list A) : option (list A) :=
  match swap_loop (length x) 0 l (of_list x) with
  | None => None
  | Some a => to_list (length x) a
  end.

(* let mut logn = 0; while (1 << logn) < len { logn += 1; }   (len < 2^63, so at most 63 rounds) *)
Fixpoint logn_go (fuel : nat) (logn : nat) (len : Z) : nat :=
  match fuel with
  | O => logn
  | S f => if 2 ^ Z.of_nat logn <? len then logn_go f (S logn) len else logn
  end.
Definition logn_of (len : Z) : nat := logn_go 64 0 len.

(* pub fn bitreverse_order<FF>(array: &mut [FF]) *)
Definition bitreverse_order {A} (x : list A) : option (list A) :=
  bitrev_permute (logn_of (Z.of_nat (length x))) x.

(* u32::is_power_of_two / usize::is_power_of_two *)
Definition is_pow2 (n : Z) : bool := (0 <? n) && (n =? 2 ^ Z.log2 n).

Section Ntt.
  Context {B F : Type}.
  Variables (sops : fops B) (ops : fops F) (act : fact B F).

  (* for j in 0..m { let u = x[k+j]; let mut v = x[k+j+m]; v *= w;
                     x[k+j] = u + v; x[k+j+m] = u - v; w *= w_m; }
     us = x[k..k+m], vs = x[k+m..k+2m]; returns the new contents of the two ranges *)
  Fixpoint bfly (w_m w : B) (us vs : list F) : list F * list F :=
    match us, vs with
    | u :: us', v :: vs' =>
        let v' := smul act v w in
        let '(a, b) := bfly w_m (fmul sops w w_m) us' vs' in
        (fadd ops u v' :: a, fsub ops u v' :: b)
    | _, _ => ([], [])
    end.

  (* let mut k = 0; while k < slice_len { let mut w = ONE; <inner loop>; k += 2*m; }
     on the not-yet-visited suffix x[k..].  A suffix shorter than 2m is an index-out-of-bounds panic
     (unreachable from the public functions: they establish len = 2^log). *)
  Fixpoint blocks (fuel m : nat) (w_m : B) (x : list F) : option (list F) :=
    match fuel with
    | O => match x with [] => Some [] | _ => None end
    | S f =>
        match x with
        | [] => Some []
        | _ =>
            let us := firstn m x in
            let r := skipn m x in
            let vs := firstn m r in
            let rest := skipn m r in
            if Nat.eqb (length vs) m then
              let '(a, b) := bfly w_m (fone sops) us vs in
              match blocks f m w_m rest with
              | None => None
              | Some y => Some (a ++ b ++ y)
              end
            else None
        end
    end.

  (* let mut m = 1; for _ in 0..log2 { let w_m = omega.mod_pow_u32(len / (2*m)); <while loop>; m *= 2; } *)
  Fixpoint stages (log m : nat) (len : Z) (omega : B) (x : list F) : option (list F) :=
    match log with
    | O => Some x
    | S l =>
        let w_m := fpow sops omega (len / (2 * Z.of_nat m)) in
        match blocks (length x) m w_m x with
        | None => None
        | Some y => stages l (2 * m) len omega y
        end
    end.

  (* fn ntt_unchecked<FF>(x: &mut [FF], omega: BFieldElement, log2_slice_len: u32) *)
  Definition ntt_unchecked (x : list F) (omega : B) (log2 : nat) : option (list F) :=
    match bitrev_permute log2 x with
    | None => None
    | Some y => stages log2 1 (Z.of_nat (length x)) omega y
    end.

  (* the common prologue of ntt and intt:
       let slice_len = u32::try_from(x.len()).expect(..);
       assert!(slice_len == 0 || slice_len.is_power_of_two());
       let log2_slice_len = slice_len.checked_ilog2().unwrap_or(0);
       let omega = BFieldElement::primitive_root_of_unity(u64::from(slice_len)).unwrap(); *)
  Definition prologue (n : Z) : option (B * nat) :=
    if n >? 4294967295 then None
    else if negb ((n =? 0) || is_pow2 n) then None
    else match froot sops n with
         | None => None
         | Some omega => Some (omega, Z.to_nat (Z.log2 n))
         end.

  (* pub fn ntt<FF>(x: &mut [FF]) *)
  Definition ntt (x : list F) : option (list F) :=
    match prologue (Z.of_nat (length x)) with
    | None => None
    | Some (omega, log2) => ntt_unchecked x omega log2
    end.

  (* pub fn intt<FF>(x: &mut [FF]):  ntt_unchecked(x, omega.inverse(), log2);
       let n_inv_or_zero = BFieldElement::from(x.len()).inverse_or_zero();
       for elem in x.iter_mut() { *elem *= n_inv_or_zero } *)
  Definition intt (x : list F) : option (list F) :=
    match prologue (Z.of_nat (length x)) with
    | None => None
    | Some (omega, log2) =>
        match finv sops omega with
        | None => None
        | Some omega_inv =>
            match ntt_unchecked x omega_inv log2 with
            | None => None
            | Some y =>
                let n_inv_or_zero := finv_or_zero sops (ffrom_u64 sops (Z.of_nat (length x))) in
                Some (map (fun e => smul act e n_inv_or_zero) y)
            end
        end
    end.

  (* ---------------------------------------------------------------- ntt_noswap *)
  (* let mut powers_of_omega_bitreversed = vec![ZERO; n]; let mut omegai = ONE;
     for i in 0..n/2 { powers[bitreverse_usize(i, logn - 1)] = omegai; omegai *= omega; } *)
  Fixpoint powers_loop (fuel : nat) (i : Z) (l1 : nat) (omega omegai : B) (a : arr B) : option (arr B) :=
    match fuel with
    | O => Some a
    | S f =>
        let j := bitreverse i l1 in
        match aget a j with
        | None => None                                   (* index out of bounds *)
        | Some _ => powers_loop f (i + 1) l1 omega (fmul sops omegai omega) (aset a j omegai)
        end
    end.
  Definition powers_bitreversed (n logn : nat) (omega : B) : option (list B) :=
    match powers_loop (Nat.div2 n) 0 (Nat.pred logn) omega (fone sops) (of_list (repeat (fzero sops) n)) with
    | None => None
    | Some a => to_list n a
    end.

  (* for j in s..(s+t) { let u = x[j]; let mut v = x[j+t]; v *= *zeta; x[j] = u + v; x[j+t] = u - v; } *)
  Fixpoint ns_bfly (zeta : B) (us vs : list F) : list F * list F :=
    match us, vs with
    | u :: us', v :: vs' =>
        let v' := smul act v zeta in
        let '(a, b) := ns_bfly zeta us' vs' in
        (fadd ops u v' :: a, fsub ops u v' :: b)
    | _, _ => ([], [])
    end.
  (* for (i, zeta) in powers.iter().enumerate().take(m) { let s = i*t*2; <inner loop> }
     on the suffix x[2*i*t..]; elements after the last block stay as they are *)
  Fixpoint ns_blocks (zetas : list B) (t : nat) (x : list F) : option (list F) :=
    match zetas with
    | [] => Some x
    | zeta :: zs =>
        let us := firstn t x in
        let r := skipn t x in
        let vs := firstn t r in
        let rest := skipn t r in
        if Nat.eqb (length us) t && Nat.eqb (length vs) t then
          let '(a, b) := ns_bfly zeta us vs in
          match ns_blocks zs t rest with
          | None => None
          | Some y => Some (a ++ b ++ y)
          end
        else None
    end.
  (* let mut m = 1; let mut t = n; while m < n { t >>= 1; <for loop>; m *= 2; }
     fuel: the loop runs ceil(log2 n) < fuel times; running out of fuel is reported as None *)
  Fixpoint ns_loop (fuel m t n : nat) (powers : list B) (x : list F) : option (list F) :=
    match fuel with
    | O => None
    | S f =>
        if Nat.ltb m n then
          let t' := Nat.div2 t in
          match ns_blocks (firstn m powers) t' x with
          | None => None
          | Some y => ns_loop f (2 * m) t' n powers y
          end
        else Some x
    end.

  (* pub fn ntt_noswap<FF>(x: &mut [FF]) *)
  Definition ntt_noswap (dbg : bool) (x : list F) : option (list F) :=
    let n := length x in
    let nz := Z.of_nat n in
    if dbg && negb (is_pow2 nz) then None                     (* debug_assert!(n.is_power_of_two()) *)
    else match froot sops nz with                              (* .unwrap() *)
         | None => None
         | Some omega =>
             let logn := logn_of nz in
             match powers_bitreversed n logn omega with
             | None => None
             | Some powers => ns_loop (S n) 1 n n powers x
             end
         end.

  (* pub fn intt_noswap<FF>(x: &mut [FF]): the butterfly loops of ntt_unchecked with omega^-1, no swap loop,
     no scaling *)
  Definition intt_noswap (dbg : bool) (x : list F) : option (list F) :=
    let nz := Z.of_nat (length x) in
    if dbg && negb (is_pow2 nz) then None
    else match froot sops nz with
         | None => None
         | Some omega =>
             match finv sops omega with
             | None => None
             | Some omega_inverse => stages (logn_of nz) 1 nz omega_inverse x
             end
         end.

  (* pub fn unscale(array: &mut [BFieldElement]): let ninv = BFieldElement::new(len as u64).inverse(); *)
  Definition unscale (x : list B) : option (list B) :=
    match finv sops (ffrom_u64 sops (Z.of_nat (length x))) with
    | None => None
    | Some ninv => Some (map (fun a => fmul sops a ninv) x)
    end.
End Ntt.

(* ------------------------------------------------------------------ the two instantiations the code uses *)
Definition ntt_b := ntt bfe_ops bfe_ops bb_act.
Definition intt_b := intt bfe_ops bfe_ops bb_act.
Definition ntt_noswap_b := ntt_noswap bfe_ops bfe_ops bb_act.
Definition intt_noswap_b := intt_noswap bfe_ops bfe_ops bb_act.
Definition unscale_b := unscale bfe_ops.
Definition ntt_x := ntt bfe_ops xfe_ops xb_act.
Definition intt_x := intt bfe_ops xfe_ops xb_act.
Definition ntt_noswap_x := ntt_noswap bfe_ops xfe_ops xb_act.
Definition intt_noswap_x := intt_noswap bfe_ops xfe_ops xb_act.
Definition root_b (n : Z) : option Z := froot bfe_ops n.
Definition root_x (n : Z) : option XField.xfe := froot xfe_ops n.
