(* model/PolyCore.v - executable model of the core of twenty-first/src/math/polynomial.rs
   (basic API, arithmetic operators, the whole multiplication family, BFieldCodec for Polynomial).
   DEFINITIONS ONLY; imported by the C07/C17 proofs and by the C08 (interpolation) and C09 (division) models.

   Conventions
   * A `Polynomial<FF>` is modelled by its RAW coefficient list exactly as stored in `self.coefficients`
     (`list F`, lowest degree first, possibly with stored leading zeros = zeros at the END of the list).
     Nothing is normalised unless the Rust code normalises.  `Polynomial::new`, `new_borrowed`,
     `into_owned`, `clone` are the identity on this representation (Cow owned/borrowed is not observable).
   * All functions are generic over `o : fops F` (lib/FieldOps.v).  Mixed-field operations
     (`FF: Mul<FF2>`) take the three operation records and the mixed product `mul12 : F1 -> F2 -> F3`.
   * A Rust panic (index out of bounds, unwrap on None, assert, division by zero) is the outcome `None`.
     Functions that cannot panic return plain values.  Loops that are not structurally recursive run on
     fuel = length of the work list; running out of fuel is also `None` (proved impossible in
     proofs/PolyCoreProofs.v: `batch_multiply_with_spec`, `par_batch_multiply_with_spec`).
   * `ntt` / `intt` (math/ntt.rs, property C06) are PARAMETERS of the NTT-based routines:
     `ntt1 : list F1 -> option (list F1)` etc.  Instantiate them with `Ntt.ntt_b`/`Ntt.intt_b` (base field) or
     `Ntt.ntt_x`/`Ntt.intt_x` (extension field), i.e. `Ntt.ntt bfe_ops ops act`.
   * The thread count read by `par_batch_multiply` (`available_parallelism()`) is the explicit parameter `nt`.
   * Sizes, degrees, indices and exponents are `Z`; `nat` appears only as list length / fuel.
   * Naming: every model function is `poly_<rust name>`; `_gen` = the mixed-field (three records) form;
     `_v0` = the code before the repair commit 0fd3b2b of four C17 defects, `_v1` = the current code; the
     unsuffixed alias (e.g. `poly_slow_square`) is what callers and the oracle use - see "VERSION SWITCHES" below. *)
From Coq Require Import ZArith Bool List.
From TF Require Import Word BFieldGen BField XField FieldOps PolyGen.
Import ListNotations.
Open Scope Z_scope.

(* ------------------------------------------------------------------ list helpers (Vec / slice API) *)
Definition zlen {A} (l : list A) : Z := Z.of_nat (length l).
(* slice[..k] / Iterator::take(k) / Vec::truncate(k); k <= 0 gives [] *)
Definition take {A} (k : Z) (l : list A) : list A := firstn (Z.to_nat k) l.
Definition drop {A} (k : Z) (l : list A) : list A := skipn (Z.to_nat k) l.
(* vec![x; k] *)
Definition zrepeat {A} (x : A) (k : Z) : list A := repeat x (Z.to_nat k).
(* slice[i] : None = index out of bounds *)
Definition idx {A} (l : list A) (i : Z) : option A := if i <? 0 then None else nth_error l (Z.to_nat i).
(* Vec::resize(n, x): truncates or pads *)
Definition resize {A} (l : list A) (n : Z) (x : A) : list A := take n l ++ zrepeat x (n - zlen l).
Fixpoint map2 {A B C} (f : A -> B -> C) (a : list A) (b : list B) : list C :=
  match a, b with x :: a', y :: b' => f x y :: map2 f a' b' | _, _ => [] end.
Fixpoint map_opt {A B} (f : A -> option B) (l : list A) : option (list B) :=
  match l with
  | [] => Some []
  | x :: r => match f x, map_opt f r with Some y, Some t => Some (y :: t) | _, _ => None end
  end.
(* slice::chunks(n) for n >= 1 (n = 0 panics in Rust; callers guard) *)
Fixpoint chunks_go {A} (fuel : nat) (n : nat) (l : list A) : list (list A) :=
  match fuel with
  | O => []
  | S f => match l with [] => [] | _ => firstn n l :: chunks_go f n (skipn n l) end
  end.
Definition chunks {A} (n : Z) (l : list A) : list (list A) := chunks_go (length l) (Z.to_nat n) l.

(* ------------------------------------------------------------------ basic API, one field *)
Section Basic.
  Context {F : Type} (o : fops F).
  Notation is0 := (fis_zero o).

  (* Polynomial::new / new_borrowed / into_owned / clone / From<&[FF]> : identity on the raw list *)
  Definition poly_new (l : list F) : list F := l.
  Definition poly_new_borrowed (l : list F) : list F := l.
  Definition poly_into_owned (l : list F) : list F := l.
  (* Zero::zero, One::one, from_constant, x_to_the *)
  Definition poly_zero : list F := [].
  Definition poly_one : list F := [fone o].
  Definition poly_from_constant (c : F) : list F := [c].
  Definition poly_x_to_the (n : Z) : list F := zrepeat (fzero o) n ++ [fone o].
  (* From<[E; N]>, From<Vec<E>> with E: Into<FF>; From<XFieldElement> for Polynomial<BFieldElement> *)
  Definition poly_from_vec {E} (into : E -> F) (l : list E) : list F := map into l.

  (* fn normalize(&mut self): pop while last is zero.  On the reversed list: drop leading zeros. *)
  Fixpoint drop_zeros (r : list F) : list F :=
    match r with [] => [] | x :: r' => if is0 x then drop_zeros r' else r end.
  Definition poly_normalize (l : list F) : list F := rev (drop_zeros (rev l)).
  (* fn degree(&self) -> isize : len-1, decremented while the coefficient there is zero; -1 for zero *)
  Definition poly_degree (l : list F) : Z := zlen (poly_normalize l) - 1.
  (* fn coefficients(&self) -> &[FF] : slice up to the last non-zero (rposition) ; into_coefficients: normalize *)
  Definition poly_coefficients (l : list F) : list F := poly_normalize l.
  Definition poly_into_coefficients (l : list F) : list F := poly_normalize l.
  (* fn leading_coefficient(&self) -> Option<FF> :  outer None = panic (never), inner None = `None` *)
  Definition poly_leading_coefficient (l : list F) : option (option F) :=
    let d := poly_degree l in
    if d =? -1 then Some None else match idx l d with Some c => Some (Some c) | None => None end.

  (* impl PartialEq: degrees equal, then zip over the RAW slices *)
  Fixpoint all_eq (a b : list F) : bool :=
    match a, b with x :: a', y :: b' => feqb o x y && all_eq a' b' | _, _ => true end.
  Definition poly_eqb (a b : list F) : bool :=
    if poly_degree a =? poly_degree b then all_eq a b else false.
  (* Zero::is_zero: *self == Self::zero() *)
  Definition poly_is_zero (l : list F) : bool := poly_eqb l poly_zero.
  (* One::is_one: self.degree() == 0 && self.coefficients[0].is_one() *)
  Definition poly_is_one (l : list F) : option bool :=
    if poly_degree l =? 0 then match idx l 0 with Some c => Some (feqb o c (fone o)) | None => None end
    else Some false.
  (* fn is_x: degree == 1 && c[0].is_zero() && c[1].is_one() *)
  Definition poly_is_x (l : list F) : option bool :=
    if poly_degree l =? 1 then
      match idx l 0 with
      | None => None
      | Some c0 => if is0 c0 then match idx l 1 with Some c1 => Some (feqb o c1 (fone o)) | None => None end
                   else Some false
      end
    else Some false.

  (* impl Hash: `self.coefficients.hash(state)` - the model is the list fed to the hasher (the slice impl writes
     its length and then every element, i.e. a function of exactly this list): see poly_hash_feed_v0 below *)

  (* impl Display, degree logic: one entry per printed term, highest power first:
     (coefficient, power, " + " printed before it, coefficient printed); zero polynomial = [] (prints "0") *)
  Fixpoint display_go (deg : Z) (r : list F) (pow : Z) : list (F * Z * bool * bool) :=
    match r with
    | [] => []
    | c :: r' =>
        (if is0 c then [] else [(c, pow, negb (pow =? deg), negb (feqb o c (fone o)) || (pow =? 0))])
          ++ display_go deg r' (pow - 1)
    end.
  Definition poly_display_terms (l : list F) : list (F * Z * bool * bool) :=
    display_go (poly_degree l) (rev (poly_normalize l)) (poly_degree l).

  (* fn formal_derivative: (0u64..).zip(coefficients).map(|(i, c)| FF::from(i) * c).skip(1) *)
  Fixpoint deriv_go (i : Z) (l : list F) : list F :=
    match l with [] => [] | c :: r => fmul o (ffrom_u64 o i) c :: deriv_go (i + 1) r end.
  Definition poly_formal_derivative (l : list F) : list F := tl (deriv_go 0 l).

  (* fn evaluate<Ind, Eval>: Horner over the raw coefficients, highest first: acc = acc * x + c *)
  Definition poly_evaluate_gen {I E} (ezero : E) (emul : E -> I -> E) (eadd : E -> F -> E)
             (l : list F) (x : I) : E :=
    fold_left (fun acc c => eadd (emul acc x) c) (rev l) ezero.
  (* fn evaluate_in_same_field *)
  Definition poly_evaluate (l : list F) (x : F) : F := poly_evaluate_gen (fzero o) (fmul o) (fadd o) l x.

  (* impl Add / Sub: zip_longest over the raw slices *)
  Fixpoint poly_add (a b : list F) : list F :=
    match a, b with
    | [], _ => b
    | _, [] => a
    | x :: a', y :: b' => fadd o x y :: poly_add a' b'
    end.
  Fixpoint poly_sub (a b : list F) : list F :=
    match a, b with
    | [], _ => map (fun r => fsub o (fzero o) r) b
    | _, [] => a
    | x :: a', y :: b' => fsub o x y :: poly_sub a' b'
    end.
  (* impl AddAssign: zip-add in place, then extend with the tail of rhs: the same list as Add *)
  Definition poly_add_assign (a b : list F) : list F := poly_add a b.

  (* fn scalar_mul<S, FF2>(&self, scalar) : c * scalar for every raw coefficient; scalar_mul_mut: same, same field *)
  Definition poly_scalar_mul_gen {S F2} (mul : F -> S -> F2) (l : list F) (s : S) : list F2 :=
    map (fun c => mul c s) l.
  Definition poly_scalar_mul (l : list F) (s : F) : list F := poly_scalar_mul_gen (fmul o) l s.
  Definition poly_scalar_mul_mut (l : list F) (s : F) : list F := poly_scalar_mul l s.
  (* impl Neg: scalar_mul_mut(-FF::ONE) *)
  Definition poly_neg (l : list F) : list F := poly_scalar_mul_mut l (fneg o (fone o)).

  (* fn scale<S, XF>(&self, alpha): coefficient_i * alpha^i with the running power updated as power * alpha *)
  Fixpoint scale_go {S XF} (smuls : S -> S -> S) (mul : F -> S -> XF) (alpha pw : S) (l : list F) : list XF :=
    match l with [] => [] | c :: r => mul c pw :: scale_go smuls mul alpha (smuls pw alpha) r end.
  Definition poly_scale_gen {S XF} (sone : S) (smuls : S -> S -> S) (mul : F -> S -> XF)
             (l : list F) (alpha : S) : list XF := scale_go smuls mul alpha sone l.
  Definition poly_scale (l : list F) (alpha : F) : list F := poly_scale_gen (fone o) (fmul o) (fmul o) l alpha.

  (* fn shift_coefficients(self, power): splice `power` zeros in front of the raw coefficients *)
  Definition poly_shift_coefficients (l : list F) (power : Z) : list F := zrepeat (fzero o) power ++ l.

  (* fn truncate(&self, k): coefficients.rev().take(k + 1).rev() on the RAW coefficients.
     `k + 1` overflows for k = usize::MAX (panic in a checked build, take(0) in release): None. *)
  Definition poly_truncate_raw (l : list F) (k : Z) : option (list F) :=
    if k + 1 <? 2 ^ 64 then Some (rev (take (k + 1) (rev l))) else None.
  (* fn mod_x_to_the_n(&self, n): coefficients[..min(n, len)] *)
  Definition poly_mod_x_to_the_n (l : list F) (n : Z) : list F := take (Z.min n (zlen l)) l.
  (* pub(crate) fn reverse: coefficients.take(degree + 1).rev() *)
  Definition poly_reverse (l : list F) : list F := rev (take (poly_degree l + 1) l).

  (* impl BFieldCodec for Polynomial.  `enc`/`dec` encode one coefficient as `w` base-field words
     (BFieldElement: w = 1; XFieldElement: w = 3, derived).  Words are Montgomery words as everywhere.
     encode: [len(rest)] ++ [number of coefficients] ++ coefficients, on the NORMALISED coefficients. *)
  Definition poly_encode (enc : F -> list Z) (l : list F) : list Z :=
    let cs := poly_coefficients l in
    let ce := bfe_new (zlen cs) :: flat_map enc cs in
    bfe_new (zlen ce) :: ce.
  (* decode: None = Err(_) (no panic is possible for w >= 1) *)
  Definition poly_decode (w : Z) (dec : list Z -> option F) (s : list Z) : option (list F) :=
    match s with
    | [] => None                                             (* EmptySequence *)
    | ind :: s1 =>
        if negb (zlen s =? bfe_value ind + 1) then None       (* SequenceTooShort / TooLong *)
        else match s1 with
             | [] => None                                    (* Vec::decode: EmptySequence *)
             | n :: body =>
                 let size := bfe_value n * w in
                 if 2 ^ 64 <=? size then None                 (* checked_mul *)
                 else if negb (zlen body =? size) then None
                 else match map_opt dec (chunks w body) with
                      | None => None
                      | Some cs =>
                          match rev cs with
                          | c :: _ => if is0 c then None else Some cs   (* TrailingZerosInPolynomialEncoding *)
                          | [] => Some cs
                          end
                      end
             end
    end.
End Basic.

(* ------------------------------------------------------------------ products of two polynomials, possibly over
   different fields:  Polynomial<FF> x Polynomial<FF2> -> Polynomial<<FF as Mul<FF2>>::Output> *)
Section Mul3.
  Context {F1 F2 F3 : Type} (o1 : fops F1) (o2 : fops F2) (o3 : fops F3) (mul12 : F1 -> F2 -> F3).
  (* ntt on the two operand fields, intt on the product field (math/ntt.rs); None = panic *)
  Variable ntt1 : list F1 -> option (list F1).
  Variable ntt2 : list F2 -> option (list F2).
  Variable intt3 : list F3 -> option (list F3).

  (* fn naive_multiply: product = vec![0; dl + dr + 1]; for i in 0..=dl { for j in 0..=dr { product[i+j] += a[i]*b[j] } }.
     Row i adds a[i]*b[j] to product[i + j]; product[i] is final after row i, so the rows are folded with the
     finished head peeled off (same additions, same order per cell: i ascending). *)
  Fixpoint add_row (x : F1) (b : list F2) (prod : list F3) : list F3 :=
    match b, prod with
    | y :: b', p :: prod' => fadd o3 p (mul12 x y) :: add_row x b' prod'
    | _, _ => prod
    end.
  Fixpoint mul_rows (a : list F1) (b : list F2) (prod : list F3) : list F3 :=
    match a with
    | [] => prod
    | x :: a' => match add_row x b prod with
                 | [] => []
                 | p0 :: rest => p0 :: mul_rows a' b rest
                 end
    end.
  Definition poly_naive_multiply_gen (a : list F1) (b : list F2) : list F3 :=
    let da := poly_degree o1 a in
    let db := poly_degree o2 b in
    if (da <? 0) || (db <? 0) then [] else
    (* coefficients[0..=degree] of either operand *)
    mul_rows (take (da + 1) a) (take (db + 1) b) (zrepeat (fzero o3) (da + db + 1)).

  (* fn fast_multiply: degree = deg a + deg b (zero if negative - note: ONE zero operand and a non-constant
     other operand pass this test); order = (degree+1).next_power_of_two(); both RAW coefficient vectors are
     resized (truncated or zero-padded) to `order`; ntt; pointwise product; intt; truncate(degree + 1). *)
  Definition poly_fast_multiply_gen (a : list F1) (b : list F2) : option (list F3) :=
    let d := poly_degree o1 a + poly_degree o2 b in
    if d <? 0 then Some [] else
    let order := next_pow2 (d + 1) in
    match ntt1 (resize a order (fzero o1)), ntt2 (resize b order (fzero o2)) with
    | Some la, Some lb =>
        match intt3 (map2 mul12 la lb) with
        | Some h => Some (take (d + 1) h)
        | None => None
        end
    | _, _ => None
    end.

  (* fn multiply: dispatch on degree sum *)
  Definition poly_multiply_gen (a : list F1) (b : list F2) : option (list F3) :=
    if poly_degree o1 a + poly_degree o2 b <? FAST_MULTIPLY_CUTOFF_THRESHOLD
    then Some (poly_naive_multiply_gen a b) else poly_fast_multiply_gen a b.
  (* which arm `multiply` takes (for evidence): true = naive *)
  Definition poly_multiply_arm (a : list F1) (b : list F2) : bool :=
    poly_degree o1 a + poly_degree o2 b <? FAST_MULTIPLY_CUTOFF_THRESHOLD.
End Mul3.

(* ------------------------------------------------------------------ the same-field multiplication family *)
Section Same.
  Context {F : Type} (o : fops F).
  Variable ntt : list F -> option (list F).
  Variable intt : list F -> option (list F).

  Definition poly_naive_multiply (a b : list F) : list F := poly_naive_multiply_gen o o o (fmul o) a b.
  Definition poly_fast_multiply (a b : list F) : option (list F) :=
    poly_fast_multiply_gen o o (fmul o) ntt ntt intt a b.
  Definition poly_multiply (a b : list F) : option (list F) :=
    poly_multiply_gen o o o (fmul o) ntt ntt intt a b.
  (* impl Mul<Polynomial<FF2>> for Polynomial<FF>: naive_multiply *)
  Definition poly_mul (a b : list F) : list F := poly_naive_multiply a b.

  (* slow_square / the schoolbook arm of square:
       squared = vec![0; 2*deg + 1];
       for i in 0..coefficients.len() { squared[2i] += ci*ci; for j in i+1..len { squared[i+j] += two*ci*cj } }
     NOTE the loops run over the RAW length.  `rest` is squared[2i..]; after row i the cells 2i and 2i+1 are final.
     None = index out of bounds. *)
  Fixpoint add_row_opt (x : F) (cs : list F) (rest : list F) : option (list F) :=
    match cs with
    | [] => Some rest
    | c :: cs' =>
        match rest with
        | [] => None                                        (* squared[i + j] out of bounds *)
        | r :: rest' =>
            match add_row_opt x cs' rest' with
            | None => None
            | Some t => Some (fadd o r (fmul o x c) :: t)
            end
        end
    end.
  Fixpoint sq_rows (cs : list F) (rest : list F) : option (list F) :=
    match cs with
    | [] => Some rest
    | ci :: cs' =>
        match rest with
        | [] => None                                        (* squared[2 * i] out of bounds *)
        | r0 :: rt =>
            let two := fadd o (fone o) (fone o) in
            match add_row_opt (fmul o two ci) cs' rt with
            | None => None
            | Some [] => match sq_rows cs' [] with None => None | Some t => Some (fadd o r0 (fmul o ci ci) :: t) end
            | Some (r1 :: rest') =>
                match sq_rows cs' rest' with None => None | Some t => Some (fadd o r0 (fmul o ci ci) :: r1 :: t) end
            end
        end
    end.
  Definition poly_slow_square_v0 (l : list F) : option (list F) :=
    let d := poly_degree o l in
    if d =? -1 then Some [] else sq_rows l (zrepeat (fzero o) (d * 2 + 1)).
  Definition poly_slow_square_v1 (l : list F) : option (list F) := poly_slow_square_v0 (poly_normalize o l).

  (* fn fast_square *)
  Definition poly_fast_square (l : list F) : option (list F) :=
    let d := poly_degree o l in
    if d =? -1 then Some [] else
    if d =? 0 then match idx l 0 with Some c => Some [fmul o c c] | None => None end else
    let rd := 2 * d in
    let order := next_pow2 (rd + 1) in
    match ntt (resize l order (fzero o)) with
    | None => None
    | Some c => match intt (map (fun e => fmul o e e) c) with
                | None => None
                | Some h => Some (take (rd + 1) h)
                end
    end.

  (* fn square: zero -> zero; 2*deg+1 > 64 -> fast_square; else the schoolbook loops (over the RAW length) *)
  Definition poly_square_v0 (l : list F) : option (list F) :=
    let d := poly_degree o l in
    if d =? -1 then Some [] else
    let len := d * 2 + 1 in
    if len >? SQUARE_FAST_CUTOFF_LEN then poly_fast_square l else sq_rows l (zrepeat (fzero o) len).
  Definition poly_square_v1 (l : list F) : option (list F) :=
    let d := poly_degree o l in
    if d =? -1 then Some [] else
    let len := d * 2 + 1 in
    if len >? SQUARE_FAST_CUTOFF_LEN then poly_fast_square l
    else sq_rows (poly_normalize o l) (zrepeat (fzero o) len).

  (* pow / fast_pow: square-and-multiply over the bits of the u32 exponent, most significant first *)
  Fixpoint pow_go (sq mulself : list F -> option (list F)) (k : nat) (e : Z) (acc : list F) : option (list F) :=
    match k with
    | O => Some acc
    | S k' =>
        match sq acc with
        | None => None
        | Some acc1 =>
            match (if Z.testbit e (Z.of_nat k') then mulself acc1 else Some acc1) with
            | None => None
            | Some acc2 => pow_go sq mulself k' e acc2
            end
        end
    end.
  Definition poly_pow_with (sq mulself : list F -> option (list F)) (l : list F) (e : Z) : option (list F) :=
    if e =? 0 then Some (poly_one o)                       (* checked_ilog2 is None: 0^0 = 1 *)
    else if poly_degree o l <? 0 then Some []
    else pow_go sq mulself (Z.to_nat (bitlen e)) e (poly_one o).

  (* fn batch_multiply: while products.len() != 1 { products = products.chunks(2).map(multiply or clone) }.
     The `_with` forms take the pairwise product as a parameter (used by the proofs: any total, correct `mult`). *)
  Fixpoint chunks2_mul (mult : list F -> list F -> option (list F)) (ps : list (list F)) : option (list (list F)) :=
    match ps with
    | a :: b :: r =>
        match mult a b, chunks2_mul mult r with Some p, Some t => Some (p :: t) | _, _ => None end
    | _ => Some ps
    end.
  Fixpoint batch_go (mult : list F -> list F -> option (list F)) (fuel : nat) (ps : list (list F)) : option (list F) :=
    match ps with
    | [p] => Some p
    | _ => match fuel with
           | O => None
           | S f => match chunks2_mul mult ps with None => None | Some ps' => batch_go mult f ps' end
           end
    end.
  Definition poly_batch_multiply_with (mult : list F -> list F -> option (list F)) (factors : list (list F))
    : option (list F) :=
    match factors with [] => Some (poly_one o) | _ => batch_go mult (length factors) factors end.
  Definition poly_batch_multiply (factors : list (list F)) : option (list F) :=
    poly_batch_multiply_with poly_multiply factors.

  (* fn par_batch_multiply with num_threads = nt:
     while len != 1 { chunk_size = max(2, len / nt); products = products.par_chunks(chunk_size).map(batch_multiply) }
     (par_chunks(..).map(f).collect() = map f (chunks ..): rayon's indexed collect preserves order - trusted) *)
  Fixpoint par_batch_go (batch : list (list F) -> option (list F)) (nt : Z) (fuel : nat) (ps : list (list F))
    : option (list F) :=
    match ps with
    | [p] => Some p
    | _ => match fuel with
           | O => None
           | S f =>
               if nt <=? 0 then None else                     (* division by zero; NonZeroUsize in the code *)
               let chunk_size := Z.max 2 (zlen ps / nt) in
               match map_opt batch (chunks chunk_size ps) with
               | None => None
               | Some ps' => par_batch_go batch nt f ps'
               end
           end
    end.
  Definition poly_par_batch_multiply_with (batch : list (list F) -> option (list F)) (nt : Z)
             (factors : list (list F)) : option (list F) :=
    match factors with [] => Some (poly_one o) | _ => par_batch_go batch nt (length factors) factors end.
  Definition poly_par_batch_multiply (nt : Z) (factors : list (list F)) : option (list F) :=
    poly_par_batch_multiply_with poly_batch_multiply nt factors.
End Same.

(* ------------------------------------------------------------------ VERSION SWITCHES
   Four C17 defects of the originally pinned tree (DESIGN section 5) were repaired in /repo by commit 0fd3b2b
   ("fix: polynomial squaring, truncation and hashing ignore stored leading zeros"): slow_square, the schoolbook arm
   of square, truncate and Hash now go through `self.coefficients()` (the normalised slice).
     `_v0` = the code BEFORE that commit (kept for the historical `*_v0_refuted` lemmas),
     `_v1` = the code of the current tree.
   The unsuffixed aliases are what `pow`, the oracle and the importing models (C08/C09) use. *)
Definition poly_truncate_v0 {F} (o : fops F) (l : list F) (k : Z) : option (list F) := poly_truncate_raw l k.
Definition poly_truncate_v1 {F} (o : fops F) (l : list F) (k : Z) : option (list F) :=
  poly_truncate_raw (poly_normalize o l) k.
(* impl Hash: the list fed to the hasher (v0: `self.coefficients.hash(state)`, v1: `self.coefficients().hash(state)`) *)
Definition poly_hash_feed_v0 {F} (o : fops F) (l : list F) : list F := l.
Definition poly_hash_feed_v1 {F} (o : fops F) (l : list F) : list F := poly_normalize o l.
Definition poly_slow_square {F} (o : fops F) := poly_slow_square_v1 o.
Definition poly_square {F} (o : fops F) := poly_square_v1 o.
Definition poly_truncate {F} (o : fops F) := poly_truncate_v1 o.
Definition poly_hash_feed {F} (o : fops F) := poly_hash_feed_v1 o.

Section Pow.
  Context {F : Type} (o : fops F).
  Variable ntt : list F -> option (list F).
  Variable intt : list F -> option (list F).
  (* fn pow: acc = acc.slow_square(); if bit { acc = acc * self.clone() } *)
  Definition poly_pow (l : list F) (e : Z) : option (list F) :=
    poly_pow_with o (poly_slow_square o) (fun acc => Some (poly_mul o acc l)) l e.
  (* fn fast_pow: acc = acc.square(); if bit { acc = self.multiply(&acc) } *)
  Definition poly_fast_pow (l : list F) (e : Z) : option (list F) :=
    poly_pow_with o (poly_square o ntt intt) (fun acc => poly_multiply o ntt intt l acc) l e.
End Pow.

(* ------------------------------------------------------------------ concrete coefficient codecs *)
Definition bfe_enc (x : Z) : list Z := [x].
Definition bfe_dec (s : list Z) : option Z := match s with [x] => Some x | _ => None end.
Definition xfe_enc (x : xfe) : list Z := let '(a, b, c) := x in [a; b; c].
Definition xfe_dec (s : list Z) : option xfe := match s with [a; b; c] => Some (a, b, c) | _ => None end.
