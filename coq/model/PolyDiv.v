(* model/PolyDiv.v - executable model of the division / reduction / gcd / power-series-inversion part of
   twenty-first/src/math/polynomial.rs (property C09) and of `XFieldElement::inverse` (x_field_element.rs), which
   runs `Polynomial::xgcd` against x^3 - x + 1.  DEFINITIONS ONLY; it builds on model/PolyCore.v and model/Ntt.v.

   Conventions (the same as model/PolyCore.v)
   * a `Polynomial<FF>` is its RAW coefficient list as stored (lowest degree first, stored leading zeros possible);
     nothing is normalised unless the Rust code normalises;
   * generic over `o : fops F`; `ntt` / `intt` (math/ntt.rs, property C06) are PARAMETERS of the NTT-based routines;
   * a Rust panic (`unwrap`/`expect` on None, `assert!`, slice index out of bounds, division by zero, `inverse()` of
     zero, "Cannot do batch inversion on zero", usize underflow in a checked build) is the outcome `None`;
   * `for` loops with a computed trip count are recursion on that count; the one `while` loop (`xgcd`) runs on
     explicit fuel and has the three-valued outcome `pdiv_out` (`PdFuel` = out of fuel, distinct from `PdPanic`);
     `pdiv_xgcd` supplies fuel = 1 + (stored length of y), proved sufficient in proofs/PolyDivProofs.v;
   * `dbg` = debug assertions enabled (the `checked` profile of the harness), `chk` = overflow checks enabled;
   * sizes, degrees, indices are `Z`; `nat` only as list length / trip count;
   * every name is prefixed `pdiv_` (the interpolation model of C08 lives in the same project).

   VERSION SWITCH (like model/PolyCore.v): two defects of `clean_divide` found by this check were repaired in /repo:
     `pdiv_clean_divide_v0` = the originally pinned code,
     `pdiv_clean_divide_v1` = after commit 87d4e9b (fall back to long division when a divisor evaluation is zero),
     `pdiv_clean_divide_v2` = after commit 8b5e451 as well (the empty dividend passes the root-0 workaround) = the current tree;
   the unsuffixed alias `pdiv_clean_divide` is what the oracle runs and what the positive theorems are about - see the end
   of the file. *)
From Coq Require Import ZArith Bool List.
From TF Require Import Word BFieldGen BField XField FieldOps PolyGen PolyCore Ntt.
Import ListNotations.
Open Scope Z_scope.

(* outcome of a fuelled loop *)
Inductive pdiv_out (A : Type) : Type := PdOk (a : A) | PdPanic | PdFuel.
Arguments PdOk {A}. Arguments PdPanic {A}. Arguments PdFuel {A}.

(* Iterator::step_by(step) for step >= 1 (step = 0 panics in Rust; callers guard) *)
Fixpoint pdiv_step_by_go {A} (fuel step : nat) (l : list A) : list A :=
  match fuel with
  | O => []
  | S f => match l with [] => [] | x :: _ => x :: pdiv_step_by_go f step (skipn step l) end
  end.
Definition pdiv_step_by {A} (step : Z) (l : list A) : list A := pdiv_step_by_go (length l) (Z.to_nat step) l.

Section Div.
  Context {F : Type} (o : fops F).
  Variable ntt : list F -> option (list F).
  Variable intt : list F -> option (list F).
  Notation is0 := (fis_zero o).
  Notation zero := (fzero o).

  (* ---------------------------------------------------------------- naive_divide / divide / Div / Rem
     fn naive_divide(&self, divisor):
       let divisor_lc_inv = divisor.leading_coefficient().expect("divisor should be non-zero").inverse();
       let Ok(quotient_degree) = usize::try_from(self.degree() - divisor.degree()) else { return (zero, self.clone()) };
       let mut remainder = self.clone(); remainder.normalize();
       let normal_rev_divisor = divisor.coefficients.iter().rev().skip_while(is_zero);
       for _ in 0..=quotient_degree {
         let remainder_lc = remainder_coefficients.pop().unwrap();
         let quotient_coeff = remainder_lc * divisor_lc_inv;  rev_quotient.push(quotient_coeff);
         if quotient_coeff.is_zero() { continue; }
         let remainder_degree = remainder_coefficients.len().saturating_sub(1);
         for (i, &divisor_coeff) in normal_rev_divisor.clone().skip(1).enumerate() {
           remainder_coefficients[remainder_degree - i] -= quotient_coeff * divisor_coeff; } }
       rev_quotient.reverse();
     The remainder vector is kept REVERSED (highest coefficient first): `pop` takes the head, and
     `remainder_coefficients[remainder_degree - i]` is position i of the rest.  `ds` = the divisor's normalised
     coefficients, highest first, without the leading one.  The quotient is accumulated lowest-first. *)
  Fixpoint pdiv_sub_row (qc : F) (ds r : list F) : option (list F) :=
    match ds with
    | [] => Some r
    | d :: ds' =>
        match r with
        | [] => None                                  (* remainder_coefficients[remainder_degree - i] out of bounds *)
        | x :: r' =>
            match pdiv_sub_row qc ds' r' with
            | None => None
            | Some t => Some (fsub o x (fmul o qc d) :: t)
            end
        end
    end.
  Fixpoint pdiv_div_loop (n : nat) (dinv : F) (ds r q : list F) : option (list F * list F) :=
    match n with
    | O => Some (q, r)
    | S n' =>
        match r with
        | [] => None                                  (* pop().unwrap() *)
        | lc :: r' =>
            let qc := fmul o lc dinv in
            if is0 qc then pdiv_div_loop n' dinv ds r' (qc :: q)
            else match pdiv_sub_row qc ds r' with
                 | None => None
                 | Some r'' => pdiv_div_loop n' dinv ds r'' (qc :: q)
                 end
        end
    end.
  Definition pdiv_naive_divide (a d : list F) : option (list F * list F) :=
    match poly_leading_coefficient o d with
    | None => None
    | Some None => None                               (* expect("divisor should be non-zero") *)
    | Some (Some lc) =>
        match finv o lc with
        | None => None
        | Some dinv =>
            let qd := poly_degree o a - poly_degree o d in
            if qd <? 0 then Some ([], a)              (* (Polynomial::zero(), self.clone()) : the RAW dividend *)
            else match pdiv_div_loop (Z.to_nat (qd + 1)) dinv (tl (rev (poly_normalize o d)))
                                     (rev (poly_normalize o a)) [] with
                 | None => None
                 | Some (q, r) => Some (q, rev r)
                 end
        end
    end.
  (* fn divide: "for no practical parameter set is [NTT-based division] faster than long division" *)
  Definition pdiv_divide (a d : list F) : option (list F * list F) := pdiv_naive_divide a d.
  (* impl Div / impl Rem *)
  Definition pdiv_div (a d : list F) : option (list F) :=
    match pdiv_naive_divide a d with Some (q, _) => Some q | None => None end.
  Definition pdiv_rem (a d : list F) : option (list F) :=
    match pdiv_naive_divide a d with Some (_, r) => Some r | None => None end.
  (* fn reduce_long_division *)
  Definition pdiv_reduce_long_division (a m : list F) : option (list F) :=
    match pdiv_divide a m with Some (_, r) => Some r | None => None end.

  (* ---------------------------------------------------------------- xgcd
       let (mut a_factor, mut a1) = (one, zero); let (mut b_factor, mut b1) = (zero, one);
       while !y.is_zero() {
         let (quotient, remainder) = x.naive_divide(&y);
         let c = a_factor - quotient.clone() * a1.clone();  let d = b_factor - quotient * b1.clone();
         x = y; y = remainder; a_factor = a1; a1 = c; b_factor = b1; b1 = d; }
       let lc = x.leading_coefficient().unwrap_or(FF::ONE);
       [x, a_factor, b_factor].map(|poly| poly.scalar_mul(lc.inverse())) *)
  Fixpoint pdiv_xgcd_loop (fuel : nat) (x y af a1 bf b1 : list F) {struct fuel}
    : pdiv_out (list F * list F * list F) :=
    if poly_is_zero o y then PdOk (x, af, bf) else
    match fuel with
    | O => PdFuel
    | S f =>
        match pdiv_naive_divide x y with
        | None => PdPanic
        | Some (q, r) =>
            let c := poly_sub o af (poly_mul o q a1) in
            let d := poly_sub o bf (poly_mul o q b1) in
            pdiv_xgcd_loop f y r a1 c b1 d
        end
    end.
  Definition pdiv_xgcd_fuel (fuel : nat) (x y : list F) : pdiv_out (list F * list F * list F) :=
    match pdiv_xgcd_loop fuel x y (poly_one o) [] [] (poly_one o) with
    | PdOk (g, a, b) =>
        match poly_leading_coefficient o g with
        | None => PdPanic
        | Some olc =>
            let lc := match olc with Some c => c | None => fone o end in
            match finv o lc with
            | None => PdPanic
            | Some li => PdOk (poly_scalar_mul o g li, poly_scalar_mul o a li, poly_scalar_mul o b li)
            end
        end
    | PdPanic => PdPanic
    | PdFuel => PdFuel
    end.
  (* the degree of y drops in every round: at most `length y` rounds *)
  Definition pdiv_xgcd (x y : list F) : pdiv_out (list F * list F * list F) := pdiv_xgcd_fuel (S (length y)) x y.

  (* ---------------------------------------------------------------- formal_power_series_inverse_minimal
       let lc_inv = self.coefficients.first().unwrap().inverse();  let mut g = vec![lc_inv];
       for _ in 1..(precision + 1) {
         let inner_product = self.coefficients.iter().skip(1).take(g.len()).zip(g.iter().rev())
                                 .map(|(l, r)| *l * *r).fold(FF::ZERO, |l, r| l + r);
         g.push(-inner_product * lc_inv); }
     `g` is kept reversed (newest first) so that `g.iter().rev()` is the list itself; `zip` stops at the shorter
     side, so `take(g.len())` is subsumed by map2. *)
  Definition pdiv_inner_product (a b : list F) : F := fold_left (fadd o) (map2 (fmul o) a b) zero.
  Fixpoint pdiv_fpsi_min_loop (n : nat) (cs1 : list F) (lc_inv : F) (grev : list F) : list F :=
    match n with
    | O => grev
    | S n' =>
        let ip := pdiv_inner_product cs1 grev in
        pdiv_fpsi_min_loop n' cs1 lc_inv (fmul o (fneg o ip) lc_inv :: grev)
    end.
  Definition pdiv_fpsi_minimal (l : list F) (precision : Z) : option (list F) :=
    match l with
    | [] => None                                                  (* first().unwrap() *)
    | c0 :: cs1 =>
        match finv o c0 with
        | None => None                                            (* inverse of zero *)
        | Some lc_inv => Some (rev (pdiv_fpsi_min_loop (Z.to_nat precision) cs1 lc_inv [lc_inv]))
        end
    end.

  (* ---------------------------------------------------------------- structured multiples
     fn structured_multiple_of_degree(&self, n):
       let Ok(degree) = usize::try_from(self.degree()) else { panic!() };  assert!(degree <= n);
       if degree == 0 { return new([vec![0; n], vec![self.coefficients[0].inverse()]].concat()); }
       let reverse = self.reverse();
       let inverse_reverse = reverse.formal_power_series_inverse_minimal(n - degree);
       let product = reverse.multiply(&inverse_reverse).reverse();
       let product_degree = product.degree() as usize;  product.shift_coefficients(n - product_degree)
     `product.degree() as usize` for a zero product is usize::MAX and `n - usize::MAX` overflows (panic in a checked
     build, shift by n + 1 in release); the product of `reverse` with its power-series inverse has constant term 1, so
     this is unreachable when `multiply` is the ring product; the model returns None for it. *)
  Definition pdiv_structured_multiple_of_degree (l : list F) (n : Z) : option (list F) :=
    let degree := poly_degree o l in
    if degree <? 0 then None
    else if n <? degree then None
    else if degree =? 0 then
      match idx l 0 with
      | None => None
      | Some c0 => match finv o c0 with
                   | None => None
                   | Some ci => Some (zrepeat zero n ++ [ci])
                   end
      end
    else
      let reverse := poly_reverse o l in
      match pdiv_fpsi_minimal reverse (n - degree) with
      | None => None
      | Some inverse_reverse =>
          match poly_multiply o ntt intt reverse inverse_reverse with
          | None => None
          | Some product_reverse =>
              let product := poly_reverse o product_reverse in
              let product_degree := poly_degree o product in
              if (product_degree <? 0) || (n <? product_degree) then None
              else Some (poly_shift_coefficients o product (n - product_degree))
          end
      end.
  (* fn structured_multiple: n = usize::try_from(self.degree()).expect(..); structured_multiple_of_degree(3 * n + 1) *)
  Definition pdiv_structured_multiple (l : list F) : option (list F) :=
    let n := poly_degree o l in
    if n <? 0 then None else pdiv_structured_multiple_of_degree l (3 * n + 1).

  (* fn shift_factor_ntt_with_tail_length(&self) -> (Vec<FF>, usize):
       let n = usize::max(FAST_REDUCE_CUTOFF_THRESHOLD, self.degree() as usize * 2).next_power_of_two();
       let ntt_friendly_multiple = self.structured_multiple_of_degree(n);
       let m = 1 + ntt_friendly_multiple.coefficients.iter().enumerate().rev().skip(1)
                     .find_map(|(i, c)| if !c.is_zero() { Some(i) } else { None }).unwrap_or(0);
       let mut shift_factor_ntt = ntt_friendly_multiple.coefficients[..n].to_vec();  ntt(&mut shift_factor_ntt);
     For the zero polynomial `self.degree() as usize * 2` overflows and structured_multiple_of_degree panics in
     either profile: None.  The find_map returns the index of the last non-zero among all but the last RAW
     coefficient: the degree of `removelast`, 0 when there is none. *)
  Definition pdiv_shift_factor_ntt_with_tail_length (l : list F) : option (list F * Z) :=
    let d := poly_degree o l in
    if d <? 0 then None else
    let n := next_pow2 (Z.max FAST_REDUCE_CUTOFF_THRESHOLD (d * 2)) in
    match pdiv_structured_multiple_of_degree l n with
    | None => None
    | Some nfm =>
        let m := 1 + Z.max 0 (poly_degree o (removelast nfm)) in
        if zlen nfm <? n then None                                (* coefficients[..n] *)
        else match ntt (take n nfm) with
             | None => None
             | Some s => Some (s, m)
             end
    end.

  (* fn reduce_by_ntt_friendly_modulus(&self, shift_ntt: &[FF], tail_length: usize):
       let domain_length = shift_ntt.len();  assert!(domain_length.is_power_of_two());
       let chunk_size = domain_length - tail_length;
       if self.coefficients.len() < chunk_size + tail_length { return self.clone(); }
       let num_reducible_chunks = (self.coefficients.len() - (tail_length + chunk_size)).div_ceil(chunk_size);
       let range_start = num_reducible_chunks * chunk_size;
       let mut working_window = if range_start >= len { vec![0; chunk_size + tail_length] } else { coefficients[range_start..].to_vec() };
       working_window.resize(chunk_size + tail_length, ZERO);
       for chunk_index in (0..num_reducible_chunks).rev() {
         let mut product = [working_window[tail_length..].to_vec(), vec![ZERO; tail_length]].concat();
         ntt(&mut product); product.iter_mut().zip(shift_ntt.iter()).for_each(|(l, r)| *l *= *r); intt(&mut product);
         working_window = [vec![ZERO; chunk_size], working_window[0..tail_length].to_vec()].concat();
         for (i, wwi) in working_window.iter_mut().enumerate().take(chunk_size) { *wwi = self.coefficients[chunk_index * chunk_size + i]; }
         for (i, wwi) in working_window.iter_mut().enumerate().take(chunk_size + tail_length) { *wwi -= product[i]; } }
     tail_length > domain_length: `domain_length - tail_length` panics with overflow checks; without them it wraps,
     `chunk_size + tail_length` wraps back to domain_length, and the function returns `self` when
     len <= domain_length and otherwise panics on `working_window[tail_length..]`.  (Callers inside the crate pass
     tail_length <= domain_length / 2.) *)
  Fixpoint pdiv_ntt_friendly_loop (k : nat) (a shift_ntt : list F) (cs tail : Z) (ww : list F) : option (list F) :=
    match k with
    | O => Some ww
    | S k' =>                                                     (* chunk_index = k' *)
        if zlen ww <? tail then None else
        match ntt (drop tail ww ++ zrepeat zero tail) with
        | None => None
        | Some p1 =>
            match intt (map2 (fmul o) p1 shift_ntt) with
            | None => None
            | Some product =>
                let chunk := take cs (drop (Z.of_nat k' * cs) a) in
                if negb (zlen chunk =? cs) then None               (* self.coefficients[chunk_index * chunk_size + i] *)
                else
                  let ww1 := chunk ++ take tail ww in
                  if zlen product <? zlen ww1 then None            (* product[i] *)
                  else pdiv_ntt_friendly_loop k' a shift_ntt cs tail (map2 (fsub o) ww1 product)
            end
        end
    end.
  Definition pdiv_reduce_by_ntt_friendly_modulus (chk : bool) (a shift_ntt : list F) (tail : Z) : option (list F) :=
    let dl := zlen shift_ntt in
    if negb (is_pow2 dl) then None
    else if dl <? tail then (if chk then None else if zlen a <=? dl then Some a else None)
    else
      let cs := dl - tail in
      if zlen a <? dl then Some a
      else if cs =? 0 then None                                    (* div_ceil(0) *)
      else
        let num := (zlen a - dl + cs - 1) / cs in
        let range_start := num * cs in
        let ww0 := resize (if zlen a <=? range_start then zrepeat zero dl else drop range_start a) dl zero in
        pdiv_ntt_friendly_loop (Z.to_nat num) a shift_ntt cs tail ww0.

  (* fn reduce_by_structured_modulus(&self, multiple: &Self):
       assert_ne!(0, multiple.degree());  let multiple_degree = usize::try_from(multiple.degree()).expect(..);
       assert_eq!(Some(FF::ONE), multiple.leading_coefficient());
       let shift_polynomial = multiple.clone() - x_to_the(multiple_degree);
       assert!(shift_polynomial.degree() < multiple.degree());
       let tail_length = usize::try_from(shift_polynomial.degree()).map(|d| d + 1).unwrap_or(0);
       let window_length = multiple_degree;  let chunk_size = window_length - tail_length;
       if self.coefficients.len() < chunk_size + tail_length { return self.clone(); }
       let num_reducible_chunks = (len - (tail_length + chunk_size)).div_ceil(chunk_size);
       let window_stop = (tail_length + chunk_size) + num_reducible_chunks * chunk_size;
       let mut window_start = window_stop - window_length;
       let mut working_window = self.coefficients[window_start..].to_vec();  working_window.resize(chunk_size + tail_length, ZERO);
       for _ in (0..num_reducible_chunks).rev() {
         let overflow = Polynomial::new(working_window[tail_length..].to_vec());
         let product = overflow.multiply(&shift_polynomial);
         window_start -= chunk_size;
         working_window = [self.coefficients[window_start..window_start + chunk_size].to_vec(), working_window[0..tail_length].to_vec()].concat();
         for (i, wwi) in working_window.iter_mut().enumerate().take(chunk_size + tail_length) {
           *wwi -= *product.coefficients.get(i).unwrap_or(&FF::ZERO); } } *)
  Fixpoint pdiv_structured_loop (k : nat) (a shift : list F) (cs tail wstart : Z) (ww : list F) : option (list F) :=
    match k with
    | O => Some ww
    | S k' =>
        if zlen ww <? tail then None else
        match poly_multiply o ntt intt (drop tail ww) shift with
        | None => None
        | Some product =>
            let ws := wstart - cs in
            if ws <? 0 then None else
            let chunk := take cs (drop ws a) in
            if negb (zlen chunk =? cs) then None                   (* coefficients[window_start..window_start + chunk_size] *)
            else
              let ww1 := chunk ++ take tail ww in
              pdiv_structured_loop k' a shift cs tail ws (map2 (fsub o) ww1 (resize product (zlen ww1) zero))
        end
    end.
  Definition pdiv_reduce_by_structured_modulus (a mult : list F) : option (list F) :=
    let md := poly_degree o mult in
    if md <=? 0 then None
    else match poly_leading_coefficient o mult with
         | Some (Some c) =>
             if negb (feqb o c (fone o)) then None                 (* "multiple must be monic" *)
             else
               let shift := poly_sub o mult (poly_x_to_the o md) in
               let sd := poly_degree o shift in
               if negb (sd <? md) then None
               else
                 let tail := if sd <? 0 then 0 else sd + 1 in
                 let wl := md in
                 let cs := wl - tail in
                 if zlen a <? wl then Some a
                 else if cs =? 0 then None                         (* div_ceil(0) *)
                 else
                   let num := (zlen a - wl + cs - 1) / cs in
                   let wstart := num * cs in
                   if zlen a <? wstart then None
                   else pdiv_structured_loop (Z.to_nat num) a shift cs tail wstart (resize (drop wstart a) wl zero)
         | _ => None
         end.

  (* ---------------------------------------------------------------- fast_reduce / reduce
     fn fast_reduce(&self, modulus):
       if modulus.degree() == 0 { return zero }  if self.degree() < modulus.degree() { return self.clone() }
       let (shift_factor_ntt, tail_size) = modulus.shift_factor_ntt_with_tail_length();
       let mut intermediate_remainder = self.reduce_by_ntt_friendly_modulus(&shift_factor_ntt, tail_size);
       if intermediate_remainder.degree() > 4 * modulus.degree() {
         let structured_multiple = modulus.structured_multiple();
         intermediate_remainder = intermediate_remainder.reduce_by_structured_modulus(&structured_multiple); }
       intermediate_remainder.reduce_long_division(modulus)
     (`chk := true` below: the tail length computed by shift_factor_ntt_with_tail_length never exceeds the domain
      length, so the flag is irrelevant there.) *)
  Definition pdiv_fast_reduce (a m : list F) : option (list F) :=
    let dm := poly_degree o m in
    if dm =? 0 then Some []
    else if poly_degree o a <? dm then Some a
    else
      match pdiv_shift_factor_ntt_with_tail_length m with
      | None => None
      | Some (shift_ntt, tail) =>
          match pdiv_reduce_by_ntt_friendly_modulus true a shift_ntt tail with
          | None => None
          | Some ir1 =>
              match (if poly_degree o ir1 >? 4 * dm
                     then match pdiv_structured_multiple m with
                          | None => None
                          | Some sm => pdiv_reduce_by_structured_modulus ir1 sm
                          end
                     else Some ir1) with
              | None => None
              | Some ir2 => pdiv_reduce_long_division ir2 m
              end
          end
      end.
  (* which stages of fast_reduce run (for evidence): (ntt stage reduces at least one chunk, structured stage runs) *)
  Definition pdiv_fast_reduce_stages (a m : list F) : option (bool * bool) :=
    match pdiv_shift_factor_ntt_with_tail_length m with
    | None => None
    | Some (shift_ntt, tail) =>
        match pdiv_reduce_by_ntt_friendly_modulus true a shift_ntt tail with
        | None => None
        | Some ir1 => Some (zlen shift_ntt <? zlen a, poly_degree o ir1 >? 4 * poly_degree o m)
        end
    end.

  (* fn reduce(&self, modulus): the x4 rule *)
  Definition pdiv_reduce (a m : list F) : option (list F) :=
    let dm := poly_degree o m in
    let da := poly_degree o a in
    if dm <? 0 then None                                            (* "Cannot divide by zero; needed for reduce." *)
    else if dm =? 0 then Some []
    else if da <? dm then Some a
    else if da >? FAST_REDUCE_MAKES_SENSE_MULTIPLE * dm then pdiv_fast_reduce a m
    else pdiv_reduce_long_division a m.
  (* 0 = zero modulus (panic), 1 = constant modulus, 2 = already reduced, 3 = fast_reduce, 4 = long division *)
  Definition pdiv_reduce_arm (a m : list F) : Z :=
    let dm := poly_degree o m in
    let da := poly_degree o a in
    if dm <? 0 then 0 else if dm =? 0 then 1 else if da <? dm then 2
    else if da >? FAST_REDUCE_MAKES_SENSE_MULTIPLE * dm then 3 else 4.

  (* ---------------------------------------------------------------- formal_power_series_inverse_newton
       let self_degree = self.degree();
       if self_degree == 0 { return from_constant(self.coefficients[0].inverse()); }
       let num_rounds = precision.next_power_of_two().ilog2();
       let switch_point = if CUTOFF < self_degree { 0 } else { (CUTOFF / self_degree).ilog2() };
       let cc = self.coefficients[0];  let mut f = from_constant(cc.inverse());
       for _ in 0..u32::min(num_rounds, switch_point) {
         let sub = f.multiply(&f).multiply(&self);  f.scalar_mul_mut(FF::from(2));  f = f - sub; }
       if switch_point >= num_rounds { return f; }
       let full_domain_length = ((1 << (num_rounds + 1)) * self_degree as usize).next_power_of_two();
       let mut self_ntt = self.coefficients.into_owned(); self_ntt.resize(full_domain_length, ZERO); ntt(&mut self_ntt);
       let mut current_domain_length = f.coefficients.len().next_power_of_two();
       let mut f_degree = f.degree();
       let mut f_ntt = f.coefficients.into_owned(); f_ntt.resize(full_domain_length, ZERO); ntt(&mut f_ntt[..current_domain_length]);
       for _ in switch_point..num_rounds {
         f_degree = 2 * f_degree + self_degree;
         if f_degree as usize >= current_domain_length {
           let next_domain_length = (1 + f_degree as usize).next_power_of_two();
           intt(&mut f_ntt[..current_domain_length]); ntt(&mut f_ntt[..next_domain_length]);
           current_domain_length = next_domain_length; }
         f_ntt.iter_mut().zip(self_ntt.iter().step_by(full_domain_length / current_domain_length))
              .for_each(|(ff, dd)| *ff = FF::from(2) * *ff - *ff * *ff * *dd); }
       intt(&mut f_ntt[..current_domain_length]);  Polynomial::new(f_ntt)
     The zero polynomial: `(CUTOFF / -1).ilog2()` of a negative isize panics.
     `f_ntt` is modelled by its prefix of length current_domain_length; everything beyond it is zero throughout
     (set by the initial resize and never written: the zip stops after current_domain_length items of the step_by). *)
  Fixpoint pdiv_newton_std_loop (k : nat) (l : list F) (two : F) (f : list F) : option (list F) :=
    match k with
    | O => Some f
    | S k' =>
        match poly_multiply o ntt intt f f with
        | None => None
        | Some ff =>
            match poly_multiply o ntt intt ff l with
            | None => None
            | Some sub => pdiv_newton_std_loop k' l two (poly_sub o (poly_scalar_mul_mut o f two) sub)
            end
        end
    end.
  Fixpoint pdiv_newton_ntt_loop (k : nat) (self_ntt : list F) (full sd : Z) (two : F) (fdeg cur : Z) (fntt : list F)
    : option (Z * list F) :=
    match k with
    | O => Some (cur, fntt)
    | S k' =>
        let fdeg' := 2 * fdeg + sd in
        match (if cur <=? fdeg' then
                 let next := next_pow2 (1 + fdeg') in
                 match intt fntt with
                 | None => None
                 | Some c => if full <? next then None              (* &mut f_ntt[..next_domain_length] *)
                             else match ntt (resize c next zero) with
                                  | None => None
                                  | Some v => Some (next, v)
                                  end
                 end
               else Some (cur, fntt)) with
        | None => None
        | Some (cur', fntt') =>
            let step := full / cur' in
            if step <=? 0 then None                                 (* step_by(0) *)
            else
              let upd := map2 (fun ff dd => fsub o (fmul o two ff) (fmul o (fmul o ff ff) dd))
                              fntt' (pdiv_step_by step self_ntt) in
              pdiv_newton_ntt_loop k' self_ntt full sd two fdeg' cur' upd
        end
    end.
  Definition pdiv_fpsi_newton (l : list F) (precision : Z) : option (list F) :=
    let sd := poly_degree o l in
    if sd =? 0 then
      match idx l 0 with
      | None => None
      | Some c => match finv o c with None => None | Some ci => Some [ci] end
      end
    else if sd <? 0 then None
    else
      let num_rounds := Z.log2 (next_pow2 precision) in
      let switch_point :=
        if FORMAL_POWER_SERIES_INVERSE_CUTOFF <? sd then 0 else Z.log2 (FORMAL_POWER_SERIES_INVERSE_CUTOFF / sd) in
      match idx l 0 with
      | None => None
      | Some cc =>
          match finv o cc with
          | None => None
          | Some cci =>
              let two := ffrom_u64 o 2 in
              match pdiv_newton_std_loop (Z.to_nat (Z.min num_rounds switch_point)) l two [cci] with
              | None => None
              | Some f =>
                  if num_rounds <=? switch_point then Some f
                  else
                    let full := next_pow2 (2 ^ (num_rounds + 1) * sd) in
                    match ntt (resize l full zero) with
                    | None => None
                    | Some self_ntt =>
                        let cur := next_pow2 (zlen f) in
                        if full <? cur then None                    (* &mut f_ntt[..current_domain_length] *)
                        else
                          match ntt (resize f cur zero) with
                          | None => None
                          | Some fntt =>
                              match pdiv_newton_ntt_loop (Z.to_nat (num_rounds - switch_point)) self_ntt full sd two
                                                          (poly_degree o f) cur fntt with
                              | None => None
                              | Some (cur', fntt') =>
                                  match intt fntt' with
                                  | None => None
                                  | Some c => Some (c ++ zrepeat zero (full - cur'))
                                  end
                              end
                          end
                    end
              end
          end
      end.
  (* does the NTT part of formal_power_series_inverse_newton run? (for evidence) *)
  Definition pdiv_fpsi_newton_uses_ntt (l : list F) (precision : Z) : bool :=
    let sd := poly_degree o l in
    if sd <=? 0 then false
    else
      let num_rounds := Z.log2 (next_pow2 precision) in
      let switch_point :=
        if FORMAL_POWER_SERIES_INVERSE_CUTOFF <? sd then 0 else Z.log2 (FORMAL_POWER_SERIES_INVERSE_CUTOFF / sd) in
      switch_point <? num_rounds.
End Div.

(* ------------------------------------------------------------------ clean_divide (impl Polynomial<BFieldElement>)
   Generic in the base field `o : fops F`, the extension `ox : fops X`, the scalar action `act` (`X * F`), `unlift`,
   the coset offset, the extension-field transforms and batch inversion, so that the proofs can run over an abstract
   field extension; the code instantiates F = BFieldElement, X = XFieldElement, offset = XFieldElement::from([0,1,0]).

     if divisor.degree() < CLEAN_DIVIDE_CUTOFF_THRESHOLD {
       let (quotient, remainder) = dividend.divide(&divisor);  debug_assert!(remainder.is_zero());  return quotient; }
     if divisor_coefficients.first().is_some_and(Zero::is_zero) {
       assert!(dividend_coefficients[0].is_zero());  dividend_coefficients.remove(0);  divisor_coefficients.remove(0); }
  [ since 8b5e451 (`fix2`):
       assert!(dividend_coefficients.first().is_none_or(Zero::is_zero));
       if !dividend_coefficients.is_empty() { dividend_coefficients.remove(0); }  divisor_coefficients.remove(0); ]
     let offset = XFieldElement::from([0, 1, 0]);
     let mut dividend_coefficients = dividend.scale(offset).coefficients.into_owned();   (likewise the divisor)
     let order = usize::try_from(dividend.degree() + 1).unwrap().next_power_of_two();
     dividend_coefficients.resize(order, ZERO);  divisor_coefficients.resize(order, ZERO);
     ntt(&mut dividend_coefficients);  ntt(&mut divisor_coefficients);
  [ since 87d4e9b (`fix1`):
     if divisor_coefficients.iter().any(Zero::is_zero) {
       let (quotient, remainder) = dividend.divide(&divisor);  debug_assert!(remainder.is_zero());  return quotient; } ]
     let divisor_inverses = XFieldElement::batch_inversion(divisor_coefficients);
     let mut quotient_codeword = dividend_coefficients.into_iter().zip(divisor_inverses).map(|(l, r)| l * r).collect_vec();
     intt(&mut quotient_codeword);
     let coeffs = Polynomial::new(quotient_codeword).scale(offset.inverse()).coefficients;
     Polynomial::new(coeffs.into_iter().map(|c| c.unlift().unwrap()).collect())
   `cutoff` is a parameter: PolyGen.CLEAN_DIVIDE_CUTOFF_THRESHOLD_PROD (1 << 9) in a normal build,
   PolyGen.CLEAN_DIVIDE_CUTOFF_THRESHOLD_TEST (0) under cfg(test). *)
Section CleanDivide.
  Context {F X : Type} (o : fops F) (ox : fops X) (act : fact F X) (unlift : X -> option F) (offset : X).
  Variable nttx : list X -> option (list X).
  Variable inttx : list X -> option (list X).
  Variable batch_inv : list X -> option (list X).

  Definition pdiv_long_division_arm (dbg : bool) (a d : list F) : option (list F) :=
    match pdiv_divide o a d with
    | None => None
    | Some (q, r) => if dbg && negb (poly_is_zero o r) then None else Some q
    end.
  (* removal of the root 0: Some (dividend, divisor) after the optional `remove(0)`; `fix2` = commit 8b5e451 *)
  Definition pdiv_remove_root0 (fix2 : bool) (a d : list F) : option (list F * list F) :=
    match d with
    | c0 :: d' =>
        if fis_zero o c0 then
          match a with
          | x0 :: a' => if fis_zero o x0 then Some (a', d') else None      (* assert! *)
          | [] => if fix2 then Some ([], d') else None                      (* before the repair: dividend_coefficients[0] *)
          end
        else Some (a, d)
    | [] => Some (a, d)
    end.
  (* Polynomial<BFE>::scale(offset : XFE) : coefficient * power_of_alpha = power_of_alpha scaled by the coefficient *)
  Definition pdiv_scale_to_ext (l : list F) : list X :=
    poly_scale_gen (fone ox) (fmul ox) (fun c pw => smul act pw c) l offset.
  (* the two codewords: evaluations of dividend and divisor on the coset offset * <omega_order> *)
  Definition pdiv_clean_codewords (a1 d1 : list F) : option (list X * list X) :=
    let order := next_pow2 (poly_degree o a1 + 1) in
    match nttx (resize (pdiv_scale_to_ext a1) order (fzero ox)) with
    | None => None
    | Some av => match nttx (resize (pdiv_scale_to_ext d1) order (fzero ox)) with
                 | None => None
                 | Some dv => Some (av, dv)
                 end
    end.
  Definition pdiv_clean_divide_gen (fix1 fix2 : bool) (cutoff : Z) (dbg : bool) (a d : list F) : option (list F) :=
    if poly_degree o d <? cutoff then pdiv_long_division_arm dbg a d
    else
      match pdiv_remove_root0 fix2 a d with
      | None => None
      | Some (a1, d1) =>
          match pdiv_clean_codewords a1 d1 with
          | None => None
          | Some (av, dv) =>
              if fix1 && existsb (fis_zero ox) dv then pdiv_long_division_arm dbg a1 d1
              else
                match batch_inv dv with
                | None => None                                    (* "Cannot do batch inversion on zero" *)
                | Some inv =>
                    match inttx (map2 (fmul ox) av inv) with
                    | None => None
                    | Some qv =>
                        match finv ox offset with
                        | None => None
                        | Some oi => map_opt unlift (poly_scale ox qv oi)   (* c.unlift().unwrap() *)
                        end
                    end
                end
          end
      end.
  (* does the divisor vanish somewhere on the evaluation coset? (None: the transforms panic) *)
  Definition pdiv_divisor_vanishes_on_coset (a d : list F) : option bool :=
    match pdiv_remove_root0 true a d with
    | None => None
    | Some (a1, d1) =>
        match pdiv_clean_codewords a1 d1 with
        | None => None
        | Some (_, dv) => Some (existsb (fis_zero ox) dv)
        end
    end.
End CleanDivide.

(* the instantiation the code uses *)
Definition pdiv_offset : xfe := (bfe_zero, bfe_one, bfe_zero).           (* XFieldElement::from([0, 1, 0]) *)
Definition pdiv_clean_divide_ver (fix1 fix2 : bool) (cutoff : Z) (dbg : bool) (a d : list Z) : option (list Z) :=
  pdiv_clean_divide_gen bfe_ops xfe_ops xb_act xunlift pdiv_offset ntt_x intt_x xbatch_inversion fix1 fix2 cutoff dbg a d.
Definition pdiv_clean_divide_v0 := pdiv_clean_divide_ver false false.
Definition pdiv_clean_divide_v1 := pdiv_clean_divide_ver true false.
Definition pdiv_clean_divide_v2 := pdiv_clean_divide_ver true true.
(* (for evidence) does the fallback to long division of the NTT arm trigger? *)
Definition pdiv_vanishes_on_coset (a d : list Z) : option bool :=
  pdiv_divisor_vanishes_on_coset bfe_ops xfe_ops xb_act pdiv_offset ntt_x a d.

(* ------------------------------------------------------------------ VERSION SWITCH
   `_v0` = the originally pinned code; `_v1` = after the repair commit 87d4e9b; `_v2` = after 8b5e451 too = the
   current tree.  The alias is what the oracle runs and what the positive theorems of props/C09.v are about; the
   `_v0` / `_v1` versions are kept for the historical `*_refuted` lemmas. *)
Definition pdiv_clean_divide := pdiv_clean_divide_v2.

(* ------------------------------------------------------------------ XFieldElement::inverse (x_field_element.rs)
     assert!(!self.is_zero());
     let self_as_poly: Polynomial<BFieldElement> = self.to_owned().into();          (the three coefficients, raw)
     let (_, a, _) = Polynomial::<BFieldElement>::xgcd(self_as_poly, Self::shah_polynomial());   a.into()
   impl From<Polynomial<BFieldElement>> for XFieldElement:
     let (_, rem) = poly.naive_divide(&Self::shah_polynomial());
     let Ok(rem_degree) = usize::try_from(rem.degree()) else { return ZERO };
     xfe[..=rem_degree].copy_from_slice(&rem.coefficients()[..=rem_degree]); *)
Definition pdiv_shah : list Z := [bfe_one; bfe_neg bfe_one; bfe_zero; bfe_one].     (* bfe_vec![1, -1, 0, 1] *)
Definition pdiv_xfe_from_poly (l : list Z) : option xfe :=
  match pdiv_naive_divide bfe_ops l pdiv_shah with
  | None => None
  | Some (_, rem) =>
      let rd := poly_degree bfe_ops rem in
      if rd <? 0 then Some xzero
      else if 2 <? rd then None                                              (* xfe[..=rem_degree] out of range *)
      else
        let cs := take (rd + 1) (poly_coefficients bfe_ops rem) in
        if zlen cs <? rd + 1 then None
        else Some (nth 0 cs bfe_zero, nth 1 cs bfe_zero, nth 2 cs bfe_zero)
  end.
Definition pdiv_xfe_inverse (x : xfe) : pdiv_out xfe :=
  if xeqb x xzero then PdPanic
  else
    let '(c0, c1, c2) := x in
    match pdiv_xgcd bfe_ops [c0; c1; c2] pdiv_shah with
    | PdOk (_, a, _) => match pdiv_xfe_from_poly a with Some y => PdOk y | None => PdPanic end
    | PdPanic => PdPanic
    | PdFuel => PdFuel
    end.
