(* model/PolyInterp.v - executable model of the interpolation / bulk evaluation / zerofier / coset part of
   twenty-first/src/math/polynomial.rs and of twenty-first/src/math/zerofier_tree.rs  (property C08).
   DEFINITIONS ONLY.  Conventions are those of model/PolyCore.v:

   * a `Polynomial<FF>` is its RAW coefficient list as stored (`list F`, lowest degree first), nothing is
     normalised unless the Rust code normalises; `Vec<FF>` / `&[FF]` are lists;
   * everything is generic over `o : fops F`; the base-field scalars of the code (`offset : BFieldElement`,
     `omega`, twiddles) are Montgomery words `Z` operated on with `bfe_ops`, acting on F through `act : fact Z F`
     (`*acc *= omega` = `smul act acc omega`), `FF::from(b.value())` = `ffrom_u64 o (bfe_value b)`;
   * a Rust panic (assert!, unwrap on None, index / slice out of bounds, inverse of zero, usize underflow,
     division by zero) is the outcome `None`; `dbg` = debug assertions enabled (the `checked` profile);
   * `ntt` / `intt` (math/ntt.rs, C06) are parameters, instantiated with `Ntt.ntt_b Ntt.intt_b` / `ntt_x intt_x`;
   * the thread count read from `available_parallelism()` is the explicit parameter `nt`;
     `par_iter().map(f).collect()` = `map f`, `rayon::join(a, b)` = `(a, b)` (DESIGN 1.5);
   * recursion that is not structural runs on fuel; running out of fuel is `None` (proved impossible in
     proofs/PolyInterpProofs.v for the fuel the top-level functions supply);
   * the memo tables of batch_fast_interpolate (`HashMap<(FF, FF), _>`) are association lists keyed by the pair
     (first, last) of the sub-domain, looked up with the derived `PartialEq` (`feqb`), threaded through the recursion;
   * `ZerofierTree` is the inductive `ztree`; the leaf size is `ZEROFIER_TREE_RECURSION_CUTOFF_THRESHOLD` of gen/PolyGen.v;
   * every name is prefixed `pint_`.

   DIVISION FAMILY.  The routines of this file call `reduce`, `fast_reduce`, `divide`,
   `shift_factor_ntt_with_tail_length`, `reduce_by_ntt_friendly_modulus` (property C09, model/PolyDiv.v of another
   engineer, not yet available).  They are modelled here, faithfully to the code, under `pint_` names
   (Section Div); the C08 theorems only use their specification "the result is congruent / is the remainder"
   as Section hypotheses. *)
From Coq Require Import ZArith Bool List.
From TF Require Import Word BFieldGen BField XField FieldOps PolyGen PolyCore Ntt.
Import ListNotations.
Open Scope Z_scope.

(* usize::div_ceil, usize::ilog2 (callers guard the zero cases) *)
Definition pint_div_ceil (a b : Z) : Z := (a + b - 1) / b.
Definition pint_ilog2 (n : Z) : Z := Z.log2 n.
(* usize as isize *)
Definition pint_as_isize (n : Z) : Z := if n <? 2 ^ 63 then n else n - 2 ^ 64.

Fixpoint pint_opt_all {A} (l : list (option A)) : option (list A) :=
  match l with
  | [] => Some []
  | x :: r => match x, pint_opt_all r with Some y, Some t => Some (y :: t) | _, _ => None end
  end.

Section Interp.
  Context {F : Type} (o : fops F) (act : fact Z F).
  Variable ntt : list F -> option (list F).
  Variable intt : list F -> option (list F).
  Notation is0 := (fis_zero o).
  Notation mult := (poly_multiply o ntt intt).
  Notation degree := (poly_degree o).

  (* FF::from(b.value()) for a base-field element b *)
  Definition pint_lift (b : Z) : F := ffrom_u64 o (bfe_value b).
  (* FiniteField::batch_inversion *)
  Definition pint_batch_inversion (l : list F) : option (list F) :=
    batch_inversion F (fone o) (fmul o) (fis_zero o) (finv o) l.

  (* ================================================================ division family (see header) *)
  (* remainder_coefficients[remainder_degree - i] -= quotient_coeff * divisor_coeff, on the REVERSED remainder *)
  Fixpoint pint_sub_row (qc : F) (ds : list F) (r : list F) : option (list F) :=
    match ds with
    | [] => Some r
    | d :: ds' =>
        match r with
        | [] => None                                          (* index underflow / out of bounds *)
        | x :: r' => match pint_sub_row qc ds' r' with
                     | None => None
                     | Some t => Some (fsub o x (fmul o qc d) :: t)
                     end
        end
    end.
  (* for _ in 0..=quotient_degree { pop; quotient_coeff = lc * inv; push; if zero continue; subtract } *)
  Fixpoint pint_div_loop (n : nat) (inv : F) (ds : list F) (rrev : list F) (q : list F) : option (list F * list F) :=
    match n with
    | O => Some (q, rrev)
    | S n' =>
        match rrev with
        | [] => None                                          (* pop().unwrap() *)
        | lc :: rest =>
            let qc := fmul o lc inv in
            if is0 qc then pint_div_loop n' inv ds rest (qc :: q)
            else match pint_sub_row qc ds rest with
                 | None => None
                 | Some rest' => pint_div_loop n' inv ds rest' (qc :: q)
                 end
        end
    end.
  (* fn naive_divide / fn divide -> (quotient, remainder) *)
  Definition pint_naive_divide (a d : list F) : option (list F * list F) :=
    match poly_leading_coefficient o d with
    | Some (Some lc) =>
        match finv o lc with
        | None => None
        | Some inv =>
            let qd := degree a - degree d in
            if qd <? 0 then Some ([], a) else
            match pint_div_loop (Z.to_nat (qd + 1)) inv (tl (drop_zeros o (rev d))) (rev (poly_normalize o a)) [] with
            | None => None
            | Some (q, rrev) => Some (q, rev rrev)
            end
        end
    | _ => None                                               (* expect("divisor should be non-zero") *)
    end.
  Definition pint_divide (a d : list F) : option (list F * list F) := pint_naive_divide a d.
  Definition pint_reduce_long_division (a m : list F) : option (list F) :=
    match pint_divide a m with Some (_, r) => Some r | None => None end.

  (* fn formal_power_series_inverse_minimal(&self, precision): g kept reversed *)
  Fixpoint pint_fpsi_loop (n : nat) (tail : list F) (lc_inv : F) (grev : list F) : list F :=
    match n with
    | O => grev
    | S n' =>
        let inner := fold_left (fun acc lr => fadd o acc (fmul o (fst lr) (snd lr))) (combine tail grev) (fzero o) in
        pint_fpsi_loop n' tail lc_inv (fmul o (fneg o inner) lc_inv :: grev)
    end.
  Definition pint_fpsi_minimal (a : list F) (precision : Z) : option (list F) :=
    match a with
    | [] => None                                              (* first().unwrap() *)
    | c0 :: tail =>
        match finv o c0 with
        | None => None
        | Some lc_inv => Some (rev (pint_fpsi_loop (Z.to_nat precision) tail lc_inv [lc_inv]))
        end
    end.

  (* pub fn structured_multiple_of_degree(&self, n) *)
  Definition pint_structured_multiple_of_degree (a : list F) (n : Z) : option (list F) :=
    let d := degree a in
    if d <? 0 then None                                       (* "cannot compute multiples of zero" *)
    else if n <? d then None                                  (* assert!(degree <= n) *)
    else if d =? 0 then
      match idx a 0 with
      | None => None
      | Some c0 => match finv o c0 with None => None | Some ci => Some (zrepeat (fzero o) n ++ [ci]) end
      end
    else
      let rv := poly_reverse o a in
      match pint_fpsi_minimal rv (n - d) with
      | None => None
      | Some inverse_reverse =>
          match mult rv inverse_reverse with
          | None => None
          | Some product_reverse =>
              let product := poly_reverse o product_reverse in
              let pd := degree product in
              if pd <? 0 then None                            (* `degree() as usize` of -1, then n - huge underflows *)
              else if n <? pd then None                       (* usize underflow *)
              else Some (poly_shift_coefficients o product (n - pd))
          end
      end.
  (* fn structured_multiple *)
  Definition pint_structured_multiple (a : list F) : option (list F) :=
    let d := degree a in
    if d <? 0 then None else pint_structured_multiple_of_degree a (3 * d + 1).

  (* index of the last non-zero entry of l (None if all zero): `.iter().enumerate().rev().find_map(..)` *)
  Fixpoint pint_last_nonzero (l : list F) (i : Z) (best : option Z) : option Z :=
    match l with
    | [] => best
    | c :: r => pint_last_nonzero r (i + 1) (if is0 c then best else Some i)
    end.
  (* pub fn shift_factor_ntt_with_tail_length(&self) -> (Vec<FF>, usize) *)
  Definition pint_shift_factor_ntt_with_tail_length (a : list F) : option (list F * Z) :=
    let d := degree a in
    if d <? 0 then None                                       (* `degree as usize * 2` overflows, then panics *)
    else
      let n := next_pow2 (Z.max FAST_REDUCE_CUTOFF_THRESHOLD (d * 2)) in
      match pint_structured_multiple_of_degree a n with
      | None => None
      | Some mlt =>
          let m := 1 + match pint_last_nonzero (removelast mlt) 0 None with Some i => i | None => 0 end in
          if zlen mlt <? n then None                          (* coefficients[..n] *)
          else match ntt (take n mlt) with
               | None => None
               | Some sf => Some (sf, m)
               end
      end.

  (* the loop of reduce_by_ntt_friendly_modulus: chunk_index from nrc-1 down to 0 (k = number of chunks left) *)
  Fixpoint pint_rbnf_loop (k : nat) (coeffs shift_ntt : list F) (chunk tail : Z) (ww : list F) : option (list F) :=
    match k with
    | O => Some ww
    | S k' =>
        let ci := Z.of_nat k' in
        match ntt (drop tail ww ++ zrepeat (fzero o) tail) with
        | None => None
        | Some p1 =>
            match intt (map2 (fmul o) p1 shift_ntt) with
            | None => None
            | Some product =>
                let fresh := take chunk (drop (ci * chunk) coeffs) in
                if negb (zlen fresh =? chunk) then None       (* self.coefficients[chunk_index * chunk_size + i] *)
                else pint_rbnf_loop k' coeffs shift_ntt chunk tail (map2 (fsub o) (fresh ++ take tail ww) product)
            end
        end
    end.
  (* pub fn reduce_by_ntt_friendly_modulus(&self, shift_ntt, tail_length) *)
  Definition pint_reduce_by_ntt_friendly_modulus (a shift_ntt : list F) (tail : Z) : option (list F) :=
    let dl := zlen shift_ntt in
    if negb (Ntt.is_pow2 dl) then None                        (* assert!(domain_length.is_power_of_two()) *)
    else if dl <? tail then None                              (* usize underflow (see header of the C08 check) *)
    else
      let chunk := dl - tail in
      let len := zlen a in
      if len <? chunk + tail then Some a
      else if chunk =? 0 then None                            (* div_ceil(0) *)
      else
        let nrc := pint_div_ceil (len - (tail + chunk)) chunk in
        let range_start := nrc * chunk in
        let ww0 := if len <=? range_start then zrepeat (fzero o) (chunk + tail) else drop range_start a in
        pint_rbnf_loop (Z.to_nat nrc) a shift_ntt chunk tail (resize ww0 (chunk + tail) (fzero o)).

  (* the loop of reduce_by_structured_modulus *)
  Fixpoint pint_rbs_loop (k : nat) (coeffs shift_poly : list F) (chunk tail : Z) (ww : list F) : option (list F) :=
    match k with
    | O => Some ww
    | S k' =>
        match mult (drop tail ww) shift_poly with
        | None => None
        | Some product =>
            let ws := Z.of_nat k' * chunk in
            let fresh := take chunk (drop ws coeffs) in
            if negb (zlen fresh =? chunk) then None
            else
              let pc := resize product (chunk + tail) (fzero o) in   (* product.coefficients.get(i).unwrap_or(ZERO) *)
              pint_rbs_loop k' coeffs shift_poly chunk tail (map2 (fsub o) (fresh ++ take tail ww) pc)
        end
    end.
  (* fn reduce_by_structured_modulus(&self, multiple) *)
  Definition pint_reduce_by_structured_modulus (a multiple : list F) : option (list F) :=
    let md := degree multiple in
    if md =? 0 then None                                      (* assert_ne!(0, multiple.degree()) *)
    else if md <? 0 then None                                 (* expect("cannot reduce by zero") *)
    else
      match poly_leading_coefficient o multiple with
      | Some (Some lc) =>
          if negb (feqb o lc (fone o)) then None              (* "multiple must be monic" *)
          else
            let shift_poly := poly_sub o multiple (poly_x_to_the o md) in
            let sd := degree shift_poly in
            if negb (sd <? md) then None
            else
              let tail := if sd <? 0 then 0 else sd + 1 in
              let chunk := md - tail in
              let len := zlen a in
              if len <? chunk + tail then Some a
              else if chunk =? 0 then None
              else
                let nrc := pint_div_ceil (len - (tail + chunk)) chunk in
                let window_start := nrc * chunk in
                if len <? window_start then None
                else pint_rbs_loop (Z.to_nat nrc) a shift_poly chunk tail
                       (resize (drop window_start a) (chunk + tail) (fzero o))
      | _ => None
      end.

  (* pub fn fast_reduce(&self, modulus) *)
  Definition pint_fast_reduce (a m : list F) : option (list F) :=
    let dm := degree m in
    if dm =? 0 then Some []
    else if degree a <? dm then Some a
    else
      match pint_shift_factor_ntt_with_tail_length m with
      | None => None
      | Some (sf, ts) =>
          match pint_reduce_by_ntt_friendly_modulus a sf ts with
          | None => None
          | Some ir =>
              match (if degree ir >? 4 * dm then
                       match pint_structured_multiple m with
                       | None => None
                       | Some sm => pint_reduce_by_structured_modulus ir sm
                       end
                     else Some ir) with
              | None => None
              | Some ir2 => pint_reduce_long_division ir2 m
              end
          end
      end.

  (* pub fn reduce(&self, modulus) *)
  Definition pint_reduce (a m : list F) : option (list F) :=
    let dm := degree m in
    if dm <? 0 then None                                      (* "Cannot divide by zero; needed for reduce." *)
    else if dm =? 0 then Some []
    else if degree a <? dm then Some a
    else if degree a >? FAST_REDUCE_MAKES_SENSE_MULTIPLE * dm then pint_fast_reduce a m
    else pint_reduce_long_division a m.

  (* ================================================================ zerofiers *)
  (* one root of smart_zerofier:  for k in (1..=num_coeffs).rev() { z[k] = z[k-1] - root*z[k] }  z[0] = -root*z[0]
     on the active prefix z[0..num_coeffs) (z[num_coeffs] is still the stored ZERO) *)
  Fixpoint pint_sz_step (r prev : F) (a : list F) : list F :=
    match a with
    | [] => [fsub o prev (fmul o r (fzero o))]
    | x :: a' => fsub o prev (fmul o r x) :: pint_sz_step r x a'
    end.
  Definition pint_sz_root (a : list F) (r : F) : list F :=
    match a with [] => [] | a0 :: a' => fmul o (fneg o r) a0 :: pint_sz_step r a0 a' end.
  (* pub fn smart_zerofier(roots) *)
  Definition pint_smart_zerofier (roots : list F) : list F := fold_left pint_sz_root roots [fone o].

  (* pub fn naive_zerofier: map (X - r), reduce with `*` (naive_multiply), or one *)
  Definition pint_naive_zerofier (domain : list F) : list F :=
    match map (fun r => [fneg o r; fone o]) domain with
    | [] => poly_one o
    | p :: ps => fold_left (poly_mul o) ps p
    end.

  (* pub fn zerofier / pub fn fast_zerofier (mutually recursive): fuel *)
  Fixpoint pint_zerofier_go (fuel : nat) (roots : list F) : option (list F) :=
    if zlen roots <? FAST_ZEROFIER_CUTOFF_THRESHOLD then Some (pint_smart_zerofier roots)
    else match fuel with
         | O => None
         | S f =>
             let mid := zlen roots / 2 in
             match pint_zerofier_go f (take mid roots), pint_zerofier_go f (drop mid roots) with
             | Some l, Some r => mult l r
             | _, _ => None
             end
         end.
  Definition pint_zerofier (roots : list F) : option (list F) := pint_zerofier_go (length roots) roots.
  Definition pint_fast_zerofier (roots : list F) : option (list F) :=
    let mid := zlen roots / 2 in
    match pint_zerofier (take mid roots), pint_zerofier (drop mid roots) with
    | Some l, Some r => mult l r
    | _, _ => None
    end.
  (* pub fn par_zerofier, num_threads = nt *)
  Definition pint_par_zerofier (nt : Z) (roots : list F) : option (list F) :=
    match roots with
    | [] => Some (poly_one o)
    | _ =>
        if nt <=? 0 then None else
        let chunk_size := Z.max (pint_div_ceil (zlen roots) nt) FAST_ZEROFIER_CUTOFF_THRESHOLD in
        match map_opt pint_zerofier (chunks chunk_size roots) with
        | None => None
        | Some factors => poly_par_batch_multiply o ntt intt nt factors
        end
    end.

  (* ================================================================ zerofier_tree.rs *)
  Inductive pint_ztree : Type :=
  | ZLeaf (points : list F) (zerofier : list F)
  | ZBranch (zerofier : list F) (left right : pint_ztree)
  | ZPadding.
  (* fn zerofier(&self) *)
  Definition pint_tree_zerofier (t : pint_ztree) : list F :=
    match t with ZLeaf _ z => z | ZBranch z _ _ => z | ZPadding => poly_one o end.
  Definition pint_is_padding (t : pint_ztree) : bool := match t with ZPadding => true | _ => false end.
  (* while nodes.len() > 1 { right = pop_back; left = pop_back; push_front(Padding or Branch::new(left, right)) } *)
  Fixpoint pint_tree_loop (fuel : nat) (nodes : list pint_ztree) : option pint_ztree :=
    match nodes with
    | [] => None                                              (* pop_front().unwrap() *)
    | [t] => Some t
    | _ =>
        match fuel with
        | O => None
        | S f =>
            match rev nodes with
            | rgt :: lft :: rest_rev =>
                if pint_is_padding lft then pint_tree_loop f (ZPadding :: rev rest_rev)
                else match mult (pint_tree_zerofier lft) (pint_tree_zerofier rgt) with
                     | None => None
                     | Some z => pint_tree_loop f (ZBranch z lft rgt :: rev rest_rev)
                     end
            | _ => None
            end
        end
    end.
  (* pub fn new_from_domain(domain) *)
  Definition pint_tree_new_from_domain (domain : list F) : option pint_ztree :=
    match map_opt (fun c => match pint_zerofier c with Some z => Some (ZLeaf c z) | None => None end)
                  (chunks ZEROFIER_TREE_RECURSION_CUTOFF_THRESHOLD domain) with
    | None => None
    | Some leaves =>
        let n := next_pow2 (zlen leaves) in
        let nodes := leaves ++ repeat ZPadding (Z.to_nat (n - zlen leaves)) in
        pint_tree_loop (length nodes) nodes
    end.

  (* ================================================================ bulk evaluation *)
  (* pub fn iterative_batch_evaluate *)
  Definition pint_iterative_batch_evaluate (p domain : list F) : list F := map (poly_evaluate o p) domain.
  (* pub fn divide_and_conquer_batch_evaluate(&self, tree) *)
  Fixpoint pint_dac_batch_evaluate (p : list F) (t : pint_ztree) : option (list F) :=
    match t with
    | ZLeaf points z =>
        match pint_reduce p z with
        | None => None
        | Some r => Some (pint_iterative_batch_evaluate r points)
        end
    | ZBranch _ l r =>
        match pint_dac_batch_evaluate p l, pint_dac_batch_evaluate p r with
        | Some a, Some b => Some (a ++ b)
        | _, _ => None
        end
    | ZPadding => Some []
    end.
  (* fn reduce_then_batch_evaluate *)
  Definition pint_reduce_then_batch_evaluate (p domain : list F) : option (list F) :=
    match pint_tree_new_from_domain domain with
    | None => None
    | Some t =>
        match pint_fast_reduce p (pint_tree_zerofier t) with
        | None => None
        | Some r => pint_dac_batch_evaluate r t
        end
    end.
  (* which arm batch_evaluate takes: 0 zero polynomial, 1 reduce first, 2 divide and conquer *)
  Definition pint_batch_evaluate_arm (p domain : list F) : Z :=
    if poly_is_zero o p then 0
    else if degree p >=? REDUCE_BEFORE_EVALUATE_THRESHOLD_RATIO * zlen domain then 1 else 2.
  (* pub fn batch_evaluate *)
  Definition pint_batch_evaluate (p domain : list F) : option (list F) :=
    if poly_is_zero o p then Some (zrepeat (fzero o) (zlen domain))
    else if degree p >=? REDUCE_BEFORE_EVALUATE_THRESHOLD_RATIO * zlen domain
    then pint_reduce_then_batch_evaluate p domain
    else match pint_tree_new_from_domain domain with
         | None => None
         | Some t => pint_dac_batch_evaluate p t
         end.
  (* pub fn par_batch_evaluate, num_threads = nt: par_chunks(chunk_size).flat_map(batch_evaluate) *)
  Definition pint_par_batch_evaluate (nt : Z) (p domain : list F) : option (list F) :=
    match domain with
    | [] => Some []
    | _ =>
        if poly_is_zero o p then Some (zrepeat (fzero o) (zlen domain))
        else if nt <=? 0 then None
        else match map_opt (pint_batch_evaluate p) (chunks (pint_div_ceil (zlen domain) nt) domain) with
             | None => None
             | Some rs => Some (concat rs)
             end
    end.

  (* ================================================================ interpolation *)
  (* the synthetic division of the zerofier by (X - d) inside lagrange_interpolate; zs = [z_{n-1}; ...; z_1].
     Returns (summand_array, summand_eval). *)
  Fixpoint pint_lag_go (d : F) (zs : list F) (lc se : F) (acc : list F) : list F * F :=
    match zs with
    | [] => (lc :: acc, fadd o (fmul o se d) lc)
    | zj :: zs' => pint_lag_go d zs' (fadd o zj (fmul o lc d)) (fadd o (fmul o se d) lc) (lc :: acc)
    end.
  (* for (i, &abscis) in values.iter().enumerate() { ... } *)
  Fixpoint pint_lag_loop (domain : list F) (zn : F) (zs : list F) (i : Z) (values : list F) (sum : list F)
    : option (list F) :=
    match values with
    | [] => Some sum
    | abscis :: vs =>
        match idx domain i with
        | None => None                                        (* domain[i] *)
        | Some d =>
            let '(summand, se) := pint_lag_go d zs zn (fzero o) [] in
            match fdiv o abscis se with
            | None => None                                    (* division by zero: repeated abscissa *)
            | Some corrected =>
                pint_lag_loop domain zn zs (i + 1) vs (map2 (fun s x => fadd o s (fmul o corrected x)) sum summand)
            end
        end
    end.
  (* pub fn lagrange_interpolate(domain, values) *)
  Definition pint_lagrange_interpolate (dbg : bool) (domain values : list F) : option (list F) :=
    let n := zlen domain in
    if dbg && ((n =? 0) || negb (n =? zlen values)) then None
    else match pint_zerofier domain with
         | None => None
         | Some z =>
             match values with
             | [] => Some (zrepeat (fzero o) n)
             | _ =>
                 match idx z n, idx z (n - 1) with
                 | Some zn, Some _ =>
                     pint_lag_loop domain zn (rev (take (n - 1) (drop 1 z))) 0 values (zrepeat (fzero o) n)
                 | _, _ => None
                 end
             end
         end.
  (* pub fn lagrange_interpolate_zipped(points): all_unique through a HashSet of the x values *)
  Fixpoint pint_mem (x : F) (l : list F) : bool :=
    match l with [] => false | y :: r => feqb o x y || pint_mem x r end.
  Fixpoint pint_all_unique (l : list F) : bool :=
    match l with [] => true | x :: r => negb (pint_mem x r) && pint_all_unique r end.
  Definition pint_lagrange_interpolate_zipped (dbg : bool) (points : list (F * F)) : option (list F) :=
    match points with
    | [] => None
    | _ => if pint_all_unique (map fst points)
           then pint_lagrange_interpolate dbg (map fst points) (map snd points) else None
    end.

  (* slices &v[..mid], &v[mid..] with their bounds checks *)
  Definition pint_split_at {A} (mid : Z) (v : list A) : option (list A * list A) :=
    if zlen v <? mid then None else Some (take mid v, drop mid v).

  (* the body shared by fast_interpolate / par_fast_interpolate after the len == 1 case;
     `beval` = batch_evaluate or par_batch_evaluate, `rec` = interpolate or par_interpolate *)
  Definition pint_fast_interpolate_body (beval : list F -> list F -> option (list F))
             (rec : list F -> list F -> option (list F)) (domain values : list F) : option (list F) :=
    let mid := zlen domain / 2 in
    let ld := take mid domain in
    let rd := drop mid domain in
    match pint_split_at mid values with
    | None => None
    | Some (lv, rv) =>
        match pint_zerofier ld, pint_zerofier rd with
        | Some lz, Some rz =>
            match beval rz ld, beval lz rd with
            | Some lo, Some ro =>
                let half off dh vh :=
                  match pint_batch_inversion off with
                  | None => None
                  | Some oi => rec dh (map2 (fmul o) vh oi)
                  end in
                match half lo ld lv, half ro rd rv with
                | Some li, Some ri =>
                    match mult li rz, mult ri lz with
                    | Some lt, Some rt => Some (poly_add o lt rt)
                    | _, _ => None
                    end
                | _, _ => None
                end
            | _, _ => None
            end
        | _, _ => None
        end
    end.
  Definition pint_fast_interpolate_with (dbg : bool) (beval : list F -> list F -> option (list F))
             (rec : list F -> list F -> option (list F)) (domain values : list F) : option (list F) :=
    let n := zlen domain in
    if dbg && ((n =? 0) || negb (n =? zlen values)) then None
    else if n =? 1 then match idx values 0 with Some v => Some (poly_from_constant v) | None => None end
    else pint_fast_interpolate_body beval rec domain values.

  (* pub fn interpolate (with fast_interpolate); `thr` = the dispatch threshold *)
  Fixpoint pint_interpolate_go (dbg : bool) (fuel : nat) (domain values : list F) : option (list F) :=
    match fuel with
    | O => None
    | S f =>
        let n := zlen domain in
        if n =? 0 then None
        else if negb (n =? zlen values) then None
        else if n <=? FAST_INTERPOLATE_CUTOFF_THRESHOLD_SEQUENTIAL then pint_lagrange_interpolate dbg domain values
        else pint_fast_interpolate_with dbg pint_batch_evaluate (pint_interpolate_go dbg f) domain values
    end.
  Definition pint_interpolate (dbg : bool) (domain values : list F) : option (list F) :=
    pint_interpolate_go dbg (S (length domain)) domain values.
  (* pub fn fast_interpolate *)
  Definition pint_fast_interpolate (dbg : bool) (domain values : list F) : option (list F) :=
    pint_fast_interpolate_with dbg pint_batch_evaluate (pint_interpolate dbg) domain values.

  (* pub fn par_interpolate / par_fast_interpolate, num_threads = nt *)
  Fixpoint pint_par_interpolate_go (dbg : bool) (nt : Z) (fuel : nat) (domain values : list F) : option (list F) :=
    match fuel with
    | O => None
    | S f =>
        let n := zlen domain in
        if n =? 0 then None
        else if negb (n =? zlen values) then None
        else if n <=? FAST_INTERPOLATE_CUTOFF_THRESHOLD_PARALLEL then pint_lagrange_interpolate dbg domain values
        else pint_fast_interpolate_with dbg (pint_par_batch_evaluate nt) (pint_par_interpolate_go dbg nt f) domain values
    end.
  Definition pint_par_interpolate (dbg : bool) (nt : Z) (domain values : list F) : option (list F) :=
    pint_par_interpolate_go dbg nt (S (length domain)) domain values.
  Definition pint_par_fast_interpolate (dbg : bool) (nt : Z) (domain values : list F) : option (list F) :=
    pint_fast_interpolate_with dbg (pint_par_batch_evaluate nt) (pint_par_interpolate dbg nt) domain values.

  (* ---------------------------------------------------------------- batch_fast_interpolate with memoisation *)
  Definition pint_key : Type := (F * F)%type.
  Definition pint_key_eqb (a b : pint_key) : bool := feqb o (fst a) (fst b) && feqb o (snd a) (snd b).
  Fixpoint pint_lookup {V} (k : pint_key) (d : list (pint_key * V)) : option V :=
    match d with
    | [] => None
    | (k', v) :: r => if pint_key_eqb k k' then Some v else pint_lookup k r
    end.
  Definition pint_memo : Type := (list (pint_key * list F) * list (pint_key * list F))%type.

  (* match dict.get(&key) { Some(z) => z, None => { compute; insert; } } *)
  Definition pint_get_or {V} (k : pint_key) (d : list (pint_key * V)) (compute : option V)
    : option (V * list (pint_key * V)) :=
    match pint_lookup k d with
    | Some v => Some (v, d)
    | None => match compute with None => None | Some v => Some (v, (k, v) :: d) end
    end.

  Fixpoint pint_bfi_go (dbg : bool) (fuel : nat) (domain : list F) (matrix : list (list F)) (memo : pint_memo)
    : option (list (list F) * pint_memo) :=
    let n := zlen domain in
    if n <? OPTIMAL_CUTOFF_POINT_FOR_BATCHED_INTERPOLATION then
      match map_opt (pint_lagrange_interpolate dbg domain) matrix with
      | None => None
      | Some rs => Some (rs, memo)
      end
    else
      match fuel with
      | O => None
      | S f =>
          let half := n / 2 in
          let ld := take half domain in
          let rd := drop half domain in
          match idx domain 0, idx domain (half - 1), idx domain half, idx domain (n - 1) with
          | Some d0, Some dh1, Some dh, Some dl =>
              let left_key := (d0, dh1) in
              let right_key := (dh, dl) in
              let '(zd, od) := memo in
              match pint_get_or left_key zd (pint_zerofier ld) with
              | None => None
              | Some (lz, zd1) =>
                  match pint_get_or right_key zd1 (pint_zerofier rd) with
                  | None => None
                  | Some (rz, zd2) =>
                      let inv_of z dom :=
                        match pint_batch_evaluate z dom with
                        | None => None
                        | Some off => pint_batch_inversion off
                        end in
                      match pint_get_or left_key od (inv_of rz ld) with
                      | None => None
                      | Some (loi, od1) =>
                          match pint_get_or right_key od1 (inv_of lz rd) with
                          | None => None
                          | Some (roi, od2) =>
                              match map_opt (fun values => if zlen values <? half then None
                                                           else Some (map2 (fmul o) (take half values) loi)) matrix,
                                    map_opt (fun values => if zlen values <? half then None
                                                           else Some (map2 (fmul o) (drop half values) roi)) matrix with
                              | Some lt, Some rt =>
                                  match pint_bfi_go dbg f ld lt (zd2, od2) with
                                  | None => None
                                  | Some (lis, memo1) =>
                                      match pint_bfi_go dbg f rd rt memo1 with
                                      | None => None
                                      | Some (ris, memo2) =>
                                          match pint_opt_all
                                                  (map2 (fun li ri =>
                                                           match mult li rz, mult ri lz with
                                                           | Some a, Some b => Some (poly_add o a b)
                                                           | _, _ => None
                                                           end) lis ris) with
                                          | None => None
                                          | Some rs => Some (rs, memo2)
                                          end
                                      end
                                  end
                              | _, _ => None
                              end
                          end
                      end
                  end
              end
          | _, _, _, _ => None
          end
      end.
  (* fn batch_fast_interpolate_with_memoization *)
  Definition pint_batch_fast_interpolate_with_memoization (dbg : bool) (domain : list F) (matrix : list (list F))
             (memo : pint_memo) : option (list (list F) * pint_memo) :=
    pint_bfi_go dbg (length domain) domain matrix memo.
  (* pub fn batch_fast_interpolate(domain, values_matrix, primitive_root, root_order) *)
  Definition pint_batch_fast_interpolate (dbg : bool) (domain : list F) (matrix : list (list F))
             (primitive_root : Z) (root_order : Z) : option (list (list F)) :=
    if dbg && negb (mod_pow primitive_root (root_order mod 2 ^ 32) =? bfe_one) then None
    else match domain with
         | [] => None
         | _ => match pint_batch_fast_interpolate_with_memoization dbg domain matrix ([], []) with
                | None => None
                | Some (rs, _) => Some rs
                end
         end.

  (* ================================================================ cosets *)
  (* pub fn fast_coset_evaluate<S>(&self, offset: S, order): S described by its one / product / action on F *)
  Definition pint_fast_coset_evaluate_gen {S} (sone : S) (smuls : S -> S -> S) (mul : F -> S -> F)
             (p : list F) (offset : S) (order : Z) : option (list F) :=
    if negb (pint_as_isize order >? degree p) then None
    else ntt (resize (poly_scale_gen sone smuls mul p offset) order (fzero o)).
  Definition pint_fast_coset_evaluate (p : list F) (offset : F) (order : Z) : option (list F) :=
    pint_fast_coset_evaluate_gen (fone o) (fmul o) (fmul o) p offset order.
  Definition pint_fast_coset_evaluate_b (p : list F) (offset : Z) (order : Z) : option (list F) :=
    pint_fast_coset_evaluate_gen bfe_one bfe_mul (smul act) p offset order.
  (* pub fn fast_coset_interpolate<S>(offset: S, values) *)
  Definition pint_fast_coset_interpolate_gen {S} (sone : S) (smuls : S -> S -> S) (sinv : S -> option S)
             (mul : F -> S -> F) (offset : S) (values : list F) : option (list F) :=
    match intt values with
    | None => None
    | Some c => match sinv offset with
                | None => None
                | Some oi => Some (poly_scale_gen sone smuls mul c oi)
                end
    end.
  Definition pint_fast_coset_interpolate (offset : F) (values : list F) : option (list F) :=
    pint_fast_coset_interpolate_gen (fone o) (fmul o) (finv o) (fmul o) offset values.
  Definition pint_fast_coset_interpolate_b (offset : Z) (values : list F) : option (list F) :=
    pint_fast_coset_interpolate_gen bfe_one bfe_mul inverse (smul act) offset values.

  (* (0..n).scan(start, |acc, _| { yld = *acc; *acc *= omega; Some(yld) }) *)
  Fixpoint pint_scan_mul (n : nat) (acc : F) (omega : Z) : list F :=
    match n with O => [] | S n' => acc :: pint_scan_mul n' (smul act acc omega) omega end.

  (* struct ModularInterpolationPreprocessingData *)
  Record pint_preproc : Type := mk_preproc {
    pp_even_zerofiers : list (list F);
    pp_odd_zerofiers : list (list F);
    pp_shift_coefficients : list F;
    pp_tail_length : Z
  }.
  (* (0..k).scan(x_to_the(1), |acc, _| { yld = acc.clone(); *acc = acc.multiply(acc).reduce(modulus); Some(yld) }) *)
  Fixpoint pint_modular_squares (k : nat) (acc modulus : list F) : option (list (list F)) :=
    match k with
    | O => Some []
    | S k' =>
        match mult acc acc with
        | None => None
        | Some sq =>
            match pint_reduce sq modulus with
            | None => None
            | Some acc' =>
                match pint_modular_squares k' acc' modulus with
                | None => None
                | Some t => Some (acc :: t)
                end
            end
        end
    end.
  (* pub fn fast_modular_coset_interpolate_preprocess(n, offset, modulus) *)
  Definition pint_fmci_preprocess (n : Z) (offset : Z) (modulus : list F) : option pint_preproc :=
    match primitive_root_of_unity n with
    | None => None
    | Some omega =>
        if n <=? 0 then None                                  (* n.ilog2() *)
        else
          let k := Z.to_nat (pint_ilog2 n) in
          match pint_modular_squares k (poly_x_to_the o 1) modulus with
          | None => None
          | Some squares =>
              let zf base :=
                pint_opt_all
                  (map (fun isq : Z * list F =>
                          match base with
                          | None => None
                          | Some b =>
                              let lc := mod_pow b (2 ^ fst isq) in
                              Some (poly_sub o (poly_scalar_mul o (snd isq) (pint_lift lc)) (poly_one o))
                          end)
                       (combine (map Z.of_nat (seq 0 k)) squares)) in
              match zf (inverse offset), zf (inverse (bfe_mul offset omega)) with
              | Some ez, Some oz =>
                  match pint_shift_factor_ntt_with_tail_length modulus with
                  | None => None
                  | Some (sc, tl) => Some (mk_preproc ez oz sc tl)
                  end
              | _, _ => None
              end
          end
    end.

  (* even / odd targets: targets[i] = MINUS_TWO_INVERSE * values[2i (+1)] for i in 0..n/2 *)
  Definition pint_m2i : F := ffrom_u64 o MINUS_TWO_INVERSE_ARG.
  Fixpoint pint_eo_targets (k : nat) (values : list F) : option (list F * list F) :=
    match k with
    | O => Some ([], [])
    | S k' =>
        match values with
        | v0 :: v1 :: vs =>
            match pint_eo_targets k' vs with
            | None => None
            | Some (e, od) => Some (fmul o pint_m2i v0 :: e, fmul o pint_m2i v1 :: od)
            end
        | _ => None
        end
    end.

  (* pub fn fast_modular_coset_interpolate_with_zerofiers_and_ntt_friendly_multiple (and, through the recursion,
     fn fast_modular_coset_interpolate).  thrL / thrI = the two regime thresholds (PolyGen constants in the
     instances below; parameters so that the even/odd recursion can be exercised at small sizes). *)
  Fixpoint pint_fmci_go (dbg : bool) (thrL thrI : Z) (fuel : nat) (values : list F) (offset : Z) (modulus : list F)
           (pre : pint_preproc) : option (list F) :=
    if degree modulus <? 0 then None
    else
      let n := zlen values in
      match primitive_root_of_unity n with
      | None => None
      | Some omega =>
          if n <? thrL then
            match pint_lagrange_interpolate dbg (pint_scan_mul (length values) (pint_lift offset) omega) values with
            | None => None
            | Some ip => pint_reduce ip modulus
            end
          else if n <=? thrI then
            match intt values, inverse offset with
            | Some c, Some oi =>
                match pint_reduce_by_ntt_friendly_modulus (poly_scale o c (pint_lift oi))
                        (pp_shift_coefficients pre) (pp_tail_length pre) with
                | None => None
                | Some r => pint_reduce r modulus
                end
            | _, _ => None
            end
          else
            match fuel with
            | O => None
            | S f =>
                match pint_eo_targets (Z.to_nat (n / 2)) values with
                | None => None
                | Some (et, ot) =>
                    let sub vals off :=
                      match pint_fmci_preprocess (zlen vals) off modulus with
                      | None => None
                      | Some pre' => pint_fmci_go dbg thrL thrI f vals off modulus pre'
                      end in
                    match sub et offset with
                    | None => None
                    | Some ei =>
                        match sub ot (bfe_mul offset omega) with
                        | None => None
                        | Some oi =>
                            let j := pint_ilog2 (n / 2) in
                            match idx (pp_odd_zerofiers pre) j, idx (pp_even_zerofiers pre) j with
                            | Some oz, Some ez =>
                                match mult ei oz, mult oi ez with
                                | Some a, Some b => pint_reduce (poly_add o a b) modulus
                                | _, _ => None
                                end
                            | _, _ => None
                            end
                        end
                    end
                end
            end
      end.
  Definition pint_fmci_with_thresholds (dbg : bool) (thrL thrI : Z) (values : list F) (offset : Z) (modulus : list F)
             (pre : pint_preproc) : option (list F) :=
    pint_fmci_go dbg thrL thrI 64 values offset modulus pre.
  Definition pint_fmci_with_zerofiers_and_ntt_friendly_multiple (dbg : bool) :=
    pint_fmci_with_thresholds dbg FAST_MODULAR_COSET_INTERPOLATE_CUTOFF_THRESHOLD_PREFER_LAGRANGE
                              FAST_MODULAR_COSET_INTERPOLATE_CUTOFF_THRESHOLD_PREFER_INTT.
  (* fn fast_modular_coset_interpolate(values, offset, modulus) *)
  Definition pint_fast_modular_coset_interpolate (dbg : bool) (values : list F) (offset : Z) (modulus : list F) : option (list F) :=
    match pint_fmci_preprocess (zlen values) offset modulus with
    | None => None
    | Some pre => pint_fmci_with_zerofiers_and_ntt_friendly_multiple dbg values offset modulus pre
    end.

  (* ---------------------------------------------------------------- coset extrapolation *)
  (* intt, new, scale(FF::from(domain_offset.inverse().value())) *)
  Definition pint_coset_interpolant (offset : Z) (codeword : list F) : option (list F) :=
    match intt codeword, inverse offset with
    | Some c, Some oi => Some (poly_scale o c (pint_lift oi))
    | _, _ => None
    end.
  (* fn naive_coset_extrapolate *)
  Definition pint_naive_coset_extrapolate (offset : Z) (codeword points : list F) : option (list F) :=
    match pint_coset_interpolant offset codeword with
    | None => None
    | Some ip => pint_batch_evaluate ip points
    end.
  (* fn fast_coset_extrapolate *)
  Definition pint_fast_coset_extrapolate (dbg : bool) (offset : Z) (codeword points : list F) : option (list F) :=
    match pint_tree_new_from_domain points with
    | None => None
    | Some t =>
        match pint_fast_modular_coset_interpolate dbg codeword offset (pint_tree_zerofier t) with
        | None => None
        | Some mi => pint_dac_batch_evaluate mi t
        end
    end.
  (* pub fn coset_extrapolate *)
  Definition pint_coset_extrapolate (dbg : bool) (offset : Z) (codeword points : list F) : option (list F) :=
    if zlen points <? FAST_COSET_EXTRAPOLATE_THRESHOLD then pint_fast_coset_extrapolate dbg offset codeword points
    else pint_naive_coset_extrapolate offset codeword points.

  (* (0..codewords.len() / n).flat_map(|i| f(&codewords[i*n..(i+1)*n])) ; None for n = 0 (division by zero) *)
  Definition pint_codeword_chunks (n : Z) (codewords : list F) : option (list (list F)) :=
    if n <=? 0 then None
    else Some (map (fun i => take n (drop (Z.of_nat i * n) codewords)) (seq 0 (Z.to_nat (zlen codewords / n)))).
  Definition pint_flat_map_opt (f : list F -> option (list F)) (cs : list (list F)) : option (list F) :=
    match map_opt f cs with None => None | Some rs => Some (concat rs) end.

  (* fn batch_fast_coset_extrapolate (and its par_ twin: into_par_iter().flat_map = flat_map) *)
  Definition pint_batch_fast_coset_extrapolate (dbg : bool) (offset : Z) (n : Z) (codewords points : list F) : option (list F) :=
    match pint_tree_new_from_domain points with
    | None => None
    | Some t =>
        let modulus := pint_tree_zerofier t in
        match pint_fmci_preprocess n offset modulus with
        | None => None
        | Some pre =>
            match pint_codeword_chunks n codewords with
            | None => None
            | Some cs =>
                pint_flat_map_opt
                  (fun cw => match pint_fmci_with_zerofiers_and_ntt_friendly_multiple dbg cw offset modulus pre with
                             | None => None
                             | Some mi => pint_dac_batch_evaluate mi t
                             end) cs
            end
        end
    end.
  (* fn batch_naive_coset_extrapolate (and its par_ twin) *)
  Definition pint_batch_naive_coset_extrapolate (offset : Z) (n : Z) (codewords points : list F) : option (list F) :=
    match pint_tree_new_from_domain points with
    | None => None
    | Some t =>
        match pint_shift_factor_ntt_with_tail_length (pint_tree_zerofier t) with
        | None => None
        | Some (sc, tl) =>
            match pint_codeword_chunks n codewords with
            | None => None
            | Some cs =>
                pint_flat_map_opt
                  (fun cw => match pint_coset_interpolant offset cw with
                             | None => None
                             | Some ip =>
                                 match pint_reduce_by_ntt_friendly_modulus ip sc tl with
                                 | None => None
                                 | Some r => pint_dac_batch_evaluate r t
                                 end
                             end) cs
            end
        end
    end.
  (* pub fn batch_coset_extrapolate / pub fn par_batch_coset_extrapolate *)
  Definition pint_batch_coset_extrapolate (dbg : bool) (offset : Z) (n : Z) (codewords points : list F) : option (list F) :=
    if zlen points <? FAST_COSET_EXTRAPOLATE_THRESHOLD then pint_batch_fast_coset_extrapolate dbg offset n codewords points
    else pint_batch_naive_coset_extrapolate offset n codewords points.
  Definition pint_par_batch_coset_extrapolate (dbg : bool) (offset : Z) (n : Z) (codewords points : list F) : option (list F) :=
    pint_batch_coset_extrapolate dbg offset n codewords points.

  (* ================================================================ barycentric_evaluate (one field: Ind = Coeff = Eval = F) *)
  Fixpoint pint_scan_bfe (n : nat) (acc g : Z) : list Z :=
    match n with O => [] | S n' => acc :: pint_scan_bfe n' (bfe_mul acc g) g end.
  Definition pint_barycentric_evaluate (codeword : list F) (x : F) : option F :=
    match primitive_root_of_unity (zlen codeword) with
    | None => None
    | Some g =>
        let dom := pint_scan_bfe (length codeword) bfe_one g in
        match pint_batch_inversion (map (fun d => fsub o x (slift act d)) dom) with
        | None => None
        | Some invs =>
            let dods := map2 (fun d inv => smul act inv d) dom invs in
            let denominator := fold_left (fadd o) dods (fzero o) in
            let numerator := fold_left (fadd o) (map2 (fun dsi abscis => fmul o abscis dsi) dods codeword) (fzero o) in
            match finv o denominator with
            | None => None
            | Some di => Some (fmul o numerator di)
            end
        end
    end.

  (* ================================================================ colinearity helpers *)
  Definition pint_are_colinear_3 (p0 p1 p2 : F * F) : bool :=
    if feqb o (fst p0) (fst p1) || feqb o (fst p1) (fst p2) || feqb o (fst p2) (fst p0) then false
    else
      let dy := fsub o (snd p0) (snd p1) in
      let dx := fsub o (fst p0) (fst p1) in
      feqb o (fmul o dx (fsub o (snd p2) (snd p0))) (fmul o dy (fsub o (fst p2) (fst p0))).
  Definition pint_are_colinear (points : list (F * F)) : option bool :=
    if zlen points <? 3 then Some false
    else if negb (pint_all_unique (map fst points)) then Some false
    else match points with
         | (p0x, p0y) :: (p1x, p1y) :: rest =>
             match fdiv o (fsub o p0y p1y) (fsub o p0x p1x) with
             | None => None
             | Some a =>
                 let b := fsub o p0y (fmul o a p0x) in
                 Some (forallb (fun xy => feqb o (fadd o (fmul o a (fst xy)) b) (snd xy)) rest)
             end
         | _ => None
         end.
  Definition pint_get_colinear_y (p0 p1 : F * F) (p2x : F) : option F :=
    if feqb o (fst p0) (fst p1) then None
    else
      let dy := fsub o (snd p0) (snd p1) in
      let dx := fsub o (fst p0) (fst p1) in
      fdiv o (fadd o (fmul o dy (fsub o p2x (fst p0))) (fmul o dx (snd p0))) dx.
End Interp.
