(* model/PolyNttStub.v - PLACEHOLDER for model/Ntt.v (property C06, another engineer).
   A recursive radix-2 decimation-in-time transform with the same interface and the same input/output
   behaviour as math/ntt.rs `ntt` / `intt` (field arithmetic is exact, so any correct evaluation order of the
   DFT gives the same canonical words).  Used only to RUN the C07/C17 oracle until model/Ntt.v (the faithful
   mirror of the in-place butterfly loops) is available; theorems of C07 never unfold it: they take `ntt`/`intt`
   as Section parameters with the C06 statements as hypotheses.  Definitions only. *)
From Coq Require Import ZArith Bool List.
From TF Require Import Word BFieldGen BField XField FieldOps.
Import ListNotations.
Open Scope Z_scope.

Section Stub.
  Context {T F : Type} (so : fops T) (o : fops F) (act : fact T F).

  Fixpoint evens (l : list F) : list F :=
    match l with [] => [] | x :: r => x :: match r with [] => [] | _ :: r' => evens r' end end.
  Definition odds (l : list F) : list F := match l with [] => [] | _ :: r => evens r end.

  (* lo_i = e_i + w^i * o_i ; hi_i = e_i - w^i * o_i *)
  Fixpoint butterflies (w wi : T) (es os : list F) : list F * list F :=
    match es, os with
    | e :: es', od :: os' =>
        let v := smul act od wi in
        let '(lo, hi) := butterflies w (fmul so wi w) es' os' in
        (fadd o e v :: lo, fsub o e v :: hi)
    | _, _ => ([], [])
    end.
  Fixpoint ntt_rec (k : nat) (w : T) (l : list F) : list F :=
    match k with
    | O => l
    | S k' =>
        let w2 := fmul so w w in
        let '(lo, hi) := butterflies w (fone so) (ntt_rec k' w2 (evens l)) (ntt_rec k' w2 (odds l)) in
        lo ++ hi
    end.

  Definition is_pow2 (n : Z) : bool := (0 <? n) && (2 ^ Z.log2 n =? n).
  Definition stub_ntt (l : list F) : option (list F) :=
    let n := Z.of_nat (length l) in
    if n =? 0 then Some [] else
    if negb (is_pow2 n) || (2 ^ 32 <=? n) then None else
    match froot so n with
    | None => None
    | Some w => Some (ntt_rec (Z.to_nat (Z.log2 n)) w l)
    end.
  Definition stub_intt (l : list F) : option (list F) :=
    let n := Z.of_nat (length l) in
    if n =? 0 then Some [] else
    if negb (is_pow2 n) || (2 ^ 32 <=? n) then None else
    match froot so n with
    | None => None
    | Some w =>
        match finv so w with
        | None => None
        | Some wi =>
            let ninv := finv_or_zero so (ffrom_u64 so n) in
            Some (map (fun e => smul act e ninv) (ntt_rec (Z.to_nat (Z.log2 n)) wi l))
        end
    end.
End Stub.
