(* model/Tip5.v - hand-written executable model of the control flow of tip5.rs (Tip5), of the default method
   Sponge::pad_and_absorb_all (util_types/sponge.rs) and of Digest::hash (digest.rs).
   Definitions only, no proofs.  Everything works on Montgomery WORDS (the u64 inside BFieldElement); a state
   is the list of the 16 words of `Tip5.state` ([BFieldElement; STATE_SIZE]: the length is fixed by the Rust
   type, so every theorem about states carries `length st = 16`).
   The straight-line parts are the REGENERATED definitions of gen/BFieldGen.v (bfe_add, bfe_mul, bfe_new,
   bfe_value) and gen/Tip5Gen.v (tables, generated_function as an SSA program, mds_split_lo / mds_split_hi /
   mds_lane = the bodies of the two loops of mds_generated).  What is modelled by hand: the loops over the state,
   the byte splitting of split_and_lookup, round / permutation / trace, the hash wrappers and the sponge. *)
From Coq Require Import ZArith Bool List.
From TF Require Import Word BFieldGen Tip5Ssa Tip5Gen.
Import ListNotations.
Open Scope Z_scope.

Definition nstate : nat := Z.to_nat STATE_SIZE.
Definition nrate : nat := Z.to_nat RATE.
Definition nlookup : nat := Z.to_nat NUM_SPLIT_AND_LOOKUP.
Definition nrounds : nat := Z.to_nat NUM_ROUNDS.
Definition ndigest : nat := Z.to_nat DIGEST_LEN.

(* ---------------------------------------------------------------- S-box layer *)
(* BFieldElement::raw_bytes = u64::to_le_bytes ; from_raw_bytes = u64::from_le_bytes *)
Definition le_bytes (w : Z) : list Z := map (fun i => (w / 256 ^ i) mod 256) [0; 1; 2; 3; 4; 5; 6; 7].
Fixpoint from_le_bytes (l : list Z) : Z :=
  match l with [] => 0 | b :: r => b + 256 * from_le_bytes r end.
(* LOOKUP_TABLE[bytes[i] as usize] : the index is a u8 and the table has 256 entries *)
Definition lookup (b : Z) : Z := nth (Z.to_nat b) LOOKUP_TABLE 0.
Definition split_and_lookup (w : Z) : Z := from_le_bytes (map lookup (le_bytes w)).

(* let sq = x * x; let qu = sq * sq; x *= sq * qu; *)
Definition pow7 (x : Z) : Z :=
  let sq := bfe_mul x x in
  let qu := bfe_mul sq sq in
  bfe_mul x (bfe_mul sq qu).

Definition sbox_layer (st : list Z) : list Z :=
  map split_and_lookup (firstn nlookup st) ++ map pow7 (skipn nlookup st).

(* ---------------------------------------------------------------- linear layer *)
Definition mds_generated (st : list Z) : list Z :=
  let lo := generated_function (map mds_split_lo st) in
  let hi := generated_function (map mds_split_hi st) in
  map (fun lh => mds_lane (fst lh) (snd lh)) (combine lo hi).

(* ---------------------------------------------------------------- rounds *)
(* state[i] += ROUND_CONSTANTS[round_index * STATE_SIZE + i]  (AddAssign: *self = *self + rhs) *)
Definition round_constants (round_index : nat) : list Z :=
  firstn nstate (skipn (round_index * nstate) ROUND_CONSTANTS).
Definition add_constants (st rc : list Z) : list Z :=
  map (fun ac => bfe_add (fst ac) (snd ac)) (combine st rc).
Definition round (round_index : nat) (st : list Z) : list Z :=
  add_constants (mds_generated (sbox_layer st)) (round_constants round_index).

Definition permutation (st : list Z) : list Z :=
  fold_left (fun s i => round i s) (seq 0 nrounds) st.

(* trace: the initial state and the state after each round; self.state ends as the last of them *)
Fixpoint trace_go (rounds : list nat) (st : list Z) : list (list Z) :=
  match rounds with
  | [] => []
  | i :: r => let s := round i st in s :: trace_go r s
  end.
Definition trace (st : list Z) : list (list Z) := st :: trace_go (seq 0 nrounds) st.

(* ---------------------------------------------------------------- Tip5::new and the fixed-length hashes *)
Inductive domain : Type := VariableLength | FixedLength.
Definition tip5_new (d : domain) : list Z :=
  match d with
  | VariableLength => repeat bfe_zero nstate
  | FixedLength => repeat bfe_zero nrate ++ repeat bfe_one (nstate - nrate)
  end.

(* hash_10(input: &[BFieldElement; 10]): state[..10].copy_from_slice(input); permutation; state[..Digest::LEN] *)
Definition hash_10 (input : list Z) : list Z :=
  let st := input ++ skipn 10 (tip5_new FixedLength) in
  firstn ndigest (permutation st).

(* hash_pair(left, right): state[..LEN] = left; state[LEN..2*LEN] = right *)
Definition hash_pair (left right : list Z) : list Z :=
  let st := left ++ right ++ skipn (2 * ndigest) (tip5_new FixedLength) in
  firstn ndigest (permutation st).

(* Digest::hash(self) = Tip5::hash_pair(self, Digest::ALL_ZERO) *)
Definition digest_hash (d : list Z) : list Z := hash_pair d (repeat bfe_zero ndigest).

(* ---------------------------------------------------------------- sponge *)
Definition tip5_init : list Z := tip5_new VariableLength.
(* absorb(input: [BFieldElement; RATE]): overwrite state[..RATE], permutation *)
Definition absorb (st input : list Z) : list Z := permutation (input ++ skipn nrate st).
(* squeeze: produce = state[..RATE]; permutation; produce *)
Definition squeeze (st : list Z) : list Z * list Z := (firstn nrate st, permutation st).

(* outcomes of routines that can panic or (in the model) run out of fuel *)
Inductive outcome (A : Type) : Type := Ok (a : A) | Panic | OutOfFuel.
Arguments Ok {A} a.
Arguments Panic {A}.
Arguments OutOfFuel {A}.

Definition srate : nat := Z.to_nat SPONGE_RATE.   (* util_types::sponge::RATE, the constant the trait method uses *)

(* usize::next_multiple_of *)
Definition next_multiple_of (a b : nat) : nat :=
  if Nat.eqb (a mod b) 0 then a else a + (b - a mod b).

(* input.iter().chain(once(ONE).chain(repeat(ZERO))).take(padded_length) *)
Definition pad (input : list Z) : list Z :=
  let padded_length := next_multiple_of (length input + 1) srate in
  firstn padded_length (input ++ bfe_one :: repeat bfe_zero padded_length).

(* itertools chunks(n): consecutive groups of n, the last one possibly shorter *)
Fixpoint chunks_go (fuel n : nat) (l : list Z) : list (list Z) :=
  match fuel with
  | O => []
  | S f => match l with [] => [] | _ => firstn n l :: chunks_go f n (skipn n l) end
  end.
Definition chunks (n : nat) (l : list Z) : list (list Z) := chunks_go (length l) n l.

Section GenericSponge.
  (* Sponge::pad_and_absorb_all is a default method: generic in the sponge *)
  Variable S : Type.
  Variable sp_absorb : S -> list Z -> S.
  (* chunk.cloned().collect_vec().try_into().unwrap() : panics unless the chunk has exactly RATE elements *)
  Fixpoint absorb_chunks (s : S) (cs : list (list Z)) : option S :=
    match cs with
    | [] => Some s
    | c :: r => if Nat.eqb (length c) srate then absorb_chunks (sp_absorb s c) r else None
    end.
  Definition pad_and_absorb_all (s : S) (input : list Z) : option S :=
    absorb_chunks s (chunks srate (pad input)).
End GenericSponge.

Definition tip5_pad_and_absorb_all : list Z -> list Z -> option (list Z) :=
  pad_and_absorb_all (list Z) absorb.
(* a recording sponge: remembers every absorbed array *)
Definition recording_pad_and_absorb_all : list (list Z) -> list Z -> option (list (list Z)) :=
  pad_and_absorb_all (list (list Z)) (fun s c => s ++ [c]).

(* hash_varlen: init, pad_and_absorb_all, squeeze once, first Digest::LEN elements *)
Definition hash_varlen (input : list Z) : option (list Z) :=
  match tip5_pad_and_absorb_all tip5_init input with
  | None => None
  | Some st => Some (firstn ndigest (fst (squeeze st)))
  end.

(* sample_indices(&mut self, upper_bound: u32, num_indices: usize).
   dbg = debug assertions enabled (the `checked` profile): debug_assert!(upper_bound.is_power_of_two()).
   The while loop runs once per consumed element; `fuel` bounds the number of iterations (termination of the
   rejection loop cannot be proved for the concrete permutation).  `buf` = squeezed_elements in pop order.
   Result: the indices and the final sponge state. *)
Definition is_pow2 (n : Z) : bool := (0 <? n) && (Z.land n (n - 1) =? 0).
Definition max_elem : Z := bfe_new MAX.     (* BFieldElement::new(BFieldElement::MAX) *)
Fixpoint sample_indices_go (fuel : nat) (st buf : list Z) (ub : Z) (remaining : nat) (acc : list Z)
  : outcome (list Z * list Z) :=
  match remaining with
  | O => Ok (rev acc, st)
  | S rem' =>
      match fuel with
      | O => OutOfFuel
      | S f =>
          let '(buf, st) := match buf with [] => squeeze st | _ => (buf, st) end in
          match buf with
          | [] => Panic                                 (* squeezed_elements.pop().unwrap() on an empty vector *)
          | e :: buf' =>
              if e =? max_elem then sample_indices_go f st buf' ub remaining acc
              else if ub =? 0 then Panic                (* `% upper_bound` with upper_bound = 0 *)
              else sample_indices_go f st buf' ub rem' ((ucast 32 (bfe_value e)) mod ub :: acc)
          end
      end
  end.
Definition sample_indices (dbg : bool) (fuel : nat) (st : list Z) (ub : Z) (num : nat)
  : outcome (list Z * list Z) :=
  if dbg && negb (is_pow2 ub) then Panic else sample_indices_go fuel st [] ub num [].

(* sample_scalars(&mut self, num_elements): num_squeezes = (num_elements * 3).div_ceil(RATE) squeezes,
   flattened, chunks(3), take(num_elements), XFieldElement::new([e[0], e[1], e[2]]) *)
Fixpoint squeeze_n (n : nat) (st : list Z) : list Z * list Z :=
  match n with
  | O => ([], st)
  | S n' => let '(p, st1) := squeeze st in let '(r, st2) := squeeze_n n' st1 in (p ++ r, st2)
  end.
Definition div_ceil (a b : nat) : nat := (a + b - 1) / b.
Fixpoint triples (cs : list (list Z)) : option (list (list Z)) :=
  match cs with
  | [] => Some []
  | [a; b; c] :: r => match triples r with Some t => Some ([a; b; c] :: t) | None => None end
  | _ => None                                              (* elem[1] / elem[2] out of bounds *)
  end.
Definition sample_scalars (st : list Z) (num : nat) : outcome (list (list Z) * list Z) :=
  let num_squeezes := div_ceil (num * Z.to_nat EXTENSION_DEGREE) nrate in
  let '(elems, st') := squeeze_n num_squeezes st in
  match triples (firstn num (chunks 3 elems)) with
  | Some t => Ok (t, st')
  | None => Panic
  end.
