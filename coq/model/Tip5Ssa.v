(* model/Tip5Ssa.v - the little straight-line language into which tools/gen/gen_tip5.py translates
   `generated_function` of mds.rs (about 500 lines of wrapping_add / wrapping_sub / wrapping_mul on u64),
   and its two interpreters:
     eval_prog  - the wrapping u64 semantics of the Rust code (what the machine computes),
     lin_prog   - the symbolic semantics: every node as a row of coefficients (mod 2^64) over the inputs.
   Definitions only; the generic theorem relating the two is in proofs/Tip5Proofs.v (ssa_linear).
   Node ids are the numbers of the Rust variables `node_<id>`; nested sub-expressions and `input[k]`
   get fresh ids above every Rust id.  A reference to an undefined node would not compile in Rust; the
   generator refuses such a program and `ssa_wf` re-checks it inside Coq. *)
From Coq Require Import ZArith Bool List FMapPositive.
From TF Require Import Word.
Import ListNotations.
Open Scope Z_scope.

Inductive ssa_op : Type :=
| Inp (k : nat)                   (* input[k] *)
| Add (i j : positive)            (* node_i.wrapping_add(node_j) *)
| Sub (i j : positive)            (* node_i.wrapping_sub(node_j) *)
| MulC (c : Z) (i : positive).    (* node_i.wrapping_mul(c) , c a literal *)

Definition ssa_prog : Type := list (positive * ssa_op).

(* ---------------------------------------------------------------- wrapping evaluation *)
Definition env : Type := PositiveMap.t Z.
Definition get (m : env) (i : positive) : Z :=
  match PositiveMap.find i m with Some v => v | None => 0 end.

Definition eval_op (x : list Z) (m : env) (o : ssa_op) : Z :=
  match o with
  | Inp k => nth k x 0
  | Add i j => wadd 64 (get m i) (get m j)
  | Sub i j => wsub 64 (get m i) (get m j)
  | MulC c i => wmul 64 (get m i) c
  end.

Fixpoint eval_prog (p : ssa_prog) (x : list Z) (m : env) : env :=
  match p with
  | [] => m
  | (id, o) :: r => eval_prog r x (PositiveMap.add id (eval_op x m o) m)
  end.

Definition eval_ssa (p : ssa_prog) (outs : list positive) (x : list Z) : list Z :=
  let m := eval_prog p x (PositiveMap.empty Z) in map (get m) outs.

(* ---------------------------------------------------------------- coefficient rows mod 2^64 *)
Definition M64 : Z := 18446744073709551616.

Fixpoint radd (a b : list Z) : list Z :=
  match a, b with
  | [], r => r
  | r, [] => r
  | u :: a', v :: b' => ((u + v) mod M64) :: radd a' b'
  end.
Definition rscale (c : Z) (a : list Z) : list Z := map (fun u => (c * u) mod M64) a.
Definition rsub (a b : list Z) : list Z := radd a (rscale (-1) b).
Definition runit (k : nat) : list Z := repeat 0 k ++ [1].

Fixpoint dot (r x : list Z) : Z :=
  match r, x with
  | a :: r', b :: x' => a * b + dot r' x'
  | _, _ => 0
  end.

Definition lenv : Type := PositiveMap.t (list Z).
Definition getrow (m : lenv) (i : positive) : list Z :=
  match PositiveMap.find i m with Some v => v | None => [] end.

Definition lin_op (m : lenv) (o : ssa_op) : list Z :=
  match o with
  | Inp k => runit k
  | Add i j => radd (getrow m i) (getrow m j)
  | Sub i j => rsub (getrow m i) (getrow m j)
  | MulC c i => rscale c (getrow m i)
  end.

Fixpoint lin_prog (p : ssa_prog) (m : lenv) : lenv :=
  match p with
  | [] => m
  | (id, o) :: r => lin_prog r (PositiveMap.add id (lin_op m o) m)
  end.

(* the coefficient matrix of the program: one row per output *)
Definition ssa_matrix (p : ssa_prog) (outs : list positive) : list (list Z) :=
  let m := lin_prog p (PositiveMap.empty (list Z)) in map (getrow m) outs.

(* ---------------------------------------------------------------- well-formedness (what rustc enforces) *)
Definition op_refs (o : ssa_op) : list positive :=
  match o with Inp _ => [] | Add i j => [i; j] | Sub i j => [i; j] | MulC _ i => [i] end.
Definition op_ok (n : nat) (o : ssa_op) : bool :=
  match o with Inp k => Nat.ltb k n | MulC c _ => (0 <=? c) && (c <? M64) | _ => true end.

Fixpoint ssa_wf_go (n : nat) (p : ssa_prog) (defined : PositiveMap.t unit) : option (PositiveMap.t unit) :=
  match p with
  | [] => Some defined
  | (id, o) :: r =>
      if forallb (fun i => PositiveMap.mem i defined) (op_refs o) && negb (PositiveMap.mem id defined) && op_ok n o
      then ssa_wf_go n r (PositiveMap.add id tt defined) else None
  end.
Definition ssa_wf (n : nat) (p : ssa_prog) (outs : list positive) : bool :=
  match ssa_wf_go n p (PositiveMap.empty unit) with
  | Some d => forallb (fun i => PositiveMap.mem i d) outs
  | None => false
  end.
