(* U32s.v - hand-written executable model of twenty-first/src/amount/u32s.rs (non-test part).  Definitions only.

   A `U32s<N>` is modelled by the list of its `N` limbs `values[0], ..., values[N-1]` (little endian), each an
   integer in [0, 2^32).  Functions that take `N` as a const generic take it as a `nat`; functions of `self` read it
   off the list length.  Rust panics (`assert!`, index out of bounds, `unwrap`) are `None`; `Result::Err` of the
   `TryFrom` / `BFieldCodec` impls is `Rej`, kept apart from `Pan` in the three-valued `u32s_res`.

   Integer widths: every u32/u64 operation the code performs with `overflowing_*` is written with the explicit
   wrap-around of coq/lib/Word.v.  The few *unchecked* operators in the file (`new_cell += 1 << 31` in div_two,
   `a as u64 * b as u64` in mul, the index sums `i + j + k`, `32 * N`, `N * 32`) cannot overflow their type for
   limbs in range and N < 2^58; they are written as plain Z operations and the proofs show the results stay in range
   (u32s_div_two_wf, u32s_mul_hi_lo_range), so the `release` and `checked` builds behave identically - which the
   correspondence run checks on both profiles.

   A BFieldElement is modelled, as in model/BField.v, by its Montgomery word (bfe_new / bfe_value of the
   regenerated gen/BFieldGen.v).  num_bigint::BigUint is modelled by a non-negative Z.

   The width guards of TryFrom<u64> / TryFrom<u128> are NOT modelled here: they are translated from the source on
   every run into gen/U32sGen.v (tryfrom_u64_rejects, tryfrom_u128_rejects). *)
From Coq Require Import ZArith Bool List.
From TF Require Import Word BFieldGen U32sGen.
Import ListNotations.
Open Scope Z_scope.
Open Scope bool_scope.

Inductive u32s_res (A : Type) : Type :=
| Done (a : A)      (* Ok(a) *)
| Rej               (* Err(_) *)
| Pan.              (* panic *)
Arguments Done {A} a.
Arguments Rej {A}.
Arguments Pan {A}.

Definition ovf_mul (w a b : Z) : Z * bool := (wrap w (a * b), 2 ^ w <=? a * b).
Definition U32_MAX : Z := 4294967295.

(* arrays: values[k] and values[k] = v *)
Definition u32s_get (l : list Z) (k : nat) : option Z := nth_error l k.
Fixpoint u32s_upd (l : list Z) (k : nat) (v : Z) : option (list Z) :=
  match l, k with
  | [], _ => None                                          (* index out of bounds *)
  | _ :: t, O => Some (v :: t)
  | x :: t, S k' => option_map (cons x) (u32s_upd t k' v)
  end.

(* ---------------------------------------------------------------- Zero / One / From<u32> *)
Definition u32s_zero (N : nat) : list Z := repeat 0 N.                          (* Self::new([0; N]) *)
Definition u32s_is_zero (l : list Z) : bool := forallb (fun x => x =? 0) l.      (* iter().all(|x| *x == 0) *)
Definition u32s_one (N : nat) : option (list Z) := u32s_upd (repeat 0 N) 0 1.     (* ret_array[0] = 1 *)
Fixpoint u32s_eqb (a b : list Z) : bool :=                                      (* derived PartialEq on [u32; N] *)
  match a, b with
  | [], [] => true
  | x :: a', y :: b' => (x =? y) && u32s_eqb a' b'
  | _, _ => false
  end.
Definition u32s_is_one (l : list Z) : option bool :=                             (* *self == Self::one() *)
  option_map (u32s_eqb l) (u32s_one (length l)).
Definition u32s_from_u32 (N : nat) (n : Z) : option (list Z) := u32s_upd (u32s_zero N) 0 n.   (* ret.values[0] = n *)

(* ---------------------------------------------------------------- set_bit / get_bit (private helpers of rem_div) *)
Definition u32s_set_bit (l : list Z) (bit_index : Z) (val : bool) : option (list Z) :=
  if bit_index <? 32 * Z.of_nat (length l) then                                  (* assert!(bit_index < 32 * N) *)
    let k := Z.to_nat (bit_index / 32) in
    let e := bit_index mod 32 in
    match u32s_get l k with
    | None => None
    | Some x => u32s_upd l k (Z.lor (Z.land x (wnot 32 (wshl 32 1 e))) (wshl 32 (b2z val) e))
    end
  else None.

Definition u32s_get_bit (l : list Z) (bit_index : Z) : option bool :=
  if bit_index <? 32 * Z.of_nat (length l) then
    let k := Z.to_nat (bit_index / 32) in
    let e := bit_index mod 32 in
    match u32s_get l k with
    | None => None
    | Some x => Some (negb (Z.land x (wshl 32 1 e) =? 0))
    end
  else None.

(* ---------------------------------------------------------------- div_two: for i in (0..N).rev() *)
(* fold_right visits values[N-1] first; the accumulator carries (cells already written, carry) *)
Definition u32s_div_two_step (x : Z) (st : list Z * bool) : list Z * bool :=
  let '(acc, carry) := st in
  let new_carry := Z.land x 1 =? 1 in
  let new_cell := wshr x 1 in
  let new_cell := if carry then new_cell + wshl 32 1 31 else new_cell in
  (new_cell :: acc, new_carry).
Definition u32s_div_two (l : list Z) : list Z := fst (fold_right u32s_div_two_step ([], false) l).

(* ---------------------------------------------------------------- mul_two: for i in 0..N, then assert!(!carry) *)
Fixpoint u32s_mul_two_loop (carry : bool) (l : list Z) : list Z * bool :=
  match l with
  | [] => ([], carry)
  | x :: t =>
      let '(temp, carry_mul) := ovf_mul 32 x 2 in
      let '(v, c) := ovf_add 32 temp (b2z carry) in
      let carry' := c || carry_mul in
      let '(t', cf) := u32s_mul_two_loop carry' t in
      (v :: t', cf)
  end.
Definition u32s_mul_two (l : list Z) : option (list Z) :=
  let '(r, carry) := u32s_mul_two_loop false l in if carry then None else Some r.

(* ---------------------------------------------------------------- Ord: self.values.iter().rev().cmp(other.values.iter().rev()) *)
Fixpoint lex_cmp (a b : list Z) : comparison :=        (* Iterator::cmp *)
  match a, b with
  | [], [] => Eq
  | [], _ :: _ => Lt
  | _ :: _, [] => Gt
  | x :: a', y :: b' => match x ?= y with Eq => lex_cmp a' b' | c => c end
  end.
Definition u32s_cmp (a b : list Z) : comparison := lex_cmp (rev a) (rev b).
Definition u32s_ge (a b : list Z) : bool := match u32s_cmp a b with Lt => false | _ => true end.

(* ---------------------------------------------------------------- Sub / Add *)
Fixpoint u32s_sub_loop (carry_old : bool) (a b : list Z) : list Z * bool :=
  match a, b with
  | x :: a', y :: b' =>
      let '(int, carry_new) := ovf_sub 32 x y in
      let '(r, c) := ovf_sub 32 int (b2z carry_old) in
      let carry := carry_new || c in
      let '(t, cf) := u32s_sub_loop carry a' b' in
      (r :: t, cf)
  | _, _ => ([], carry_old)
  end.
Definition u32s_sub (a b : list Z) : option (list Z) :=
  let '(r, carry) := u32s_sub_loop false a b in if carry then None else Some r.    (* assert!(!carry_old) *)

Fixpoint u32s_add_loop (carry_old : bool) (a b : list Z) : list Z * bool :=
  match a, b with
  | x :: a', y :: b' =>
      let '(int, carry_new) := ovf_add 32 x y in
      let '(r, c) := ovf_add 32 int (b2z carry_old) in
      let carry := carry_new || c in
      let '(t, cf) := u32s_add_loop carry a' b' in
      (r :: t, cf)
  | _, _ => ([], carry_old)
  end.
Definition u32s_add (a b : list Z) : option (list Z) :=
  let '(r, carry) := u32s_add_loop false a b in if carry then None else Some r.    (* assert!(!carry_old) *)

Definition u32s_sum (N : nat) (l : list (list Z)) : option (list Z) :=              (* iter.fold(zero, |a, b| a + b) *)
  fold_left (fun acc b => match acc with None => None | Some a => u32s_add a b end) l (Some (u32s_zero N)).

(* ---------------------------------------------------------------- rem_div *)
(* one iteration of `for i in (0..N * 32).rev()` with loop variable i *)
Definition u32s_rem_div_step (a d : list Z) (i : Z) (q r : list Z) : option (list Z * list Z) :=
  match u32s_mul_two r with                                   (* remainder.mul_two() *)
  | None => None
  | Some r1 =>
    match u32s_get_bit a i with                               (* self.get_bit(i) *)
    | None => None
    | Some bit =>
      match u32s_set_bit r1 0 bit with                        (* remainder.set_bit(0, ..) *)
      | None => None
      | Some r2 =>
        if u32s_ge r2 d then                                  (* remainder >= *divisor *)
          match u32s_sub r2 d with                            (* remainder - *divisor *)
          | None => None
          | Some r3 =>
            match u32s_set_bit q i true with                  (* quotient.set_bit(i, true) *)
            | None => None
            | Some q1 => Some (q1, r3)
            end
          end
        else Some (q, r2)
      end
    end
  end.
(* n = number of iterations still to run; they use i = n-1, n-2, ..., 0 *)
Fixpoint u32s_rem_div_loop (a d : list Z) (n : nat) (q r : list Z) : option (list Z * list Z) :=
  match n with
  | O => Some (q, r)
  | S i =>
    match u32s_rem_div_step a d (Z.of_nat i) q r with
    | None => None
    | Some (q', r') => u32s_rem_div_loop a d i q' r'
    end
  end.
Definition u32s_rem_div (a d : list Z) : option (list Z * list Z) :=
  if u32s_is_zero d then None                                 (* assert!(!divisor.is_zero()) *)
  else let N := length a in u32s_rem_div_loop a d (N * 32) (u32s_zero N) (u32s_zero N).
Definition u32s_div (a d : list Z) : option (list Z) := option_map fst (u32s_rem_div a d).
Definition u32s_rem (a d : list Z) : option (list Z) := option_map snd (u32s_rem_div a d).

(* ---------------------------------------------------------------- Mul *)
(* `while add_carry { assert!(idx < N); (res[idx], add_carry) = res[idx].overflowing_add(add_carry as u32); idx += 1 }`
   started with add_carry = true at the first element of the suffix `l = res[idx..]`: running off the end of the
   array is the failing assert. *)
Fixpoint u32s_ripple (l : list Z) : option (list Z) :=
  match l with
  | [] => None
  | x :: t =>
      let '(s, c) := ovf_add 32 x (b2z true) in
      if c then option_map (cons s) (u32s_ripple t) else Some (s :: t)
  end.
(* `(res[pos], add_carry) = res[pos].overflowing_add(x); k = ..; while add_carry {..}`; res[pos] with pos >= N is
   an index panic (the code asserts pos < N just before in the `hi` case and i + j < N in the `lo` case) *)
Definition u32s_add_at (res : list Z) (pos : nat) (x : Z) : option (list Z) :=
  match skipn pos res with
  | [] => None
  | y :: t =>
      let '(s, c) := ovf_add 32 y x in
      if c then option_map (fun t' => firstn pos res ++ s :: t') (u32s_ripple t)
      else Some (firstn pos res ++ s :: t)
  end.
(* body of the inner loop for indices i, j and limbs ai = self.values[i], bj = other.values[j] *)
Definition u32s_mul_cell (N : nat) (ai bj : Z) (i j : nat) (res : list Z) : option (list Z) :=
  let hi_lo := ai * bj in                                     (* as u64 * as u64: < 2^64 *)
  let hi := ucast 32 (wshr hi_lo 32) in
  let lo := ucast 32 hi_lo in
  if negb ((i + j <? N)%nat || ((hi =? 0) && (lo =? 0))) then None        (* assert! *)
  else if (hi =? 0) && (lo =? 0) then Some res                              (* continue *)
  else
    match u32s_add_at res (i + j) lo with
    | None => None
    | Some res1 =>
      if hi =? 0 then Some res1                                             (* continue *)
      else if negb (i + j + 1 <? N)%nat then None                          (* assert!(i + j + 1 < N) *)
      else u32s_add_at res1 (i + j + 1) hi
    end.
Fixpoint u32s_mul_inner (N : nat) (ai : Z) (i : nat) (bs : list Z) (j : nat) (res : list Z) : option (list Z) :=
  match bs with
  | [] => Some res
  | bj :: bs' =>
    match u32s_mul_cell N ai bj i j res with
    | None => None
    | Some res' => u32s_mul_inner N ai i bs' (S j) res'
    end
  end.
Fixpoint u32s_mul_outer (N : nat) (as_ : list Z) (i : nat) (b : list Z) (res : list Z) : option (list Z) :=
  match as_ with
  | [] => Some res
  | ai :: as' =>
    match u32s_mul_inner N ai i b 0 res with
    | None => None
    | Some res' => u32s_mul_outer N as' (S i) b res'
    end
  end.
Definition u32s_mul (a b : list Z) : option (list Z) :=
  let N := length a in u32s_mul_outer N a 0 b (u32s_zero N).

(* ---------------------------------------------------------------- BigUint conversions *)
(* for i in (0..N).rev() { acc <<= 32; acc += values[i] } *)
Definition u32s_to_big (l : list Z) : Z := fold_right (fun x acc => Z.shiftl acc 32 + x) 0 l.
(* for i in 0..N { values[i] = (remaining % 2^32).try_into().unwrap(); remaining /= 2^32 } *)
Fixpoint u32s_from_big (N : nat) (remaining : Z) : option (list Z) :=
  match N with
  | O => Some []
  | S n =>
    let r := remaining mod 2 ^ 32 in
    if r <=? U32_MAX then option_map (cons r) (u32s_from_big n (remaining / 2 ^ 32))
    else None                                                 (* try_into::<u32>().unwrap() *)
  end.

(* ---------------------------------------------------------------- TryFrom<u64>, TryFrom<u128> (guards: gen/U32sGen.v) *)
Definition u32s_of_option {A} (o : option A) : u32s_res A := match o with Some a => Done a | None => Pan end.
Definition u32s_try_from_u64 (N : nat) (v : Z) : u32s_res (list Z) :=
  if tryfrom_u64_rejects (Z.of_nat N) v then Rej else u32s_of_option (u32s_from_big N v).
Definition u32s_try_from_u128 (N : nat) (v : Z) : u32s_res (list Z) :=
  if tryfrom_u128_rejects (Z.of_nat N) v then Rej else u32s_of_option (u32s_from_big N v).

(* ---------------------------------------------------------------- [BFieldElement; N] and BFieldCodec *)
Definition bfe_from_u32 (v : Z) : Z := bfe_new v.                                  (* Self::new(u64::from(value)) *)
Definition u32s_to_bfes (l : list Z) : list Z := map bfe_from_u32 l.             (* zip(ret.iter_mut()) *)
Definition u32s_encode (l : list Z) : list Z := flat_map (fun v => [bfe_from_u32 v]) l.
Definition u32s_static_length (N : nat) : option nat := Some N.

(* <u32 as BFieldCodec>::decode *)
Definition u32_decode (s : list Z) : u32s_res Z :=
  match s with
  | [] => Rej                                                 (* EmptySequence *)
  | [first] => let v := bfe_value first in if v <=? U32_MAX then Done v else Rej     (* u32::try_from(u64) *)
  | _ => Rej                                                  (* SequenceTooLong *)
  end.
(* &sequence[i..i + 1] *)
Definition u32s_slice1 (s : list Z) (i : nat) : option (list Z) :=
  if (i + 1 <=? length s)%nat then Some (firstn 1 (skipn i s)) else None.
(* for i in 0..N { array[i] = *u32::decode(&sequence[i..i + 1])?; } with n iterations to go, i = N - n *)
Fixpoint u32s_decode_loop (s : list Z) (i n : nat) : u32s_res (list Z) :=
  match n with
  | O => Done []
  | S n' =>
    match u32s_slice1 s i with
    | None => Pan
    | Some sl =>
      match u32_decode sl with
      | Done v => match u32s_decode_loop s (S i) n' with Done t => Done (v :: t) | Rej => Rej | Pan => Pan end
      | Rej => Rej
      | Pan => Pan
      end
    end
  end.
Definition u32s_decode (N : nat) (s : list Z) : u32s_res (list Z) :=
  if (0 <? N)%nat && (match s with [] => true | _ => false end) then Rej        (* EmptySequence *)
  else if (length s <? N)%nat then Rej                                           (* SequenceTooShort *)
  else if (N <? length s)%nat then Rej                                           (* SequenceTooLong *)
  else u32s_decode_loop s 0 N.
