(* model/XField.v - executable model of x_field_element.rs on triples of Montgomery words
   (c0, c1, c2) denoting c0 + c1 x + c2 x^2 modulo x^3 - x + 1.  Definitions only. *)
From Coq Require Import ZArith Bool List.
From TF Require Import Word BFieldGen BField.
Import ListNotations.
Open Scope Z_scope.

Definition xfe : Type := (Z * Z * Z)%type.
Definition xzero : xfe := (bfe_zero, bfe_zero, bfe_zero).
Definition xone : xfe := (bfe_one, bfe_zero, bfe_zero).
Definition xlift (b : Z) : xfe := (b, bfe_zero, bfe_zero).
Definition xeqb (x y : xfe) : bool :=
  let '(x0, x1, x2) := x in let '(y0, y1, y2) := y in (x0 =? y0) && (x1 =? y1) && (x2 =? y2).
Definition xunlift (x : xfe) : option Z :=
  let '(x0, x1, x2) := x in if (x1 =? bfe_zero) && (x2 =? bfe_zero) then Some x0 else None.

Definition xadd (x y : xfe) : xfe :=
  let '(s0, s1, s2) := x in let '(o0, o1, o2) := y in (bfe_add s0 o0, bfe_add s1 o1, bfe_add s2 o2).
Definition xneg (x : xfe) : xfe :=
  let '(s0, s1, s2) := x in (bfe_neg s0, bfe_neg s1, bfe_neg s2).
Definition xsub (x y : xfe) : xfe := xadd x (xneg y).
(* Mul<XFieldElement> for XFieldElement: let [c, b, a] = self; let [f, e, d] = other *)
Definition xmul (x y : xfe) : xfe :=
  let '(c, b, a) := x in let '(f, e, d) := y in
  let r0 := bfe_sub (bfe_sub (bfe_mul c f) (bfe_mul a e)) (bfe_mul b d) in
  let r1 := bfe_add (bfe_add (bfe_sub (bfe_add (bfe_mul b f) (bfe_mul c e)) (bfe_mul a d)) (bfe_mul a e)) (bfe_mul b d) in
  let r2 := bfe_add (bfe_add (bfe_add (bfe_mul a f) (bfe_mul b e)) (bfe_mul c d)) (bfe_mul a d) in
  (r0, r1, r2).
Definition xscale (x : xfe) (k : Z) : xfe :=
  let '(s0, s1, s2) := x in (bfe_mul s0 k, bfe_mul s1 k, bfe_mul s2 k).
Definition xaddb (x : xfe) (k : Z) : xfe := let '(s0, s1, s2) := x in (bfe_add s0 k, s1, s2).
Definition baddx (k : Z) (x : xfe) : xfe := xaddb x k.
Definition xsubb (x : xfe) (k : Z) : xfe := xaddb x (bfe_neg k).
Definition bsubx (k : Z) (x : xfe) : xfe := baddx k (xneg x).

(* ModPowU64: right-to-left square and multiply; fuel = 64 bits *)
Fixpoint xpow_go (fuel : nat) (x result : xfe) (i : Z) : xfe :=
  match fuel with
  | O => result
  | S f =>
      if i >? 0 then
        let result := if Z.land i 1 =? 1 then xmul result x else result in
        xpow_go f (xmul x x) result (Z.shiftr i 1)
      else result
  end.
Definition xpow (x : xfe) (e : Z) : xfe := xpow_go 64 x xone e.

(* Inverse.  The code runs the polynomial extended Euclid (Polynomial::xgcd) against x^3 - x + 1; the
   model uses the closed form: first column of the inverse of the multiplication-by-x matrix
   [[c,-a,-b],[b,c+a,b-a],[a,b,c+a]].  Both compute THE inverse in the field (see XFieldProofs). *)
Definition xinverse (x : xfe) : option xfe :=
  if xeqb x xzero then None else
  let '(c, b, a) := x in
  let ca := bfe_add c a in
  let k00 := bfe_sub (bfe_mul ca ca) (bfe_mul (bfe_sub b a) b) in
  let k01 := bfe_neg (bfe_sub (bfe_mul b ca) (bfe_mul (bfe_sub b a) a)) in
  let k02 := bfe_sub (bfe_mul b b) (bfe_mul ca a) in
  let det := bfe_sub (bfe_sub (bfe_mul c k00) (bfe_mul a k01)) (bfe_mul b k02) in
  match inverse det with
  | None => None
  | Some di => Some (bfe_mul k00 di, bfe_mul k01 di, bfe_mul k02 di)
  end.
Definition xinverse_or_zero (x : xfe) : xfe :=
  if xeqb x xzero then xzero else match xinverse x with Some y => y | None => xzero end.
Definition xdiv (x y : xfe) : option xfe :=
  match xinverse y with None => None | Some yi => Some (xmul x yi) end.
Definition xbatch_inversion : list xfe -> option (list xfe) :=
  batch_inversion xfe xone xmul (fun x => xeqb x xzero) xinverse.

(* ---- further public API *)
Definition xsum (l : list xfe) : xfe := match l with [] => xzero | x :: r => fold_left xadd r x end.
Definition xnew_const (b : Z) : xfe := xlift b.
(* TryFrom<&[BFieldElement]>: exactly three elements *)
Definition xtry_from_slice (l : list Z) : option xfe :=
  match l with [a; b; c] => Some (a, b, c) | _ => None end.
(* increment / decrement of one coefficient; an index >= 3 panics *)
Definition xincrement (x : xfe) (i : Z) : option xfe :=
  let '(a, b, c) := x in
  if i =? 0 then Some (bfe_add a bfe_one, b, c) else if i =? 1 then Some (a, bfe_add b bfe_one, c)
  else if i =? 2 then Some (a, b, bfe_add c bfe_one) else None.
Definition xdecrement (x : xfe) (i : Z) : option xfe :=
  let '(a, b, c) := x in
  if i =? 0 then Some (bfe_sub a bfe_one, b, c) else if i =? 1 then Some (a, bfe_sub b bfe_one, c)
  else if i =? 2 then Some (a, b, bfe_sub c bfe_one) else None.
Definition xroot (n : Z) : option xfe :=
  match primitive_root_of_unity n with Some r => Some (xlift r) | None => None end.
