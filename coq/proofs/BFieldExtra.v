(* BFieldExtra.v - theorems about the rest of the public base-field API (model/BField.v): Sum, power_accumulator,
   the raw byte / u16 views, the table of primitive roots of unity (REGENERATED from the source, gen/BFieldGen.v),
   the checked narrowing conversions and get_cyclic_group_elements. *)
From Coq Require Import ZArith Bool Lia List Znumtheory Zpow_facts.
From TF Require Lucas.
From TF Require Import Word BFieldGen BFieldProofs BField BFieldLoops.
Import ListNotations.
Open Scope Z_scope.
Ltac Zify.zify_post_hook ::= Z.div_mod_to_equations.

(* ---------------------------------------------------------------- Sum *)
Fixpoint zsum (l : list Z) : Z := match l with [] => 0 | x :: r => x + zsum r end.

Lemma fold_add_spec r : forall x, canon x -> Forall canon r ->
  canon (fold_left bfe_add r x) /\ val (fold_left bfe_add r x) = (val x + zsum (map val r)) mod P.
Proof.
  induction r as [|y r IH]; intros x Cx Cr.
  - cbn [fold_left map zsum]. split; [exact Cx|]. rewrite Z.add_0_r. symmetry. apply Z.mod_small, val_range.
  - cbn [fold_left map zsum].
    assert (Cy : canon y) by (apply (Forall_inv Cr)).
    assert (Cr' : Forall canon r) by (apply (Forall_inv_tail Cr)).
    destruct (add_spec x y Cx Cy) as [Ca Va].
    destruct (IH (bfe_add x y) Ca Cr') as [C V]. split; [exact C|].
    rewrite V, Va. rewrite Z.add_mod_idemp_l by (unfold P; lia). f_equal. ring.
Qed.

Theorem sum_spec l : Forall canon l ->
  canon (bfe_sum l) /\ val (bfe_sum l) = zsum (map val l) mod P.
Proof.
  intros Cl. destruct l as [|x r].
  - cbn [bfe_sum map zsum]. rewrite zero_is_zero. split; [unfold canon, P; lia|reflexivity].
  - cbn [bfe_sum map zsum]. apply fold_add_spec; [apply (Forall_inv Cl)|apply (Forall_inv_tail Cl)].
Qed.

(* ---------------------------------------------------------------- power_accumulator *)
Lemma nth_map_dflt {A B} (f : A -> B) l d d' i : (i < length l)%nat -> nth i (map f l) d' = f (nth i l d).
Proof. intros H. rewrite (nth_indep _ d' (f d)) by (rewrite map_length; exact H). apply map_nth. Qed.

Theorem power_accumulator_spec m base tail : Forall canon base -> Forall canon tail -> length base = length tail ->
  length (power_accumulator m base tail) = length base /\
  forall i, (i < length base)%nat ->
    canon (nth i (power_accumulator m base tail) 0) /\
    val (nth i (power_accumulator m base tail) 0) = (val (nth i base 0) ^ (2 ^ Z.of_nat m) * val (nth i tail 0)) mod P.
Proof.
  intros Cb Ct HL. unfold power_accumulator. split.
  - rewrite map_length, combine_length. lia.
  - intros i Hi.
    rewrite (nth_map_dflt _ _ (0, 0)) by (rewrite combine_length; lia).
    rewrite combine_nth by exact HL. cbn [fst snd].
    assert (Cbi : canon (nth i base 0)) by (apply Forall_nth; [exact Cb|lia]).
    assert (Cti : canon (nth i tail 0)) by (apply Forall_nth; [exact Ct|lia]).
    assert (Hs : ispow (val (nth i base 0)) (sqn m (nth i base 0)) (1 * 2 ^ Z.of_nat m))
      by (apply ispow_sqn; [lia|apply ispow_self; exact Cbi]).
    destruct Hs as [Cs Vs]. destruct (mul_spec _ _ Cs Cti) as [C V]. split; [exact C|].
    rewrite V, Vs. rewrite Z.mul_1_l. rewrite Z.mul_mod_idemp_l by (unfold P; lia). reflexivity.
Qed.

(* ---------------------------------------------------------------- raw views *)
Lemma le_chunks_length w n : forall x, length (le_chunks w n x) = n.
Proof. induction n as [|n IH]; intros x; cbn [le_chunks length]; [reflexivity|rewrite IH; reflexivity]. Qed.

Lemma le_chunks_range w n : 0 < w -> forall x, Forall (fun c => 0 <= c < 2 ^ w) (le_chunks w n x).
Proof.
  intros Hw. induction n as [|n IH]; intros x; cbn [le_chunks]; constructor.
  - apply Z.mod_pos_bound. apply Z.pow_pos_nonneg; lia.
  - apply IH.
Qed.

Lemma from_le_chunks_le_chunks w n : 0 < w -> forall x, 0 <= x ->
  from_le_chunks w (le_chunks w n x) = x mod 2 ^ (w * Z.of_nat n).
Proof.
  intros Hw. induction n as [|n IH]; intros x Hx.
  - cbn [le_chunks from_le_chunks]. rewrite Z.mul_0_r. change (2 ^ 0) with 1. rewrite Z.mod_1_r. reflexivity.
  - cbn [le_chunks from_le_chunks].
    assert (Hp : 0 < 2 ^ w) by (apply Z.pow_pos_nonneg; lia).
    rewrite IH by (apply Z.div_pos; lia).
    replace (w * Z.of_nat (S n)) with (w + w * Z.of_nat n) by lia.
    rewrite Z.pow_add_r by lia.
    assert (Hq : 0 < 2 ^ (w * Z.of_nat n)) by (apply Z.pow_pos_nonneg; lia).
    rewrite (Z.rem_mul_r x (2 ^ w) (2 ^ (w * Z.of_nat n))) by lia. reflexivity.
Qed.

(* the injectivity half: a word is determined by its chunks *)
Lemma le_chunks_from_le_chunks w : 0 < w -> forall l, Forall (fun c => 0 <= c < 2 ^ w) l ->
  le_chunks w (length l) (from_le_chunks w l) = l /\ 0 <= from_le_chunks w l < 2 ^ (w * Z.of_nat (length l)).
Proof.
  intros Hw. induction l as [|c r IH]; intros Hl.
  - cbn. split; [reflexivity|lia].
  - assert (Hc : 0 <= c < 2 ^ w) by (apply (Forall_inv Hl)).
    destruct (IH (Forall_inv_tail Hl)) as [E B].
    assert (Hp : 0 < 2 ^ w) by (apply Z.pow_pos_nonneg; lia).
    cbn [length le_chunks from_le_chunks]. split.
    + f_equal.
      * rewrite (Z.mul_comm (2 ^ w)), Z.mod_add by lia. apply Z.mod_small; exact Hc.
      * rewrite (Z.mul_comm (2 ^ w)), Z.div_add by lia. rewrite (Z.div_small c) by exact Hc.
        rewrite Z.add_0_l. exact E.
    + replace (w * Z.of_nat (S (length r))) with (w + w * Z.of_nat (length r)) by lia.
      rewrite Z.pow_add_r by lia. nia.
Qed.

Theorem raw_bytes_spec a : 0 <= a < 2 ^ 64 ->
  length (raw_bytes a) = 8%nat /\ Forall (fun c => 0 <= c < 256) (raw_bytes a) /\ from_le_chunks 8 (raw_bytes a) = a.
Proof.
  intros Ha. unfold raw_bytes. split; [apply le_chunks_length|]. split.
  - apply (le_chunks_range 8 8); lia.
  - rewrite from_le_chunks_le_chunks by lia. apply Z.mod_small. exact Ha.
Qed.

Theorem raw_u16s_spec a : 0 <= a < 2 ^ 64 ->
  length (raw_u16s a) = 4%nat /\ Forall (fun c => 0 <= c < 65536) (raw_u16s a) /\ from_le_chunks 16 (raw_u16s a) = a.
Proof.
  intros Ha. unfold raw_u16s. split; [apply le_chunks_length|]. split.
  - apply (le_chunks_range 16 4); lia.
  - rewrite from_le_chunks_le_chunks by lia. apply Z.mod_small. exact Ha.
Qed.

Theorem from_raw_bytes_spec l : length l = 8%nat -> Forall (fun c => 0 <= c < 256) l ->
  0 <= from_le_chunks 8 l < 2 ^ 64 /\ raw_bytes (from_le_chunks 8 l) = l.
Proof.
  intros HL Hl. destruct (le_chunks_from_le_chunks 8 ltac:(lia) l Hl) as [E B]. rewrite HL in *.
  split; [exact B|exact E].
Qed.

Theorem from_raw_u16s_spec l : length l = 4%nat -> Forall (fun c => 0 <= c < 65536) l ->
  0 <= from_le_chunks 16 l < 2 ^ 64 /\ raw_u16s (from_le_chunks 16 l) = l.
Proof.
  intros HL Hl. destruct (le_chunks_from_le_chunks 16 ltac:(lia) l Hl) as [E B]. rewrite HL in *.
  split; [exact B|exact E].
Qed.

Theorem is_canonical_spec x : is_canonical x = true <-> x < P.
Proof. unfold is_canonical. apply Z.ltb_lt. Qed.

(* ---------------------------------------------------------------- checked narrowing conversions *)
Theorem try_into_unsigned_spec w a : canon a ->
  (val a < 2 ^ w -> try_into_unsigned w a = Some (val a)) /\
  (2 ^ w <= val a -> try_into_unsigned w a = None).
Proof.
  intros Ca. unfold try_into_unsigned.
  destruct (value_spec a) as [E _]; [unfold canon, P in Ca; lia|]. rewrite E.
  split; intros H.
  - apply Z.ltb_lt in H. rewrite H. reflexivity.
  - apply Z.ltb_ge in H. rewrite H. reflexivity.
Qed.

Theorem try_into_signed_spec w a : canon a ->
  (val a < 2 ^ (w - 1) -> try_into_signed w a = Some (val a)) /\
  (2 ^ (w - 1) <= val a -> try_into_signed w a = None).
Proof.
  intros Ca. unfold try_into_signed.
  destruct (value_spec a) as [E _]; [unfold canon, P in Ca; lia|]. rewrite E.
  split; intros H.
  - apply Z.ltb_lt in H. rewrite H. reflexivity.
  - apply Z.ltb_ge in H. rewrite H. reflexivity.
Qed.

(* ---------------------------------------------------------------- primitive roots of unity *)
(* x^(2^k) mod P by k modular squarings *)
Fixpoint sqk (k : nat) (x : Z) : Z := match k with O => x mod P | S k' => sqk k' (x * x mod P) end.

Lemma sqk_pow k : forall x, sqk k x = x ^ (2 ^ Z.of_nat k) mod P.
Proof.
  induction k as [|k IH]; intros x.
  - cbn [sqk]. change (2 ^ Z.of_nat 0) with 1. rewrite Z.pow_1_r. reflexivity.
  - cbn [sqk]. rewrite IH. rewrite <- Zpower_mod by exact P_pos.
    rewrite Nat2Z.inj_succ, Z.pow_succ_r by lia.
    replace (2 * 2 ^ Z.of_nat k) with (2 ^ Z.of_nat k + 2 ^ Z.of_nat k) by ring.
    rewrite Z.pow_add_r by (apply Z.pow_nonneg; lia).
    rewrite <- Z.pow_mul_l. reflexivity.
Qed.

Definition root_okb (k : nat) : bool :=
  match primitive_root_of_unity (2 ^ Z.of_nat k) with
  | Some r => canonb r && (sqk k (val r) =? 1)
              && (match k with O => true | S k' => sqk k' (val r) =? P - 1 end)
  | None => false
  end.

Lemma roots_table_ok : forallb root_okb (seq 0 33) = true.
Proof. vm_compute. reflexivity. Qed.

(* for every n = 2^k, k <= 32, the table yields a canonical r with r^n = 1 and r^(n/2) = -1: a PRIMITIVE n-th root *)
Theorem primitive_root_spec k : (k <= 32)%nat ->
  exists r, primitive_root_of_unity (2 ^ Z.of_nat k) = Some r /\ canon r /\
            val r ^ (2 ^ Z.of_nat k) mod P = 1 /\
            ((0 < k)%nat -> val r ^ (2 ^ (Z.of_nat k - 1)) mod P = P - 1).
Proof.
  intros Hk. assert (H := roots_table_ok). rewrite forallb_forall in H.
  specialize (H k). assert (Hin : In k (seq 0 33)) by (apply in_seq; lia). specialize (H Hin).
  unfold root_okb in H. destruct (primitive_root_of_unity (2 ^ Z.of_nat k)) as [r|]; [|discriminate].
  apply andb_prop in H. destruct H as [H H3]. apply andb_prop in H. destruct H as [H1 H2].
  exists r. split; [reflexivity|]. split; [apply canonb_spec; exact H1|]. split.
  - rewrite <- sqk_pow. apply Z.eqb_eq. exact H2.
  - intros Hpos. destruct k as [|k']; [lia|]. apply Z.eqb_eq in H3. rewrite sqk_pow in H3.
    replace (Z.of_nat (S k') - 1) with (Z.of_nat k') by lia. exact H3.
Qed.

(* ... and the order is EXACTLY 2^k: no smaller positive exponent gives one *)
Lemma pow_mod_pow x a b : 0 <= a -> 0 <= b -> (x ^ a mod P) ^ b mod P = x ^ (a * b) mod P.
Proof. intros Ha Hb. rewrite <- Zpower_mod by exact P_pos. rewrite Z.pow_mul_r by assumption. reflexivity. Qed.

Lemma one_pow_mod b : 0 <= b -> 1 ^ b mod P = 1.
Proof. intros Hb. rewrite Z.pow_1_l by exact Hb. reflexivity. Qed.

Lemma odd_inverse_mod_pow2 m n : 0 < n -> Z.odd m = true -> 0 < m ->
  exists a b, 0 <= a /\ 0 <= b /\ a * m = 1 + b * 2 ^ n.
Proof.
  intros Hn Hodd Hm.
  assert (Hrp : rel_prime m (2 ^ n)).
  { apply rel_prime_Zpower_r; [lia|].
    apply rel_prime_sym. apply prime_rel_prime; [exact prime_2|].
    intros [q Hq]. rewrite Hq in Hodd. rewrite Z.odd_mul in Hodd. change (Z.odd 2) with false in Hodd.
    rewrite andb_false_r in Hodd. discriminate. }
  destruct (rel_prime_bezout _ _ Hrp) as [u v Huv].
  assert (Hp : 1 < 2 ^ n) by (apply Z.pow_gt_1; lia).
  exists (u mod 2 ^ n), ((u mod 2 ^ n * m - 1) / 2 ^ n).
  assert (Ha : 0 <= u mod 2 ^ n < 2 ^ n) by (apply Z.mod_pos_bound; lia).
  assert (Hdiv : (u mod 2 ^ n * m - 1) mod 2 ^ n = 0).
  { apply Z.mod_divide; [lia|]. exists (- (u / 2 ^ n) * m - v).
    rewrite (Z.mod_eq u (2 ^ n)) by lia.
    set (q := 2 ^ n) in *. set (d := u / q). nia. }
  assert (Hge : 1 <= u mod 2 ^ n * m).
  { destruct (Z.eq_dec (u mod 2 ^ n) 0) as [E0|NE].
    - rewrite E0 in Hdiv. replace (0 * m - 1) with (-1) in Hdiv by ring.
      apply Z.mod_divide in Hdiv; [|lia]. destruct Hdiv as [c Hc].
      set (q := 2 ^ n) in *. destruct (Z_lt_le_dec c 0); [assert (c * q <= - q) by nia; lia|assert (0 <= c * q) by nia; lia].
    - nia. }
  split; [lia|]. split.
  - apply Z.div_pos; lia.
  - assert (E := Z.div_mod (u mod 2 ^ n * m - 1) (2 ^ n) ltac:(lia)). rewrite Hdiv in E. lia.
Qed.

Lemma two_adic j : 0 < j -> exists t m, j = 2 ^ Z.of_nat t * m /\ Z.odd m = true /\ 0 < m.
Proof.
  intros Hj. assert (Hw : forall n : nat, forall j, 0 < j -> j < Z.of_nat n ->
    exists t m, j = 2 ^ Z.of_nat t * m /\ Z.odd m = true /\ 0 < m).
  { induction n as [|n IH]; intros j0 H0 Hlt; [lia|].
    destruct (Z.odd j0) eqn:Eo.
    - exists 0%nat, j0. change (2 ^ Z.of_nat 0) with 1. split; [ring|]. split; [exact Eo|exact H0].
    - assert (He : Z.even j0 = true) by (rewrite <- Z.negb_odd, Eo; reflexivity).
      apply Z.even_spec in He. destruct He as [h Hh].
      destruct (IH h ltac:(lia) ltac:(lia)) as [t [m [E [Om Pm]]]].
      exists (S t), m. split; [|split; assumption].
      rewrite Nat2Z.inj_succ, Z.pow_succ_r by lia. rewrite Hh, E. ring. }
  apply (Hw (Z.to_nat (j + 1)) j Hj). lia.
Qed.

Lemma order_pow2_aux x k t m a b :
  0 <= t < k -> 0 < m -> 0 <= a -> 0 <= b -> a * m = 1 + b * 2 ^ (k - t) ->
  x ^ (2 ^ k) mod P = 1 -> x ^ (2 ^ (k - 1)) mod P = P - 1 -> x ^ (2 ^ t * m) mod P = 1 -> False.
Proof.
  intros Ht Hm Ha Hb Hab.
  assert (Hp2t : 0 <= 2 ^ t) by (apply Z.pow_nonneg; lia).
  assert (Hp2n : 0 <= 2 ^ (k - t)) by (apply Z.pow_nonneg; lia).
  assert (Hp2r : 0 <= 2 ^ (k - 1 - t)) by (apply Z.pow_nonneg; lia).
  assert (Ek : 2 ^ k = 2 ^ t * 2 ^ (k - t)) by (rewrite <- Z.pow_add_r by lia; f_equal; lia).
  assert (Ek1 : 2 ^ (k - 1) = 2 ^ t * 2 ^ (k - 1 - t)) by (rewrite <- Z.pow_add_r by lia; f_equal; lia).
  assert (Hbn : 0 <= b * 2 ^ (k - t)) by (apply Z.mul_nonneg_nonneg; assumption).
  assert (Hm0 : 0 <= m) by lia.
  assert (H01 : 0 <= 1) by lia.
  intros Hfull Hhalf Hone.
  set (s := x ^ (2 ^ t) mod P).
  assert (Hsm : s ^ m mod P = 1) by (unfold s; rewrite pow_mod_pow by assumption; exact Hone).
  assert (Hsn : s ^ (2 ^ (k - t)) mod P = 1)
    by (unfold s; rewrite pow_mod_pow by assumption; rewrite <- Ek; exact Hfull).
  assert (Hs1 : s mod P = 1).
  { assert (E1 : s ^ (a * m) mod P = 1).
    { rewrite (Z.mul_comm a m). rewrite <- pow_mod_pow by assumption. rewrite Hsm. apply one_pow_mod. exact Ha. }
    rewrite Hab in E1. rewrite Z.pow_add_r in E1 by assumption.
    rewrite Z.pow_1_r in E1. rewrite Z.mul_mod in E1 by (unfold P; discriminate).
    rewrite (Z.mul_comm b) in E1. rewrite <- pow_mod_pow in E1 by assumption.
    rewrite Hsn, one_pow_mod in E1 by exact Hb. rewrite Z.mul_1_r, Z.mod_mod in E1 by (unfold P; discriminate).
    exact E1. }
  assert (Hc : x ^ (2 ^ (k - 1)) mod P = 1).
  { rewrite Ek1. rewrite <- pow_mod_pow by assumption. fold s.
    rewrite Zpower_mod by exact P_pos. rewrite Hs1. apply one_pow_mod. exact Hp2r. }
  rewrite Hc in Hhalf. unfold P in Hhalf. discriminate.
Qed.

Theorem primitive_root_order k r : (k <= 32)%nat -> primitive_root_of_unity (2 ^ Z.of_nat k) = Some r ->
  forall j, 0 < j < 2 ^ Z.of_nat k -> val r ^ j mod P <> 1.
Proof.
  intros Hk Hr j Hj.
  destruct (two_adic j ltac:(lia)) as [t [m [Ej [Om Pm]]]].
  assert (Htk : (t < k)%nat).
  { destruct (Nat.lt_ge_cases t k) as [L|G]; [exact L|exfalso].
    assert (H2 : 2 ^ Z.of_nat k <= 2 ^ Z.of_nat t) by (apply Z.pow_le_mono_r; lia).
    assert (H3 : 2 ^ Z.of_nat t * 1 <= 2 ^ Z.of_nat t * m)
      by (apply Z.mul_le_mono_nonneg_l; [apply Z.pow_nonneg|]; lia).
    clear - H2 H3 Ej Hj. lia. }
  destruct (odd_inverse_mod_pow2 m (Z.of_nat k - Z.of_nat t) ltac:(lia) Om Pm) as [a [b [Ha [Hb Hab]]]].
  assert (Hkpos : (0 < k)%nat) by lia.
  assert (Htr : 0 <= Z.of_nat t < Z.of_nat k) by lia.
  destruct (primitive_root_spec k Hk) as [r' [Hr' [Cr [Hfull Hhalf]]]].
  rewrite Hr in Hr'. injection Hr' as <-. specialize (Hhalf Hkpos).
  intros Hone. rewrite Ej in Hone.
  exact (order_pow2_aux (val r) (Z.of_nat k) (Z.of_nat t) m a b Htr Pm Ha Hb Hab Hfull Hhalf Hone).
Qed.

(* which arguments have an entry *)
Lemma assoc_none k l : assoc k l = None <-> ~ In k (map fst l).
Proof.
  induction l as [|[a b] l IH]; cbn [assoc map fst In].
  - split; [intros _ []|reflexivity].
  - destruct (a =? k) eqn:E.
    + apply Z.eqb_eq in E. split; [discriminate|]. intros H. exfalso. apply H. left. exact E.
    + apply Z.eqb_neq in E. rewrite IH. split; intros H; [intros [F|F]; [exact (E F)|exact (H F)]|intros F; apply H; right; exact F].
Qed.

Lemma roots_keys : map fst PRIMITIVE_ROOTS = 0 :: map (fun k => 2 ^ Z.of_nat k) (seq 0 33).
Proof. vm_compute. reflexivity. Qed.

Theorem primitive_root_domain n :
  primitive_root_of_unity n <> None <-> (n = 0 \/ exists k, (k <= 32)%nat /\ n = 2 ^ Z.of_nat k).
Proof.
  unfold primitive_root_of_unity.
  assert (H : assoc n PRIMITIVE_ROOTS <> None <-> (n = 0 \/ exists k, (k <= 32)%nat /\ n = 2 ^ Z.of_nat k)).
  { rewrite assoc_none, roots_keys. cbn [In]. split.
    - intros H. destruct (Z.eq_dec n 0) as [E|NE]; [left; exact E|right].
      destruct (in_dec Z.eq_dec n (map (fun k => 2 ^ Z.of_nat k) (seq 0 33))) as [I|NI].
      + apply in_map_iff in I. destruct I as [k [E I]]. apply in_seq in I. exists k. split; [lia|symmetry; exact E].
      + exfalso. apply H. intros [F|F]; [exact (NE (eq_sym F))|exact (NI F)].
    - intros [E|[k [Hk E]]] H; apply H.
      + left. symmetry. exact E.
      + right. apply in_map_iff. exists k. split; [symmetry; exact E|apply in_seq; lia]. }
  destruct (assoc n PRIMITIVE_ROOTS) as [r|]; split; intros H1.
  - apply H. discriminate.
  - discriminate.
  - exfalso. apply H1. reflexivity.
  - exfalso. apply H in H1. apply H1. reflexivity.
Qed.

Theorem primitive_root_zero : primitive_root_of_unity 0 = Some bfe_one.
Proof. vm_compute. reflexivity. Qed.

(* ---------------------------------------------------------------- the generator *)
(* 7 generates the multiplicative group: every non-zero residue is a power of it (Lucas.generator_surj) *)
Theorem generator_spec :
  canon (bfe_new 7) /\ val (bfe_new 7) = 7 /\
  forall x, 0 < x < P -> exists i, 0 <= i < P - 1 /\ x = val (bfe_new 7) ^ i mod P.
Proof.
  destruct (new_spec 7 ltac:(lia)) as [C E]. split; [exact C|].
  assert (V : val (bfe_new 7) = 7) by (rewrite E, val_mont; reflexivity).
  split; [exact V|]. intros x Hx. rewrite V.
  destruct (Lucas.generator_surj x) as [i [Hi Ex]]; [rewrite <- P_eq; exact Hx|].
  exists i. split; [unfold Lucas.N in Hi; rewrite <- P_eq in Hi; exact Hi|].
  rewrite Ex. unfold Lucas.pw, Lucas.G. rewrite <- P_eq. reflexivity.
Qed.

(* ---------------------------------------------------------------- get_cyclic_group_elements *)
Definition pows_ok (g : Z) (l : list Z) : Prop :=
  forall i, (i < length l)%nat -> ispow (val g) (nth i l 0) (Z.of_nat i).

Lemma pows_ok_snoc g l v : pows_ok g l -> ispow (val g) v (Z.of_nat (length l)) -> pows_ok g (l ++ [v]).
Proof.
  intros Hl Hv i Hi. rewrite app_length in Hi. cbn [length] in Hi.
  destruct (Nat.lt_ge_cases i (length l)) as [L|G].
  - rewrite app_nth1 by exact L. apply Hl. exact L.
  - assert (i = length l) by lia. subst i. rewrite app_nth2 by lia. rewrite Nat.sub_diag. cbn [nth]. exact Hv.
Qed.

Lemma cyclic_go_spec fuel : forall g v maxn acc res, canon g ->
  pows_ok g acc -> ispow (val g) v (Z.of_nat (length acc)) ->
  cyclic_go fuel g v maxn acc = Some res ->
  pows_ok g res /\ (length acc < length res)%nat /\
  (* stopping condition: the next power is one, or the requested number of elements is reached *)
  (val g ^ Z.of_nat (length res) mod P = 1 \/ exists m, maxn = Some m /\ m <= Z.of_nat (length res)) /\
  (* ... and it did not hold earlier *)
  (forall n, (length acc < n < length res)%nat ->
     val g ^ Z.of_nat n mod P <> 1 /\ forall m, maxn = Some m -> Z.of_nat n < m).
Proof.
  induction fuel as [|f IH]; intros g v maxn acc res Cg Hacc Hv Hgo; [discriminate|].
  cbn [cyclic_go] in Hgo.
  assert (Hacc' : pows_ok g (acc ++ [v])) by (apply pows_ok_snoc; assumption).
  assert (Hlen : length (acc ++ [v]) = S (length acc)) by (rewrite app_length; cbn; lia).
  assert (Hv' : ispow (val g) (bfe_mul v g) (Z.of_nat (length (acc ++ [v])))).
  { rewrite Hlen, Nat2Z.inj_succ. unfold Z.succ. apply ispow_mul; [lia|lia|exact Hv|apply ispow_self; exact Cg]. }
  assert (Hone : bfe_mul v g = bfe_one <-> val g ^ Z.of_nat (length (acc ++ [v])) mod P = 1).
  { destruct Hv' as [Cm Vm]. rewrite <- Vm. split.
    - intros E. rewrite E. destruct (ispow_one 0) as [_ V1]. rewrite V1. reflexivity.
    - intros E. apply repr_unique; [exact Cm|apply (ispow_one 0)|].
      destruct (ispow_one 0) as [_ V1]. rewrite V1, E. reflexivity. }
  destruct ((bfe_mul v g =? bfe_one) ||
            match maxn with Some m => Z.of_nat (length (acc ++ [v])) >=? m | None => false end) eqn:Estop.
  - injection Hgo as <-. split; [exact Hacc'|]. split; [lia|]. split.
    + apply orb_prop in Estop. destruct Estop as [E|E].
      * left. apply Hone. apply Z.eqb_eq. exact E.
      * right. destruct maxn as [m|]; [|discriminate]. exists m. split; [reflexivity|].
        apply Z.geb_le in E. exact E.
    + intros n Hn. lia.
  - apply orb_false_elim in Estop. destruct Estop as [E1 E2].
    destruct (IH g (bfe_mul v g) maxn (acc ++ [v]) res Cg Hacc' Hv' Hgo) as [R1 [R2 [R3 R4]]].
    split; [exact R1|]. split; [clear - R2 Hlen; lia|]. split; [exact R3|].
    intros n Hn. destruct (Nat.eq_dec n (length (acc ++ [v]))) as [En|Nn].
    + subst n. split.
      * intros F. apply Hone in F. apply Z.eqb_neq in E1. exact (E1 F).
      * intros m Em. subst maxn. rewrite Z.geb_leb in E2. apply Z.leb_gt in E2. exact E2.
    + apply R4. clear - Hn Nn Hlen. lia.
Qed.

(* the result is [g^0, g^1, ..., g^(n-1)], n >= 2, stopping exactly at the first n >= 2 with g^n = 1 or n >= max *)
Theorem cyclic_group_elements_spec fuel g maxn res : canon g ->
  cyclic_group_elements fuel g maxn = Some res ->
  (forall i, (i < length res)%nat -> canon (nth i res 0) /\ val (nth i res 0) = val g ^ Z.of_nat i mod P) /\
  (2 <= length res)%nat /\
  (val g ^ Z.of_nat (length res) mod P = 1 \/ exists m, maxn = Some m /\ m <= Z.of_nat (length res)) /\
  (forall n, (2 <= n < length res)%nat -> val g ^ Z.of_nat n mod P <> 1 /\ forall m, maxn = Some m -> Z.of_nat n < m).
Proof.
  intros Cg H. unfold cyclic_group_elements in H.
  assert (H0 : pows_ok g [bfe_one]).
  { intros i Hi. cbn [length] in Hi. assert (i = 0)%nat by lia. subst i. cbn [nth]. apply ispow_one. }
  assert (H1 : ispow (val g) g (Z.of_nat (length [bfe_one]))) by (cbn [length]; apply ispow_self; exact Cg).
  destruct (cyclic_go_spec fuel g g maxn [bfe_one] res Cg H0 H1 H) as [R1 [R2 [R3 R4]]].
  cbn [length] in R2, R4. split; [|split; [lia|split; [exact R3|]]].
  - intros i Hi. exact (R1 i Hi).
  - intros n Hn. apply R4. lia.
Qed.
