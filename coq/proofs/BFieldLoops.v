(* BFieldLoops.v - theorems about the looping base-field routines (model/BField.v). *)
From Coq Require Import ZArith Bool Lia List Znumtheory.
From TF Require Lucas.
From TF Require Import Word BFieldGen BFieldProofs BField.
Import ListNotations.
Open Scope Z_scope.

Global Opaque bfe_mul bfe_add bfe_sub bfe_new montyred.

Lemma P_eq : BFieldGen.P = Lucas.P. Proof. reflexivity. Qed.

(* x is y raised to k, as field values *)
Definition ispow (v y k : Z) : Prop := canon y /\ val y = v ^ k mod P.

Lemma ispow_mul v y1 y2 k1 k2 : 0 <= k1 -> 0 <= k2 ->
  ispow v y1 k1 -> ispow v y2 k2 -> ispow v (bfe_mul y1 y2) (k1 + k2).
Proof.
  intros H1 H2 [C1 V1] [C2 V2]. destruct (mul_spec y1 y2 C1 C2) as [C V]. split; [exact C|].
  rewrite V, V1, V2, Z.pow_add_r by assumption.
  rewrite <- Z.mul_mod by (unfold P; lia). reflexivity.
Qed.

Lemma ispow_sqn v n : forall y k, 0 <= k -> ispow v y k -> ispow v (sqn n y) (k * 2 ^ Z.of_nat n).
Proof.
  induction n as [|n IH]; intros y k Hk H.
  - cbn [sqn]. change (2 ^ Z.of_nat 0) with 1. rewrite Z.mul_1_r. exact H.
  - cbn [sqn]. replace (k * 2 ^ Z.of_nat (S n)) with ((k + k) * 2 ^ Z.of_nat n).
    + apply IH; [lia|]. apply ispow_mul; assumption.
    + rewrite Nat2Z.inj_succ, Z.pow_succ_r by lia. ring.
Qed.

Lemma ispow_one v : ispow v bfe_one 0.
Proof. split; [unfold canon, P; vm_compute; split; [discriminate|reflexivity] | reflexivity]. Qed.

Lemma ispow_self y : canon y -> ispow (val y) y 1.
Proof.
  intros C. split; [exact C|]. rewrite Z.pow_1_r. symmetry. apply Z.mod_small. apply val_range.
Qed.

(* ---------------------------------------------------------------- mod_pow *)
Lemma mod_pow2_succ e n : 0 <= n -> 0 <= e ->
  e mod 2 ^ (n + 1) = e mod 2 ^ n + (if Z.testbit e n then 2 ^ n else 0).
Proof.
  intros Hn He. rewrite Z.pow_add_r, Z.pow_1_r by lia.
  rewrite Z.rem_mul_r by (try apply Z.pow_nonzero; lia).
  rewrite <- Z.testbit_spec' by lia. destruct (Z.testbit e n); cbn [Z.b2z]; lia.
Qed.

Lemma mod_pow_go_spec v a e : canon a -> val a = v mod P -> 0 <= e ->
  forall k acc j, 0 <= j -> ispow v acc j ->
  ispow v (mod_pow_go k a e acc) (j * 2 ^ Z.of_nat k + e mod 2 ^ Z.of_nat k).
Proof.
  intros Ca Va He. induction k as [|k IH]; intros acc j Hj H.
  - cbn [mod_pow_go]. change (2 ^ Z.of_nat 0) with 1. rewrite Z.mod_1_r. replace (j * 1 + 0) with j by ring. exact H.
  - cbn [mod_pow_go].
    assert (Ha1 : ispow v a 1).
    { split; [exact Ca|]. rewrite Z.pow_1_r. exact Va. }
    assert (H2 : ispow v (bfe_mul acc acc) (j + j)) by (apply ispow_mul; assumption).
    rewrite Nat2Z.inj_succ. unfold Z.succ. rewrite (mod_pow2_succ e (Z.of_nat k)) by lia.
    rewrite Z.pow_add_r, Z.pow_1_r by lia.
    destruct (Z.testbit e (Z.of_nat k)).
    + replace (j * (2 ^ Z.of_nat k * 2) + (e mod 2 ^ Z.of_nat k + 2 ^ Z.of_nat k))
        with ((j + j + 1) * 2 ^ Z.of_nat k + e mod 2 ^ Z.of_nat k) by ring.
      apply IH; [lia|]. apply ispow_mul; try lia; assumption.
    + replace (j * (2 ^ Z.of_nat k * 2) + (e mod 2 ^ Z.of_nat k + 0))
        with ((j + j) * 2 ^ Z.of_nat k + e mod 2 ^ Z.of_nat k) by ring.
      apply IH; [lia|]. exact H2.
Qed.

Lemma bitlen_bound e : 0 <= e -> e < 2 ^ bitlen e /\ 0 <= bitlen e.
Proof.
  intros He. unfold bitlen. destruct (e =? 0) eqn:E.
  - apply Z.eqb_eq in E. subst. cbn. lia.
  - apply Z.eqb_neq in E. assert (0 < e) by lia. split; [|pose proof (Z.log2_nonneg e); lia].
    apply Z.log2_spec in H. lia.
Qed.

Theorem mod_pow_spec a e : canon a -> 0 <= e ->
  canon (mod_pow a e) /\ val (mod_pow a e) = (val a) ^ e mod P.
Proof.
  intros Ca He. unfold mod_pow.
  destruct (bitlen_bound e He) as [Hb Hn].
  assert (Va : val a = val a mod P) by (symmetry; apply Z.mod_small, val_range).
  pose proof (mod_pow_go_spec (val a) a e Ca Va He (Z.to_nat (bitlen e)) bfe_one 0 ltac:(lia) (ispow_one _)) as H.
  rewrite Z2Nat.id in H by exact Hn. rewrite Z.mul_0_l, Z.add_0_l, Z.mod_small in H by lia. exact H.
Qed.

(* ---------------------------------------------------------------- inverse *)
Lemma inverse_chain_pow x : canon x -> ispow (val x) (inverse_chain x) (P - 2).
Proof.
  intros C. pose proof (ispow_self x C) as H1. unfold inverse_chain.
  set (v := val x) in *.
  assert (H2 : ispow v (bfe_mul (bfe_mul x x) x) 3) by (apply (ispow_mul v _ _ 2 1); try lia; [apply (ispow_mul v _ _ 1 1); try lia; assumption|assumption]).
  set (b2 := bfe_mul (bfe_mul x x) x) in *.
  assert (H3 : ispow v (bfe_mul (bfe_mul b2 b2) x) 7) by (apply (ispow_mul v _ _ 6 1); try lia; [apply (ispow_mul v _ _ 3 3); try lia; assumption|assumption]).
  set (b3 := bfe_mul (bfe_mul b2 b2) x) in *.
  assert (H6 : ispow v (bfe_mul (sqn 3 b3) b3) (7 * 2 ^ 3 + 7)).
  { apply ispow_mul; try lia; [|assumption]. apply (ispow_sqn v 3 b3 7); [lia|assumption]. }
  set (b6 := bfe_mul (sqn 3 b3) b3) in *.
  assert (H12 : ispow v (bfe_mul (sqn 6 b6) b6) ((7 * 2 ^ 3 + 7) * 2 ^ 6 + (7 * 2 ^ 3 + 7))).
  { apply ispow_mul; try lia; [|assumption]. apply (ispow_sqn v 6 b6); [lia|assumption]. }
  set (b12 := bfe_mul (sqn 6 b6) b6) in *. set (e12 := (7 * 2 ^ 3 + 7) * 2 ^ 6 + (7 * 2 ^ 3 + 7)) in *.
  assert (H24 : ispow v (bfe_mul (sqn 12 b12) b12) (e12 * 2 ^ 12 + e12)).
  { apply ispow_mul; try (subst e12; lia); [|assumption]. apply (ispow_sqn v 12 b12); [subst e12; lia|assumption]. }
  set (b24 := bfe_mul (sqn 12 b12) b12) in *. set (e24 := e12 * 2 ^ 12 + e12) in *.
  assert (H30 : ispow v (bfe_mul (sqn 6 b24) b6) (e24 * 2 ^ 6 + (7 * 2 ^ 3 + 7))).
  { apply ispow_mul; try (subst e24 e12; lia); [|assumption]. apply (ispow_sqn v 6 b24); [subst e24 e12; lia|assumption]. }
  set (b30 := bfe_mul (sqn 6 b24) b6) in *. set (e30 := e24 * 2 ^ 6 + (7 * 2 ^ 3 + 7)) in *.
  assert (E30 : 0 <= e30) by (subst e30 e24 e12; lia).
  assert (H31 : ispow v (bfe_mul (bfe_mul b30 b30) x) (e30 + e30 + 1)).
  { apply ispow_mul; try lia; [|assumption]. apply ispow_mul; try lia; assumption. }
  set (b31 := bfe_mul (bfe_mul b30 b30) x) in *. set (e31 := e30 + e30 + 1) in *.
  assert (H310 : ispow v (bfe_mul b31 b31) (e31 + e31)) by (apply ispow_mul; try (subst e31; lia); assumption).
  assert (H32 : ispow v (bfe_mul (bfe_mul b31 b31) x) (e31 + e31 + 1)).
  { apply ispow_mul; try (subst e31; lia); assumption. }
  assert (HF : ispow v (bfe_mul (sqn 32 (bfe_mul b31 b31)) (bfe_mul (bfe_mul b31 b31) x))
                 ((e31 + e31) * 2 ^ 32 + (e31 + e31 + 1))).
  { apply ispow_mul; try (subst e31; lia); [|assumption].
    apply (ispow_sqn v 32 (bfe_mul b31 b31)); [subst e31; lia|assumption]. }
  replace (P - 2) with ((e31 + e31) * 2 ^ 32 + (e31 + e31 + 1)) by (subst e31 e30 e24 e12; reflexivity).
  exact HF.
Qed.

Lemma val_zero_iff a : canon a -> (val a = 0 <-> a = 0).
Proof.
  intros C. split.
  - intros H. apply (repr_unique a 0 C); [unfold canon, P; lia|]. rewrite H. reflexivity.
  - intros ->. reflexivity.
Qed.

Lemma inverse_chain_spec x : canon x -> x <> 0 ->
  canon (inverse_chain x) /\ (val (inverse_chain x) * val x) mod P = 1.
Proof.
  intros C Hnz. destruct (inverse_chain_pow x C) as [Cy Vy]. split; [exact Cy|].
  rewrite Vy. rewrite Z.mul_mod_idemp_l by (unfold P; lia).
  replace (val x ^ (P - 2) * val x) with (val x ^ (P - 1)).
  - pose proof (val_range x) as Hr.
    assert (val x <> 0) by (rewrite val_zero_iff by exact C; exact Hnz).
    change (P - 1) with Lucas.N. rewrite P_eq. apply Lucas.fermat. rewrite <- P_eq. lia.
  - replace (P - 1) with (P - 2 + 1) by ring. rewrite Z.pow_add_r, Z.pow_1_r by (unfold P; lia). reflexivity.
Qed.

Theorem inverse_spec x : canon x -> x <> 0 ->
  inverse x = Some (inverse_chain x) /\ canon (inverse_chain x) /\ (val (inverse_chain x) * val x) mod P = 1.
Proof.
  intros C Hnz. unfold inverse. rewrite zero_is_zero.
  destruct (x =? 0) eqn:E; [apply Z.eqb_eq in E; contradiction|].
  split; [reflexivity|]. apply inverse_chain_spec; assumption.
Qed.

Theorem inverse_zero_panics : inverse bfe_zero = None.
Proof. reflexivity. Qed.

Theorem inverse_or_zero_spec x : canon x ->
  (x = 0 -> inverse_or_zero x = 0) /\
  (x <> 0 -> canon (inverse_or_zero x) /\ (val (inverse_or_zero x) * val x) mod P = 1).
Proof.
  intros C. unfold inverse_or_zero. rewrite zero_is_zero. split.
  - intros ->. reflexivity.
  - intros Hnz. destruct (x =? 0) eqn:E; [apply Z.eqb_eq in E; contradiction|].
    apply inverse_chain_spec; [exact C|exact Hnz].
Qed.

(* inverses are unique in Z/P: the field has no zero divisors *)
Theorem inverse_unique v y1 y2 : 0 <= y1 < P -> 0 <= y2 < P ->
  (y1 * v) mod P = 1 -> (y2 * v) mod P = 1 -> y1 = y2.
Proof.
  intros R1 R2 H1 H2.
  rewrite <- (Z.mod_small y1 P), <- (Z.mod_small y2 P) by assumption.
  rewrite <- (Z.mul_1_r y1), <- H2, Z.mul_mod_idemp_r by (unfold P; lia).
  rewrite <- (Z.mul_1_r y2) at 2. rewrite <- H1, Z.mul_mod_idemp_r by (unfold P; lia).
  f_equal. ring.
Qed.

Theorem div_spec a b : canon a -> canon b -> b <> 0 ->
  exists q, bfe_div a b = Some q /\ canon q /\ (val q * val b) mod P = val a.
Proof.
  intros Ca Cb Hb. destruct (inverse_spec b Cb Hb) as [Hy [Cy Vy]].
  set (y := inverse_chain b) in *.
  unfold bfe_div. rewrite Hy. exists (bfe_mul y a). split; [reflexivity|].
  destruct (mul_spec y a Cy Ca) as [C V]. split; [exact C|]. rewrite V.
  rewrite Z.mul_mod_idemp_l by (unfold P; lia).
  replace (val y * val a * val b) with (val a * (val y * val b)) by ring.
  rewrite <- Z.mul_mod_idemp_r, Vy, Z.mul_1_r by (unfold P; lia).
  apply Z.mod_small, val_range.
Qed.
