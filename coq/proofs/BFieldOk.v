(* proofs/BFieldOk.v - the base-field operations record `bfe_ops` (Montgomery words, regenerated
   straight-line code + hand-written loops) refines the abstract prime field Fp of lib/FieldTheory.v:
       bfe_field_ok : field_ok bfe_ops fp_field canon bden
   with  bden a = the field element denoted by the Montgomery word a  (fval (bden a) = val a). *)
From Coq Require Import ZArith Lia List Bool.
From TF Require Import Word BFieldGen BField XField FieldOps Lucas FieldTheory BFieldProofs BFieldLoops.
Open Scope Z_scope.

Definition bden (a : Z) : Fp := fp_of (a * Rinv).
Lemma fval_bden a : fval (bden a) = val a.
Proof. reflexivity. Qed.
Lemma bden_eq a b : val a = val b -> bden a = bden b.
Proof. intros H. apply Fp_eq. rewrite !fval_bden. exact H. Qed.
Lemma bden_new v : 0 <= v < 2 ^ 64 -> canon (bfe_new v) /\ bden (bfe_new v) = fp_of v.
Proof.
  intros Hv. destruct (new_spec v Hv) as [C E]. split; [exact C|].
  apply Fp_eq. rewrite fval_bden, E, val_mont. reflexivity.
Qed.
Lemma bden_zero_iff a : canon a -> (bden a = fp_of 0 <-> a = 0).
Proof.
  intros C. rewrite <- (val_zero_iff a C). split.
  - intros H. apply (f_equal fval) in H. rewrite fval_bden in H. exact H.
  - intros H. apply Fp_eq. rewrite fval_bden, H. reflexivity.
Qed.

Theorem bfe_field_ok : field_ok bfe_ops fp_field canon bden.
Proof.
  constructor; cbn [fzero fone fadd fsub fmul fneg finv feqb ffrom_u64 fpow bfe_ops k0 k1 kadd ksub kmul kopp kinv fp_field].
  - split; [rewrite zero_is_zero; unfold canon, BFieldGen.P; lia|]. apply Fp_eq. reflexivity.
  - destruct (bden_new 1 ltac:(lia)) as [C E]. split; [exact C|exact E].
  - intros a b Ha Hb. destruct (add_spec a b Ha Hb) as [C V]. split; [exact C|].
    apply Fp_eq. rewrite fval_bden, V, fval_add, !fval_bden. reflexivity.
  - intros a b Ha Hb. destruct (sub_spec a b Ha Hb) as [C V]. split; [exact C|].
    apply Fp_eq. rewrite fval_bden, V, fval_sub, !fval_bden. reflexivity.
  - intros a b Ha Hb. destruct (mul_spec a b Ha Hb) as [C V]. split; [exact C|].
    apply Fp_eq. rewrite fval_bden, V, fval_mul, !fval_bden. reflexivity.
  - intros a Ha. destruct (neg_spec a Ha) as [C V]. split; [exact C|].
    apply Fp_eq. rewrite fval_bden, V, fval_opp, !fval_bden. reflexivity.
  - intros a Ha Hn.
    assert (Hz : a <> 0) by (intros E; apply Hn; apply bden_zero_iff; assumption).
    destruct (inverse_spec a Ha Hz) as [E [C V]]. exists (inverse_chain a). split; [exact E|]. split; [exact C|].
    apply (kinv_unique fp_field). apply Fp_eq.
    change (kmul fp_field) with fp_mul. rewrite fval_mul, !fval_bden. exact V.
  - intros a Ha Hn. apply bden_zero_iff in Hn; [|exact Ha]. subst a. reflexivity.
  - intros a b Ha Hb. rewrite Z.eqb_eq. split; [intros ->; reflexivity|].
    intros H. apply repr_unique; [exact Ha|exact Hb|]. rewrite <- !fval_bden, H. reflexivity.
  - intros a b Ha Hb H. apply repr_unique; [exact Ha|exact Hb|]. rewrite <- !fval_bden, H. reflexivity.
  - intros v Hv. destruct (bden_new v Hv) as [C E]. split; [exact C|]. rewrite E, fp_kofZ. reflexivity.
  - intros a e Ha He. destruct (mod_pow_spec a e Ha ltac:(lia)) as [C V]. split; [exact C|].
    apply Fp_eq. unfold kpowZ. rewrite fp_kpow, Z2Nat.id, !fval_bden by lia. exact V.
Qed.
