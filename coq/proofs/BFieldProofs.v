(* BFieldProofs.v - theorems about the REGENERATED straight-line base-field code (gen/BFieldGen.v).
   Every statement is about the definitions rs2v.py produced from the current source. *)
From Coq Require Import ZArith Bool Lia List.
From TF Require Import Word BFieldGen.
Open Scope Z_scope.
Ltac Zify.zify_post_hook ::= Z.div_mod_to_equations.

Definition canon (a : Z) : Prop := 0 <= a < P.
Definition canonb (a : Z) : bool := (0 <=? a) && (a <? P).
Definition R : Z := 2 ^ 64.
Definition Rinv : Z := 18446744065119617025.   (* (2^64)^-1 mod P ; checked below *)
Definition val (a : Z) : Z := (a * Rinv) mod P.  (* the field value denoted by a Montgomery word *)
Definition mont (v : Z) : Z := (v * R) mod P.    (* the Montgomery word of a value *)

Lemma R_Rinv : (R * Rinv) mod P = 1. Proof. reflexivity. Qed.
Lemma R2_is_R_squared : R2 = (R * R) mod P. Proof. reflexivity. Qed.
Lemma P_val : P = 2 ^ 64 - 2 ^ 32 + 1. Proof. reflexivity. Qed.
Lemma P_pos : 0 < P. Proof. reflexivity. Qed.

Lemma canonb_spec a : canonb a = true <-> canon a.
Proof. unfold canonb, canon. lia. Qed.

(* masks written with `&` instead of a cast or a shift (a rewrite of the source may use either): as `mod` *)
Lemma land_mask32 a : Z.land a 4294967295 = a mod 4294967296.
Proof. change 4294967295 with (Z.ones 32). rewrite Z.land_ones by lia. reflexivity. Qed.
Lemma land_mask32' a : Z.land 4294967295 a = a mod 4294967296.
Proof. rewrite Z.land_comm. apply land_mask32. Qed.

Ltac word_unfold :=
  unfold ovf_add, ovf_sub, wsub, wadd, wmul, wshl, wshr, wnot, ucast, scast, wrap, b2z,
    add_ok, sub_ok, mul_ok, shift_ok, sadd_ok, ssub_ok in *;
  cbv zeta;
  rewrite ?land_mask32, ?land_mask32' in *;
  change (2 ^ 64) with 18446744073709551616 in *;
  change (2 ^ 63) with 9223372036854775808 in *;
  change (2 ^ 32) with 4294967296 in *;
  change (2 ^ 128) with 340282366920938463463374607431768211456 in *;
  change (2 ^ 127) with 170141183460469231731687303715884105728 in *.

(* ---------------------------------------------------------------- Montgomery reduction *)
(* The specification is proved for a FROZEN transcription of the function (the translation of the pinned source) and then
   carried over to the REGENERATED `montyred` by `montyred_eq_ref`, whose proof is a case split and linear arithmetic only:
   it goes through for any re-spelling of the same straight-line computation (explicit carry tests instead of
   `overflowing_add`, `if c { r + P } else { r }` instead of `r - (2^64 - P) * c`, a named constant, ...), and fails -
   as it must - when the computed value differs on some input. *)
Definition montyred_ref (x : Z) : Z :=
  (let xl := (ucast 64 x) in
  (let xh := (ucast 64 (wshr x 64)) in
  (let '(a, e) := (ovf_add 64 xl (wshl 64 xl 32)) in
  (let b := (wsub 64 (wsub 64 a (wshr a 32)) (b2z e)) in
  (let '(r, c) := (ovf_sub 64 xh b) in
  (wsub 64 r (wmul 64 (wadd 64 1 (wnot 64 P)) (b2z c)))))))).

Lemma montyred_ref_spec x : 0 <= x < P * 2 ^ 64 ->
  0 <= montyred_ref x < P /\ exists k, montyred_ref x * 2 ^ 64 = x + k * P.
Proof.
  intros Hx. unfold montyred_ref, P in *. word_unfold.
  set (xl := x mod 18446744073709551616).
  set (xh := (x / 18446744073709551616) mod 18446744073709551616).
  destruct (18446744073709551616 <=? xl + (xl * 4294967296) mod 18446744073709551616) eqn:E;
  set (a := (xl + (xl * 4294967296) mod 18446744073709551616) mod 18446744073709551616) in *;
  set (b := ((a - a / 4294967296) mod 18446744073709551616 - _) mod 18446744073709551616);
  destruct (xh <? b) eqn:C; cbn [fst snd].
  all: split; [ subst xl xh a b; lia | ].
  - exists (- a + 18446744073709551616). subst xl xh a b; lia.
  - exists (- a). subst xl xh a b; lia.
  - exists (- a + 18446744073709551616). subst xl xh a b; lia.
  - exists (- a). subst xl xh a b; lia.
Qed.

Lemma montyred_eq_ref x : 0 <= x < 2 ^ 128 -> montyred x = montyred_ref x.
Proof.
  intros Hx. unfold montyred, montyred_ref, P. word_unfold.
  repeat match goal with |- context [if ?c then _ else _] => destruct c eqn:? end; cbn [fst snd]; lia.
Qed.

Lemma montyred_spec x : 0 <= x < P * 2 ^ 64 ->
  0 <= montyred x < P /\ exists k, montyred x * 2 ^ 64 = x + k * P.
Proof.
  intros Hx. rewrite montyred_eq_ref by (unfold P in *; word_unfold; lia). apply montyred_ref_spec. exact Hx.
Qed.

Lemma montyred_ok_all x : 0 <= x < 2 ^ 128 -> montyred_ok x = true.
Proof.
  intros Hx. unfold montyred_ok, P. word_unfold.
  repeat match goal with |- context [if ?c then _ else _] => destruct c eqn:? end; cbn [fst snd]; lia.
Qed.

Lemma mod_cancel_R m : (m * R * Rinv) mod P = m mod P.
Proof.
  rewrite <- Z.mul_assoc, <- Z.mul_mod_idemp_r, R_Rinv, Z.mul_1_r by (unfold P; lia). reflexivity.
Qed.

Lemma mod_mul_congr a a' b b' : a mod P = a' mod P -> b mod P = b' mod P -> (a * b) mod P = (a' * b') mod P.
Proof.
  intros Ha Hb. rewrite (Z.mul_mod a b), (Z.mul_mod a' b') by (unfold P; lia). rewrite Ha, Hb. reflexivity.
Qed.

Lemma montyred_val x : 0 <= x < P * 2 ^ 64 -> montyred x = (x * Rinv) mod P.
Proof.
  intros Hx. destruct (montyred_spec x Hx) as [Hr [k Hk]].
  rewrite <- (Z.mod_small (montyred x) P) by exact Hr.
  rewrite <- (mod_cancel_R (montyred x)). unfold R. rewrite Hk.
  rewrite Z.mul_add_distr_r. replace (k * P * Rinv) with (k * Rinv * P) by ring.
  apply Z.mod_add. unfold P; lia.
Qed.

Lemma montyred_canon x : 0 <= x < P * 2 ^ 64 -> canon (montyred x).
Proof. intros H. apply montyred_spec. exact H. Qed.

(* ---------------------------------------------------------------- constructors / observers *)
Lemma new_spec v : 0 <= v < 2 ^ 64 -> canon (bfe_new v) /\ bfe_new v = mont v.
Proof.
  intros Hv. unfold bfe_new, wmul, wrap.
  assert (Hb : 0 <= v * R2 < P * 2 ^ 64) by (unfold R2, P in *; nia).
  rewrite Z.mod_small by (unfold R2, P in *; nia).
  split; [apply montyred_canon; exact Hb|].
  rewrite montyred_val by exact Hb. unfold mont.
  rewrite <- Z.mul_assoc. apply mod_mul_congr; reflexivity.
Qed.

Lemma new_ok v : 0 <= v < 2 ^ 64 -> bfe_new_ok v = true.
Proof.
  intros Hv. unfold bfe_new_ok. apply andb_true_intro. split.
  - unfold mul_ok, R2. change (2 ^ 128) with 340282366920938463463374607431768211456.
    change (2 ^ 64) with 18446744073709551616 in Hv. nia.
  - apply montyred_ok_all. unfold wmul. apply wrap_range. lia.
Qed.

Lemma value_spec a : 0 <= a < 2 ^ 64 -> bfe_value a = val a /\ canon (bfe_value a).
Proof.
  intros Ha. unfold bfe_value, val.
  assert (Hb : 0 <= a < P * 2 ^ 64) by (unfold P in *; lia).
  split; [apply montyred_val; exact Hb | apply montyred_canon; exact Hb].
Qed.

Lemma val_mont v : val (mont v) = v mod P.
Proof.
  unfold val, mont. rewrite Z.mul_mod_idemp_l by (unfold P; lia). apply mod_cancel_R.
Qed.

Lemma mont_val a : canon a -> mont (val a) = a.
Proof.
  intros Ha. unfold val, mont. rewrite Z.mul_mod_idemp_l by (unfold P; lia).
  replace (a * Rinv * R) with (a * R * Rinv) by ring. rewrite mod_cancel_R.
  apply Z.mod_small. exact Ha.
Qed.

Theorem value_new v : 0 <= v < 2 ^ 64 -> bfe_value (bfe_new v) = v mod P.
Proof.
  intros Hv. destruct (new_spec v Hv) as [Hc He].
  destruct (value_spec (bfe_new v)) as [Hs _]; [unfold canon, P in *; lia|].
  rewrite Hs, He. apply val_mont.
Qed.

Theorem repr_unique a b : canon a -> canon b -> val a = val b -> a = b.
Proof.
  intros Ha Hb E. rewrite <- (mont_val a Ha), <- (mont_val b Hb), E. reflexivity.
Qed.

Lemma val_range a : 0 <= val a < P.
Proof. unfold val. apply Z.mod_pos_bound. exact P_pos. Qed.

(* ---------------------------------------------------------------- ring operations *)
Theorem mul_spec a b : canon a -> canon b ->
  canon (bfe_mul a b) /\ val (bfe_mul a b) = (val a * val b) mod P.
Proof.
  intros Ha Hb. unfold bfe_mul, wmul, wrap.
  assert (Hx : 0 <= a * b < P * 2 ^ 64) by (unfold canon, P in *; nia).
  rewrite Z.mod_small by (unfold canon, P in *; nia).
  split; [apply montyred_canon; exact Hx|].
  rewrite montyred_val by exact Hx. unfold val.
  rewrite Z.mul_mod_idemp_l by (unfold P; lia).
  rewrite <- Z.mul_mod by (unfold P; lia). f_equal. ring.
Qed.

Lemma mul_ok_all a b : 0 <= a < 2 ^ 64 -> 0 <= b < 2 ^ 64 -> bfe_mul_ok a b = true.
Proof.
  intros Ha Hb. unfold bfe_mul_ok. apply andb_true_intro. split.
  - unfold mul_ok. change (2 ^ 128) with 340282366920938463463374607431768211456.
    change (2 ^ 64) with 18446744073709551616 in *. nia.
  - apply montyred_ok_all. unfold wmul. apply wrap_range. lia.
Qed.

Lemma add_raw a b : canon a -> canon b -> bfe_add a b = (a + b) mod P /\ bfe_add_ok a b = true.
Proof.
  intros Ha Hb. unfold bfe_add, bfe_add_ok, canon, P in *. word_unfold.
  repeat match goal with |- context [if ?c then _ else _] => destruct c eqn:? end; cbn [fst snd]; split; lia.
Qed.

Lemma sub_raw a b : canon a -> canon b -> bfe_sub a b = (a - b) mod P /\ bfe_sub_ok a b = true.
Proof.
  intros Ha Hb. unfold bfe_sub, bfe_sub_ok, canon, P in *. word_unfold.
  repeat match goal with |- context [if ?c then _ else _] => destruct c eqn:? end; cbn [fst snd]; split; lia.
Qed.

Theorem add_spec a b : canon a -> canon b ->
  canon (bfe_add a b) /\ val (bfe_add a b) = (val a + val b) mod P.
Proof.
  intros Ha Hb. destruct (add_raw a b Ha Hb) as [E _]. rewrite E. split.
  - apply Z.mod_pos_bound. exact P_pos.
  - unfold val. rewrite Z.mul_mod_idemp_l by (unfold P; lia).
    rewrite <- Z.add_mod by (unfold P; lia). f_equal. ring.
Qed.

Theorem sub_spec a b : canon a -> canon b ->
  canon (bfe_sub a b) /\ val (bfe_sub a b) = (val a - val b) mod P.
Proof.
  intros Ha Hb. destruct (sub_raw a b Ha Hb) as [E _]. rewrite E. split.
  - apply Z.mod_pos_bound. exact P_pos.
  - unfold val. rewrite Z.mul_mod_idemp_l by (unfold P; lia).
    rewrite <- Zminus_mod. f_equal. ring.
Qed.

Lemma zero_is_zero : bfe_zero = 0. Proof. reflexivity. Qed.
Lemma one_is_mont_one : bfe_one = mont 1. Proof. reflexivity. Qed.

Theorem neg_spec a : canon a -> canon (bfe_neg a) /\ val (bfe_neg a) = (- val a) mod P.
Proof.
  intros Ha. unfold bfe_neg. rewrite zero_is_zero.
  assert (H0 : canon 0) by (unfold canon, P; lia).
  destruct (sub_spec 0 a H0 Ha) as [Hc Hv]. split; [exact Hc|].
  rewrite Hv. unfold val at 1. rewrite Z.mul_0_l, Z.mod_0_l by (unfold P; lia). reflexivity.
Qed.

(* ---------------------------------------------------------------- conversions *)
Theorem mod_reduce_spec x : 0 <= x < 2 ^ 128 ->
  0 <= mod_reduce x < 2 ^ 64 /\ mod_reduce x mod P = x mod P /\ mod_reduce_ok x = true.
Proof.
  intros Hx. unfold mod_reduce, mod_reduce_ok, P. word_unfold.
  repeat match goal with |- context [if ?c then _ else _] => destruct c eqn:? end; cbn [fst snd].
  all: repeat split; lia.
Qed.

(* From<i64>: the u128 handed to From<u128> is congruent to the signed value *)
Theorem from_i64_spec v : - 2 ^ 63 <= v < 2 ^ 63 ->
  0 <= from_i64_u128 v < 2 ^ 128 /\ from_i64_u128 v mod P = v mod P /\ from_i64_u128_ok v = true.
Proof.
  intros Hv. unfold from_i64_u128, from_i64_u128_ok, R2, P. word_unfold.
  repeat match goal with |- context [if ?c then _ else _] => destruct c eqn:? end; repeat split; lia.
Qed.

Theorem to_i64_spec a : canon a ->
  let v := val a in
  bfe_to_i64 a = (if v <=? 2 ^ 63 - 1 then v else v - P) /\ bfe_to_i64_ok a = true.
Proof.
  intros Ha v. unfold bfe_to_i64, bfe_to_i64_ok.
  assert (Hr : 0 <= a < 2 ^ 64) by (unfold canon, P in *; lia).
  destruct (value_spec a Hr) as [E Hc]. rewrite E. fold v.
  assert (Hv : 0 <= v < P) by apply val_range.
  rewrite montyred_ok_all by lia.
  unfold P in *. word_unfold. change (2 ^ (64 - 1)) with 9223372036854775808.
  repeat match goal with |- context [if ?c then _ else _] => destruct c eqn:? end; split; lia.
Qed.

(* every value-level operation returns a canonical word: the invariant behind derived Eq/Hash *)
Theorem closure_new v : 0 <= v < 2 ^ 64 -> canon (bfe_new v).
Proof. intros H. apply new_spec. exact H. Qed.
