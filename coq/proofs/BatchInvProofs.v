(* BatchInvProofs.v - FiniteField::batch_inversion (model/BField.v, Section Batch) is point-wise inversion
   in any commutative monoid with partial inverses and no zero divisors; instance for the base field. *)
From Coq Require Import ZArith Bool Lia List.
From TF Require Import Word BFieldGen BField BFieldProofs BFieldLoops.
Import ListNotations.
Open Scope Z_scope.

Section BatchProof.
  Variable F : Type.
  Variables (fone : F) (fmul : F -> F -> F) (fis_zero : F -> bool) (finv : F -> option F).
  Variable good : F -> Prop.
  Hypothesis good_one : good fone.
  Hypothesis good_mul : forall x y, good x -> good y -> good (fmul x y).
  Hypothesis mul_assoc : forall x y z, good x -> good y -> good z -> fmul x (fmul y z) = fmul (fmul x y) z.
  Hypothesis mul_comm : forall x y, good x -> good y -> fmul x y = fmul y x.
  Hypothesis mul_one_l : forall x, good x -> fmul fone x = x.
  Hypothesis one_nz : fis_zero fone = false.
  Hypothesis nz_mul : forall x y, good x -> good y -> fis_zero x = false -> fis_zero y = false ->
                                  fis_zero (fmul x y) = false.
  Hypothesis inv_ok : forall x, good x -> fis_zero x = false ->
                                exists y, finv x = Some y /\ good y /\ fmul y x = fone.

  Definition okl (l : list F) : Prop := Forall (fun x => good x /\ fis_zero x = false) l.
  Let pp := prefix_products F fmul fis_zero.
  Let bl := back_loop F fmul.

  Lemma fold_good l : forall acc, good acc -> fis_zero acc = false -> okl l ->
    good (fold_left fmul l acc) /\ fis_zero (fold_left fmul l acc) = false.
  Proof.
    induction l as [|x l IH]; intros acc Ga Na Hl; cbn [fold_left]; [auto|].
    destruct (Forall_inv Hl) as [Gx Nx]. pose proof (Forall_inv_tail Hl) as Hl'. apply IH; auto.
  Qed.

  (* first loop: succeeds on non-zero inputs; returns the prefix products and the total *)
  Lemma pp_snoc l : forall acc x s a, pp l acc = Some (s, a) -> fis_zero x = false ->
    pp (l ++ [x]) acc = Some (s ++ [a], fmul a x).
  Proof.
    induction l as [|y l IH]; intros acc x s a H Nx.
    - cbn in H. injection H as <- <-. cbn. rewrite Nx. reflexivity.
    - cbn in H |- *. destruct (fis_zero y); [discriminate|].
      destruct (pp l (fmul acc y)) as [[s' a']|] eqn:E; [|discriminate].
      injection H as <- <-. fold pp. rewrite (IH _ _ _ _ E Nx). reflexivity.
  Qed.

  Lemma pp_total l : forall acc, okl l -> exists s, pp l acc = Some (s, fold_left fmul l acc) /\ length s = length l.
  Proof.
    induction l as [|x l IH]; intros acc Hl.
    - exists []. split; reflexivity.
    - destruct (Forall_inv Hl) as [Gx Nx]. pose proof (Forall_inv_tail Hl) as Hl'. destruct (IH (fmul acc x) Hl') as [s [E L]].
      exists (acc :: s). cbn. rewrite Nx. fold pp. rewrite E. split; [reflexivity|cbn; lia].
  Qed.

  Lemma pp_zero l : forall acc, Exists (fun x => fis_zero x = true) l -> pp l acc = None.
  Proof.
    induction l as [|x l IH]; intros acc H; [inversion H|].
    cbn. destruct (fis_zero x) eqn:E; [reflexivity|].
    apply Exists_cons in H. destruct H as [Hx|Hl]; [congruence|]. fold pp. rewrite (IH _ Hl). reflexivity.
  Qed.

  (* second loop *)
  Lemma back_loop_spec l : forall acc s ai, good acc -> fis_zero acc = false -> okl l ->
    pp l acc = Some (s, fold_left fmul l acc) -> good ai -> fmul ai (fold_left fmul l acc) = fone ->
    Forall2 (fun x y => good y /\ fmul y x = fone) l (rev (bl (rev l) (rev s) ai)).
  Proof.
    induction l as [|x l IH] using rev_ind; intros acc s ai Ga Na Hl Hp Gi Hi.
    - cbn in Hp. injection Hp as <-. cbn. constructor.
    - apply Forall_app in Hl. destruct Hl as [Hl Hx]. destruct (Forall_inv Hx) as [Gx Nx].
      destruct (pp_total l acc Hl) as [s' [E' L']].
      pose proof (pp_snoc l acc x s' _ E' Nx) as E2.
      rewrite fold_left_app in Hp, Hi. cbn [fold_left] in Hp, Hi.
      rewrite E2 in Hp. injection Hp as <-.
      rewrite !rev_app_distr. cbn [rev app]. unfold bl. cbn [back_loop]. fold bl.
      cbn [rev]. apply Forall2_app.
      + destruct (fold_good l acc Ga Na Hl) as [Gt Nt].
        apply (IH acc s' (fmul ai x)); auto.
        rewrite <- mul_assoc by auto. rewrite (mul_comm x (fold_left fmul l acc)) by auto. exact Hi.
      + constructor; [|constructor].
        destruct (fold_good l acc Ga Na Hl) as [Gt Nt].
        split; [auto|]. rewrite <- mul_assoc by auto. exact Hi.
  Qed.

  Lemma batch_inversion_cons x l :
    batch_inversion F fone fmul fis_zero finv (x :: l) =
    match pp (x :: l) fone with
    | None => None
    | Some (scratch, acc) =>
        match finv acc with
        | None => None
        | Some ai => Some (rev (bl (rev (x :: l)) (rev scratch) ai))
        end
    end.
  Proof. reflexivity. Qed.

  Theorem batch_inversion_spec l : Forall good l -> Forall (fun x => fis_zero x = false) l ->
    exists r, batch_inversion F fone fmul fis_zero finv l = Some r /\
              Forall2 (fun x y => good y /\ fmul y x = fone) l r.
  Proof.
    intros Hg Hn.
    assert (Hl : okl l).
    { unfold okl. rewrite Forall_forall in *. intros x Hx. split; auto. }
    destruct l as [|x0 l0]; [exists []; split; [reflexivity|constructor]|].
    rewrite batch_inversion_cons. set (l := x0 :: l0) in *.
    destruct (pp_total l fone Hl) as [s [E L]]. rewrite E.
    destruct (fold_good l fone good_one one_nz Hl) as [Gt Nt].
    destruct (inv_ok _ Gt Nt) as [ai [Ei [Gi Hi]]]. rewrite Ei.
    eexists. split; [reflexivity|].
    apply (back_loop_spec l fone s ai); auto.
  Qed.

  Theorem batch_inversion_zero_panics l : Exists (fun x => fis_zero x = true) l ->
    batch_inversion F fone fmul fis_zero finv l = None.
  Proof.
    intros H. destruct l as [|x l0]; [inversion H|]. rewrite batch_inversion_cons.
    rewrite (pp_zero _ fone H). reflexivity.
  Qed.
End BatchProof.

(* ---------------------------------------------------------------- base-field instance *)
Lemma bfe_mul_assoc x y z : canon x -> canon y -> canon z -> bfe_mul x (bfe_mul y z) = bfe_mul (bfe_mul x y) z.
Proof.
  intros Cx Cy Cz.
  destruct (mul_spec y z Cy Cz) as [C1 V1]. destruct (mul_spec x _ Cx C1) as [C2 V2].
  destruct (mul_spec x y Cx Cy) as [C3 V3]. destruct (mul_spec _ z C3 Cz) as [C4 V4].
  apply repr_unique; [exact C2|exact C4|]. rewrite V2, V1, V4, V3.
  rewrite Z.mul_mod_idemp_r, Z.mul_mod_idemp_l by (unfold P; lia). f_equal. ring.
Qed.

Lemma bfe_mul_comm x y : canon x -> canon y -> bfe_mul x y = bfe_mul y x.
Proof.
  intros Cx Cy. destruct (mul_spec x y Cx Cy) as [C1 V1]. destruct (mul_spec y x Cy Cx) as [C2 V2].
  apply repr_unique; [exact C1|exact C2|]. rewrite V1, V2. f_equal. ring.
Qed.

Lemma canon_one : canon bfe_one.
Proof. unfold canon, P. vm_compute. split; [discriminate|reflexivity]. Qed.

Lemma val_one : val bfe_one = 1. Proof. reflexivity. Qed.

Lemma bfe_mul_one_l x : canon x -> bfe_mul bfe_one x = x.
Proof.
  intros Cx. destruct (mul_spec bfe_one x canon_one Cx) as [C V].
  apply repr_unique; [exact C|exact Cx|]. rewrite V, val_one, Z.mul_1_l. apply Z.mod_small, val_range.
Qed.

Lemma bfe_nz_mul x y : canon x -> canon y -> (x =? bfe_zero) = false -> (y =? bfe_zero) = false ->
  (bfe_mul x y =? bfe_zero) = false.
Proof.
  rewrite zero_is_zero. intros Cx Cy Nx Ny. apply Z.eqb_neq in Nx, Ny. apply Z.eqb_neq. intros E.
  destruct (mul_spec x y Cx Cy) as [C V]. rewrite E in V.
  change (val 0) with 0 in V. symmetry in V.
  (* val x * val y = 0 mod P with P prime: one factor is 0 *)
  pose proof (val_range x) as Rx. pose proof (val_range y) as Ry.
  assert (Dv : (P | val x * val y)) by (apply Z.mod_divide; [unfold P; lia|exact V]).
  rewrite P_eq in Dv. apply Znumtheory.prime_mult in Dv; [|exact Lucas.P_prime]. rewrite <- P_eq in Dv.
  destruct Dv as [D|D]; apply Z.mod_divide in D; try (unfold P; lia);
    rewrite Z.mod_small in D by assumption.
  - apply Nx. apply (val_zero_iff x Cx). exact D.
  - apply Ny. apply (val_zero_iff y Cy). exact D.
Qed.

Lemma bfe_inv_ok x : canon x -> (x =? bfe_zero) = false ->
  exists y, inverse x = Some y /\ canon y /\ bfe_mul y x = bfe_one.
Proof.
  rewrite zero_is_zero. intros Cx Nx. apply Z.eqb_neq in Nx.
  destruct (inverse_spec x Cx Nx) as [E [Cy V]]. exists (inverse_chain x). split; [exact E|]. split; [exact Cy|].
  destruct (mul_spec _ x Cy Cx) as [C Vm]. apply repr_unique; [exact C|exact canon_one|].
  rewrite Vm, V. reflexivity.
Qed.

Theorem bfe_batch_inversion_spec l : Forall canon l -> Forall (fun x => x <> 0) l ->
  exists r, bfe_batch_inversion l = Some r /\
            Forall2 (fun x y => canon y /\ (val y * val x) mod P = 1) l r.
Proof.
  intros Hc Hn.
  assert (Hn' : Forall (fun x => (x =? bfe_zero) = false) l).
  { rewrite Forall_forall in *. intros x Hx. rewrite zero_is_zero. apply Z.eqb_neq. auto. }
  destruct (batch_inversion_spec Z bfe_one bfe_mul (fun x => x =? bfe_zero) inverse canon
              canon_one (fun x y Cx Cy => proj1 (mul_spec x y Cx Cy)) bfe_mul_assoc bfe_mul_comm bfe_mul_one_l
              eq_refl bfe_nz_mul bfe_inv_ok l Hc Hn') as [r [E F2]].
  exists r. split; [exact E|].
  clear E Hn'. induction F2 as [|x y l' r' [Cy Hy] _ IH]; constructor.
  - split; [exact Cy|]. pose proof (Forall_inv Hc) as Cx.
    destruct (mul_spec y x Cy Cx) as [_ V]. rewrite <- V, Hy. reflexivity.
  - apply IH; [exact (Forall_inv_tail Hc)|exact (Forall_inv_tail Hn)].
Qed.

Theorem bfe_batch_inversion_zero_panics l : In 0 l -> bfe_batch_inversion l = None.
Proof.
  intros H. apply batch_inversion_zero_panics. apply Exists_exists. exists 0. split; [exact H|reflexivity].
Qed.
