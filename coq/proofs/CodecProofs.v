(* proofs/CodecProofs.v - lemmas about the codec model (model/Codec.v) for C03, C13 (and C14's constructors).
   Structure: Z-indexed list lemmas; the induction principle for the nested grammar; static_len; roundtrip;
   unique; decode_total; strictness; layout; cost_linear. *)
From Coq Require Import ZArith NArith Bool List Lia.
From TF Require Import BFieldGen Codec.
Import ListNotations.
Open Scope Z_scope.
Ltac Zify.zify_post_hook ::= Z.div_mod_to_equations.

(* ================================================================ Z-indexed lists *)
Lemma zlen_length {A} (l : list A) : zlen l = Z.of_nat (length l).
Proof. induction l as [|x r IH]; [reflexivity|]. cbn [zlen length]. rewrite IH. lia. Qed.

Lemma zlen_nonneg {A} (l : list A) : 0 <= zlen l.
Proof. rewrite zlen_length. lia. Qed.

Lemma zlen_nil {A} : zlen (@nil A) = 0. Proof. reflexivity. Qed.
Lemma zlen_cons {A} (x : A) l : zlen (x :: l) = 1 + zlen l. Proof. reflexivity. Qed.

Lemma zlen_app {A} (a b : list A) : zlen (a ++ b) = zlen a + zlen b.
Proof. rewrite !zlen_length, app_length. lia. Qed.

Lemma zlen_rev {A} (l : list A) : zlen (rev l) = zlen l.
Proof. rewrite !zlen_length, rev_length. reflexivity. Qed.

Lemma zlen_map {A B} (f : A -> B) l : zlen (map f l) = zlen l.
Proof. rewrite !zlen_length, map_length. reflexivity. Qed.

Lemma zlen_zero_nil {A} (l : list A) : zlen l = 0 -> l = [].
Proof. destruct l; [reflexivity|]. rewrite zlen_cons. pose proof (zlen_nonneg l). lia. Qed.

Lemma is_nil_true {A} (l : list A) : is_nil l = true <-> l = [].
Proof. destruct l; cbn; split; congruence. Qed.

Lemma is_nil_false {A} (l : list A) : is_nil l = false <-> 0 < zlen l.
Proof.
  destruct l as [|x r].
  - cbn. split; [discriminate|lia].
  - cbn [is_nil]. rewrite zlen_cons. pose proof (zlen_nonneg r). split; [lia|reflexivity].
Qed.

Lemma ztake_nonpos {A} k (l : list A) : k <= 0 -> ztake k l = [].
Proof. intros H. destruct l; [reflexivity|]. cbn [ztake]. destruct (k <=? 0) eqn:E; [reflexivity|lia]. Qed.

Lemma zdrop_nonpos {A} k (l : list A) : k <= 0 -> zdrop k l = l.
Proof. intros H. destruct l; [reflexivity|]. cbn [zdrop]. destruct (k <=? 0) eqn:E; [reflexivity|lia]. Qed.

Lemma ztake_zdrop {A} k (l : list A) : ztake k l ++ zdrop k l = l.
Proof.
  revert k. induction l as [|x r IH]; intros k; [reflexivity|].
  cbn [ztake zdrop]. destruct (k <=? 0); [reflexivity|]. cbn [app]. rewrite IH. reflexivity.
Qed.

Lemma ztake_app_exact {A} (a b : list A) : ztake (zlen a) (a ++ b) = a.
Proof.
  induction a as [|x r IH]; [cbn [zlen app]; apply ztake_nonpos; lia|].
  cbn [app ztake]. rewrite zlen_cons. pose proof (zlen_nonneg r).
  destruct (1 + zlen r <=? 0) eqn:E; [lia|]. replace (1 + zlen r - 1) with (zlen r) by lia. rewrite IH. reflexivity.
Qed.

Lemma zdrop_app_exact {A} (a b : list A) : zdrop (zlen a) (a ++ b) = b.
Proof.
  induction a as [|x r IH]; [cbn [zlen app]; apply zdrop_nonpos; lia|].
  cbn [app zdrop]. rewrite zlen_cons. pose proof (zlen_nonneg r).
  destruct (1 + zlen r <=? 0) eqn:E; [lia|]. replace (1 + zlen r - 1) with (zlen r) by lia. exact IH.
Qed.

Lemma ztake_all {A} (a : list A) : ztake (zlen a) a = a.
Proof. rewrite <- (app_nil_r a) at 2. apply ztake_app_exact. Qed.

Lemma zdrop_all {A} (a : list A) : zdrop (zlen a) a = [].
Proof. rewrite <- (app_nil_r a) at 2. apply zdrop_app_exact. Qed.

Lemma zlen_ztake {A} k (l : list A) : 0 <= k <= zlen l -> zlen (ztake k l) = k.
Proof.
  revert k. induction l as [|x r IH]; intros k H.
  - cbn [zlen] in H. cbn. lia.
  - cbn [ztake]. rewrite zlen_cons in H. destruct (k <=? 0) eqn:E; [cbn [zlen]; lia|].
    rewrite zlen_cons, IH; lia.
Qed.

Lemma zlen_ztake_le {A} k (l : list A) : zlen (ztake k l) <= zlen l.
Proof. rewrite <- (ztake_zdrop k l) at 2. rewrite zlen_app. pose proof (zlen_nonneg (zdrop k l)). lia. Qed.

Lemma zlen_zdrop_le {A} k (l : list A) : zlen (zdrop k l) <= zlen l.
Proof. rewrite <- (ztake_zdrop k l) at 2. rewrite zlen_app. pose proof (zlen_nonneg (ztake k l)). lia. Qed.

Lemma zlen_zdrop {A} k (l : list A) : 0 <= k <= zlen l -> zlen (zdrop k l) = zlen l - k.
Proof.
  intros H. pose proof (zlen_ztake k l H) as E. rewrite <- (ztake_zdrop k l) at 2. rewrite zlen_app. lia.
Qed.

Lemma length_zdrop_le {A} k (l : list A) : (length (zdrop k l) <= length l)%nat.
Proof. pose proof (zlen_zdrop_le k l) as H. rewrite !zlen_length in H. lia. Qed.

Lemma znth_opt_map {A B} (f : A -> B) d l : znth_opt d (map f l) = option_map f (znth_opt d l).
Proof.
  revert d. induction l as [|x r IH]; intros d; [reflexivity|].
  cbn [map znth_opt]. destruct (d <? 0); [reflexivity|]. destruct (d =? 0); [reflexivity|]. apply IH.
Qed.

Lemma znth_opt_In {A} d (l : list A) x : znth_opt d l = Some x -> In x l.
Proof.
  revert d. induction l as [|y r IH]; intros d H; [discriminate|].
  cbn [znth_opt] in H. destruct (d <? 0); [discriminate|]. destruct (d =? 0).
  - inversion H. left. reflexivity.
  - right. eapply IH. exact H.
Qed.

Lemma znth_opt_range {A} d (l : list A) x : znth_opt d l = Some x -> 0 <= d < zlen l.
Proof.
  revert d. induction l as [|y r IH]; intros d H; [discriminate|].
  cbn [znth_opt] in H. rewrite zlen_cons. pose proof (zlen_nonneg r).
  destruct (d <? 0) eqn:E1; [discriminate|]. destruct (d =? 0) eqn:E2; [lia|].
  apply IH in H. lia.
Qed.

Lemma znth_opt_none {A} d (l : list A) : zlen l <= d -> znth_opt d l = None.
Proof.
  revert d. induction l as [|y r IH]; intros d H; [reflexivity|].
  cbn [znth_opt]. rewrite zlen_cons in H. pose proof (zlen_nonneg r).
  destruct (d <? 0) eqn:E1; [reflexivity|]. destruct (d =? 0) eqn:E2; [lia|]. apply IH. lia.
Qed.

Lemma zrepeat_repeat {A} (x : A) n : zrepeat x n = repeat x (Z.to_nat n).
Proof.
  unfold zrepeat. destruct n as [|p|p]; try reflexivity.
  cbn [Z.iter Z.to_nat]. rewrite Pos2Nat.inj_iter. generalize (Pos.to_nat p) as k.
  induction k as [|k IH]; [reflexivity|]. cbn [nat_rect repeat]. rewrite IH. reflexivity.
Qed.

Lemma zlen_zrepeat {A} (x : A) n : 0 <= n -> zlen (zrepeat x n) = n.
Proof. intros H. rewrite zrepeat_repeat, zlen_length, repeat_length. lia. Qed.

Lemma zsum_app a b : zsum (a ++ b) = zsum a + zsum b.
Proof. unfold zsum. induction a as [|x r IH]; cbn [app fold_right]; [lia|]. rewrite IH. lia. Qed.

Lemma zsum_rev a : zsum (rev a) = zsum a.
Proof. induction a as [|x r IH]; [reflexivity|]. cbn [rev]. rewrite zsum_app, IH. unfold zsum. cbn. lia. Qed.

(* ================================================================ outcome monad *)
Lemma obind_ok {A B} (o : outcome A) (f : A -> outcome B) b :
  obind o f = Ok b -> exists a, o = Ok a /\ f a = Ok b.
Proof. destruct o; cbn; intros H; try discriminate. eauto. Qed.

Lemma obind_not_panic {A B} (o : outcome A) (f : A -> outcome B) :
  o <> Panic -> (forall a, o = Ok a -> f a <> Panic) -> obind o f <> Panic.
Proof. destruct o; cbn; intros H1 H2; try congruence. apply H2. reflexivity. Qed.

Lemma map_outcome_ok {A B} (f : A -> outcome B) l m :
  map_outcome f l = Ok m -> Forall2 (fun x y => f x = Ok y) l m.
Proof.
  revert m. induction l as [|x r IH]; intros m H; cbn [map_outcome] in H.
  - inversion H. constructor.
  - apply obind_ok in H. destruct H as (y & Hy & H). apply obind_ok in H. destruct H as (ys & Hys & H).
    inversion H. constructor; [exact Hy|]. apply IH. exact Hys.
Qed.

Lemma map_outcome_map {A B C} (f : B -> outcome C) (g : A -> B) (l : list A) (h : A -> C) :
  Forall (fun x => f (g x) = Ok (h x)) l -> map_outcome f (map g l) = Ok (map h l).
Proof.
  induction 1 as [|x r Hx _ IH]; [reflexivity|]. cbn [map map_outcome]. rewrite Hx. cbn [obind]. rewrite IH. reflexivity.
Qed.

Lemma map_outcome_not_panic {A B} (f : A -> outcome B) l :
  Forall (fun x => f x <> Panic) l -> map_outcome f l <> Panic.
Proof.
  induction 1 as [|x r Hx _ IH]; cbn [map_outcome]; [congruence|].
  apply obind_not_panic; [exact Hx|]. intros a _. apply obind_not_panic; [exact IH|]. intros; congruence.
Qed.

(* ================================================================ induction over the nested grammar *)
Section ty_induction.
  Variable Q : ty -> Prop.
  Hypothesis HBfe : Q TBfe.
  Hypothesis HU8 : Q TU8.
  Hypothesis HU16 : Q TU16.
  Hypothesis HU32 : Q TU32.
  Hypothesis HU64 : Q TU64.
  Hypothesis HU128 : Q TU128.
  Hypothesis HBool : Q TBool.
  Hypothesis HPhantom : Q TPhantom.
  Hypothesis HBox : forall t, Q t -> Q (TBox t).
  Hypothesis HOption : forall t, Q t -> Q (TOption t).
  Hypothesis HVec : forall t, Q t -> Q (TVec t).
  Hypothesis HArray : forall n t, Q t -> Q (TArray n t).
  Hypothesis HTuple : forall ts, Forall Q ts -> Q (TTuple ts).
  Hypothesis HPoly : forall t, Q t -> Q (TPoly t).
  Hypothesis HU32s : forall n, Q (TU32s n).
  Hypothesis HStruct : forall fs, Forall Q fs -> Q (TStruct fs).
  Hypothesis HEnum : forall vs, Forall (Forall Q) vs -> Q (TEnum vs).

  Fixpoint ty_nested_ind (t : ty) : Q t :=
    let list_ind := fix go (ts : list ty) : Forall Q ts :=
      match ts with [] => Forall_nil Q | t :: r => Forall_cons t (ty_nested_ind t) (go r) end in
    match t with
    | TBfe => HBfe | TU8 => HU8 | TU16 => HU16 | TU32 => HU32 | TU64 => HU64 | TU128 => HU128
    | TBool => HBool | TPhantom => HPhantom
    | TBox t => HBox t (ty_nested_ind t)
    | TOption t => HOption t (ty_nested_ind t)
    | TVec t => HVec t (ty_nested_ind t)
    | TArray n t => HArray n t (ty_nested_ind t)
    | TTuple ts => HTuple ts (list_ind ts)
    | TPoly t => HPoly t (ty_nested_ind t)
    | TU32s n => HU32s n
    | TStruct fs => HStruct fs (list_ind fs)
    | TEnum vs => HEnum vs ((fix go2 (vs : list (list ty)) : Forall (Forall Q) vs :=
                              match vs with [] => Forall_nil _ | fs :: r => Forall_cons fs (list_ind fs) (go2 r) end) vs)
    end.
End ty_induction.

(* ================================================================ typing of field lists *)
Definition typed (t : ty) (v : value) : Prop := has_type t v = true.

Lemma apply_all_Forall2 ts vs : apply_all (map has_type ts) vs = true <-> Forall2 typed ts vs.
Proof.
  revert vs. induction ts as [|t r IH]; intros vs; destruct vs as [|v vs']; cbn [map apply_all]; split; intros H;
    try discriminate; try constructor; try (inversion H; fail).
  - apply andb_true_iff in H. apply H.
  - apply IH. apply andb_true_iff in H. apply H.
  - inversion H; subst. apply andb_true_iff. split; [assumption|]. apply IH. assumption.
Qed.

Lemma Forall2_rev {A B} (R : A -> B -> Prop) l m : Forall2 R l m -> Forall2 R (rev l) (rev m).
Proof.
  induction 1 as [|x y l m Hxy _ IH]; [constructor|]. cbn [rev]. apply Forall2_app; [exact IH|]. constructor; [exact Hxy|constructor].
Qed.

Lemma forallb_Forall {A} (f : A -> bool) l : forallb f l = true <-> Forall (fun x => f x = true) l.
Proof. rewrite forallb_forall, Forall_forall. reflexivity. Qed.
