(* proofs/CodecProofs.v - lemmas about the codec model (model/Codec.v) for C03, C13 (and C14's constructors).
   Structure: Z-indexed list lemmas; the induction principle for the nested grammar; static_len; roundtrip;
   unique; decode_total; strictness; layout; cost_linear. *)
From Coq Require Import ZArith NArith Bool List Lia.
From TF Require Import BFieldGen Codec.
Import ListNotations.
Open Scope Z_scope.
Ltac Zify.zify_post_hook ::= Z.div_mod_to_equations.

Ltac bool2prop := repeat match goal with
  | H : (_ <? _) = true |- _ => apply Z.ltb_lt in H
  | H : (_ <? _) = false |- _ => apply Z.ltb_ge in H
  | H : (_ <=? _) = true |- _ => apply Z.leb_le in H
  | H : (_ <=? _) = false |- _ => apply Z.leb_gt in H
  | H : (_ =? _) = true |- _ => apply Z.eqb_eq in H
  | H : (_ =? _) = false |- _ => apply Z.eqb_neq in H
  end.
Ltac blia := bool2prop; lia.

(* ================================================================ Z-indexed lists *)
Lemma zlen_length {A} (l : list A) : zlen l = Z.of_nat (length l).
Proof. induction l as [|x r IH]; [reflexivity|]. cbn [zlen length]. rewrite IH. lia. Qed.

Lemma zlen_nonneg {A} (l : list A) : 0 <= zlen l.
Proof. rewrite zlen_length. lia. Qed.

Lemma zlen_nil {A} : zlen (@nil A) = 0. Proof. reflexivity. Qed.
Lemma zlen_cons {A} (x : A) l : zlen (x :: l) = 1 + zlen l. Proof. reflexivity. Qed.

Lemma zlen_app {A} (a b : list A) : zlen (a ++ b) = zlen a + zlen b.
Proof. rewrite !zlen_length, app_length. lia. Qed.

Lemma zlen_rev {A} (l : list A) : zlen (rev l) = zlen l.
Proof. rewrite !zlen_length, rev_length. reflexivity. Qed.

Lemma zlen_map {A B} (f : A -> B) l : zlen (map f l) = zlen l.
Proof. rewrite !zlen_length, map_length. reflexivity. Qed.

Lemma zlen_zero_nil {A} (l : list A) : zlen l = 0 -> l = [].
Proof. destruct l; [reflexivity|]. rewrite zlen_cons. pose proof (zlen_nonneg l). lia. Qed.

Lemma is_nil_true {A} (l : list A) : is_nil l = true <-> l = [].
Proof. destruct l; cbn; split; congruence. Qed.

Lemma is_nil_false {A} (l : list A) : is_nil l = false <-> 0 < zlen l.
Proof.
  destruct l as [|x r].
  - cbn. split; [discriminate|lia].
  - cbn [is_nil]. rewrite zlen_cons. pose proof (zlen_nonneg r). split; [lia|reflexivity].
Qed.

Lemma ztake_nonpos {A} k (l : list A) : k <= 0 -> ztake k l = [].
Proof. intros H. destruct l; [reflexivity|]. cbn [ztake]. destruct (k <=? 0) eqn:E; [reflexivity|lia]. Qed.

Lemma zdrop_nonpos {A} k (l : list A) : k <= 0 -> zdrop k l = l.
Proof. intros H. destruct l; [reflexivity|]. cbn [zdrop]. destruct (k <=? 0) eqn:E; [reflexivity|lia]. Qed.

Lemma ztake_zdrop {A} k (l : list A) : ztake k l ++ zdrop k l = l.
Proof.
  revert k. induction l as [|x r IH]; intros k; [reflexivity|].
  cbn [ztake zdrop]. destruct (k <=? 0); [reflexivity|]. cbn [app]. rewrite IH. reflexivity.
Qed.

Lemma ztake_app_exact {A} (a b : list A) : ztake (zlen a) (a ++ b) = a.
Proof.
  induction a as [|x r IH]; [cbn [zlen app]; apply ztake_nonpos; lia|].
  cbn [app ztake]. rewrite zlen_cons. pose proof (zlen_nonneg r).
  destruct (1 + zlen r <=? 0) eqn:E; [lia|]. replace (1 + zlen r - 1) with (zlen r) by lia. rewrite IH. reflexivity.
Qed.

Lemma zdrop_app_exact {A} (a b : list A) : zdrop (zlen a) (a ++ b) = b.
Proof.
  induction a as [|x r IH]; [cbn [zlen app]; apply zdrop_nonpos; lia|].
  cbn [app zdrop]. rewrite zlen_cons. pose proof (zlen_nonneg r).
  destruct (1 + zlen r <=? 0) eqn:E; [lia|]. replace (1 + zlen r - 1) with (zlen r) by lia. exact IH.
Qed.

Lemma ztake_all {A} (a : list A) : ztake (zlen a) a = a.
Proof. rewrite <- (app_nil_r a) at 2. apply ztake_app_exact. Qed.

Lemma zdrop_all {A} (a : list A) : zdrop (zlen a) a = [].
Proof. rewrite <- (app_nil_r a) at 2. apply zdrop_app_exact. Qed.

Lemma zlen_ztake {A} k (l : list A) : 0 <= k <= zlen l -> zlen (ztake k l) = k.
Proof.
  revert k. induction l as [|x r IH]; intros k H.
  - cbn [zlen] in H. cbn. lia.
  - cbn [ztake]. rewrite zlen_cons in H. destruct (k <=? 0) eqn:E; [cbn [zlen]; lia|].
    rewrite zlen_cons, IH; lia.
Qed.

Lemma zlen_ztake_le {A} k (l : list A) : zlen (ztake k l) <= zlen l.
Proof. rewrite <- (ztake_zdrop k l) at 2. rewrite zlen_app. pose proof (zlen_nonneg (zdrop k l)). lia. Qed.

Lemma zlen_zdrop_le {A} k (l : list A) : zlen (zdrop k l) <= zlen l.
Proof. rewrite <- (ztake_zdrop k l) at 2. rewrite zlen_app. pose proof (zlen_nonneg (ztake k l)). lia. Qed.

Lemma zlen_zdrop {A} k (l : list A) : 0 <= k <= zlen l -> zlen (zdrop k l) = zlen l - k.
Proof.
  intros H. pose proof (zlen_ztake k l H) as E. rewrite <- (ztake_zdrop k l) at 2. rewrite zlen_app. lia.
Qed.

Lemma length_zdrop_le {A} k (l : list A) : (length (zdrop k l) <= length l)%nat.
Proof. pose proof (zlen_zdrop_le k l) as H. rewrite !zlen_length in H. lia. Qed.

Lemma znth_opt_map {A B} (f : A -> B) d l : znth_opt d (map f l) = option_map f (znth_opt d l).
Proof.
  revert d. induction l as [|x r IH]; intros d; [reflexivity|].
  cbn [map znth_opt]. destruct (d <? 0); [reflexivity|]. destruct (d =? 0); [reflexivity|]. apply IH.
Qed.

Lemma znth_opt_In {A} d (l : list A) x : znth_opt d l = Some x -> In x l.
Proof.
  revert d. induction l as [|y r IH]; intros d H; [discriminate|].
  cbn [znth_opt] in H. destruct (d <? 0); [discriminate|]. destruct (d =? 0).
  - inversion H. left. reflexivity.
  - right. eapply IH. exact H.
Qed.

Lemma znth_opt_range {A} d (l : list A) x : znth_opt d l = Some x -> 0 <= d < zlen l.
Proof.
  revert d. induction l as [|y r IH]; intros d H; [discriminate|].
  cbn [znth_opt] in H. rewrite zlen_cons. pose proof (zlen_nonneg r).
  destruct (d <? 0) eqn:E1; [discriminate|]. destruct (d =? 0) eqn:E2; [lia|].
  apply IH in H. lia.
Qed.

Lemma znth_opt_none {A} d (l : list A) : zlen l <= d -> znth_opt d l = None.
Proof.
  revert d. induction l as [|y r IH]; intros d H; [reflexivity|].
  cbn [znth_opt]. rewrite zlen_cons in H. pose proof (zlen_nonneg r).
  destruct (d <? 0) eqn:E1; [reflexivity|]. destruct (d =? 0) eqn:E2; [lia|]. apply IH. lia.
Qed.

Lemma zrepeat_repeat {A} (x : A) n : zrepeat x n = repeat x (Z.to_nat n).
Proof.
  unfold zrepeat. destruct n as [|p|p]; try reflexivity.
  cbn [Z.iter Z.to_nat]. rewrite Pos2Nat.inj_iter. generalize (Pos.to_nat p) as k.
  induction k as [|k IH]; [reflexivity|]. cbn [nat_rect repeat]. rewrite IH. reflexivity.
Qed.

Lemma zlen_zrepeat {A} (x : A) n : 0 <= n -> zlen (zrepeat x n) = n.
Proof. intros H. rewrite zrepeat_repeat, zlen_length, repeat_length. lia. Qed.

Lemma zsum_app a b : zsum (a ++ b) = zsum a + zsum b.
Proof. unfold zsum. induction a as [|x r IH]; cbn [app fold_right]; [lia|]. rewrite IH. lia. Qed.

Lemma zsum_rev a : zsum (rev a) = zsum a.
Proof. induction a as [|x r IH]; [reflexivity|]. cbn [rev]. rewrite zsum_app, IH. unfold zsum. cbn. lia. Qed.

(* ================================================================ outcome monad *)
Lemma obind_ok {A B} (o : outcome A) (f : A -> outcome B) b :
  obind o f = Ok b -> exists a, o = Ok a /\ f a = Ok b.
Proof. destruct o; cbn; intros H; try discriminate. eauto. Qed.

Lemma obind_not_panic {A B} (o : outcome A) (f : A -> outcome B) :
  o <> Panic -> (forall a, o = Ok a -> f a <> Panic) -> obind o f <> Panic.
Proof. destruct o; cbn; intros H1 H2; try congruence. apply H2. reflexivity. Qed.

Lemma map_outcome_ok {A B} (f : A -> outcome B) l m :
  map_outcome f l = Ok m -> Forall2 (fun x y => f x = Ok y) l m.
Proof.
  revert m. induction l as [|x r IH]; intros m H; cbn [map_outcome] in H.
  - inversion H. constructor.
  - apply obind_ok in H. destruct H as (y & Hy & H). apply obind_ok in H. destruct H as (ys & Hys & H).
    inversion H. constructor; [exact Hy|]. apply IH. exact Hys.
Qed.

Lemma map_outcome_map {A B C} (f : B -> outcome C) (g : A -> B) (l : list A) (h : A -> C) :
  Forall (fun x => f (g x) = Ok (h x)) l -> map_outcome f (map g l) = Ok (map h l).
Proof.
  induction 1 as [|x r Hx _ IH]; [reflexivity|]. cbn [map map_outcome]. rewrite Hx. cbn [obind]. rewrite IH. reflexivity.
Qed.

Lemma map_outcome_not_panic {A B} (f : A -> outcome B) l :
  Forall (fun x => f x <> Panic) l -> map_outcome f l <> Panic.
Proof.
  induction 1 as [|x r Hx _ IH]; cbn [map_outcome]; [congruence|].
  apply obind_not_panic; [exact Hx|]. intros a _. apply obind_not_panic; [exact IH|]. intros; congruence.
Qed.

(* ================================================================ induction over the nested grammar *)
Section ty_induction.
  Variable Q : ty -> Prop.
  Hypothesis HBfe : Q TBfe.
  Hypothesis HU8 : Q TU8.
  Hypothesis HU16 : Q TU16.
  Hypothesis HU32 : Q TU32.
  Hypothesis HU64 : Q TU64.
  Hypothesis HU128 : Q TU128.
  Hypothesis HBool : Q TBool.
  Hypothesis HPhantom : Q TPhantom.
  Hypothesis HBox : forall t, Q t -> Q (TBox t).
  Hypothesis HOption : forall t, Q t -> Q (TOption t).
  Hypothesis HVec : forall t, Q t -> Q (TVec t).
  Hypothesis HArray : forall n t, Q t -> Q (TArray n t).
  Hypothesis HTuple : forall ts, Forall Q ts -> Q (TTuple ts).
  Hypothesis HPoly : forall t, Q t -> Q (TPoly t).
  Hypothesis HU32s : forall n, Q (TU32s n).
  Hypothesis HStruct : forall fs, Forall Q fs -> Q (TStruct fs).
  Hypothesis HEnum : forall vs, Forall (Forall Q) vs -> Q (TEnum vs).

  Fixpoint ty_nested_ind (t : ty) : Q t :=
    let list_ind := fix go (ts : list ty) : Forall Q ts :=
      match ts with [] => Forall_nil Q | t :: r => Forall_cons t (ty_nested_ind t) (go r) end in
    match t with
    | TBfe => HBfe | TU8 => HU8 | TU16 => HU16 | TU32 => HU32 | TU64 => HU64 | TU128 => HU128
    | TBool => HBool | TPhantom => HPhantom
    | TBox t => HBox t (ty_nested_ind t)
    | TOption t => HOption t (ty_nested_ind t)
    | TVec t => HVec t (ty_nested_ind t)
    | TArray n t => HArray n t (ty_nested_ind t)
    | TTuple ts => HTuple ts (list_ind ts)
    | TPoly t => HPoly t (ty_nested_ind t)
    | TU32s n => HU32s n
    | TStruct fs => HStruct fs (list_ind fs)
    | TEnum vs => HEnum vs ((fix go2 (vs : list (list ty)) : Forall (Forall Q) vs :=
                              match vs with [] => Forall_nil _ | fs :: r => Forall_cons fs (list_ind fs) (go2 r) end) vs)
    end.
End ty_induction.

(* ================================================================ typing of field lists *)
Definition typed (t : ty) (v : value) : Prop := has_type t v = true.

Lemma apply_all_Forall2 ts vs : apply_all (map has_type ts) vs = true <-> Forall2 typed ts vs.
Proof.
  revert vs. induction ts as [|t r IH]; intros vs; destruct vs as [|v vs']; cbn [map apply_all]; split; intros H;
    try discriminate; try constructor; try (inversion H; fail).
  - apply andb_true_iff in H. apply H.
  - apply IH. apply andb_true_iff in H. apply H.
  - inversion H; subst. apply andb_true_iff. split; [assumption|]. apply IH. assumption.
Qed.

Lemma Forall2_rev {A B} (R : A -> B -> Prop) l m : Forall2 R l m -> Forall2 R (rev l) (rev m).
Proof.
  induction 1 as [|x y l m Hxy _ IH]; [constructor|]. cbn [rev]. apply Forall2_app; [exact IH|]. constructor; [exact Hxy|constructor].
Qed.

Lemma forallb_Forall {A} (f : A -> bool) l : forallb f l = true <-> Forall (fun x => f x = true) l.
Proof. rewrite forallb_forall, Forall_forall. reflexivity. Qed.

(* ================================================================ static_len *)
Lemma sum_opt_app a b :
  sum_opt (a ++ b) = match sum_opt a, sum_opt b with Some x, Some y => Some (x + y) | _, _ => None end.
Proof.
  induction a as [|o r IH]; cbn [app sum_opt].
  - destruct (sum_opt b); [f_equal|]; reflexivity.
  - rewrite IH. destruct o; [|reflexivity]. destruct (sum_opt r); [|reflexivity].
    destruct (sum_opt b); [|reflexivity]. f_equal. lia.
Qed.

Lemma sum_opt_rev l : sum_opt (rev l) = sum_opt l.
Proof.
  induction l as [|o r IH]; [reflexivity|]. cbn [rev]. rewrite sum_opt_app, IH. cbn [sum_opt].
  destruct o; destruct (sum_opt r); try reflexivity. f_equal. lia.
Qed.

Lemma zlen_flat_map_const {A B} (f : A -> list B) w l :
  Forall (fun v => zlen (f v) = w) l -> zlen (flat_map f l) = w * zlen l.
Proof.
  induction 1 as [|x r Hx _ IH]; cbn [flat_map]; [cbn [zlen]; lia|]. rewrite zlen_app, zlen_cons, IH, Hx. lia.
Qed.

Definition encs (ts : list ty) := map (fun t => (static_length t, encode t)) ts.
Definition decs (chk : bool) (ts : list ty) := map (fun t => (static_length t, decode chk t)) ts.

Lemma encs_rev ts : rev (encs ts) = encs (rev ts).
Proof. unfold encs. symmetry. apply map_rev. Qed.
Lemma decs_rev chk ts : rev (decs chk ts) = decs chk (rev ts).
Proof. unfold decs. symmetry. apply map_rev. Qed.

Definition static_len_at (t : ty) : Prop :=
  forall n v, static_length t = Some n -> typed t v -> zlen (encode t v) = n.

Lemma enc_fields_static_len ts vs n :
  Forall static_len_at ts -> sum_opt (map static_length ts) = Some n -> Forall2 typed ts vs ->
  zlen (enc_fields (encs ts) vs) = n.
Proof.
  intros HQ Hs HT. revert n HQ Hs. induction HT as [|t v ts vs Htv _ IH]; intros n HQ Hs.
  - cbn in Hs. inversion Hs. reflexivity.
  - inversion HQ as [|? ? Ht Hr]; subst. cbn [map sum_opt] in Hs.
    destruct (static_length t) as [a|] eqn:Ea; [|discriminate].
    destruct (sum_opt (map static_length ts)) as [b|] eqn:Eb; [|discriminate]. inversion Hs; subst.
    cbn [encs map enc_fields]. rewrite Ea. cbn [with_prefix]. rewrite zlen_app.
    rewrite (Ht a v Ea Htv). fold (encs ts). rewrite (IH b Hr eq_refl). reflexivity.
Qed.

Lemma record_static_len ts vs n :
  Forall static_len_at ts -> sum_opt (map static_length ts) = Some n -> Forall2 typed ts vs ->
  zlen (enc_fields (rev (encs ts)) (rev vs)) = n.
Proof.
  intros HQ Hs HT. rewrite encs_rev. apply enc_fields_static_len.
  - apply Forall_rev. exact HQ.
  - rewrite map_rev, sum_opt_rev. exact Hs.
  - apply Forall2_rev. exact HT.
Qed.

Lemma typed_int bound v : int_below bound v = true -> exists z, v = VInt z /\ 0 <= z < bound.
Proof. destruct v; cbn; try discriminate. intros H. apply andb_true_iff in H. exists z. split; [reflexivity|lia]. Qed.

Lemma typed_list_array n t v : typed (TArray n t) v ->
  exists l, v = VList l /\ zlen l = Z.of_N n /\ Forall (typed t) l.
Proof.
  unfold typed. cbn [has_type]. destruct v; try discriminate. intros H. apply andb_true_iff in H. destruct H as [H1 H2].
  exists l. split; [reflexivity|]. split; [lia|]. apply forallb_Forall. exact H2.
Qed.

Lemma typed_list_vec t v : typed (TVec t) v -> exists l, v = VList l /\ Forall (typed t) l.
Proof.
  unfold typed. cbn [has_type]. destruct v; try discriminate. intros H.
  exists l. split; [reflexivity|]. apply forallb_Forall. exact H.
Qed.

Lemma typed_tuple ts v : typed (TTuple ts) v -> exists vs, v = VList vs /\ Forall2 typed ts vs.
Proof.
  unfold typed at 1. cbn [has_type]. destruct v; try discriminate. intros H. exists l. split; [reflexivity|].
  apply apply_all_Forall2. exact H.
Qed.

Lemma typed_struct ts v : typed (TStruct ts) v -> exists vs, v = VList vs /\ Forall2 typed ts vs.
Proof.
  unfold typed at 1. cbn [has_type]. destruct v; try discriminate. intros H. exists l. split; [reflexivity|].
  apply apply_all_Forall2. exact H.
Qed.

Lemma typed_enum vs v : typed (TEnum vs) v ->
  exists d l fs, v = VEnum d l /\ znth_opt d vs = Some fs /\ Forall2 typed fs l.
Proof.
  unfold typed at 1. cbn [has_type]. destruct v; try discriminate. rewrite znth_opt_map.
  destruct (znth_opt d vs) as [fs|] eqn:E; cbn [option_map]; [|discriminate]. intros H.
  exists d, l, fs. split; [reflexivity|]. split; [exact E|]. apply apply_all_Forall2. exact H.
Qed.

Lemma typed_u32s n v : typed (TU32s n) v ->
  exists l, v = VList l /\ zlen l = Z.of_N n /\ Forall (fun v => exists z, v = VInt z /\ 0 <= z < 4294967296) l.
Proof.
  unfold typed. cbn [has_type]. destruct v; try discriminate. intros H. apply andb_true_iff in H. destruct H as [H1 H2].
  exists l. split; [reflexivity|]. split; [lia|]. apply forallb_Forall in H2.
  eapply Forall_impl; [|exact H2]. intros a Ha. eapply typed_int; eauto.
Qed.

Lemma encode_enum vs d l fs : znth_opt d vs = Some fs ->
  encode (TEnum vs) (VEnum d l) = d :: enc_fields (rev (encs fs)) (rev l).
Proof.
  intros H. cbn [encode]. rewrite (znth_opt_map (fun fs => map (fun t => (static_length t, encode t)) fs)), H. reflexivity.
Qed.

Lemma u32s_flat_len l :
  Forall (fun v => exists z, v = VInt z /\ 0 <= z < 4294967296) l ->
  zlen (flat_map (fun v => match v with VInt z => [z] | _ => [] end) l) = zlen l.
Proof.
  intros H. rewrite (zlen_flat_map_const _ 1); [lia|]. eapply Forall_impl; [|exact H].
  intros a (z & -> & _). reflexivity.
Qed.

Lemma enum_static_length_inv vs n :
  enum_static_length vs (map (fun fs => sum_opt (map static_length fs)) vs) = Some n ->
  forall fs, In fs vs -> sum_opt (map static_length fs) = Some (n - 1).
Proof.
  unfold enum_static_length. destruct (forallb is_nil vs) eqn:E.
  - intros H fs Hin. inversion H; subst. rewrite forallb_forall in E. apply E in Hin. apply is_nil_true in Hin. subst. reflexivity.
  - destruct (map (fun fs => sum_opt (map static_length fs)) vs) as [|o r] eqn:Em.
    + destruct vs; [discriminate E|discriminate Em].
    + destruct o as [l0|]; [|discriminate].
      destruct (forallb opt_is_some (Some l0 :: r) && forallb (opt_z_eqb (Some l0)) (Some l0 :: r)) eqn:Ef; [|discriminate].
      intros H fs Hin. inversion H; subst. apply andb_true_iff in Ef. destruct Ef as [_ Ef].
      rewrite <- Em in Ef. rewrite forallb_forall in Ef.
      specialize (Ef (sum_opt (map static_length fs))). 
      assert (Hi : In (sum_opt (map static_length fs)) (map (fun fs => sum_opt (map static_length fs)) vs)).
      { apply in_map_iff. exists fs. split; [reflexivity|exact Hin]. }
      apply Ef in Hi. destruct (sum_opt (map static_length fs)); cbn in Hi; [|discriminate].
      f_equal. lia.
Qed.

Theorem static_len : forall t, static_len_at t.
Proof.
  apply ty_nested_ind; unfold static_len_at.
  1-6: intros n v H Ht; cbn in H; inversion H; subst; apply typed_int in Ht; destruct Ht as (z & -> & _); reflexivity.
  - intros n v H Ht. cbn in H. inversion H; subst. unfold typed in Ht. destruct v; try discriminate. reflexivity.
  - intros n v H Ht. cbn in H. inversion H; subst. reflexivity.
  - intros t IH n v H Ht. cbn [static_length] in H. cbn [encode]. apply IH; assumption.
  - intros t _ n v H. discriminate.
  - intros t _ n v H. discriminate.
  - intros k t IH n v H Ht. cbn [static_length] in H. destruct (static_length t) as [w|] eqn:Ew; [|discriminate].
    inversion H; subst. apply typed_list_array in Ht. destruct Ht as (l & -> & Hl & Hall). cbn [encode].
    unfold enc_list. rewrite Ew. rewrite (zlen_flat_map_const _ w); [lia|].
    eapply Forall_impl; [|exact Hall]. intros a Ha. cbn [with_prefix]. apply IH; [reflexivity|exact Ha].
  - intros ts IH n v H Ht. apply typed_tuple in Ht. destruct Ht as (vs & -> & HT). cbn [static_length] in H. cbn [encode].
    apply (record_static_len ts vs n IH H HT).
  - intros t _ n v H. discriminate.
  - intros k n v H Ht. cbn in H. inversion H; subst. apply typed_u32s in Ht. destruct Ht as (l & -> & Hl & Hall).
    cbn [encode]. rewrite u32s_flat_len; assumption.
  - intros ts IH n v H Ht. apply typed_struct in Ht. destruct Ht as (vs & -> & HT). cbn [static_length] in H. cbn [encode].
    apply (record_static_len ts vs n IH H HT).
  - intros vs IH n v H Ht. apply typed_enum in Ht. destruct Ht as (d & l & fs & -> & Hd & HT).
    cbn [static_length] in H. rewrite (encode_enum vs d l fs Hd). rewrite zlen_cons.
    pose proof (enum_static_length_inv vs n H fs (znth_opt_In _ _ _ Hd)) as Hs.
    rewrite Forall_forall in IH. specialize (IH fs (znth_opt_In _ _ _ Hd)).
    rewrite (record_static_len fs l (n - 1) IH Hs HT). lia.
Qed.

Lemma sum_opt_nonneg l n : Forall (fun o => forall a, o = Some a -> 0 <= a) l -> sum_opt l = Some n -> 0 <= n.
Proof.
  intros H. revert n. induction H as [|o r Ho _ IH]; intros n Hs; cbn [sum_opt] in Hs.
  - inversion Hs. lia.
  - destruct o as [a|]; [|discriminate]. destruct (sum_opt r) as [b|]; [|discriminate]. inversion Hs.
    specialize (Ho a eq_refl). specialize (IH b eq_refl). lia.
Qed.

Lemma sum_opt_map_nonneg ts n :
  Forall (fun t => forall a, static_length t = Some a -> 0 <= a) ts -> sum_opt (map static_length ts) = Some n -> 0 <= n.
Proof. intros H. apply sum_opt_nonneg. apply Forall_map. exact H. Qed.

Theorem static_length_nonneg : forall t n, static_length t = Some n -> 0 <= n.
Proof.
  apply (ty_nested_ind (fun t => forall n, static_length t = Some n -> 0 <= n)); cbn [static_length].
  1-8: intros n H; inversion H; lia.
  - intros t IH. exact IH.
  - discriminate.
  - discriminate.
  - intros k t IH n H. destruct (static_length t) as [w|]; [|discriminate]. inversion H. specialize (IH w eq_refl). lia.
  - intros ts IH n H. eapply sum_opt_map_nonneg; eauto.
  - discriminate.
  - intros k n H. inversion H. lia.
  - intros ts IH n H. eapply sum_opt_map_nonneg; eauto.
  - intros vs IH n H. unfold enum_static_length in H. destruct (forallb is_nil vs); [inversion H; lia|].
    destruct vs as [|fs r]; cbn [map] in H; [inversion H; lia|].
    destruct (sum_opt (map static_length fs)) as [l0|] eqn:E; [|discriminate].
    match type of H with (if ?c then _ else _) = _ => destruct c end; [|discriminate]. inversion H.
    inversion IH as [|? ? Hfs _]; subst. pose proof (sum_opt_map_nonneg fs l0 Hfs E). lia.
Qed.

(* ================================================================ roundtrip *)
Definition B64 : Z := 18446744073709551616.
Definition roundtrip_at (chk : bool) (t : ty) : Prop :=
  forall v, typed t v -> zlen (encode t v) < B64 -> decode chk t (encode t v) = Ok v.

Lemma dec_fields_roundtrip chk ts vs :
  Forall (roundtrip_at chk) ts -> Forall2 typed ts vs -> zlen (enc_fields (encs ts) vs) < B64 ->
  dec_fields (decs chk ts) (enc_fields (encs ts) vs) = Ok vs.
Proof.
  intros HQ HT. revert HQ. induction HT as [|t v ts vs Htv _ IH]; intros HQ Hlen; [reflexivity|].
  inversion HQ as [|? ? Ht Hr]; subst. cbn [encs decs map enc_fields dec_fields] in *.
  fold (encs ts) in *. fold (decs chk ts).
  rewrite zlen_app in Hlen. pose proof (zlen_nonneg (enc_fields (encs ts) vs)) as Hnn.
  pose proof (zlen_nonneg (encode t v)) as Hnn'.
  destruct (static_length t) as [a|] eqn:Ea; cbn [with_prefix field_header] in *.
  - pose proof (static_len t a v Ea Htv) as Ha. rewrite zlen_app.
    destruct (zlen (encode t v) + zlen (enc_fields (encs ts) vs) <? a) eqn:E; [blia|].
    rewrite <- Ha, ztake_app_exact, zdrop_app_exact. rewrite (Ht v Htv) by blia. cbn [obind].
    rewrite IH by (assumption || blia). reflexivity.
  - rewrite zlen_cons in Hlen. cbn [app]. rewrite zlen_app.
    destruct (zlen (encode t v) + zlen (enc_fields (encs ts) vs) <? zlen (encode t v)) eqn:E; [blia|].
    rewrite ztake_app_exact, zdrop_app_exact. rewrite (Ht v Htv) by blia. cbn [obind].
    rewrite IH by (assumption || blia). reflexivity.
Qed.

Lemma dec_record_roundtrip chk ts vs :
  Forall (roundtrip_at chk) ts -> Forall2 typed ts vs -> zlen (enc_fields (rev (encs ts)) (rev vs)) < B64 ->
  dec_record (decs chk ts) (enc_fields (rev (encs ts)) (rev vs)) = Ok (VList vs).
Proof.
  intros HQ HT Hlen. unfold dec_record. rewrite decs_rev. rewrite encs_rev in *.
  rewrite dec_fields_roundtrip; [cbn [obind]; rewrite rev_involutive; reflexivity|apply Forall_rev; exact HQ|apply Forall2_rev; exact HT|exact Hlen].
Qed.

Lemma chunks_exact_concat w cs : 0 < w -> Forall (fun c => zlen c = w) cs ->
  forall fuel, (length (concat cs) < fuel)%nat -> chunks_exact fuel w (concat cs) = cs.
Proof.
  intros Hw. induction 1 as [|c r Hc _ IH]; intros fuel Hf.
  - destruct fuel; [blia|]. cbn [concat chunks_exact zlen]. destruct (0 <? w) eqn:E; [reflexivity|lia].
  - destruct fuel; [blia|]. cbn [concat chunks_exact]. rewrite zlen_app. pose proof (zlen_nonneg (concat r)).
    destruct (zlen c + zlen (concat r) <? w) eqn:E; [blia|].
    assert (E1 : ztake w (c ++ concat r) = c) by (rewrite <- Hc; apply ztake_app_exact).
    assert (E2 : zdrop w (c ++ concat r) = concat r) by (rewrite <- Hc; apply zdrop_app_exact).
    rewrite E1, E2. f_equal. apply IH. cbn [concat] in Hf. rewrite app_length in Hf.
    assert (0 < length c)%nat by (rewrite zlen_length in Hc; lia). lia.
Qed.

Lemma zlen_flat_map_In {A B} (f : A -> list B) l v : In v l -> zlen (f v) <= zlen (flat_map f l).
Proof.
  induction l as [|x r IH]; intros H; [destruct H|]. cbn [flat_map]. rewrite zlen_app.
  pose proof (zlen_nonneg (f x)). pose proof (zlen_nonneg (flat_map f r)).
  destruct H as [->|H]; [blia|]. apply IH in H. lia.
Qed.

Lemma all_equal_repeat {A} (x : A) l : Forall (fun y => y = x) l -> l = repeat x (length l).
Proof. induction 1 as [|y r Hy _ IH]; [reflexivity|]. cbn [length repeat]. rewrite Hy, <- IH. reflexivity. Qed.

Lemma dec_list_static_roundtrip w dec enc l : 0 <= w ->
  Forall (fun v => zlen (enc v) = w /\ dec (enc v) = Ok v) l -> zlen (flat_map enc l) < B64 ->
  dec_list_static w dec (zlen l) (flat_map enc l) = Ok l.
Proof.
  intros Hw0 H Hlen. assert (Hw : Forall (fun v => zlen (enc v) = w) l) by (eapply Forall_impl; [|exact H]; intros a Ha; apply Ha).
  pose proof (zlen_flat_map_const enc w l Hw) as Hz. pose proof (zlen_nonneg l) as Hl.
  unfold dec_list_static. unfold B64 in Hlen.
  destruct (18446744073709551616 <=? zlen l * w) eqn:E1; [blia|].
  destruct (zlen (flat_map enc l) <? zlen l * w) eqn:E2; [blia|].
  destruct (zlen l * w <? zlen (flat_map enc l)) eqn:E3; [blia|].
  destruct (w =? 0) eqn:E4.
  - destruct (zlen l <=? 0) eqn:E5.
    + rewrite (zlen_zero_nil l) by blia. reflexivity.
    + destruct l as [|v0 l']; [cbn [zlen] in E5; lia|]. inversion H as [|? ? [H0 H0'] Hr]; subst.
      assert (E0 : enc v0 = []) by (apply zlen_zero_nil; lia). rewrite E0 in H0'. rewrite H0'. cbn [obind].
      rewrite zrepeat_repeat, zlen_length, Nat2Z.id. f_equal. symmetry. apply all_equal_repeat.
      constructor; [reflexivity|]. eapply Forall_impl; [|exact Hr]. intros a [Ha Ha'].
      assert (Ea : enc a = []) by (apply zlen_zero_nil; lia). rewrite Ea in Ha'. congruence.
  - rewrite flat_map_concat_map. rewrite chunks_exact_concat.
    + rewrite <- (map_id l) at 2. apply map_outcome_map. eapply Forall_impl; [|exact H]. intros a Ha. apply Ha.
    + blia.
    + apply Forall_map. exact Hw.
    + lia.
Qed.

Definition prefixed (enc : value -> list Z) (v : value) : list Z := zlen (enc v) :: enc v.

Lemma dec_list_dyn_roundtrip chk dec enc l :
  Forall (fun v => dec (enc v) = Ok v) l ->
  forall fuel tot idx,
    (length (flat_map (prefixed enc) l) <= fuel)%nat -> tot = idx + zlen (flat_map (prefixed enc) l) -> 0 <= idx -> tot < B64 ->
    dec_list_dyn chk fuel dec tot (zlen l) idx (flat_map (prefixed enc) l) = Ok l.
Proof.
  induction 1 as [|v l' Hv _ IH]; intros fuel tot idx Hf Htot Hidx Hb.
  - destruct fuel; reflexivity.
  - cbn [flat_map] in *. unfold prefixed at 1 in Hf. unfold prefixed at 1 in Htot. unfold prefixed at 1.
    cbn [app length] in *. rewrite zlen_cons in Htot. rewrite zlen_app in Htot. rewrite app_length in Hf.
    pose proof (zlen_nonneg l'). pose proof (zlen_nonneg (enc v)). pose proof (zlen_nonneg (flat_map (prefixed enc) l')).
    destruct fuel as [|f]; [lia|]. cbn [dec_list_dyn]. rewrite zlen_cons. unfold B64 in Hb.
    destruct (1 + zlen l' <=? 0) eqn:E0; [blia|].
    destruct (18446744073709551616 <=? idx + 1 + zlen (enc v)) eqn:E1; [blia|].
    destruct (tot <? idx + 1 + zlen (enc v)) eqn:E2; [blia|].
    rewrite ztake_app_exact, zdrop_app_exact, Hv. cbn [obind].
    replace (1 + zlen l' - 1) with (zlen l') by lia. rewrite IH; [reflexivity|lia|lia|lia|unfold B64; lia].
Qed.

Lemma dec_list_roundtrip chk t l :
  roundtrip_at chk t -> Forall (typed t) l -> zlen (enc_list (static_length t) (encode t) l) < B64 ->
  dec_list chk (static_length t) (decode chk t) (zlen l) (enc_list (static_length t) (encode t) l) = Ok l.
Proof.
  intros HQ HT Hlen. unfold dec_list, enc_list in *. destruct (static_length t) as [w|] eqn:Ew; cbn [with_prefix] in *.
  - apply dec_list_static_roundtrip; [eapply static_length_nonneg; exact Ew| |exact Hlen].
    rewrite Forall_forall in *. intros v Hin. split; [apply static_len; [exact Ew|apply HT; exact Hin]|].
    apply HQ; [apply HT; exact Hin|]. eapply Z.le_lt_trans; [|exact Hlen].
    apply (zlen_flat_map_In (fun v0 => encode t v0) l v Hin).
  - change (fun v => zlen (encode t v) :: encode t v) with (prefixed (encode t)) in *.
    apply dec_list_dyn_roundtrip; [|lia|lia|lia|exact Hlen].
    rewrite Forall_forall in *. intros v Hin. apply HQ; [apply HT; exact Hin|].
    pose proof (zlen_flat_map_In (prefixed (encode t)) l v Hin) as Hle. unfold prefixed at 1 in Hle. rewrite zlen_cons in Hle. lia.
Qed.

Lemma strip_zeros_id l : last_nonzero l = true -> strip_zeros l = l.
Proof.
  unfold last_nonzero. induction l as [|c r IH]; [reflexivity|]. cbn [rev strip_zeros]. intros H.
  destruct r as [|c' r'].
  - cbn in H. cbn [strip_zeros]. destruct (value_zero c); [discriminate|reflexivity].
  - rewrite IH.
    + reflexivity.
    + destruct (rev (c' :: r')) as [|x y] eqn:E; [|exact H].
      apply (f_equal (@length _)) in E. rewrite rev_length in E. discriminate.
Qed.

Lemma limbs_u64 z : 0 <= z < 18446744073709551616 ->
  limb z 0 + 4294967296 * (limb z 1 + 4294967296 * 0) = z /\ 0 <= limb z 0 <= 4294967295 /\ 0 <= limb z 1 <= 4294967295.
Proof.
  intros H. unfold limb. change (2 ^ (32 * 0)) with 1. change (2 ^ (32 * 1)) with 4294967296. lia.
Qed.

Lemma limbs_u128 z : 0 <= z < 340282366920938463463374607431768211456 ->
  limb z 0 + 4294967296 * (limb z 1 + 4294967296 * (limb z 2 + 4294967296 * (limb z 3 + 4294967296 * 0))) = z
  /\ 0 <= limb z 0 <= 4294967295 /\ 0 <= limb z 1 <= 4294967295 /\ 0 <= limb z 2 <= 4294967295 /\ 0 <= limb z 3 <= 4294967295.
Proof.
  intros H. unfold limb. change (2 ^ (32 * 0)) with 1. change (2 ^ (32 * 1)) with 4294967296.
  change (2 ^ (32 * 2)) with (4294967296 * 4294967296). change (2 ^ (32 * 3)) with (4294967296 * 4294967296 * 4294967296).
  rewrite <- !Z.div_div by lia. rewrite Z.div_1_r.
  set (a := z / 4294967296). set (b := a / 4294967296). set (c := b / 4294967296).
  assert (z = 4294967296 * a + z mod 4294967296) by (apply Z.div_mod; lia).
  assert (a = 4294967296 * b + a mod 4294967296) by (apply Z.div_mod; lia).
  assert (b = 4294967296 * c + b mod 4294967296) by (apply Z.div_mod; lia).
  assert (0 <= z mod 4294967296 < 4294967296) by (apply Z.mod_pos_bound; lia).
  assert (0 <= a mod 4294967296 < 4294967296) by (apply Z.mod_pos_bound; lia).
  assert (0 <= b mod 4294967296 < 4294967296) by (apply Z.mod_pos_bound; lia).
  assert (0 <= c < 4294967296) by lia.
  rewrite (Z.mod_small c) by lia. lia.
Qed.

Lemma dec_fields_rev_roundtrip chk ts vs :
  Forall (roundtrip_at chk) ts -> Forall2 typed ts vs -> zlen (enc_fields (rev (encs ts)) (rev vs)) < B64 ->
  dec_fields (rev (decs chk ts)) (enc_fields (rev (encs ts)) (rev vs)) = Ok (rev vs).
Proof.
  intros HQ HT Hlen. rewrite decs_rev. rewrite encs_rev in *.
  apply dec_fields_roundtrip; [apply Forall_rev; exact HQ|apply Forall2_rev; exact HT|exact Hlen].
Qed.

Lemma u32s_roundtrip l :
  Forall (fun v => exists z, v = VInt z /\ 0 <= z < 4294967296) l ->
  map_outcome (fun x => dec_small 4294967295 [x]) (flat_map (fun v => match v with VInt z => [z] | _ => [] end) l) = Ok l.
Proof.
  induction 1 as [|v r (z & -> & Hz) _ IH]; [reflexivity|]. cbn [flat_map app map_outcome].
  change (dec_small 4294967295 [z]) with (if 4294967295 <? z then @Err value else Ok (VInt z)).
  destruct (4294967295 <? z) eqn:E; [blia|]. cbn [obind]. rewrite IH. reflexivity.
Qed.

Lemma typed_poly t v : typed (TPoly t) v -> exists l, v = VList l /\ Forall (typed t) l /\ last_nonzero l = true.
Proof.
  unfold typed. cbn [has_type]. destruct v; try discriminate. intros H. apply andb_true_iff in H. destruct H as [H1 H2].
  exists l. split; [reflexivity|]. split; [apply forallb_Forall; exact H1|exact H2].
Qed.

Lemma typed_option t v : typed (TOption t) v -> v = VNone \/ exists w, v = VSome w /\ typed t w.
Proof.
  unfold typed. cbn [has_type]. destruct v; try discriminate; intros H; [left; reflexivity|right; eauto].
Qed.

Theorem roundtrip chk : forall t, roundtrip_at chk t.
Proof.
  apply ty_nested_ind; unfold roundtrip_at.
  - (* Bfe *) intros v Ht _. apply typed_int in Ht. destruct Ht as (z & -> & _). reflexivity.
  - (* U8 *) intros v Ht _. apply typed_int in Ht. destruct Ht as (z & -> & Hz). cbn [encode decode dec_small].
    destruct (255 <? z) eqn:E; [blia|reflexivity].
  - intros v Ht _. apply typed_int in Ht. destruct Ht as (z & -> & Hz). cbn [encode decode dec_small].
    destruct (65535 <? z) eqn:E; [blia|reflexivity].
  - intros v Ht _. apply typed_int in Ht. destruct Ht as (z & -> & Hz). cbn [encode decode dec_small].
    destruct (4294967295 <? z) eqn:E; [blia|reflexivity].
  - (* U64 *) intros v Ht _. apply typed_int in Ht. destruct Ht as (z & -> & Hz).
    destruct (limbs_u64 z Hz) as (Hv & H0 & H1). cbn [encode decode]. unfold dec_big. cbn [is_nil zlen existsb limbs_value].
    change (1 + (1 + 0) <? 2) with false. change (2 <? 1 + (1 + 0)) with false. cbv iota.
    destruct (4294967295 <? limb z 0) eqn:E0; [blia|]. destruct (4294967295 <? limb z 1) eqn:E1; [blia|].
    cbn [orb]. rewrite Hv. reflexivity.
  - (* U128 *) intros v Ht _. apply typed_int in Ht. destruct Ht as (z & -> & Hz).
    destruct (limbs_u128 z Hz) as (Hv & H0 & H1 & H2 & H3). cbn [encode decode]. unfold dec_big. cbn [is_nil zlen existsb limbs_value].
    change (1 + (1 + (1 + (1 + 0))) <? 4) with false. change (4 <? 1 + (1 + (1 + (1 + 0)))) with false. cbv iota.
    destruct (4294967295 <? limb z 0) eqn:E0; [blia|]. destruct (4294967295 <? limb z 1) eqn:E1; [blia|].
    destruct (4294967295 <? limb z 2) eqn:E2; [blia|]. destruct (4294967295 <? limb z 3) eqn:E3; [blia|].
    cbn [orb]. rewrite Hv. reflexivity.
  - (* Bool *) intros v Ht _. unfold typed in Ht. destruct v; try discriminate. destruct b; reflexivity.
  - (* Phantom *) intros v Ht _. unfold typed in Ht. destruct v; try discriminate. reflexivity.
  - (* Box *) intros t IH v Ht Hl. cbn [encode decode] in *. apply IH; assumption.
  - (* Option *) intros t IH v Ht Hl. apply typed_option in Ht. destruct Ht as [->|(w & -> & Hw)]; [reflexivity|].
    cbn [encode decode dec_option] in *. change (1 =? 0) with false. change (1 =? 1) with true. cbv iota.
    rewrite zlen_cons in Hl. rewrite IH; [reflexivity|exact Hw|lia].
  - (* Vec *) intros t IH v Ht Hl. apply typed_list_vec in Ht. destruct Ht as (l & -> & Hall).
    cbn [encode decode dec_vec] in *. rewrite zlen_cons in Hl. rewrite dec_list_roundtrip; [reflexivity|exact IH|exact Hall|lia].
  - (* Array *) intros n t IH v Ht Hl. apply typed_list_array in Ht. destruct Ht as (l & -> & Hn & Hall).
    cbn [encode decode] in *. unfold dec_array.
    destruct ((0 <? Z.of_N n) && is_nil (enc_list (static_length t) (encode t) l) && negb (opt_z_eqb (static_length t) (Some 0))) eqn:G.
    + exfalso. apply andb_true_iff in G. destruct G as [G G3]. apply andb_true_iff in G. destruct G as [G1 G2].
      apply is_nil_true in G2. destruct l as [|v0 l']; [cbn [zlen] in Hn; blia|].
      inversion Hall as [|? ? Hv0 _]; subst. unfold enc_list in G2. cbn [flat_map] in G2. apply app_eq_nil in G2. destruct G2 as [G2 _].
      destruct (static_length t) as [w|] eqn:Ew; cbn [with_prefix] in G2; [|discriminate].
      pose proof (static_len t w v0 Ew Hv0) as Hw. rewrite G2 in Hw. cbn [zlen] in Hw. subst w. discriminate.
    + rewrite <- Hn. rewrite dec_list_roundtrip; [|exact IH|exact Hall|exact Hl]. cbn [obind]. rewrite Z.eqb_refl. reflexivity.
  - (* Tuple *) intros ts IH v Ht Hl. apply typed_tuple in Ht. destruct Ht as (vs & -> & HT). cbn [encode decode] in *.
    apply (dec_record_roundtrip chk ts vs IH HT Hl).
  - (* Poly *) intros t IH v Ht Hl. apply typed_poly in Ht. destruct Ht as (l & -> & Hall & Hnz).
    cbn [encode decode] in *. rewrite (strip_zeros_id l Hnz) in *. unfold dec_poly. rewrite !zlen_cons in *.
    rewrite Z.add_comm, Z.eqb_refl. cbn [dec_vec]. rewrite dec_list_roundtrip; [|exact IH|exact Hall|lia]. cbn [obind].
    rewrite Hnz. reflexivity.
  - (* U32s *) intros n v Ht Hl. apply typed_u32s in Ht. destruct Ht as (l & -> & Hn & Hall). cbn [encode decode] in *.
    unfold dec_u32s. rewrite (u32s_flat_len l Hall). 
    destruct ((0 <? Z.of_N n) && is_nil (flat_map (fun v => match v with VInt z => [z] | _ => [] end) l)) eqn:G.
    + exfalso. apply andb_true_iff in G. destruct G as [G1 G2]. apply is_nil_true in G2.
      pose proof (u32s_flat_len l Hall) as Hz. rewrite G2 in Hz. cbn [zlen] in Hz. blia.
    + destruct (zlen l <? Z.of_N n) eqn:E1; [blia|]. destruct (Z.of_N n <? zlen l) eqn:E2; [blia|].
      rewrite (u32s_roundtrip l Hall). reflexivity.
  - (* Struct *) intros ts IH v Ht Hl. apply typed_struct in Ht. destruct Ht as (vs & -> & HT). cbn [encode decode] in *.
    apply (dec_record_roundtrip chk ts vs IH HT Hl).
  - (* Enum *) intros vs IH v Ht Hl. apply typed_enum in Ht. destruct Ht as (d & l & fs & -> & Hd & HT).
    rewrite (encode_enum vs d l fs Hd) in *. cbn [decode dec_enum].
    rewrite (znth_opt_map (fun fs => map (fun t => (static_length t, decode chk t)) fs)), Hd. cbn [option_map].
    fold (decs chk fs). rewrite zlen_cons in Hl. rewrite Forall_forall in IH.
    rewrite dec_fields_rev_roundtrip; [|apply IH; eapply znth_opt_In; exact Hd|exact HT|lia].
    cbn [obind]. rewrite rev_involutive. reflexivity.
Qed.

(* ================================================================ unique *)
Definition canon (s : list Z) : Prop := Forall (fun x => 0 <= x < P) s.

Lemma canon_seq_canon s : canon_seq s = true <-> canon s.
Proof.
  unfold canon_seq, canon. rewrite forallb_Forall. split; intros H; (eapply Forall_impl; [|exact H]); cbv beta; intros a Ha.
  - apply andb_true_iff in Ha. destruct Ha. blia.
  - apply andb_true_iff. split; [apply Z.leb_le|apply Z.ltb_lt]; lia.
Qed.

Lemma canon_ztake k s : canon s -> canon (ztake k s).
Proof. unfold canon. intros H. rewrite <- (ztake_zdrop k s) in H. apply Forall_app in H. apply H. Qed.
Lemma canon_zdrop k s : canon s -> canon (zdrop k s).
Proof. unfold canon. intros H. rewrite <- (ztake_zdrop k s) in H. apply Forall_app in H. apply H. Qed.
Lemma canon_cons x s : canon (x :: s) -> 0 <= x < P /\ canon s.
Proof. unfold canon. intros H. inversion H; subst. split; assumption. Qed.
Lemma canon_nil : canon []. Proof. constructor. Qed.

Definition unique_at (chk : bool) (t : ty) : Prop :=
  forall s v, canon s -> decode chk t s = Ok v -> typed t v /\ encode t v = s.

Lemma dec_fields_unique chk ts : Forall (unique_at chk) ts ->
  forall s vs, canon s -> dec_fields (decs chk ts) s = Ok vs -> Forall2 typed ts vs /\ enc_fields (encs ts) vs = s.
Proof.
  induction 1 as [|t ts Ht _ IH]; intros s vs Hc H.
  - cbn [decs map dec_fields] in H. destruct (is_nil s) eqn:E; [|discriminate]. apply is_nil_true in E. inversion H; subst.
    split; [constructor|reflexivity].
  - cbn [decs map dec_fields] in H. fold (decs chk ts) in H.
    destruct (field_header (static_length t) s) as [[len s1]|] eqn:Eh; [|discriminate].
    destruct (zlen s1 <? len) eqn:El; [discriminate|].
    apply obind_ok in H. destruct H as (v & Hv & H). apply obind_ok in H. destruct H as (vs' & Hvs & H). inversion H; subst.
    assert (Hc1 : canon s1 /\ (static_length t = None -> 0 <= len /\ s = len :: s1) /\ (static_length t <> None -> s = s1)).
    { unfold field_header in Eh. destruct (static_length t).
      - inversion Eh; subst. split; [exact Hc|]. split; [discriminate|reflexivity].
      - destruct s as [|x s']; [discriminate|]. inversion Eh; subst. apply canon_cons in Hc. destruct Hc as [Hx Hc].
        split; [exact Hc|]. split; [intros _; split; [lia|reflexivity]|congruence]. }
    destruct Hc1 as (Hc1 & Hnone & Hsome).
    destruct (Ht (ztake len s1) v (canon_ztake _ _ Hc1) Hv) as [Htv Hev].
    destruct (IH (zdrop len s1) vs' (canon_zdrop _ _ Hc1) Hvs) as [HT Hes].
    split; [constructor; assumption|]. cbn [encs map enc_fields]. fold (encs ts). rewrite Hev, Hes.
    destruct (static_length t) as [a|] eqn:Ea; cbn [with_prefix].
    + rewrite ztake_zdrop. symmetry. apply Hsome. discriminate.
    + destruct (Hnone eq_refl) as [Hl ->]. rewrite zlen_ztake by blia. cbn [app]. rewrite ztake_zdrop. reflexivity.
Qed.

Lemma dec_fields_rev_unique chk ts : Forall (unique_at chk) ts ->
  forall s vs, canon s -> dec_fields (rev (decs chk ts)) s = Ok vs ->
  Forall2 typed ts (rev vs) /\ enc_fields (rev (encs ts)) (rev (rev vs)) = s.
Proof.
  intros HQ s vs Hc H. rewrite decs_rev in H. apply dec_fields_unique in H; [|apply Forall_rev; exact HQ|exact Hc].
  destruct H as [HT He]. split.
  - apply Forall2_rev in HT. rewrite rev_involutive in HT. exact HT.
  - rewrite rev_involutive, encs_rev. exact He.
Qed.

Lemma chunks_exact_spec w : 0 < w -> forall fuel s n, 0 <= n -> zlen s = n * w -> (length s < fuel)%nat ->
  concat (chunks_exact fuel w s) = s /\ zlen (chunks_exact fuel w s) = n.
Proof.
  intros Hw. induction fuel as [|f IH]; intros s n Hn Hs Hf; [lia|]. cbn [chunks_exact].
  destruct (zlen s <? w) eqn:E.
  - assert (n = 0) by (bool2prop; nia). subst n. rewrite (zlen_zero_nil s) by lia. split; reflexivity.
  - assert (1 <= n) by (bool2prop; nia). cbn [concat]. rewrite zlen_cons.
    destruct (IH (zdrop w s) (n - 1)) as [H1 H2]; [lia| | |].
    + rewrite zlen_zdrop by blia. lia.
    + pose proof (zlen_zdrop w s ltac:(blia)) as Hz. rewrite !zlen_length in Hz. rewrite zlen_length in Hs. lia.
    + rewrite H1, H2, ztake_zdrop. split; [reflexivity|lia].
Qed.

Lemma canon_concat cs : canon (concat cs) -> Forall canon cs.
Proof.
  induction cs as [|c r IH]; intros H; [constructor|]. cbn [concat] in H. apply Forall_app in H. destruct H.
  constructor; [assumption|]. apply IH. assumption.
Qed.

Lemma flat_map_repeat_nil {A B} (f : A -> list B) x k : f x = [] -> flat_map f (repeat x k) = [].
Proof. intros H. induction k as [|k IH]; [reflexivity|]. cbn [repeat flat_map]. rewrite H, IH. reflexivity. Qed.

Lemma dec_list_static_unique w dec enc (Pv : value -> Prop) n s l :
  0 <= w -> 0 <= n -> canon s -> (forall c v, canon c -> dec c = Ok v -> Pv v /\ enc v = c) ->
  dec_list_static w dec n s = Ok l -> Forall Pv l /\ flat_map enc l = s /\ zlen l = n.
Proof.
  intros Hw Hn Hc Hd. unfold dec_list_static.
  destruct (18446744073709551616 <=? n * w) eqn:E1; [discriminate|].
  destruct (zlen s <? n * w) eqn:E2; [discriminate|]. destruct (n * w <? zlen s) eqn:E3; [discriminate|].
  assert (Hs : zlen s = n * w) by blia.
  destruct (w =? 0) eqn:E4.
  - assert (w = 0) by blia. subst w. rewrite (zlen_zero_nil s) by lia.
    destruct (n <=? 0) eqn:E5.
    + intros H. inversion H; subst. split; [constructor|]. split; [reflexivity|cbn [zlen]; blia].
    + intros H. apply obind_ok in H. destruct H as (v & Hv & H). inversion H; subst.
      destruct (Hd [] v canon_nil Hv) as [Hp He]. rewrite zrepeat_repeat. split; [|split].
      * apply Forall_forall. intros x Hx. apply repeat_spec in Hx. subst. exact Hp.
      * apply flat_map_repeat_nil. exact He.
      * rewrite zlen_length, repeat_length. lia.
  - intros H. apply map_outcome_ok in H.
    destruct (chunks_exact_spec w ltac:(blia) (S (length s)) s n Hn Hs ltac:(lia)) as [Hcc Hcl].
    set (cs := chunks_exact (S (length s)) w s) in *.
    rewrite <- Hcc in Hc. apply canon_concat in Hc. rewrite <- Hcc. rewrite <- Hcl. clear Hcc Hcl Hs E1 E2 E3. clearbody cs.
    induction H as [|c v cs l Hcv _ IH]; [split; [constructor|split; reflexivity]|].
    inversion Hc as [|? ? Hc0 Hcr]; subst. destruct (IH Hcr) as (I1 & I2 & I3). destruct (Hd c v Hc0 Hcv) as [Hp He].
    split; [constructor; assumption|]. cbn [flat_map concat]. rewrite He, I2, !zlen_cons, I3. split; reflexivity.
Qed.

Lemma dec_list_dyn_unique chk dec enc (Pv : value -> Prop) :
  (forall c v, canon c -> dec c = Ok v -> Pv v /\ enc v = c) ->
  forall fuel tot n idx rest l, 0 <= n -> canon rest -> tot = idx + zlen rest ->
    dec_list_dyn chk fuel dec tot n idx rest = Ok l ->
    Forall Pv l /\ flat_map (prefixed enc) l = rest /\ zlen l = n.
Proof.
  intros Hd. induction fuel as [|f IH]; intros tot n idx rest l Hn Hc Htot H.
  - cbn [dec_list_dyn] in H. destruct (n <=? 0) eqn:E0.
    + destruct (is_nil rest) eqn:En; [|discriminate]. apply is_nil_true in En. inversion H; subst.
      split; [constructor|]. split; [reflexivity|cbn [zlen]; blia].
    + destruct rest; discriminate.
  - cbn [dec_list_dyn] in H. destruct (n <=? 0) eqn:E0.
    + destruct (is_nil rest) eqn:En; [|discriminate]. apply is_nil_true in En. inversion H; subst.
      split; [constructor|]. split; [reflexivity|cbn [zlen]; blia].
    + destruct rest as [|il rest1]; [discriminate|]. apply canon_cons in Hc. destruct Hc as [Hil Hc].
      destruct (18446744073709551616 <=? idx + 1 + il) eqn:E1.
      { destruct chk; [discriminate|]. destruct (tot <? idx + 1 + il - 18446744073709551616); discriminate. }
      destruct (tot <? idx + 1 + il) eqn:E2; [discriminate|]. rewrite zlen_cons in Htot.
      apply obind_ok in H. destruct H as (v & Hv & H). apply obind_ok in H. destruct H as (vs & Hvs & H). inversion H; subst.
      destruct (Hd _ v (canon_ztake il _ Hc) Hv) as [Hp He].
      assert (Hn1 : 0 <= n - 1) by blia.
      assert (Hz : idx + (1 + zlen rest1) = idx + 1 + il + zlen (zdrop il rest1)) by (rewrite zlen_zdrop by blia; lia).
      destruct (IH _ _ _ _ vs Hn1 (canon_zdrop il _ Hc) Hz Hvs) as (I1 & I2 & I3).
      split; [constructor; assumption|]. cbn [flat_map]. unfold prefixed at 1. rewrite He, I2.
      rewrite zlen_ztake by blia. cbn [app]. rewrite ztake_zdrop, zlen_cons, I3. split; [reflexivity|lia].
Qed.

Lemma dec_list_unique chk t n s l : unique_at chk t -> 0 <= n -> canon s ->
  dec_list chk (static_length t) (decode chk t) n s = Ok l ->
  Forall (typed t) l /\ enc_list (static_length t) (encode t) l = s /\ zlen l = n.
Proof.
  intros HQ Hn Hc H. unfold dec_list, enc_list in *. destruct (static_length t) as [w|] eqn:Ew; cbn [with_prefix].
  - eapply dec_list_static_unique in H; [exact H|eapply static_length_nonneg; exact Ew|exact Hn|exact Hc|].
    intros c v Hcc Hcv. apply HQ; assumption.
  - eapply (dec_list_dyn_unique chk (decode chk t) (encode t) (typed t)) in H; [exact H| |exact Hn|exact Hc|lia].
    intros c v Hcc Hcv. apply HQ; assumption.
Qed.

Lemma limb_low a r : 0 <= a < 4294967296 -> limb (a + 4294967296 * r) 0 = a.
Proof. intros H. unfold limb. change (2 ^ (32 * 0)) with 1. rewrite Z.div_1_r. lia. Qed.

Lemma limb_shift a r i : 0 <= a < 4294967296 -> 0 <= i -> limb (a + 4294967296 * r) (i + 1) = limb r i.
Proof.
  intros H Hi. unfold limb. replace (32 * (i + 1)) with (32 + 32 * i) by lia. rewrite Z.pow_add_r by lia.
  change (2 ^ 32) with 4294967296. rewrite <- Z.div_div by (try lia; apply Z.pow_pos_nonneg; lia).
  replace ((a + 4294967296 * r) / 4294967296) with r by lia. reflexivity.
Qed.

Lemma int_below_intro bound z : 0 <= z < bound -> int_below bound (VInt z) = true.
Proof. intros H. cbn. apply andb_true_iff. split; [apply Z.leb_le|apply Z.ltb_lt]; lia. Qed.

Lemma dec_small_unique max s v : canon s -> dec_small max s = Ok v ->
  exists z, s = [z] /\ v = VInt z /\ 0 <= z <= max.
Proof.
  intros Hc H. destruct s as [|x [|y r]]; try discriminate. cbn [dec_small] in H.
  destruct (max <? x) eqn:E; [discriminate|]. inversion H. apply canon_cons in Hc. exists x. repeat split; blia.
Qed.

Lemma u32s_unique s l : canon s -> map_outcome (fun x => dec_small 4294967295 [x]) s = Ok l ->
  Forall (fun v => int_below 4294967296 v = true) l /\
  flat_map (fun v => match v with VInt z => [z] | _ => [] end) l = s /\ zlen l = zlen s.
Proof.
  intros Hc H. apply map_outcome_ok in H. induction H as [|x v s l Hxv _ IH]; [split; [constructor|split; reflexivity]|].
  apply canon_cons in Hc. destruct Hc as [Hx Hc]. destruct (IH Hc) as (I1 & I2 & I3).
  apply dec_small_unique in Hxv; [|constructor; [exact Hx|constructor]]. destruct Hxv as (z & Hz & -> & Hr). inversion Hz; subst z.
  split; [constructor; [apply int_below_intro; lia|exact I1]|]. cbn [flat_map app]. rewrite I2, !zlen_cons, I3. split; reflexivity.
Qed.

Theorem unique chk : forall t, unique_at chk t.
Proof.
  apply ty_nested_ind; unfold unique_at.
  - (* Bfe *) intros s v Hc H. cbn [decode] in H. destruct s as [|x [|y r]]; try discriminate. inversion H; subst.
    apply canon_cons in Hc. split; [apply int_below_intro; lia|reflexivity].
  - intros s v Hc H. apply dec_small_unique in H; [|exact Hc]. destruct H as (z & -> & -> & Hz).
    split; [apply int_below_intro; lia|reflexivity].
  - intros s v Hc H. apply dec_small_unique in H; [|exact Hc]. destruct H as (z & -> & -> & Hz).
    split; [apply int_below_intro; lia|reflexivity].
  - intros s v Hc H. apply dec_small_unique in H; [|exact Hc]. destruct H as (z & -> & -> & Hz).
    split; [apply int_below_intro; lia|reflexivity].
  - (* U64 *) intros s v Hc H. cbn [decode] in H. unfold dec_big in H. destruct s as [|a [|b [|c r]]]; cbn [is_nil zlen] in H; try discriminate H.
    + change (1 + (1 + 0) <? 2) with false in H. change (2 <? 1 + (1 + 0)) with false in H. cbv iota in H. cbn [existsb] in H.
      destruct (4294967295 <? a) eqn:Ea; [discriminate|]. destruct (4294967295 <? b) eqn:Eb; [discriminate|]. cbn [orb] in H.
      cbn [limbs_value] in H. assert (Hv : v = VInt (a + 4294967296 * (b + 4294967296 * 0))) by congruence. subst v. clear H.
      apply canon_cons in Hc. destruct Hc as [Ha Hc]. apply canon_cons in Hc. destruct Hc as [Hb _].
      split; [apply int_below_intro; blia|]. cbn [encode]. rewrite limb_low by blia. rewrite (limb_shift a _ 0) by blia.
      rewrite limb_low by blia. reflexivity.
    + exfalso. pose proof (zlen_nonneg r). destruct (1 + (1 + (1 + zlen r)) <? 2) eqn:E1; [blia|].
      destruct (2 <? 1 + (1 + (1 + zlen r))) eqn:E2; [discriminate|blia].
  - (* U128 *) intros s v Hc H. cbn [decode] in H. unfold dec_big in H.
    destruct s as [|a [|b [|c [|d [|e r]]]]]; cbn [is_nil zlen] in H; try discriminate H.
    + change (1 + (1 + (1 + (1 + 0))) <? 4) with false in H. change (4 <? 1 + (1 + (1 + (1 + 0)))) with false in H. cbv iota in H.
      cbn [existsb] in H.
      destruct (4294967295 <? a) eqn:Ea; [discriminate|]. destruct (4294967295 <? b) eqn:Eb; [discriminate|].
      destruct (4294967295 <? c) eqn:Ec; [discriminate|]. destruct (4294967295 <? d) eqn:Ed; [discriminate|]. cbn [orb] in H.
      cbn [limbs_value] in H.
      assert (Hv : v = VInt (a + 4294967296 * (b + 4294967296 * (c + 4294967296 * (d + 4294967296 * 0))))) by congruence. subst v. clear H.
      apply canon_cons in Hc. destruct Hc as [Ha Hc]. apply canon_cons in Hc. destruct Hc as [Hb Hc].
      apply canon_cons in Hc. destruct Hc as [Hc' Hc]. apply canon_cons in Hc. destruct Hc as [Hd _].
      split; [apply int_below_intro; blia|]. cbn [encode].
      rewrite (limb_shift a _ 2) by blia. rewrite (limb_shift b _ 1) by blia. rewrite (limb_shift c _ 0) by blia.
      rewrite (limb_shift a _ 1) by blia. rewrite (limb_shift b _ 0) by blia.
      rewrite (limb_shift a _ 0) by blia. rewrite !limb_low by blia. reflexivity.
    + exfalso. pose proof (zlen_nonneg r). destruct (1 + (1 + (1 + (1 + (1 + zlen r)))) <? 4) eqn:E1; [blia|].
      destruct (4 <? 1 + (1 + (1 + (1 + (1 + zlen r))))) eqn:E2; [discriminate|blia].
  - (* Bool *) intros s v Hc H. cbn [decode] in H. destruct s as [|x [|y r]]; try discriminate. cbn [dec_bool] in H.
    destruct (x =? 0) eqn:E0; [inversion H; assert (x = 0) by blia; subst; split; reflexivity|].
    destruct (x =? 1) eqn:E1; [inversion H; assert (x = 1) by blia; subst; split; reflexivity|discriminate].
  - (* Phantom *) intros s v Hc H. cbn [decode] in H. destruct s; [|discriminate]. inversion H. split; reflexivity.
  - (* Box *) intros t IH s v Hc H. cbn [decode encode]. apply IH; assumption.
  - (* Option *) intros t IH s v Hc H. cbn [decode] in H. destruct s as [|x r]; [discriminate|]. cbn [dec_option] in H.
    apply canon_cons in Hc. destruct Hc as [Hx Hc].
    destruct (x =? 0) eqn:E0.
    + destruct (is_nil r) eqn:En; [|discriminate]. apply is_nil_true in En. inversion H; subst. assert (x = 0) by blia. subst. split; reflexivity.
    + destruct (x =? 1) eqn:E1; [|discriminate]. apply obind_ok in H. destruct H as (w & Hw & H). inversion H; subst.
      destruct (IH r w Hc Hw) as [Ht He]. assert (x = 1) by blia. subst x. split; [exact Ht|]. cbn [encode]. rewrite He. reflexivity.
  - (* Vec *) intros t IH s v Hc H. cbn [decode] in H. apply obind_ok in H. destruct H as (l & Hl & H). inversion H; subst.
    destruct s as [|n r]; [discriminate|]. cbn [dec_vec] in Hl. apply canon_cons in Hc. destruct Hc as [Hn Hc].
    apply dec_list_unique in Hl; [|exact IH|lia|exact Hc]. destruct Hl as (Hall & He & Hz).
    split; [unfold typed; cbn [has_type]; apply forallb_Forall; exact Hall|]. cbn [encode]. rewrite He, Hz. reflexivity.
  - (* Array *) intros n t IH s v Hc H. cbn [decode] in H. unfold dec_array in H.
    match type of H with (if ?c then _ else _) = _ => destruct c end; [discriminate|].
    apply obind_ok in H. destruct H as (l & Hl & H). destruct (zlen l =? Z.of_N n) eqn:E; [|discriminate]. inversion H; subst.
    apply dec_list_unique in Hl; [|exact IH|lia|exact Hc]. destruct Hl as (Hall & He & Hz).
    split; [|exact He]. unfold typed. cbn [has_type]. rewrite E. apply forallb_Forall. exact Hall.
  - (* Tuple *) intros ts IH s v Hc H. cbn [decode] in H. fold (decs chk ts) in H. unfold dec_record in H.
    apply obind_ok in H. destruct H as (vs & Hvs & H). inversion H; subst.
    apply dec_fields_rev_unique in Hvs; [|exact IH|exact Hc]. destruct Hvs as [HT He].
    split; [unfold typed; cbn [has_type]; apply apply_all_Forall2; exact HT|exact He].
  - (* Poly *) intros t IH s v Hc H. cbn [decode] in H. unfold dec_poly in H. destruct s as [|ind r]; [discriminate|].
    destruct (zlen (ind :: r) =? ind + 1) eqn:E; [|discriminate]. apply obind_ok in H. destruct H as (l & Hl & H).
    destruct (last_nonzero l) eqn:Enz; [|discriminate]. inversion H; subst.
    apply canon_cons in Hc. destruct Hc as [Hind Hc]. destruct r as [|n r']; [discriminate|]. cbn [dec_vec] in Hl.
    apply canon_cons in Hc. destruct Hc as [Hn Hc].
    apply dec_list_unique in Hl; [|exact IH|lia|exact Hc]. destruct Hl as (Hall & He & Hz).
    split; [unfold typed; cbn [has_type]; rewrite Enz, andb_true_r; apply forallb_Forall; exact Hall|].
    cbn [encode]. rewrite (strip_zeros_id l Enz), He, Hz. rewrite !zlen_cons in *. f_equal. blia.
  - (* U32s *) intros n s v Hc H. cbn [decode] in H. unfold dec_u32s in H.
    match type of H with (if ?c then _ else _) = _ => destruct c end; [discriminate|].
    destruct (zlen s <? Z.of_N n) eqn:E1; [discriminate|]. destruct (Z.of_N n <? zlen s) eqn:E2; [discriminate|].
    apply obind_ok in H. destruct H as (l & Hl & H). inversion H; subst. apply u32s_unique in Hl; [|exact Hc].
    destruct Hl as (Hall & He & Hz). split; [|exact He]. unfold typed. cbn [has_type]. apply andb_true_iff. split; [apply Z.eqb_eq; blia|].
    apply forallb_Forall. exact Hall.
  - (* Struct *) intros ts IH s v Hc H. cbn [decode] in H. fold (decs chk ts) in H. unfold dec_record in H.
    apply obind_ok in H. destruct H as (vs & Hvs & H). inversion H; subst.
    apply dec_fields_rev_unique in Hvs; [|exact IH|exact Hc]. destruct Hvs as [HT He].
    split; [unfold typed; cbn [has_type]; apply apply_all_Forall2; exact HT|exact He].
  - (* Enum *) intros vs IH s v Hc H. cbn [decode] in H. unfold dec_enum in H. destruct s as [|d r]; [discriminate|].
    rewrite (znth_opt_map (fun fs => map (fun t => (static_length t, decode chk t)) fs)) in H.
    destruct (znth_opt d vs) as [fs|] eqn:Ed; cbn [option_map] in H; [|discriminate]. fold (decs chk fs) in H.
    apply obind_ok in H. destruct H as (l & Hl & H). inversion H; subst. apply canon_cons in Hc. destruct Hc as [_ Hc].
    rewrite Forall_forall in IH. apply dec_fields_rev_unique in Hl; [|apply IH; eapply znth_opt_In; exact Ed|exact Hc].
    destruct Hl as [HT He]. split.
    + unfold typed. cbn [has_type]. rewrite znth_opt_map, Ed. cbn [option_map]. apply apply_all_Forall2. exact HT.
    + rewrite (encode_enum vs d _ fs Ed). rewrite He. reflexivity.
Qed.

(* ================================================================ decode_total (C13) *)
Definition B32 : Z := 4294967296.
Definition short (s : list Z) : Prop := canon s /\ zlen s < B32.
Definition total_at (chk : bool) (t : ty) : Prop := forall s, short s -> decode chk t s <> Panic.

Lemma short_ztake k s : short s -> short (ztake k s).
Proof. intros [H1 H2]. split; [apply canon_ztake; exact H1|]. pose proof (zlen_ztake_le k s). lia. Qed.
Lemma short_zdrop k s : short s -> short (zdrop k s).
Proof. intros [H1 H2]. split; [apply canon_zdrop; exact H1|]. pose proof (zlen_zdrop_le k s). lia. Qed.
Lemma short_tail x s : short (x :: s) -> short s.
Proof. intros [H1 H2]. apply canon_cons in H1. rewrite zlen_cons in H2. split; [apply H1|lia]. Qed.
Lemma short_nil : short [].
Proof. split; [constructor|reflexivity]. Qed.

Lemma dec_fields_total chk ts : Forall (total_at chk) ts -> forall s, short s -> dec_fields (decs chk ts) s <> Panic.
Proof.
  induction 1 as [|t ts Ht _ IH]; intros s Hs; cbn [decs map dec_fields].
  - destruct (is_nil s); congruence.
  - fold (decs chk ts). destruct (field_header (static_length t) s) as [[len s1]|] eqn:Eh; [|congruence].
    assert (Hs1 : short s1).
    { unfold field_header in Eh. destruct (static_length t); [inversion Eh; subst; exact Hs|].
      destruct s as [|x s']; [discriminate|]. inversion Eh; subst. eapply short_tail; exact Hs. }
    destruct (zlen s1 <? len); [congruence|].
    apply obind_not_panic; [apply Ht; apply short_ztake; exact Hs1|]. intros v _.
    apply obind_not_panic; [apply IH; apply short_zdrop; exact Hs1|]. intros; congruence.
Qed.

Lemma chunks_exact_Forall (Pc : list Z -> Prop) w :
  (forall k s, Pc s -> Pc (ztake k s)) -> (forall k s, Pc s -> Pc (zdrop k s)) ->
  forall fuel s, Pc s -> Forall Pc (chunks_exact fuel w s).
Proof.
  intros H1 H2. induction fuel as [|f IH]; intros s Hs; cbn [chunks_exact]; [constructor|].
  destruct (zlen s <? w); [constructor|]. constructor; [apply H1; exact Hs|apply IH; apply H2; exact Hs].
Qed.

Lemma dec_list_static_total w dec n s :
  (forall c, short c -> dec c <> Panic) -> short s -> dec_list_static w dec n s <> Panic.
Proof.
  intros Hd Hs. unfold dec_list_static.
  destruct (18446744073709551616 <=? n * w); [congruence|]. destruct (zlen s <? n * w); [congruence|].
  destruct (n * w <? zlen s); [congruence|]. destruct (w =? 0).
  - destruct (n <=? 0); [congruence|]. apply obind_not_panic; [apply Hd; exact short_nil|]. intros; congruence.
  - apply map_outcome_not_panic. eapply Forall_impl; [|apply (chunks_exact_Forall short w short_ztake short_zdrop); exact Hs].
    exact Hd.
Qed.

Lemma dec_list_dyn_total chk dec : (forall c, short c -> dec c <> Panic) ->
  forall fuel tot n idx rest, short rest -> tot = idx + zlen rest -> 0 <= idx -> tot < B32 -> (length rest <= fuel)%nat ->
  dec_list_dyn chk fuel dec tot n idx rest <> Panic.
Proof.
  intros Hd. induction fuel as [|f IH]; intros tot n idx rest Hs Htot Hidx Hb Hf.
  - destruct rest; [|cbn [length] in Hf; lia]. cbn [dec_list_dyn]. destruct (n <=? 0); cbn [is_nil]; congruence.
  - cbn [dec_list_dyn]. destruct (n <=? 0); [destruct (is_nil rest); congruence|].
    destruct rest as [|il rest1]; [congruence|]. pose proof Hs as [Hc _]. apply canon_cons in Hc. destruct Hc as [Hil _].
    rewrite zlen_cons in Htot. pose proof (zlen_nonneg rest1) as Hnn. unfold B32, P in *.
    destruct (18446744073709551616 <=? idx + 1 + il) eqn:E1; [exfalso; blia|].
    destruct (tot <? idx + 1 + il) eqn:E2; [congruence|].
    apply short_tail in Hs.
    apply obind_not_panic; [apply Hd; apply short_ztake; exact Hs|]. intros v _.
    apply obind_not_panic; [|intros; congruence].
    apply IH; [apply short_zdrop; exact Hs|rewrite zlen_zdrop by blia; lia|lia|unfold B32; lia|].
    cbn [length] in Hf. pose proof (length_zdrop_le il rest1). lia.
Qed.

Lemma dec_list_total chk t n s : total_at chk t -> short s -> dec_list chk (static_length t) (decode chk t) n s <> Panic.
Proof.
  intros HQ Hs. unfold dec_list. destruct (static_length t).
  - apply dec_list_static_total; assumption.
  - destruct Hs as [Hc Hl]. apply dec_list_dyn_total; [exact HQ|split; assumption|lia|lia|exact Hl|lia].
Qed.

Ltac no_panic_ifs := repeat match goal with
  | |- context [if ?c then _ else _] => destruct c
  end; congruence.

Theorem decode_total chk : forall t, total_at chk t.
Proof.
  apply ty_nested_ind; unfold total_at.
  - intros s _. cbn [decode]. destruct s as [|x [|y r]]; cbn; congruence.
  - intros s _. cbn [decode]. destruct s as [|x [|y r]]; cbn [dec_small]; no_panic_ifs.
  - intros s _. cbn [decode]. destruct s as [|x [|y r]]; cbn [dec_small]; no_panic_ifs.
  - intros s _. cbn [decode]. destruct s as [|x [|y r]]; cbn [dec_small]; no_panic_ifs.
  - intros s _. cbn [decode]. unfold dec_big. no_panic_ifs.
  - intros s _. cbn [decode]. unfold dec_big. no_panic_ifs.
  - intros s _. cbn [decode]. destruct s as [|x [|y r]]; cbn [dec_bool]; no_panic_ifs.
  - intros s _. cbn [decode]. destruct s; cbn; congruence.
  - intros t IH s Hs. cbn [decode]. apply IH. exact Hs.
  - intros t IH s Hs. cbn [decode]. destruct s as [|x r]; cbn [dec_option]; [congruence|].
    destruct (x =? 0); [destruct (is_nil r); congruence|]. destruct (x =? 1); [|congruence].
    apply obind_not_panic; [apply IH; eapply short_tail; exact Hs|]. intros; congruence.
  - intros t IH s Hs. cbn [decode]. apply obind_not_panic; [|intros; congruence].
    destruct s as [|n r]; cbn [dec_vec]; [congruence|]. apply dec_list_total; [exact IH|eapply short_tail; exact Hs].
  - intros n t IH s Hs. cbn [decode]. unfold dec_array.
    match goal with |- context [if ?c then _ else _] => destruct c end; [congruence|].
    apply obind_not_panic; [apply dec_list_total; assumption|]. intros l _. destruct (zlen l =? Z.of_N n); congruence.
  - intros ts IH s Hs. cbn [decode]. fold (decs chk ts). unfold dec_record. rewrite decs_rev.
    apply obind_not_panic; [apply dec_fields_total; [apply Forall_rev; exact IH|exact Hs]|]. intros; congruence.
  - intros t IH s Hs. cbn [decode]. unfold dec_poly. destruct s as [|ind r]; [congruence|].
    destruct (zlen (ind :: r) =? ind + 1); [|congruence]. apply obind_not_panic.
    + destruct r as [|n r']; cbn [dec_vec]; [congruence|]. apply dec_list_total; [exact IH|].
      eapply short_tail. eapply short_tail. exact Hs.
    + intros l _. destruct (last_nonzero l); congruence.
  - intros n s Hs. cbn [decode]. unfold dec_u32s.
    match goal with |- context [if ?c then _ else _] => destruct c end; [congruence|].
    destruct (zlen s <? Z.of_N n); [congruence|]. destruct (Z.of_N n <? zlen s); [congruence|].
    apply obind_not_panic; [|intros; congruence]. apply map_outcome_not_panic. apply Forall_forall. intros x _.
    cbn [dec_small]. destruct (4294967295 <? x); congruence.
  - intros ts IH s Hs. cbn [decode]. fold (decs chk ts). unfold dec_record. rewrite decs_rev.
    apply obind_not_panic; [apply dec_fields_total; [apply Forall_rev; exact IH|exact Hs]|]. intros; congruence.
  - intros vs IH s Hs. cbn [decode]. unfold dec_enum. destruct s as [|d r]; [congruence|].
    rewrite (znth_opt_map (fun fs => map (fun t => (static_length t, decode chk t)) fs)).
    destruct (znth_opt d vs) as [fs|] eqn:Ed; cbn [option_map]; [|congruence]. fold (decs chk fs). rewrite decs_rev.
    rewrite Forall_forall in IH.
    apply obind_not_panic; [|intros; congruence]. apply dec_fields_total; [apply Forall_rev; apply IH; eapply znth_opt_In; exact Ed|].
    eapply short_tail; exact Hs.
Qed.

(* ================================================================ strictness (C13) *)
(* whatever is not THE encoding of a typed value is rejected *)
Theorem strict chk t s : short s -> (forall v, typed t v -> encode t v <> s) -> decode chk t s = Err.
Proof.
  intros Hs Hne. destruct (decode chk t s) as [v| |] eqn:E; [|reflexivity|].
  - exfalso. destruct (unique chk t s v (proj1 Hs) E) as [Ht He]. exact (Hne v Ht He).
  - exfalso. exact (decode_total chk t s Hs E).
Qed.

(* accepted implies canonical re-encoding; so decode is injective on accepted sequences *)
Corollary decode_injective chk t s1 s2 v : canon s1 -> canon s2 ->
  decode chk t s1 = Ok v -> decode chk t s2 = Ok v -> s1 = s2.
Proof.
  intros H1 H2 E1 E2. destruct (unique chk t s1 v H1 E1) as [_ <-]. destruct (unique chk t s2 v H2 E2) as [_ <-]. reflexivity.
Qed.

Corollary encode_injective t v1 v2 : typed t v1 -> typed t v2 -> zlen (encode t v1) < B64 ->
  encode t v1 = encode t v2 -> v1 = v2.
Proof.
  intros H1 H2 Hl E. pose proof (roundtrip false t v1 H1 Hl) as R1. rewrite E in R1, Hl.
  pose proof (roundtrip false t v2 H2 Hl) as R2. congruence.
Qed.

Lemma strict_static_length chk t n s : static_length t = Some n -> short s -> zlen s <> n -> decode chk t s = Err.
Proof.
  intros Hn Hs Hne. apply strict; [exact Hs|]. intros v Hv He. apply Hne. rewrite <- He. apply static_len; assumption.
Qed.

Lemma strict_limb_u64 chk a b : 4294967295 < a \/ 4294967295 < b -> decode chk TU64 [a; b] = Err.
Proof.
  intros H. cbn [decode]. unfold dec_big. cbn [is_nil zlen existsb].
  change (1 + (1 + 0) <? 2) with false. change (2 <? 1 + (1 + 0)) with false. cbv iota.
  destruct (4294967295 <? a) eqn:Ea; [reflexivity|]. destruct (4294967295 <? b) eqn:Eb; [reflexivity|]. exfalso. blia.
Qed.

Lemma strict_limb_u128 chk a b c d :
  4294967295 < a \/ 4294967295 < b \/ 4294967295 < c \/ 4294967295 < d -> decode chk TU128 [a; b; c; d] = Err.
Proof.
  intros H. cbn [decode]. unfold dec_big. cbn [is_nil zlen existsb].
  change (1 + (1 + (1 + (1 + 0))) <? 4) with false. change (4 <? 1 + (1 + (1 + (1 + 0)))) with false. cbv iota.
  destruct (4294967295 <? a) eqn:Ea; [reflexivity|]. destruct (4294967295 <? b) eqn:Eb; [reflexivity|].
  destruct (4294967295 <? c) eqn:Ec; [reflexivity|]. destruct (4294967295 <? d) eqn:Ed; [reflexivity|]. exfalso. blia.
Qed.

Lemma strict_small_range chk x :
  (255 < x -> decode chk TU8 [x] = Err) /\ (65535 < x -> decode chk TU16 [x] = Err) /\ (4294967295 < x -> decode chk TU32 [x] = Err).
Proof.
  repeat split; intros H; cbn [decode dec_small];
    match goal with |- context [if ?c then _ else _] => destruct c eqn:E end; try reflexivity; exfalso; blia.
Qed.

Lemma strict_u32s_limb chk n s x : In x s -> 4294967295 < x -> decode chk (TU32s n) s = Err.
Proof.
  intros Hin Hx. cbn [decode]. unfold dec_u32s.
  match goal with |- context [if ?c then _ else _] => destruct c end; [reflexivity|].
  destruct (zlen s <? Z.of_N n); [reflexivity|]. destruct (Z.of_N n <? zlen s); [reflexivity|].
  assert (E : map_outcome (fun x => dec_small 4294967295 [x]) s = Err).
  { induction s as [|y r IH]; [destruct Hin|]. cbn [map_outcome].
    change (dec_small 4294967295 [y]) with (if 4294967295 <? y then @Err value else Ok (VInt y)).
    destruct (4294967295 <? y) eqn:Ey; [reflexivity|].
    cbn [obind]. destruct Hin as [->|Hin]; [exfalso; blia|]. rewrite (IH Hin). reflexivity. }
  rewrite E. reflexivity.
Qed.

Lemma strict_bool_tag chk x : 1 < x -> decode chk TBool [x] = Err.
Proof. intros H. cbn [decode dec_bool]. destruct (x =? 0) eqn:E0; [exfalso; blia|]. destruct (x =? 1) eqn:E1; [exfalso; blia|reflexivity]. Qed.

Lemma strict_option_tag chk t x r : 1 < x -> decode chk (TOption t) (x :: r) = Err.
Proof. intros H. cbn [decode dec_option]. destruct (x =? 0) eqn:E0; [exfalso; blia|]. destruct (x =? 1) eqn:E1; [exfalso; blia|reflexivity]. Qed.

Lemma strict_option_none_extra chk t r : r <> [] -> decode chk (TOption t) (0 :: r) = Err.
Proof. intros H. cbn [decode dec_option]. change (0 =? 0) with true. cbv iota. destruct r; [congruence|reflexivity]. Qed.

Lemma strict_enum_discriminant chk vs d r : zlen vs <= d -> decode chk (TEnum vs) (d :: r) = Err.
Proof. intros H. cbn [decode dec_enum]. rewrite znth_opt_none; [reflexivity|]. rewrite zlen_map. exact H. Qed.

(* inconsistent length prefixes *)
Lemma strict_vec_count chk t w n r : static_length t = Some w -> zlen r <> n * w -> decode chk (TVec t) (n :: r) = Err.
Proof.
  intros Hw Hne. cbn [decode dec_vec]. unfold dec_list. rewrite Hw. unfold dec_list_static.
  destruct (18446744073709551616 <=? n * w); [reflexivity|]. destruct (zlen r <? n * w) eqn:E1; [reflexivity|].
  destruct (n * w <? zlen r) eqn:E2; [reflexivity|]. exfalso. blia.
Qed.

Lemma strict_array_length chk t w n s : static_length t = Some w -> zlen s <> Z.of_N n * w -> decode chk (TArray n t) s = Err.
Proof.
  intros Hw Hne. cbn [decode]. unfold dec_array. match goal with |- context [if ?c then _ else _] => destruct c end; [reflexivity|].
  unfold dec_list. rewrite Hw. unfold dec_list_static.
  destruct (18446744073709551616 <=? Z.of_N n * w); [reflexivity|]. destruct (zlen s <? Z.of_N n * w) eqn:E1; [reflexivity|].
  destruct (Z.of_N n * w <? zlen s) eqn:E2; [reflexivity|]. exfalso. blia.
Qed.

Lemma strict_poly_prefix chk t ind r : zlen r <> ind -> decode chk (TPoly t) (ind :: r) = Err.
Proof.
  intros H. cbn [decode]. unfold dec_poly. rewrite zlen_cons. destruct (1 + zlen r =? ind + 1) eqn:E; [exfalso; blia|reflexivity].
Qed.

(* a dynamically sized component whose length prefix exceeds what is left (tuple / struct: the LAST declared field comes first) *)
Lemma strict_field_prefix chk ts t len r : static_length t = None -> zlen r < len ->
  decode chk (TTuple (ts ++ [t])) (len :: r) = Err /\ decode chk (TStruct (ts ++ [t])) (len :: r) = Err.
Proof.
  intros Hn Hl. cbn [decode]. unfold dec_record. rewrite map_app, rev_app_distr. cbn [map rev app dec_fields].
  rewrite Hn. cbn [field_header]. destruct (zlen r <? len) eqn:E; [split; reflexivity|exfalso; blia].
Qed.

Lemma strict_missing_length_indicator chk ts t : static_length t = None ->
  decode chk (TTuple (ts ++ [t])) [] = Err /\ decode chk (TStruct (ts ++ [t])) [] = Err.
Proof.
  intros Hn. cbn [decode]. unfold dec_record. rewrite map_app, rev_app_distr. cbn [map rev app dec_fields].
  rewrite Hn. cbn [field_header]. split; reflexivity.
Qed.

(* polynomial with a zero leading coefficient: the otherwise well-formed encoding is rejected *)
Lemma strict_poly_trailing_zero chk t l :
  Forall (typed t) l -> last_nonzero l = false ->
  let ce := encode (TVec t) (VList l) in zlen ce < B64 -> decode chk (TPoly t) (zlen ce :: ce) = Err.
Proof.
  intros Hall Hz ce Hl. assert (Ht : typed (TVec t) (VList l)) by (unfold typed; cbn [has_type]; apply forallb_Forall; exact Hall).
  pose proof (roundtrip chk (TVec t) (VList l) Ht Hl) as R. fold ce in R. cbn [decode] in R.
  apply obind_ok in R. destruct R as (l' & Hl' & R). inversion R; subst l'.
  cbn [decode]. unfold dec_poly. rewrite zlen_cons, Z.add_comm, Z.eqb_refl. rewrite Hl'. cbn [obind]. rewrite Hz. reflexivity.
Qed.

(* encode of a polynomial value does not depend on stored trailing zeros *)
Lemma strip_zeros_idem l : strip_zeros (strip_zeros l) = strip_zeros l.
Proof.
  induction l as [|c r IH]; [reflexivity|]. cbn [strip_zeros]. destruct (strip_zeros r) as [|c' r'] eqn:E.
  - destruct (value_zero c) eqn:Ez; [reflexivity|]. cbn [strip_zeros]. rewrite Ez. reflexivity.
  - change (strip_zeros (c :: c' :: r')) with
      (match strip_zeros (c' :: r') with [] => if value_zero c then [] else [c] | r'' => c :: r'' end).
    rewrite IH. reflexivity.
Qed.

Lemma encode_poly_normalises t l : encode (TPoly t) (VList l) = encode (TPoly t) (VList (strip_zeros l)).
Proof. cbn [encode]. rewrite strip_zeros_idem. reflexivity. Qed.

(* ================================================================ layout (C03) *)
Definition component (t : ty) (v : value) : list Z := with_prefix (static_length t) (encode t v).

Lemma enc_fields_concat ts vs : length ts = length vs ->
  enc_fields (encs ts) vs = concat (map (fun tv => component (fst tv) (snd tv)) (combine ts vs)).
Proof.
  revert vs. induction ts as [|t ts IH]; intros [|v vs] Hl; try discriminate; [reflexivity|].
  cbn [encs map enc_fields combine concat fst snd]. fold (encs ts). rewrite IH by (cbn in Hl; lia). reflexivity.
Qed.

(* tuple and struct components in reverse declaration order, each dynamically sized one prefixed by its length *)
Lemma layout_record ts vs : length ts = length vs ->
  encode (TTuple ts) (VList vs) = concat (rev (map (fun tv => component (fst tv) (snd tv)) (combine ts vs)))
  /\ encode (TStruct ts) (VList vs) = concat (rev (map (fun tv => component (fst tv) (snd tv)) (combine ts vs))).
Proof.
  intros Hl. cbn [encode]. fold (encs ts). rewrite encs_rev. rewrite enc_fields_concat by (rewrite !rev_length; exact Hl).
  rewrite <- map_rev. assert (E : combine (rev ts) (rev vs) = rev (combine ts vs)).
  { clear -Hl. revert vs Hl. induction ts as [|t ts IH]; intros [|v vs] Hl; try discriminate; [reflexivity|].
    cbn [rev combine]. rewrite <- IH by (cbn in Hl; lia). cbn in Hl.
    assert (L : length (rev ts) = length (rev vs)) by (rewrite !rev_length; lia).
    clear IH Hl. revert L. generalize (rev ts) (rev vs). intros a. induction a as [|x a IHa]; intros [|y b] L; try discriminate; [reflexivity|].
    cbn [app combine]. rewrite IHa by (cbn in L; lia). reflexivity. }
  rewrite E. split; reflexivity.
Qed.

Lemma layout_tuple2 a b x y : encode (TTuple [a; b]) (VList [x; y]) = component b y ++ component a x.
Proof. cbn [encode map rev app enc_fields]. unfold component. rewrite app_nil_r. reflexivity. Qed.

Lemma layout_tuple3 a b c x y z :
  encode (TTuple [a; b; c]) (VList [x; y; z]) = component c z ++ component b y ++ component a x.
Proof. cbn [encode map rev app enc_fields]. unfold component. rewrite app_nil_r. reflexivity. Qed.

(* list items in order; Vec prefixed by the number of items *)
Lemma layout_vec t l : encode (TVec t) (VList l) = zlen l :: concat (map (component t) l).
Proof. cbn [encode]. unfold enc_list. rewrite flat_map_concat_map. reflexivity. Qed.

Lemma layout_array n t l : encode (TArray n t) (VList l) = concat (map (component t) l).
Proof. cbn [encode]. unfold enc_list. rewrite flat_map_concat_map. reflexivity. Qed.

Lemma layout_option t v : encode (TOption t) VNone = [0] /\ encode (TOption t) (VSome v) = 1 :: encode t v.
Proof. split; reflexivity. Qed.

Lemma layout_poly t l : last_nonzero l = true ->
  encode (TPoly t) (VList l) = zlen (encode (TVec t) (VList l)) :: encode (TVec t) (VList l).
Proof. intros H. cbn [encode]. rewrite (strip_zeros_id l H). reflexivity. Qed.

Lemma layout_enum vs d l fs : znth_opt d vs = Some fs -> length fs = length l ->
  encode (TEnum vs) (VEnum d l) = d :: concat (rev (map (fun tv => component (fst tv) (snd tv)) (combine fs l))).
Proof.
  intros Hd Hl. rewrite (encode_enum vs d l fs Hd). f_equal. destruct (layout_record fs l Hl) as [E _]. cbn [encode] in E. exact E.
Qed.

Lemma layout_u64 z : encode TU64 (VInt z) = [z mod 4294967296; (z / 4294967296) mod 4294967296].
Proof. cbn [encode]. unfold limb. change (2 ^ (32 * 0)) with 1. change (2 ^ (32 * 1)) with 4294967296. rewrite Z.div_1_r. reflexivity. Qed.

(* ================================================================ cost_linear (C13) *)
Definition costs (ts : list ty) := map (fun t => (static_length t, cost t)) ts.
Lemma costs_rev ts : rev (costs ts) = costs (rev ts).
Proof. unfold costs. symmetry. apply map_rev. Qed.

Definition bounded (K : Z) (cst : list Z -> Z) : Prop := forall c, 0 <= cst c <= K * (zlen c + 1).
Definition cost_bound_at (t : ty) : Prop := no_width0_list t = true -> bounded (cost_coeff t) (cost t).

Lemma zsum_nonneg l : Forall (fun x => 0 <= x) l -> 0 <= zsum l.
Proof. induction 1 as [|x r Hx _ IH]; unfold zsum in *; cbn [fold_right]; lia. Qed.

Lemma zsum_In_le l x : Forall (fun x => 0 <= x) l -> In x l -> x <= zsum l.
Proof.
  induction 1 as [|y r Hy Hr IH]; intros Hin; [destruct Hin|]. pose proof (zsum_nonneg r Hr). unfold zsum in *. cbn [fold_right].
  destruct Hin as [->|Hin]; [lia|]. specialize (IH Hin). lia.
Qed.

Theorem cost_coeff_pos : forall t, 1 <= cost_coeff t.
Proof.
  apply ty_nested_ind; cbn [cost_coeff]; try lia; intros.
  - assert (0 <= zsum (map cost_coeff ts)); [|lia]. apply zsum_nonneg. apply Forall_map. eapply Forall_impl; [|exact H]. cbv beta. intros; lia.
  - assert (0 <= zsum (map cost_coeff fs)); [|lia]. apply zsum_nonneg. apply Forall_map. eapply Forall_impl; [|exact H]. cbv beta. intros; lia.
  - assert (0 <= zsum (map (fun fs => zsum (map cost_coeff fs)) vs)); [|lia]. apply zsum_nonneg. apply Forall_map.
    eapply Forall_impl; [|exact H]. cbv beta. intros fs Hfs. apply zsum_nonneg. apply Forall_map. eapply Forall_impl; [|exact Hfs]. cbv beta. intros; lia.
Qed.

Lemma coeff_sum_nonneg ts : 0 <= zsum (map cost_coeff ts).
Proof. apply zsum_nonneg. apply Forall_map. apply Forall_forall. intros t _. pose proof (cost_coeff_pos t). lia. Qed.

Lemma cost_fields_bound ts : Forall cost_bound_at ts -> forallb no_width0_list ts = true ->
  bounded (zsum (map cost_coeff ts)) (cost_fields (costs ts)).
Proof.
  intros HQ Hn. apply forallb_Forall in Hn. unfold bounded. induction ts as [|t ts IH]; intros s.
  - cbn. pose proof (zlen_nonneg s). lia.
  - inversion HQ as [|? ? Ht Hr]; subst. inversion Hn as [|? ? Hnt Hnr]; subst. specialize (IH Hr Hnr).
    cbn [costs map cost_fields]. fold (costs ts). unfold zsum. cbn [fold_right]. fold (zsum (map cost_coeff ts)).
    pose proof (coeff_sum_nonneg ts) as Hs. pose proof (cost_coeff_pos t) as Hp. pose proof (zlen_nonneg s) as Hz.
    destruct (field_header (static_length t) s) as [[len s1]|] eqn:Eh; [|nia].
    assert (Hle : zlen s1 <= zlen s).
    { unfold field_header in Eh. destruct (static_length t); [inversion Eh; subst; lia|].
      destruct s as [|x s']; [discriminate|]. inversion Eh; subst. rewrite zlen_cons. lia. }
    destruct (zlen s1 <? len); [nia|].
    pose proof (Ht Hnt (ztake len s1)) as B1. pose proof (IH (zdrop len s1)) as B2.
    pose proof (zlen_ztake_le len s1). pose proof (zlen_zdrop_le len s1).
    pose proof (zlen_nonneg (ztake len s1)). pose proof (zlen_nonneg (zdrop len s1)).
    split; [lia|]. 
    assert (cost_coeff t * (zlen (ztake len s1) + 1) <= cost_coeff t * (zlen s + 1)) by (apply Z.mul_le_mono_nonneg_l; lia).
    assert (zsum (map cost_coeff ts) * (zlen (zdrop len s1) + 1) <= zsum (map cost_coeff ts) * (zlen s + 1)) by (apply Z.mul_le_mono_nonneg_l; lia).
    lia.
Qed.

Lemma cost_record_bound ts : Forall cost_bound_at ts -> forallb no_width0_list ts = true ->
  bounded (zsum (map cost_coeff ts)) (cost_fields (rev (costs ts))).
Proof.
  intros HQ Hn. rewrite costs_rev. rewrite <- zsum_rev, <- map_rev. apply cost_fields_bound; [apply Forall_rev; exact HQ|].
  apply forallb_Forall. apply Forall_rev. apply forallb_Forall. exact Hn.
Qed.

Lemma chunks_exact_widths w : 0 < w -> forall fuel s, Forall (fun c => zlen c = w) (chunks_exact fuel w s).
Proof.
  intros Hw. induction fuel as [|f IH]; intros s; cbn [chunks_exact]; [constructor|].
  destruct (zlen s <? w) eqn:E; [constructor|]. constructor; [apply zlen_ztake; blia|apply IH].
Qed.

Lemma zsum_map_bound {A} (f : A -> Z) (M : Z) l : Forall (fun x => 0 <= f x <= M) l -> 0 <= zsum (map f l) <= M * zlen l.
Proof.
  induction 1 as [|x r Hx _ IH]; unfold zsum in *; cbn [map fold_right]; [cbn [zlen]; lia|]. rewrite zlen_cons. lia.
Qed.

Lemma cost_list_static_bound K w cst n s : 0 <= K -> 0 < w -> bounded K cst ->
  0 <= cost_list_static w cst n s <= (2 * K + 1) * zlen s.
Proof.
  intros HK Hw Hb. unfold cost_list_static. pose proof (zlen_nonneg s) as Hz.
  destruct (18446744073709551616 <=? n * w); [nia|]. destruct (zlen s <? n * w) eqn:E2; [nia|].
  destruct (n * w <? zlen s) eqn:E3; [nia|]. destruct (w =? 0) eqn:E4; [exfalso; blia|].
  assert (Hs : zlen s = n * w) by blia. assert (Hn : 0 <= n) by nia.
  destruct (chunks_exact_spec w Hw (S (length s)) s n Hn Hs ltac:(lia)) as [_ Hcl].
  pose proof (chunks_exact_widths w Hw (S (length s)) s) as Hcw.
  set (cs := chunks_exact (S (length s)) w s) in *.
  assert (Hf : Forall (fun c => 0 <= 1 + cst c <= 1 + K * (w + 1)) cs).
  { eapply Forall_impl; [|exact Hcw]. cbv beta. intros c Hc. pose proof (Hb c) as Hbc. rewrite Hc in Hbc. lia. }
  pose proof (zsum_map_bound (fun c => 1 + cst c) (1 + K * (w + 1)) cs Hf) as Hsum. rewrite Hcl in Hsum.
  split; [lia|]. rewrite Hs. assert (n <= n * w) by nia. nia.
Qed.

Lemma cost_list_dyn_bound K cst : 0 <= K -> bounded K cst ->
  forall fuel tot n idx rest, 0 <= cost_list_dyn fuel cst tot n idx rest <= (K + 1) * zlen rest.
Proof.
  intros HK Hb. induction fuel as [|f IH]; intros tot n idx rest; pose proof (zlen_nonneg rest) as Hz; cbn [cost_list_dyn].
  - destruct (n <=? 0); [nia|]. destruct rest; nia.
  - destruct (n <=? 0); [nia|]. destruct rest as [|il rest1]; [nia|]. rewrite zlen_cons in *.
    destruct (18446744073709551616 <=? idx + 1 + il); [nia|]. destruct (tot <? idx + 1 + il); [nia|].
    pose proof (Hb (ztake il rest1)) as B1. pose proof (IH tot (n - 1) (idx + 1 + il) (zdrop il rest1)) as B2.
    assert (E : zlen rest1 = zlen (ztake il rest1) + zlen (zdrop il rest1)) by (rewrite <- zlen_app, ztake_zdrop; reflexivity).
    pose proof (zlen_nonneg (ztake il rest1)). pose proof (zlen_nonneg (zdrop il rest1)). rewrite E. nia.
Qed.

Lemma cost_list_bound t n s : cost_bound_at t -> no_width0_list t = true -> width0 t = false ->
  0 <= cost_list (static_length t) (cost t) n s <= (2 * cost_coeff t + 1) * zlen s.
Proof.
  intros HQ Hn Hw. pose proof (cost_coeff_pos t) as Hp. pose proof (zlen_nonneg s) as Hz. unfold cost_list.
  destruct (static_length t) as [w|] eqn:Ew.
  - apply cost_list_static_bound; [lia| |apply HQ; exact Hn].
    pose proof (static_length_nonneg t w Ew). unfold width0 in Hw. rewrite Ew in Hw. cbn [opt_z_eqb] in Hw. blia.
  - pose proof (cost_list_dyn_bound (cost_coeff t) (cost t) ltac:(lia) (HQ Hn) (length s) (zlen s) n 0 s). nia.
Qed.

Theorem cost_linear : forall t, cost_bound_at t.
Proof.
  apply ty_nested_ind; unfold cost_bound_at, bounded; cbn [cost cost_coeff no_width0_list].
  1-8: intros _ c; pose proof (zlen_nonneg c); lia.
  - (* Box *) intros t IH Hn c. specialize (IH Hn c). pose proof (zlen_nonneg c). lia.
  - (* Option *) intros t IH Hn c. pose proof (cost_coeff_pos t). destruct c as [|x r]; [cbn [zlen]; lia|]. rewrite zlen_cons.
    pose proof (zlen_nonneg r). destruct (x =? 1); [|nia]. specialize (IH Hn r). nia.
  - (* Vec *) intros t IH Hn c. apply andb_true_iff in Hn. destruct Hn as [Hw Hn]. apply negb_true_iff in Hw.
    pose proof (cost_coeff_pos t). destruct c as [|n r]; cbn [cost_vec]; [cbn [zlen]; lia|]. rewrite zlen_cons.
    pose proof (cost_list_bound t n r IH Hn Hw). pose proof (zlen_nonneg r). nia.
  - (* Array *) intros k t IH Hn c. apply andb_true_iff in Hn. destruct Hn as [Hw Hn]. apply negb_true_iff in Hw.
    pose proof (cost_coeff_pos t). pose proof (cost_list_bound t (Z.of_N k) c IH Hn Hw). pose proof (zlen_nonneg c). nia.
  - (* Tuple *) intros ts IH Hn c. fold (costs ts). pose proof (cost_record_bound ts IH Hn c). pose proof (zlen_nonneg c).
    pose proof (coeff_sum_nonneg ts). nia.
  - (* Poly *) intros t IH Hn c. apply andb_true_iff in Hn. destruct Hn as [Hw Hn]. apply negb_true_iff in Hw.
    pose proof (cost_coeff_pos t). destruct c as [|ind r]; [cbn [zlen]; lia|].
    pose proof (zlen_nonneg r). destruct (zlen (ind :: r) =? ind + 1); rewrite zlen_cons; [|nia].
    destruct r as [|n r']; cbn [cost_vec]; [cbn [zlen]; lia|]. rewrite zlen_cons.
    pose proof (cost_list_bound t n r' IH Hn Hw). pose proof (zlen_nonneg r'). nia.
  - (* U32s *) intros n _ c. pose proof (zlen_nonneg c). lia.
  - (* Struct *) intros ts IH Hn c. fold (costs ts). pose proof (cost_record_bound ts IH Hn c). pose proof (zlen_nonneg c).
    pose proof (coeff_sum_nonneg ts). nia.
  - (* Enum *) intros vs IH Hn c.
    assert (Hall : Forall (fun x => 0 <= x) (map (fun fs => zsum (map cost_coeff fs)) vs)).
    { apply Forall_map. apply Forall_forall. intros fs _. apply coeff_sum_nonneg. }
    pose proof (zsum_nonneg _ Hall) as Hs.
    destruct c as [|d r]; [cbn [zlen]; lia|]. rewrite zlen_cons. pose proof (zlen_nonneg r).
    rewrite (znth_opt_map (fun fs => map (fun t => (static_length t, cost t)) fs)).
    destruct (znth_opt d vs) as [fs|] eqn:Ed; cbn [option_map]; [|nia]. fold (costs fs).
    pose proof (znth_opt_In _ _ _ Ed) as Hin. rewrite Forall_forall in IH. rewrite forallb_forall in Hn.
    pose proof (cost_record_bound fs (IH fs Hin) (Hn fs Hin) r) as B.
    assert (Hle : zsum (map cost_coeff fs) <= zsum (map (fun fs => zsum (map cost_coeff fs)) vs)).
    { apply zsum_In_le; [exact Hall|]. apply in_map_iff. exists fs. split; [reflexivity|exact Hin]. }
    pose proof (coeff_sum_nonneg fs). nia.
Qed.

(* ================================================================ prefix-freeness: truncated / extended encodings (C13) *)
Lemma app_eq_len {A} (a1 a2 b1 b2 : list A) : zlen a1 = zlen a2 -> a1 ++ b1 = a2 ++ b2 -> a1 = a2 /\ b1 = b2.
Proof.
  intros Hl H. pose proof (f_equal (ztake (zlen a1)) H) as H1. pose proof (f_equal (zdrop (zlen a1)) H) as H2.
  rewrite ztake_app_exact in H1. rewrite zdrop_app_exact in H2. rewrite Hl in H1, H2.
  rewrite ztake_app_exact in H1. rewrite zdrop_app_exact in H2. split; assumption.
Qed.

Lemma cons_inj {A} (a b : A) l m : a :: l = b :: m -> a = b /\ l = m.
Proof. intros H. inversion H. split; reflexivity. Qed.

Lemma app_same_len_nil {A} (a b x : list A) : zlen a = zlen b -> a = b ++ x -> x = [].
Proof. intros Hl H. apply zlen_zero_nil. rewrite H, zlen_app in Hl. lia. Qed.

Definition prefix_free_at (t : ty) : Prop :=
  forall v v' x, typed t v -> typed t v' -> encode t v' = encode t v ++ x -> x = [].

Lemma static_prefix_free t n : static_length t = Some n -> prefix_free_at t.
Proof.
  intros Hn v v' x Hv Hv' H. eapply app_same_len_nil; [|exact H].
  rewrite (static_len t n v' Hn Hv'), (static_len t n v Hn Hv). reflexivity.
Qed.

Lemma enc_fields_prefix_free ts : forall vs vs' x, Forall2 typed ts vs -> Forall2 typed ts vs' ->
  enc_fields (encs ts) vs' = enc_fields (encs ts) vs ++ x -> x = [].
Proof.
  induction ts as [|t ts IH]; intros vs vs' x HT HT' H.
  - inversion HT; subst. inversion HT'; subst. cbn in H. symmetry. exact H.
  - inversion HT as [|? v ? vr Hv Hr]; subst. inversion HT' as [|? v' ? vr' Hv' Hr']; subst.
    cbn [encs map enc_fields] in H. fold (encs ts) in H. rewrite <- app_assoc in H.
    destruct (static_length t) as [a|] eqn:Ea; cbn [with_prefix] in H.
    + apply app_eq_len in H; [|rewrite (static_len t a v' Ea Hv'), (static_len t a v Ea Hv); reflexivity].
      destruct H as [_ H]. exact (IH vr vr' x Hr Hr' H).
    + cbn [app] in H. apply cons_inj in H. destruct H as [Hlen H]. apply app_eq_len in H; [|exact Hlen]. destruct H as [_ H]. exact (IH vr vr' x Hr Hr' H).
Qed.

Lemma record_prefix_free ts vs vs' x : Forall2 typed ts vs -> Forall2 typed ts vs' ->
  enc_fields (rev (encs ts)) (rev vs') = enc_fields (rev (encs ts)) (rev vs) ++ x -> x = [].
Proof.
  intros HT HT' H. rewrite encs_rev in H. eapply enc_fields_prefix_free; [| |exact H]; apply Forall2_rev; assumption.
Qed.

Lemma enc_list_dyn_prefix_free enc : forall l l' x, zlen l = zlen l' ->
  flat_map (prefixed enc) l' = flat_map (prefixed enc) l ++ x -> x = [].
Proof.
  induction l as [|v l IH]; intros l' x Hl H.
  - cbn [zlen] in Hl. rewrite (zlen_zero_nil l') in H by lia. cbn in H. symmetry. exact H.
  - destruct l' as [|v' l']; [rewrite zlen_cons in Hl; cbn [zlen] in Hl; pose proof (zlen_nonneg l); lia|].
    rewrite !zlen_cons in Hl. cbn [flat_map] in H. unfold prefixed at 1 3 in H. cbn [app] in H. rewrite <- app_assoc in H.
    apply cons_inj in H. destruct H as [Hlen H]. apply app_eq_len in H; [|exact Hlen]. destruct H as [_ H]. eapply IH; [|exact H]. lia.
Qed.

Lemma enc_list_prefix_free t l l' x : Forall (typed t) l -> Forall (typed t) l' -> zlen l = zlen l' ->
  enc_list (static_length t) (encode t) l' = enc_list (static_length t) (encode t) l ++ x -> x = [].
Proof.
  intros Hall Hall' Hl H. unfold enc_list in H. destruct (static_length t) as [w|] eqn:Ew; cbn [with_prefix] in H.
  - eapply app_same_len_nil; [|exact H]. rewrite !(zlen_flat_map_const _ w).
    + rewrite Hl. reflexivity.
    + eapply Forall_impl; [|exact Hall]. intros a Ha. apply static_len; assumption.
    + eapply Forall_impl; [|exact Hall']. intros a Ha. apply static_len; assumption.
  - eapply (enc_list_dyn_prefix_free (encode t)); [exact Hl|exact H].
Qed.

Theorem prefix_free : forall t, prefix_free_at t.
Proof.
  apply ty_nested_ind.
  1-8: eapply static_prefix_free; reflexivity.
  - (* Box *) intros t IH v v' x Hv Hv' H. cbn [encode] in H. exact (IH v v' x Hv Hv' H).
  - (* Option *) intros t IH v v' x Hv Hv' H. apply typed_option in Hv. apply typed_option in Hv'.
    destruct Hv as [->|(w & -> & Hw)]; destruct Hv' as [->|(w' & -> & Hw')]; cbn [encode app] in H.
    + apply cons_inj in H. destruct H as [_ H]. symmetry. exact H.
    + discriminate H.
    + discriminate H.
    + apply cons_inj in H. destruct H as [_ H]. exact (IH w w' x Hw Hw' H).
  - (* Vec *) intros t IH v v' x Hv Hv' H. apply typed_list_vec in Hv. apply typed_list_vec in Hv'.
    destruct Hv as (l & -> & Hall). destruct Hv' as (l' & -> & Hall'). cbn [encode app] in H. apply cons_inj in H. destruct H as [Hl H].
    eapply enc_list_prefix_free; [exact Hall|exact Hall'|symmetry; exact Hl|exact H].
  - (* Array *) intros n t IH v v' x Hv Hv' H. apply typed_list_array in Hv. apply typed_list_array in Hv'.
    destruct Hv as (l & -> & Hn & Hall). destruct Hv' as (l' & -> & Hn' & Hall'). cbn [encode] in H.
    eapply enc_list_prefix_free; [exact Hall|exact Hall'|lia|exact H].
  - (* Tuple *) intros ts IH v v' x Hv Hv' H. apply typed_tuple in Hv. apply typed_tuple in Hv'.
    destruct Hv as (vs & -> & HT). destruct Hv' as (vs' & -> & HT'). cbn [encode] in H. exact (record_prefix_free _ _ _ _ HT HT' H).
  - (* Poly *) intros t IH v v' x Hv Hv' H. apply typed_poly in Hv. apply typed_poly in Hv'.
    destruct Hv as (l & -> & Hall & Hnz). destruct Hv' as (l' & -> & Hall' & Hnz'). cbn [encode] in H.
    rewrite (strip_zeros_id l Hnz), (strip_zeros_id l' Hnz') in H. cbn [app] in H. apply cons_inj in H. destruct H as [Hlen H].
    exact (app_same_len_nil _ (zlen l :: enc_list (static_length t) (encode t) l) x Hlen H).
  - (* U32s *) intros n. eapply static_prefix_free; reflexivity.
  - (* Struct *) intros ts IH v v' x Hv Hv' H. apply typed_struct in Hv. apply typed_struct in Hv'.
    destruct Hv as (vs & -> & HT). destruct Hv' as (vs' & -> & HT'). cbn [encode] in H. exact (record_prefix_free _ _ _ _ HT HT' H).
  - (* Enum *) intros vs IH v v' x Hv Hv' H. apply typed_enum in Hv. apply typed_enum in Hv'.
    destruct Hv as (d & l & fs & -> & Hd & HT). destruct Hv' as (d' & l' & fs' & -> & Hd' & HT').
    rewrite (encode_enum vs d l fs Hd), (encode_enum vs d' l' fs' Hd') in H. cbn [app] in H. apply cons_inj in H. destruct H as [Hdd H]. subst d'.
    rewrite Hd in Hd'. inversion Hd'; subst fs'. exact (record_prefix_free _ _ _ _ HT HT' H).
Qed.

(* a valid encoding followed by anything is rejected *)
Theorem strict_extended chk t v x : typed t v -> x <> [] -> short (encode t v ++ x) -> decode chk t (encode t v ++ x) = Err.
Proof.
  intros Hv Hx Hs. apply strict; [exact Hs|]. intros v' Hv' He. apply Hx. exact (prefix_free t v v' x Hv Hv' He).
Qed.

(* a proper prefix of a valid encoding is rejected *)
Theorem strict_truncated chk t v s x : typed t v -> encode t v = s ++ x -> x <> [] -> short s -> decode chk t s = Err.
Proof.
  intros Hv He Hx Hs. apply strict; [exact Hs|]. intros v' Hv' He'. apply Hx. eapply (prefix_free t v' v x); [exact Hv'|exact Hv|].
  rewrite He, He'. reflexivity.
Qed.

(* ================================================================ statements with boolean hypotheses (used by props/) *)
Lemma short_intro s : canon_seq s = true -> zlen s < 2 ^ 32 -> short s.
Proof. intros H1 H2. split; [apply canon_seq_canon; exact H1|exact H2]. Qed.

Theorem unique_b chk t s v : canon_seq s = true -> decode chk t s = Ok v -> has_type t v = true /\ encode t v = s.
Proof. intros Hc. apply unique. apply canon_seq_canon. exact Hc. Qed.

Theorem decode_total_b chk t s : canon_seq s = true -> zlen s < 2 ^ 32 -> decode chk t s <> Panic.
Proof. intros H1 H2. apply decode_total. apply short_intro; assumption. Qed.

Theorem strict_b chk t s : canon_seq s = true -> zlen s < 2 ^ 32 ->
  (forall v, has_type t v = true -> encode t v <> s) -> decode chk t s = Err.
Proof. intros H1 H2. apply strict. apply short_intro; assumption. Qed.

Theorem strict_static_length_b chk t n s : static_length t = Some n -> canon_seq s = true -> zlen s < 2 ^ 32 ->
  zlen s <> n -> decode chk t s = Err.
Proof. intros Hn H1 H2. apply strict_static_length; [exact Hn|apply short_intro; assumption]. Qed.

Theorem strict_extended_b chk t v x : has_type t v = true -> x <> [] ->
  canon_seq (encode t v ++ x) = true -> zlen (encode t v ++ x) < 2 ^ 32 -> decode chk t (encode t v ++ x) = Err.
Proof. intros Hv Hx H1 H2. apply strict_extended; [exact Hv|exact Hx|apply short_intro; assumption]. Qed.

Theorem strict_truncated_b chk t v s x : has_type t v = true -> encode t v = s ++ x -> x <> [] ->
  canon_seq s = true -> zlen s < 2 ^ 32 -> decode chk t s = Err.
Proof. intros Hv He Hx H1 H2. eapply strict_truncated; [exact Hv|exact He|exact Hx|apply short_intro; assumption]. Qed.

Theorem decode_injective_b chk t s1 s2 v : canon_seq s1 = true -> canon_seq s2 = true ->
  decode chk t s1 = Ok v -> decode chk t s2 = Ok v -> s1 = s2.
Proof. intros H1 H2. apply decode_injective; apply canon_seq_canon; assumption. Qed.

Theorem cost_linear_b t s : no_width0_list t = true -> 0 <= cost t s <= cost_coeff t * (zlen s + 1).
Proof. intros H. apply (cost_linear t H s). Qed.

Theorem strict_poly_trailing_zero_b chk t l :
  forallb (has_type t) l = true -> last_nonzero l = false -> zlen (encode (TVec t) (VList l)) < 2 ^ 64 ->
  decode chk (TPoly t) (zlen (encode (TVec t) (VList l)) :: encode (TVec t) (VList l)) = Err.
Proof. intros H1 H2 H3. apply strict_poly_trailing_zero; [apply forallb_Forall; exact H1|exact H2|exact H3]. Qed.

(* a length field is never used to allocate: a huge count on a short sequence costs nothing beyond the sequence *)
Example cost_huge_count : cost (TVec TU64) [4294967296; 1; 2] = 1 /\ decode false (TVec TU64) [4294967296; 1; 2] = Err.
Proof. split; reflexivity. Qed.
