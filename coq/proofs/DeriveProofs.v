(* proofs/DeriveProofs.v - C14: the guarantees of the codec (proofs/CodecProofs.v) for the shapes of the derive macro
   (model/DeriveModel.v): records, enums, ignored fields, explicit discriminants, generic instances. *)
From Coq Require Import ZArith NArith Bool List Lia.
From TF Require Import BFieldGen Codec CodecProofs DeriveModel.
Import ListNotations.
Open Scope Z_scope.
Ltac Zify.zify_post_hook ::= Z.div_mod_to_equations.

(* ================================================================ field lists with ignored fields *)
Lemma filter_rev' {A} (f : A -> bool) l : filter f (rev l) = rev (filter f l).
Proof.
  induction l as [|x r IH]; [reflexivity|]. cbn [rev filter]. rewrite filter_app, IH. cbn [filter].
  destruct (f x); cbn [rev]; [reflexivity|apply app_nil_r].
Qed.

(* the macro reverses and then partitions; the model partitions and `TStruct` reverses: the same order *)
Lemma macro_order_agrees fs : macro_field_order fs = rev (included fs).
Proof. unfold macro_field_order, included. rewrite filter_rev', map_rev. reflexivity. Qed.

Lemma forall2b_length {A B} (f : A -> B -> bool) l m : forall2b f l m = true -> length l = length m.
Proof.
  revert m. induction l as [|x l IH]; intros [|y m] H; cbn [forall2b] in H; try discriminate; [reflexivity|].
  apply andb_true_iff in H. cbn [length]. f_equal. apply IH. apply H.
Qed.

Lemma Forall2_len {A B} (R : A -> B -> Prop) l m : Forall2 R l m -> length l = length m.
Proof. induction 1; cbn [length]; [reflexivity|f_equal; assumption]. Qed.

Lemma included_cons f fs : included (f :: fs) = if fign f then included fs else fty f :: included fs.
Proof. unfold included. cbn [filter]. destruct (fign f); reflexivity. Qed.

Lemma project_typed fs vs : forall2b field_ok fs vs = true -> Forall2 typed (included fs) (project fs vs).
Proof.
  revert vs. induction fs as [|f fs IH]; intros [|v vs] H; cbn [forall2b] in H; try discriminate; [constructor|].
  apply andb_true_iff in H. destruct H as [Hf Hr]. rewrite included_cons. cbn [project]. unfold field_ok in Hf.
  destruct (fign f); cbn [orb] in Hf; [apply IH; exact Hr|]. constructor; [exact Hf|apply IH; exact Hr].
Qed.

Lemma project_length fs vs : length fs = length vs -> length (project fs vs) = length (included fs).
Proof.
  revert vs. induction fs as [|f fs IH]; intros [|v vs] H; try discriminate; [reflexivity|].
  rewrite included_cons. cbn [project]. cbn [length] in H. destruct (fign f); cbn [length]; rewrite IH by lia; reflexivity.
Qed.

Lemma project_inject dflt fs ws : length ws = length (included fs) -> project fs (inject dflt fs ws) = ws.
Proof.
  revert ws. induction fs as [|f fs IH]; intros ws H.
  - destruct ws; [reflexivity|discriminate].
  - rewrite included_cons in H. cbn [inject]. destruct (fign f) eqn:E.
    + cbn [project]. rewrite E. apply IH. exact H.
    + destruct ws as [|w ws]; [discriminate|]. cbn [project]. rewrite E. f_equal. apply IH. cbn [length] in H. lia.
Qed.

Lemma inject_typed dflt fs ws : Forall2 typed (included fs) ws -> forall2b field_ok fs (inject dflt fs ws) = true.
Proof.
  revert ws. induction fs as [|f fs IH]; intros ws H.
  - reflexivity.
  - rewrite included_cons in H. cbn [inject]. destruct (fign f) eqn:E.
    + cbn [forall2b]. unfold field_ok at 1. rewrite E. cbn [orb andb]. apply IH. exact H.
    + inversion H as [|t w ts ws' Hw Hr]; subst. cbn [forall2b]. unfold field_ok at 1. rewrite E. cbn [orb].
      apply andb_true_iff. split; [exact Hw|apply IH; exact Hr].
Qed.

Lemma inject_project dflt fs vs : length fs = length vs -> inject dflt fs (project fs vs) = reset_fields dflt fs vs.
Proof.
  unfold reset_fields. revert vs. induction fs as [|f fs IH]; intros [|v vs] H; try discriminate; [reflexivity|].
  cbn [length] in H. cbn [project combine map fst snd]. destruct (fign f) eqn:E.
  - cbn [inject]. rewrite E. f_equal. apply IH. lia.
  - cbn [inject]. rewrite E. f_equal. apply IH. lia.
Qed.

(* the value after a round trip: included fields as they were, ignored fields Default::default() *)
Lemma reset_fields_nth dflt fs vs i f v : nth_error fs i = Some f -> nth_error vs i = Some v ->
  nth_error (reset_fields dflt fs vs) i = Some (if fign f then dflt (fty f) else v).
Proof.
  unfold reset_fields. revert vs i. induction fs as [|g fs IH]; intros [|w vs] [|i] Hf Hv; cbn in Hf, Hv; try discriminate.
  - inversion Hf; inversion Hv; subst. reflexivity.
  - cbn [combine map nth_error]. apply IH; assumption.
Qed.

Lemma reset_fields_length dflt fs vs : length fs = length vs -> length (reset_fields dflt fs vs) = length fs.
Proof. intros H. unfold reset_fields. rewrite map_length, combine_length. lia. Qed.

(* ================================================================ the four guarantees for shapes *)
Theorem shape_roundtrip dflt chk s v : shape_has_type s v = true -> zlen (shape_encode s v) < 2 ^ 64 ->
  shape_decode dflt chk s (shape_encode s v) = Ok (shape_reset dflt s v).
Proof.
  destruct s as [|fs|fs|vs]; try (intros Ht Hl; exact (roundtrip chk _ v Ht Hl)).
  destruct v as [| | | | |vs|]; try discriminate. unfold shape_has_type, shape_encode, shape_decode, shape_reset. intros Ht Hl.
  assert (T : typed (lower (SNamed fs)) (VList (project fs vs))).
  { unfold typed, lower. cbn [has_type]. apply apply_all_Forall2. apply project_typed. exact Ht. }
  rewrite (roundtrip chk _ _ T Hl). cbn [obind]. rewrite inject_project by (eapply forall2b_length; exact Ht). reflexivity.
Qed.

Theorem shape_unique dflt chk s sq v : canon_seq sq = true -> shape_decode dflt chk s sq = Ok v ->
  shape_has_type s v = true /\ shape_encode s v = sq.
Proof.
  intros Hc. destruct s as [|fs|fs|vs]; try (intros E; exact (unique_b chk _ sq v Hc E)).
  unfold shape_decode. intros E. apply obind_ok in E. destruct E as (v0 & E0 & E1).
  destruct (unique_b chk _ sq v0 Hc E0) as [T0 En]. unfold lower in T0. apply typed_struct in T0.
  destruct T0 as (ws & -> & Hws). inversion E1; subst v. clear E1.
  unfold shape_has_type, shape_encode. split; [apply inject_typed; exact Hws|].
  rewrite project_inject; [exact En|]. symmetry. eapply Forall2_len. exact Hws.
Qed.

Theorem shape_total dflt chk s sq : canon_seq sq = true -> zlen sq < 2 ^ 32 -> shape_decode dflt chk s sq <> Panic.
Proof.
  intros Hc Hl. destruct s as [|fs|fs|vs]; try exact (decode_total_b chk _ sq Hc Hl).
  unfold shape_decode. apply obind_not_panic; [exact (decode_total_b chk _ sq Hc Hl)|].
  intros a _. destruct a; discriminate.
Qed.

Theorem shape_strict dflt chk s sq : canon_seq sq = true -> zlen sq < 2 ^ 32 ->
  (forall v, shape_has_type s v = true -> shape_encode s v <> sq) -> shape_decode dflt chk s sq = Err.
Proof.
  intros Hc Hl Hne. destruct s as [|fs|fs|vs]; try exact (strict_b chk _ sq Hc Hl Hne).
  unfold shape_decode. rewrite (strict_b chk (lower (SNamed fs)) sq Hc Hl); [reflexivity|].
  intros v Hv He. apply typed_struct in Hv. destruct Hv as (ws & -> & Hws).
  apply (Hne (VList (inject dflt fs ws))).
  - unfold shape_has_type. apply inject_typed. exact Hws.
  - unfold shape_encode. rewrite project_inject; [exact He|]. symmetry. eapply Forall2_len. exact Hws.
Qed.

Theorem shape_static_len s n v : shape_static_length s = Some n -> shape_has_type s v = true -> zlen (shape_encode s v) = n.
Proof.
  unfold shape_static_length. destruct s as [|fs|fs|vs]; try (intros Hn Ht; exact (static_len _ n v Hn Ht)).
  destruct v as [| | | | |vs|]; try discriminate. unfold shape_has_type, shape_encode. intros Hn Ht.
  apply (static_len _ n _ Hn). unfold typed, lower. cbn [has_type]. apply apply_all_Forall2. apply project_typed. exact Ht.
Qed.

Theorem shape_one_accepted_encoding dflt chk s s1 s2 v : canon_seq s1 = true -> canon_seq s2 = true ->
  shape_decode dflt chk s s1 = Ok v -> shape_decode dflt chk s s2 = Ok v -> s1 = s2.
Proof.
  intros H1 H2 E1 E2. destruct (shape_unique dflt chk s s1 v H1 E1) as [_ <-].
  destruct (shape_unique dflt chk s s2 v H2 E2) as [_ <-]. reflexivity.
Qed.

Theorem shape_cost_linear s sq : no_width0_list (lower s) = true -> 0 <= cost (lower s) sq <= cost_coeff (lower s) * (zlen sq + 1).
Proof. apply cost_linear_b. Qed.

(* ignored fields are omitted: the encoding depends on the included fields only *)
Theorem ignored_omitted fs vs vs' : project fs vs = project fs vs' ->
  shape_encode (SNamed fs) (VList vs) = shape_encode (SNamed fs) (VList vs').
Proof. unfold shape_encode. intros ->. reflexivity. Qed.

(* ... and defaulted *)
Theorem ignored_defaulted dflt chk fs vs : shape_has_type (SNamed fs) (VList vs) = true ->
  zlen (shape_encode (SNamed fs) (VList vs)) < 2 ^ 64 ->
  shape_decode dflt chk (SNamed fs) (shape_encode (SNamed fs) (VList vs))
  = Ok (VList (map (fun fv => if fign (fst fv) then dflt (fty (fst fv)) else snd fv) (combine fs vs))).
Proof. intros Ht Hl. exact (shape_roundtrip dflt chk (SNamed fs) (VList vs) Ht Hl). Qed.

(* generic definitions: an instance is the definition with the arguments substituted *)
Theorem generic_instance dflt chk (g : list ty -> shape) (args : list ty) v :
  shape_has_type (g args) v = true -> zlen (shape_encode (g args) v) < 2 ^ 64 ->
  shape_decode dflt chk (g args) (shape_encode (g args) v) = Ok (shape_reset dflt (g args) v).
Proof. apply shape_roundtrip. Qed.

(* ================================================================ records and enums of the codec grammar, explicitly *)
Theorem record_roundtrip chk fs vs : apply_all (map has_type fs) vs = true -> zlen (encode (TStruct fs) (VList vs)) < 2 ^ 64 ->
  decode chk (TStruct fs) (encode (TStruct fs) (VList vs)) = Ok (VList vs).
Proof. intros Ht Hl. exact (roundtrip chk (TStruct fs) (VList vs) Ht Hl). Qed.

Theorem enum_roundtrip chk vs d l : has_type (TEnum vs) (VEnum d l) = true -> zlen (encode (TEnum vs) (VEnum d l)) < 2 ^ 64 ->
  decode chk (TEnum vs) (encode (TEnum vs) (VEnum d l)) = Ok (VEnum d l).
Proof. intros Ht Hl. exact (roundtrip chk (TEnum vs) (VEnum d l) Ht Hl). Qed.

Theorem record_unique chk fs sq v : canon_seq sq = true -> decode chk (TStruct fs) sq = Ok v ->
  exists vs, v = VList vs /\ apply_all (map has_type fs) vs = true /\ encode (TStruct fs) (VList vs) = sq.
Proof.
  intros Hc E. destruct (unique_b chk _ sq v Hc E) as [Ht He]. destruct (typed_struct fs v Ht) as (vs & -> & _).
  exists vs. split; [reflexivity|]. split; [exact Ht|exact He].
Qed.

Theorem enum_unique chk vs sq v : canon_seq sq = true -> decode chk (TEnum vs) sq = Ok v ->
  exists d l fs, v = VEnum d l /\ znth_opt d vs = Some fs /\ apply_all (map has_type fs) l = true /\ encode (TEnum vs) (VEnum d l) = sq.
Proof.
  intros Hc E. destruct (unique_b chk _ sq v Hc E) as [Ht He]. destruct (typed_enum vs v Ht) as (d & l & fs & -> & Hd & Hl).
  exists d, l, fs. split; [reflexivity|]. split; [exact Hd|]. split; [apply apply_all_Forall2; exact Hl|exact He].
Qed.

(* ---------------------------------------------------------------- unit structs *)
Lemma unit_struct chk :
  (forall v, shape_encode SUnit v = []) /\ shape_static_length SUnit = Some 0
  /\ decode chk (lower SUnit) [] = Ok (VList []) /\ (forall x r, decode chk (lower SUnit) (x :: r) = Err).
Proof.
  split; [|split; [reflexivity|split; [reflexivity|intros; reflexivity]]].
  intros v. unfold shape_encode, lower. destruct v; reflexivity.
Qed.

(* ---------------------------------------------------------------- static length *)
Lemma record_static_length fs : static_length (TStruct fs) = sum_opt (map static_length fs).
Proof. reflexivity. Qed.

Lemma sum_opt_all_some ts ns : Forall2 (fun t n => static_length t = Some n) ts ns ->
  sum_opt (map static_length ts) = Some (zsum ns).
Proof.
  induction 1 as [|t n ts ns Ht _ IH]; [reflexivity|]. cbn [map sum_opt zsum fold_right]. rewrite Ht. fold (zsum ns). rewrite IH. reflexivity.
Qed.

Lemma sum_opt_some_none ts t : In t ts -> static_length t = None -> sum_opt (map static_length ts) = None.
Proof.
  induction ts as [|u ts IH]; intros Hin Hn; [destruct Hin|]. cbn [map sum_opt]. destruct Hin as [->|Hin].
  - rewrite Hn. reflexivity.
  - rewrite (IH Hin Hn). destruct (static_length u); reflexivity.
Qed.

(* all fields static: the sum;  one dynamic field: None *)
Theorem record_static_sum fs ns : Forall2 (fun t n => static_length t = Some n) fs ns -> static_length (TStruct fs) = Some (zsum ns).
Proof. apply sum_opt_all_some. Qed.

Theorem record_static_none fs t : In t fs -> static_length t = None -> static_length (TStruct fs) = None.
Proof. apply sum_opt_some_none. Qed.

Lemma forallb_is_nil_true (vs : list (list ty)) : (forall fs, In fs vs -> fs = []) -> forallb is_nil vs = true.
Proof. intros H. apply forallb_forall. intros fs Hin. rewrite (H fs Hin). reflexivity. Qed.

(* no variant has data: the discriminant alone *)
Theorem enum_static_units vs : (forall fs, In fs vs -> fs = []) -> static_length (TEnum vs) = Some 1.
Proof. intros H. cbn [static_length]. unfold enum_static_length. rewrite (forallb_is_nil_true vs H). reflexivity. Qed.

(* all variants of the same static width w: w + 1 *)
Theorem enum_static_uniform vs w : vs <> [] -> (forall fs, In fs vs -> sum_opt (map static_length fs) = Some w) ->
  static_length (TEnum vs) = Some (w + 1).
Proof.
  intros Hne H. cbn [static_length]. unfold enum_static_length. destruct (forallb is_nil vs) eqn:E.
  - destruct vs as [|fs r]; [contradiction|]. cbn [forallb] in E. apply andb_true_iff in E. destruct E as [E _].
    apply is_nil_true in E. subst fs. specialize (H [] (or_introl eq_refl)). cbn in H. inversion H. reflexivity.
  - assert (A : map (fun fs => sum_opt (map static_length fs)) vs = map (fun _ => Some w) vs).
    { apply map_ext_in. exact H. }
    rewrite A. destruct vs as [|fs r]; [contradiction|]. cbn [map].
    assert (B : forallb opt_is_some (Some w :: map (fun _ => Some w) r) = true).
    { apply forallb_forall. intros o [<-|Ho]; [reflexivity|]. apply in_map_iff in Ho. destruct Ho as (? & <- & _). reflexivity. }
    assert (C : forallb (opt_z_eqb (Some w)) (Some w :: map (fun _ => Some w) r) = true).
    { apply forallb_forall. intros o Ho. assert (o = Some w) as ->.
      { destruct Ho as [<-|Ho]; [reflexivity|]. apply in_map_iff in Ho. destruct Ho as (? & <- & _). reflexivity. }
      cbn [opt_z_eqb]. apply Z.eqb_refl. }
    rewrite B, C. reflexivity.
Qed.

(* a dynamically sized variant, or two variants of different widths: None *)
Theorem enum_static_none vs fs1 fs2 : In fs1 vs -> In fs2 vs ->
  sum_opt (map static_length fs1) <> sum_opt (map static_length fs2) -> static_length (TEnum vs) = None.
Proof.
  intros H1 H2 Hne. destruct (static_length (TEnum vs)) as [n|] eqn:E; [|reflexivity]. exfalso. apply Hne.
  cbn [static_length] in E. rewrite (enum_static_length_inv vs n E fs1 H1), (enum_static_length_inv vs n E fs2 H2). reflexivity.
Qed.

Theorem enum_static_dynamic vs fs : In fs vs -> fs <> [] -> sum_opt (map static_length fs) = None -> static_length (TEnum vs) = None.
Proof.
  intros H1 Hne Hn. destruct (static_length (TEnum vs)) as [n|] eqn:E; [|reflexivity]. exfalso.
  cbn [static_length] in E. rewrite (enum_static_length_inv vs n E fs H1) in Hn. discriminate.
Qed.

(* ---------------------------------------------------------------- layout *)
Definition components (ts : list ty) (vs : list value) : list (list Z) :=
  map (fun tv => component (fst tv) (snd tv)) (combine ts vs).

(* a dynamically sized field is prefixed by its length, a statically sized one is not *)
Lemma component_dynamic t v : static_length t = None -> component t v = zlen (encode t v) :: encode t v.
Proof. unfold component. intros ->. reflexivity. Qed.
Lemma component_static t n v : static_length t = Some n -> component t v = encode t v.
Proof. unfold component. intros ->. reflexivity. Qed.

(* struct: fields in reverse declaration order *)
Theorem layout_struct fs vs : length fs = length vs -> encode (TStruct fs) (VList vs) = concat (rev (components fs vs)).
Proof. intros H. exact (proj2 (layout_record fs vs H)). Qed.

(* named-field struct: the ignored fields do not occur *)
Theorem layout_named fs vs : length fs = length vs ->
  shape_encode (SNamed fs) (VList vs) = concat (rev (components (included fs) (project fs vs))).
Proof. intros H. unfold shape_encode, lower. apply layout_struct. symmetry. apply project_length. exact H. Qed.

Theorem layout_tuple_struct fs vs : length fs = length vs ->
  shape_encode (STuple fs) (VList vs) = concat (rev (components (map fty fs) vs)).
Proof. intros H. unfold shape_encode, lower. apply layout_struct. rewrite map_length. exact H. Qed.

(* enum: the discriminant (= position of the variant) first, then the fields of the variant in reverse order *)
Theorem layout_shape_enum vs d l x fs : znth_opt d vs = Some (x, fs) -> length fs = length l ->
  shape_encode (SEnum vs) (VEnum d l) = d :: concat (rev (components fs l)).
Proof.
  intros Hd Hl. unfold shape_encode, lower. apply layout_enum; [|exact Hl]. rewrite znth_opt_map, Hd. reflexivity.
Qed.

(* explicit Rust discriminants play no role *)
Theorem explicit_discriminant_unused vs : lower (SEnum vs) = lower (SEnum (map (fun v => (None, snd v)) vs)).
Proof. unfold lower. rewrite map_map. reflexivity. Qed.

(* ---------------------------------------------------------------- strictness for enums *)
Theorem enum_empty_rejected dflt chk vs : shape_decode dflt chk (SEnum vs) [] = Err.
Proof. reflexivity. Qed.

Theorem enum_unknown_discriminant dflt chk vs d r : zlen vs <= d -> shape_decode dflt chk (SEnum vs) (d :: r) = Err.
Proof. intros H. unfold shape_decode, lower. apply strict_enum_discriminant. rewrite zlen_map. exact H. Qed.

Theorem shape_truncated dflt chk s v sq x : shape_has_type s v = true -> shape_encode s v = sq ++ x -> x <> [] ->
  canon_seq sq = true -> zlen sq < 2 ^ 32 -> shape_decode dflt chk s sq = Err.
Proof.
  intros Ht He Hx Hc Hl. destruct s as [|fs|fs|vs]; try exact (strict_truncated_b chk _ v sq x Ht He Hx Hc Hl).
  destruct v as [| | | | |vs|]; try discriminate. unfold shape_has_type in Ht. unfold shape_encode in He. unfold shape_decode.
  rewrite (strict_truncated_b chk (lower (SNamed fs)) (VList (project fs vs)) sq x); [reflexivity| |exact He|exact Hx|exact Hc|exact Hl].
  unfold lower. cbn [has_type]. apply apply_all_Forall2. apply project_typed. exact Ht.
Qed.

Theorem shape_extended dflt chk s v x : shape_has_type s v = true -> x <> [] ->
  canon_seq (shape_encode s v ++ x) = true -> zlen (shape_encode s v ++ x) < 2 ^ 32 -> shape_decode dflt chk s (shape_encode s v ++ x) = Err.
Proof.
  intros Ht Hx Hc Hl. destruct s as [|fs|fs|vs]; try exact (strict_extended_b chk _ v x Ht Hx Hc Hl).
  destruct v as [| | | | |vs|]; try discriminate. unfold shape_has_type in Ht. unfold shape_encode in *. unfold shape_decode.
  rewrite (strict_extended_b chk (lower (SNamed fs)) (VList (project fs vs)) x); [reflexivity| |exact Hx|exact Hc|exact Hl].
  unfold lower. cbn [has_type]. apply apply_all_Forall2. apply project_typed. exact Ht.
Qed.

(* a length prefix larger than what is left *)
Theorem record_field_prefix chk ts t len r : static_length t = None -> zlen r < len -> decode chk (TStruct (ts ++ [t])) (len :: r) = Err.
Proof. intros Hn Hl. exact (proj2 (strict_field_prefix chk ts t len r Hn Hl)). Qed.

(* ---------------------------------------------------------------- the attribute on a tuple-struct field (finding) *)
Definition tign_fields : list field := [Field true TU32; Field false TU64].
Definition tign_value : list value := [VInt 7; VInt 9].

Theorem tuple_ignore_refuted :
  exists fs vs, existsb fign fs = true /\ shape_has_type (STuple fs) (VList vs) = true
                /\ shape_encode (STuple fs) (VList vs) <> encode (lower_spec (STuple fs)) (VList (project fs vs)).
Proof. exists tign_fields, tign_value. split; [reflexivity|]. split; [reflexivity|]. discriminate. Qed.

Lemma tuple_ignore_witness :
  shape_encode (STuple tign_fields) (VList tign_value) = [9; 0; 7]
  /\ encode (lower_spec (STuple tign_fields)) (VList (project tign_fields tign_value)) = [9; 0]
  /\ shape_static_length (STuple tign_fields) = Some 3
  /\ shape_encode (SNamed tign_fields) (VList tign_value) = [9; 0].
Proof. repeat split; reflexivity. Qed.

(* on named fields the attribute IS honoured: the faithful layout is the layout of the property *)
Lemma named_ignore_honoured fs : lower (SNamed fs) = lower_spec (SNamed fs).
Proof. reflexivity. Qed.

(* without the attribute a tuple struct follows the property's layout too *)
Lemma tuple_no_attr fs : existsb fign fs = false -> lower (STuple fs) = lower_spec (STuple fs).
Proof.
  intros H. unfold lower_spec, lower, included. f_equal. f_equal. induction fs as [|f fs IH]; [reflexivity|].
  cbn [existsb] in H. apply orb_false_iff in H. destruct H as [Hf Hr]. cbn [filter]. rewrite Hf. cbn [negb]. f_equal. apply IH. exact Hr.
Qed.

(* ---------------------------------------------------------------- workspace macro versus published macro *)
(* `x as usize` (0.7.0) and `usize::try_from(x)` (0.7.1) agree on every field element: P < 2^64 *)
Theorem usize_conversions_agree x : 0 <= x < P -> usize_try_from x = Some x /\ usize_as x = x.
Proof.
  unfold P, usize_try_from, usize_as. intros H. split.
  - destruct (x <? 18446744073709551616) eqn:E; [reflexivity|]. apply Z.ltb_ge in E. lia.
  - apply Z.mod_small. lia.
Qed.
