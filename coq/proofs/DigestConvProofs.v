(* proofs/DigestConvProofs.v - lemmas about the C20 model (model/DigestConv.v). *)
From Coq Require Import ZArith Bool List Lia.
From TF Require Import BFieldGen DigestConv.
Import ListNotations.
Open Scope Z_scope.
Ltac Zify.zify_post_hook ::= Z.div_mod_to_equations.

Lemma P_val : P = 18446744069414584321. Proof. reflexivity. Qed.
Lemma pow2_64 : 2 ^ 64 = 18446744073709551616. Proof. reflexivity. Qed.
Lemma pow256_8 : 256 ^ 8 = 18446744073709551616. Proof. reflexivity. Qed.

(* ================================================================= generic *)
Lemma map_opt_map_some {A B : Type} (f : A -> option B) (g : B -> A) (l : list B) :
  (forall y, In y l -> f (g y) = Some y) -> map_opt f (map g l) = Some l.
Proof.
  induction l as [|y l IH]; intros H; [reflexivity|].
  cbn [map map_opt]. rewrite (H y (or_introl eq_refl)).
  rewrite IH; [reflexivity|]. intros z Hz. apply H. right. exact Hz.
Qed.

Lemma map_opt_some_forall2 {A B : Type} (f : A -> option B) (l : list A) (r : list B) :
  map_opt f l = Some r <-> Forall2 (fun x y => f x = Some y) l r.
Proof.
  revert r. induction l as [|x l IH]; intros r; cbn [map_opt].
  - split; intros H.
    + injection H as <-. constructor.
    + inversion H. reflexivity.
  - destruct (f x) as [y|] eqn:Hx.
    + destruct (map_opt f l) as [ys|] eqn:Hl.
      * split; intros H.
        -- injection H as <-. constructor; [exact Hx|]. apply IH. reflexivity.
        -- inversion H as [|? y' ? r' Hy Hr]; subst. rewrite Hx in Hy. injection Hy as <-.
           apply IH in Hr. injection Hr as <-. reflexivity.
      * split; intros H; [discriminate|].
        inversion H as [|? y' ? r' Hy Hr]; subst. apply IH in Hr. discriminate.
    + split; intros H; [discriminate|].
      inversion H as [|? y' ? r' Hy Hr]; subst. rewrite Hx in Hy. discriminate.
Qed.

Lemma Forall2_length {A B : Type} (R : A -> B -> Prop) l r : Forall2 R l r -> length l = length r.
Proof. induction 1; cbn [length]; congruence. Qed.

Lemma Forall2_imp {A B : Type} (R S : A -> B -> Prop) l r :
  (forall x y, R x y -> S x y) -> Forall2 R l r -> Forall2 S l r.
Proof. intros H. induction 1; constructor; auto. Qed.

(* ================================================================= little-endian bytes *)
Lemma le_bytes_length n v : length (le_bytes n v) = n.
Proof. revert v. induction n as [|n IH]; intros v; cbn [le_bytes length]; [reflexivity|]. now rewrite IH. Qed.

Lemma le_bytes_bytes n v : byte_list (le_bytes n v).
Proof.
  revert v. induction n as [|n IH]; intros v; cbn [le_bytes]; constructor.
  - apply Z.mod_pos_bound. lia.
  - apply IH.
Qed.

Lemma from_le_bytes_le_bytes n v : 0 <= v < 256 ^ Z.of_nat n -> from_le_bytes (le_bytes n v) = v.
Proof.
  revert v. induction n as [|n IH]; intros v Hv.
  - cbn [le_bytes from_le_bytes]. change (256 ^ Z.of_nat 0) with 1 in Hv. lia.
  - cbn [le_bytes from_le_bytes]. rewrite Nat2Z.inj_succ, Z.pow_succ_r in Hv by lia.
    rewrite IH; [lia|]. set (Y := 256 ^ Z.of_nat n) in *. clearbody Y. lia.
Qed.

Lemma from_le_bytes_range l : byte_list l -> 0 <= from_le_bytes l < 256 ^ Z.of_nat (length l).
Proof.
  induction 1 as [|b l Hb Hl IH]; cbn [from_le_bytes length].
  - change (256 ^ Z.of_nat 0) with 1. lia.
  - rewrite Nat2Z.inj_succ, Z.pow_succ_r by lia.
    set (Y := 256 ^ Z.of_nat (length l)) in *. clearbody Y. set (X := from_le_bytes l) in *. clearbody X. lia.
Qed.

Lemma le_bytes_from_le_bytes l : byte_list l -> le_bytes (length l) (from_le_bytes l) = l.
Proof.
  induction 1 as [|b l Hb Hl IH]; cbn [from_le_bytes length le_bytes]; [reflexivity|].
  set (X := from_le_bytes l) in *.
  replace ((b + 256 * X) mod 256) with b by (clearbody X; lia).
  replace ((b + 256 * X) / 256) with X by (clearbody X; lia).
  now rewrite IH.
Qed.

Lemma bfe_try_new_canon v : canon_val v -> bfe_try_new v = Some v.
Proof.
  intros Hv. unfold bfe_try_new, bfe_is_canonical, bfe_new_val, canon_val in *.
  destruct (v <? P) eqn:E; [|apply Z.ltb_ge in E; lia]. now rewrite Z.mod_small.
Qed.

Lemma bfe_try_new_some v w : 0 <= v -> bfe_try_new v = Some w -> w = v /\ canon_val v.
Proof.
  intros H0. unfold bfe_try_new, bfe_is_canonical, bfe_new_val, canon_val.
  destruct (v <? P) eqn:E; [|discriminate]. apply Z.ltb_lt in E. intros H. injection H as <-.
  rewrite Z.mod_small by lia. lia.
Qed.

Lemma bfe_try_new_noncanon v : P <= v -> bfe_try_new v = None.
Proof.
  intros H. unfold bfe_try_new, bfe_is_canonical. destruct (v <? P) eqn:E; [apply Z.ltb_lt in E; lia|reflexivity].
Qed.

Lemma canon_u64 v : canon_val v -> 0 <= v < 256 ^ Z.of_nat 8.
Proof. unfold canon_val. change (256 ^ Z.of_nat 8) with 18446744073709551616. rewrite P_val. lia. Qed.

(* BFieldElement <-> [u8; 8] *)
Lemma bfe_bytes_roundtrip v : canon_val v -> bfe_try_from_slice (bfe_to_bytes v) = Some v.
Proof.
  intros Hv. unfold bfe_try_from_slice, bfe_to_bytes, bfe_try_from_array.
  rewrite le_bytes_length. cbn [Nat.eqb].
  rewrite from_le_bytes_le_bytes by (apply canon_u64; exact Hv). apply bfe_try_new_canon. exact Hv.
Qed.

Lemma bfe_bytes_accept l v : byte_list l -> bfe_try_from_slice l = Some v ->
  length l = 8%nat /\ canon_val v /\ l = bfe_to_bytes v.
Proof.
  intros Hl. unfold bfe_try_from_slice, bfe_try_from_array, bfe_to_bytes.
  destruct (Nat.eqb (length l) 8) eqn:E; [|discriminate]. apply Nat.eqb_eq in E.
  intros H. apply bfe_try_new_some in H; [|apply from_le_bytes_range; exact Hl].
  destruct H as [-> Hc]. split; [exact E|]. split; [exact Hc|].
  rewrite <- E. symmetry. apply le_bytes_from_le_bytes. exact Hl.
Qed.

Lemma bfe_bytes_wrong_length l : length l <> 8%nat -> bfe_try_from_slice l = None.
Proof.
  intros H. unfold bfe_try_from_slice. destruct (Nat.eqb (length l) 8) eqn:E; [apply Nat.eqb_eq in E; contradiction|reflexivity].
Qed.

Lemma bfe_bytes_noncanon l : byte_list l -> P <= from_le_bytes l -> bfe_try_from_slice l = None.
Proof.
  intros Hl H. unfold bfe_try_from_slice, bfe_try_from_array.
  destruct (Nat.eqb (length l) 8); [|reflexivity]. apply bfe_try_new_noncanon. exact H.
Qed.

(* ================================================================= Digest <-> bytes *)
Lemma chunks8_cons8 a b c d e f g h r :
  chunks8 (a :: b :: c :: d :: e :: f :: g :: h :: r) = [a; b; c; d; e; f; g; h] :: chunks8 r.
Proof. reflexivity. Qed.

Lemma le_bytes_8 v : exists a b c d e f g h, le_bytes 8 v = [a; b; c; d; e; f; g; h].
Proof. cbn [le_bytes]. do 8 eexists. reflexivity. Qed.

Lemma chunks8_le_bytes_app v r : chunks8 (le_bytes 8 v ++ r) = le_bytes 8 v :: chunks8 r.
Proof.
  destruct (le_bytes_8 v) as (a & b & c & d & e & f & g & h & ->).
  cbn [app]. apply chunks8_cons8.
Qed.

Lemma digest_to_bytes_cons v d : digest_to_bytes (v :: d) = le_bytes 8 v ++ digest_to_bytes d.
Proof. reflexivity. Qed.

Lemma chunks8_digest_to_bytes d : chunks8 (digest_to_bytes d) = map bfe_to_bytes d.
Proof.
  induction d as [|v d IH]; [reflexivity|].
  rewrite digest_to_bytes_cons, chunks8_le_bytes_app, IH. reflexivity.
Qed.

Lemma digest_to_bytes_length d : length (digest_to_bytes d) = (8 * length d)%nat.
Proof.
  induction d as [|v d IH]; [reflexivity|].
  rewrite digest_to_bytes_cons, app_length, le_bytes_length, IH. cbn [length]. lia.
Qed.

Lemma digest_to_bytes_bytes d : byte_list (digest_to_bytes d).
Proof.
  induction d as [|v d IH]; [constructor|].
  rewrite digest_to_bytes_cons. apply Forall_app. split; [apply le_bytes_bytes|exact IH].
Qed.

Lemma digest_array_roundtrip d : Forall canon_val d -> digest_try_from_array (digest_to_bytes d) = Some d.
Proof.
  intros Hd. unfold digest_try_from_array. rewrite chunks8_digest_to_bytes.
  apply map_opt_map_some. intros v Hv. apply bfe_bytes_roundtrip.
  rewrite Forall_forall in Hd. apply Hd. exact Hv.
Qed.

Lemma digest_bytes_roundtrip d : wf_digest d -> digest_try_from_slice (digest_to_bytes d) = Some d.
Proof.
  intros [Hl Hd]. unfold digest_try_from_slice. rewrite digest_to_bytes_length, Hl. cbn [Nat.mul Nat.add Nat.eqb].
  apply digest_array_roundtrip. exact Hd.
Qed.

(* structure of chunks_exact(8) on a list whose length is a multiple of 8 *)
Lemma chunks8_spec n : forall l, length l = (8 * n)%nat -> byte_list l ->
  concat (chunks8 l) = l /\ length (chunks8 l) = n /\ Forall (fun c => length c = 8%nat /\ byte_list c) (chunks8 l).
Proof.
  induction n as [|n IH]; intros l Hlen Hb.
  - destruct l; [|cbn [length] in Hlen; lia]. cbn. repeat split; constructor.
  - do 8 (destruct l as [|? l]; [cbn [length] in Hlen; lia|]).
    rewrite chunks8_cons8. cbn [length] in Hlen.
    assert (Hl : length l = (8 * n)%nat) by lia.
    assert (Hbl : byte_list l) by (do 8 (apply Forall_inv_tail in Hb); exact Hb).
    destruct (IH l Hl Hbl) as (Hc & Hn & Hf).
    cbn [concat app length]. rewrite Hc, Hn. repeat split.
    constructor; [|exact Hf]. split; [reflexivity|].
    unfold byte_list in *.
    repeat (match goal with H : Forall _ (_ :: _) |- _ => inversion H; clear H; subst end).
    repeat (first [apply Forall_nil | apply Forall_cons; [assumption|]]).
Qed.

Lemma map_opt_chunks cs : forall d, Forall (fun c => length c = 8%nat /\ byte_list c) cs ->
  map_opt bfe_try_from_slice cs = Some d ->
  Forall canon_val d /\ concat cs = digest_to_bytes d /\ length d = length cs.
Proof.
  induction cs as [|c cs IH]; intros d Hcs H.
  - cbn [map_opt] in H. injection H as <-. repeat split. constructor.
  - cbn [map_opt] in H. inversion Hcs as [|? ? [Hc8 Hcb] Hcs']; subst.
    destruct (bfe_try_from_slice c) as [v|] eqn:Hv; [|discriminate].
    destruct (map_opt bfe_try_from_slice cs) as [vs|] eqn:Hvs; [|discriminate].
    injection H as <-.
    destruct (bfe_bytes_accept c v Hcb Hv) as (_ & Hcv & ->).
    destruct (IH vs Hcs' eq_refl) as (Hf & Hcat & Hlen).
    split; [constructor; assumption|]. split.
    + cbn [concat]. rewrite digest_to_bytes_cons, Hcat. reflexivity.
    + cbn [length]. now rewrite Hlen.
Qed.

(* accepted input: the digest is well formed and re-encodes to exactly the input *)
Lemma digest_bytes_accept l d : byte_list l -> digest_try_from_slice l = Some d ->
  length l = 40%nat /\ wf_digest d /\ digest_to_bytes d = l.
Proof.
  intros Hb. unfold digest_try_from_slice, digest_try_from_array.
  destruct (Nat.eqb (length l) 40) eqn:E; [|discriminate]. apply Nat.eqb_eq in E. intros H.
  destruct (chunks8_spec 5 l E Hb) as (Hc & Hn & Hf).
  destruct (map_opt_chunks _ _ Hf H) as (Hcan & Hcat & Hlen).
  split; [exact E|]. split.
  - split; [congruence|exact Hcan].
  - congruence.
Qed.

Lemma digest_bytes_accept_iff l d : byte_list l ->
  (digest_try_from_slice l = Some d <-> wf_digest d /\ digest_to_bytes d = l).
Proof.
  intros Hb. split.
  - intros H. destruct (digest_bytes_accept l d Hb H) as (_ & Hw & He). split; assumption.
  - intros [Hw <-]. apply digest_bytes_roundtrip. exact Hw.
Qed.

Lemma digest_bytes_wrong_length l : length l <> 40%nat -> digest_try_from_slice l = None.
Proof.
  intros H. unfold digest_try_from_slice.
  destruct (Nat.eqb (length l) 40) eqn:E; [apply Nat.eqb_eq in E; contradiction|reflexivity].
Qed.

Lemma map_opt_none_in {A B : Type} (f : A -> option B) l x : In x l -> f x = None -> map_opt f l = None.
Proof.
  induction l as [|y l IH]; intros Hin Hx; [contradiction|]. cbn [map_opt].
  destruct Hin as [->|Hin].
  - now rewrite Hx.
  - destruct (f y); [|reflexivity]. now rewrite (IH Hin Hx).
Qed.

(* any 8-byte element that is p or more makes the whole array invalid (no reduction) *)
Lemma digest_bytes_noncanon n pre c post :
  length pre = (8 * n)%nat -> length c = 8%nat -> byte_list c -> P <= from_le_bytes c ->
  digest_try_from_slice (pre ++ c ++ post) = None.
Proof.
  intros Hpre Hc Hcb Hp. unfold digest_try_from_slice.
  destruct (Nat.eqb _ 40); [|reflexivity]. unfold digest_try_from_array.
  apply map_opt_none_in with (x := c); [|apply bfe_bytes_noncanon; assumption].
  clear Hcb Hp. revert pre Hpre.
  induction n as [|n IH]; intros pre Hpre.
  - destruct pre; [|cbn [length] in Hpre; lia]. cbn [app].
    do 8 (destruct c as [|? c]; [cbn [length] in Hc; lia|]). destruct c; [|cbn [length] in Hc; lia].
    cbn [app]. rewrite chunks8_cons8. left. reflexivity.
  - do 8 (destruct pre as [|? pre]; [cbn [length] in Hpre; lia|]).
    cbn [app]. rewrite chunks8_cons8. right. apply IH. cbn [length] in Hpre. lia.
Qed.

(* ================================================================= hex *)
Lemma hex_val_digit up n : 0 <= n < 16 -> hex_val (hex_digit up n) = Some n.
Proof.
  intros H.
  assert (E : n = 0 \/ n = 1 \/ n = 2 \/ n = 3 \/ n = 4 \/ n = 5 \/ n = 6 \/ n = 7 \/ n = 8 \/ n = 9 \/
              n = 10 \/ n = 11 \/ n = 12 \/ n = 13 \/ n = 14 \/ n = 15) by lia.
  destruct up; repeat (destruct E as [->|E]; [reflexivity|]); subst; reflexivity.
Qed.

Lemma hex_digit_lower n : 0 <= n < 16 -> lower_hex_char (hex_digit false n).
Proof.
  intros H. unfold hex_digit, lower_hex_char. destruct (n <? 10) eqn:E.
  - apply Z.ltb_lt in E. lia.
  - apply Z.ltb_ge in E. lia.
Qed.

Lemma hex_val_some c x : hex_val c = Some x ->
  0 <= x < 16 /\ hex_char c /\ (lower_hex_char c -> hex_digit false x = c).
Proof.
  unfold hex_val, hex_char, lower_hex_char, hex_digit.
  destruct ((65 <=? c) && (c <=? 70)) eqn:E1.
  { apply andb_true_iff in E1. destruct E1 as [A B]. apply Z.leb_le in A, B.
    intros H. injection H as <-. repeat split; try lia. all: intros L; lia. }
  destruct ((97 <=? c) && (c <=? 102)) eqn:E2.
  { apply andb_true_iff in E2. destruct E2 as [A B]. apply Z.leb_le in A, B.
    intros H. injection H as <-. repeat split; try lia. all: intros _.
    all: destruct (c - 97 + 10 <? 10) eqn:E; [apply Z.ltb_lt in E; lia|]. all: lia. }
  destruct ((48 <=? c) && (c <=? 57)) eqn:E3; [|discriminate].
  apply andb_true_iff in E3. destruct E3 as [A B]. apply Z.leb_le in A, B.
  intros H. injection H as <-. repeat split; try lia. all: intros _.
  all: destruct (c - 48 <? 10) eqn:E; [|apply Z.ltb_ge in E; lia]. all: lia.
Qed.

Lemma hex_val_none c : ~ hex_char c -> hex_val c = None.
Proof.
  intros H. destruct (hex_val c) as [x|] eqn:E; [|reflexivity].
  apply hex_val_some in E. tauto.
Qed.

Lemma hex_decode_cons2 a b r :
  hex_decode (a :: b :: r) =
  match hex_val a, hex_val b, hex_decode r with
  | Some x, Some y, Some l => Some (16 * x + y :: l)
  | _, _, _ => None
  end.
Proof. reflexivity. Qed.

Lemma hex_encode_cons up b l :
  hex_encode up (b :: l) = hex_digit up (b / 16) :: hex_digit up (b mod 16) :: hex_encode up l.
Proof. reflexivity. Qed.

Lemma hex_decode_encode up l : byte_list l -> hex_decode (hex_encode up l) = Some l.
Proof.
  induction 1 as [|b l Hb Hl IH]; [reflexivity|].
  rewrite hex_encode_cons, hex_decode_cons2, IH.
  rewrite !hex_val_digit by lia. do 2 f_equal. lia.
Qed.

Lemma hex_encode_length up l : length (hex_encode up l) = (2 * length l)%nat.
Proof. induction l as [|b l IH]; [reflexivity|]. rewrite hex_encode_cons. cbn [length]. rewrite IH. lia. Qed.

Lemma hex_encode_lower l : byte_list l -> Forall lower_hex_char (hex_encode false l).
Proof.
  induction 1 as [|b l Hb Hl IH]; [constructor|]. rewrite hex_encode_cons.
  constructor; [apply hex_digit_lower; lia|]. constructor; [apply hex_digit_lower; lia|exact IH].
Qed.

Lemma list_ind2 {A : Type} (Q : list A -> Prop) :
  Q [] -> (forall a, Q [a]) -> (forall a b r, Q r -> Q (a :: b :: r)) -> forall l, Q l.
Proof.
  intros H0 H1 H2 l. enough (Q l /\ forall a, Q (a :: l)) by tauto.
  induction l as [|x l [IHa IHb]]; split; auto.
Qed.

(* what hex::decode accepts: even length, hex characters only; the bytes are determined, and a
   lowercase input is exactly the encoding of the result *)
Lemma hex_decode_some s : forall l, hex_decode s = Some l ->
  length s = (2 * length l)%nat /\ Forall hex_char s /\ byte_list l /\
  (Forall lower_hex_char s -> hex_encode false l = s).
Proof.
  induction s as [| a | a b r IH] using list_ind2; intros l H.
  - injection H as <-. repeat split; constructor.
  - discriminate.
  - rewrite hex_decode_cons2 in H.
    destruct (hex_val a) as [x|] eqn:Ha; [|discriminate].
    destruct (hex_val b) as [y|] eqn:Hb; [|discriminate].
    destruct (hex_decode r) as [l'|] eqn:Hr; [|discriminate].
    assert (El : l = 16 * x + y :: l') by congruence. subst l. clear H.
    destruct (hex_val_some _ _ Ha) as (Hx & Hca & Hla).
    destruct (hex_val_some _ _ Hb) as (Hy & Hcb & Hlb).
    destruct (IH l' eq_refl) as (Hlen & Hch & Hby & Hlow).
    split; [cbn [length]; lia|]. split; [constructor; [exact Hca|constructor; [exact Hcb|exact Hch]]|].
    split; [apply Forall_cons; [cbv beta; lia|exact Hby]|].
    intros HL. inversion HL as [|? ? La HL']; subst. inversion HL' as [|? ? Lb HL'']; subst.
    rewrite hex_encode_cons.
    replace ((16 * x + y) / 16) with x by lia. replace ((16 * x + y) mod 16) with y by lia.
    rewrite (Hla La), (Hlb Lb), (Hlow HL''). reflexivity.
Qed.

Lemma hex_decode_odd s : Nat.odd (length s) = true -> hex_decode s = None.
Proof.
  induction s as [| a | a b r IH] using list_ind2; intros H.
  - discriminate.
  - reflexivity.
  - rewrite hex_decode_cons2. cbn [length] in H. rewrite Nat.odd_succ_succ in H.
    rewrite (IH H). destruct (hex_val a); [destruct (hex_val b)|]; reflexivity.
Qed.

Lemma hex_decode_invalid s c : In c s -> ~ hex_char c -> hex_decode s = None.
Proof.
  intros Hin Hc. destruct (hex_decode s) as [l|] eqn:E; [|reflexivity].
  apply hex_decode_some in E. destruct E as (_ & Hf & _).
  rewrite Forall_forall in Hf. elim Hc. apply Hf. exact Hin.
Qed.

Lemma digest_hex_roundtrip up d : wf_digest d -> digest_try_from_hex (hex_encode up (digest_to_bytes d)) = Some d.
Proof.
  intros Hd. unfold digest_try_from_hex.
  rewrite hex_decode_encode by apply digest_to_bytes_bytes. apply digest_bytes_roundtrip. exact Hd.
Qed.

Lemma digest_hex_accept s d : digest_try_from_hex s = Some d ->
  length s = 80%nat /\ Forall hex_char s /\ wf_digest d /\
  (Forall lower_hex_char s -> digest_to_hex d = s).
Proof.
  unfold digest_try_from_hex. destruct (hex_decode s) as [bytes|] eqn:E; [|discriminate].
  intros H. destruct (hex_decode_some _ _ E) as (Hlen & Hch & Hby & Hlow).
  destruct (digest_bytes_accept _ _ Hby H) as (H40 & Hw & Henc).
  split; [lia|]. split; [exact Hch|]. split; [exact Hw|].
  intros HL. unfold digest_to_hex. rewrite Henc. apply Hlow. exact HL.
Qed.

Lemma digest_hex_wrong_length s : length s <> 80%nat -> digest_try_from_hex s = None.
Proof.
  intros H. destruct (digest_try_from_hex s) as [d|] eqn:E; [|reflexivity].
  apply digest_hex_accept in E. tauto.
Qed.

Lemma digest_hex_invalid s c : In c s -> ~ hex_char c -> digest_try_from_hex s = None.
Proof.
  intros Hin Hc. unfold digest_try_from_hex. now rewrite (hex_decode_invalid s c Hin Hc).
Qed.

(* an element >= p inside otherwise fine hex is rejected, in either case *)
Lemma digest_hex_noncanon up n pre c post :
  length pre = (8 * n)%nat -> length c = 8%nat -> byte_list pre -> byte_list c -> byte_list post ->
  P <= from_le_bytes c -> digest_try_from_hex (hex_encode up (pre ++ c ++ post)) = None.
Proof.
  intros Hpre Hc Bp Bc Bq Hp. unfold digest_try_from_hex.
  rewrite hex_decode_encode by (apply Forall_app; split; [exact Bp|apply Forall_app; split; assumption]).
  apply digest_bytes_noncanon with (n := n); assumption.
Qed.

(* ================================================================= decimal strings *)
Lemma is_digit_iff c : is_digit c = true <-> digit_char c.
Proof. unfold is_digit, digit_char. rewrite andb_true_iff, !Z.leb_le. tauto. Qed.

Lemma is_digit_false c : is_digit c = false -> ~ digit_char c.
Proof. intros H D. apply is_digit_iff in D. congruence. Qed.

Lemma parse_digits_cons acc c r :
  parse_digits acc (c :: r) =
  if is_digit c then
    (if acc * 10 + (c - 48) <? 2 ^ 64 then parse_digits (acc * 10 + (c - 48)) r else None)
  else None.
Proof. reflexivity. Qed.

Lemma parse_digits_app s1 : forall acc s2,
  parse_digits acc (s1 ++ s2) = match parse_digits acc s1 with Some a => parse_digits a s2 | None => None end.
Proof.
  induction s1 as [|c s1 IH]; intros acc s2; [reflexivity|].
  cbn [app]. rewrite !parse_digits_cons.
  destruct (is_digit c); [|reflexivity].
  destruct (acc * 10 + (c - 48) <? 2 ^ 64); [apply IH|reflexivity].
Qed.

Lemma dec_fold_cons c s acc : dec_fold (c :: s) acc = dec_fold s (acc * 10 + (c - 48)).
Proof. reflexivity. Qed.

Lemma dec_fold_mono s : Forall digit_char s -> forall acc, 0 <= acc -> acc <= dec_fold s acc.
Proof.
  induction 1 as [|c s Hc Hs IH]; intros acc Ha; [cbn; lia|].
  rewrite dec_fold_cons. unfold digit_char in Hc.
  specialize (IH (acc * 10 + (c - 48))). lia.
Qed.

(* the digit loop accepts exactly the digit strings whose value fits in a u64 *)
Lemma parse_digits_iff s : forall acc v, 0 <= acc < 2 ^ 64 ->
  (parse_digits acc s = Some v <-> Forall digit_char s /\ dec_fold s acc = v /\ v < 2 ^ 64).
Proof.
  induction s as [|c s IH]; intros acc v Ha.
  - cbn [parse_digits]. unfold dec_fold. cbn [fold_left]. split.
    + intros H. injection H as <-. split; [constructor|]. lia.
    + intros (_ & <- & _). reflexivity.
  - rewrite parse_digits_cons, dec_fold_cons.
    destruct (is_digit c) eqn:Hd.
    + apply is_digit_iff in Hd. pose proof Hd as Hd'. unfold digit_char in Hd'.
      destruct (acc * 10 + (c - 48) <? 2 ^ 64) eqn:Hlt.
      * apply Z.ltb_lt in Hlt. rewrite IH by lia. split.
        -- intros (Hf & He & Hv). split; [constructor; assumption|]. split; assumption.
        -- intros (Hf & He & Hv). inversion Hf; subst. split; [assumption|]. split; [reflexivity|assumption].
      * apply Z.ltb_ge in Hlt. split; [discriminate|].
        intros (Hf & He & Hv). inversion Hf as [|? ? _ Hf']; subst.
        pose proof (dec_fold_mono s Hf' (acc * 10 + (c - 48))). lia.
    + apply is_digit_false in Hd. split; [discriminate|].
      intros (Hf & _). inversion Hf; subst. contradiction.
Qed.

(* u64::from_str: [+] digit+ with value below 2^64, nothing else *)
Lemma u64_from_str_iff s v :
  u64_from_str s = Some v <->
  exists ds, (s = ds \/ s = 43 :: ds) /\ ds <> [] /\ Forall digit_char ds /\ dec_fold ds 0 = v /\ v < 2 ^ 64.
Proof.
  assert (H0 : 0 <= 0 < 2 ^ 64) by (rewrite pow2_64; lia).
  unfold u64_from_str. split.
  - destruct s as [|c r]; [discriminate|].
    destruct (c =? 43) eqn:E.
    + apply Z.eqb_eq in E. subst c. destruct r as [|c' r']; [discriminate|].
      intros H. apply parse_digits_iff in H; [|exact H0].
      exists (c' :: r'). split; [right; reflexivity|]. split; [discriminate|exact H].
    + intros H. apply parse_digits_iff in H; [|exact H0].
      exists (c :: r). split; [left; reflexivity|]. split; [discriminate|exact H].
  - intros (ds & Hs & Hne & Hf & He & Hv).
    destruct Hs as [->| ->].
    + destruct ds as [|c r]; [contradiction|].
      inversion Hf as [|? ? Hc _]; subst. unfold digit_char in Hc.
      destruct (c =? 43) eqn:E; [apply Z.eqb_eq in E; lia|].
      apply parse_digits_iff; [exact H0|]. split; [exact Hf|]. split; [reflexivity|exact Hv].
    + change (43 =? 43) with true. cbv iota.
      destruct ds as [|c r]; [contradiction|].
      apply parse_digits_iff; [exact H0|]. split; [exact Hf|]. split; [exact He|exact Hv].
Qed.

Lemma u64_from_str_range s v : u64_from_str s = Some v -> u64_val v.
Proof.
  intros H. apply u64_from_str_iff in H. destruct H as (ds & _ & _ & Hf & He & Hv).
  split; [|exact Hv]. subst v. apply (dec_fold_mono ds Hf 0). lia.
Qed.

Lemma u64_from_str_empty : u64_from_str [] = None.
Proof. reflexivity. Qed.

Lemma u64_from_str_digits s : s <> [] -> Forall digit_char s -> u64_from_str s = parse_digits 0 s.
Proof.
  intros Hne Hf. destruct s as [|c r]; [contradiction|]. unfold u64_from_str.
  inversion Hf as [|? ? Hc _]; subst. unfold digit_char in Hc.
  destruct (c =? 43) eqn:E; [apply Z.eqb_eq in E; lia|reflexivity].
Qed.

(* a character that is not a digit (other than one leading '+') makes the string invalid *)
Lemma u64_from_str_invalid_digit s c : In c s -> ~ digit_char c -> c <> 43 -> u64_from_str s = None.
Proof.
  intros Hin Hc H43. destruct (u64_from_str s) as [v|] eqn:E; [|reflexivity].
  apply u64_from_str_iff in E. destruct E as (ds & Hs & _ & Hf & _).
  rewrite Forall_forall in Hf. destruct Hs as [->| ->].
  - elim Hc. apply Hf. exact Hin.
  - destruct Hin as [<-|Hin]; [contradiction|]. elim Hc. apply Hf. exact Hin.
Qed.

(* printing *)
Lemma is_digit_dec x : 0 <= x < 10 -> is_digit (48 + x) = true.
Proof. intros H. apply is_digit_iff. unfold digit_char. lia. Qed.

Lemma dec_digits_rev_digits fuel : forall v, 0 <= v -> Forall digit_char (dec_digits_rev fuel v).
Proof.
  induction fuel as [|k IH]; intros v Hv; cbn [dec_digits_rev]; [constructor|].
  constructor; [unfold digit_char; lia|].
  destruct (v <? 10); [constructor|]. apply IH. lia.
Qed.

Lemma dec_digits_rev_nonempty k v : dec_digits_rev (S k) v <> [].
Proof. cbn [dec_digits_rev]. discriminate. Qed.

Lemma dec_parse fuel : forall v, 0 <= v < 10 ^ Z.of_nat fuel -> v < 2 ^ 64 ->
  parse_digits 0 (rev (dec_digits_rev fuel v)) = Some v.
Proof.
  induction fuel as [|k IH]; intros v Hv H64.
  - change (10 ^ Z.of_nat 0) with 1 in Hv. assert (v = 0) by lia. subst v. reflexivity.
  - cbn [dec_digits_rev]. rewrite Nat2Z.inj_succ, Z.pow_succ_r in Hv by lia.
    destruct (v <? 10) eqn:E.
    + apply Z.ltb_lt in E. cbn [rev app]. rewrite parse_digits_cons.
      rewrite is_digit_dec by lia.
      replace (0 * 10 + (48 + v mod 10 - 48)) with v by lia.
      destruct (v <? 2 ^ 64) eqn:F; [reflexivity|apply Z.ltb_ge in F; lia].
    + apply Z.ltb_ge in E. cbn [rev]. rewrite parse_digits_app.
      rewrite IH by (set (Y := 10 ^ Z.of_nat k) in *; clearbody Y; lia).
      rewrite parse_digits_cons. rewrite is_digit_dec by lia.
      replace (v / 10 * 10 + (48 + v mod 10 - 48)) with v by lia.
      destruct (v <? 2 ^ 64) eqn:F; [reflexivity|apply Z.ltb_ge in F; lia].
Qed.

Lemma u64_to_string_digits v : 0 <= v -> Forall digit_char (u64_to_string v).
Proof. intros H. unfold u64_to_string. apply Forall_rev. apply dec_digits_rev_digits. exact H. Qed.

Lemma u64_to_string_nonempty v : u64_to_string v <> [].
Proof.
  unfold u64_to_string. intros H. apply (f_equal (@rev Z)) in H. rewrite rev_involutive in H.
  revert H. apply dec_digits_rev_nonempty.
Qed.

Lemma u64_parse_to_string v : u64_val v -> parse_digits 0 (u64_to_string v) = Some v.
Proof.
  intros [H0 H1]. unfold u64_to_string. apply dec_parse; [|exact H1].
  rewrite pow2_64 in H1. change (10 ^ Z.of_nat 20) with 100000000000000000000. lia.
Qed.

(* u64: from_str (to_string v) = v *)
Lemma u64_string_roundtrip v : u64_val v -> u64_from_str (u64_to_string v) = Some v.
Proof.
  intros Hv. rewrite u64_from_str_digits.
  - apply u64_parse_to_string. exact Hv.
  - apply u64_to_string_nonempty.
  - apply u64_to_string_digits. apply Hv.
Qed.

Lemma parse_zeros n s : parse_digits 0 (repeat 48 n ++ s) = parse_digits 0 s.
Proof.
  induction n as [|n IH]; [reflexivity|]. cbn [repeat app]. rewrite parse_digits_cons.
  change (is_digit 48) with true. change (0 * 10 + (48 - 48)) with 0. change (0 <? 2 ^ 64) with true.
  exact IH.
Qed.

Lemma zero_pad20_digits s : Forall digit_char s -> Forall digit_char (zero_pad20 s).
Proof.
  intros H. unfold zero_pad20. apply Forall_app. split; [|exact H].
  apply Forall_forall. intros x Hx. apply repeat_spec in Hx. subst x. unfold digit_char. lia.
Qed.

Lemma u64_from_str_zero_pad v : u64_val v -> u64_from_str (zero_pad20 (u64_to_string v)) = Some v.
Proof.
  intros Hv. rewrite u64_from_str_digits.
  - unfold zero_pad20. rewrite parse_zeros. apply u64_parse_to_string. exact Hv.
  - unfold zero_pad20. intros H. apply app_eq_nil in H. destruct H as [_ H]. revert H. apply u64_to_string_nonempty.
  - apply zero_pad20_digits. apply u64_to_string_digits. apply Hv.
Qed.

Lemma canon_u64_val v : canon_val v -> u64_val v.
Proof. unfold canon_val, u64_val. rewrite P_val, pow2_64. lia. Qed.

(* BFieldElement: canonical decimal string round trip, and strictness of from_str *)
Lemma bfe_dec_roundtrip v : canon_val v -> bfe_from_str (u64_to_string v) = Some v.
Proof.
  intros Hv. unfold bfe_from_str. rewrite u64_string_roundtrip by (apply canon_u64_val; exact Hv).
  apply bfe_try_new_canon. exact Hv.
Qed.

Lemma bfe_from_str_iff s v :
  bfe_from_str s = Some v <-> u64_from_str s = Some v /\ v < P.
Proof.
  unfold bfe_from_str. destruct (u64_from_str s) as [w|] eqn:E.
  - pose proof (u64_from_str_range _ _ E) as [Hw0 Hw1]. split.
    + intros H. apply bfe_try_new_some in H; [|exact Hw0]. destruct H as [-> [_ Hc]]. split; [reflexivity|exact Hc].
    + intros [H Hp]. injection H as ->. apply bfe_try_new_canon. split; assumption.
  - split; [discriminate|]. intros [H _]. discriminate.
Qed.

Lemma bfe_from_str_canon s v : bfe_from_str s = Some v -> canon_val v.
Proof.
  intros H. apply bfe_from_str_iff in H. destruct H as [H Hp].
  apply u64_from_str_range in H. split; [apply H|exact Hp].
Qed.

(* BFieldElement's Display parses back exactly below p - 256 ... *)
Lemma bfe_display_roundtrip v : 0 <= v < P - 256 -> bfe_from_str (bfe_display v) = Some v.
Proof.
  intros Hv. assert (Hc : canon_val v) by (unfold canon_val; lia).
  unfold bfe_display. cbv zeta.
  destruct (P - 256 <=? v) eqn:E1; [apply Z.leb_le in E1; lia|].
  destruct (v <=? 256) eqn:E2.
  - apply bfe_dec_roundtrip. exact Hc.
  - unfold bfe_from_str. rewrite u64_from_str_zero_pad by (apply canon_u64_val; exact Hc).
    apply bfe_try_new_canon. exact Hc.
Qed.

(* ... and is rejected for each of the last 256 values (the "-k" form) *)
Lemma bfe_display_negative v : P - 256 <= v -> bfe_from_str (bfe_display v) = None.
Proof.
  intros Hv. unfold bfe_display. cbv zeta.
  destruct (P - 256 <=? v) eqn:E1; [|apply Z.leb_gt in E1; lia].
  unfold bfe_from_str, u64_from_str. change (45 =? 43) with false. cbv iota.
  rewrite parse_digits_cons. change (is_digit 45) with false. reflexivity.
Qed.

Lemma bfe_display_no_comma v : 0 <= v < P - 256 -> no_comma (bfe_display v).
Proof.
  intros Hv. unfold bfe_display. cbv zeta.
  destruct (P - 256 <=? v) eqn:E1; [apply Z.leb_le in E1; lia|].
  assert (D : forall s, Forall digit_char s -> no_comma s).
  { intros s Hs. unfold no_comma. eapply Forall_impl; [|exact Hs]. unfold digit_char. intros a Ha. lia. }
  destruct (v <=? 256); apply D.
  - apply u64_to_string_digits. lia.
  - apply zero_pad20_digits. apply u64_to_string_digits. lia.
Qed.

Lemma digits_no_comma s : Forall digit_char s -> no_comma s.
Proof. intros Hs. unfold no_comma. eapply Forall_impl; [|exact Hs]. unfold digit_char. intros a Ha. lia. Qed.

(* ================================================================= split / join, Digest Display and FromStr *)
Lemma split_on_no_comma s : no_comma s -> split_on 44 s = [s].
Proof.
  induction 1 as [|x s Hx Hs IH]; [reflexivity|]. cbn [split_on].
  destruct (x =? 44) eqn:E; [apply Z.eqb_eq in E; contradiction|]. now rewrite IH.
Qed.

Lemma split_on_app s r : no_comma s -> split_on 44 (s ++ 44 :: r) = s :: split_on 44 r.
Proof.
  induction 1 as [|x s Hx Hs IH].
  - cbn [app split_on]. change (44 =? 44) with true. reflexivity.
  - cbn [app split_on]. destruct (x =? 44) eqn:E; [apply Z.eqb_eq in E; contradiction|]. now rewrite IH.
Qed.

Lemma join_comma_cons2 x y r : join_comma (x :: y :: r) = x ++ 44 :: join_comma (y :: r).
Proof. reflexivity. Qed.

Lemma split_join l : l <> [] -> Forall no_comma l -> split_on 44 (join_comma l) = l.
Proof.
  induction l as [|x l IH]; intros Hne Hf; [contradiction|].
  inversion Hf as [|? ? Hx Hl]; subst.
  destruct l as [|y l].
  - cbn [join_comma]. apply split_on_no_comma. exact Hx.
  - rewrite join_comma_cons2, split_on_app by exact Hx. rewrite IH; [reflexivity|discriminate|exact Hl].
Qed.

Lemma split_on_nonempty c s : split_on c s <> [].
Proof.
  induction s as [|x s IH]; cbn [split_on]; [discriminate|].
  destruct (x =? c); [discriminate|]. destruct (split_on c s); discriminate.
Qed.

Section Printer.
  (* any element printer whose output has no comma and parses back to the element *)
  Variable pr : Z -> list Z.
  Variable Q : Z -> Prop.
  Hypothesis pr_ok : forall v, Q v -> no_comma (pr v) /\ bfe_from_str (pr v) = Some v.

  Lemma digest_string_roundtrip_with d :
    length d = 5%nat -> Forall Q d -> digest_from_str (digest_to_string_with pr d) = Some d.
  Proof.
    intros Hl Hd. unfold digest_from_str, digest_to_string_with.
    rewrite split_join.
    - rewrite map_opt_map_some.
      + rewrite Hl. reflexivity.
      + intros v Hv. rewrite Forall_forall in Hd. apply pr_ok. apply Hd. exact Hv.
    - destruct d; [discriminate|]. discriminate.
    - apply Forall_forall. intros s Hs. apply in_map_iff in Hs. destruct Hs as (v & <- & Hv).
      rewrite Forall_forall in Hd. apply pr_ok. apply Hd. exact Hv.
  Qed.
End Printer.

(* the repaired behaviours *)
Lemma digest_string_roundtrip_canonical d : wf_digest d ->
  digest_from_str (digest_to_string_with digest_elem_canonical d) = Some d.
Proof.
  intros [Hl Hd]. apply digest_string_roundtrip_with with (Q := canon_val); [|exact Hl|exact Hd].
  intros v Hv. unfold digest_elem_canonical. split.
  - apply digits_no_comma. apply u64_to_string_digits. apply Hv.
  - apply bfe_dec_roundtrip. exact Hv.
Qed.

Lemma digest_string_roundtrip_nonneg d : wf_digest d ->
  digest_from_str (digest_to_string_with digest_elem_nonneg d) = Some d.
Proof.
  intros [Hl Hd]. apply digest_string_roundtrip_with with (Q := canon_val); [|exact Hl|exact Hd].
  intros v Hv. unfold digest_elem_nonneg. destruct (P - 256 <=? v) eqn:E.
  - split; [apply digits_no_comma; apply u64_to_string_digits; apply Hv|apply bfe_dec_roundtrip; exact Hv].
  - apply Z.leb_gt in E. destruct Hv as [H0 _].
    split; [apply bfe_display_no_comma; lia|apply bfe_display_roundtrip; lia].
Qed.

(* BFieldElement's Display as the element printer: fine on elements below p - 256 ... *)
Lemma digest_string_roundtrip_display_below d :
  length d = 5%nat -> Forall (fun v => 0 <= v < P - 256) d ->
  digest_from_str (digest_to_string_with bfe_display d) = Some d.
Proof.
  intros Hl Hd. apply digest_string_roundtrip_with with (Q := fun v => 0 <= v < P - 256); [|exact Hl|exact Hd].
  intros v Hv. split; [apply bfe_display_no_comma; exact Hv|apply bfe_display_roundtrip; exact Hv].
Qed.

(* ... and refuted otherwise: concrete witness p-1 in position 0 (prints "-1,0,0,0,0") *)
Lemma digest_string_display_refuted :
  exists d, wf_digest d /\ digest_from_str (digest_to_string_with bfe_display d) = None.
Proof.
  exists [P - 1; 0; 0; 0; 0]. split.
  - split; [reflexivity|]. unfold canon_val. rewrite P_val. repeat constructor; lia.
  - vm_compute. reflexivity.
Qed.

(* whichever printer the model currently uses for Digest's Display: if it is the canonical one,
   the round trip holds (used after the repair of Digest::fmt) *)
Lemma digest_string_roundtrip_if_canonical :
  (forall v, digest_elem_to_string v = digest_elem_canonical v) ->
  forall d, wf_digest d -> digest_from_str (digest_to_string d) = Some d.
Proof.
  intros E d Hd. unfold digest_to_string, digest_to_string_with.
  rewrite (map_ext _ _ E). apply digest_string_roundtrip_canonical. exact Hd.
Qed.

Lemma digest_string_roundtrip_if_nonneg :
  (forall v, digest_elem_to_string v = digest_elem_nonneg v) ->
  forall d, wf_digest d -> digest_from_str (digest_to_string d) = Some d.
Proof.
  intros E d Hd. unfold digest_to_string, digest_to_string_with.
  rewrite (map_ext _ _ E). apply digest_string_roundtrip_nonneg. exact Hd.
Qed.

(* Digest's Display through BFieldElement's Display (the pinned tree): stated about the explicit printer, so
   that this file compiles whichever printer `digest_elem_to_string` currently denotes *)
Lemma digest_display_roundtrip_refuted :
  exists d, wf_digest d /\ digest_from_str (digest_to_string_with bfe_display d) <> Some d.
Proof.
  destruct digest_string_display_refuted as (d & Hw & Hn). exists d. split; [exact Hw|].
  rewrite Hn. discriminate.
Qed.

(* strictness of FromStr for Digest *)
Lemma digest_from_str_iff s d :
  digest_from_str s = Some d <->
  length (split_on 44 s) = 5%nat /\
  Forall2 (fun f v => u64_from_str f = Some v /\ v < P) (split_on 44 s) d.
Proof.
  unfold digest_from_str. split.
  - destruct (map_opt bfe_from_str (split_on 44 s)) as [bfes|] eqn:E; [|discriminate].
    apply map_opt_some_forall2 in E.
    destruct (Nat.eqb (length bfes) digest_len) eqn:L; [|discriminate]. apply Nat.eqb_eq in L.
    intros H. injection H as <-. split.
    + rewrite (Forall2_length _ _ _ E). exact L.
    + eapply Forall2_imp; [|exact E]. intros f v Hfv. apply bfe_from_str_iff. exact Hfv.
  - intros [L F].
    assert (E : map_opt bfe_from_str (split_on 44 s) = Some d).
    { apply map_opt_some_forall2. eapply Forall2_imp; [|exact F]. intros f v Hfv. apply bfe_from_str_iff. exact Hfv. }
    rewrite E. rewrite <- (Forall2_length _ _ _ F), L. reflexivity.
Qed.

Lemma digest_from_str_wf s d : digest_from_str s = Some d -> wf_digest d.
Proof.
  intros H. apply digest_from_str_iff in H. destruct H as [L F]. split.
  - rewrite <- (Forall2_length _ _ _ F). exact L.
  - clear L. induction F as [|f v fs vs [Hf Hp] _ IH]; constructor; [|exact IH].
    apply u64_from_str_range in Hf. split; [apply Hf|exact Hp].
Qed.

Lemma digest_from_str_wrong_count s : length (split_on 44 s) <> 5%nat -> digest_from_str s = None.
Proof.
  intros H. destruct (digest_from_str s) as [d|] eqn:E; [|reflexivity].
  apply digest_from_str_iff in E. tauto.
Qed.

Lemma digest_from_str_bad_field s f :
  In f (split_on 44 s) -> (forall v, u64_from_str f = Some v -> P <= v) -> digest_from_str s = None.
Proof.
  intros Hin Hbad. destruct (digest_from_str s) as [d|] eqn:E; [|reflexivity].
  apply digest_from_str_iff in E. destruct E as [_ F]. exfalso.
  induction F as [|f' v fs vs [Hf Hp] _ IH]; [contradiction|].
  destruct Hin as [->|Hin]; [|exact (IH Hin)].
  specialize (Hbad v Hf). lia.
Qed.

(* ================================================================= BigUint *)
Lemma digest_to_big_value d : digest_to_big d = big_value d.
Proof.
  unfold digest_to_big. induction d as [|x d IH]; [reflexivity|].
  cbn [rev big_value]. rewrite fold_left_app, IH. cbn [fold_left]. lia.
Qed.

Lemma big_value_bound d : Forall canon_val d -> 0 <= big_value d < P ^ Z.of_nat (length d).
Proof.
  induction 1 as [|x d Hx Hd IH]; cbn [big_value length].
  - change (P ^ Z.of_nat 0) with 1. lia.
  - rewrite Nat2Z.inj_succ, Z.pow_succ_r by lia. unfold canon_val in Hx.
    set (Y := P ^ Z.of_nat (length d)) in *. clearbody Y. set (B := big_value d) in *. clearbody B.
    rewrite P_val in *. lia.
Qed.

Lemma big_value_inj d1 : forall d2, length d1 = length d2 -> Forall canon_val d1 -> Forall canon_val d2 ->
  big_value d1 = big_value d2 -> d1 = d2.
Proof.
  induction d1 as [|x d1 IH]; intros d2 Hl H1 H2 He; destruct d2 as [|y d2]; try discriminate; [reflexivity|].
  inversion H1 as [|? ? Hx H1']; subst. inversion H2 as [|? ? Hy H2']; subst.
  cbn [big_value] in He. unfold canon_val in Hx, Hy.
  set (A := big_value d1) in *. set (B := big_value d2) in *.
  assert (x = y /\ A = B) as [-> HAB] by (clearbody A B; rewrite P_val in *; lia).
  f_equal. apply IH; [cbn [length] in Hl; lia|assumption|assumption|exact HAB].
Qed.

Lemma big_to_elems_spec n : forall v, 0 <= v ->
  length (fst (big_to_elems n v)) = n /\ Forall canon_val (fst (big_to_elems n v)) /\
  0 <= snd (big_to_elems n v) /\
  v = big_value (fst (big_to_elems n v)) + P ^ Z.of_nat n * snd (big_to_elems n v).
Proof.
  induction n as [|n IH]; intros v Hv.
  - cbn [big_to_elems fst snd length big_value]. change (P ^ Z.of_nat 0) with 1.
    repeat split; [constructor|lia|lia].
  - cbn [big_to_elems]. assert (Hq : 0 <= v / P) by (apply Z.div_pos; [exact Hv|rewrite P_val; lia]).
    destruct (IH (v / P) Hq) as (Hl & Hc & Hr & He).
    destruct (big_to_elems n (v / P)) as [l r]. cbn [fst snd] in *.
    split; [cbn [length]; now rewrite Hl|].
    assert (Hm : 0 <= v mod P < P) by (apply Z.mod_pos_bound; rewrite P_val; lia).
    assert (Hnew : bfe_new_val (v mod P) = v mod P) by (unfold bfe_new_val; apply Z.mod_small; exact Hm).
    rewrite Hnew. split; [constructor; [exact Hm|exact Hc]|]. split; [exact Hr|].
    cbn [big_value]. rewrite Nat2Z.inj_succ, Z.pow_succ_r by lia.
    rewrite <- Z.mul_assoc.
    set (X := P ^ Z.of_nat n * r) in *. clearbody X. set (B := big_value l) in *. clearbody B.
    clear Hnew Hc Hl. rewrite P_val in *. lia.
Qed.

Lemma P5_pos : 0 < P ^ 5. Proof. reflexivity. Qed.

(* TryFrom<BigUint>: accepted iff below p^5, and then the result is the base-p expansion *)
Lemma digest_big_accept v d : 0 <= v -> digest_try_from_big v = Some d ->
  wf_digest d /\ big_value d = v /\ v < P ^ 5.
Proof.
  intros Hv. unfold digest_try_from_big.
  destruct (big_to_elems_spec digest_len v Hv) as (Hl & Hc & Hr & He).
  destruct (big_to_elems digest_len v) as [l r]. cbn [fst snd] in *.
  destruct (r =? 0) eqn:E; [|discriminate]. apply Z.eqb_eq in E. subst r.
  intros H. injection H as <-. split; [split; [exact Hl|exact Hc]|].
  rewrite Z.mul_0_r, Z.add_0_r in He. split; [symmetry; exact He|].
  pose proof (big_value_bound l Hc) as Hb. rewrite Hl in Hb. change (Z.of_nat digest_len) with 5 in Hb. lia.
Qed.

Lemma digest_big_overflow v : P ^ 5 <= v -> digest_try_from_big v = None.
Proof.
  intros Hv. assert (H0 : 0 <= v) by (pose proof P5_pos; lia).
  unfold digest_try_from_big.
  destruct (big_to_elems_spec digest_len v H0) as (Hl & Hc & Hr & He).
  destruct (big_to_elems digest_len v) as [l r]. cbn [fst snd] in *.
  destruct (r =? 0) eqn:E; [|reflexivity]. apply Z.eqb_eq in E. subst r. exfalso.
  rewrite Z.mul_0_r, Z.add_0_r in He.
  pose proof (big_value_bound l Hc) as Hb. rewrite Hl in Hb. change (Z.of_nat digest_len) with 5 in Hb. lia.
Qed.

Lemma digest_big_in_range v : 0 <= v < P ^ 5 -> exists d, digest_try_from_big v = Some d.
Proof.
  intros [H0 Hv]. unfold digest_try_from_big.
  destruct (big_to_elems_spec digest_len v H0) as (Hl & Hc & Hr & He).
  destruct (big_to_elems digest_len v) as [l r]. cbn [fst snd] in *.
  pose proof (big_value_bound l Hc) as Hb. rewrite Hl in Hb. change (Z.of_nat digest_len) with 5 in *.
  assert (r = 0).
  { destruct (Z.eq_dec r 0) as [|Hn]; [assumption|]. exfalso.
    assert (1 <= r) by lia. pose proof P5_pos.
    assert (P ^ 5 * 1 <= P ^ 5 * r) by (apply Z.mul_le_mono_nonneg_l; lia). lia. }
  subst r. exists l. reflexivity.
Qed.

Lemma digest_big_roundtrip d : wf_digest d -> digest_try_from_big (digest_to_big d) = Some d.
Proof.
  intros [Hl Hc]. rewrite digest_to_big_value.
  pose proof (big_value_bound d Hc) as Hb. rewrite Hl in Hb. change (Z.of_nat 5) with 5 in Hb.
  destruct (digest_big_in_range (big_value d) Hb) as [d' Hd']. rewrite Hd'. f_equal.
  destruct (digest_big_accept _ _ (proj1 Hb) Hd') as ([Hl' Hc'] & He & _).
  apply big_value_inj; [congruence|assumption|assumption|exact He].
Qed.

Lemma digest_big_range d : wf_digest d -> 0 <= digest_to_big d < P ^ 5.
Proof.
  intros [Hl Hc]. rewrite digest_to_big_value.
  pose proof (big_value_bound d Hc) as Hb. rewrite Hl in Hb. exact Hb.
Qed.

Lemma digest_big_accept_iff v d : 0 <= v ->
  (digest_try_from_big v = Some d <-> wf_digest d /\ digest_to_big d = v).
Proof.
  intros Hv. split.
  - intros H. destruct (digest_big_accept v d Hv H) as (Hw & He & _). split; [exact Hw|].
    rewrite digest_to_big_value. exact He.
  - intros [Hw <-]. apply digest_big_roundtrip. exact Hw.
Qed.

(* ================================================================= order *)
Lemma lex_cmp_app a : forall b a' b', length a = length b ->
  lex_cmp (a ++ a') (b ++ b') = match lex_cmp a b with Eq => lex_cmp a' b' | c => c end.
Proof.
  induction a as [|x a IH]; intros b a' b' Hl; destruct b as [|y b]; try discriminate; [reflexivity|].
  cbn [app lex_cmp]. destruct (x ?= y); [|reflexivity|reflexivity].
  apply IH. cbn [length] in Hl. lia.
Qed.

Lemma lex_cmp_single x y : lex_cmp [x] [y] = (x ?= y).
Proof. cbn [lex_cmp]. destruct (x ?= y); reflexivity. Qed.

(* mixed-radix lemma: comparing the reversed digit lists lexicographically is comparing the values *)
Lemma mixed_radix_cmp a : forall b, length a = length b -> Forall canon_val a -> Forall canon_val b ->
  lex_cmp (rev a) (rev b) = (big_value a ?= big_value b).
Proof.
  induction a as [|x a IH]; intros b Hl Ha Hb; destruct b as [|y b]; try discriminate; [reflexivity|].
  inversion Ha as [|? ? Hx Ha']; subst. inversion Hb as [|? ? Hy Hb']; subst.
  cbn [rev big_value]. rewrite lex_cmp_app by (rewrite !rev_length; cbn [length] in Hl; lia).
  rewrite IH by (try assumption; cbn [length] in Hl; lia).
  rewrite lex_cmp_single. unfold canon_val in Hx, Hy.
  set (A := big_value a). set (B := big_value b). clearbody A B.
  destruct (Z.compare_spec A B) as [E|L|G].
  - subst B. destruct (Z.compare_spec x y) as [E'|L'|G']; symmetry.
    + apply Z.compare_eq_iff. lia.
    + apply Z.compare_lt_iff. lia.
    + apply Z.compare_gt_iff. lia.
  - symmetry. apply Z.compare_lt_iff. rewrite P_val in *. lia.
  - symmetry. apply Z.compare_gt_iff. rewrite P_val in *. lia.
Qed.

Lemma digest_cmp_big d1 d2 : wf_digest d1 -> wf_digest d2 ->
  digest_cmp d1 d2 = (digest_to_big d1 ?= digest_to_big d2).
Proof.
  intros [L1 C1] [L2 C2]. unfold digest_cmp. rewrite !digest_to_big_value.
  apply mixed_radix_cmp; [congruence|assumption|assumption].
Qed.

Lemma digest_cmp_eq_iff d1 d2 : wf_digest d1 -> wf_digest d2 -> (digest_cmp d1 d2 = Eq <-> d1 = d2).
Proof.
  intros W1 W2. rewrite digest_cmp_big by assumption. rewrite Z.compare_eq_iff, !digest_to_big_value.
  destruct W1 as [L1 C1], W2 as [L2 C2]. split.
  - apply big_value_inj; [congruence|assumption|assumption].
  - intros ->. reflexivity.
Qed.

Lemma digest_reversed_involutive d : length d = 5%nat -> digest_reversed (digest_reversed d) = d.
Proof.
  intros H. do 5 (destruct d as [|? d]; [discriminate|]). destruct d; [reflexivity|discriminate].
Qed.

Lemma digest_reversed_rev d : length d = 5%nat -> digest_reversed d = rev d.
Proof.
  intros H. do 5 (destruct d as [|? d]; [discriminate|]). destruct d; [reflexivity|discriminate].
Qed.

(* ================================================================= Vec<BFieldElement> *)
Lemma digest_vec_roundtrip d : length d = 5%nat -> digest_try_from_vec (digest_to_vec d) = Some d.
Proof. intros H. unfold digest_try_from_vec, digest_to_vec. now rewrite H. Qed.

Lemma digest_vec_wrong_length l : length l <> 5%nat -> digest_try_from_vec l = None.
Proof.
  intros H. unfold digest_try_from_vec. destruct (Nat.eqb (length l) digest_len) eqn:E; [|reflexivity].
  apply Nat.eqb_eq in E. contradiction.
Qed.

(* ================================================================= serde *)
Lemma digest_json_roundtrip d : wf_digest d -> digest_de_json (digest_ser_json d) = Some d.
Proof. intros H. unfold digest_de_json, digest_ser_json, digest_to_hex. apply digest_hex_roundtrip. exact H. Qed.

Lemma digest_json_is_hex_string d : digest_ser_json d = JStr (digest_to_hex d).
Proof. reflexivity. Qed.

Lemma digest_json_strict j d : digest_de_json j = Some d ->
  exists s, j = JStr s /\ digest_try_from_hex s = Some d.
Proof. destruct j; try discriminate. intros H. eexists. split; [reflexivity|exact H]. Qed.

Lemma bfe_json_roundtrip v : canon_val v -> bfe_de_json (bfe_ser_json v) = Some v.
Proof.
  intros Hv. unfold bfe_de_json, bfe_ser_json, is_u64, bfe_new_val.
  pose proof (canon_u64_val v Hv) as [H0 H1]. unfold canon_val in Hv.
  destruct (0 <=? v) eqn:A; [|apply Z.leb_gt in A; lia].
  destruct (v <? 2 ^ 64) eqn:B; [|apply Z.ltb_ge in B; lia].
  cbn [andb]. now rewrite Z.mod_small.
Qed.

(* deserialising a u64 reduces it (it is not one of the strict parsers) *)
Lemma bfe_json_reduces n : u64_val n -> bfe_de_json (JNum n) = Some (n mod P).
Proof.
  intros [H0 H1]. unfold bfe_de_json, is_u64, bfe_new_val.
  destruct (0 <=? n) eqn:A; [|apply Z.leb_gt in A; lia].
  destruct (n <? 2 ^ 64) eqn:B; [|apply Z.ltb_ge in B; lia]. reflexivity.
Qed.

Lemma bfe_bincode_reduces w : u64_val w -> bfe_de_bincode (le_bytes 8 w) = Some (w mod P).
Proof.
  intros Hw. unfold bfe_de_bincode. rewrite le_bytes_length. cbn [Nat.ltb Nat.leb].
  rewrite <- (le_bytes_length 8 w) at 1. rewrite firstn_all.
  rewrite from_le_bytes_le_bytes; [reflexivity|].
  unfold u64_val in Hw. rewrite pow2_64 in Hw. change (256 ^ Z.of_nat 8) with 18446744073709551616. exact Hw.
Qed.

Lemma bfe_bincode_roundtrip v : canon_val v -> bfe_de_bincode (bfe_ser_bincode v) = Some v.
Proof.
  intros Hv. unfold bfe_ser_bincode. rewrite bfe_bincode_reduces by (apply canon_u64_val; exact Hv).
  unfold canon_val in Hv. now rewrite Z.mod_small.
Qed.

Lemma bfe_bincode_short l : (length l < 8)%nat -> bfe_de_bincode l = None.
Proof.
  intros H. unfold bfe_de_bincode. destruct (Nat.ltb (length l) 8) eqn:E; [reflexivity|].
  apply Nat.ltb_ge in E. lia.
Qed.

(* non human readable: the five u64 values, little endian = the 40-byte form; a stored u64 >= p is reduced *)
Lemma digest_bincode_is_bytes d : digest_ser_bincode d = digest_to_bytes d.
Proof. reflexivity. Qed.

Lemma digest_bincode_reduces ws : length ws = 5%nat -> Forall u64_val ws ->
  digest_de_bincode (flat_map (le_bytes 8) ws) = Some (map (fun w => w mod P) ws).
Proof.
  intros Hl Hw. unfold digest_de_bincode.
  change (flat_map (le_bytes 8) ws) with (digest_to_bytes ws).
  assert (L : length (digest_to_bytes ws) = 40%nat) by (rewrite digest_to_bytes_length, Hl; reflexivity).
  rewrite L. cbn [Nat.ltb Nat.leb]. rewrite <- L at 1. rewrite firstn_all.
  rewrite chunks8_digest_to_bytes, map_map. f_equal.
  apply map_ext_in. intros w Hin. rewrite Forall_forall in Hw. specialize (Hw w Hin).
  unfold bfe_to_bytes, bfe_new_val. rewrite from_le_bytes_le_bytes; [reflexivity|].
  unfold u64_val in Hw. rewrite pow2_64 in Hw. change (256 ^ Z.of_nat 8) with 18446744073709551616. exact Hw.
Qed.

Lemma digest_bincode_roundtrip d : wf_digest d -> digest_de_bincode (digest_ser_bincode d) = Some d.
Proof.
  intros [Hl Hc]. unfold digest_ser_bincode, bfe_ser_bincode.
  rewrite digest_bincode_reduces; [|exact Hl|eapply Forall_impl; [|exact Hc]; intros a Ha; apply canon_u64_val; exact Ha].
  f_equal. rewrite <- (map_id d) at 2. apply map_ext_in. intros v Hin.
  rewrite Forall_forall in Hc. specialize (Hc v Hin). unfold canon_val in Hc. now rewrite Z.mod_small.
Qed.

Lemma digest_bincode_short l : (length l < 40)%nat -> digest_de_bincode l = None.
Proof.
  intros H. unfold digest_de_bincode. destruct (Nat.ltb (length l) 40) eqn:E; [reflexivity|].
  apply Nat.ltb_ge in E. lia.
Qed.

(* ================================================================= XFieldElement <-> Digest *)
Lemma xfe_digest_roundtrip x : xfe_try_from_digest (digest_from_xfe x) = Some x.
Proof. destruct x as [[c0 c1] c2]. reflexivity. Qed.

(* the embedding is invertible exactly on digests whose last two elements are zero *)
Lemma xfe_digest_iff d x : length d = 5%nat -> (xfe_try_from_digest d = Some x <-> d = digest_from_xfe x).
Proof.
  intros H. do 5 (destruct d as [|? d]; [discriminate|]). destruct d; [|discriminate].
  destruct x as [[c0 c1] c2]. unfold xfe_try_from_digest, digest_from_xfe. split.
  - destruct (z2 =? 0) eqn:A; [|discriminate]. destruct (z3 =? 0) eqn:B; [|discriminate].
    apply Z.eqb_eq in A, B. cbn [negb orb]. intros E. injection E as -> -> ->. subst. reflexivity.
  - intros E. injection E as -> -> -> -> ->. reflexivity.
Qed.

Lemma xfe_digest_defined_iff d : length d = 5%nat ->
  ((exists x, xfe_try_from_digest d = Some x) <-> nth 3 d 0 = 0 /\ nth 4 d 0 = 0).
Proof.
  intros H. do 5 (destruct d as [|? d]; [discriminate|]). destruct d; [|discriminate].
  cbn [nth]. unfold xfe_try_from_digest. split.
  - intros [x Hx]. destruct (z2 =? 0) eqn:A; [|discriminate]. destruct (z3 =? 0) eqn:B; [|discriminate].
    apply Z.eqb_eq in A, B. split; assumption.
  - intros [-> ->]. eexists. reflexivity.
Qed.

(* ================================================================= small facts used by the statements *)
Lemma digest_slice_array_agree l : length l = 40%nat -> digest_try_from_slice l = digest_try_from_array l.
Proof. intros H. unfold digest_try_from_slice. now rewrite H. Qed.

Lemma bfe_slice_array_agree l : length l = 8%nat -> bfe_try_from_slice l = bfe_try_from_array l.
Proof. intros H. unfold bfe_try_from_slice. now rewrite H. Qed.

Lemma digest_to_bytes_40 d : wf_digest d -> length (digest_to_bytes d) = 40%nat /\ byte_list (digest_to_bytes d).
Proof. intros [Hl _]. split; [rewrite digest_to_bytes_length, Hl; reflexivity|apply digest_to_bytes_bytes]. Qed.

Lemma digest_to_hex_shape d : wf_digest d ->
  length (digest_to_hex d) = 80%nat /\ Forall lower_hex_char (digest_to_hex d).
Proof.
  intros Hd. destruct (digest_to_bytes_40 d Hd) as [L B]. unfold digest_to_hex. split.
  - rewrite hex_encode_length, L. reflexivity.
  - apply hex_encode_lower. exact B.
Qed.

Lemma digest_hex_roundtrip_both d : wf_digest d ->
  digest_try_from_hex (digest_to_hex d) = Some d /\ digest_try_from_hex (digest_to_hex_upper d) = Some d.
Proof. intros H. split; apply digest_hex_roundtrip; exact H. Qed.

Lemma bfe_display_parse v :
  (0 <= v < P - 256 -> bfe_from_str (bfe_display v) = Some v) /\
  (P - 256 <= v -> bfe_from_str (bfe_display v) = None).
Proof. split; [apply bfe_display_roundtrip|apply bfe_display_negative]. Qed.

(* ================================================================= examples: the hypotheses are satisfiable,
   and the boundary cases of the property evaluated in the model *)
Definition ex_d : list Z := [P - 1; 0; 4294967296; 257; P - 257].
Example ex_wf : wf_digest ex_d.
Proof. split; [reflexivity|]. unfold ex_d, canon_val. rewrite P_val. repeat (apply Forall_cons; [lia|]). constructor. Qed.
Example ex_bytes : digest_try_from_slice (digest_to_bytes ex_d) = Some ex_d. Proof. vm_compute. reflexivity. Qed.
Example ex_hex : digest_try_from_hex (digest_to_hex_upper ex_d) = Some ex_d. Proof. vm_compute. reflexivity. Qed.
Example ex_big : digest_try_from_big (digest_to_big ex_d) = Some ex_d. Proof. vm_compute. reflexivity. Qed.
Example ex_big_max : digest_try_from_big (P ^ 5 - 1) = Some [P - 1; P - 1; P - 1; P - 1; P - 1]. Proof. vm_compute. reflexivity. Qed.
Example ex_big_over : digest_try_from_big (P ^ 5) = None. Proof. vm_compute. reflexivity. Qed.
Example ex_bytes_p : (* element 2 equal to p *)
  digest_try_from_slice (digest_to_bytes [1; 2] ++ le_bytes 8 P ++ digest_to_bytes [4; 5]) = None.
Proof. vm_compute. reflexivity. Qed.
Example ex_bincode_p : (* the same 40 bytes through bincode: reduced, not rejected *)
  digest_de_bincode (digest_to_bytes [1; 2] ++ le_bytes 8 P ++ digest_to_bytes [4; 5]) = Some [1; 2; 0; 4; 5].
Proof. vm_compute. reflexivity. Qed.
Example ex_str_today : (* "-1,0,0,0,0" *)
  digest_to_string_with bfe_display [P - 1; 0; 0; 0; 0] = [45; 49; 44; 48; 44; 48; 44; 48; 44; 48].
Proof. vm_compute. reflexivity. Qed.
Example ex_str_plus_zeros : (* "+1,002,3,4,18446744069414584320" *)
  digest_from_str ([43; 49; 44; 48; 48; 50; 44; 51; 44; 52; 44] ++ u64_to_string (P - 1)) = Some [1; 2; 3; 4; P - 1].
Proof. vm_compute. reflexivity. Qed.
Example ex_str_p : digest_from_str ([49; 44; 50; 44; 51; 44; 52; 44] ++ u64_to_string P) = None.
Proof. vm_compute. reflexivity. Qed.
Example ex_str_space : digest_from_str [49; 44; 32; 50; 44; 51; 44; 52; 44; 53] = None.
Proof. vm_compute. reflexivity. Qed.
Example ex_cmp_tie : (* tie in the most significant element, decided by element 3 *)
  digest_cmp [P - 1; P - 1; P - 1; 0; 7] [0; 0; 0; 1; 7] = Lt.
Proof. vm_compute. reflexivity. Qed.
Example ex_xfe : xfe_try_from_digest [1; 2; 3; 0; 1] = None /\ xfe_try_from_digest [1; 2; 3; 0; 0] = Some (1, 2, 3).
Proof. split; reflexivity. Qed.
Example ex_below_cutoff : Forall (fun v => 0 <= v < P - 256) [P - 257; 0; 256; 257; 1].
Proof. rewrite P_val. repeat (apply Forall_cons; [cbv beta; lia|]). constructor. Qed.
