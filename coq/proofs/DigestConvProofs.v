(* proofs/DigestConvProofs.v - lemmas about the C20 model (model/DigestConv.v). *)
From Coq Require Import ZArith Bool List Lia.
From TF Require Import BFieldGen DigestConv.
Import ListNotations.
Open Scope Z_scope.
Ltac Zify.zify_post_hook ::= Z.div_mod_to_equations.

Lemma P_val : P = 18446744069414584321. Proof. reflexivity. Qed.
Lemma pow2_64 : 2 ^ 64 = 18446744073709551616. Proof. reflexivity. Qed.
Lemma pow256_8 : 256 ^ 8 = 18446744073709551616. Proof. reflexivity. Qed.

(* ================================================================= generic *)
Lemma map_opt_map_some {A B : Type} (f : A -> option B) (g : B -> A) (l : list B) :
  (forall y, In y l -> f (g y) = Some y) -> map_opt f (map g l) = Some l.
Proof.
  induction l as [|y l IH]; intros H; [reflexivity|].
  cbn [map map_opt]. rewrite (H y (or_introl eq_refl)).
  rewrite IH; [reflexivity|]. intros z Hz. apply H. right. exact Hz.
Qed.

Lemma map_opt_some_forall2 {A B : Type} (f : A -> option B) (l : list A) (r : list B) :
  map_opt f l = Some r <-> Forall2 (fun x y => f x = Some y) l r.
Proof.
  revert r. induction l as [|x l IH]; intros r; cbn [map_opt].
  - split; intros H.
    + injection H as <-. constructor.
    + inversion H. reflexivity.
  - destruct (f x) as [y|] eqn:Hx.
    + destruct (map_opt f l) as [ys|] eqn:Hl.
      * split; intros H.
        -- injection H as <-. constructor; [exact Hx|]. apply IH. reflexivity.
        -- inversion H as [|? y' ? r' Hy Hr]; subst. rewrite Hx in Hy. injection Hy as <-.
           apply IH in Hr. injection Hr as <-. reflexivity.
      * split; intros H; [discriminate|].
        inversion H as [|? y' ? r' Hy Hr]; subst. apply IH in Hr. discriminate.
    + split; intros H; [discriminate|].
      inversion H as [|? y' ? r' Hy Hr]; subst. rewrite Hx in Hy. discriminate.
Qed.

Lemma Forall2_length {A B : Type} (R : A -> B -> Prop) l r : Forall2 R l r -> length l = length r.
Proof. induction 1; cbn [length]; congruence. Qed.

(* ================================================================= little-endian bytes *)
Lemma le_bytes_length n v : length (le_bytes n v) = n.
Proof. revert v. induction n as [|n IH]; intros v; cbn [le_bytes length]; [reflexivity|]. now rewrite IH. Qed.

Lemma le_bytes_bytes n v : byte_list (le_bytes n v).
Proof.
  revert v. induction n as [|n IH]; intros v; cbn [le_bytes]; constructor.
  - apply Z.mod_pos_bound. lia.
  - apply IH.
Qed.

Lemma from_le_bytes_le_bytes n v : 0 <= v < 256 ^ Z.of_nat n -> from_le_bytes (le_bytes n v) = v.
Proof.
  revert v. induction n as [|n IH]; intros v Hv.
  - cbn [le_bytes from_le_bytes]. change (256 ^ Z.of_nat 0) with 1 in Hv. lia.
  - cbn [le_bytes from_le_bytes]. rewrite Nat2Z.inj_succ, Z.pow_succ_r in Hv by lia.
    rewrite IH; [lia|]. set (Y := 256 ^ Z.of_nat n) in *. clearbody Y. lia.
Qed.

Lemma from_le_bytes_range l : byte_list l -> 0 <= from_le_bytes l < 256 ^ Z.of_nat (length l).
Proof.
  induction 1 as [|b l Hb Hl IH]; cbn [from_le_bytes length].
  - change (256 ^ Z.of_nat 0) with 1. lia.
  - rewrite Nat2Z.inj_succ, Z.pow_succ_r by lia.
    set (Y := 256 ^ Z.of_nat (length l)) in *. clearbody Y. set (X := from_le_bytes l) in *. clearbody X. lia.
Qed.

Lemma le_bytes_from_le_bytes l : byte_list l -> le_bytes (length l) (from_le_bytes l) = l.
Proof.
  induction 1 as [|b l Hb Hl IH]; cbn [from_le_bytes length le_bytes]; [reflexivity|].
  set (X := from_le_bytes l) in *.
  replace ((b + 256 * X) mod 256) with b by (clearbody X; lia).
  replace ((b + 256 * X) / 256) with X by (clearbody X; lia).
  now rewrite IH.
Qed.

Lemma bfe_try_new_canon v : canon_val v -> bfe_try_new v = Some v.
Proof.
  intros Hv. unfold bfe_try_new, bfe_is_canonical, bfe_new_val, canon_val in *.
  destruct (v <? P) eqn:E; [|apply Z.ltb_ge in E; lia]. now rewrite Z.mod_small.
Qed.

Lemma bfe_try_new_some v w : 0 <= v -> bfe_try_new v = Some w -> w = v /\ canon_val v.
Proof.
  intros H0. unfold bfe_try_new, bfe_is_canonical, bfe_new_val, canon_val.
  destruct (v <? P) eqn:E; [|discriminate]. apply Z.ltb_lt in E. intros H. injection H as <-.
  rewrite Z.mod_small by lia. lia.
Qed.

Lemma bfe_try_new_noncanon v : P <= v -> bfe_try_new v = None.
Proof.
  intros H. unfold bfe_try_new, bfe_is_canonical. destruct (v <? P) eqn:E; [apply Z.ltb_lt in E; lia|reflexivity].
Qed.

Lemma canon_u64 v : canon_val v -> 0 <= v < 256 ^ Z.of_nat 8.
Proof. unfold canon_val. change (256 ^ Z.of_nat 8) with 18446744073709551616. rewrite P_val. lia. Qed.

(* BFieldElement <-> [u8; 8] *)
Lemma bfe_bytes_roundtrip v : canon_val v -> bfe_try_from_slice (bfe_to_bytes v) = Some v.
Proof.
  intros Hv. unfold bfe_try_from_slice, bfe_to_bytes, bfe_try_from_array.
  rewrite le_bytes_length. cbn [Nat.eqb].
  rewrite from_le_bytes_le_bytes by (apply canon_u64; exact Hv). apply bfe_try_new_canon. exact Hv.
Qed.

Lemma bfe_bytes_accept l v : byte_list l -> bfe_try_from_slice l = Some v ->
  length l = 8%nat /\ canon_val v /\ l = bfe_to_bytes v.
Proof.
  intros Hl. unfold bfe_try_from_slice, bfe_try_from_array, bfe_to_bytes.
  destruct (Nat.eqb (length l) 8) eqn:E; [|discriminate]. apply Nat.eqb_eq in E.
  intros H. apply bfe_try_new_some in H; [|apply from_le_bytes_range; exact Hl].
  destruct H as [-> Hc]. split; [exact E|]. split; [exact Hc|].
  rewrite <- E. symmetry. apply le_bytes_from_le_bytes. exact Hl.
Qed.

Lemma bfe_bytes_wrong_length l : length l <> 8%nat -> bfe_try_from_slice l = None.
Proof.
  intros H. unfold bfe_try_from_slice. destruct (Nat.eqb (length l) 8) eqn:E; [apply Nat.eqb_eq in E; contradiction|reflexivity].
Qed.

Lemma bfe_bytes_noncanon l : byte_list l -> P <= from_le_bytes l -> bfe_try_from_slice l = None.
Proof.
  intros Hl H. unfold bfe_try_from_slice, bfe_try_from_array.
  destruct (Nat.eqb (length l) 8); [|reflexivity]. apply bfe_try_new_noncanon. exact H.
Qed.

(* ================================================================= Digest <-> bytes *)
Lemma chunks8_cons8 a b c d e f g h r :
  chunks8 (a :: b :: c :: d :: e :: f :: g :: h :: r) = [a; b; c; d; e; f; g; h] :: chunks8 r.
Proof. reflexivity. Qed.

Lemma le_bytes_8 v : exists a b c d e f g h, le_bytes 8 v = [a; b; c; d; e; f; g; h].
Proof. cbn [le_bytes]. do 8 eexists. reflexivity. Qed.

Lemma chunks8_le_bytes_app v r : chunks8 (le_bytes 8 v ++ r) = le_bytes 8 v :: chunks8 r.
Proof.
  destruct (le_bytes_8 v) as (a & b & c & d & e & f & g & h & ->).
  cbn [app]. apply chunks8_cons8.
Qed.

Lemma digest_to_bytes_cons v d : digest_to_bytes (v :: d) = le_bytes 8 v ++ digest_to_bytes d.
Proof. reflexivity. Qed.

Lemma chunks8_digest_to_bytes d : chunks8 (digest_to_bytes d) = map bfe_to_bytes d.
Proof.
  induction d as [|v d IH]; [reflexivity|].
  rewrite digest_to_bytes_cons, chunks8_le_bytes_app, IH. reflexivity.
Qed.

Lemma digest_to_bytes_length d : length (digest_to_bytes d) = (8 * length d)%nat.
Proof.
  induction d as [|v d IH]; [reflexivity|].
  rewrite digest_to_bytes_cons, app_length, le_bytes_length, IH. cbn [length]. lia.
Qed.

Lemma digest_to_bytes_bytes d : byte_list (digest_to_bytes d).
Proof.
  induction d as [|v d IH]; [constructor|].
  rewrite digest_to_bytes_cons. apply Forall_app. split; [apply le_bytes_bytes|exact IH].
Qed.

Lemma digest_array_roundtrip d : Forall canon_val d -> digest_try_from_array (digest_to_bytes d) = Some d.
Proof.
  intros Hd. unfold digest_try_from_array. rewrite chunks8_digest_to_bytes.
  apply map_opt_map_some. intros v Hv. apply bfe_bytes_roundtrip.
  rewrite Forall_forall in Hd. apply Hd. exact Hv.
Qed.

Lemma digest_bytes_roundtrip d : wf_digest d -> digest_try_from_slice (digest_to_bytes d) = Some d.
Proof.
  intros [Hl Hd]. unfold digest_try_from_slice. rewrite digest_to_bytes_length, Hl. cbn [Nat.mul Nat.add Nat.eqb].
  apply digest_array_roundtrip. exact Hd.
Qed.

(* structure of chunks_exact(8) on a list whose length is a multiple of 8 *)
Lemma chunks8_spec n : forall l, length l = (8 * n)%nat -> byte_list l ->
  concat (chunks8 l) = l /\ length (chunks8 l) = n /\ Forall (fun c => length c = 8%nat /\ byte_list c) (chunks8 l).
Proof.
  induction n as [|n IH]; intros l Hlen Hb.
  - destruct l; [|cbn [length] in Hlen; lia]. cbn. repeat split; constructor.
  - do 8 (destruct l as [|? l]; [cbn [length] in Hlen; lia|]).
    rewrite chunks8_cons8. cbn [length] in Hlen.
    assert (Hl : length l = (8 * n)%nat) by lia.
    assert (Hbl : byte_list l) by (do 8 (apply Forall_inv_tail in Hb); exact Hb).
    destruct (IH l Hl Hbl) as (Hc & Hn & Hf).
    cbn [concat app length]. rewrite Hc, Hn. repeat split.
    constructor; [|exact Hf]. split; [reflexivity|].
    unfold byte_list in *.
    repeat (match goal with H : Forall _ (_ :: _) |- _ => inversion H; clear H; subst end).
    repeat (first [apply Forall_nil | apply Forall_cons; [assumption|]]).
Qed.

Lemma map_opt_chunks cs : forall d, Forall (fun c => length c = 8%nat /\ byte_list c) cs ->
  map_opt bfe_try_from_slice cs = Some d ->
  Forall canon_val d /\ concat cs = digest_to_bytes d /\ length d = length cs.
Proof.
  induction cs as [|c cs IH]; intros d Hcs H.
  - cbn [map_opt] in H. injection H as <-. repeat split. constructor.
  - cbn [map_opt] in H. inversion Hcs as [|? ? [Hc8 Hcb] Hcs']; subst.
    destruct (bfe_try_from_slice c) as [v|] eqn:Hv; [|discriminate].
    destruct (map_opt bfe_try_from_slice cs) as [vs|] eqn:Hvs; [|discriminate].
    injection H as <-.
    destruct (bfe_bytes_accept c v Hcb Hv) as (_ & Hcv & ->).
    destruct (IH vs Hcs' eq_refl) as (Hf & Hcat & Hlen).
    split; [constructor; assumption|]. split.
    + cbn [concat]. rewrite digest_to_bytes_cons, Hcat. reflexivity.
    + cbn [length]. now rewrite Hlen.
Qed.

(* accepted input: the digest is well formed and re-encodes to exactly the input *)
Lemma digest_bytes_accept l d : byte_list l -> digest_try_from_slice l = Some d ->
  length l = 40%nat /\ wf_digest d /\ digest_to_bytes d = l.
Proof.
  intros Hb. unfold digest_try_from_slice, digest_try_from_array.
  destruct (Nat.eqb (length l) 40) eqn:E; [|discriminate]. apply Nat.eqb_eq in E. intros H.
  destruct (chunks8_spec 5 l E Hb) as (Hc & Hn & Hf).
  destruct (map_opt_chunks _ _ Hf H) as (Hcan & Hcat & Hlen).
  split; [exact E|]. split.
  - split; [congruence|exact Hcan].
  - congruence.
Qed.

Lemma digest_bytes_accept_iff l d : byte_list l ->
  (digest_try_from_slice l = Some d <-> wf_digest d /\ digest_to_bytes d = l).
Proof.
  intros Hb. split.
  - intros H. destruct (digest_bytes_accept l d Hb H) as (_ & Hw & He). split; assumption.
  - intros [Hw <-]. apply digest_bytes_roundtrip. exact Hw.
Qed.

Lemma digest_bytes_wrong_length l : length l <> 40%nat -> digest_try_from_slice l = None.
Proof.
  intros H. unfold digest_try_from_slice.
  destruct (Nat.eqb (length l) 40) eqn:E; [apply Nat.eqb_eq in E; contradiction|reflexivity].
Qed.

Lemma map_opt_none_in {A B : Type} (f : A -> option B) l x : In x l -> f x = None -> map_opt f l = None.
Proof.
  induction l as [|y l IH]; intros Hin Hx; [contradiction|]. cbn [map_opt].
  destruct Hin as [->|Hin].
  - now rewrite Hx.
  - destruct (f y); [|reflexivity]. now rewrite (IH Hin Hx).
Qed.

(* any 8-byte element that is p or more makes the whole array invalid (no reduction) *)
Lemma digest_bytes_noncanon n pre c post :
  length pre = (8 * n)%nat -> length c = 8%nat -> byte_list c -> P <= from_le_bytes c ->
  digest_try_from_slice (pre ++ c ++ post) = None.
Proof.
  intros Hpre Hc Hcb Hp. unfold digest_try_from_slice.
  destruct (Nat.eqb _ 40); [|reflexivity]. unfold digest_try_from_array.
  apply map_opt_none_in with (x := c); [|apply bfe_bytes_noncanon; assumption].
  clear Hcb Hp. revert pre Hpre.
  induction n as [|n IH]; intros pre Hpre.
  - destruct pre; [|cbn [length] in Hpre; lia]. cbn [app].
    do 8 (destruct c as [|? c]; [cbn [length] in Hc; lia|]). destruct c; [|cbn [length] in Hc; lia].
    cbn [app]. rewrite chunks8_cons8. left. reflexivity.
  - do 8 (destruct pre as [|? pre]; [cbn [length] in Hpre; lia|]).
    cbn [app]. rewrite chunks8_cons8. right. apply IH. cbn [length] in Hpre. lia.
Qed.

(* ================================================================= hex *)
Lemma hex_val_digit up n : 0 <= n < 16 -> hex_val (hex_digit up n) = Some n.
Proof.
  intros H.
  assert (E : n = 0 \/ n = 1 \/ n = 2 \/ n = 3 \/ n = 4 \/ n = 5 \/ n = 6 \/ n = 7 \/ n = 8 \/ n = 9 \/
              n = 10 \/ n = 11 \/ n = 12 \/ n = 13 \/ n = 14 \/ n = 15) by lia.
  destruct up; repeat (destruct E as [->|E]; [reflexivity|]); subst; reflexivity.
Qed.

Lemma hex_digit_lower n : 0 <= n < 16 -> lower_hex_char (hex_digit false n).
Proof.
  intros H. unfold hex_digit, lower_hex_char. destruct (n <? 10) eqn:E.
  - apply Z.ltb_lt in E. lia.
  - apply Z.ltb_ge in E. lia.
Qed.

Lemma hex_val_some c x : hex_val c = Some x ->
  0 <= x < 16 /\ hex_char c /\ (lower_hex_char c -> hex_digit false x = c).
Proof.
  unfold hex_val, hex_char, lower_hex_char, hex_digit.
  destruct ((65 <=? c) && (c <=? 70)) eqn:E1.
  { apply andb_true_iff in E1. destruct E1 as [A B]. apply Z.leb_le in A, B.
    intros H. injection H as <-. repeat split; try lia. all: intros L; lia. }
  destruct ((97 <=? c) && (c <=? 102)) eqn:E2.
  { apply andb_true_iff in E2. destruct E2 as [A B]. apply Z.leb_le in A, B.
    intros H. injection H as <-. repeat split; try lia. all: intros _.
    all: destruct (c - 97 + 10 <? 10) eqn:E; [apply Z.ltb_lt in E; lia|]. all: lia. }
  destruct ((48 <=? c) && (c <=? 57)) eqn:E3; [|discriminate].
  apply andb_true_iff in E3. destruct E3 as [A B]. apply Z.leb_le in A, B.
  intros H. injection H as <-. repeat split; try lia. all: intros _.
  all: destruct (c - 48 <? 10) eqn:E; [|apply Z.ltb_ge in E; lia]. all: lia.
Qed.

Lemma hex_val_none c : ~ hex_char c -> hex_val c = None.
Proof.
  intros H. destruct (hex_val c) as [x|] eqn:E; [|reflexivity].
  apply hex_val_some in E. tauto.
Qed.

Lemma hex_decode_cons2 a b r :
  hex_decode (a :: b :: r) =
  match hex_val a, hex_val b, hex_decode r with
  | Some x, Some y, Some l => Some (16 * x + y :: l)
  | _, _, _ => None
  end.
Proof. reflexivity. Qed.

Lemma hex_encode_cons up b l :
  hex_encode up (b :: l) = hex_digit up (b / 16) :: hex_digit up (b mod 16) :: hex_encode up l.
Proof. reflexivity. Qed.

Lemma hex_decode_encode up l : byte_list l -> hex_decode (hex_encode up l) = Some l.
Proof.
  induction 1 as [|b l Hb Hl IH]; [reflexivity|].
  rewrite hex_encode_cons, hex_decode_cons2, IH.
  rewrite !hex_val_digit by lia. do 2 f_equal. lia.
Qed.

Lemma hex_encode_length up l : length (hex_encode up l) = (2 * length l)%nat.
Proof. induction l as [|b l IH]; [reflexivity|]. rewrite hex_encode_cons. cbn [length]. rewrite IH. lia. Qed.

Lemma hex_encode_lower l : byte_list l -> Forall lower_hex_char (hex_encode false l).
Proof.
  induction 1 as [|b l Hb Hl IH]; [constructor|]. rewrite hex_encode_cons.
  constructor; [apply hex_digit_lower; lia|]. constructor; [apply hex_digit_lower; lia|exact IH].
Qed.

Lemma list_ind2 {A : Type} (Q : list A -> Prop) :
  Q [] -> (forall a, Q [a]) -> (forall a b r, Q r -> Q (a :: b :: r)) -> forall l, Q l.
Proof.
  intros H0 H1 H2 l. enough (Q l /\ forall a, Q (a :: l)) by tauto.
  induction l as [|x l [IHa IHb]]; split; auto.
Qed.

(* what hex::decode accepts: even length, hex characters only; the bytes are determined, and a
   lowercase input is exactly the encoding of the result *)
Lemma hex_decode_some s : forall l, hex_decode s = Some l ->
  length s = (2 * length l)%nat /\ Forall hex_char s /\ byte_list l /\
  (Forall lower_hex_char s -> hex_encode false l = s).
Proof.
  induction s as [| a | a b r IH] using list_ind2; intros l H.
  - injection H as <-. repeat split; constructor.
  - discriminate.
  - rewrite hex_decode_cons2 in H.
    destruct (hex_val a) as [x|] eqn:Ha; [|discriminate].
    destruct (hex_val b) as [y|] eqn:Hb; [|discriminate].
    destruct (hex_decode r) as [l'|] eqn:Hr; [|discriminate].
    injection H as <-.
    destruct (hex_val_some _ _ Ha) as (Hx & Hca & Hla).
    destruct (hex_val_some _ _ Hb) as (Hy & Hcb & Hlb).
    destruct (IH l' eq_refl) as (Hlen & Hch & Hby & Hlow).
    split; [cbn [length]; lia|]. split; [constructor; [exact Hca|constructor; [exact Hcb|exact Hch]]|].
    split; [constructor; [lia|exact Hby]|].
    intros HL. inversion HL as [|? ? La HL']; subst. inversion HL' as [|? ? Lb HL'']; subst.
    rewrite hex_encode_cons.
    replace ((16 * x + y) / 16) with x by lia. replace ((16 * x + y) mod 16) with y by lia.
    rewrite (Hla La), (Hlb Lb), (Hlow HL''). reflexivity.
Qed.

Lemma hex_decode_odd s : Nat.odd (length s) = true -> hex_decode s = None.
Proof.
  induction s as [| a | a b r IH] using list_ind2; intros H.
  - discriminate.
  - reflexivity.
  - rewrite hex_decode_cons2. cbn [length] in H. rewrite Nat.odd_succ_succ in H.
    rewrite (IH H). destruct (hex_val a); [destruct (hex_val b)|]; reflexivity.
Qed.

Lemma hex_decode_invalid s c : In c s -> ~ hex_char c -> hex_decode s = None.
Proof.
  intros Hin Hc. destruct (hex_decode s) as [l|] eqn:E; [|reflexivity].
  apply hex_decode_some in E. destruct E as (_ & Hf & _).
  rewrite Forall_forall in Hf. elim Hc. apply Hf. exact Hin.
Qed.

Lemma digest_hex_roundtrip up d : wf_digest d -> digest_try_from_hex (hex_encode up (digest_to_bytes d)) = Some d.
Proof.
  intros Hd. unfold digest_try_from_hex.
  rewrite hex_decode_encode by apply digest_to_bytes_bytes. apply digest_bytes_roundtrip. exact Hd.
Qed.

Lemma digest_hex_accept s d : digest_try_from_hex s = Some d ->
  length s = 80%nat /\ Forall hex_char s /\ wf_digest d /\
  (Forall lower_hex_char s -> digest_to_hex d = s).
Proof.
  unfold digest_try_from_hex. destruct (hex_decode s) as [bytes|] eqn:E; [|discriminate].
  intros H. destruct (hex_decode_some _ _ E) as (Hlen & Hch & Hby & Hlow).
  destruct (digest_bytes_accept _ _ Hby H) as (H40 & Hw & Henc).
  split; [lia|]. split; [exact Hch|]. split; [exact Hw|].
  intros HL. unfold digest_to_hex. rewrite Henc. apply Hlow. exact HL.
Qed.

Lemma digest_hex_wrong_length s : length s <> 80%nat -> digest_try_from_hex s = None.
Proof.
  intros H. destruct (digest_try_from_hex s) as [d|] eqn:E; [|reflexivity].
  apply digest_hex_accept in E. tauto.
Qed.

Lemma digest_hex_invalid s c : In c s -> ~ hex_char c -> digest_try_from_hex s = None.
Proof.
  intros Hin Hc. unfold digest_try_from_hex. now rewrite (hex_decode_invalid s c Hin Hc).
Qed.

(* an element >= p inside otherwise fine hex is rejected, in either case *)
Lemma digest_hex_noncanon up n pre c post :
  length pre = (8 * n)%nat -> length c = 8%nat -> byte_list pre -> byte_list c -> byte_list post ->
  P <= from_le_bytes c -> digest_try_from_hex (hex_encode up (pre ++ c ++ post)) = None.
Proof.
  intros Hpre Hc Bp Bc Bq Hp. unfold digest_try_from_hex.
  rewrite hex_decode_encode by (apply Forall_app; split; [exact Bp|apply Forall_app; split; assumption]).
  apply digest_bytes_noncanon with (n := n); assumption.
Qed.
