(* proofs/LatticeBase.v - C18, basic layer: arithmetic modulo P as a setoid, list/array lemmas,
   vectors over the field, "a linear map is determined by its values on the 64 unit vectors". *)
From Coq Require Import ZArith Bool List Lia Morphisms Setoid.
From TF Require Import BFieldGen LatticeGen Lattice LatticeSpec.
Import ListNotations.
Open Scope Z_scope.

Lemma P_pos : 0 < P. Proof. reflexivity. Qed.
Lemma P_gt1 : 1 < P. Proof. reflexivity. Qed.
Lemma P_nz : P <> 0. Proof. discriminate. Qed.

(* ------------------------------------------------------------------ congruence modulo P *)
Definition eqp (a b : Z) : Prop := a mod P = b mod P.
Lemma eqp_refl a : eqp a a. Proof. reflexivity. Qed.
Lemma eqp_sym a b : eqp a b -> eqp b a. Proof. unfold eqp; auto. Qed.
Lemma eqp_trans a b c : eqp a b -> eqp b c -> eqp a c. Proof. unfold eqp; intros -> ->; auto. Qed.
#[global] Instance eqp_equiv : Equivalence eqp.
Proof. constructor; [exact eqp_refl | exact eqp_sym | exact eqp_trans]. Qed.
#[global] Instance eqp_add : Proper (eqp ==> eqp ==> eqp) Z.add.
Proof. unfold eqp; intros a a' H b b' H0. rewrite Zplus_mod, H, H0, <- Zplus_mod. reflexivity. Qed.
#[global] Instance eqp_sub : Proper (eqp ==> eqp ==> eqp) Z.sub.
Proof. unfold eqp; intros a a' H b b' H0. rewrite Zminus_mod, H, H0, <- Zminus_mod. reflexivity. Qed.
#[global] Instance eqp_mul : Proper (eqp ==> eqp ==> eqp) Z.mul.
Proof. unfold eqp; intros a a' H b b' H0. rewrite Zmult_mod, H, H0, <- Zmult_mod. reflexivity. Qed.
#[global] Instance eqp_opp : Proper (eqp ==> eqp) Z.opp.
Proof. intros a a' H. change (eqp (0 - a) (0 - a')). rewrite H. reflexivity. Qed.
Lemma mod_eqp a : eqp (a mod P) a.
Proof. unfold eqp. apply Zmod_mod. Qed.
Lemma eqp_of_eq a b : a = b -> eqp a b. Proof. intros ->; reflexivity. Qed.

(* goal  X mod P = Y mod P  where X, Y are ring expressions containing inner `mod P`s *)
Ltac eqp_ring :=
  match goal with
  | |- ?x mod P = ?y mod P => change (eqp x y)
  | |- eqp _ _ => idtac
  end;
  repeat rewrite mod_eqp; apply eqp_of_eq; ring.
Ltac fp_unfold := unfold fp_add, fp_sub, fp_mul, fp_new.
Ltac fp_ring := fp_unfold; eqp_ring.

Lemma mod_range a : 0 <= a mod P < P.
Proof. apply Z.mod_pos_bound. exact P_pos. Qed.
Lemma canonical_mod a : canonical (a mod P). Proof. apply mod_range. Qed.
Lemma fp_add_canon a b : canonical (fp_add a b). Proof. apply mod_range. Qed.
Lemma fp_sub_canon a b : canonical (fp_sub a b). Proof. apply mod_range. Qed.
Lemma fp_mul_canon a b : canonical (fp_mul a b). Proof. apply mod_range. Qed.
Lemma canon_mod a : canonical a -> a mod P = a.
Proof. intros H. apply Z.mod_small. exact H. Qed.
Lemma fp_mul_0_r c : fp_mul c 0 = 0.
Proof. unfold fp_mul. rewrite Z.mul_0_r. reflexivity. Qed.
Lemma fp_mul_0_l c : fp_mul 0 c = 0.
Proof. reflexivity. Qed.
Lemma fp_mul_1_r c : canonical c -> fp_mul c 1 = c.
Proof. intros H. unfold fp_mul. rewrite Z.mul_1_r. apply canon_mod, H. Qed.
Lemma fp_add_0_r c : canonical c -> fp_add c 0 = c.
Proof. intros H. unfold fp_add. rewrite Z.add_0_r. apply canon_mod, H. Qed.
Lemma fp_add_0_l c : canonical c -> fp_add 0 c = c.
Proof. intros H. unfold fp_add. rewrite Z.add_0_l. apply canon_mod, H. Qed.
Lemma fp_mul_comm a b : fp_mul a b = fp_mul b a.
Proof. unfold fp_mul. rewrite Z.mul_comm. reflexivity. Qed.

(* ------------------------------------------------------------------ lists as arrays *)
Lemma length_upd {A} (l : list A) i x : length (upd l i x) = length l.
Proof. revert i; induction l as [|h t IH]; intros [|i]; simpl; auto. Qed.
Lemma length_map2 {A B C} (f : A -> B -> C) a b : length a = length b -> length (map2 f a b) = length a.
Proof. revert b; induction a as [|x a IH]; intros [|y b] H; simpl in *; try discriminate; auto. Qed.
Lemma map2_upd {A B C} (f : A -> B -> C) a b j x y :
  map2 f (upd a j x) (upd b j y) = upd (map2 f a b) j (f x y).
Proof.
  revert b j; induction a as [|x0 a IH]; intros [|y0 b] [|j]; simpl; auto.
  f_equal. apply IH.
Qed.
Lemma map_upd {A B} (f : A -> B) a j x : map f (upd a j x) = upd (map f a) j (f x).
Proof. revert j; induction a as [|x0 a IH]; intros [|j]; simpl; auto. f_equal. apply IH. Qed.
Lemma nth_map2 {A B C} (f : A -> B -> C) a b i da db d :
  length a = length b -> f da db = d -> nth i (map2 f a b) d = f (nth i a da) (nth i b db).
Proof.
  revert b i; induction a as [|x a IH]; intros [|y b] [|i] H Hd; simpl in *; try discriminate; auto.
Qed.
Lemma nth_map0 {A B} (f : A -> B) a i da d : f da = d -> nth i (map f a) d = f (nth i a da).
Proof. intros <-. apply map_nth. Qed.
Lemma nth_error_nth0 {A} (l : list A) i d : (i < length l)%nat -> nth_error l i = Some (nth i l d).
Proof. intros H. apply nth_error_nth'. exact H. Qed.
Lemma map2_app {A B C} (f : A -> B -> C) a1 a2 b1 b2 :
  length a1 = length b1 -> map2 f (a1 ++ a2) (b1 ++ b2) = map2 f a1 b1 ++ map2 f a2 b2.
Proof.
  revert b1; induction a1 as [|x a1 IH]; intros [|y b1] H; simpl in *; try discriminate; auto.
  f_equal. apply IH. lia.
Qed.
Lemma map2_map_l {A A' B C} (f : A' -> B -> C) (g : A -> A') a b :
  map2 f (map g a) b = map2 (fun x y => f (g x) y) a b.
Proof. revert b; induction a as [|x a IH]; intros [|y b]; simpl; auto. f_equal. apply IH. Qed.
Lemma map2_map_r {A B B' C} (f : A -> B' -> C) (g : B -> B') a b :
  map2 f a (map g b) = map2 (fun x y => f x (g y)) a b.
Proof. revert b; induction a as [|x a IH]; intros [|y b]; simpl; auto. f_equal. apply IH. Qed.
Lemma map_map2 {A B C D} (g : C -> D) (f : A -> B -> C) a b :
  map g (map2 f a b) = map2 (fun x y => g (f x y)) a b.
Proof. revert b; induction a as [|x a IH]; intros [|y b]; simpl; auto. f_equal. apply IH. Qed.
Lemma map2_same_map {A B C} (f : B -> B -> C) (g h : A -> B) l :
  map2 f (map g l) (map h l) = map (fun x => f (g x) (h x)) l.
Proof. induction l as [|x l IH]; simpl; auto. f_equal. exact IH. Qed.
Lemma map2_ext_in {A B C} (f g : A -> B -> C) a b :
  (forall x y, In x a -> In y b -> f x y = g x y) -> map2 f a b = map2 g a b.
Proof.
  revert b; induction a as [|x a IH]; intros [|y b] H; simpl; auto.
  f_equal. - apply H; left; reflexivity. - apply IH. intros; apply H; right; assumption.
Qed.

Lemma list_eqb_eq {A} (eqb : A -> A -> bool) :
  (forall x y, eqb x y = true -> x = y) -> forall a b, list_eqb eqb a b = true -> a = b.
Proof.
  intros He. induction a as [|x a IH]; intros [|y b] H; simpl in H; try discriminate; auto.
  apply andb_prop in H. destruct H as [H1 H2]. f_equal; [apply He; exact H1 | apply IH; exact H2].
Qed.
Lemma list_eqb_refl {A} (eqb : A -> A -> bool) :
  (forall x, eqb x x = true) -> forall a, list_eqb eqb a a = true.
Proof. intros He. induction a as [|x a IH]; simpl; auto. rewrite He, IH. reflexivity. Qed.
Lemma zlist_eqb_eq a b : list_eqb Z.eqb a b = true -> a = b.
Proof. apply list_eqb_eq. intros x y H. apply Z.eqb_eq. exact H. Qed.

Lemma opt_all_map_some {A B} (f : A -> option B) (g : A -> B) l :
  (forall x, In x l -> f x = Some (g x)) -> opt_all (map f l) = Some (map g l).
Proof.
  induction l as [|x l IH]; intros H; simpl; auto.
  rewrite (H x (or_introl eq_refl)). rewrite IH; auto. intros; apply H; right; assumption.
Qed.

(* ------------------------------------------------------------------ vectors over the field *)
Definition vadd (a b : list Z) : list Z := map2 fp_add a b.
Definition vscale (c : Z) (a : list Z) : list Z := map (fp_mul c) a.
Definition zeros (n : nat) : list Z := repeat 0 n.
Definition unit_vec (n k : nat) : list Z := zeros k ++ 1 :: zeros (n - 1 - k).   (* e_k in dimension n, k < n *)

Lemma ring_elem_length a : ring_elem a -> length a = 64%nat. Proof. intros [H _]; exact H. Qed.
Lemma Forall_canon_map_mod l : Forall canonical (map (fun c => c mod P) l).
Proof. induction l; simpl; constructor; auto. apply canonical_mod. Qed.
Lemma Forall_canon_map2 (f : Z -> Z -> Z) a b :
  (forall x y, canonical (f x y)) -> Forall canonical (map2 f a b).
Proof. intros Hf. revert b; induction a as [|x a IH]; intros [|y b]; simpl; constructor; auto. Qed.
Lemma Forall_canon_map (f : Z -> Z) a : (forall x, canonical (f x)) -> Forall canonical (map f a).
Proof. intros Hf. induction a; simpl; constructor; auto. Qed.
Lemma Forall_canon_upd a j x : Forall canonical a -> canonical x -> Forall canonical (upd a j x).
Proof.
  intros Ha Hx. revert j; induction Ha as [|y l Hy Hl IH]; intros [|j]; simpl; constructor; auto.
Qed.
Lemma length_zeros n : length (zeros n) = n. Proof. apply repeat_length. Qed.
Lemma length_unit_vec n k : (k < n)%nat -> length (unit_vec n k) = n.
Proof. intros H. unfold unit_vec. rewrite app_length. simpl. rewrite !length_zeros. lia. Qed.
Lemma Forall_canon_zeros n : Forall canonical (zeros n).
Proof. induction n; simpl; constructor; auto. split; [lia | exact P_pos]. Qed.
Lemma ring_elem_unit k : (k < 64)%nat -> ring_elem (unit_vec 64 k).
Proof.
  intros H. split. - apply length_unit_vec; exact H.
  - unfold unit_vec. apply Forall_app. split; [apply Forall_canon_zeros|].
    constructor; [split; [lia | exact P_gt1] | apply Forall_canon_zeros].
Qed.
Lemma ring_elem_zeros : ring_elem (zeros 64).
Proof. split; [apply length_zeros | apply Forall_canon_zeros]. Qed.

Lemma vadd_zeros_l a : Forall canonical a -> vadd (zeros (length a)) a = a.
Proof.
  induction 1 as [|x l Hx Hl IH]; simpl; auto. unfold vadd, zeros in *. simpl. rewrite IH.
  f_equal. apply fp_add_0_l; exact Hx.
Qed.
Lemma vscale_zeros c n : vscale c (zeros n) = zeros n.
Proof. induction n; simpl; auto. unfold vscale, zeros in *. simpl. rewrite IHn, fp_mul_0_r. reflexivity. Qed.
Lemma vscale_0 a : vscale 0 a = zeros (length a).
Proof. induction a; simpl; auto. unfold vscale, zeros in *. simpl. rewrite IHa. reflexivity. Qed.

(* prefix of k zeros, then x, then t:  = x * e_k + (k+1 zeros, then t) *)
Lemma peel_coordinate k x t :
  canonical x -> Forall canonical t ->
  zeros k ++ x :: t =
  vadd (vscale x (unit_vec (k + 1 + length t) k)) (zeros (S k) ++ t).
Proof.
  intros Hx Ht. unfold unit_vec, vscale. rewrite map_app. simpl map.
  fold (vscale x (zeros k)). fold (vscale x (zeros (k + 1 + length t - 1 - k))).
  rewrite !vscale_zeros.
  replace (zeros (S k) ++ t) with (zeros k ++ 0 :: t).
  2:{ change (zeros (S k)) with (0 :: zeros k). unfold zeros. rewrite (repeat_cons k 0), <- app_assoc. reflexivity. }
  unfold vadd. rewrite map2_app by reflexivity. f_equal.
  - clear. unfold zeros. induction k; cbn [map2 repeat]; auto. rewrite <- IHk. reflexivity.
  - simpl. f_equal.
    + rewrite fp_mul_1_r by exact Hx. symmetry. apply fp_add_0_r; exact Hx.
    + replace (k + 1 + length t - 1 - k)%nat with (length t) by lia. symmetry. apply vadd_zeros_l; exact Ht.
Qed.

(* linear maps on 64-dimensional vectors *)
Record linear64 (f : list Z -> list Z) : Prop := {
  lin_add : forall a b, length a = 64%nat -> length b = 64%nat -> f (vadd a b) = vadd (f a) (f b);
  lin_scale : forall c a, length a = 64%nat -> f (vscale c a) = vscale c (f a);
  lin_len : forall a, length a = 64%nat -> length (f a) = 64%nat
}.

Lemma linear64_zero f : linear64 f -> f (zeros 64) = zeros 64.
Proof.
  intros L. rewrite <- (vscale_zeros 0 64) at 1. rewrite (lin_scale f L) by apply length_zeros.
  rewrite vscale_0. rewrite (lin_len f L) by apply length_zeros. reflexivity.
Qed.

Lemma linear64_ext f g :
  linear64 f -> linear64 g ->
  (forall k, (k < 64)%nat -> f (unit_vec 64 k) = g (unit_vec 64 k)) ->
  forall a, ring_elem a -> f a = g a.
Proof.
  intros Lf Lg Hb.
  assert (G : forall t k, (k + length t = 64)%nat -> Forall canonical t -> f (zeros k ++ t) = g (zeros k ++ t)).
  { induction t as [|x t IH]; intros k Hk Ht.
    - simpl in Hk. rewrite app_nil_r. replace k with 64%nat by lia.
      rewrite (linear64_zero f Lf), (linear64_zero g Lg). reflexivity.
    - simpl in Hk. inversion Ht as [|? ? Hx Ht']; subst.
      rewrite (peel_coordinate k x t Hx Ht').
      replace (k + 1 + length t)%nat with 64%nat by lia.
      assert (L1 : length (vscale x (unit_vec 64 k)) = 64%nat).
      { unfold vscale. rewrite map_length. apply length_unit_vec. lia. }
      assert (L2 : length (zeros (S k) ++ t) = 64%nat).
      { rewrite app_length, length_zeros. lia. }
      rewrite (lin_add f Lf), (lin_add g Lg) by assumption.
      rewrite (lin_scale f Lf), (lin_scale g Lg) by (apply length_unit_vec; lia).
      rewrite Hb by lia. rewrite (IH (S k)) by (try lia; assumption). reflexivity. }
  intros a [Hl Hc]. apply (G a 0%nat); [simpl; exact Hl | exact Hc].
Qed.

Lemma linear64_compose f g : linear64 f -> linear64 g -> linear64 (fun a => g (f a)).
Proof.
  intros Lf Lg. constructor.
  - intros a b Ha Hb. rewrite (lin_add f Lf) by assumption. apply (lin_add g Lg); apply (lin_len f Lf); assumption.
  - intros c a Ha. rewrite (lin_scale f Lf) by assumption. apply (lin_scale g Lg). apply (lin_len f Lf); assumption.
  - intros a Ha. apply (lin_len g Lg). apply (lin_len f Lf). exact Ha.
Qed.
Lemma linear64_id : linear64 (fun a => a).
Proof. constructor; auto. Qed.

Lemma length_vadd a b : length a = length b -> length (vadd a b) = length a.
Proof. apply length_map2. Qed.
Lemma length_vscale c a : length (vscale c a) = length a.
Proof. apply map_length. Qed.
Lemma nth_vadd a b i : length a = length b -> nth i (vadd a b) 0 = fp_add (nth i a 0) (nth i b 0).
Proof. intros H. apply nth_map2; [exact H | reflexivity]. Qed.
Lemma nth_vscale c a i : nth i (vscale c a) 0 = fp_mul c (nth i a 0).
Proof. apply nth_map0. apply fp_mul_0_r. Qed.
