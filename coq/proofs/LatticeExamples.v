(* proofs/LatticeExamples.v - C18: a complete KEM run inside Coq with toy stand-ins for SHAKE256 / SHA3-256,
   showing that the hypotheses of the KEM theorems are satisfiable (an accepted ciphertext exists) and that a
   single modified coefficient leads to rejection in the model.  Compiled once (vm_compute, about a minute). *)
From Coq Require Import ZArith Bool List.
From TF Require Import BFieldGen LatticeGen Lattice LatticeSpec LatticeKem LatticeKemNoise.
Import ListNotations.
Open Scope Z_scope.

Definition toy_shake (x : list Z) (n : Z) : list Z :=
  let s := fold_left Z.add x 0 in
  map (fun i => (s * 7 + Z.of_nat i * Z.of_nat i * 13 + Z.of_nat i * 5 + (Z.of_nat i / 3)) mod 256) (seq 0 (Z.to_nat n)).
Definition toy_sha (x : list Z) : list Z := map (fun b => (b * 3 + 1) mod 256) x.
Definition toy_kg_seed : list Z := map Z.of_nat (seq 0 32).
Definition toy_enc_seed : list Z := map Z.of_nat (seq 100 32).

Definition toy_tamper (ct : ciphertext) : option ciphertext :=
  match array_of_ct ct with
  | None => None
  | Some arr => ct_of_array (upd arr 17 (fp_add (nth 17 arr 0) 1))
  end.

Definition toy_kem_check : bool :=
  match keygen toy_shake toy_kg_seed with
  | Some (sk, pk) =>
      match enc toy_shake toy_sha pk toy_enc_seed with
      | Some (k, ct) =>
          match dec toy_shake toy_sha sk ct, dec_payload toy_shake sk ct, toy_tamper ct with
          | Some (Some k'), Some p, Some ct' =>
              list_eqb Z.eqb k k' && list_eqb Z.eqb p (toy_shake toy_enc_seed ENC_OUTPUT_LENGTH)
              && negb (ct_eqb ct ct')
              && match dec toy_shake toy_sha sk ct' with Some None => true | _ => false end
          | _, _, _ => false
          end
      | None => false
      end
  | None => false
  end.
Lemma toy_kem_check_true : toy_kem_check = true.
Proof. vm_compute. reflexivity. Qed.

(* the noise term b.c - d.a of the same run satisfies the lane-noise bound of dec_enc_noise_partial *)
Definition toy_noise_check : bool :=
  match keygen toy_shake toy_kg_seed with
  | Some (sk, _) =>
      match derive_secret_vectors toy_shake (fst sk),
            derive_secret_vectors toy_shake (toy_shake toy_enc_seed ENC_OUTPUT_LENGTH) with
      | Some (a, c), Some (b, d) => forallb (lane_noise_okb NOISE_BOUND) (kem_noise a b c d)
      | _, _ => false
      end
  | None => false
  end.
Lemma toy_noise_check_true : toy_noise_check = true.
Proof. vm_compute. reflexivity. Qed.
