(* proofs/LatticeExplicit.v - C18: the coefficient-by-coefficient form of the negacyclic convolution,
     c_k = sum_{i+j=k} a_i b_j - sum_{i+j=k+64} a_i b_j  (mod p),
   equals LatticeSpec.negacyclic (product in Z[X] folded modulo X^64 + 1), hence equals the ring product of the
   implementation.  Route: both sides are bilinear; a bilinear map on F_p^64 x F_p^64 is determined by its
   values on the 64 x 64 pairs of unit vectors, which are compared by computation. *)
From Coq Require Import ZArith Bool List Lia Morphisms Setoid.
From TF Require Import BFieldGen LatticeGen Lattice LatticeSpec LatticeBase LatticeNtt LatticeModule.
Import ListNotations.
Open Scope Z_scope.

Definition cterm (a b : list Z) (k : nat) (s : Z) (i : nat) : Z :=
  if (i <=? k)%nat then s + nth i a 0 * nth (k - i) b 0 else s - nth i a 0 * nth (k + 64 - i) b 0.
Lemma negacyclic_coeff_cterm a b k : negacyclic_coeff a b k = (fold_left (cterm a b k) (seq 0 64) 0) mod P.
Proof. reflexivity. Qed.

(* ------------------------------------------------------------------ the explicit form is bilinear *)
Lemma fold_cterm_add_l a a' b k l u s s' :
  length a = length a' -> eqp u (s + s') ->
  eqp (fold_left (cterm (vadd a a') b k) l u) (fold_left (cterm a b k) l s + fold_left (cterm a' b k) l s').
Proof.
  intros Hl. revert u s s'; induction l as [|i l IH]; intros u s s' Hu; cbn [fold_left]; [exact Hu|].
  apply IH. unfold cterm. rewrite (nth_vadd a a' i Hl). unfold fp_add.
  destruct (i <=? k)%nat; rewrite Hu, mod_eqp; apply eqp_of_eq; ring.
Qed.
Lemma fold_cterm_scale_l c a b k l u s :
  eqp u (c * s) -> eqp (fold_left (cterm (vscale c a) b k) l u) (c * fold_left (cterm a b k) l s).
Proof.
  revert u s; induction l as [|i l IH]; intros u s Hu; cbn [fold_left]; [exact Hu|].
  apply IH. unfold cterm. rewrite (nth_vscale c a i). unfold fp_mul.
  destruct (i <=? k)%nat; rewrite Hu, mod_eqp; apply eqp_of_eq; ring.
Qed.
Lemma fold_cterm_add_r a b b' k l u s s' :
  length b = length b' -> eqp u (s + s') ->
  eqp (fold_left (cterm a (vadd b b') k) l u) (fold_left (cterm a b k) l s + fold_left (cterm a b' k) l s').
Proof.
  intros Hl. revert u s s'; induction l as [|i l IH]; intros u s s' Hu; cbn [fold_left]; [exact Hu|].
  apply IH. unfold cterm. rewrite !(nth_vadd b b' _ Hl). unfold fp_add.
  destruct (i <=? k)%nat; rewrite Hu, mod_eqp; apply eqp_of_eq; ring.
Qed.
Lemma fold_cterm_scale_r c a b k l u s :
  eqp u (c * s) -> eqp (fold_left (cterm a (vscale c b) k) l u) (c * fold_left (cterm a b k) l s).
Proof.
  revert u s; induction l as [|i l IH]; intros u s Hu; cbn [fold_left]; [exact Hu|].
  apply IH. unfold cterm. rewrite !(nth_vscale c b). unfold fp_mul.
  destruct (i <=? k)%nat; rewrite Hu, mod_eqp; apply eqp_of_eq; ring.
Qed.

Lemma length_negacyclic_explicit a b : length (negacyclic_explicit a b) = 64%nat.
Proof. unfold negacyclic_explicit. rewrite map_length. apply seq_length. Qed.

Lemma explicit_linear_l b : linear64 (fun a => negacyclic_explicit a b).
Proof.
  constructor.
  - intros a a' Ha Ha'. unfold negacyclic_explicit, vadd at 2. rewrite map2_same_map. apply map_ext. intros k.
    rewrite !negacyclic_coeff_cterm. unfold fp_add.
    pose proof (fold_cterm_add_l a a' b k (seq 0 64) 0 0 0 ltac:(congruence) (eqp_refl _)) as E.
    unfold eqp in E. rewrite E.
    generalize (fold_left (cterm a b k) (seq 0 64) 0) (fold_left (cterm a' b k) (seq 0 64) 0). intros x x'. eqp_ring.
  - intros c a Ha. unfold negacyclic_explicit, vscale at 2. rewrite map_map. apply map_ext. intros k.
    rewrite !negacyclic_coeff_cterm. unfold fp_mul.
    pose proof (fold_cterm_scale_l c a b k (seq 0 64) 0 0 ltac:(apply eqp_of_eq; ring)) as E.
    unfold eqp in E. rewrite E.
    generalize (fold_left (cterm a b k) (seq 0 64) 0). intros x. eqp_ring.
  - intros a _. apply length_negacyclic_explicit.
Qed.
Lemma explicit_linear_r a : linear64 (fun b => negacyclic_explicit a b).
Proof.
  constructor.
  - intros b b' Hb Hb'. unfold negacyclic_explicit, vadd at 2. rewrite map2_same_map. apply map_ext. intros k.
    rewrite !negacyclic_coeff_cterm. unfold fp_add.
    pose proof (fold_cterm_add_r a b b' k (seq 0 64) 0 0 0 ltac:(congruence) (eqp_refl _)) as E.
    unfold eqp in E. rewrite E.
    generalize (fold_left (cterm a b k) (seq 0 64) 0) (fold_left (cterm a b' k) (seq 0 64) 0). intros x x'. eqp_ring.
  - intros c b Hb. unfold negacyclic_explicit, vscale at 2. rewrite map_map. apply map_ext. intros k.
    rewrite !negacyclic_coeff_cterm. unfold fp_mul.
    pose proof (fold_cterm_scale_r c a b k (seq 0 64) 0 0 ltac:(apply eqp_of_eq; ring)) as E.
    unfold eqp in E. rewrite E.
    generalize (fold_left (cterm a b k) (seq 0 64) 0). intros x. eqp_ring.
  - intros b _. apply length_negacyclic_explicit.
Qed.

(* ------------------------------------------------------------------ the transform-domain product is bilinear *)
Definition mul_pure (a b : list Z) : list Z := intt_pure (map2 fp_mul (ntt_pure a) (ntt_pure b)).

Lemma hadamard_add_l v v' w :
  length v = length v' -> length v = length w ->
  map2 fp_mul (vadd v v') w = vadd (map2 fp_mul v w) (map2 fp_mul v' w).
Proof.
  revert v' w; induction v as [|x v IH]; intros [|x' v'] [|y w] H1 H2; cbn [length] in *; try discriminate; try reflexivity.
  unfold vadd in *. cbn [map2]. f_equal; [fp_ring | apply IH; lia].
Qed.
Lemma hadamard_scale_l c v w : map2 fp_mul (vscale c v) w = vscale c (map2 fp_mul v w).
Proof.
  revert w; induction v as [|x v IH]; intros [|y w]; try reflexivity.
  unfold vscale in *. cbn [map map2]. f_equal; [fp_ring | apply IH].
Qed.
Lemma hadamard_comm v w : map2 fp_mul v w = map2 fp_mul w v.
Proof.
  revert w; induction v as [|x v IH]; intros [|y w]; try reflexivity. cbn [map2]. f_equal; [apply fp_mul_comm | apply IH].
Qed.

Lemma mul_pure_linear_l b : length b = 64%nat -> linear64 (fun a => mul_pure a b).
Proof.
  intros Hb. unfold mul_pure.
  apply (linear64_compose (fun a => map2 fp_mul (ntt_pure a) (ntt_pure b)) intt_pure); [|exact intt_pure_linear].
  apply (linear64_compose ntt_pure (fun v => map2 fp_mul v (ntt_pure b))); [exact ntt_pure_linear|].
  constructor.
  - intros v v' Hv Hv'. apply hadamard_add_l; [congruence | rewrite length_ntt_pure; congruence].
  - intros c v _. apply hadamard_scale_l.
  - intros v Hv. rewrite length_map2; [exact Hv | rewrite length_ntt_pure; congruence].
Qed.
Lemma mul_pure_comm a b : mul_pure a b = mul_pure b a.
Proof. unfold mul_pure. rewrite hadamard_comm. reflexivity. Qed.
Lemma mul_pure_linear_r a : length a = 64%nat -> linear64 (fun b => mul_pure a b).
Proof.
  intros Ha. pose proof (mul_pure_linear_l a Ha) as L. destruct L as [L1 L2 L3]. constructor.
  - intros b b' Hb Hb'. rewrite !(mul_pure_comm a). apply L1; assumption.
  - intros c b Hb. rewrite !(mul_pure_comm a). apply L2; assumption.
  - intros b Hb. rewrite (mul_pure_comm a). apply L3; assumption.
Qed.
Lemma mul_pure_negacyclic a b : ring_elem a -> ring_elem b -> mul_pure a b = negacyclic a b.
Proof.
  intros Ha Hb. unfold mul_pure. rewrite (hadamard_ntt_pure a b Ha Hb). apply intt_ntt_pure.
  apply ring_elem_negacyclic; apply ring_elem_length; assumption.
Qed.

(* ------------------------------------------------------------------ the 64 x 64 pairs of unit vectors *)
Lemma unit_pairs_computed :
  forallb (fun k => forallb (fun j =>
    list_eqb Z.eqb (negacyclic (unit_vec 64 k) (unit_vec 64 j)) (negacyclic_explicit (unit_vec 64 k) (unit_vec 64 j)))
    (seq 0 64)) (seq 0 64) = true.
Proof.
  (* evaluated once, by the kernel's VM at Qed (vm_compute + reflexivity would evaluate the 4096 pairs twice) *)
  vm_cast_no_check (eq_refl true).
Qed.
Lemma unit_pairs k j :
  (k < 64)%nat -> (j < 64)%nat ->
  negacyclic (unit_vec 64 k) (unit_vec 64 j) = negacyclic_explicit (unit_vec 64 k) (unit_vec 64 j).
Proof.
  intros Hk Hj. apply zlist_eqb_eq.
  pose proof unit_pairs_computed as H. rewrite forallb_forall in H.
  specialize (H k ltac:(apply in_seq; lia)). rewrite forallb_forall in H. apply H. apply in_seq. lia.
Qed.

(* negacyclic_explicit_eq: the index formula and the polynomial formulation coincide on all ring elements *)
Theorem negacyclic_explicit_eq a b :
  ring_elem a -> ring_elem b -> negacyclic_explicit a b = negacyclic a b.
Proof.
  intros Ha Hb. rewrite <- (mul_pure_negacyclic a b Ha Hb). symmetry.
  revert a Ha. apply (linear64_ext (fun a => mul_pure a b) (fun a => negacyclic_explicit a b)).
  - apply mul_pure_linear_l. apply ring_elem_length; exact Hb.
  - apply explicit_linear_l.
  - intros k Hk. revert b Hb.
    apply (linear64_ext (fun b => mul_pure (unit_vec 64 k) b) (fun b => negacyclic_explicit (unit_vec 64 k) b)).
    + apply mul_pure_linear_r. apply length_unit_vec; exact Hk.
    + apply explicit_linear_r.
    + intros j Hj. rewrite mul_pure_negacyclic by (apply ring_elem_unit; assumption). apply unit_pairs; assumption.
Qed.

Theorem ring_mul_explicit a b :
  ring_elem a -> ring_elem b -> re_mul a b = Some (negacyclic_explicit a b).
Proof. intros Ha Hb. rewrite (negacyclic_explicit_eq a b Ha Hb). apply ring_mul_negacyclic; assumption. Qed.
