(* proofs/LatticeKem.v - C18: ciphertext <-> array round trips, message embedding decodes under lane-wise
   noise below the threshold, and the KEM theorems (what acceptance by `dec` implies; dec(enc) under the
   decoding condition).  SHAKE256 and SHA3-256 are arbitrary functions throughout. *)
From Coq Require Import ZArith Bool List Lia Morphisms Setoid.
From TF Require Import BFieldGen LatticeGen Lattice LatticeSpec LatticeBase LatticeNtt LatticeModule.
Import ListNotations.
Open Scope Z_scope.
Ltac Zify.zify_post_hook ::= Z.div_mod_to_equations.

(* ------------------------------------------------------------------ chunks *)
Lemma chunks_go_concat {A} (n : nat) (l : list (list A)) fuel :
  (0 < n)%nat -> Forall (fun c => length c = n) l -> (length (concat l) <= fuel)%nat ->
  chunks_go fuel n (concat l) = l.
Proof.
  intros Hn. revert fuel; induction l as [|x l IH]; intros fuel Hf Hfuel.
  - destruct fuel; reflexivity.
  - inversion Hf as [|? ? Hx Hl]; subst. cbn [concat] in *. rewrite app_length in Hfuel.
    destruct fuel as [|fuel]; [lia|]. cbn [chunks_go].
    destruct x as [|x0 x]; [cbn [length] in Hn; lia|].
    cbn [app]. change (x0 :: x ++ concat l) with ((x0 :: x) ++ concat l).
    rewrite firstn_app, skipn_app, Nat.sub_diag, firstn_all, skipn_all. cbn [firstn skipn app].
    rewrite app_nil_r. f_equal. apply IH; [exact Hl | lia].
Qed.
Lemma chunks_concat {A} (n : nat) (l : list (list A)) :
  (0 < n)%nat -> Forall (fun c => length c = n) l -> chunks n (concat l) = l.
Proof. intros Hn Hf. unfold chunks. apply chunks_go_concat; auto. Qed.

Lemma concat_chunks_go {A} (n : nat) fuel (v : list A) :
  (0 < n)%nat -> (length v <= fuel)%nat -> concat (chunks_go fuel n v) = v.
Proof.
  intros Hn. revert v; induction fuel as [|fuel IH]; intros v Hf.
  - destruct v; [reflexivity | cbn [length] in Hf; lia].
  - cbn [chunks_go]. destruct v as [|x v]; [reflexivity|]. cbn [concat].
    rewrite IH; [apply firstn_skipn|]. rewrite skipn_length. cbn [length] in *. lia.
Qed.
Lemma chunks_go_exact {A} (n k : nat) fuel (v : list A) :
  (0 < n)%nat -> length v = (k * n)%nat -> (length v <= fuel)%nat ->
  Forall (fun c => length c = n) (chunks_go fuel n v) /\ length (chunks_go fuel n v) = k.
Proof.
  intros Hn. revert fuel v; induction k as [|k IH]; intros fuel v Hv Hf.
  - destruct v; [|cbn [length] in Hv; lia]. destruct fuel; cbn [chunks_go]; auto.
  - destruct fuel as [|fuel]; [lia|]. destruct v as [|x v]; [cbn [length] in Hv; lia|].
    cbn [chunks_go]. destruct (IH fuel (skipn n (x :: v))) as [F L].
    + rewrite skipn_length. lia.
    + rewrite skipn_length. cbn [length] in *. lia.
    + split; [constructor; [rewrite firstn_length; lia | exact F] | cbn [length]; rewrite L; reflexivity].
Qed.

(* ------------------------------------------------------------------ Ciphertext <-> [BFieldElement; 320] *)
Definition ct_wf (c : ciphertext) : Prop :=
  length (fst c) = 4%nat /\ Forall (fun a => length a = 64%nat) (fst c) /\
  exists m, snd c = [m] /\ length m = 64%nat.

Lemma forallb_length_eqb (l : list (list Z)) n :
  Forall (fun c => length c = n) l -> forallb (fun c => (length c =? n)%nat) l = true.
Proof. induction 1 as [|x l Hx Hl IH]; cbn [forallb]; auto. rewrite IH. rewrite (proj2 (Nat.eqb_eq _ _) Hx). reflexivity. Qed.

Lemma ct_of_array_ok v :
  length v = 320%nat ->
  exists c, ct_of_array v = Some c /\ ct_wf c /\ array_of_ct c = Some v.
Proof.
  intros Hv. unfold ct_of_array, slice.
  change (SECRET_VECTOR_N * RING_SIZE)%nat with 256%nat. change RING_SIZE with 64%nat. change SECRET_VECTOR_N with 4%nat.
  rewrite Hv. change (256 <=? 320)%nat with true. cbv iota. change (skipn 0 v) with v. rewrite Nat.sub_0_r.
  assert (L1 : length (firstn 256 v) = (4 * 64)%nat) by (rewrite firstn_length; lia).
  assert (L2 : length (skipn 256 v) = 64%nat) by (rewrite skipn_length; lia).
  destruct (chunks_go_exact 64 4 (length (firstn 256 v)) (firstn 256 v)) as [F L]; try lia.
  unfold chunks. rewrite (forallb_length_eqb _ 64 F), L, L2. cbn [Nat.eqb andb].
  eexists. split; [reflexivity|]. split.
  - unfold ct_wf. cbn [fst snd]. split; [exact L|]. split; [exact F|]. exists (skipn 256 v). auto.
  - unfold array_of_ct. cbn [fst snd concat]. rewrite app_nil_r.
    rewrite concat_chunks_go by lia. rewrite firstn_skipn. rewrite Hv. reflexivity.
Qed.

Lemma array_of_ct_ok c :
  ct_wf c -> exists v, array_of_ct c = Some v /\ length v = 320%nat /\ ct_of_array v = Some c.
Proof.
  destruct c as [bg bga_m]. intros (L & F & m & Em & Lm). cbn [fst snd] in *. subst bga_m.
  assert (Lc : length (concat bg) = 256%nat).
  { destruct bg as [|a [|b [|c [|d [|? ?]]]]]; cbn [length] in L; try discriminate.
    inversion F as [|? ? Ha F1]; subst. inversion F1 as [|? ? Hb F2]; subst.
    inversion F2 as [|? ? Hc F3]; subst. inversion F3 as [|? ? Hd F4]; subst.
    cbn [concat]. rewrite !app_length, Ha, Hb, Hc, Hd. reflexivity. }
  unfold array_of_ct. cbn [fst snd concat]. rewrite app_nil_r.
  assert (Lv : length (concat bg ++ m) = 320%nat) by (rewrite app_length, Lc, Lm; reflexivity).
  rewrite Lv. change (320 =? CIPHERTEXT_SIZE)%nat with true.
  eexists. split; [reflexivity|]. split; [exact Lv|].
  unfold ct_of_array, slice.
  change (SECRET_VECTOR_N * RING_SIZE)%nat with 256%nat. change RING_SIZE with 64%nat. change SECRET_VECTOR_N with 4%nat.
  rewrite Lv. change (256 <=? 320)%nat with true. cbv iota. change (skipn 0 (concat bg ++ m)) with (concat bg ++ m).
  rewrite Nat.sub_0_r.
  assert (F1 : firstn 256 (concat bg ++ m) = concat bg).
  { rewrite <- Lc. rewrite firstn_app, Nat.sub_diag, firstn_all. cbn [firstn]. apply app_nil_r. }
  assert (F2 : skipn 256 (concat bg ++ m) = m).
  { rewrite <- Lc. rewrite skipn_app, Nat.sub_diag, skipn_all. reflexivity. }
  rewrite F1, F2.
  rewrite (chunks_concat 64 bg) by (try lia; exact F).
  rewrite (forallb_length_eqb _ 64 F), L, Lm. reflexivity.
Qed.

(* ------------------------------------------------------------------ embedding and extraction *)
Definition bitv (m k : Z) : Z := Z.land (Z.shiftr m k) 1.
Lemma bitv_range m k : 0 <= bitv m k <= 1.
Proof.
  unfold bitv.
  assert (E : Z.land (Z.shiftr m k) 1 = Z.shiftr m k mod 2).
  { change 1 with (Z.ones 1). rewrite Z.land_ones by lia. reflexivity. }
  rewrite E. pose proof (Z.mod_pos_bound (Z.shiftr m k) 2 ltac:(lia)). lia.
Qed.

Lemma embed_nibble_eq m s :
  embed_nibble m s = bitv m s * 32768 + bitv m (s + 1) * 2147483648
                     + bitv m (s + 2) * 140737488355328 + bitv m (s + 3) * 9223372036854775808.
Proof.
  cbv [embed_nibble LANES EMBED_OFFSET LANE_BITS seq fold_left].
  change (Z.of_nat 0) with 0. change (Z.of_nat 1) with 1. change (Z.of_nat 2) with 2. change (Z.of_nat 3) with 3.
  rewrite Z.add_0_r. rewrite !Z.shiftl_mul_pow2 by lia.
  change (2 ^ (15 + 16 * 0)) with 32768. change (2 ^ (15 + 16 * 1)) with 2147483648.
  change (2 ^ (15 + 16 * 2)) with 140737488355328. change (2 ^ (15 + 16 * 3)) with 9223372036854775808.
  unfold bitv. ring.
Qed.

Lemma extract_lanes_eq x sh :
  0 <= x ->
  extract_lanes EXTRACT_LANES x sh =
  Z.lor (Z.shiftl (lane_bit (x mod 65536)) sh)
   (Z.lor (Z.shiftl (lane_bit ((x / 65536) mod 65536)) (sh + 1))
    (Z.lor (Z.shiftl (lane_bit ((x / 4294967296) mod 65536)) (sh + 1 + 1))
     (Z.lor (Z.shiftl (lane_bit ((x / 281474976710656) mod 65536)) (sh + 1 + 1 + 1)) 0))).
Proof.
  intros Hx. change EXTRACT_LANES with 4%nat. cbn [extract_lanes].
  change LANE_MASK with (Z.ones 16). change EXTRACT_SHIFT with 16.
  rewrite !Z.land_ones by lia. rewrite !Z.shiftr_div_pow2 by lia. change (2 ^ 16) with 65536.
  rewrite !Z.div_div by lia.
  change (65536 * 65536) with 4294967296. change (4294967296 * 65536) with 281474976710656. reflexivity.
Qed.

Lemma lane_decode b0 b1 b2 b3 d0 d1 d2 d3 x :
  0 <= b0 <= 1 -> 0 <= b1 <= 1 -> 0 <= b2 <= 1 -> 0 <= b3 <= 1 ->
  -16381 <= d0 <= 16381 -> -16381 <= d1 <= 16381 -> -16381 <= d2 <= 16381 -> -16381 <= d3 <= 16381 ->
  x = (b0 * 32768 + b1 * 2147483648 + b2 * 140737488355328 + b3 * 9223372036854775808
       + (d0 + d1 * 65536 + d2 * 4294967296 + d3 * 281474976710656)) mod 18446744069414584321 ->
  lane_bit (x mod 65536) = b0 /\ lane_bit ((x / 65536) mod 65536) = b1 /\
  lane_bit ((x / 4294967296) mod 65536) = b2 /\ lane_bit ((x / 281474976710656) mod 65536) = b3.
Proof.
  intros B0 B1 B2 B3 H0 H1 H2 H3 Hx.
  unfold lane_bit. change EXTRACT_THRESHOLD with 16384. change EXTRACT_WRAP with 65536.
  assert (E0 : b0 = 0 \/ b0 = 1) by lia. assert (E1 : b1 = 0 \/ b1 = 1) by lia.
  assert (E2 : b2 = 0 \/ b2 = 1) by lia. assert (E3 : b3 = 0 \/ b3 = 1) by lia.
  destruct E0 as [-> | ->], E1 as [-> | ->], E2 as [-> | ->], E3 as [-> | ->];
  (repeat split;
   match goal with |- (if ?c then 0 else 1) = _ =>
     let Hc := fresh in destruct c eqn:Hc; [ | ];
     rewrite ?orb_true_iff, ?orb_false_iff, ?Z.ltb_lt, ?Z.ltb_ge in Hc; lia end).
Qed.

(* lane-wise noise: a field element that is a combination of the four 16-bit lanes with coefficients of
   absolute value at most B (signed: negative lane coefficients are allowed) *)
Definition lane_noise (B e : Z) : Prop :=
  exists d0 d1 d2 d3,
    - B <= d0 <= B /\ - B <= d1 <= B /\ - B <= d2 <= B /\ - B <= d3 <= B /\
    e = (d0 + d1 * 65536 + d2 * 4294967296 + d3 * 281474976710656) mod P.
(* the largest uniform bound for which decoding is guaranteed: threshold 2^14 minus 3
   (one unit for the strict comparison, one for a borrow from the lane below, one for the reduction modulo P) *)
Definition NOISE_BOUND : Z := EXTRACT_THRESHOLD - 3.

Lemma nibble_decodes m s e sh :
  lane_noise NOISE_BOUND e ->
  extract_lanes EXTRACT_LANES (fp_add (fp_new (embed_nibble m s)) e) sh =
  Z.lor (Z.shiftl (bitv m s) sh)
   (Z.lor (Z.shiftl (bitv m (s + 1)) (sh + 1))
    (Z.lor (Z.shiftl (bitv m (s + 2)) (sh + 1 + 1))
     (Z.lor (Z.shiftl (bitv m (s + 3)) (sh + 1 + 1 + 1)) 0))).
Proof.
  intros (d0 & d1 & d2 & d3 & H0 & H1 & H2 & H3 & He).
  change NOISE_BOUND with 16381 in *. change (- 16381) with (-16381) in *.
  set (x := fp_add (fp_new (embed_nibble m s)) e).
  assert (Hx0 : 0 <= x) by (apply fp_add_canon).
  rewrite (extract_lanes_eq x sh Hx0).
  assert (Ex : x = (bitv m s * 32768 + bitv m (s + 1) * 2147483648 + bitv m (s + 2) * 140737488355328
                    + bitv m (s + 3) * 9223372036854775808
                    + (d0 + d1 * 65536 + d2 * 4294967296 + d3 * 281474976710656)) mod 18446744069414584321).
  { unfold x. rewrite He, embed_nibble_eq. change 18446744069414584321 with P. fp_ring. }
  destruct (lane_decode _ _ _ _ d0 d1 d2 d3 x (bitv_range m s) (bitv_range m (s + 1)) (bitv_range m (s + 2))
              (bitv_range m (s + 3)) H0 H1 H2 H3 Ex) as (E0 & E1 & E2 & E3).
  rewrite E0, E1, E2, E3. reflexivity.
Qed.

Definition recompose (m : Z) : Z :=
  Z.lor
   (Z.lor (Z.shiftl (bitv m 0) 0) (Z.lor (Z.shiftl (bitv m (0 + 1)) (0 + 1))
     (Z.lor (Z.shiftl (bitv m (0 + 2)) (0 + 1 + 1)) (Z.lor (Z.shiftl (bitv m (0 + 3)) (0 + 1 + 1 + 1)) 0))))
   (Z.lor (Z.shiftl (bitv m 4) 4) (Z.lor (Z.shiftl (bitv m (4 + 1)) (4 + 1))
     (Z.lor (Z.shiftl (bitv m (4 + 2)) (4 + 1 + 1)) (Z.lor (Z.shiftl (bitv m (4 + 3)) (4 + 1 + 1 + 1)) 0)))).
Lemma recompose_all : forallb (fun k => recompose (Z.of_nat k) =? Z.of_nat k) (seq 0 256) = true.
Proof. vm_compute. reflexivity. Qed.
Lemma recompose_byte m : byte m -> recompose m = m.
Proof.
  intros [H0 H1]. rewrite <- (Z2Nat.id m H0). apply Z.eqb_eq.
  pose proof recompose_all as H. rewrite forallb_forall in H. apply H. apply in_seq. lia.
Qed.

(* embed_extract: every byte of the message is recovered when each of the 64 coefficients is disturbed by
   lane-wise noise of absolute value at most 2^14 - 3 per lane *)
Theorem embed_extract msg e :
  Forall byte msg -> length e = (2 * length msg)%nat -> Forall (lane_noise NOISE_BOUND) e ->
  extract_msg (re_add (embed_msg msg) e) = Some msg.
Proof.
  revert e; induction msg as [|m msg IH]; intros e Hm Hl He.
  - destruct e; [reflexivity | cbn [length] in Hl; lia].
  - destruct e as [|e0 [|e1 e]]; cbn [length] in Hl; try lia.
    inversion Hm as [|? ? Hb Hm']; subst. inversion He as [|? ? He0 He']; subst.
    inversion He' as [|? ? He1 He'']; subst.
    unfold embed_msg. cbn [flat_map app]. fold (embed_msg msg). unfold re_add. cbn [map2]. fold (re_add (embed_msg msg) e).
    cbn [extract_msg]. rewrite IH by (try assumption; lia).
    change HI_NIBBLE_SHIFT with 4. change EXTRACT_HI_SHIFT with 4.
    rewrite (nibble_decodes m 0 e0 0 He0), (nibble_decodes m 4 e1 4 He1).
    f_equal. f_equal. apply (recompose_byte m Hb).
Qed.

Lemma lane_noise_example :
  Forall byte [90; 255] /\ Forall (lane_noise (EXTRACT_THRESHOLD - 3)) [16381; P - 16381; 0; (16381 * 65536) mod P].
Proof.
  split; [repeat constructor; unfold byte; lia|].
  change (EXTRACT_THRESHOLD - 3) with 16381.
  repeat constructor.
  - exists 16381, 0, 0, 0. repeat split; (lia || reflexivity).
  - exists (-16381), 0, 0, 0. repeat split; (lia || reflexivity).
  - exists 0, 0, 0, 0. repeat split; (lia || reflexivity).
  - exists 0, 16381, 0, 0. repeat split; (lia || reflexivity).
Qed.

(* ------------------------------------------------------------------ KEM *)
Lemma me_eqb_eq a b : me_eqb a b = true -> a = b.
Proof. apply list_eqb_eq. exact zlist_eqb_eq. Qed.
Lemma me_eqb_refl a : me_eqb a a = true.
Proof. apply list_eqb_refl. apply list_eqb_refl. apply Z.eqb_refl. Qed.
Lemma ct_eqb_eq a b : ct_eqb a b = true -> a = b.
Proof.
  destruct a as [a1 a2], b as [b1 b2]. unfold ct_eqb. cbn [fst snd]. intros H. apply andb_prop in H.
  destruct H as [H1 H2]. apply me_eqb_eq in H1. apply me_eqb_eq in H2. congruence.
Qed.
Lemma ct_eqb_refl a : ct_eqb a a = true.
Proof. unfold ct_eqb. rewrite !me_eqb_refl. reflexivity. Qed.

Section KEMProofs.
  Variable shake256 : list Z -> Z -> list Z.
  Variable sha3_256 : list Z -> list Z.

  (* the honest re-encryption of a payload under the public key belonging to a secret key *)
  Definition reenc (sk : secret_key) (payload : list Z) : option ciphertext :=
    match derive_public_key shake256 (fst sk) (snd sk) with
    | None => None
    | Some pk => generate_ciphertext_derandomized shake256 pk payload
    end.

  (* dec_accepts_only_reencryptions *)
  Theorem dec_accepts_only_reencryptions sk c k :
    dec shake256 sha3_256 sk c = Some (Some k) ->
    exists payload,
      dec_payload shake256 sk c = Some payload /\ reenc sk payload = Some c /\ k = sha3_256 payload.
  Proof.
    unfold dec, reenc. intros H.
    destruct (dec_payload shake256 sk c) as [payload|]; [|discriminate].
    destruct (derive_public_key shake256 (fst sk) (snd sk)) as [pk|]; [|discriminate].
    destruct (generate_ciphertext_derandomized shake256 pk payload) as [regen|] eqn:G; [|discriminate].
    destruct (ct_eqb regen c) eqn:E; [|discriminate].
    apply ct_eqb_eq in E. subst regen. exists payload. inversion H. rewrite G. repeat split; reflexivity.
  Qed.

  (* conversely, dec accepts exactly when the ciphertext is the re-encryption of the payload it decodes to *)
  Theorem dec_characterisation sk c :
    dec shake256 sha3_256 sk c =
    match dec_payload shake256 sk c with
    | None => None
    | Some payload =>
        match reenc sk payload with
        | None => None
        | Some c' => if ct_eqb c' c then Some (Some (sha3_256 payload)) else Some None
        end
    end.
  Proof.
    unfold dec, reenc. destruct (dec_payload shake256 sk c); [|reflexivity].
    destruct (derive_public_key shake256 (fst sk) (snd sk)); reflexivity.
  Qed.

  (* a ciphertext different from an honest one is accepted only if it is itself the honest encapsulation of
     ANOTHER payload (and then the key is the hash of that other payload) *)
  Theorem tampered_accepted_only_as_other_encapsulation sk payload c c' k' :
    reenc sk payload = Some c -> c' <> c ->
    dec shake256 sha3_256 sk c' = Some (Some k') ->
    exists payload', payload' <> payload /\ reenc sk payload' = Some c' /\ k' = sha3_256 payload'.
  Proof.
    intros Hc Hne Hd. destruct (dec_accepts_only_reencryptions sk c' k' Hd) as (p' & _ & Hr & Hk).
    exists p'. split; [|split; assumption]. intros ->. rewrite Hc in Hr. congruence.
  Qed.

  (* keygen produces the public key that dec re-derives *)
  Lemma keygen_reenc randomness sk pk payload :
    keygen shake256 randomness = Some (sk, pk) ->
    reenc sk payload = generate_ciphertext_derandomized shake256 pk payload.
  Proof.
    unfold keygen, reenc. intros H.
    destruct (derive_public_key shake256 _ _) as [pk'|] eqn:E; [|discriminate].
    inversion H; subst. cbn [fst snd]. rewrite E. reflexivity.
  Qed.

  (* dec (enc ..) = Some key, CONDITIONAL on the decoding condition: the payload extracted from the honest
     ciphertext is the encapsulated payload (which embed_extract guarantees under the lane-noise bound) *)
  Theorem dec_enc_partial kg_randomness enc_randomness sk pk k ct :
    keygen shake256 kg_randomness = Some (sk, pk) ->
    enc shake256 sha3_256 pk enc_randomness = Some (k, ct) ->
    dec_payload shake256 sk ct = Some (shake256 enc_randomness ENC_OUTPUT_LENGTH) ->
    dec shake256 sha3_256 sk ct = Some (Some k).
  Proof.
    intros Hk He Hp. rewrite dec_characterisation, Hp. rewrite (keygen_reenc _ _ _ _ Hk).
    unfold enc in He.
    destruct (generate_ciphertext_derandomized shake256 pk (shake256 enc_randomness ENC_OUTPUT_LENGTH)) as [c|]; [|discriminate].
    inversion He; subst. rewrite ct_eqb_refl. reflexivity.
  Qed.

  (* decapsulation under ANY key (in particular an unrelated one) accepts only re-encryptions under that key *)
  Theorem dec_other_key sk2 c k :
    dec shake256 sha3_256 sk2 c = Some (Some k) ->
    exists payload, reenc sk2 payload = Some c /\ k = sha3_256 payload.
  Proof.
    intros H. destruct (dec_accepts_only_reencryptions sk2 c k H) as (p & _ & Hr & Hk). exists p. auto.
  Qed.
End KEMProofs.
