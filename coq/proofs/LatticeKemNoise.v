(* proofs/LatticeKemNoise.v - C18: decapsulation of an honest ciphertext recovers the payload plus the noise
   term  b.c - d.a  (sums of negacyclic products of the short secret vectors); hence dec(enc) = key whenever
   that noise term is lane-wise below the decoding bound.  The algebra is done slot by slot in the NTT domain. *)
From Coq Require Import ZArith Bool List Lia Morphisms Setoid.
From TF Require Import BFieldGen LatticeGen Lattice LatticeSpec LatticeBase LatticeNtt LatticeModule LatticeKem.
Import ListNotations.
Open Scope Z_scope.

(* ------------------------------------------------------------------ vectors as functions of the slot *)
Lemma as_map (l : list Z) : length l = 64%nat -> l = map (fun k => nth k l 0) (seq 0 64).
Proof.
  intros H. apply (nth_ext _ _ 0 ((fun k => nth k l 0) 0%nat)).
  - rewrite map_length, seq_length. exact H.
  - intros n Hn. rewrite H in Hn. rewrite (map_nth (fun k => nth k l 0) (seq 0 64) 0%nat n).
    rewrite seq_nth by exact Hn. reflexivity.
Qed.
Lemma re_zero_as_map : re_zero = map (fun _ => 0) (seq 0 64).
Proof. reflexivity. Qed.
Definition acc4 (x0 x1 x2 x3 : list Z) : list Z := re_add (re_add (re_add (re_add re_zero x0) x1) x2) x3.

Section Identity.
  Variables g00 g01 g02 g03 g10 g11 g12 g13 g20 g21 g22 g23 g30 g31 g32 g33 : nat -> Z.
  Variables a0 a1 a2 a3 b0 b1 b2 b3 c0 c1 c2 c3 d0 d1 d2 d3 m : nat -> Z.
  Variable s : list nat.
  Let L (f : nat -> Z) := map f s.
  Let H := re_hadamard.
  Let Z0 := map (fun _ : nat => 0) s.
  Let A4 (x0 x1 x2 x3 : list Z) := re_add (re_add (re_add (re_add Z0 x0) x1) x2) x3.
  Lemma kem_identity_slots :
    let ga0 := re_add (A4 (H (L g00) (L a0)) (H (L g01) (L a1)) (H (L g02) (L a2)) (H (L g03) (L a3))) (L c0) in
    let ga1 := re_add (A4 (H (L g10) (L a0)) (H (L g11) (L a1)) (H (L g12) (L a2)) (H (L g13) (L a3))) (L c1) in
    let ga2 := re_add (A4 (H (L g20) (L a0)) (H (L g21) (L a1)) (H (L g22) (L a2)) (H (L g23) (L a3))) (L c2) in
    let ga3 := re_add (A4 (H (L g30) (L a0)) (H (L g31) (L a1)) (H (L g32) (L a2)) (H (L g33) (L a3))) (L c3) in
    let bg0 := re_add (A4 (H (L b0) (L g00)) (H (L b1) (L g10)) (H (L b2) (L g20)) (H (L b3) (L g30))) (L d0) in
    let bg1 := re_add (A4 (H (L b0) (L g01)) (H (L b1) (L g11)) (H (L b2) (L g21)) (H (L b3) (L g31))) (L d1) in
    let bg2 := re_add (A4 (H (L b0) (L g02)) (H (L b1) (L g12)) (H (L b2) (L g22)) (H (L b3) (L g32))) (L d2) in
    let bg3 := re_add (A4 (H (L b0) (L g03)) (H (L b1) (L g13)) (H (L b2) (L g23)) (H (L b3) (L g33))) (L d3) in
    let bgam := re_add (A4 (H (L b0) ga0) (H (L b1) ga1) (H (L b2) ga2) (H (L b3) ga3)) (L m) in
    let bga := A4 (H bg0 (L a0)) (H bg1 (L a1)) (H bg2 (L a2)) (H bg3 (L a3)) in
    re_add (re_sub bgam bga) (A4 (H (L d0) (L a0)) (H (L d1) (L a1)) (H (L d2) (L a2)) (H (L d3) (L a3)))
    = re_add (L m) (A4 (H (L b0) (L c0)) (H (L b1) (L c1)) (H (L b2) (L c2)) (H (L b3) (L c3))).
  Proof.
    cbv zeta. unfold A4, H, L, Z0, re_add, re_sub, re_hadamard.
    repeat rewrite map2_same_map.
    apply map_ext. intros k. fp_ring.
  Qed.
End Identity.

(* the same on lists of 64 coefficients *)
Lemma kem_identity g00 g01 g02 g03 g10 g11 g12 g13 g20 g21 g22 g23 g30 g31 g32 g33
      a0 a1 a2 a3 b0 b1 b2 b3 c0 c1 c2 c3 d0 d1 d2 d3 m :
  Forall (fun l => length l = 64%nat)
    [g00; g01; g02; g03; g10; g11; g12; g13; g20; g21; g22; g23; g30; g31; g32; g33;
     a0; a1; a2; a3; b0; b1; b2; b3; c0; c1; c2; c3; d0; d1; d2; d3; m] ->
  let H := re_hadamard in
  let ga0 := re_add (acc4 (H g00 a0) (H g01 a1) (H g02 a2) (H g03 a3)) c0 in
  let ga1 := re_add (acc4 (H g10 a0) (H g11 a1) (H g12 a2) (H g13 a3)) c1 in
  let ga2 := re_add (acc4 (H g20 a0) (H g21 a1) (H g22 a2) (H g23 a3)) c2 in
  let ga3 := re_add (acc4 (H g30 a0) (H g31 a1) (H g32 a2) (H g33 a3)) c3 in
  let bg0 := re_add (acc4 (H b0 g00) (H b1 g10) (H b2 g20) (H b3 g30)) d0 in
  let bg1 := re_add (acc4 (H b0 g01) (H b1 g11) (H b2 g21) (H b3 g31)) d1 in
  let bg2 := re_add (acc4 (H b0 g02) (H b1 g12) (H b2 g22) (H b3 g32)) d2 in
  let bg3 := re_add (acc4 (H b0 g03) (H b1 g13) (H b2 g23) (H b3 g33)) d3 in
  let bgam := re_add (acc4 (H b0 ga0) (H b1 ga1) (H b2 ga2) (H b3 ga3)) m in
  let bga := acc4 (H bg0 a0) (H bg1 a1) (H bg2 a2) (H bg3 a3) in
  re_add (re_sub bgam bga) (acc4 (H d0 a0) (H d1 a1) (H d2 a2) (H d3 a3))
  = re_add m (acc4 (H b0 c0) (H b1 c1) (H b2 c2) (H b3 c3)).
Proof.
  intros F. cbv zeta. unfold acc4.
  repeat match type of F with
         | Forall _ (?l :: _) =>
             let Hl := fresh "Hl" in let F' := fresh "F" in
             inversion F as [|? ? Hl F']; subst; clear F; rename F' into F;
             rewrite (as_map l Hl); clear Hl
         end.
  rewrite re_zero_as_map.
  apply kem_identity_slots.
Qed.

(* ------------------------------------------------------------------ well-formedness of sampled elements *)
Lemma opt_all_inv {A B} (f : A -> option B) l m :
  opt_all (map f l) = Some m -> length m = length l /\ forall x, In x m -> exists k, In k l /\ f k = Some x.
Proof.
  revert m; induction l as [|k l IH]; intros m H; cbn [map opt_all] in H.
  - inversion H. split; [reflexivity | intros x []].
  - destruct (f k) as [y|] eqn:E; [|discriminate].
    destruct (opt_all (map f l)) as [r|]; [|discriminate]. inversion H; subst.
    destruct (IH r eq_refl) as [L I]. split; [cbn [length]; rewrite L; reflexivity|].
    intros x [<- | Hx].
    + exists k. split; [left; reflexivity | exact E].
    + destruct (I x Hx) as [k' [Hk' E']]. exists k'. split; [right; exact Hk' | exact E'].
Qed.

Lemma re_sample_short_wf r v : re_sample_short r = Some v -> ring_elem v.
Proof.
  unfold re_sample_short. destruct (forallb _ _); [|discriminate].
  destruct (length (map sample_short_bfield_element (chunks SHORT_BYTES r)) =? RING_SIZE)%nat eqn:E; [|discriminate].
  intros H. inversion H; subst. split.
  - apply Nat.eqb_eq in E. exact E.
  - apply Forall_forall. intros x Hx. apply in_map_iff in Hx. destruct Hx as [y [<- _]].
    unfold sample_short_bfield_element. apply fp_sub_canon.
Qed.
Lemma uniform_go_wf n r v : uniform_go n r = Some v -> length v = n /\ Forall canonical v.
Proof.
  revert r v; induction n as [|n IH]; intros r v H; cbn [uniform_go] in H.
  - inversion H. split; [reflexivity | constructor].
  - destruct (uniform_acc UNIFORM_BYTES r 0) as [[acc r']|]; [|discriminate].
    destruct (uniform_go n r') as [t|] eqn:E; [|discriminate]. inversion H; subst.
    destruct (IH r' t E) as [L F]. split; [cbn [length]; rewrite L; reflexivity|].
    constructor; [apply canonical_mod | exact F].
Qed.
Lemma re_sample_uniform_wf r v : re_sample_uniform r = Some v -> ring_elem v.
Proof. unfold re_sample_uniform. intros H. apply uniform_go_wf in H. exact H. Qed.

Lemma me_sample_short_wf n r m : me_sample_short n r = Some m -> module_elem n m.
Proof.
  unfold me_sample_short. intros H. apply opt_all_inv in H. destruct H as [L I]. rewrite seq_length in L.
  split; [exact L|]. apply Forall_forall. intros x Hx. destruct (I x Hx) as [k [_ E]].
  destruct (slice r _ _); [|discriminate]. apply re_sample_short_wf in E. exact E.
Qed.
Lemma me_sample_uniform_wf n r m : me_sample_uniform n r = Some m -> module_elem n m.
Proof.
  unfold me_sample_uniform. intros H. apply opt_all_inv in H. destruct H as [L I]. rewrite seq_length in L.
  split; [exact L|]. apply Forall_forall. intros x Hx. destruct (I x Hx) as [k [_ E]].
  destruct (slice r _ _); [|discriminate]. apply re_sample_uniform_wf in E. exact E.
Qed.

Lemma length_embed_msg msg : length (embed_msg msg) = (2 * length msg)%nat.
Proof.
  unfold embed_msg. induction msg as [|b msg IH]; [reflexivity|].
  cbn [flat_map app length]. rewrite IH. lia.
Qed.
Lemma ring_elem_embed_msg msg : length msg = 32%nat -> ring_elem (embed_msg msg).
Proof.
  intros H. split.
  - rewrite length_embed_msg, H. reflexivity.
  - unfold embed_msg. clear H. induction msg as [|b msg IH]; [constructor|].
    cbn [flat_map app]. constructor; [apply canonical_mod|]. constructor; [apply canonical_mod | exact IH].
Qed.

(* canonical x, x + D = M + B  ==>  x = M + (B - D) *)
Lemma solve_add_scalar x D M B : canonical x -> fp_add x D = fp_add M B -> x = fp_add M (fp_sub B D).
Proof.
  intros Hx H. rewrite <- (canon_mod x Hx). unfold fp_add, fp_sub in *.
  assert (E : eqp (x + D) (M + B)) by exact H.
  assert (G : eqp x (M + (B - D))).
  { transitivity ((x + D) - D); [apply eqp_of_eq; ring|]. rewrite E. apply eqp_of_eq. ring. }
  unfold eqp in G. rewrite G. eqp_ring.
Qed.
Lemma solve_add x D M B :
  ring_elem x -> length D = 64%nat -> length M = 64%nat -> length B = 64%nat ->
  re_add x D = re_add M B -> x = re_add M (re_sub B D).
Proof.
  intros [Lx Cx] LD LM LB H.
  assert (Hk : forall k, (k < 64)%nat -> nth k x 0 = fp_add (nth k M 0) (fp_sub (nth k B 0) (nth k D 0))).
  { intros k Hk. apply solve_add_scalar.
    - rewrite Forall_forall in Cx. apply Cx. apply nth_In. lia.
    - assert (E : nth k (re_add x D) 0 = nth k (re_add M B) 0) by (rewrite H; reflexivity).
      unfold re_add in E. rewrite (nth_map2 fp_add x D k 0 0 0), (nth_map2 fp_add M B k 0 0 0) in E by (congruence || reflexivity).
      exact E. }
  apply (nth_ext _ _ 0 0).
  - unfold re_add, re_sub.
    assert (LBD : length (map2 fp_sub B D) = 64%nat) by (rewrite length_map2; congruence).
    rewrite (length_map2 fp_add M (map2 fp_sub B D)) by congruence. congruence.
  - intros k Hk'. rewrite Lx in Hk'. rewrite (Hk k Hk'). unfold re_add, re_sub.
    assert (LBD : length (map2 fp_sub B D) = 64%nat) by (rewrite length_map2; congruence).
    rewrite (nth_map2 fp_add M (map2 fp_sub B D) k 0 0 0); [| congruence | reflexivity].
    rewrite (nth_map2 fp_sub B D k 0 0 0) by (congruence || reflexivity). reflexivity.
Qed.
