(* proofs/LatticeKemNoise.v - C18: decapsulation of an honest ciphertext recovers the payload plus the noise
   term  b.c - d.a  (sums of negacyclic products of the short secret vectors); hence dec(enc) = key whenever
   that noise term is lane-wise below the decoding bound.  The algebra is done slot by slot in the NTT domain. *)
From Coq Require Import ZArith Bool List Lia Morphisms Setoid.
From TF Require Import BFieldGen LatticeGen Lattice LatticeSpec LatticeBase LatticeNtt LatticeModule LatticeKem.
Import ListNotations.
Open Scope Z_scope.

(* ------------------------------------------------------------------ vectors as functions of the slot *)
Lemma as_map (l : list Z) : length l = 64%nat -> l = map (fun k => nth k l 0) (seq 0 64).
Proof.
  intros H. apply (nth_ext _ _ 0 ((fun k => nth k l 0) 0%nat)).
  - rewrite map_length, seq_length. exact H.
  - intros n Hn. rewrite H in Hn. rewrite (map_nth (fun k => nth k l 0) (seq 0 64) 0%nat n).
    rewrite seq_nth by exact Hn. reflexivity.
Qed.
Lemma re_zero_as_map : re_zero = map (fun _ => 0) (seq 0 64).
Proof. reflexivity. Qed.
Definition acc4 (x0 x1 x2 x3 : list Z) : list Z := re_add (re_add (re_add (re_add re_zero x0) x1) x2) x3.

Section Identity.
  Variables g00 g01 g02 g03 g10 g11 g12 g13 g20 g21 g22 g23 g30 g31 g32 g33 : nat -> Z.
  Variables a0 a1 a2 a3 b0 b1 b2 b3 c0 c1 c2 c3 d0 d1 d2 d3 m : nat -> Z.
  Variable s : list nat.
  Let L (f : nat -> Z) := map f s.
  Let H := re_hadamard.
  Let Z0 := map (fun _ : nat => 0) s.
  Let A4 (x0 x1 x2 x3 : list Z) := re_add (re_add (re_add (re_add Z0 x0) x1) x2) x3.
  Lemma kem_identity_slots :
    let ga0 := re_add (A4 (H (L g00) (L a0)) (H (L g01) (L a1)) (H (L g02) (L a2)) (H (L g03) (L a3))) (L c0) in
    let ga1 := re_add (A4 (H (L g10) (L a0)) (H (L g11) (L a1)) (H (L g12) (L a2)) (H (L g13) (L a3))) (L c1) in
    let ga2 := re_add (A4 (H (L g20) (L a0)) (H (L g21) (L a1)) (H (L g22) (L a2)) (H (L g23) (L a3))) (L c2) in
    let ga3 := re_add (A4 (H (L g30) (L a0)) (H (L g31) (L a1)) (H (L g32) (L a2)) (H (L g33) (L a3))) (L c3) in
    let bg0 := re_add (A4 (H (L b0) (L g00)) (H (L b1) (L g10)) (H (L b2) (L g20)) (H (L b3) (L g30))) (L d0) in
    let bg1 := re_add (A4 (H (L b0) (L g01)) (H (L b1) (L g11)) (H (L b2) (L g21)) (H (L b3) (L g31))) (L d1) in
    let bg2 := re_add (A4 (H (L b0) (L g02)) (H (L b1) (L g12)) (H (L b2) (L g22)) (H (L b3) (L g32))) (L d2) in
    let bg3 := re_add (A4 (H (L b0) (L g03)) (H (L b1) (L g13)) (H (L b2) (L g23)) (H (L b3) (L g33))) (L d3) in
    let bgam := re_add (A4 (H (L b0) ga0) (H (L b1) ga1) (H (L b2) ga2) (H (L b3) ga3)) (L m) in
    let bga := A4 (H bg0 (L a0)) (H bg1 (L a1)) (H bg2 (L a2)) (H bg3 (L a3)) in
    re_add (re_sub bgam bga) (A4 (H (L d0) (L a0)) (H (L d1) (L a1)) (H (L d2) (L a2)) (H (L d3) (L a3)))
    = re_add (L m) (A4 (H (L b0) (L c0)) (H (L b1) (L c1)) (H (L b2) (L c2)) (H (L b3) (L c3))).
  Proof.
    cbv zeta. unfold A4, H, L, Z0, re_add, re_sub, re_hadamard.
    repeat rewrite map2_same_map.
    apply map_ext. intros k. fp_ring.
  Qed.
End Identity.

(* the same on lists of 64 coefficients *)
Lemma kem_identity g00 g01 g02 g03 g10 g11 g12 g13 g20 g21 g22 g23 g30 g31 g32 g33
      a0 a1 a2 a3 b0 b1 b2 b3 c0 c1 c2 c3 d0 d1 d2 d3 m :
  Forall (fun l => length l = 64%nat)
    [g00; g01; g02; g03; g10; g11; g12; g13; g20; g21; g22; g23; g30; g31; g32; g33;
     a0; a1; a2; a3; b0; b1; b2; b3; c0; c1; c2; c3; d0; d1; d2; d3; m] ->
  let H := re_hadamard in
  let ga0 := re_add (acc4 (H g00 a0) (H g01 a1) (H g02 a2) (H g03 a3)) c0 in
  let ga1 := re_add (acc4 (H g10 a0) (H g11 a1) (H g12 a2) (H g13 a3)) c1 in
  let ga2 := re_add (acc4 (H g20 a0) (H g21 a1) (H g22 a2) (H g23 a3)) c2 in
  let ga3 := re_add (acc4 (H g30 a0) (H g31 a1) (H g32 a2) (H g33 a3)) c3 in
  let bg0 := re_add (acc4 (H b0 g00) (H b1 g10) (H b2 g20) (H b3 g30)) d0 in
  let bg1 := re_add (acc4 (H b0 g01) (H b1 g11) (H b2 g21) (H b3 g31)) d1 in
  let bg2 := re_add (acc4 (H b0 g02) (H b1 g12) (H b2 g22) (H b3 g32)) d2 in
  let bg3 := re_add (acc4 (H b0 g03) (H b1 g13) (H b2 g23) (H b3 g33)) d3 in
  let bgam := re_add (acc4 (H b0 ga0) (H b1 ga1) (H b2 ga2) (H b3 ga3)) m in
  let bga := acc4 (H bg0 a0) (H bg1 a1) (H bg2 a2) (H bg3 a3) in
  re_add (re_sub bgam bga) (acc4 (H d0 a0) (H d1 a1) (H d2 a2) (H d3 a3))
  = re_add m (acc4 (H b0 c0) (H b1 c1) (H b2 c2) (H b3 c3)).
Proof.
  intros F. cbv zeta. unfold acc4.
  repeat match type of F with
         | Forall _ (?l :: _) =>
             let Hl := fresh "Hl" in let F' := fresh "F" in
             inversion F as [|? ? Hl F']; subst; clear F; rename F' into F;
             rewrite (as_map l Hl); clear Hl
         end.
  rewrite re_zero_as_map.
  apply kem_identity_slots.
Qed.

(* ------------------------------------------------------------------ well-formedness of sampled elements *)
Lemma opt_all_inv {A B} (f : A -> option B) l m :
  opt_all (map f l) = Some m -> length m = length l /\ forall x, In x m -> exists k, In k l /\ f k = Some x.
Proof.
  revert m; induction l as [|k l IH]; intros m H; cbn [map opt_all] in H.
  - inversion H. split; [reflexivity | intros x []].
  - destruct (f k) as [y|] eqn:E; [|discriminate].
    destruct (opt_all (map f l)) as [r|]; [|discriminate]. inversion H; subst.
    destruct (IH r eq_refl) as [L I]. split; [cbn [length]; rewrite L; reflexivity|].
    intros x [<- | Hx].
    + exists k. split; [left; reflexivity | exact E].
    + destruct (I x Hx) as [k' [Hk' E']]. exists k'. split; [right; exact Hk' | exact E'].
Qed.

Lemma re_sample_short_wf r v : re_sample_short r = Some v -> ring_elem v.
Proof.
  unfold re_sample_short. destruct (forallb _ _); [|discriminate].
  destruct (length (map sample_short_bfield_element (chunks SHORT_BYTES r)) =? RING_SIZE)%nat eqn:E; [|discriminate].
  intros H. inversion H; subst. split.
  - apply Nat.eqb_eq in E. exact E.
  - apply Forall_forall. intros x Hx. apply in_map_iff in Hx. destruct Hx as [y [<- _]].
    unfold sample_short_bfield_element. apply fp_sub_canon.
Qed.
Lemma uniform_go_wf n r v : uniform_go n r = Some v -> length v = n /\ Forall canonical v.
Proof.
  revert r v; induction n as [|n IH]; intros r v H; cbn [uniform_go] in H.
  - inversion H. split; [reflexivity | constructor].
  - destruct (uniform_acc UNIFORM_BYTES r 0) as [[acc r']|]; [|discriminate].
    destruct (uniform_go n r') as [t|] eqn:E; [|discriminate]. inversion H; subst.
    destruct (IH r' t E) as [L F]. split; [cbn [length]; rewrite L; reflexivity|].
    constructor; [apply canonical_mod | exact F].
Qed.
Lemma re_sample_uniform_wf r v : re_sample_uniform r = Some v -> ring_elem v.
Proof. unfold re_sample_uniform. intros H. apply uniform_go_wf in H. exact H. Qed.

Lemma me_sample_short_wf n r m : me_sample_short n r = Some m -> module_elem n m.
Proof.
  unfold me_sample_short. intros H. apply opt_all_inv in H. destruct H as [L I]. rewrite seq_length in L.
  split; [exact L|]. apply Forall_forall. intros x Hx. destruct (I x Hx) as [k [_ E]].
  destruct (slice r _ _); [|discriminate]. apply re_sample_short_wf in E. exact E.
Qed.
Lemma me_sample_uniform_wf n r m : me_sample_uniform n r = Some m -> module_elem n m.
Proof.
  unfold me_sample_uniform. intros H. apply opt_all_inv in H. destruct H as [L I]. rewrite seq_length in L.
  split; [exact L|]. apply Forall_forall. intros x Hx. destruct (I x Hx) as [k [_ E]].
  destruct (slice r _ _); [|discriminate]. apply re_sample_uniform_wf in E. exact E.
Qed.

Lemma length_embed_msg msg : length (embed_msg msg) = (2 * length msg)%nat.
Proof.
  unfold embed_msg. induction msg as [|b msg IH]; [reflexivity|].
  cbn [flat_map app length]. rewrite IH. lia.
Qed.
Lemma ring_elem_embed_msg msg : length msg = 32%nat -> ring_elem (embed_msg msg).
Proof.
  intros H. split.
  - rewrite length_embed_msg, H. reflexivity.
  - unfold embed_msg. clear H. induction msg as [|b msg IH]; [constructor|].
    cbn [flat_map app]. constructor; [apply canonical_mod|]. constructor; [apply canonical_mod | exact IH].
Qed.

(* canonical x, x + D = M + B  ==>  x = M + (B - D) *)
Lemma solve_add_scalar x D M B : canonical x -> fp_add x D = fp_add M B -> x = fp_add M (fp_sub B D).
Proof.
  intros Hx H. rewrite <- (canon_mod x Hx). unfold fp_add, fp_sub in *.
  assert (E : eqp (x + D) (M + B)) by exact H.
  assert (G : eqp x (M + (B - D))).
  { transitivity ((x + D) - D); [apply eqp_of_eq; ring|]. rewrite E. apply eqp_of_eq. ring. }
  unfold eqp in G. rewrite G. eqp_ring.
Qed.
Lemma solve_add x D M B :
  ring_elem x -> length D = 64%nat -> length M = 64%nat -> length B = 64%nat ->
  re_add x D = re_add M B -> x = re_add M (re_sub B D).
Proof.
  intros [Lx Cx] LD LM LB H.
  assert (Hk : forall k, (k < 64)%nat -> nth k x 0 = fp_add (nth k M 0) (fp_sub (nth k B 0) (nth k D 0))).
  { intros k Hk. apply solve_add_scalar.
    - rewrite Forall_forall in Cx. apply Cx. apply nth_In. lia.
    - assert (E : nth k (re_add x D) 0 = nth k (re_add M B) 0) by (rewrite H; reflexivity).
      unfold re_add in E. rewrite (nth_map2 fp_add x D k 0 0 0), (nth_map2 fp_add M B k 0 0 0) in E by (congruence || reflexivity).
      exact E. }
  apply (nth_ext _ _ 0 0).
  - unfold re_add, re_sub.
    assert (LBD : length (map2 fp_sub B D) = 64%nat) by (rewrite length_map2; congruence).
    rewrite (length_map2 fp_add M (map2 fp_sub B D)) by congruence. congruence.
  - intros k Hk'. rewrite Lx in Hk'. rewrite (Hk k Hk'). unfold re_add, re_sub.
    assert (LBD : length (map2 fp_sub B D) = 64%nat) by (rewrite length_map2; congruence).
    rewrite (nth_map2 fp_add M (map2 fp_sub B D) k 0 0 0); [| congruence | reflexivity].
    rewrite (nth_map2 fp_sub B D k 0 0 0) by (congruence || reflexivity). reflexivity.
Qed.

Definition dot4 (x y : mod_elem) : list Z :=
  fold_left (fun acc i => re_add acc (negacyclic (nth i x []) (nth i y []))) (seq 0 4) re_zero.
Definition kem_noise (a b c d : mod_elem) : list Z := re_sub (dot4 b c) (dot4 d a).

Lemma module4_explicit m : module_elem 4 m ->
  exists x0 x1 x2 x3, m = [x0; x1; x2; x3] /\ ring_elem x0 /\ ring_elem x1 /\ ring_elem x2 /\ ring_elem x3.
Proof.
  intros [L F]. destruct m as [|x0 [|x1 [|x2 [|x3 [|? ?]]]]]; cbn [length] in L; try discriminate.
  inversion F as [|? ? H0 F1]; subst. inversion F1 as [|? ? H1 F2]; subst.
  inversion F2 as [|? ? H2 F3]; subst. inversion F3 as [|? ? H3 F4]; subst.
  exists x0, x1, x2, x3. auto.
Qed.

Lemma len_re_add a b : length a = 64%nat -> length b = 64%nat -> length (re_add a b) = 64%nat.
Proof. intros Ha Hb. unfold re_add. rewrite length_map2; congruence. Qed.
Lemma len_re_sub a b : length a = 64%nat -> length b = 64%nat -> length (re_sub a b) = 64%nat.
Proof. intros Ha Hb. unfold re_sub. rewrite length_map2; congruence. Qed.
Lemma len_re_had a b : length a = 64%nat -> length b = 64%nat -> length (re_hadamard a b) = 64%nat.
Proof. intros Ha Hb. unfold re_hadamard. rewrite length_map2; congruence. Qed.
Lemma len_re_zero : length re_zero = 64%nat.
Proof. reflexivity. Qed.
Ltac len64 :=
  repeat first [ assumption | apply len_re_add | apply len_re_sub | apply len_re_had | exact len_re_zero
               | (apply ring_elem_length; assumption)
               | (apply ring_elem_length; apply ring_elem_negacyclic; apply ring_elem_length; assumption) ].
Lemma intt_had x y :
  ring_elem x -> ring_elem y -> intt_pure (re_hadamard (ntt_pure x) (ntt_pure y)) = negacyclic x y.
Proof.
  intros Hx Hy. rewrite (re_hadamard_ntt x y Hx Hy). apply intt_ntt_pure.
  apply ring_elem_negacyclic; apply ring_elem_length; assumption.
Qed.

Section Noise.
  Variable shake256 : list Z -> Z -> list Z.

  Lemma dsv_wf seed a c : derive_secret_vectors shake256 seed = Some (a, c) -> module_elem 4 a /\ module_elem 4 c.
  Proof.
    unfold derive_secret_vectors. intros H.
    destruct (slice _ 0 _); [|discriminate].
    destruct (me_sample_short SECRET_VECTOR_N l) as [a'|] eqn:Ea; [|discriminate].
    destruct (slice _ _ _); [|discriminate].
    destruct (me_sample_short SECRET_VECTOR_N l0) as [c'|] eqn:Ec; [|discriminate].
    inversion H; subst. split; [apply (me_sample_short_wf _ _ _ Ea) | apply (me_sample_short_wf _ _ _ Ec)].
  Qed.

  Lemma dec_payload_noise key seed payload a c b d pk ct :
    derive_secret_vectors shake256 key = Some (a, c) ->
    derive_secret_vectors shake256 payload = Some (b, d) ->
    derive_public_key shake256 key seed = Some pk ->
    generate_ciphertext_derandomized shake256 pk payload = Some ct ->
    length payload = 32%nat ->
    dec_payload shake256 (key, seed) ct = extract_msg (re_add (embed_msg payload) (kem_noise a b c d)).
  Proof.
    intros Hac Hbd Hpk Hct Lp.
    destruct (dsv_wf _ _ _ Hac) as [Wa Wc]. destruct (dsv_wf _ _ _ Hbd) as [Wb Wd].
    unfold derive_public_key in Hpk. rewrite Hac in Hpk.
    destruct (derive_public_matrix shake256 seed) as [g|] eqn:Hg; [|discriminate].
    assert (Wg : module_elem 16 g) by (apply (me_sample_uniform_wf _ _ _ Hg)).
    rewrite (me_ntt_pure 4 a Wa) in Hpk.
    change SHAPE_GA with (4, 16, 1, 4, 4, 4)%nat in Hpk.
    rewrite (me_multiply_hadamard_closed 4 16 1 4 4 4 g (map ntt_pure a)) in Hpk;
      [| repeat split; reflexivity | apply Wg | rewrite map_length; apply Wa].
    rewrite (me_ntt_pure 4 c Wc) in Hpk. inversion Hpk; subst pk. clear Hpk.
    unfold generate_ciphertext_derandomized in Hct. cbn [fst snd] in Hct. rewrite Hbd, Hg in Hct.
    rewrite (me_ntt_pure 4 b Wb), (me_ntt_pure 4 d Wd) in Hct.
    change SHAPE_BG with (1, 4, 4, 16, 4, 4)%nat in Hct.
    rewrite (me_multiply_hadamard_closed 1 4 4 16 4 4 (map ntt_pure b) g) in Hct;
      [| repeat split; reflexivity | rewrite map_length; apply Wb | apply Wg].
    change SHAPE_BGA with (1, 4, 1, 4, 4, 1)%nat in Hct.
    destruct (module4_explicit a Wa) as (a0 & a1 & a2 & a3 & -> & Ra0 & Ra1 & Ra2 & Ra3).
    destruct (module4_explicit b Wb) as (b0 & b1 & b2 & b3 & -> & Rb0 & Rb1 & Rb2 & Rb3).
    destruct (module4_explicit c Wc) as (c0 & c1 & c2 & c3 & -> & Rc0 & Rc1 & Rc2 & Rc3).
    destruct (module4_explicit d Wd) as (d0 & d1 & d2 & d3 & -> & Rd0 & Rd1 & Rd2 & Rd3).
    assert (RG : forall k, (k < 16)%nat -> ring_elem (nth k g [])) by (intros k Hk; apply (nth_ring_elem 16 g k Wg Hk)).
    pose proof (RG 0%nat ltac:(lia)) as G0. pose proof (RG 1%nat ltac:(lia)) as G1. pose proof (RG 2%nat ltac:(lia)) as G2.
    pose proof (RG 3%nat ltac:(lia)) as G3. pose proof (RG 4%nat ltac:(lia)) as G4. pose proof (RG 5%nat ltac:(lia)) as G5.
    pose proof (RG 6%nat ltac:(lia)) as G6. pose proof (RG 7%nat ltac:(lia)) as G7. pose proof (RG 8%nat ltac:(lia)) as G8.
    pose proof (RG 9%nat ltac:(lia)) as G9. pose proof (RG 10%nat ltac:(lia)) as G10. pose proof (RG 11%nat ltac:(lia)) as G11.
    pose proof (RG 12%nat ltac:(lia)) as G12. pose proof (RG 13%nat ltac:(lia)) as G13. pose proof (RG 14%nat ltac:(lia)) as G14.
    pose proof (RG 15%nat ltac:(lia)) as G15. clear RG.
    cbn [map] in Hct.
    unfold mm_closed in Hct.
    cbn [seq flat_map map fold_left app Nat.mul Nat.add nth me_add map2] in Hct.
    set (g00 := nth 0 g []) in *. set (g01 := nth 1 g []) in *. set (g02 := nth 2 g []) in *. set (g03 := nth 3 g []) in *.
    set (g10 := nth 4 g []) in *. set (g11 := nth 5 g []) in *. set (g12 := nth 6 g []) in *. set (g13 := nth 7 g []) in *.
    set (g20 := nth 8 g []) in *. set (g21 := nth 9 g []) in *. set (g22 := nth 10 g []) in *. set (g23 := nth 11 g []) in *.
    set (g30 := nth 12 g []) in *. set (g31 := nth 13 g []) in *. set (g32 := nth 14 g []) in *. set (g33 := nth 15 g []) in *.
    clearbody g00 g01 g02 g03 g10 g11 g12 g13 g20 g21 g22 g23 g30 g31 g32 g33.
    set (ta0 := ntt_pure a0) in *. set (ta1 := ntt_pure a1) in *. set (ta2 := ntt_pure a2) in *. set (ta3 := ntt_pure a3) in *.
    set (tb0 := ntt_pure b0) in *. set (tb1 := ntt_pure b1) in *. set (tb2 := ntt_pure b2) in *. set (tb3 := ntt_pure b3) in *.
    set (tc0 := ntt_pure c0) in *. set (tc1 := ntt_pure c1) in *. set (tc2 := ntt_pure c2) in *. set (tc3 := ntt_pure c3) in *.
    set (td0 := ntt_pure d0) in *. set (td1 := ntt_pure d1) in *. set (td2 := ntt_pure d2) in *. set (td3 := ntt_pure d3) in *.
    assert (Rta0 : ring_elem ta0) by (apply ring_elem_ntt_pure; assumption).
    assert (Rta1 : ring_elem ta1) by (apply ring_elem_ntt_pure; assumption).
    assert (Rta2 : ring_elem ta2) by (apply ring_elem_ntt_pure; assumption).
    assert (Rta3 : ring_elem ta3) by (apply ring_elem_ntt_pure; assumption).
    assert (Rtb0 : ring_elem tb0) by (apply ring_elem_ntt_pure; assumption).
    assert (Rtb1 : ring_elem tb1) by (apply ring_elem_ntt_pure; assumption).
    assert (Rtb2 : ring_elem tb2) by (apply ring_elem_ntt_pure; assumption).
    assert (Rtb3 : ring_elem tb3) by (apply ring_elem_ntt_pure; assumption).
    assert (Rtc0 : ring_elem tc0) by (apply ring_elem_ntt_pure; assumption).
    assert (Rtc1 : ring_elem tc1) by (apply ring_elem_ntt_pure; assumption).
    assert (Rtc2 : ring_elem tc2) by (apply ring_elem_ntt_pure; assumption).
    assert (Rtc3 : ring_elem tc3) by (apply ring_elem_ntt_pure; assumption).
    assert (Rtd0 : ring_elem td0) by (apply ring_elem_ntt_pure; assumption).
    assert (Rtd1 : ring_elem td1) by (apply ring_elem_ntt_pure; assumption).
    assert (Rtd2 : ring_elem td2) by (apply ring_elem_ntt_pure; assumption).
    assert (Rtd3 : ring_elem td3) by (apply ring_elem_ntt_pure; assumption).
    pose proof (ring_elem_embed_msg payload Lp) as Rm.
    match type of Hct with context [me_multiply_hadamard ?sh ?l ?r] =>
      rewrite (me_multiply_hadamard_closed 1 4 1 4 4 1 l r) in Hct; [| repeat split; reflexivity | reflexivity | reflexivity] end.
    unfold mm_closed in Hct.
    cbn [seq flat_map map fold_left app Nat.mul Nat.add nth] in Hct.
    rewrite (me_ntt_pure 1 [embed_msg payload]) in Hct by (split; [reflexivity | constructor; [exact Rm | constructor]]).
    cbn [map me_add map2] in Hct.
    set (tm := ntt_pure (embed_msg payload)) in *.
    assert (Rtm : ring_elem tm) by (apply ring_elem_ntt_pure; exact Rm).
    inversion Hct; subst ct; clear Hct.
    unfold dec_payload. cbn [fst snd]. rewrite Hac. rewrite (me_ntt_pure 4 [a0; a1; a2; a3] Wa). cbn [map].
    fold ta0 ta1 ta2 ta3.
    change SHAPE_DEC with (1, 4, 1, 4, 4, 1)%nat.
    match goal with |- context [me_multiply_hadamard ?sh ?l ?r] =>
      rewrite (me_multiply_hadamard_closed 1 4 1 4 4 1 l r); [| repeat split; reflexivity | reflexivity | reflexivity] end.
    unfold mm_closed.
    cbn [seq flat_map map fold_left app Nat.mul Nat.add nth me_sub map2].
    match goal with |- context [me_intt [?t]] => set (X := t) end.
    assert (LX : length X = 64%nat) by (unfold X; len64).
    rewrite (me_intt_pure [X]) by (constructor; [exact LX | constructor]).
    cbn [map nth_error]. f_equal.
    assert (F : Forall (fun l => length l = 64%nat)
      [g00; g01; g02; g03; g10; g11; g12; g13; g20; g21; g22; g23; g30; g31; g32; g33;
       ta0; ta1; ta2; ta3; tb0; tb1; tb2; tb3; tc0; tc1; tc2; tc3; td0; td1; td2; td3; tm]).
    { repeat (apply Forall_cons; [apply ring_elem_length; assumption|]). apply Forall_nil. }
    pose proof (kem_identity g00 g01 g02 g03 g10 g11 g12 g13 g20 g21 g22 g23 g30 g31 g32 g33
                  ta0 ta1 ta2 ta3 tb0 tb1 tb2 tb3 tc0 tc1 tc2 tc3 td0 td1 td2 td3 tm F) as E1.
    cbv zeta in E1. unfold acc4 in E1. fold X in E1. clearbody X.
    apply (f_equal intt_pure) in E1.
    rewrite !intt_pure_re_add in E1 by len64.
    rewrite intt_pure_re_zero in E1.
    unfold ta0, ta1, ta2, ta3, tb0, tb1, tb2, tb3, tc0, tc1, tc2, tc3, td0, td1, td2, td3, tm in E1.
    rewrite !intt_had in E1 by assumption.
    rewrite (intt_ntt_pure (embed_msg payload) Rm) in E1.
    apply solve_add in E1; [| apply ring_elem_intt_pure; exact LX | len64 | len64 | len64].
    rewrite E1. unfold kem_noise, dot4. cbn [seq fold_left nth]. reflexivity.
  Qed.

  Lemma length_kem_noise a b c d :
    module_elem 4 a -> module_elem 4 b -> module_elem 4 c -> module_elem 4 d -> length (kem_noise a b c d) = 64%nat.
  Proof.
    intros Wa Wb Wc Wd.
    destruct (module4_explicit a Wa) as (a0 & a1 & a2 & a3 & -> & Ra0 & Ra1 & Ra2 & Ra3).
    destruct (module4_explicit b Wb) as (b0 & b1 & b2 & b3 & -> & Rb0 & Rb1 & Rb2 & Rb3).
    destruct (module4_explicit c Wc) as (c0 & c1 & c2 & c3 & -> & Rc0 & Rc1 & Rc2 & Rc3).
    destruct (module4_explicit d Wd) as (d0 & d1 & d2 & d3 & -> & Rd0 & Rd1 & Rd2 & Rd3).
    unfold kem_noise, dot4. cbn [seq fold_left nth]. len64.
  Qed.

  Variable sha3_256 : list Z -> list Z.

  (* dec (enc ..) = Some key, CONDITIONAL on the lane-noise bound: the noise term  b.c - d.a  of the two pairs of
     short secret vectors (key-generation side a, c; encapsulation side b, d) is lane-wise at most 2^14 - 3 *)
  Theorem dec_enc_noise_partial kg_randomness enc_randomness sk pk k ct :
    keygen shake256 kg_randomness = Some (sk, pk) ->
    enc shake256 sha3_256 pk enc_randomness = Some (k, ct) ->
    let payload := shake256 enc_randomness ENC_OUTPUT_LENGTH in
    length payload = 32%nat -> Forall byte payload ->
    (forall a c b d,
       derive_secret_vectors shake256 (fst sk) = Some (a, c) ->
       derive_secret_vectors shake256 payload = Some (b, d) ->
       Forall (lane_noise NOISE_BOUND) (kem_noise a b c d)) ->
    dec shake256 sha3_256 sk ct = Some (Some k).
  Proof.
    intros Hk He payload Lp Bp Hn.
    apply (dec_enc_partial shake256 sha3_256 kg_randomness enc_randomness sk pk k ct Hk He).
    fold payload.
    unfold keygen in Hk.
    destruct (derive_public_key shake256 _ _) as [pk'|] eqn:Hpk; [|discriminate].
    inversion Hk; subst sk pk'. clear Hk. cbn [fst] in Hn.
    set (key := shake256 (kg_randomness ++ [KEYGEN_KEY_TAG]) KEYGEN_OUTPUT_LENGTH) in *.
    set (seed := shake256 (kg_randomness ++ [KEYGEN_SEED_TAG]) KEYGEN_OUTPUT_LENGTH) in *.
    unfold enc in He. fold payload in He.
    destruct (generate_ciphertext_derandomized shake256 pk payload) as [ct'|] eqn:Hct; [|discriminate].
    inversion He; subst ct' k. clear He.
    assert (Hac : exists a c, derive_secret_vectors shake256 key = Some (a, c)).
    { unfold derive_public_key in Hpk. destruct (derive_secret_vectors shake256 key) as [[a c]|]; [|discriminate].
      exists a, c. reflexivity. }
    destruct Hac as (a & c & Hac).
    assert (Hbd : exists b d, derive_secret_vectors shake256 payload = Some (b, d)).
    { unfold generate_ciphertext_derandomized in Hct.
      destruct (derive_secret_vectors shake256 payload) as [[b d]|]; [|discriminate]. exists b, d. reflexivity. }
    destruct Hbd as (b & d & Hbd).
    rewrite (dec_payload_noise key seed payload a c b d pk ct Hac Hbd Hpk Hct Lp).
    destruct (dsv_wf _ _ _ Hac) as [Wa Wc]. destruct (dsv_wf _ _ _ Hbd) as [Wb Wd].
    apply embed_extract.
    - exact Bp.
    - rewrite (length_kem_noise a b c d Wa Wb Wc Wd), Lp. reflexivity.
    - exact (Hn a c b d Hac Hbd).
  Qed.
End Noise.

(* a decidable version of the lane-noise predicate: balanced base-2^16 digits of the centred representative *)
Definition cmod16 (s : Z) : Z := (s + 32768) mod 65536 - 32768.
Definition lane_digits (e : Z) : Z * Z * Z * Z :=
  let s := if e <=? (P - 1) / 2 then e else e - P in
  let d0 := cmod16 s in let s1 := (s - d0) / 65536 in
  let d1 := cmod16 s1 in let s2 := (s1 - d1) / 65536 in
  let d2 := cmod16 s2 in let d3 := (s2 - d2) / 65536 in
  (d0, d1, d2, d3).
Definition lane_noise_okb (B e : Z) : bool :=
  let '(d0, d1, d2, d3) := lane_digits e in
  (- B <=? d0) && (d0 <=? B) && (- B <=? d1) && (d1 <=? B) && (- B <=? d2) && (d2 <=? B) && (- B <=? d3) && (d3 <=? B)
  && (e =? (d0 + d1 * 65536 + d2 * 4294967296 + d3 * 281474976710656) mod P).
Lemma lane_noise_okb_sound B e : lane_noise_okb B e = true -> lane_noise B e.
Proof.
  unfold lane_noise_okb. destruct (lane_digits e) as [[[d0 d1] d2] d3]. intros H.
  repeat (apply andb_prop in H; let H' := fresh "H" in destruct H as [H H']).
  exists d0, d1, d2, d3.
  repeat match goal with Hx : (_ <=? _) = true |- _ => apply Z.leb_le in Hx end.
  match goal with Hx : (_ =? _) = true |- _ => apply Z.eqb_eq in Hx end.
  repeat split; assumption.
Qed.
