(* proofs/LatticeModule.v - C18: the three module-multiplication strategies of lattice.rs
   (multiply, multiply_hadamard in the NTT domain, fast_multiply) agree with each other and with the matrix
   product over the ring built from the negacyclic convolution (LatticeSpec.module_product). *)
From Coq Require Import ZArith Bool List Lia Morphisms Setoid.
From TF Require Import BFieldGen LatticeGen Lattice LatticeSpec LatticeBase LatticeNtt.
Import ListNotations.
Open Scope Z_scope.

Lemma upd_nth_same {A} (l : list A) i d : upd l i (nth i l d) = l.
Proof. revert i; induction l as [|x l IH]; intros [|i]; cbn [upd nth]; auto. f_equal. apply IH. Qed.
Lemma nth_upd_same {A} (l : list A) i x d : (i < length l)%nat -> nth i (upd l i x) d = x.
Proof.
  revert i; induction l as [|y l IH]; intros [|i] H; cbn [upd nth length] in *; try lia; auto.
  apply IH. lia.
Qed.
Lemma upd_upd {A} (l : list A) i x y : upd (upd l i x) i y = upd l i y.
Proof. revert i; induction l as [|z l IH]; intros [|i]; cbn [upd]; auto. f_equal. apply IH. Qed.
Lemma upd_app_mid {A} (l1 l2 : list A) x y : upd (l1 ++ x :: l2) (length l1) y = l1 ++ y :: l2.
Proof. induction l1 as [|z l1 IH]; cbn [app length upd]; auto. f_equal. exact IH. Qed.
Lemma nth_app_mid {A} (l1 l2 : list A) x d : nth (length l1) (l1 ++ x :: l2) d = x.
Proof. induction l1 as [|z l1 IH]; cbn [app length nth]; auto. Qed.

Lemma map_flat_map {A B C} (f : B -> C) (g : A -> list B) l :
  map f (flat_map g l) = flat_map (fun x => map f (g x)) l.
Proof. induction l as [|x l IH]; cbn [flat_map map]; auto. rewrite map_app, IH. reflexivity. Qed.
Lemma flat_map_ext_in' {A B} (f g : A -> list B) l :
  (forall x, In x l -> f x = g x) -> flat_map f l = flat_map g l.
Proof.
  induction l as [|x l IH]; intros H; cbn [flat_map]; auto.
  rewrite (H x (or_introl eq_refl)), IH; auto. intros; apply H; right; assumption.
Qed.
Lemma fold_left_ext' {A B} (f g : A -> B -> A) l c :
  (forall a b, f a b = g a b) -> fold_left f l c = fold_left g l c.
Proof. intros H. revert c; induction l as [|x l IH]; intros c; cbn [fold_left]; auto. rewrite H. apply IH. Qed.

(* closed form of the triple loop: out[h * RHS_W + w] = sum_i g(lhs[h * INNER + i], rhs[i * RHS_W + w]) *)
Definition mm_closed (g : list Z -> list Z -> list Z) (lh rw inner : nat) (lhs rhs : mod_elem) : mod_elem :=
  flat_map (fun h => map (fun w =>
    fold_left (fun acc i => re_add acc (g (nth (h * inner + i) lhs []) (nth (i * rw + w) rhs [])))
              (seq 0 inner) re_zero) (seq 0 rw)) (seq 0 lh).

Section MulWith.
  Variable f : list Z -> list Z -> option (list Z).
  Variable g : list Z -> list Z -> list Z.
  Variables lhs rhs : mod_elem.
  Hypothesis f_g : forall l r, (l < length lhs)%nat -> (r < length rhs)%nat ->
    f (nth l lhs []) (nth r rhs []) = Some (g (nth l lhs []) (nth r rhs [])).

  Lemma mm_block acc o (li ri : nat -> nat) is :
    (o < length acc)%nat ->
    (forall i, In i is -> (li i < length lhs)%nat /\ (ri i < length rhs)%nat) ->
    fold_left (mm_step f lhs rhs) (map (fun i => (o, li i, ri i)) is) (Some acc)
    = Some (upd acc o (fold_left (fun c i => re_add c (g (nth (li i) lhs []) (nth (ri i) rhs []))) is (nth o acc []))).
  Proof.
    revert acc; induction is as [|i is IH]; intros acc Ho Hb; cbn [map fold_left].
    - rewrite upd_nth_same. reflexivity.
    - destruct (Hb i (or_introl eq_refl)) as [Hl Hr].
      assert (E : mm_step f lhs rhs (Some acc) (o, li i, ri i)
                  = Some (upd acc o (re_add (nth o acc []) (g (nth (li i) lhs []) (nth (ri i) rhs []))))).
      { unfold mm_step.
        rewrite (nth_error_nth0 lhs (li i) [] Hl), (nth_error_nth0 rhs (ri i) [] Hr), (f_g _ _ Hl Hr).
        rewrite (nth_error_nth0 acc o [] Ho). reflexivity. }
      rewrite E. rewrite IH.
      + rewrite nth_upd_same by exact Ho. rewrite upd_upd. reflexivity.
      + rewrite length_upd. exact Ho.
      + intros j Hj. apply Hb. right. exact Hj.
  Qed.

  Lemma mm_row pre m (li ri : nat -> nat -> nat) is rw :
    (rw <= m)%nat ->
    (forall w i, (w < rw)%nat -> In i is -> (li w i < length lhs)%nat /\ (ri w i < length rhs)%nat) ->
    fold_left (mm_step f lhs rhs)
      (flat_map (fun w => map (fun i => ((length pre + w)%nat, li w i, ri w i)) is) (seq 0 rw))
      (Some (pre ++ repeat re_zero m))
    = Some (pre ++ map (fun w => fold_left (fun c i => re_add c (g (nth (li w i) lhs []) (nth (ri w i) rhs []))) is re_zero)
                       (seq 0 rw) ++ repeat re_zero (m - rw)).
  Proof.
    induction rw as [|rw IH]; intros Hm Hb.
    - cbn [seq flat_map fold_left map app]. rewrite Nat.sub_0_r. reflexivity.
    - rewrite seq_S, flat_map_app, fold_left_app. cbn [plus].
      rewrite IH by (try lia; intros; apply Hb; try lia; assumption).
      cbn [flat_map]. rewrite app_nil_r.
      set (F := fun w => fold_left (fun c i => re_add c (g (nth (li w i) lhs []) (nth (ri w i) rhs []))) is re_zero).
      replace (m - rw)%nat with (S (m - S rw)) by lia. cbn [repeat].
      rewrite app_assoc.
      replace (length pre + rw)%nat with (length (pre ++ map F (seq 0 rw))) by (rewrite app_length, map_length, seq_length; reflexivity).
      rewrite mm_block.
      + rewrite nth_app_mid, upd_app_mid. rewrite map_app. cbn [map]. rewrite <- !app_assoc. reflexivity.
      + rewrite (app_length (pre ++ map F (seq 0 rw))). cbn [length]. lia.
      + intros i Hi. apply Hb; [lia | exact Hi].
  Qed.

  Lemma length_mm_closed_prefix (rw inner h : nat) :
    length (flat_map (fun h => map (fun w =>
      fold_left (fun acc i => re_add acc (g (nth (h * inner + i) lhs []) (nth (i * rw + w) rhs [])))
                (seq 0 inner) re_zero) (seq 0 rw)) (seq 0 h)) = (h * rw)%nat.
  Proof.
    clear f_g. induction h as [|h IH]; [reflexivity|].
    rewrite seq_S, flat_map_app, app_length, IH. cbn [flat_map plus]. rewrite app_nil_r, map_length, seq_length. lia.
  Qed.

  Lemma mm_all lh rw inner :
    (forall h w i, (h < lh)%nat -> (w < rw)%nat -> (i < inner)%nat ->
       (h * inner + i < length lhs)%nat /\ (i * rw + w < length rhs)%nat) ->
    fold_left (mm_step f lhs rhs) (mm_sched lh rw inner) (Some (me_zero (lh * rw)))
    = Some (mm_closed g lh rw inner lhs rhs).
  Proof.
    intros Hb.
    assert (G : forall h0, (h0 <= lh)%nat ->
      fold_left (mm_step f lhs rhs)
        (flat_map (fun h => flat_map (fun w =>
           map (fun i => ((h * rw + w)%nat, (h * inner + i)%nat, (i * rw + w)%nat)) (seq 0 inner)) (seq 0 rw)) (seq 0 h0))
        (Some (me_zero (lh * rw)))
      = Some (flat_map (fun h => map (fun w =>
           fold_left (fun acc i => re_add acc (g (nth (h * inner + i) lhs []) (nth (i * rw + w) rhs [])))
                     (seq 0 inner) re_zero) (seq 0 rw)) (seq 0 h0) ++ repeat re_zero ((lh - h0) * rw))).
    { induction h0 as [|h0 IH]; intros Hh.
      - cbn [seq flat_map fold_left app]. rewrite Nat.sub_0_r. reflexivity.
      - rewrite seq_S, flat_map_app, fold_left_app. cbn [plus]. rewrite IH by lia.
        cbn [flat_map]. rewrite app_nil_r.
        set (pre := flat_map _ (seq 0 h0)).
        assert (Lp : length pre = (h0 * rw)%nat) by apply (length_mm_closed_prefix rw inner h0).
        rewrite <- Lp.
        rewrite (mm_row pre ((lh - h0) * rw) (fun w i => (h0 * inner + i)%nat) (fun w i => (i * rw + w)%nat) (seq 0 inner) rw).
        + rewrite flat_map_app. cbn [flat_map]. rewrite app_nil_r, <- app_assoc.
          replace ((lh - h0) * rw - rw)%nat with ((lh - S h0) * rw)%nat by nia. reflexivity.
        + nia.
        + intros w i Hw Hi. apply in_seq in Hi. apply Hb; lia. }
    unfold mm_sched, mm_closed. rewrite (G lh) by lia. rewrite Nat.sub_diag. cbn [Nat.mul repeat]. rewrite app_nil_r.
    reflexivity.
  Qed.
End MulWith.

(* consistent shapes: the debug_assert_eq!s of the source *)
Definition shape_ok (shape : nat * nat * nat * nat * nat * nat) : Prop :=
  let '(lh, ln, rw, rn, inner, outn) := shape in
  (lh * inner = ln /\ inner * rw = rn /\ lh * rw = outn)%nat.

Lemma shape_bounds lh rw inner h w i :
  (h < lh)%nat -> (w < rw)%nat -> (i < inner)%nat ->
  (h * inner + i < lh * inner)%nat /\ (i * rw + w < inner * rw)%nat.
Proof. intros; split; nia. Qed.

Lemma nth_ring_elem n m k : module_elem n m -> (k < n)%nat -> ring_elem (nth k m []).
Proof.
  intros [Hl Hf] Hk. rewrite Forall_forall in Hf. apply Hf. apply nth_In. lia.
Qed.

(* spec-level ring sum = model-level ring sum *)
Lemma ring_add_re_add a b : ring_add a b = re_add a b.
Proof.
  unfold ring_add, re_add. revert b; induction a as [|x a IH]; intros [|y b]; cbn [combine map map2]; auto.
  f_equal. apply IH.
Qed.
Lemma mm_closed_module_product lh rw inner lhs rhs :
  mm_closed negacyclic lh rw inner lhs rhs = module_product lh rw inner lhs rhs.
Proof.
  unfold mm_closed, module_product. apply flat_map_ext. intros h. apply map_ext. intros w.
  assert (G : forall is c, fold_left (fun acc i => re_add acc (negacyclic (nth (h * inner + i) lhs []) (nth (i * rw + w) rhs []))) is c
              = fold_left (fun acc i => ring_add acc (negacyclic (nth (h * inner + i) lhs []) (nth (i * rw + w) rhs []))) is c).
  { induction is as [|i is IH]; intros c; cbn [fold_left]; auto. rewrite ring_add_re_add. apply IH. }
  apply G.
Qed.

(* (1) multiply is the matrix product over the ring *)
Theorem me_multiply_spec lh ln rw rn inner outn lhs rhs :
  shape_ok (lh, ln, rw, rn, inner, outn) -> module_elem ln lhs -> module_elem rn rhs ->
  me_multiply (lh, ln, rw, rn, inner, outn) lhs rhs = Some (module_product lh rw inner lhs rhs).
Proof.
  intros (S1 & S2 & S3) Hl Hr. unfold me_multiply, me_mul_with. subst outn.
  rewrite (mm_all re_mul negacyclic lhs rhs).
  - rewrite mm_closed_module_product. reflexivity.
  - intros l r Hlt Hrt. apply ring_mul_negacyclic.
    + apply (nth_ring_elem ln lhs l Hl). destruct Hl as [E _]. lia.
    + apply (nth_ring_elem rn rhs r Hr). destruct Hr as [E _]. lia.
  - intros h w i Hh Hw Hi. destruct Hl as [E1 _]. destruct Hr as [E2 _]. rewrite E1, E2, <- S1, <- S2.
    apply shape_bounds; assumption.
Qed.

(* multiply_hadamard: closed form, no side conditions besides the array lengths *)
Lemma me_multiply_hadamard_closed lh ln rw rn inner outn lhs rhs :
  shape_ok (lh, ln, rw, rn, inner, outn) -> length lhs = ln -> length rhs = rn ->
  me_multiply_hadamard (lh, ln, rw, rn, inner, outn) lhs rhs = Some (mm_closed re_hadamard lh rw inner lhs rhs).
Proof.
  intros (S1 & S2 & S3) E1 E2. unfold me_multiply_hadamard, me_mul_with. subst outn.
  apply (mm_all (fun a b => Some (re_hadamard a b)) re_hadamard lhs rhs).
  - reflexivity.
  - intros h w i Hh Hw Hi. rewrite E1, E2, <- S1, <- S2. apply shape_bounds; assumption.
Qed.

Lemma ntt_pure_nil : ntt_pure [] = [].
Proof. apply length_zero_iff_nil. rewrite length_ntt_pure. reflexivity. Qed.
Lemma intt_pure_nil : intt_pure [] = [].
Proof. apply length_zero_iff_nil. rewrite length_intt_pure. reflexivity. Qed.
Lemma re_zero_ring_elem : ring_elem re_zero.
Proof. exact ring_elem_zeros. Qed.
Lemma ring_elem_re_add a b : length a = 64%nat -> length b = 64%nat -> ring_elem (re_add a b).
Proof.
  intros Ha Hb. split.
  - unfold re_add. rewrite length_map2; congruence.
  - apply Forall_canon_map2. intros; apply fp_add_canon.
Qed.
Lemma ntt_pure_re_zero : ntt_pure re_zero = re_zero.
Proof. exact (linear64_zero ntt_pure ntt_pure_linear). Qed.
Lemma intt_pure_re_zero : intt_pure re_zero = re_zero.
Proof. exact (linear64_zero intt_pure intt_pure_linear). Qed.

Lemma ntt_pure_re_add c n :
  length c = 64%nat -> length n = 64%nat -> ntt_pure (re_add c n) = re_add (ntt_pure c) (ntt_pure n).
Proof.
  intros Hc Hn. unfold re_add. fold (vadd c n). rewrite ntt_pure_add by congruence. reflexivity.
Qed.
Lemma intt_pure_re_add c n :
  length c = 64%nat -> length n = 64%nat -> intt_pure (re_add c n) = re_add (intt_pure c) (intt_pure n).
Proof.
  intros Hc Hn. unfold re_add. fold (vadd c n). rewrite intt_pure_add by congruence. reflexivity.
Qed.
Lemma re_hadamard_ntt a b :
  ring_elem a -> ring_elem b -> re_hadamard (ntt_pure a) (ntt_pure b) = ntt_pure (negacyclic a b).
Proof. intros Ha Hb. unfold re_hadamard. apply hadamard_ntt_pure; assumption. Qed.

Lemma fold_left_cons' {A B} (f : A -> B -> A) x l c : fold_left f (x :: l) c = fold_left f l (f c x).
Proof. reflexivity. Qed.
Lemma fold_left_nil' {A B} (f : A -> B -> A) c : fold_left f [] c = c.
Proof. reflexivity. Qed.

(* the accumulated sum commutes with the forward transform *)
Lemma ntt_pure_fold_sum (xs ys : nat -> list Z) is c :
  ring_elem c -> (forall i, In i is -> ring_elem (xs i) /\ ring_elem (ys i)) ->
  ntt_pure (fold_left (fun acc i => re_add acc (negacyclic (xs i) (ys i))) is c)
  = fold_left (fun acc i => re_add acc (re_hadamard (ntt_pure (xs i)) (ntt_pure (ys i)))) is (ntt_pure c)
  /\ ring_elem (fold_left (fun acc i => re_add acc (negacyclic (xs i) (ys i))) is c).
Proof.
  revert c; induction is as [|i is IH]; intros c Hc Hb.
  - rewrite !fold_left_nil'. split; [reflexivity | exact Hc].
  - rewrite !fold_left_cons'. destruct (Hb i (or_introl eq_refl)) as [Hx Hy].
    pose proof (ring_elem_negacyclic (xs i) (ys i) (ring_elem_length _ Hx) (ring_elem_length _ Hy)) as Hn.
    assert (Hc' : ring_elem (re_add c (negacyclic (xs i) (ys i)))).
    { apply ring_elem_re_add; apply ring_elem_length; assumption. }
    destruct (IH _ Hc' (fun j Hj => Hb j (or_intror Hj))) as [E R]. split; [|exact R].
    rewrite E. f_equal.
    rewrite ntt_pure_re_add by (apply ring_elem_length; assumption).
    rewrite (re_hadamard_ntt _ _ Hx Hy). reflexivity.
Qed.

Lemma nth_map_ntt k l : nth k (map ntt_pure l) [] = ntt_pure (nth k l []).
Proof. rewrite <- (map_nth ntt_pure l [] k), ntt_pure_nil. reflexivity. Qed.

(* (3) multiply_hadamard on transformed operands is the transform of multiply *)
Theorem me_multiply_hadamard_ntt lh ln rw rn inner outn lhs rhs :
  shape_ok (lh, ln, rw, rn, inner, outn) -> module_elem ln lhs -> module_elem rn rhs ->
  me_multiply_hadamard (lh, ln, rw, rn, inner, outn) (map ntt_pure lhs) (map ntt_pure rhs)
  = Some (map ntt_pure (module_product lh rw inner lhs rhs)).
Proof.
  intros S Hl Hr. pose proof S as (S1 & S2 & S3).
  rewrite (me_multiply_hadamard_closed lh ln rw rn inner outn (map ntt_pure lhs) (map ntt_pure rhs) S);
    [ | rewrite map_length; apply Hl | rewrite map_length; apply Hr].
  f_equal. rewrite <- mm_closed_module_product. unfold mm_closed.
  rewrite map_flat_map.
  apply flat_map_ext_in'. intros h Hh. apply in_seq in Hh. rewrite map_map. apply map_ext_in. intros w Hw. apply in_seq in Hw.
  destruct (ntt_pure_fold_sum (fun i => nth (h * inner + i) lhs []) (fun i => nth (i * rw + w) rhs []) (seq 0 inner) re_zero) as [E _].
  - exact re_zero_ring_elem.
  - intros i Hi. apply in_seq in Hi. destruct (shape_bounds lh rw inner h w i) as [B1 B2]; try lia. split.
    + apply (nth_ring_elem ln lhs _ Hl). lia.
    + apply (nth_ring_elem rn rhs _ Hr). lia.
  - rewrite E, ntt_pure_re_zero. apply fold_left_ext'. intros acc i. rewrite !nth_map_ntt. reflexivity.
Qed.

Lemma me_ntt_pure n m : module_elem n m -> me_ntt m = Some (map ntt_pure m).
Proof.
  intros [_ Hf]. unfold me_ntt. apply opt_all_map_some. intros x Hx. rewrite Forall_forall in Hf.
  apply coset_ntt_total. apply ring_elem_length. apply Hf. exact Hx.
Qed.
Lemma me_intt_pure m : Forall (fun a => length a = 64%nat) m -> me_intt m = Some (map intt_pure m).
Proof.
  intros Hf. unfold me_intt. apply opt_all_map_some. intros x Hx. rewrite Forall_forall in Hf.
  apply coset_intt_total. apply Hf. exact Hx.
Qed.

Lemma module_product_elems lh ln rw rn inner outn lhs rhs :
  shape_ok (lh, ln, rw, rn, inner, outn) -> module_elem ln lhs -> module_elem rn rhs ->
  module_elem outn (module_product lh rw inner lhs rhs).
Proof.
  intros (S1 & S2 & S3) Hl Hr. rewrite <- mm_closed_module_product. split.
  - unfold mm_closed. rewrite (length_mm_closed_prefix negacyclic lhs rhs rw inner lh). exact S3.
  - apply Forall_forall. intros x Hx. unfold mm_closed in Hx. apply in_flat_map in Hx.
    destruct Hx as [h [Hh Hx]]. apply in_seq in Hh. apply in_map_iff in Hx. destruct Hx as [w [<- Hw]]. apply in_seq in Hw.
    apply (ntt_pure_fold_sum (fun i => nth (h * inner + i) lhs []) (fun i => nth (i * rw + w) rhs []) (seq 0 inner) re_zero).
    + exact re_zero_ring_elem.
    + intros i Hi. apply in_seq in Hi. destruct (shape_bounds lh rw inner h w i) as [B1 B2]; try lia. split.
      * apply (nth_ring_elem ln lhs _ Hl). lia.
      * apply (nth_ring_elem rn rhs _ Hr). lia.
Qed.

(* (2) fast_multiply = multiply *)
Theorem me_fast_multiply_spec lh ln rw rn inner outn lhs rhs :
  shape_ok (lh, ln, rw, rn, inner, outn) -> module_elem ln lhs -> module_elem rn rhs ->
  me_fast_multiply (lh, ln, rw, rn, inner, outn) lhs rhs = Some (module_product lh rw inner lhs rhs).
Proof.
  intros S Hl Hr. unfold me_fast_multiply.
  rewrite (me_ntt_pure ln lhs Hl), (me_ntt_pure rn rhs Hr).
  rewrite (me_multiply_hadamard_ntt lh ln rw rn inner outn lhs rhs S Hl Hr).
  pose proof (module_product_elems lh ln rw rn inner outn lhs rhs S Hl Hr) as [_ Hp].
  rewrite me_intt_pure.
  - f_equal. rewrite map_map. rewrite <- (map_id (module_product lh rw inner lhs rhs)) at 2.
    apply map_ext_in. intros a Ha. rewrite Forall_forall in Hp. apply intt_ntt_pure. apply Hp. exact Ha.
  - apply Forall_forall. intros x Hx. apply in_map_iff in Hx. destruct Hx as [y [<- Hy]].
    rewrite length_ntt_pure. rewrite Forall_forall in Hp. apply ring_elem_length. apply Hp. exact Hy.
Qed.

(* module_mults_agree: for every consistent shape and all module elements the three strategies compute the same
   matrix product over the ring, namely the one built from the negacyclic convolution *)
Theorem module_mults_agree lh ln rw rn inner outn lhs rhs :
  shape_ok (lh, ln, rw, rn, inner, outn) -> module_elem ln lhs -> module_elem rn rhs ->
  let shape := (lh, ln, rw, rn, inner, outn) in
  let product := module_product lh rw inner lhs rhs in
  me_multiply shape lhs rhs = Some product /\
  me_fast_multiply shape lhs rhs = Some product /\
  match me_ntt lhs, me_ntt rhs with
  | Some l, Some r => me_multiply_hadamard shape l r = me_ntt product
  | _, _ => False
  end.
Proof.
  intros S Hl Hr shape product. split; [|split].
  - apply me_multiply_spec; assumption.
  - apply me_fast_multiply_spec; assumption.
  - rewrite (me_ntt_pure ln lhs Hl), (me_ntt_pure rn rhs Hr).
    rewrite (me_ntt_pure outn product (module_product_elems lh ln rw rn inner outn lhs rhs S Hl Hr)).
    apply me_multiply_hadamard_ntt; assumption.
Qed.

Lemma kem_shapes_ok :
  shape_ok SHAPE_GA /\ shape_ok SHAPE_BG /\ shape_ok SHAPE_BGA /\ shape_ok SHAPE_DEC /\
  module_elem 4 (repeat (unit_vec 64 1) 4).
Proof.
  cbv [shape_ok SHAPE_GA SHAPE_BG SHAPE_BGA SHAPE_DEC].
  do 4 (split; [repeat split; reflexivity|]).
  split; [reflexivity|]. cbn [repeat].
  repeat (apply Forall_cons; [apply ring_elem_unit; lia|]). apply Forall_nil.
Qed.
