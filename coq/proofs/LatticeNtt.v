(* proofs/LatticeNtt.v - C18: the coset NTT of lattice.rs evaluates at the 64 roots of X^64 + 1, the inverse
   transform inverts it, and the ring product is the negacyclic convolution.
   Route: both transforms are linear maps (structural proof over the butterfly schedule); a linear map on
   F_p^64 is determined by its values on the 64 unit vectors (LatticeBase.linear64_ext); those values are
   computed with vm_compute on the REGENERATED tables. *)
From Coq Require Import ZArith Bool List Lia Morphisms Setoid.
From TF Require Import BFieldGen LatticeGen Lattice LatticeSpec LatticeBase.
Import ListNotations.
Open Scope Z_scope.

(* ------------------------------------------------------------------ facts computed on the regenerated tables *)
Definition psi : Z := nth 32 PSI_BITREV 0.
Definition ROOTS : list Z := map (ntt_root psi) (seq 0 64).
Definition canonicalb (x : Z) : bool := (0 <=? x) && (x <? P).
Lemma canonicalb_ok x : canonicalb x = true -> canonical x.
Proof. unfold canonicalb, canonical. intros H. apply andb_prop in H. destruct H as [H1 H2].
  apply Z.leb_le in H1. apply Z.ltb_lt in H2. split; assumption. Qed.
Lemma forallb_seq (f : nat -> bool) n : forallb f (seq 0 n) = true -> forall i, (i < n)%nat -> f i = true.
Proof. intros H i Hi. rewrite forallb_forall in H. apply H. apply in_seq. lia. Qed.
Lemma forallb_canonical l : forallb canonicalb l = true -> Forall canonical l.
Proof. intros H. apply Forall_forall. intros x Hx. apply canonicalb_ok. rewrite forallb_forall in H. apply H, Hx. Qed.

Definition in_bounds (n m : nat) (e : nat * nat * nat) : bool :=
  let '(j, jt, zi) := e in (j <? n)%nat && (jt <? n)%nat && (zi <? m)%nat.

Definition ntt_sched_list : list (nat * nat * nat) := match ntt_sched with Some s => s | None => [] end.
Lemma ntt_sched_defined : ntt_sched = Some ntt_sched_list.
Proof. vm_compute. reflexivity. Qed.
Lemma ntt_sched_ok : forallb (in_bounds 64 (length PSI_BITREV)) ntt_sched_list = true.
Proof. vm_compute. reflexivity. Qed.
Lemma intt_sched_ok : forallb (in_bounds 64 (length PSI_INV_BITREV)) intt_sched = true.
Proof. vm_compute. reflexivity. Qed.

(* each table fact is its own vm_compute lemma (the kernel re-checks them with the VM) *)
Lemma tbl_len_fwd : (length PSI_BITREV =? 64)%nat = true. Proof. vm_compute. reflexivity. Qed.
Lemma tbl_len_inv : (length PSI_INV_BITREV =? 64)%nat = true. Proof. vm_compute. reflexivity. Qed.
Lemma tbl_canon_fwd : forallb canonicalb PSI_BITREV = true. Proof. vm_compute. reflexivity. Qed.
Lemma tbl_canon_inv : forallb canonicalb PSI_INV_BITREV = true. Proof. vm_compute. reflexivity. Qed.
Lemma tbl_canon_ninv : canonicalb N_INV = true. Proof. vm_compute. reflexivity. Qed.
Lemma tbl_powers : forallb (fun i => nth i PSI_BITREV 0 =? pow_mod psi (bitrev 6 i)) (seq 0 64) = true.
Proof. vm_compute. reflexivity. Qed.
Lemma tbl_inverses : forallb (fun i => fp_mul (nth i PSI_BITREV 0) (nth i PSI_INV_BITREV 0) =? 1) (seq 0 64) = true.
Proof. vm_compute. reflexivity. Qed.
Lemma tbl_ninv : (fp_mul N_INV 64 =? 1) = true. Proof. vm_compute. reflexivity. Qed.
Lemma tbl_roots_neg_one : forallb (fun k => pow_mod (ntt_root psi k) 64 =? P - 1) (seq 0 64) = true.
Proof. vm_compute. reflexivity. Qed.
Lemma tbl_roots_canon : forallb canonicalb ROOTS = true. Proof. vm_compute. reflexivity. Qed.

(* the psi tables of the current source: psi = table[32] is a primitive 128th root of unity (psi^64 = -1 for
   every odd power used as evaluation point), table[i] = psi^bitrev6(i), the inverse table holds the
   inverses entry by entry, and N_INV is the inverse of 64 *)
Lemma psi_tables_ok :
  length PSI_BITREV = 64%nat /\ length PSI_INV_BITREV = 64%nat /\
  Forall canonical PSI_BITREV /\ Forall canonical PSI_INV_BITREV /\ canonical N_INV /\
  (forall i, (i < 64)%nat -> nth i PSI_BITREV 0 = pow_mod psi (bitrev 6 i)) /\
  (forall i, (i < 64)%nat -> (nth i PSI_BITREV 0 * nth i PSI_INV_BITREV 0) mod P = 1) /\
  (N_INV * 64) mod P = 1 /\
  (forall k, (k < 64)%nat -> pow_mod (ntt_root psi k) 64 = P - 1).
Proof.
  split; [apply Nat.eqb_eq; exact tbl_len_fwd|].
  split; [apply Nat.eqb_eq; exact tbl_len_inv|].
  split; [apply forallb_canonical; exact tbl_canon_fwd|].
  split; [apply forallb_canonical; exact tbl_canon_inv|].
  split; [apply canonicalb_ok; exact tbl_canon_ninv|].
  split; [intros i Hi; apply Z.eqb_eq; apply (forallb_seq _ 64 tbl_powers i Hi)|].
  split; [intros i Hi; apply Z.eqb_eq; apply (forallb_seq _ 64 tbl_inverses i Hi)|].
  split; [apply Z.eqb_eq; exact tbl_ninv|].
  intros i Hi. apply Z.eqb_eq. apply (forallb_seq _ 64 tbl_roots_neg_one i Hi).
Qed.
Lemma ROOTS_canonical : Forall canonical ROOTS.
Proof. apply forallb_canonical; exact tbl_roots_canon. Qed.
Lemma ROOTS_neg_one r : In r ROOTS -> pow_mod r 64 = P - 1.
Proof.
  unfold ROOTS. intros H. apply in_map_iff in H. destruct H as [k [<- Hk]]. apply in_seq in Hk.
  apply Z.eqb_eq. apply (forallb_seq _ 64 tbl_roots_neg_one k). lia.
Qed.

Lemma length_ROOTS : length ROOTS = 64%nat.
Proof. unfold ROOTS. rewrite map_length. apply seq_length. Qed.
Global Opaque PSI_BITREV PSI_INV_BITREV N_INV ntt_sched_list intt_sched ntt_sched ROOTS psi.

(* ------------------------------------------------------------------ the transforms without the option monad *)
Definition pstep_fwd (tbl a : list Z) (e : nat * nat * nat) : list Z :=
  let '(j, jt, zi) := e in
  let zeta := nth zi tbl 0 in
  let u := nth j a 0 in
  let v := fp_mul (nth jt a 0) zeta in
  upd (upd a j (fp_add u v)) jt (fp_sub u v).
Definition pstep_inv (tbl a : list Z) (e : nat * nat * nat) : list Z :=
  let '(j, jt, zi) := e in
  let zeta := nth zi tbl 0 in
  let u := nth j a 0 in
  let v := nth jt a 0 in
  upd (upd a j (fp_add u v)) jt (fp_mul (fp_sub u v) zeta).
Definition ntt_pure (a : list Z) : list Z := fold_left (pstep_fwd PSI_BITREV) ntt_sched_list a.
Definition intt_pure (a : list Z) : list Z :=
  map (fun x => fp_mul x N_INV) (fold_left (pstep_inv PSI_INV_BITREV) intt_sched a).

Lemma length_pstep_fwd tbl a e : length (pstep_fwd tbl a e) = length a.
Proof. destruct e as [[j jt] zi]. unfold pstep_fwd. rewrite !length_upd. reflexivity. Qed.
Lemma length_pstep_inv tbl a e : length (pstep_inv tbl a e) = length a.
Proof. destruct e as [[j jt] zi]. unfold pstep_inv. rewrite !length_upd. reflexivity. Qed.
Lemma length_fold_fwd tbl s a : length (fold_left (pstep_fwd tbl) s a) = length a.
Proof. revert a; induction s as [|e s IH]; intros a; cbn [fold_left]; auto. rewrite IH. apply length_pstep_fwd. Qed.
Lemma length_fold_inv tbl s a : length (fold_left (pstep_inv tbl) s a) = length a.
Proof. revert a; induction s as [|e s IH]; intros a; cbn [fold_left]; auto. rewrite IH. apply length_pstep_inv. Qed.

Lemma in_bounds_elim n m j jt zi :
  in_bounds n m (j, jt, zi) = true -> (j < n)%nat /\ (jt < n)%nat /\ (zi < m)%nat.
Proof.
  unfold in_bounds. intros H. apply andb_prop in H. destruct H as [H H3]. apply andb_prop in H.
  destruct H as [H1 H2]. apply Nat.ltb_lt in H1. apply Nat.ltb_lt in H2. apply Nat.ltb_lt in H3. auto.
Qed.
Lemma step_fwd_pure tbl a e :
  in_bounds (length a) (length tbl) e = true -> step_fwd tbl (Some a) e = Some (pstep_fwd tbl a e).
Proof.
  destruct e as [[j jt] zi]. intros H. apply in_bounds_elim in H. destruct H as (H1 & H2 & H3).
  unfold step_fwd, pstep_fwd.
  rewrite (nth_error_nth0 tbl zi 0 H3), (nth_error_nth0 a j 0 H1), (nth_error_nth0 a jt 0 H2). reflexivity.
Qed.
Lemma step_inv_pure tbl a e :
  in_bounds (length a) (length tbl) e = true -> step_inv tbl (Some a) e = Some (pstep_inv tbl a e).
Proof.
  destruct e as [[j jt] zi]. intros H. apply in_bounds_elim in H. destruct H as (H1 & H2 & H3).
  unfold step_inv, pstep_inv.
  rewrite (nth_error_nth0 tbl zi 0 H3), (nth_error_nth0 a j 0 H1), (nth_error_nth0 a jt 0 H2). reflexivity.
Qed.
Lemma fold_fwd_pure tbl n s a :
  forallb (in_bounds n (length tbl)) s = true -> length a = n ->
  fold_left (step_fwd tbl) s (Some a) = Some (fold_left (pstep_fwd tbl) s a).
Proof.
  revert a; induction s as [|e s IH]; intros a Hs Ha; cbn [fold_left]; auto.
  cbn [forallb] in Hs. apply andb_prop in Hs. destruct Hs as [He Hs].
  rewrite step_fwd_pure by (rewrite Ha; exact He).
  apply IH; [exact Hs | rewrite length_pstep_fwd; exact Ha].
Qed.
Lemma fold_inv_pure tbl n s a :
  forallb (in_bounds n (length tbl)) s = true -> length a = n ->
  fold_left (step_inv tbl) s (Some a) = Some (fold_left (pstep_inv tbl) s a).
Proof.
  revert a; induction s as [|e s IH]; intros a Hs Ha; cbn [fold_left]; auto.
  cbn [forallb] in Hs. apply andb_prop in Hs. destruct Hs as [He Hs].
  rewrite step_inv_pure by (rewrite Ha; exact He).
  apply IH; [exact Hs | rewrite length_pstep_inv; exact Ha].
Qed.

(* no index of either transform is out of bounds: on 64 coefficients the transforms never panic *)
Lemma coset_ntt_total a : length a = 64%nat -> coset_ntt_noswap_64 a = Some (ntt_pure a).
Proof.
  intros Ha. unfold coset_ntt_noswap_64, ntt_pure. rewrite ntt_sched_defined.
  exact (fold_fwd_pure PSI_BITREV 64 ntt_sched_list a ntt_sched_ok Ha).
Qed.
Lemma coset_intt_total a : length a = 64%nat -> coset_intt_noswap_64 a = Some (intt_pure a).
Proof.
  intros Ha. unfold coset_intt_noswap_64, intt_pure.
  rewrite (fold_inv_pure PSI_INV_BITREV 64 intt_sched a intt_sched_ok Ha). reflexivity.
Qed.
Lemma length_ntt_pure a : length (ntt_pure a) = length a.
Proof. apply length_fold_fwd. Qed.
Lemma length_intt_pure a : length (intt_pure a) = length a.
Proof. unfold intt_pure. rewrite map_length. apply length_fold_inv. Qed.

(* ------------------------------------------------------------------ linearity (structural, any schedule, any table) *)
Lemma pstep_fwd_add tbl a b e :
  length a = length b -> pstep_fwd tbl (vadd a b) e = vadd (pstep_fwd tbl a e) (pstep_fwd tbl b e).
Proof.
  intros H. destruct e as [[j jt] zi]. unfold pstep_fwd, vadd. rewrite !map2_upd. fold (vadd a b).
  rewrite !nth_vadd by exact H. f_equal; [f_equal|]; fp_ring.
Qed.
Lemma pstep_fwd_scale tbl c a e : pstep_fwd tbl (vscale c a) e = vscale c (pstep_fwd tbl a e).
Proof.
  destruct e as [[j jt] zi]. unfold pstep_fwd, vscale. rewrite !map_upd. fold (vscale c a).
  rewrite !nth_vscale. f_equal; [f_equal|]; fp_ring.
Qed.
Lemma pstep_inv_add tbl a b e :
  length a = length b -> pstep_inv tbl (vadd a b) e = vadd (pstep_inv tbl a e) (pstep_inv tbl b e).
Proof.
  intros H. destruct e as [[j jt] zi]. unfold pstep_inv, vadd. rewrite !map2_upd. fold (vadd a b).
  rewrite !nth_vadd by exact H. f_equal; [f_equal|]; fp_ring.
Qed.
Lemma pstep_inv_scale tbl c a e : pstep_inv tbl (vscale c a) e = vscale c (pstep_inv tbl a e).
Proof.
  destruct e as [[j jt] zi]. unfold pstep_inv, vscale. rewrite !map_upd. fold (vscale c a).
  rewrite !nth_vscale. f_equal; [f_equal|]; fp_ring.
Qed.
Lemma fold_fwd_add tbl s a b :
  length a = length b ->
  fold_left (pstep_fwd tbl) s (vadd a b) = vadd (fold_left (pstep_fwd tbl) s a) (fold_left (pstep_fwd tbl) s b).
Proof.
  revert a b; induction s as [|e s IH]; intros a b H; cbn [fold_left]; auto.
  rewrite pstep_fwd_add by exact H. apply IH. rewrite !length_pstep_fwd. exact H.
Qed.
Lemma fold_fwd_scale tbl s c a :
  fold_left (pstep_fwd tbl) s (vscale c a) = vscale c (fold_left (pstep_fwd tbl) s a).
Proof. revert a; induction s as [|e s IH]; intros a; cbn [fold_left]; auto. rewrite pstep_fwd_scale. apply IH. Qed.
Lemma fold_inv_add tbl s a b :
  length a = length b ->
  fold_left (pstep_inv tbl) s (vadd a b) = vadd (fold_left (pstep_inv tbl) s a) (fold_left (pstep_inv tbl) s b).
Proof.
  revert a b; induction s as [|e s IH]; intros a b H; cbn [fold_left]; auto.
  rewrite pstep_inv_add by exact H. apply IH. rewrite !length_pstep_inv. exact H.
Qed.
Lemma fold_inv_scale tbl s c a :
  fold_left (pstep_inv tbl) s (vscale c a) = vscale c (fold_left (pstep_inv tbl) s a).
Proof. revert a; induction s as [|e s IH]; intros a; cbn [fold_left]; auto. rewrite pstep_inv_scale. apply IH. Qed.

Lemma ntt_pure_add a b : length a = length b -> ntt_pure (vadd a b) = vadd (ntt_pure a) (ntt_pure b).
Proof. apply fold_fwd_add. Qed.
Lemma ntt_pure_scale c a : ntt_pure (vscale c a) = vscale c (ntt_pure a).
Proof. apply fold_fwd_scale. Qed.
Lemma intt_pure_add a b : length a = length b -> intt_pure (vadd a b) = vadd (intt_pure a) (intt_pure b).
Proof.
  intros H. unfold intt_pure. rewrite fold_inv_add by exact H. unfold vadd.
  rewrite map_map2, map2_map_l, map2_map_r. apply map2_ext_in. intros; fp_ring.
Qed.
Lemma intt_pure_scale c a : intt_pure (vscale c a) = vscale c (intt_pure a).
Proof.
  unfold intt_pure. rewrite fold_inv_scale. unfold vscale. rewrite !map_map. apply map_ext. intros; fp_ring.
Qed.
(* coset_ntt_linear / coset_intt_linear *)
Lemma ntt_pure_linear : linear64 ntt_pure.
Proof.
  constructor.
  - intros a b Ha Hb. apply ntt_pure_add. congruence.
  - intros c a _. apply ntt_pure_scale.
  - intros a Ha. rewrite length_ntt_pure. exact Ha.
Qed.
Lemma intt_pure_linear : linear64 intt_pure.
Proof.
  constructor.
  - intros a b Ha Hb. apply intt_pure_add. congruence.
  - intros c a _. apply intt_pure_scale.
  - intros a Ha. rewrite length_intt_pure. exact Ha.
Qed.

(* ------------------------------------------------------------------ evaluation *)
Definition eval_at_roots (a : list Z) : list Z := map (fun r => zeval a r mod P) ROOTS.

Lemma zeval_vadd a b r : length a = length b -> eqp (zeval (vadd a b) r) (zeval a r + zeval b r).
Proof.
  revert b; induction a as [|x a IH]; intros [|y b] H; simpl in *; try discriminate.
  - reflexivity.
  - unfold vadd in *. rewrite IH by lia. unfold fp_add. rewrite mod_eqp. apply eqp_of_eq. ring.
Qed.
Lemma zeval_vscale c a r : eqp (zeval (vscale c a) r) (c * zeval a r).
Proof.
  induction a as [|x a IH]; simpl.
  - apply eqp_of_eq; ring.
  - unfold vscale in *. rewrite IH. unfold fp_mul. rewrite mod_eqp. apply eqp_of_eq. ring.
Qed.
Lemma eval_at_roots_linear : linear64 eval_at_roots.
Proof.
  constructor.
  - intros a b Ha Hb. unfold eval_at_roots.
    transitivity (map (fun r => fp_add (zeval a r mod P) (zeval b r mod P)) ROOTS).
    2:{ unfold vadd. symmetry. apply map2_same_map. }
    apply map_ext. intros r.
    assert (E : eqp (zeval (vadd a b) r) (zeval a r + zeval b r)) by (apply zeval_vadd; congruence).
    unfold eqp in E. rewrite E. unfold fp_add. eqp_ring.
  - intros c a _. unfold eval_at_roots.
    transitivity (map (fun r => fp_mul c (zeval a r mod P)) ROOTS).
    2:{ unfold vscale. rewrite map_map. reflexivity. }
    apply map_ext. intros r.
    pose proof (zeval_vscale c a r) as E. unfold eqp in E. rewrite E. unfold fp_mul. eqp_ring.
  - intros a _. unfold eval_at_roots. rewrite map_length. apply length_ROOTS.
Qed.

Lemma pow_mod_spec r n : pow_mod r n = (r ^ Z.of_nat n) mod P.
Proof.
  induction n as [|n IH].
  - reflexivity.
  - cbn [pow_mod]. rewrite IH. rewrite Nat2Z.inj_succ, Z.pow_succ_r by lia. eqp_ring.
Qed.
Lemma zeval_zeros n r : zeval (zeros n) r = 0.
Proof.
  induction n as [|n IH]; [reflexivity|].
  change (zeros (S n)) with (0 :: zeros n). cbn [zeval]. rewrite IH. ring.
Qed.
Lemma zeval_shift k t r : zeval (zeros k ++ t) r = r ^ Z.of_nat k * zeval t r.
Proof.
  induction k as [|k IH].
  - change (zeros 0 ++ t) with t. change (Z.of_nat 0) with 0. rewrite Z.pow_0_r. ring.
  - change (zeros (S k) ++ t) with (0 :: (zeros k ++ t)). cbn [zeval]. rewrite IH.
    rewrite Nat2Z.inj_succ, Z.pow_succ_r by lia. ring.
Qed.
Lemma zeval_unit n k r : zeval (unit_vec n k) r = r ^ Z.of_nat k.
Proof. unfold unit_vec. rewrite zeval_shift. cbn [zeval]. rewrite zeval_zeros. ring. Qed.
Lemma eval_at_roots_unit k : eval_at_roots (unit_vec 64 k) = map (fun r => pow_mod r k) ROOTS.
Proof. unfold eval_at_roots. apply map_ext. intros r. rewrite zeval_unit, pow_mod_spec. reflexivity. Qed.

(* rows of powers: row i = (r^i mod P) for r in roots, computed incrementally *)
Fixpoint pow_rows (n : nat) (roots row : list Z) : list (list Z) :=
  match n with
  | O => []
  | S n' => row :: pow_rows n' roots (map2 fp_mul roots row)
  end.
Lemma pow_rows_spec roots n k :
  pow_rows n roots (map (fun r => pow_mod r k) roots) = map (fun i => map (fun r => pow_mod r i) roots) (seq k n).
Proof.
  revert k; induction n as [|n IH]; intros k; simpl; auto. f_equal.
  rewrite <- IH. f_equal. rewrite map2_map_r.
  clear. induction roots as [|r l IHl]; simpl; auto. f_equal. exact IHl.
Qed.

Definition units64 : list (list Z) := map (unit_vec 64) (seq 0 64).
(* the 64 basis vectors, by computation on the regenerated table: ntt(e_k)[slot] = root_slot^k *)
Lemma ntt_basis_computed : map ntt_pure units64 = pow_rows 64 ROOTS (map (fun r => pow_mod r 0) ROOTS).
Proof. vm_compute. reflexivity. Qed.
Lemma intt_ntt_basis_computed : map (fun a => intt_pure (ntt_pure a)) units64 = units64.
Proof. vm_compute. reflexivity. Qed.
Lemma ntt_intt_basis_computed : map (fun a => ntt_pure (intt_pure a)) units64 = units64.
Proof. vm_compute. reflexivity. Qed.


Lemma ntt_pure_unit k : (k < 64)%nat -> ntt_pure (unit_vec 64 k) = eval_at_roots (unit_vec 64 k).
Proof.
  intros Hk. rewrite eval_at_roots_unit.
  pose proof ntt_basis_computed as E. rewrite (pow_rows_spec ROOTS 64 0) in E.
  unfold units64 in E. rewrite map_map in E.
  apply (ext_in_map E). apply in_seq. lia.
Qed.

(* the coset NTT is evaluation at the 64 roots, in the slot order of the code *)
Lemma ntt_pure_evaluates a : ring_elem a -> ntt_pure a = eval_at_roots a.
Proof.
  apply linear64_ext; [exact ntt_pure_linear | exact eval_at_roots_linear | exact ntt_pure_unit].
Qed.

Lemma intt_ntt_pure a : ring_elem a -> intt_pure (ntt_pure a) = a.
Proof.
  apply (linear64_ext (fun a => intt_pure (ntt_pure a)) (fun a => a)).
  - apply linear64_compose; [exact ntt_pure_linear | exact intt_pure_linear].
  - exact linear64_id.
  - intros k Hk. pose proof intt_ntt_basis_computed as E. unfold units64 in E. rewrite map_map in E.
    apply (ext_in_map E). apply in_seq. lia.
Qed.
Lemma ntt_intt_pure a : ring_elem a -> ntt_pure (intt_pure a) = a.
Proof.
  apply (linear64_ext (fun a => ntt_pure (intt_pure a)) (fun a => a)).
  - apply linear64_compose; [exact intt_pure_linear | exact ntt_pure_linear].
  - exact linear64_id.
  - intros k Hk. pose proof ntt_intt_basis_computed as E. unfold units64 in E. rewrite map_map in E.
    apply (ext_in_map E). apply in_seq. lia.
Qed.

Lemma ring_elem_eval_at_roots a : ring_elem (eval_at_roots a).
Proof.
  split.
  - unfold eval_at_roots. rewrite map_length. apply length_ROOTS.
  - unfold eval_at_roots. apply Forall_canon_map. intros; apply canonical_mod.
Qed.
Lemma ring_elem_ntt_pure a : ring_elem a -> ring_elem (ntt_pure a).
Proof. intros H. rewrite ntt_pure_evaluates by exact H. apply ring_elem_eval_at_roots. Qed.
Lemma Forall_canon_fold_inv tbl s a :
  Forall canonical a -> Forall canonical (fold_left (pstep_inv tbl) s a).
Proof.
  revert a; induction s as [|e s IH]; intros a Ha; cbn [fold_left]; auto. apply IH.
  destruct e as [[j jt] zi]. unfold pstep_inv.
  apply Forall_canon_upd; [apply Forall_canon_upd; [exact Ha | apply fp_add_canon] | apply fp_mul_canon].
Qed.
Lemma ring_elem_intt_pure a : length a = 64%nat -> ring_elem (intt_pure a).
Proof.
  intros H. split.
  - rewrite length_intt_pure. exact H.
  - unfold intt_pure. apply Forall_canon_map. intros; apply fp_mul_canon.
Qed.

(* ------------------------------------------------------------------ the negacyclic convolution under evaluation *)
Lemma zeval_zpoly_add x y r : zeval (zpoly_add x y) r = zeval x r + zeval y r.
Proof.
  revert y; induction x as [|a x IH]; intros [|b y]; cbn [zpoly_add zeval]; try ring.
  rewrite IH. ring.
Qed.
Lemma zeval_zpoly_scale c x r : zeval (zpoly_scale c x) r = c * zeval x r.
Proof.
  induction x as [|a x IH]; cbn [zpoly_scale map zeval]; try ring.
  unfold zpoly_scale in IH. rewrite IH. ring.
Qed.
Lemma zeval_zpoly_mul a b r : zeval (zpoly_mul a b) r = zeval a r * zeval b r.
Proof.
  induction a as [|x a IH]; cbn [zpoly_mul zeval]; try ring.
  rewrite zeval_zpoly_add, zeval_zpoly_scale. cbn [zeval]. rewrite IH. ring.
Qed.
Lemma zeval_map_opp l r : zeval (map Z.opp l) r = - zeval l r.
Proof. induction l as [|a l IH]; cbn [map zeval]; try ring. rewrite IH. ring. Qed.
Lemma zeval_firstn_skipn n d r :
  zeval d r = zeval (firstn n d) r + r ^ Z.of_nat n * zeval (skipn n d) r.
Proof.
  revert d; induction n as [|n IH]; intros d.
  - change (Z.of_nat 0) with 0. rewrite Z.pow_0_r. cbn [firstn skipn zeval]. ring.
  - destruct d as [|x d]; cbn [firstn skipn zeval]; try ring.
    rewrite (IH d) at 1. rewrite Nat2Z.inj_succ, Z.pow_succ_r by lia. ring.
Qed.
Lemma zeval_map_mod l r : eqp (zeval (map (fun c => c mod P) l) r) (zeval l r).
Proof.
  induction l as [|a l IH]; cbn [map zeval]; [reflexivity|]. rewrite IH, mod_eqp. reflexivity.
Qed.

(* at a root r of X^64 + 1 the negacyclic convolution evaluates to the product of the evaluations *)
Lemma zeval_negacyclic a b r :
  pow_mod r 64 = P - 1 -> eqp (zeval (negacyclic a b) r) (zeval a r * zeval b r).
Proof.
  intros Hr. unfold negacyclic. rewrite zeval_map_mod. unfold nega_fold.
  rewrite zeval_zpoly_add, zeval_map_opp, <- zeval_zpoly_mul.
  set (d := zpoly_mul a b).
  rewrite (zeval_firstn_skipn 64 d r).
  assert (E : eqp (r ^ Z.of_nat 64) (-1)).
  { unfold eqp. rewrite <- pow_mod_spec, Hr. reflexivity. }
  rewrite E. apply eqp_of_eq. ring.
Qed.

Lemma length_zpoly_add x y : length (zpoly_add x y) = Nat.max (length x) (length y).
Proof.
  revert y; induction x as [|a x IH]; intros [|b y]; cbn [zpoly_add length]; auto.
  rewrite IH. reflexivity.
Qed.
Lemma length_zpoly_mul a b :
  a <> [] -> b <> [] -> length (zpoly_mul a b) = (length a + length b - 1)%nat.
Proof.
  intros Ha Hb. induction a as [|x a IH]; [congruence|].
  cbn [zpoly_mul]. rewrite length_zpoly_add. unfold zpoly_scale. rewrite map_length. cbn [length].
  destruct a as [|y a].
  - cbn [zpoly_mul length]. destruct b; [congruence|]. cbn [length]. lia.
  - rewrite IH by discriminate. cbn [length]. destruct b; [congruence|]. cbn [length]. lia.
Qed.
Lemma ring_elem_negacyclic a b : length a = 64%nat -> length b = 64%nat -> ring_elem (negacyclic a b).
Proof.
  intros Ha Hb. split.
  - unfold negacyclic, nega_fold. rewrite map_length, length_zpoly_add, map_length, firstn_length, skipn_length.
    rewrite length_zpoly_mul.
    + rewrite Ha, Hb. reflexivity.
    + intros ->; discriminate.
    + intros ->; discriminate.
  - unfold negacyclic. apply Forall_canon_map_mod.
Qed.

(* pointwise product in the NTT domain = NTT of the negacyclic convolution *)
Lemma hadamard_ntt_pure a b :
  ring_elem a -> ring_elem b -> map2 fp_mul (ntt_pure a) (ntt_pure b) = ntt_pure (negacyclic a b).
Proof.
  intros Ha Hb. rewrite (ntt_pure_evaluates a Ha), (ntt_pure_evaluates b Hb).
  rewrite ntt_pure_evaluates by (apply ring_elem_negacyclic; apply ring_elem_length; assumption).
  unfold eval_at_roots. rewrite map2_same_map. apply map_ext_in. intros r Hr.
  pose proof (zeval_negacyclic a b r (ROOTS_neg_one r Hr)) as E. unfold eqp in E. rewrite E.
  unfold fp_mul. eqp_ring.
Qed.

(* ring_mul_negacyclic: the ring product of the implementation is the negacyclic convolution, for ALL pairs *)
Theorem ring_mul_negacyclic a b :
  ring_elem a -> ring_elem b -> re_mul a b = Some (negacyclic a b).
Proof.
  intros Ha Hb. pose proof (ring_elem_length a Ha) as La. pose proof (ring_elem_length b Hb) as Lb.
  unfold re_mul. rewrite (coset_ntt_total a La), (coset_ntt_total b Lb).
  rewrite coset_intt_total by (rewrite length_map2; rewrite !length_ntt_pure; congruence).
  f_equal. rewrite (hadamard_ntt_pure a b Ha Hb).
  apply intt_ntt_pure. apply ring_elem_negacyclic; assumption.
Qed.

Lemma ROOTS_def : ROOTS = map (ntt_root psi) (seq 0 64).
Proof. Transparent ROOTS. reflexivity. Opaque ROOTS. Qed.
Lemma psi_def : psi = nth 32 PSI_BITREV 0.
Proof. Transparent psi. reflexivity. Opaque psi. Qed.

(* coset_ntt_evaluates: slot k of the forward transform is a(psi^(2 bitrev6(k) + 1)) *)
Theorem coset_ntt_evaluates a :
  ring_elem a ->
  coset_ntt_noswap_64 a = Some (map (fun k => zeval a (ntt_root (nth 32 PSI_BITREV 0) k) mod P) (seq 0 64)).
Proof.
  intros Ha. rewrite (coset_ntt_total a (ring_elem_length a Ha)). f_equal.
  rewrite (ntt_pure_evaluates a Ha). unfold eval_at_roots. rewrite ROOTS_def, map_map, psi_def. reflexivity.
Qed.
Theorem intt_ntt_id a :
  ring_elem a ->
  match coset_ntt_noswap_64 a with Some f => coset_intt_noswap_64 f = Some a | None => False end.
Proof.
  intros Ha. rewrite (coset_ntt_total a (ring_elem_length a Ha)).
  rewrite coset_intt_total by (rewrite length_ntt_pure; apply ring_elem_length; exact Ha).
  f_equal. apply intt_ntt_pure; exact Ha.
Qed.
Theorem ntt_intt_id a :
  ring_elem a ->
  match coset_intt_noswap_64 a with Some f => coset_ntt_noswap_64 f = Some a | None => False end.
Proof.
  intros Ha. rewrite (coset_intt_total a (ring_elem_length a Ha)).
  rewrite coset_ntt_total by (rewrite length_intt_pure; apply ring_elem_length; exact Ha).
  f_equal. apply ntt_intt_pure; exact Ha.
Qed.

(* coset_ntt_linear / coset_intt_linear, stated on the model functions *)
Theorem coset_ntt_linear a b c :
  length a = 64%nat -> length b = 64%nat ->
  exists fa fb, coset_ntt_noswap_64 a = Some fa /\ coset_ntt_noswap_64 b = Some fb /\
    coset_ntt_noswap_64 (map2 fp_add a b) = Some (map2 fp_add fa fb) /\
    coset_ntt_noswap_64 (map (fp_mul c) a) = Some (map (fp_mul c) fa).
Proof.
  intros Ha Hb. exists (ntt_pure a), (ntt_pure b).
  split; [apply coset_ntt_total; exact Ha|]. split; [apply coset_ntt_total; exact Hb|]. split.
  - rewrite coset_ntt_total by (rewrite length_map2; congruence). f_equal.
    apply (ntt_pure_add a b). congruence.
  - rewrite coset_ntt_total by (rewrite map_length; exact Ha). f_equal. apply (ntt_pure_scale c a).
Qed.
Theorem coset_intt_linear a b c :
  length a = 64%nat -> length b = 64%nat ->
  exists fa fb, coset_intt_noswap_64 a = Some fa /\ coset_intt_noswap_64 b = Some fb /\
    coset_intt_noswap_64 (map2 fp_add a b) = Some (map2 fp_add fa fb) /\
    coset_intt_noswap_64 (map (fp_mul c) a) = Some (map (fp_mul c) fa).
Proof.
  intros Ha Hb. exists (intt_pure a), (intt_pure b).
  split; [apply coset_intt_total; exact Ha|]. split; [apply coset_intt_total; exact Hb|]. split.
  - rewrite coset_intt_total by (rewrite length_map2; congruence). f_equal.
    apply (intt_pure_add a b). congruence.
  - rewrite coset_intt_total by (rewrite map_length; exact Ha). f_equal. apply (intt_pure_scale c a).
Qed.

Lemma psi_tables_ok_stated :
  length PSI_BITREV = 64%nat /\ length PSI_INV_BITREV = 64%nat /\
  Forall canonical PSI_BITREV /\ Forall canonical PSI_INV_BITREV /\ canonical N_INV /\
  (forall i, (i < 64)%nat -> nth i PSI_BITREV 0 = pow_mod (nth 32 PSI_BITREV 0) (bitrev 6 i)) /\
  (forall i, (i < 64)%nat -> (nth i PSI_BITREV 0 * nth i PSI_INV_BITREV 0) mod P = 1) /\
  (N_INV * 64) mod P = 1 /\
  (forall k, (k < 64)%nat -> pow_mod (ntt_root (nth 32 PSI_BITREV 0) k) 64 = P - 1).
Proof. rewrite <- psi_def. exact psi_tables_ok. Qed.
Lemma ring_elem_example : ring_elem (unit_vec 64 3) /\ ring_elem (negacyclic (unit_vec 64 3) (unit_vec 64 63)).
Proof.
  split; [apply ring_elem_unit; lia | apply ring_elem_negacyclic; apply length_unit_vec; lia].
Qed.

(* from here on the transforms are used through the lemmas above only; keeping them opaque makes the
   kernel unfold the small side of a conversion problem first *)
Global Opaque ntt_pure intt_pure eval_at_roots.
