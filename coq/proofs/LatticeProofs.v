(* proofs/LatticeProofs.v - C18: entry point of the lattice proofs (re-exports the layers). *)
From TF Require Export LatticeBase LatticeNtt LatticeModule LatticeExplicit LatticeKem LatticeKemNoise LatticeExamples.
