(* proofs/MerkleProofs.v - lemmas about model/Merkle.v against spec/MerkleSpec.v (C04, C10). *)
From Coq Require Import ZArith List Bool Lia Sorting.Sorted.
From TF Require Import Merkle MerkleSpec MerkleGen.
Import ListNotations.
Open Scope Z_scope.
Ltac Zify.zify_post_hook ::= Z.div_mod_to_equations.

(* ------------------------------------------------------------------------------------------ *)
(* generic list facts                                                                          *)

Lemma zlen_nonneg {A} (l : list A) : 0 <= zlen l.
Proof. unfold zlen. lia. Qed.

Lemma zget_aux_nth {A} (l : list A) : forall i, 0 <= i -> zget_aux l i = nth_error l (Z.to_nat i).
Proof.
  induction l as [|x r IH]; intros i Hi; cbn [zget_aux].
  - destruct (Z.to_nat i); reflexivity.
  - destruct (i =? 0) eqn:E.
    + apply Z.eqb_eq in E. subst. reflexivity.
    + apply Z.eqb_neq in E. rewrite IH by lia.
      replace (Z.to_nat i) with (S (Z.to_nat (i - 1))) by lia. reflexivity.
Qed.

Lemma zget_some {A} (l : list A) (d : A) i :
  0 <= i < zlen l -> zget l i = Some (nth (Z.to_nat i) l d).
Proof.
  intros Hi. unfold zget, zlen in *.
  destruct (i <? 0) eqn:E1; [lia|]. rewrite zget_aux_nth by lia.
  apply nth_error_nth'. lia.
Qed.

Lemma zget_none {A} (l : list A) i : ~ (0 <= i < zlen l) -> zget l i = None.
Proof.
  intros Hi. unfold zget, zlen in *.
  destruct (i <? 0) eqn:E1; [reflexivity|]. rewrite zget_aux_nth by lia.
  apply nth_error_None. lia.
Qed.

Lemma zget_inv {A} (l : list A) (d : A) i v :
  zget l i = Some v -> 0 <= i < zlen l /\ v = nth (Z.to_nat i) l d.
Proof.
  intros Hg.
  destruct (Z_lt_dec i 0) as [Hn|Hn]; [rewrite zget_none in Hg by lia; discriminate|].
  destruct (Z_lt_dec i (zlen l)) as [Hl|Hl]; [|rewrite zget_none in Hg by lia; discriminate].
  rewrite (zget_some l d) in Hg by lia. inversion Hg. split; [lia|reflexivity].
Qed.

Lemma overwrite_ok {A} (src : list A) : forall dst, (length src <= length dst)%nat ->
  overwrite dst src = Some (src ++ skipn (length src) dst).
Proof.
  induction src as [|s sr IH]; intros dst Hl; [destruct dst; reflexivity|].
  destruct dst as [|x dr]; cbn in Hl; [lia|].
  cbn [overwrite length skipn app]. rewrite IH by lia. reflexivity.
Qed.

Lemma write_at_ok {A} (dst : list A) : forall s src, 0 <= s ->
  (Z.to_nat s + length src <= length dst)%nat ->
  write_at dst s src = Some (firstn (Z.to_nat s) dst ++ src ++ skipn (Z.to_nat s + length src) dst).
Proof.
  induction dst as [|x r IH]; intros s src Hs Hl.
  - cbn in Hl. assert (s = 0) by lia. subst s. destruct src; cbn in Hl; [reflexivity|lia].
  - cbn [write_at]. destruct (s =? 0) eqn:E.
    + apply Z.eqb_eq in E. subst s. cbn [Z.to_nat firstn app Nat.add]. apply overwrite_ok. lia.
    + apply Z.eqb_neq in E. cbn [length] in Hl. rewrite IH by lia.
      replace (Z.to_nat s) with (S (Z.to_nat (s - 1))) by lia. reflexivity.
Qed.

Lemma zrange_length a c : length (zrange a c) = c.
Proof. revert a. induction c; intros; cbn; [reflexivity|]. now rewrite IHc. Qed.

Lemma zrange_nth a c j : (j < c)%nat -> nth j (zrange a c) 0 = a + Z.of_nat j.
Proof.
  revert a j. induction c; intros a j Hj; [lia|].
  destruct j; cbn [zrange nth]; [lia|]. rewrite IHc by lia. lia.
Qed.

Lemma zrange_In a c x : In x (zrange a c) <-> a <= x < a + Z.of_nat c.
Proof.
  revert a. induction c; intros a; cbn [zrange In]; [lia|].
  rewrite IHc. lia.
Qed.

Lemma zrange_snoc a c : zrange a (S c) = zrange a c ++ [a + Z.of_nat c].
Proof.
  revert a. induction c; intros a.
  - cbn. f_equal. lia.
  - change (zrange a (S (S c))) with (a :: zrange (a + 1) (S c)).
    rewrite IHc. cbn [zrange app]. do 2 f_equal. f_equal. lia.
Qed.

Lemma mapO_ok {A B} (f : A -> outcome B) (g : A -> B) l :
  (forall x, In x l -> f x = Ok (g x)) -> mapO f l = Ok (map g l).
Proof.
  induction l as [|x r IH]; intros Hf; [reflexivity|].
  cbn [mapO map]. rewrite (Hf x) by (left; reflexivity). cbn [obind].
  rewrite IH by (intros; apply Hf; right; assumption). reflexivity.
Qed.

(* ------------------------------------------------------------------------------------------ *)
(* powers of two                                                                               *)

Lemma is_pow2_spec n : is_pow2 n = true <-> exists h, 0 <= h /\ n = 2 ^ h.
Proof.
  unfold is_pow2. split.
  - intros Hn. apply andb_true_iff in Hn. destruct Hn as [H0 H1].
    apply Z.ltb_lt in H0. apply Z.eqb_eq in H1.
    exists (Z.log2 n). split; [apply Z.log2_nonneg|exact H1].
  - intros [h [Hh ->]]. apply andb_true_iff. split.
    + apply Z.ltb_lt. apply Z.pow_pos_nonneg; lia.
    + apply Z.eqb_eq. rewrite Z.log2_pow2 by lia. reflexivity.
Qed.

Lemma pow2_nat h : 2 ^ Z.of_nat h = Z.of_nat (2 ^ h)%nat.
Proof.
  induction h; [reflexivity|].
  rewrite Nat2Z.inj_succ, Z.pow_succ_r by lia. rewrite IHh.
  rewrite Nat.pow_succ_r'. lia.
Qed.

Section Proofs.
  Variable D : Type.
  Variable H : D -> D -> D.
  Variable dflt : D.

  Notation znth := (znth D dflt).
  Notation spec_tree := (spec_tree D H dflt).
  Notation pair_up := (pair_up D H).
  Notation levels := (levels D H).

  Lemma zget_znth (l : list D) i : 0 <= i < zlen l -> zget l i = Some (znth l i).
  Proof. intros. unfold MerkleSpec.znth. now apply zget_some. Qed.

  (* ---------------------------------------------------------------------------------------- *)
  (* the specification tree satisfies, and is determined by, its defining equations            *)

  Lemma pair_up_length (k : nat) : forall l, length l = (2 * k)%nat -> length (pair_up l) = k.
  Proof.
    induction k; intros l Hl.
    - destruct l; [reflexivity|cbn in Hl; lia].
    - destruct l as [|a [|b r]]; cbn in Hl; try lia.
      cbn [MerkleSpec.pair_up length]. rewrite IHk by lia. reflexivity.
  Qed.

  Lemma pair_up_nth (k : nat) : forall l j, length l = (2 * k)%nat -> (j < k)%nat ->
    nth j (pair_up l) dflt = H (nth (2 * j) l dflt) (nth (2 * j + 1) l dflt).
  Proof.
    induction k; intros l j Hl Hj; [lia|].
    destruct l as [|a [|b r]]; cbn in Hl; try lia.
    destruct j.
    - reflexivity.
    - cbn [MerkleSpec.pair_up].
      replace (2 * S j)%nat with (S (S (2 * j))) by lia.
      replace (S (S (2 * j)) + 1)%nat with (S (S (2 * j + 1))) by lia.
      cbn [nth]. apply IHk; lia.
  Qed.

  Lemma levels_ok (h : nat) : forall l, length l = (2 ^ h)%nat ->
    let t := dflt :: levels h l in
    length t = (2 * 2 ^ h)%nat /\
    (forall j, (j < 2 ^ h)%nat -> nth (2 ^ h + j) t dflt = nth j l dflt) /\
    (forall i, (1 <= i < 2 ^ h)%nat -> nth i t dflt = H (nth (2 * i) t dflt) (nth (2 * i + 1) t dflt)).
  Proof.
    induction h; intros l Hl.
    - cbn in Hl. destruct l as [|x [|y r]]; cbn in Hl; try lia.
      cbn. split; [reflexivity|]. split.
      + intros j Hj. assert (j = 0)%nat by lia. subst. reflexivity.
      + intros i Hi. lia.
    - rewrite Nat.pow_succ_r' in Hl.
      pose proof (pair_up_length (2 ^ h) l Hl) as Hpl.
      destruct (IHh (pair_up l) Hpl) as [La [Lb Lc]].
      set (t' := dflt :: levels h (pair_up l)) in *.
      assert (Et : dflt :: levels (S h) l = t' ++ l) by reflexivity.
      cbv zeta. rewrite Et. rewrite Nat.pow_succ_r'.
      split; [rewrite app_length; lia|]. split.
      + intros j Hj. rewrite app_nth2 by lia. f_equal. lia.
      + intros i Hi. destruct (Nat.lt_ge_cases i (2 ^ h)) as [Hlt|Hge].
        * rewrite !app_nth1 by lia. apply Lc. lia.
        * rewrite app_nth1 by lia. rewrite !app_nth2 by lia.
          replace i with (2 ^ h + (i - 2 ^ h))%nat at 1 by lia.
          rewrite Lb by lia. rewrite (pair_up_nth (2 ^ h)) by lia.
          f_equal; f_equal; lia.
  Qed.

  Lemma pow2_len (leafs : list D) h :
    0 <= h -> zlen leafs = 2 ^ h -> length leafs = (2 ^ Z.to_nat h)%nat.
  Proof.
    intros Hh Hn. unfold zlen in Hn.
    rewrite <- (Z2Nat.id h) in Hn by lia. rewrite pow2_nat in Hn. lia.
  Qed.

  Lemma spec_tree_ok (leafs : list D) :
    is_pow2 (zlen leafs) = true -> tree_ok D H dflt leafs (spec_tree leafs).
  Proof.
    intros Hp. apply is_pow2_spec in Hp. destruct Hp as [h [Hh Hn]].
    pose proof (pow2_len leafs h Hh Hn) as Hl.
    unfold MerkleSpec.spec_tree. rewrite Hn, Z.log2_pow2 by lia.
    destruct (levels_ok (Z.to_nat h) leafs Hl) as [La [Lb Lc]].
    set (t := dflt :: levels (Z.to_nat h) leafs) in *.
    assert (Hnn : zlen leafs = Z.of_nat (2 ^ Z.to_nat h)) by (unfold zlen; lia).
    unfold tree_ok. cbv zeta. rewrite Hn. rewrite Hn in Hnn. split; [|split; [|split]].
    - unfold zlen. rewrite La. lia.
    - reflexivity.
    - intros j Hj. unfold MerkleSpec.znth.
      replace (Z.to_nat (2 ^ h + j)) with (2 ^ Z.to_nat h + Z.to_nat j)%nat by lia.
      apply Lb. lia.
    - intros i Hi. unfold MerkleSpec.znth.
      rewrite Lc by lia. f_equal; f_equal; lia.
  Qed.

  Lemma tree_ok_unique (leafs t1 t2 : list D) :
    tree_ok D H dflt leafs t1 -> tree_ok D H dflt leafs t2 -> t1 = t2.
  Proof.
    unfold tree_ok. cbv zeta. set (n := zlen leafs).
    intros [A1 [B1 [C1 E1]]] [A2 [B2 [C2 E2]]].
    assert (Hall : forall k : nat, forall i, 2 * n - Z.of_nat k <= i < 2 * n -> 0 <= i -> znth t1 i = znth t2 i).
    { induction k; intros i Hi Hi0; [lia|].
      destruct (Z_lt_dec i n) as [Hlt|Hge].
      - destruct (Z.eq_dec i 0) as [->|Hnz]; [congruence|].
        rewrite E1, E2 by lia. f_equal; apply IHk; lia.
      - replace i with (n + (i - n)) by lia. rewrite C1, C2 by lia. reflexivity. }
    apply (nth_ext _ _ dflt dflt).
    - unfold zlen in A1, A2. lia.
    - intros j Hj. specialize (Hall (length t1) (Z.of_nat j)).
      unfold MerkleSpec.znth in Hall. rewrite Nat2Z.id in Hall. apply Hall; unfold zlen in *; lia.
  Qed.
End Proofs.

Section ListZ.
  Variable D : Type.
  Variable dflt : D.
  Notation znth := (znth D dflt).

  Lemma znth_app1 (a b : list D) i : 0 <= i < zlen a -> znth (a ++ b) i = znth a i.
  Proof. intros. unfold MerkleSpec.znth, zlen in *. apply app_nth1. lia. Qed.
  Lemma znth_app2 (a b : list D) i : zlen a <= i -> znth (a ++ b) i = znth b (i - zlen a).
  Proof.
    intros. unfold MerkleSpec.znth, zlen in *. rewrite app_nth2 by lia. f_equal. lia.
  Qed.
  Lemma zlen_app (a b : list D) : zlen (a ++ b) = zlen a + zlen b.
  Proof. unfold zlen. rewrite app_length. lia. Qed.
  Lemma zlen_firstn (a : list D) k : 0 <= k <= zlen a -> zlen (firstn (Z.to_nat k) a) = k.
  Proof. intros. unfold zlen in *. rewrite firstn_length. lia. Qed.
  Lemma znth_firstn (a : list D) k i : 0 <= i < k -> znth (firstn (Z.to_nat k) a) i = znth a i.
  Proof.
    intros. unfold MerkleSpec.znth.
    rewrite <- (firstn_skipn (Z.to_nat k) a) at 2.
    destruct (Z_lt_dec i (zlen a)) as [Hl|Hl].
    - rewrite app_nth1; [reflexivity|]. rewrite firstn_length. unfold zlen in Hl. lia.
    - unfold zlen in Hl. rewrite firstn_all2 by lia. rewrite skipn_all2 by lia. now rewrite app_nil_r.
  Qed.
  Lemma znth_skipn (a : list D) (k : nat) i : 0 <= i -> znth (skipn k a) i = znth a (Z.of_nat k + i).
  Proof.
    intros. unfold MerkleSpec.znth.
    replace (Z.to_nat (Z.of_nat k + i)) with (k + Z.to_nat i)%nat by lia.
    revert a. induction k; intros a; [reflexivity|].
    destruct a; cbn [skipn Nat.add nth]; [destruct (Z.to_nat i); reflexivity|]. apply IHk.
  Qed.

End ListZ.

Section Build.
  Variable D : Type.
  Variable H : D -> D -> D.
  Variable dflt : D.
  Notation znth := (znth D dflt).
  Notation spec_tree := (spec_tree D H dflt).

  Lemma write_slice_ok (nodes : list D) s src :
    0 <= s -> s + zlen src <= zlen nodes ->
    exists r, write_slice D nodes s src = Ok r /\ zlen r = zlen nodes /\
      forall i, 0 <= i < zlen nodes ->
        znth r i = if (s <=? i) && (i <? s + zlen src) then znth src (i - s) else znth nodes i.
  Proof.
    intros Hs Hb. unfold write_slice.
    destruct (s <? 0) eqn:E; [apply Z.ltb_lt in E; lia|].
    rewrite write_at_ok by (unfold zlen in *; lia).
    eexists. split; [reflexivity|].
    pose proof (zlen_nonneg src) as Hsrc.
    assert (L1 : zlen (firstn (Z.to_nat s) nodes) = s) by (apply zlen_firstn; lia).
    assert (L3 : zlen (skipn (Z.to_nat s + length src) nodes) = zlen nodes - s - zlen src).
    { unfold zlen in *. rewrite skipn_length. lia. }
    split.
    - rewrite !zlen_app, L1, L3. lia.
    - intros i Hi.
      destruct (s <=? i) eqn:E1; cbn [andb].
      + apply Z.leb_le in E1. rewrite znth_app2 by lia. rewrite L1.
        destruct (i <? s + zlen src) eqn:E2.
        * apply Z.ltb_lt in E2. rewrite znth_app1 by lia. reflexivity.
        * apply Z.ltb_ge in E2. rewrite znth_app2 by lia. rewrite znth_skipn by lia.
          f_equal. unfold zlen. lia.
      + apply Z.leb_gt in E1. rewrite znth_app1 by lia. apply znth_firstn. lia.
  Qed.

  Lemma hash_children_ok (nodes : list D) j :
    0 <= j -> 2 * j + 1 < zlen nodes ->
    hash_children D H nodes j = Ok (H (znth nodes (2 * j)) (znth nodes (2 * j + 1))).
  Proof.
    intros. unfold hash_children.
    rewrite (zget_znth D dflt) by lia. rewrite (zget_znth D dflt) by lia.
    replace (j * 2) with (2 * j) by lia. reflexivity.
  Qed.

  (* agreement of a node vector with the specification tree on the index range [lo, 2n) and at 0 *)
  Definition agree (St t : list D) (lo : Z) : Prop :=
    zlen t = zlen St /\ znth t 0 = znth St 0 /\ forall i, lo <= i < zlen St -> znth t i = znth St i.

  Lemma par_level_ok (leafs St nodes : list D) cnt :
    tree_ok D H dflt leafs St -> 1 <= cnt -> 2 * cnt <= zlen leafs ->
    agree St nodes (2 * cnt) ->
    exists nodes', par_level D H nodes cnt = Ok nodes' /\ agree St nodes' cnt.
  Proof.
    intros [A [B [C E]]] Hc Hn [G1 [G2 G3]]. cbv zeta in *. set (n := zlen leafs) in *.
    unfold par_level.
    set (g := fun i => H (znth nodes (2 * (cnt + i))) (znth nodes (2 * (cnt + i) + 1))).
    rewrite (mapO_ok _ g).
    2:{ intros x Hx. apply zrange_In in Hx. unfold g. apply hash_children_ok; lia. }
    cbn [obind].
    destruct (write_slice_ok nodes cnt (map g (zrange 0 (Z.to_nat cnt)))) as [r [R1 [R2 R3]]]; [lia| |].
    { unfold zlen at 1. rewrite map_length, zrange_length. lia. }
    exists r. split; [exact R1|].
    assert (Lm : zlen (map g (zrange 0 (Z.to_nat cnt))) = cnt).
    { unfold zlen. rewrite map_length, zrange_length. lia. }
    rewrite Lm in R3.
    split; [lia|]. split.
    - rewrite R3 by lia. destruct (cnt <=? 0) eqn:E0; [apply Z.leb_le in E0; lia|]. cbn [andb]. exact G2.
    - intros i Hi. rewrite R3 by lia.
      destruct (cnt <=? i) eqn:E1; [|apply Z.leb_gt in E1; lia]. cbn [andb].
      destruct (i <? cnt + cnt) eqn:E2.
      + apply Z.ltb_lt in E2. unfold MerkleSpec.znth at 1.
        rewrite (nth_indep _ dflt (g 0)) by (rewrite map_length, zrange_length; lia).
        rewrite map_nth. rewrite zrange_nth by lia. unfold g.
        replace (cnt + (0 + Z.of_nat (Z.to_nat (i - cnt)))) with i by lia.
        rewrite E by lia. rewrite !G3 by lia. reflexivity.
      + apply Z.ltb_ge in E2. apply G3. lia.
  Qed.

  Definition loop_inv (n cnt acc : Z) : Prop :=
    (exists k, 0 <= k /\ cnt = 2 ^ k /\ n - acc = 2 * cnt) \/ (cnt = 0 /\ n - acc = 1).

  Lemma par_loop_ok (leafs St : list D) fixed cutoff :
    tree_ok D H dflt leafs St -> (fixed = true \/ 1 <= cutoff) ->
    forall fuel nodes cnt acc,
      0 <= cnt < 2 ^ Z.of_nat fuel -> 0 <= acc ->
      loop_inv (zlen leafs) cnt acc -> agree St nodes (zlen leafs - acc) ->
      exists nodes' acc', par_loop D H fixed cutoff fuel nodes cnt acc = Ok (nodes', acc') /\
        1 <= zlen leafs - acc' <= zlen leafs /\ agree St nodes' (zlen leafs - acc').
  Proof.
    intros HS Hfc. induction fuel; intros nodes cnt acc Hc Ha Hinv Hag.
    - assert (cnt = 0) by (cbn in Hc; lia). subst cnt.
      destruct Hinv as [[k [Hk [Hk2 _]]]|[_ Hinv]].
      { pose proof (Z.pow_pos_nonneg 2 k). lia. }
      cbn [par_loop]. unfold par_guard.
      destruct Hfc as [->|Hcut].
      + rewrite andb_false_r. exists nodes, acc. split; [reflexivity|]. split; [lia|exact Hag].
      + destruct (cutoff <=? 0) eqn:E; [apply Z.leb_le in E; lia|]. cbn [andb].
        exists nodes, acc. split; [reflexivity|]. split; [lia|exact Hag].
    - cbn [par_loop].
      destruct (par_guard fixed cutoff cnt) eqn:G.
      + assert (Hc1 : 1 <= cnt).
        { unfold par_guard in G. apply andb_true_iff in G. destruct G as [G1 G2]. apply Z.leb_le in G1.
          destruct Hfc as [->|Hcut]; [apply Z.ltb_lt in G2; lia|lia]. }
        destruct Hinv as [[k [Hk [Hk2 Hk3]]]|[Hz _]]; [|lia].
        assert (Hle : 2 * cnt <= zlen leafs) by lia.
        rewrite Hk3 in Hag.
        destruct (par_level_ok leafs St nodes cnt HS Hc1 Hle Hag) as [nodes' [P1 P2]].
        rewrite P1. cbn [obind].
        apply IHfuel.
        * rewrite Nat2Z.inj_succ, Z.pow_succ_r in Hc by lia. lia.
        * lia.
        * destruct (Z.eq_dec k 0) as [->|Hk0].
          -- right. cbn in Hk2. subst cnt. cbn. lia.
          -- left. exists (k - 1). split; [lia|].
             assert (E2 : 2 ^ k = 2 * 2 ^ (k - 1)).
             { rewrite <- Z.pow_succ_r by lia. f_equal. lia. }
             rewrite Hk2, E2. split; [|lia].
             rewrite Z.mul_comm, Z.div_mul by lia. reflexivity.
        * replace (zlen leafs - (acc + cnt)) with cnt by lia. exact P2.
      + exists nodes, acc. split; [reflexivity|]. split; [|exact Hag].
        destruct Hinv as [[k [Hk [Hk2 Hk3]]]|[Hz Hz2]]; [|lia].
        pose proof (Z.pow_pos_nonneg 2 k). lia.
  Qed.

  Lemma seq_loop_ok (leafs St : list D) :
    tree_ok D H dflt leafs St ->
    forall (c : nat) nodes, Z.of_nat c + 1 <= zlen leafs -> agree St nodes (Z.of_nat c + 1) ->
      exists nodes', seq_loop D H nodes (rev (zrange 1 c)) = Ok nodes' /\ agree St nodes' 1.
  Proof.
    intros HS. pose proof HS as [A [B [C E]]]. cbv zeta in *.
    induction c; intros nodes Hc Hag.
    - exists nodes. split; [reflexivity|exact Hag].
    - rewrite zrange_snoc, rev_app_distr. cbn [rev app seq_loop].
      destruct Hag as [G1 [G2 G3]].
      set (i := 1 + Z.of_nat c).
      rewrite hash_children_ok by lia. cbn [obind].
      destruct (write_slice_ok nodes i [H (znth nodes (2 * i)) (znth nodes (2 * i + 1))]) as [r [R1 [R2 R3]]];
        [lia|unfold zlen at 1; cbn [length]; lia|].
      rewrite R1. cbn [obind]. apply IHc; [lia|].
      change (zlen [H (znth nodes (2 * i)) (znth nodes (2 * i + 1))]) with 1 in R3.
      split; [lia|]. split.
      + rewrite R3 by lia. destruct (i <=? 0) eqn:E0; [apply Z.leb_le in E0; lia|]. exact G2.
      + intros j Hj. rewrite R3 by lia.
        destruct (Z.eq_dec j i) as [->|Hne].
        * rewrite Z.leb_refl. destruct (i <? i + 1) eqn:E1; [|apply Z.ltb_ge in E1; lia]. cbn [andb].
          rewrite Z.sub_diag. unfold MerkleSpec.znth at 1. cbn [Z.to_nat nth].
          rewrite E by lia. rewrite !G3 by lia. reflexivity.
        * destruct ((i <=? j) && (j <? i + 1)) eqn:E1.
          { apply andb_true_iff in E1. destruct E1 as [E1 E2]. apply Z.leb_le in E1. apply Z.ltb_lt in E2. lia. }
          apply G3. lia.
  Qed.

  Lemma agree_eq (St t : list D) : agree St t 1 -> t = St.
  Proof.
    intros [G1 [G2 G3]]. apply (nth_ext _ _ dflt dflt).
    - unfold zlen in G1. lia.
    - intros j Hj. destruct j.
      + exact G2.
      + specialize (G3 (Z.of_nat (S j))). unfold MerkleSpec.znth in G3. rewrite Nat2Z.id in G3.
        apply G3. unfold zlen in *. lia.
  Qed.

  Lemma repeat_nth (d : D) k j : nth j (repeat d k) d = d.
  Proof. revert j. induction k; intros [|j]; cbn; auto. Qed.

  Theorem build_spec_lemma (fixed : bool) (cutoff : Z) (fuel : nat) (leafs : list D) :
    (fixed = true \/ 1 <= cutoff) -> is_pow2 (zlen leafs) = true -> zlen leafs < 2 ^ Z.of_nat fuel ->
    from_digests D H dflt fixed cutoff fuel leafs = Ok (spec_tree leafs).
  Proof.
    intros Hfc Hp Hfuel.
    pose proof (spec_tree_ok D H dflt leafs Hp) as HS.
    pose proof HS as [A [B [C E]]]. cbv zeta in *.
    apply is_pow2_spec in Hp. destruct Hp as [h [Hh Hn]].
    set (St := spec_tree leafs) in *. set (n := zlen leafs) in *.
    assert (Hn1 : 1 <= n) by (pose proof (Z.pow_pos_nonneg 2 h); lia).
    unfold from_digests. fold n.
    destruct (n =? 0) eqn:E0; [apply Z.eqb_eq in E0; lia|].
    assert (Hp2 : is_pow2 n = true) by (apply is_pow2_spec; exists h; auto).
    rewrite Hp2. cbn [negb].
    destruct (write_slice_ok (repeat dflt (Z.to_nat (2 * n))) n leafs) as [r [R1 [R2 R3]]];
      [lia|unfold zlen at 2; rewrite repeat_length; fold n; lia|].
    rewrite R1. cbn [obind].
    assert (Lr : zlen (repeat dflt (Z.to_nat (2 * n))) = 2 * n) by (unfold zlen; rewrite repeat_length; lia).
    rewrite Lr in *.
    assert (Hag0 : agree St r (n - 0)).
    { split; [lia|]. split.
      - rewrite R3 by lia. destruct (n <=? 0) eqn:E1; [apply Z.leb_le in E1; lia|]. cbn [andb].
        rewrite B. unfold MerkleSpec.znth. apply repeat_nth.
      - intros i Hi. rewrite R3 by lia. fold n.
        destruct (n <=? i) eqn:E1; [|apply Z.leb_gt in E1; lia].
        destruct (i <? n + n) eqn:E2; [|apply Z.ltb_ge in E2; lia]. cbn [andb].
        replace i with (n + (i - n)) at 2 by lia. rewrite C by lia. reflexivity. }
    destruct (par_loop_ok leafs St fixed cutoff HS Hfc fuel r (n / 2) 0) as [nodes1 [acc1 [P1 [P2 P3]]]].
    - fold n. split; [apply Z.div_pos; lia|]. apply Z.le_lt_trans with n; [|exact Hfuel].
      apply Z.div_le_upper_bound; lia.
    - lia.
    - fold n. destruct (Z.eq_dec h 0) as [->|Hh0].
      + right. cbn in Hn. rewrite Hn. cbn. lia.
      + left. exists (h - 1). split; [lia|].
        assert (E2 : 2 ^ h = 2 * 2 ^ (h - 1)).
        { rewrite <- Z.pow_succ_r by lia. f_equal. lia. }
        rewrite Hn, E2. split; [|lia]. rewrite Z.mul_comm, Z.div_mul by lia. reflexivity.
    - exact Hag0.
    - rewrite P1. cbn [obind]. fold n in P2, P3.
      destruct (n <? acc1) eqn:E3; [apply Z.ltb_lt in E3; lia|].
      destruct (seq_loop_ok leafs St HS (Z.to_nat (n - acc1 - 1)) nodes1) as [nodes2 [Q1 Q2]].
      + fold n. lia.
      + replace (Z.of_nat (Z.to_nat (n - acc1 - 1)) + 1) with (n - acc1) by lia. exact P3.
      + rewrite Q1. f_equal. apply agree_eq. exact Q2.
  Qed.
End Build.

Section Accessors.
  Variable D : Type.
  Variable H : D -> D -> D.
  Variable dflt : D.
  Notation znth := (znth D dflt).
  Notation spec_tree := (spec_tree D H dflt).

  Lemma build_rejects_lemma fixed cutoff fuel (ds : list D) :
    is_pow2 (zlen ds) = false -> from_digests D H dflt fixed cutoff fuel ds = Err.
  Proof.
    intros Hp. unfold from_digests. destruct (zlen ds =? 0); [reflexivity|]. rewrite Hp. reflexivity.
  Qed.

  (* cutoff 0 on the pinned tree: `while count >= 0` never exits *)
  Lemma par_loop_zero_diverges fuel : forall nodes acc,
    par_loop D H false 0 fuel nodes 0 acc = OutOfFuel.
  Proof.
    induction fuel; intros nodes acc; [reflexivity|].
    cbn [par_loop]. unfold par_guard. cbn [Z.leb Z.compare andb].
    unfold par_level. cbn [Z.to_nat zrange mapO obind].
    unfold write_slice. cbn [Z.ltb Z.compare].
    replace (write_at nodes 0 []) with (Some nodes) by (destruct nodes; reflexivity).
    cbn [obind]. change (0 / 2) with 0. apply IHfuel.
  Qed.

  Lemma build_cutoff_zero_diverges (d : D) fuel :
    from_digests D H dflt false 0 fuel [d] = OutOfFuel.
  Proof.
    unfold from_digests. change (zlen [d]) with 1. cbn [Z.eqb is_pow2 negb].
    change (is_pow2 1) with true. cbn [negb].
    change (write_slice D (repeat dflt (Z.to_nat (2 * 1))) 1 [d]) with (@Ok (list D) [dflt; d]).
    cbn [obind]. change (1 / 2) with 0. rewrite par_loop_zero_diverges. reflexivity.
  Qed.

  (* ---------------------------------------------------------------- accessors of an honest tree *)
  Section Honest.
    Variable leafs : list D.
    Hypothesis Hp : is_pow2 (zlen leafs) = true.
    Let n := zlen leafs.
    Let t := spec_tree leafs.

    Lemma honest_len : zlen t = 2 * n.
    Proof. destruct (spec_tree_ok D H dflt leafs Hp) as [A _]. exact A. Qed.
    Lemma honest_n_pos : 1 <= n.
    Proof.
      apply is_pow2_spec in Hp. destruct Hp as [h [Hh Hn]]. fold n in Hn.
      pose proof (Z.pow_pos_nonneg 2 h). lia.
    Qed.
    Lemma honest_pow2_2n : is_pow2 (2 * n) = true.
    Proof.
      apply is_pow2_spec in Hp. destruct Hp as [h [Hh Hn]]. apply is_pow2_spec.
      exists (h + 1). split; [lia|]. rewrite Z.pow_add_r by lia. fold n in Hn. lia.
    Qed.

    Lemma honest_num_leafs m : mt_num_leafs D m t = Ok n.
    Proof.
      unfold mt_num_leafs. rewrite honest_len, honest_pow2_2n.
      replace (2 * n / 2) with n by (rewrite Z.mul_comm, Z.div_mul; lia). destruct m; reflexivity.
    Qed.

    Lemma honest_height m : mt_height D m t = Ok (Z.log2 n).
    Proof.
      unfold mt_height. rewrite honest_num_leafs. cbn [obind]. fold n in Hp. rewrite Hp.
      pose proof honest_n_pos. destruct (n =? 0) eqn:E; [apply Z.eqb_eq in E; lia|]. destruct m; reflexivity.
    Qed.

    Lemma honest_root : mt_root D t = Ok (znth t 1).
    Proof.
      unfold mt_root. pose proof honest_n_pos. rewrite (zget_znth D dflt) by (rewrite honest_len; lia). reflexivity.
    Qed.

    Lemma honest_node i :
      mt_node D t i = if (0 <=? i) && (i <? 2 * n) then Some (znth t i) else None.
    Proof.
      unfold mt_node.
      destruct ((0 <=? i) && (i <? 2 * n)) eqn:E.
      - apply andb_true_iff in E. destruct E as [E1 E2]. apply Z.leb_le in E1. apply Z.ltb_lt in E2.
        apply (zget_znth D dflt). rewrite honest_len. lia.
      - apply zget_none. rewrite honest_len. apply andb_false_iff in E.
        destruct E as [E|E]; [apply Z.leb_gt in E|apply Z.ltb_ge in E]; lia.
    Qed.

    Lemma honest_leaf_node j : 0 <= j < n -> znth t (n + j) = znth leafs j.
    Proof. destruct (spec_tree_ok D H dflt leafs Hp) as [_ [_ [C _]]]. apply C. Qed.

    Lemma honest_leafs : mt_leafs D t = leafs.
    Proof.
      unfold mt_leafs. rewrite honest_len.
      replace (2 * n / 2) with n by (rewrite Z.mul_comm, Z.div_mul; lia).
      pose proof honest_len as Hl. unfold zlen in Hl. fold n in Hl.
      apply (nth_ext _ _ dflt dflt).
      - rewrite skipn_length. unfold n, zlen in *. lia.
      - intros j Hj. rewrite skipn_length in Hj.
        pose proof (znth_skipn D dflt t (Z.to_nat n) (Z.of_nat j)) as Hs.
        unfold MerkleSpec.znth in Hs at 1. rewrite Nat2Z.id in Hs. rewrite Hs by lia.
        rewrite Z2Nat.id by (unfold n, zlen; lia).
        rewrite honest_leaf_node by (unfold n, zlen in *; lia).
        unfold MerkleSpec.znth. rewrite Nat2Z.id. reflexivity.
    Qed.

    Hypothesis Hn63 : n <= 2 ^ 63.

    Lemma honest_leaf_fixed m i : 0 <= i ->
      mt_leaf D true m t i = Ok (if i <? n then Some (znth leafs i) else None).
    Proof.
      intros Hi. unfold mt_leaf. rewrite honest_len.
      replace (2 * n / 2) with n by (rewrite Z.mul_comm, Z.div_mul; lia).
      pose proof honest_n_pos. change (2 ^ 63) with 9223372036854775808 in Hn63.
      destruct (i <? n) eqn:E.
      - apply Z.ltb_lt in E.
        destruct (n + i <? USZ) eqn:E2; [|apply Z.ltb_ge in E2; unfold USZ in E2; lia].
        rewrite (zget_znth D dflt) by (rewrite honest_len; lia). rewrite honest_leaf_node by lia. reflexivity.
      - apply Z.ltb_ge in E. destruct (n + i <? USZ); [|reflexivity].
        rewrite zget_none by (rewrite honest_len; lia). reflexivity.
    Qed.

    (* the pinned-tree leaf accessor is exact only while first_leaf + i does not wrap *)
    Lemma honest_leaf_v0_nowrap m i : 0 <= i -> n + i < USZ ->
      mt_leaf D false m t i = Ok (if i <? n then Some (znth leafs i) else None).
    Proof.
      intros Hi Hw. unfold mt_leaf, uadd. rewrite honest_len.
      replace (2 * n / 2) with n by (rewrite Z.mul_comm, Z.div_mul; lia).
      destruct (n + i <? USZ) eqn:E2; [|apply Z.ltb_ge in E2; lia]. cbn [obind].
      destruct (i <? n) eqn:E.
      - apply Z.ltb_lt in E.
        rewrite (zget_znth D dflt) by (rewrite honest_len; lia). rewrite honest_leaf_node by lia. reflexivity.
      - apply Z.ltb_ge in E. rewrite zget_none by (rewrite honest_len; lia). reflexivity.
    Qed.

    Lemma honest_indexed_leafs_fixed m idxs : (forall i, In i idxs -> 0 <= i) ->
      mt_indexed_leafs D true m t idxs =
      if forallb (fun i => i <? n) idxs then Ok (map (fun i => (i, znth leafs i)) idxs) else Err.
    Proof.
      intros Hr. unfold mt_indexed_leafs. rewrite honest_num_leafs. cbn [obind].
      induction idxs as [|i r IH]; [reflexivity|].
      cbn [mapO forallb map]. rewrite honest_leaf_fixed by (apply Hr; left; reflexivity). cbn [obind].
      destruct (i <? n); cbn [andb obind]; [|reflexivity].
      rewrite IH by (intros; apply Hr; right; assumption).
      destruct (forallb (fun i0 => i0 <? n) r); reflexivity.
    Qed.
  End Honest.

  Lemma build_terminates_lemma fixed cutoff (leafs : list D) :
    (fixed = true \/ 1 <= cutoff) ->
    from_digests D H dflt fixed cutoff (build_fuel D leafs) leafs <> OutOfFuel.
  Proof.
    intros Hfc. destruct (is_pow2 (zlen leafs)) eqn:Hp.
    - rewrite build_spec_lemma; [discriminate|exact Hfc|exact Hp|].
      unfold build_fuel, zlen. rewrite Nat2Z.inj_succ.
      pose proof (Z.pow_gt_lin_r 2 (Z.succ (Z.of_nat (length leafs)))). lia.
    - rewrite build_rejects_lemma by exact Hp. discriminate.
  Qed.
End Accessors.

(* ---------------------------------------------------------------------------------------------- *)
(* refutation witnesses on the pinned tree (free hash)                                            *)
Definition wit_leafs : list term := map Atom [0; 1; 2; 3; 4; 5; 6; 7].
Definition wit_tree : list term := spec_tree term Node Dflt wit_leafs.

Lemma leaf_wrap_release_witness :
  mt_leaf term false Release wit_tree (2 ^ 64 - 7) = Ok (Some (znth term Dflt wit_tree 1)).
Proof. vm_compute. reflexivity. Qed.

Lemma leaf_wrap_checked_witness : mt_leaf term false Checked wit_tree (2 ^ 64 - 7) = Panic.
Proof. vm_compute. reflexivity. Qed.

Lemma indexed_leafs_wrap_release_witness :
  mt_indexed_leafs term false Release wit_tree [2 ^ 64 - 7] = Ok [(2 ^ 64 - 7, znth term Dflt wit_tree 1)].
Proof. vm_compute. reflexivity. Qed.

Lemma accessors_total_v0_refuted :
  exists (D : Type) (H : D -> D -> D) (dflt : D) (leafs : list D) (m : mmode) (i : Z),
    is_pow2 (zlen leafs) = true /\ zlen leafs <= 2 ^ 63 /\ 0 <= i < 2 ^ 64 /\
    mt_leaf D false m (spec_tree D H dflt leafs) i <>
      Ok (if i <? zlen leafs then Some (znth D dflt leafs i) else None).
Proof.
  exists term, Node, Dflt, wit_leafs, Release, (2 ^ 64 - 7).
  split; [reflexivity|]. split; [vm_compute; discriminate|]. split; [lia|].
  fold wit_tree. rewrite leaf_wrap_release_witness. vm_compute. discriminate.
Qed.

Lemma accessors_mode_dependent_v0 :
  exists (D : Type) (H : D -> D -> D) (dflt : D) (leafs : list D) (i : Z),
    is_pow2 (zlen leafs) = true /\ 0 <= i < 2 ^ 64 /\
    mt_leaf D false Release (spec_tree D H dflt leafs) i <> mt_leaf D false Checked (spec_tree D H dflt leafs) i.
Proof.
  exists term, Node, Dflt, wit_leafs, (2 ^ 64 - 7).
  split; [reflexivity|]. split; [lia|].
  fold wit_tree. rewrite leaf_wrap_release_witness, leaf_wrap_checked_witness. discriminate.
Qed.

Lemma build_terminates_v0_refuted :
  exists (D : Type) (H : D -> D -> D) (dflt : D) (cutoff : Z) (leafs : list D),
    0 <= cutoff /\ is_pow2 (zlen leafs) = true /\
    forall fuel, from_digests D H dflt false cutoff fuel leafs = OutOfFuel.
Proof.
  exists term, Node, Dflt, 0, [Atom 0]. split; [lia|]. split; [reflexivity|].
  intros fuel. apply build_cutoff_zero_diverges.
Qed.

Lemma honest_accessors (D : Type) (H : D -> D -> D) (dflt : D) (leafs : list D) (m : mmode) :
  is_pow2 (zlen leafs) = true ->
  let t := spec_tree D H dflt leafs in
  mt_num_leafs D m t = Ok (zlen leafs) /\ mt_height D m t = Ok (Z.log2 (zlen leafs)) /\
  mt_root D t = Ok (znth D dflt t 1) /\ mt_leafs D t = leafs /\
  forall i, mt_node D t i = if (0 <=? i) && (i <? 2 * zlen leafs) then Some (znth D dflt t i) else None.
Proof.
  intros Hp t. repeat split.
  - now apply honest_num_leafs.
  - now apply honest_height.
  - now apply honest_root.
  - now apply honest_leafs.
  - intros i. now apply honest_node.
Qed.

Lemma build_spec_current (D : Type) (H : D -> D -> D) (dflt : D) (cutoff : Z) (leafs : list D) :
  is_pow2 (zlen leafs) = true ->
  from_digests D H dflt true cutoff (build_fuel D leafs) leafs = Ok (spec_tree D H dflt leafs).
Proof.
  intros Hp. apply build_spec_lemma; [left; reflexivity|exact Hp|].
  unfold build_fuel, zlen. rewrite Nat2Z.inj_succ.
  pose proof (Z.pow_gt_lin_r 2 (Z.succ (Z.of_nat (length leafs)))). lia.
Qed.

(* ---------------------------------------------------------------------------------------------- *)
(* siblings, ancestors, paths                                                                      *)

Lemma land_1 x : Z.land x 1 = x mod 2.
Proof. change 1 with (Z.ones 1). rewrite Z.land_ones by lia. reflexivity. Qed.

Lemma sibling_even x : Z.even x = true -> sibling x = x + 1.
Proof.
  intros He. unfold sibling. symmetry. apply Z.add_nocarry_lxor.
  rewrite land_1. rewrite Zmod_even, He. reflexivity.
Qed.

Lemma sibling_spec x : sibling x = spec_sibling x.
Proof.
  unfold spec_sibling. destruct (Z.even x) eqn:He; [now apply sibling_even|].
  assert (He' : Z.even (x - 1) = true).
  { rewrite Z.even_sub, He. reflexivity. }
  pose proof (sibling_even (x - 1) He') as Hs. unfold sibling in *.
  replace (x - 1 + 1) with x in Hs by lia.
  rewrite <- Hs at 1. rewrite Z.lxor_assoc, Z.lxor_nilpotent, Z.lxor_0_r. reflexivity.
Qed.

Lemma spec_sibling_invol x : spec_sibling (spec_sibling x) = x.
Proof.
  unfold spec_sibling. destruct (Z.even x) eqn:He.
  - rewrite Z.even_add, He. cbn. lia.
  - rewrite Z.even_sub, He. cbn. lia.
Qed.

Lemma spec_sibling_half x : spec_sibling x / 2 = x / 2.
Proof.
  unfold spec_sibling. destruct (Z.even x) eqn:He.
  - apply Zeven_bool_iff in He. apply Zeven_ex_iff in He. destruct He as [q ->]. lia.
  - rewrite <- Z.negb_odd in He. apply negb_false_iff in He.
    apply Zodd_bool_iff in He. apply Zodd_ex_iff in He. destruct He as [q ->]. lia.
Qed.

Lemma spec_sibling_range x : 2 <= x -> 2 <= spec_sibling x /\ spec_sibling x <> x.
Proof.
  intros Hx. unfold spec_sibling. destruct (Z.even x) eqn:He; [lia|].
  rewrite <- Z.negb_odd in He. apply negb_false_iff in He.
  apply Zodd_bool_iff in He. apply Zodd_ex_iff in He. destruct He as [q ->]. lia.
Qed.

Lemma div_pow2_succ x k : 0 <= k -> x / 2 / 2 ^ k = x / 2 ^ (k + 1).
Proof.
  intros Hk. rewrite Z.div_div by (try apply Z.pow_pos_nonneg; lia).
  rewrite Z.pow_add_r by lia. f_equal. lia.
Qed.

Lemma path_up_In fuel : forall x y, 0 <= x < 2 ^ Z.of_nat fuel ->
  (In y (path_up fuel x) <-> 1 < y /\ ancestor y x).
Proof.
  unfold ancestor. induction fuel; intros x y Hx.
  - cbn in Hx. assert (x = 0) by lia. subst. cbn [path_up In]. split; [tauto|].
    intros [Hy [k [Hk ->]]]. rewrite Z.div_0_l in Hy by (pose proof (Z.pow_pos_nonneg 2 k); lia). lia.
  - cbn [path_up]. destruct (1 <? x) eqn:E.
    + apply Z.ltb_lt in E. cbn [In]. rewrite IHfuel.
      2:{ rewrite Nat2Z.inj_succ, Z.pow_succ_r in Hx by lia. lia. }
      split.
      * intros [<-|[Hy [k [Hk ->]]]].
        -- split; [lia|]. exists 0. split; [lia|]. now rewrite Z.div_1_r.
        -- split; [exact Hy|]. exists (k + 1). split; [lia|]. apply div_pow2_succ. lia.
      * intros [Hy [k [Hk ->]]]. destruct (Z.eq_dec k 0) as [->|Hk0].
        -- left. now rewrite Z.div_1_r.
        -- right. split; [exact Hy|]. exists (k - 1). split; [lia|].
           rewrite div_pow2_succ by lia. f_equal. f_equal. lia.
    + apply Z.ltb_ge in E. cbn [In]. split; [tauto|].
      intros [Hy [k [Hk ->]]]. exfalso.
      assert (x / 2 ^ k <= x).
      { apply Z.div_le_upper_bound; [apply Z.pow_pos_nonneg; lia|].
        pose proof (Z.pow_pos_nonneg 2 k). nia. }
      lia.
Qed.

(* the loop needs at most 64 iterations for a usize: more fuel changes nothing *)
Lemma path_up_fuel_indep fuel : forall x k, 0 <= x < 2 ^ Z.of_nat fuel ->
  path_up (fuel + k) x = path_up fuel x.
Proof.
  induction fuel; intros x k Hx.
  - cbn in Hx. assert (x = 0) by lia. subst. destruct k; reflexivity.
  - cbn [path_up Nat.add]. destruct (1 <? x); [|reflexivity]. f_equal. apply IHfuel.
    rewrite Nat2Z.inj_succ, Z.pow_succ_r in Hx by lia. lia.
Qed.

(* ---------------------------------------------------------------------------------------------- *)
(* sorting                                                                                         *)

Lemma insert_asc_In x l y : In y (insert_asc x l) <-> y = x \/ In y l.
Proof.
  induction l as [|a r IH]; cbn [insert_asc In]; [intuition|].
  destruct (x <=? a); cbn [In]; [intuition|]. rewrite IH. intuition.
Qed.

Lemma isort_asc_In l y : In y (isort_asc l) <-> In y l.
Proof.
  induction l as [|a r IH]; cbn [isort_asc fold_right In]; [tauto|].
  fold (isort_asc r). rewrite insert_asc_In, IH. intuition.
Qed.

Lemma insert_asc_sorted x l : StronglySorted Z.le l -> StronglySorted Z.le (insert_asc x l).
Proof.
  induction 1 as [|a r Hs IH Hf]; cbn [insert_asc].
  - constructor; constructor.
  - destruct (x <=? a) eqn:E.
    + apply Z.leb_le in E. constructor; [constructor; assumption|].
      constructor; [exact E|]. rewrite Forall_forall in *. intros z Hz. specialize (Hf z Hz). lia.
    + apply Z.leb_gt in E. constructor; [exact IH|].
      rewrite Forall_forall in *. intros z Hz. apply insert_asc_In in Hz. destruct Hz as [->|Hz]; [lia|auto].
Qed.

Lemma isort_asc_sorted l : StronglySorted Z.le (isort_asc l).
Proof.
  induction l as [|a r IH]; cbn [isort_asc fold_right]; [constructor|].
  apply insert_asc_sorted. exact IH.
Qed.

Lemma dedup_adj_In l y : In y (dedup_adj l) <-> In y l.
Proof.
  induction l as [|a r IH]; [reflexivity|].
  cbn [dedup_adj]. destruct r as [|b r'].
  - reflexivity.
  - destruct (a =? b) eqn:E.
    + apply Z.eqb_eq in E. subst b. rewrite IH. cbn [In]. intuition.
    + change (In y (a :: dedup_adj (b :: r')) <-> In y (a :: b :: r')).
      cbn [In] in *. rewrite IH. reflexivity.
Qed.

Lemma dedup_adj_sorted l : StronglySorted Z.le l -> StronglySorted Z.lt (dedup_adj l).
Proof.
  induction 1 as [|a r Hs IH Hf]; [constructor|].
  cbn [dedup_adj]. destruct r as [|b r'].
  - constructor; constructor.
  - destruct (a =? b) eqn:E; [exact IH|].
    apply Z.eqb_neq in E. constructor; [exact IH|].
    rewrite Forall_forall in *. intros z Hz. apply (proj1 (dedup_adj_In _ _)) in Hz.
    inversion Hs as [|? ? Hs' Hf']; subst. rewrite Forall_forall in Hf'.
    pose proof (Hf b (or_introl eq_refl)) as Hab.
    cbn [In] in Hz. destruct Hz as [<-|Hz]; [lia|]. specialize (Hf' z Hz). lia.
Qed.

Lemma rev_sorted_gt l : StronglySorted Z.lt l -> StronglySorted Z.gt (rev l).
Proof.
  induction 1 as [|a r Hs IH Hf]; [constructor|].
  cbn [rev]. clear Hs. revert IH. generalize (rev_involutive r). intros _.
  assert (Hf' : Forall (fun z => z > a) (rev r)).
  { rewrite Forall_forall in *. intros z Hz. apply in_rev in Hz. specialize (Hf z Hz). lia. }
  clear Hf. induction (rev r) as [|b q IHq]; intros Hq.
  - constructor; constructor.
  - cbn [app]. inversion Hq; subst. inversion Hf'; subst. constructor; [apply IHq; assumption|].
    apply Forall_app. split; [assumption|]. constructor; [assumption|constructor].
Qed.

Lemma sorted_gt_unique (l1 : list Z) : forall l2,
  StronglySorted Z.gt l1 -> StronglySorted Z.gt l2 -> (forall x, In x l1 <-> In x l2) -> l1 = l2.
Proof.
  induction l1 as [|a r IH]; intros l2 H1 H2 Heq.
  - destruct l2 as [|b q]; [reflexivity|]. exfalso. apply (Heq b). left. reflexivity.
  - destruct l2 as [|b q]; [exfalso; apply (Heq a); left; reflexivity|].
    inversion H1 as [|? ? S1 F1]; subst. inversion H2 as [|? ? S2 F2]; subst.
    rewrite Forall_forall in F1, F2.
    assert (a = b).
    { pose proof (proj1 (Heq a) (or_introl eq_refl)) as Ha. pose proof (proj2 (Heq b) (or_introl eq_refl)) as Hb.
      destruct Ha as [Ha|Ha]; [congruence|]. destruct Hb as [Hb|Hb]; [congruence|].
      specialize (F1 b Hb). specialize (F2 a Ha). lia. }
    subst b. f_equal. apply IH; try assumption.
    intros x. split; intros Hx.
    + pose proof (proj1 (Heq x) (or_intror Hx)) as Hy. destruct Hy as [<-|Hy]; [|exact Hy].
      specialize (F1 a Hx). lia.
    + pose proof (proj2 (Heq x) (or_intror Hx)) as Hy. destruct Hy as [<-|Hy]; [|exact Hy].
      specialize (F2 a Hx). lia.
Qed.

(* ---------------------------------------------------------------------------------------------- *)
(* authentication_structure_node_indices                                                           *)

Lemma uadd_ok m a b : 0 <= a -> 0 <= b -> a + b < USZ -> uadd m a b = Ok (a + b).
Proof. intros. unfold uadd. destruct (a + b <? USZ) eqn:E; [reflexivity|apply Z.ltb_ge in E; lia]. Qed.
Lemma umul_ok m a b : a * b < USZ -> umul m a b = Ok (a * b).
Proof. intros. unfold umul. destruct (a * b <? USZ) eqn:E; [reflexivity|apply Z.ltb_ge in E; lia]. Qed.

Lemma asni_loop_ok m n : 0 <= n -> 2 * n <= USZ -> forall idxs needed0 comp0,
  (forall i, In i idxs -> 0 <= i < n) ->
  asni_loop m n idxs needed0 comp0 =
    Ok (needed0 ++ flat_map (fun i => map sibling (path_up 64 (i + n))) idxs,
        comp0 ++ flat_map (fun i => path_up 64 (i + n)) idxs).
Proof.
  intros Hn Hn2. induction idxs as [|i r IH]; intros needed0 comp0 Hr.
  - cbn. now rewrite !app_nil_r.
  - cbn [asni_loop flat_map].
    assert (Hi : 0 <= i < n) by (apply Hr; left; reflexivity).
    destruct (n <=? i) eqn:E; [apply Z.leb_le in E; lia|].
    rewrite uadd_ok by lia. cbn [obind].
    rewrite IH by (intros; apply Hr; right; assumption).
    now rewrite <- !app_assoc.
Qed.

Lemma asni_loop_err m n : forall idxs needed0 comp0,
  (exists i, In i idxs /\ n <= i) -> (forall i, In i idxs -> 0 <= i) -> 0 <= n -> 2 * n <= USZ ->
  asni_loop m n idxs needed0 comp0 = Err.
Proof.
  induction idxs as [|i r IH]; intros needed0 comp0 [j [Hj Hnj]] Hpos Hn Hn2; [destruct Hj|].
  cbn [asni_loop]. destruct (n <=? i) eqn:E; [reflexivity|]. apply Z.leb_gt in E.
  assert (Hi0 : 0 <= i) by (apply Hpos; left; reflexivity).
  rewrite uadd_ok by lia. cbn [obind].
  apply IH; try assumption.
  - destruct Hj as [->|Hj]; [lia|]. exists j. split; assumption.
  - intros; apply Hpos; right; assumption.
Qed.

Lemma usz_pow : USZ = 2 ^ 64.
Proof. reflexivity. Qed.

Lemma computable_path n idxs x : 0 <= n -> 2 * n <= USZ -> (forall i, In i idxs -> 0 <= i < n) ->
  (In x (flat_map (fun i => path_up 64 (i + n)) idxs) <-> computable n idxs x).
Proof.
  intros Hn Hn2 Hr. rewrite in_flat_map. unfold computable. split.
  - intros [i [Hi Hx]]. apply path_up_In in Hx.
    2:{ specialize (Hr i Hi). change (2 ^ Z.of_nat 64) with USZ. lia. }
    destruct Hx as [Hx1 Hx2]. split; [exact Hx1|]. exists i. split; [exact Hi|].
    now rewrite Z.add_comm.
  - intros [Hx1 [i [Hi Hx2]]]. exists i. split; [exact Hi|]. apply path_up_In.
    + specialize (Hr i Hi). change (2 ^ Z.of_nat 64) with USZ. lia.
    + split; [exact Hx1|]. now rewrite Z.add_comm.
Qed.

Lemma needed_path n idxs x : 0 <= n -> 2 * n <= USZ -> (forall i, In i idxs -> 0 <= i < n) ->
  (In x (flat_map (fun i => map sibling (path_up 64 (i + n))) idxs) <-> needed n idxs x).
Proof.
  intros Hn Hn2 Hr. unfold needed. rewrite <- (computable_path n idxs) by assumption.
  rewrite !in_flat_map. split.
  - intros [i [Hi Hx]]. apply in_map_iff in Hx. destruct Hx as [y [Hy1 Hy2]].
    exists i. split; [exact Hi|]. rewrite <- Hy1, sibling_spec, spec_sibling_invol. exact Hy2.
  - intros [i [Hi Hx]]. exists i. split; [exact Hi|]. apply in_map_iff.
    exists (spec_sibling x). split; [|exact Hx]. now rewrite sibling_spec, spec_sibling_invol.
Qed.

Lemma zmem_In x l : zmem x l = true <-> In x l.
Proof.
  unfold zmem. rewrite existsb_exists. split.
  - intros [y [Hy E]]. apply Z.eqb_eq in E. now subst.
  - intros Hx. exists x. split; [exact Hx|apply Z.eqb_refl].
Qed.

Theorem auth_indices_spec m n idxs : 0 <= n -> 2 * n <= USZ -> (forall i, In i idxs -> 0 <= i < n) ->
  exists r, auth_structure_node_indices m n idxs = Ok r /\ StronglySorted Z.gt r /\
            forall x, In x r <-> minimal n idxs x.
Proof.
  intros Hn Hn2 Hr. unfold auth_structure_node_indices.
  rewrite asni_loop_ok by assumption. cbn [obind app].
  eexists. split; [reflexivity|]. split.
  - apply rev_sorted_gt. apply dedup_adj_sorted. apply isort_asc_sorted.
  - intros x. rewrite <- in_rev, dedup_adj_In, isort_asc_In, filter_In.
    rewrite needed_path by assumption. unfold minimal.
    rewrite <- (computable_path n idxs) by assumption.
    rewrite negb_true_iff. rewrite <- not_true_iff_false, zmem_In. reflexivity.
Qed.

Theorem auth_indices_reject m n idxs : 0 <= n -> 2 * n <= USZ -> (forall i, In i idxs -> 0 <= i) ->
  (exists i, In i idxs /\ n <= i) -> auth_structure_node_indices m n idxs = Err.
Proof.
  intros Hn Hn2 Hpos Hex. unfold auth_structure_node_indices.
  rewrite asni_loop_err by assumption. reflexivity.
Qed.

(* ---------------------------------------------------------------------------------------------- *)
(* the executable specification list                                                               *)

Lemma ancestor_b_spec x y : 1 <= x -> 1 <= y -> (ancestor_b x y = true <-> ancestor x y).
Proof.
  intros Hx Hy. unfold ancestor_b, ancestor. split.
  - intros Hb. apply andb_true_iff in Hb. destruct Hb as [H1 H2].
    apply Z.leb_le in H1. apply Z.eqb_eq in H2.
    exists (Z.log2 y - Z.log2 x). split; [exact H1|symmetry; exact H2].
  - intros [k [Hk Hxy]].
    assert (Hl : Z.log2 x = Z.log2 y - k).
    { rewrite Hxy. rewrite <- Z.shiftr_div_pow2 by lia.
      rewrite Z.log2_shiftr by lia.
      destruct (Z_lt_dec (Z.log2 y - k) 0) as [Hneg|Hpos]; [|lia].
      exfalso. assert (y < 2 ^ k).
      { apply Z.log2_lt_pow2; lia. }
      rewrite Z.div_small in Hxy by lia. lia. }
    replace (Z.log2 y - Z.log2 x) with k by lia.
    apply andb_true_iff. split; [apply Z.leb_le; lia|apply Z.eqb_eq; lia].
Qed.

Lemma computable_b_spec n idxs x : 1 <= n -> (forall i, In i idxs -> 0 <= i) ->
  (computable_b n idxs x = true <-> computable n idxs x).
Proof.
  intros Hn Hr. unfold computable_b, computable. rewrite andb_true_iff, Z.ltb_lt, existsb_exists.
  split.
  - intros [Hx [i [Hi Hb]]]. split; [exact Hx|]. exists i. split; [exact Hi|].
    apply ancestor_b_spec; [lia|specialize (Hr i Hi); lia|exact Hb].
  - intros [Hx [i [Hi Ha]]]. split; [exact Hx|]. exists i. split; [exact Hi|].
    apply ancestor_b_spec; [lia|specialize (Hr i Hi); lia|exact Ha].
Qed.

Lemma minimal_b_spec n idxs x : 1 <= n -> (forall i, In i idxs -> 0 <= i) ->
  (minimal_b n idxs x = true <-> minimal n idxs x).
Proof.
  intros Hn Hr. unfold minimal_b, minimal, needed.
  rewrite andb_true_iff, negb_true_iff, <- not_true_iff_false.
  rewrite !computable_b_spec by assumption. reflexivity.
Qed.

Lemma down_from_In c : forall x y, In y (down_from x c) <-> x - Z.of_nat c < y <= x.
Proof.
  induction c; intros x y; cbn [down_from In]; [lia|]. rewrite IHc. lia.
Qed.

Lemma down_from_sorted c : forall x, StronglySorted Z.gt (down_from x c).
Proof.
  induction c; intros x; cbn [down_from]; constructor; [apply IHc|].
  apply Forall_forall. intros y Hy. apply down_from_In in Hy. lia.
Qed.

Lemma filter_sorted {A} (R : A -> A -> Prop) (f : A -> bool) l :
  StronglySorted R l -> StronglySorted R (filter f l).
Proof.
  induction 1 as [|a r Hs IH Hf]; cbn [filter]; [constructor|].
  destruct (f a); [|exact IH]. constructor; [exact IH|].
  rewrite Forall_forall in *. intros y Hy. apply filter_In in Hy. apply Hf. tauto.
Qed.

Lemma ancestor_le x y : 0 <= y -> ancestor x y -> 0 <= x <= y.
Proof.
  intros Hy [k [Hk ->]]. pose proof (Z.pow_pos_nonneg 2 k).
  split; [apply Z.div_pos; lia|]. apply Z.div_le_upper_bound; [lia|nia].
Qed.

Lemma computable_range n idxs x : 1 <= n -> (forall i, In i idxs -> 0 <= i < n) ->
  computable n idxs x -> 2 <= x <= 2 * n - 1.
Proof.
  intros Hn Hr [Hx [i [Hi Ha]]]. specialize (Hr i Hi). apply ancestor_le in Ha; lia.
Qed.

Lemma minimal_range n idxs x : 1 <= n -> (forall i, In i idxs -> 0 <= i < n) ->
  minimal n idxs x -> 2 <= x <= 2 * n - 1.
Proof.
  intros Hn Hr [Hnd _]. apply computable_range in Hnd; try assumption.
  unfold spec_sibling in Hnd. destruct (Z.even x) eqn:He.
  - apply Zeven_bool_iff in He. apply Zeven_ex_iff in He. destruct He as [q ->]. lia.
  - rewrite <- Z.negb_odd in He. apply negb_false_iff in He.
    apply Zodd_bool_iff in He. apply Zodd_ex_iff in He. destruct He as [q ->]. lia.
Qed.

Lemma minimal_list_spec n idxs : 1 <= n -> (forall i, In i idxs -> 0 <= i < n) ->
  StronglySorted Z.gt (minimal_list n idxs) /\ forall x, In x (minimal_list n idxs) <-> minimal n idxs x.
Proof.
  intros Hn Hr. unfold minimal_list. split.
  - apply filter_sorted. apply down_from_sorted.
  - intros x. rewrite filter_In, down_from_In.
    rewrite minimal_b_spec by (try assumption; intros i Hi; specialize (Hr i Hi); lia).
    split; [tauto|]. intros Hm. split; [|exact Hm].
    pose proof (minimal_range n idxs x Hn Hr Hm). lia.
Qed.

(* C10 auth_structure_spec: the code's node-index list is the documented one *)
Theorem auth_indices_eq m n idxs : 1 <= n -> 2 * n <= USZ -> (forall i, In i idxs -> 0 <= i < n) ->
  auth_structure_node_indices m n idxs = Ok (minimal_list n idxs).
Proof.
  intros Hn Hn2 Hr.
  destruct (auth_indices_spec m n idxs) as [r [R1 [R2 R3]]]; [lia|assumption|assumption|].
  rewrite R1. f_equal.
  destruct (minimal_list_spec n idxs Hn Hr) as [M1 M2].
  apply sorted_gt_unique; try assumption.
  intros x. rewrite R3, M2. reflexivity.
Qed.

(* ---------------------------------------------------------------------------------------------- *)
(* association lists, positions                                                                    *)

Lemma sorted_gt_NoDup l : StronglySorted Z.gt l -> NoDup l.
Proof.
  induction 1 as [|a r Hs IH Hf]; constructor; [|exact IH].
  intros Hin. rewrite Forall_forall in Hf. specialize (Hf a Hin). lia.
Qed.

Lemma sorted_lt_NoDup l : StronglySorted Z.lt l -> NoDup l.
Proof.
  induction 1 as [|a r Hs IH Hf]; constructor; [|exact IH].
  intros Hin. rewrite Forall_forall in Hf. specialize (Hf a Hin). lia.
Qed.

Lemma pos_of_None x l : pos_of x l = None <-> ~ In x l.
Proof.
  induction l as [|y r IH]; cbn [pos_of In]; [tauto|].
  destruct (x =? y) eqn:E.
  - apply Z.eqb_eq in E. subst. split; [discriminate|tauto].
  - apply Z.eqb_neq in E. destruct (pos_of x r); cbn [option_map].
    + split; [discriminate|]. intros Hn. exfalso.
      assert (Hq : ~ In x r) by tauto. apply IH in Hq. discriminate.
    + split; [|reflexivity]. intros _ [Hy|Hy]; [congruence|]. apply (proj1 IH eq_refl). exact Hy.
Qed.

Lemma pos_of_Some x l j : pos_of x l = Some j -> (j < length l)%nat /\ nth j l 0 = x.
Proof.
  revert j. induction l as [|y r IH]; intros j; cbn [pos_of]; [discriminate|].
  destruct (x =? y) eqn:E.
  - apply Z.eqb_eq in E. subst. intros Hj. inversion Hj. subst. cbn. split; [lia|reflexivity].
  - destruct (pos_of x r) as [j'|]; cbn [option_map]; [|discriminate].
    intros Hj. inversion Hj. subst. destruct (IH j' eq_refl) as [I1 I2]. cbn. split; [lia|exact I2].
Qed.

Section Maps.
  Variable D : Type.
  Variable dflt : D.
  Notation mget := (mget D).

  Lemma mget_app (a b : pmap D) k :
    mget (a ++ b) k = match mget a k with Some v => Some v | None => mget b k end.
  Proof.
    induction a as [|[k' v] r IH]; [reflexivity|].
    cbn [app Merkle.mget]. destruct (k =? k'); [reflexivity|exact IH].
  Qed.

  Lemma mget_In (mp : pmap D) k v : mget mp k = Some v -> In (k, v) mp.
  Proof.
    induction mp as [|[k' v'] r IH]; cbn [Merkle.mget]; [discriminate|].
    destruct (k =? k') eqn:E.
    - apply Z.eqb_eq in E. subst. intros Hv. inversion Hv. left. reflexivity.
    - intros Hv. right. now apply IH.
  Qed.

  Lemma mget_notin (mp : pmap D) k : ~ In k (map fst mp) -> mget mp k = None.
  Proof.
    induction mp as [|[k' v'] r IH]; cbn [Merkle.mget map fst In]; [reflexivity|].
    intros Hn. destruct (k =? k') eqn:E; [apply Z.eqb_eq in E; subst; tauto|]. apply IH. tauto.
  Qed.

  (* the map built from the authentication structure: node M[j] holds A[j] *)
  Lemma mget_combine (M : list Z) : forall (A : list D) x,
    NoDup M -> length A = length M ->
    mget (rev (combine M A)) x =
      match pos_of x M with Some j => Some (nth j A dflt) | None => None end.
  Proof.
    induction M as [|y r IH]; intros A x Hnd Hlen.
    - destruct A; reflexivity.
    - destruct A as [|a A']; [discriminate|]. cbn [combine rev pos_of].
      inversion Hnd as [|? ? Hy Hnd']; subst. cbn [length] in Hlen.
      rewrite mget_app, IH by (try assumption; lia).
      destruct (x =? y) eqn:E.
      + apply Z.eqb_eq in E. subst x.
        assert (Hp : pos_of y r = None) by (apply pos_of_None; exact Hy).
        rewrite Hp. cbn [Merkle.mget]. rewrite Z.eqb_refl. reflexivity.
      + destruct (pos_of x r) as [j|]; cbn [option_map nth]; [reflexivity|].
        cbn [Merkle.mget]. rewrite E. reflexivity.
  Qed.

  Lemma find_leaf_In (L : list (Z * D)) i d : find_leaf L i = Some d -> In (i, d) L.
  Proof.
    induction L as [|[j e] r IH]; cbn [find_leaf]; [discriminate|].
    destruct (i =? j) eqn:E.
    - apply Z.eqb_eq in E. subst. intros Hv. inversion Hv. left. reflexivity.
    - intros Hv. right. now apply IH.
  Qed.

  Lemma find_leaf_None (L : list (Z * D)) i : find_leaf L i = None <-> ~ In i (map fst L).
  Proof.
    induction L as [|[j e] r IH]; cbn [find_leaf map fst In]; [tauto|].
    destruct (i =? j) eqn:E.
    - apply Z.eqb_eq in E. subst. split; [discriminate|tauto].
    - apply Z.eqb_neq in E. rewrite IH. split; [intros Hn [Hj|Hj]; [congruence|tauto]|tauto].
  Qed.
End Maps.

Section Verify.
  Variable D : Type.
  Variable H : D -> D -> D.
  Variable Deqb : D -> D -> bool.
  Variable dflt : D.
  Hypothesis Deqb_spec : forall a b, Deqb a b = true <-> a = b.
  Notation mget := (mget D).
  Notation add_leafs := (add_leafs D Deqb).

  Lemma Deqb_refl a : Deqb a a = true.
  Proof. now apply Deqb_spec. Qed.

  (* ---------------------------------------------------------------- add_leafs *)
  Lemma add_leafs_sound m n : 0 <= n -> forall (L : list (Z * D)) nodes nodes',
    (forall i, In i (map fst L) -> 0 <= i /\ i + n < USZ) ->
    add_leafs m n L nodes = Ok nodes' ->
    (forall x v, mget nodes x = Some v -> mget nodes' x = Some v) /\
    (forall i d, In (i, d) L -> mget nodes' (i + n) = Some d).
  Proof.
    intros Hn. induction L as [|[i d] r IH]; intros nodes nodes' Hr Hok.
    - cbn in Hok. inversion Hok. subst. split; [auto|intros ? ? []].
    - cbn [Merkle.add_leafs] in Hok.
      assert (Hi : 0 <= i /\ i + n < USZ) by (apply Hr; left; reflexivity).
      rewrite uadd_ok in Hok by lia. cbn [obind] in Hok.
      assert (Hr' : forall j, In j (map fst r) -> 0 <= j /\ j + n < USZ) by (intros; apply Hr; right; assumption).
      destruct (mget nodes (i + n)) as [d'|] eqn:Eg.
      + destruct (Deqb d' d) eqn:Ed; [|discriminate]. apply Deqb_spec in Ed. subst d'.
        destruct (IH nodes nodes' Hr' Hok) as [I1 I2]. split; [exact I1|].
        intros j e [Hje|Hje]; [inversion Hje; subst; apply I1; exact Eg|apply I2; exact Hje].
      + destruct (IH _ nodes' Hr' Hok) as [I1 I2]. split.
        * intros x v Hx. apply I1. cbn [Merkle.mget].
          destruct (x =? i + n) eqn:E; [apply Z.eqb_eq in E; subst; congruence|exact Hx].
        * intros j e [Hje|Hje]; [|apply I2; exact Hje]. inversion Hje; subst.
          apply I1. cbn [Merkle.mget]. rewrite Z.eqb_refl. reflexivity.
  Qed.

  Lemma add_leafs_consistent m n (L : list (Z * D)) nodes nodes' : 0 <= n ->
    (forall i, In i (map fst L) -> 0 <= i /\ i + n < USZ) ->
    add_leafs m n L nodes = Ok nodes' -> consistent D L.
  Proof.
    intros Hn Hr Hok. destruct (add_leafs_sound m n Hn L nodes nodes' Hr Hok) as [_ I2].
    intros i d d' H1 H2. pose proof (I2 i d H1) as E1. pose proof (I2 i d' H2) as E2. congruence.
  Qed.

  Lemma add_leafs_ok m n : 0 <= n -> forall (L : list (Z * D)) nodes,
    (forall i, In i (map fst L) -> 0 <= i /\ i + n < USZ) ->
    consistent D L ->
    (forall i d d', In (i, d) L -> mget nodes (i + n) = Some d' -> d' = d) ->
    exists nodes', add_leafs m n L nodes = Ok nodes' /\
      forall x, mget nodes' x = match find_leaf L (x - n) with Some d => Some d | None => mget nodes x end.
  Proof.
    intros Hn. induction L as [|[i d] r IH]; intros nodes Hr Hc Hp.
    - exists nodes. split; [reflexivity|]. intros x. reflexivity.
    - cbn [Merkle.add_leafs].
      assert (Hi : 0 <= i /\ i + n < USZ) by (apply Hr; left; reflexivity).
      rewrite uadd_ok by lia. cbn [obind].
      assert (Hr' : forall j, In j (map fst r) -> 0 <= j /\ j + n < USZ) by (intros; apply Hr; right; assumption).
      assert (Hc' : consistent D r).
      { intros j e e' H1 H2. apply (Hc j); right; assumption. }
      destruct (mget nodes (i + n)) as [d'|] eqn:Eg.
      + assert (d' = d) by (apply (Hp i d d'); [left; reflexivity|exact Eg]). subst d'.
        rewrite Deqb_refl.
        destruct (IH nodes Hr' Hc') as [nodes' [N1 N2]].
        { intros j e e' Hj. apply Hp. right. exact Hj. }
        exists nodes'. split; [exact N1|]. intros x. rewrite N2. cbn [find_leaf].
        destruct (x - n =? i) eqn:E; [|reflexivity].
        apply Z.eqb_eq in E. rewrite E.
        destruct (find_leaf r i) as [e|] eqn:Ef; [|replace x with (i + n) by lia; exact Eg].
        apply find_leaf_In in Ef. f_equal. apply (Hc i); [right; exact Ef|left; reflexivity].
      + destruct (IH ((i + n, d) :: nodes) Hr' Hc') as [nodes' [N1 N2]].
        { intros j e e' Hj. cbn [Merkle.mget]. destruct (j + n =? i + n) eqn:E.
          - apply Z.eqb_eq in E. assert (j = i) by lia. subst j. intros He. inversion He. subst.
            apply (Hc i); [left; reflexivity|right; exact Hj].
          - apply Hp. right. exact Hj. }
        exists nodes'. split; [exact N1|]. intros x. rewrite N2. cbn [find_leaf Merkle.mget].
        destruct (x - n =? i) eqn:E.
        * apply Z.eqb_eq in E. replace (x =? i + n) with true by (symmetry; apply Z.eqb_eq; lia).
          rewrite E. destruct (find_leaf r i) as [e|] eqn:Ef; [|reflexivity].
          apply find_leaf_In in Ef. f_equal. apply (Hc i); [right; exact Ef|left; reflexivity].
        * apply Z.eqb_neq in E. replace (x =? i + n) with false by (symmetry; apply Z.eqb_neq; lia). reflexivity.
  Qed.

  Lemma add_leafs_total m n : 0 <= n -> forall (L : list (Z * D)) nodes,
    (forall i, In i (map fst L) -> 0 <= i /\ i + n < USZ) ->
    (exists nodes', add_leafs m n L nodes = Ok nodes') \/ add_leafs m n L nodes = Err.
  Proof.
    intros Hn. induction L as [|[i d] r IH]; intros nodes Hr.
    - left. eexists. reflexivity.
    - cbn [Merkle.add_leafs].
      assert (Hi : 0 <= i /\ i + n < USZ) by (apply Hr; left; reflexivity).
      rewrite uadd_ok by lia. cbn [obind].
      assert (Hr' : forall j, In j (map fst r) -> 0 <= j /\ j + n < USZ) by (intros; apply Hr; right; assumption).
      destruct (mget nodes (i + n)); [destruct (Deqb d0 d); [|right; reflexivity]|]; apply IH; exact Hr'.
  Qed.

  (* ---------------------------------------------------------------- one layer of fill() *)
  Definition hc (nodes : pmap D) (p : Z) : option D :=
    match mget nodes (2 * p), mget nodes (2 * p + 1) with
    | Some a, Some b => Some (H a b)
    | _, _ => None
    end.

  Lemma lxor_double p : Z.lxor (p * 2) 1 = 2 * p + 1.
  Proof.
    change (Z.lxor (p * 2) 1) with (sibling (p * 2)). rewrite sibling_even; [lia|].
    rewrite Z.mul_comm. apply Z.even_mul.
  Qed.

  Lemma fill_layer_gen m : forall parents nodes,
    NoDup parents ->
    (forall p, In p parents ->
       p * 2 < USZ /\ (exists a b, mget nodes (2 * p) = Some a /\ mget nodes (2 * p + 1) = Some b) /\
       mget nodes p = None /\ ~ In (2 * p) parents /\ ~ In (2 * p + 1) parents) ->
    exists nodes', fill_layer D H m nodes parents = Ok nodes' /\
      forall x, mget nodes' x = if zmem x parents then hc nodes x else mget nodes x.
  Proof.
    induction parents as [|p r IH]; intros nodes Hnd Hp.
    - exists nodes. split; [reflexivity|]. intros x. reflexivity.
    - cbn [fill_layer].
      destruct (Hp p (or_introl eq_refl)) as [P1 [[a [b [P2 P3]]] [P4 [P5 P6]]]].
      rewrite umul_ok by exact P1. cbn [obind]. rewrite lxor_double.
      replace (p * 2) with (2 * p) by lia. rewrite P2, P3, P4.
      inversion Hnd as [|? ? Hpr Hnd']; subst.
      destruct (IH ((p, H a b) :: nodes) Hnd') as [nodes' [N1 N2]].
      { intros q Hq. destruct (Hp q (or_intror Hq)) as [Q1 [[a' [b' [Q2 Q3]]] [Q4 [Q5 Q6]]]].
        assert (q <> p) by (intros ->; tauto).
        assert (2 * q <> p) by (intros E; apply Q5; left; lia).
        assert (2 * q + 1 <> p) by (intros E; apply Q6; left; lia).
        split; [exact Q1|]. cbn [Merkle.mget].
        replace (2 * q =? p) with false by (symmetry; apply Z.eqb_neq; lia).
        replace (2 * q + 1 =? p) with false by (symmetry; apply Z.eqb_neq; lia).
        replace (q =? p) with false by (symmetry; apply Z.eqb_neq; lia).
        split; [exists a', b'; tauto|]. split; [exact Q4|]. split; intros Hin; [apply Q5|apply Q6]; right; exact Hin. }
      exists nodes'. split; [exact N1|]. intros x. rewrite N2.
      unfold zmem. cbn [existsb]. fold (zmem x r).
      destruct (zmem x r) eqn:Ez.
      + rewrite orb_true_r. apply zmem_In in Ez.
        destruct (Hp x (or_intror Ez)) as [_ [_ [_ [Q5 Q6]]]].
        unfold hc. cbn [Merkle.mget].
        replace (2 * x =? p) with false by (symmetry; apply Z.eqb_neq; intros E; apply Q5; left; lia).
        replace (2 * x + 1 =? p) with false by (symmetry; apply Z.eqb_neq; intros E; apply Q6; left; lia).
        reflexivity.
      + rewrite orb_false_r. cbn [Merkle.mget]. destruct (x =? p) eqn:E.
        * apply Z.eqb_eq in E. subst x. unfold hc. rewrite P2, P3. reflexivity.
        * reflexivity.
  Qed.

  (* ---------------------------------------------------------------- levels of the partial tree *)
  Lemma pow2_split a e : 0 <= e <= a -> 2 ^ a = 2 ^ (a - e) * 2 ^ e.
  Proof. intros. rewrite <- Z.pow_add_r by lia. f_equal. lia. Qed.

  Lemma pow2_interval_unique a b y : 0 <= a -> 0 <= b ->
    2 ^ a <= y < 2 ^ (a + 1) -> 2 ^ b <= y < 2 ^ (b + 1) -> a = b.
  Proof.
    intros Ha Hb H1 H2. rewrite <- (Z.log2_unique y a) by lia. now apply Z.log2_unique.
  Qed.

  Lemma div_pow2_succ' x k : 0 <= k -> x / 2 ^ k / 2 = x / 2 ^ (k + 1).
  Proof.
    intros Hk. rewrite Z.div_div by (try apply Z.pow_pos_nonneg; lia).
    rewrite Z.pow_add_r by lia. reflexivity.
  Qed.

  Lemma nonempty_fst (L : list (Z * D)) : L <> [] -> exists i, In i (map fst L).
  Proof. destruct L as [|[i d] r]; [congruence|]. intros _. exists i. left. reflexivity. Qed.

  Section Fill.
    Variable h : Z.
    Variable L : list (Z * D).
    Variable A : list D.
    Let n := 2 ^ h.
    Let idxs := map fst L.
    Let M := minimal_list n idxs.
    Hypothesis Hh : 0 <= h <= 31.
    Hypothesis Hidx : forall i, In i idxs -> 0 <= i < n.
    Hypothesis HlenA : length A = length M.

    Definition onp (e x : Z) : Prop := exists i, In i idxs /\ x = (n + i) / 2 ^ e.
    Notation V := (val_in D H dflt M n L A).

    Lemma n_pos : 1 <= n.
    Proof. unfold n. pose proof (Z.pow_pos_nonneg 2 h). lia. Qed.
    Lemma n_small : n <= 2 ^ 31.
    Proof. unfold n. apply Z.pow_le_mono_r; lia. Qed.

    Lemma onp_range e x : 0 <= e <= h -> onp e x -> 2 ^ (h - e) <= x < 2 ^ (h - e + 1).
    Proof.
      intros He [i [Hi ->]]. pose proof (Hidx i Hi) as Hii.
      assert (En : n = 2 ^ (h - e) * 2 ^ e) by (unfold n; apply pow2_split; lia).
      pose proof (Z.pow_pos_nonneg 2 e). pose proof (Z.pow_pos_nonneg 2 (h - e)).
      rewrite Z.pow_add_r by lia. change (2 ^ 1) with 2.
      split.
      - apply Z.div_le_lower_bound; [lia|]. nia.
      - apply Z.div_lt_upper_bound; [lia|]. nia.
    Qed.

    Lemma onp_step e x : 0 <= e -> onp e x -> onp (e + 1) (x / 2).
    Proof.
      intros He [i [Hi ->]]. exists i. split; [exact Hi|]. rewrite div_pow2_succ' by lia. reflexivity.
    Qed.

    Lemma onp_child e x : 1 <= e -> onp e x -> exists c, onp (e - 1) c /\ c / 2 = x.
    Proof.
      intros He [i [Hi ->]]. exists ((n + i) / 2 ^ (e - 1)). split; [exists i; tauto|].
      rewrite div_pow2_succ' by lia. f_equal. f_equal. lia.
    Qed.

    Lemma onp_level_unique e e' x : 0 <= e <= h -> 0 <= e' <= h -> onp e x -> onp e' x -> e = e'.
    Proof.
      intros He He' H1 H2. apply onp_range in H1; [|lia]. apply onp_range in H2; [|lia].
      assert (h - e = h - e') by (apply (pow2_interval_unique _ _ x); lia). lia.
    Qed.

    Lemma onp_computable e x : 0 <= e < h -> onp e x -> computable n idxs x.
    Proof.
      intros He Ho. pose proof (onp_range e x ltac:(lia) Ho) as Hr.
      destruct Ho as [i [Hi ->]]. split.
      - assert (2 ^ 1 <= 2 ^ (h - e)) by (apply Z.pow_le_mono_r; lia). change (2 ^ 1) with 2 in *. lia.
      - exists i. split; [exact Hi|]. exists e. split; [lia|reflexivity].
    Qed.

    Lemma computable_onp x : computable n idxs x -> exists e, 0 <= e < h /\ onp e x.
    Proof.
      intros [Hx [i [Hi [k [Hk Hxk]]]]]. exists k. split; [|exists i; tauto]. split; [exact Hk|].
      destruct (Z_lt_dec k h) as [Hlt|Hge]; [exact Hlt|]. exfalso.
      pose proof (Hidx i Hi) as Hii.
      assert (2 ^ h <= 2 ^ k) by (apply Z.pow_le_mono_r; lia). fold n in H0.
      assert ((n + i) / 2 ^ k < 2).
      { apply Z.div_lt_upper_bound; [pose proof n_pos; lia|]. lia. }
      lia.
    Qed.

    Lemma M_spec : StronglySorted Z.gt M /\ forall x, In x M <-> minimal n idxs x.
    Proof. apply minimal_list_spec; [apply n_pos|exact Hidx]. Qed.

    Lemma M_not_onp e x : 0 <= e <= h -> onp e x -> ~ In x M.
    Proof.
      intros He Ho Hin. destruct M_spec as [_ Hm]. apply Hm in Hin.
      pose proof (minimal_range n idxs x n_pos Hidx Hin) as Hr.
      destruct Hin as [_ Hnc]. apply Hnc.
      destruct Ho as [i [Hi ->]]. split; [lia|]. exists i. split; [exact Hi|]. exists e. split; [lia|reflexivity].
    Qed.

    Lemma M_not_claimed x : In x M -> find_leaf L (x - n) = None.
    Proof.
      intros Hin. apply find_leaf_None. intros Hc. fold idxs in Hc.
      apply (M_not_onp 0 x); [lia| |exact Hin]. exists (x - n). split; [exact Hc|].
      rewrite Z.div_1_r. lia.
    Qed.

    Lemma val_M k x j : pos_of x M = Some j -> V k x = nth j A dflt.
    Proof.
      intros Hp. assert (Hin : In x M).
      { destruct (pos_of_Some x M j Hp) as [P1 P2]. rewrite <- P2. apply nth_In. exact P1. }
      destruct k; cbn [val_in]; rewrite M_not_claimed by exact Hin; rewrite Hp; reflexivity.
    Qed.

    Lemma val_inner e x : 1 <= e <= h -> onp e x ->
      V (Z.to_nat e) x = H (V (Z.to_nat (e - 1)) (2 * x)) (V (Z.to_nat (e - 1)) (2 * x + 1)).
    Proof.
      intros He Ho. replace (Z.to_nat e) with (S (Z.to_nat (e - 1))) by lia. cbn [val_in].
      pose proof (onp_range e x ltac:(lia) Ho) as Hr.
      assert (Hxn : x < n).
      { unfold n. assert (2 ^ (h - e + 1) <= 2 ^ h) by (apply Z.pow_le_mono_r; lia). lia. }
      assert (Hf : find_leaf L (x - n) = None).
      { apply find_leaf_None. intros Hc. fold idxs in Hc. pose proof (Hidx _ Hc). lia. }
      rewrite Hf.
      assert (Hp : pos_of x M = None) by (apply pos_of_None; apply (M_not_onp e); [lia|exact Ho]).
      rewrite Hp. reflexivity.
    Qed.

    Definition InvA (e : Z) (nodes : pmap D) : Prop :=
      (forall x j, pos_of x M = Some j -> mget nodes x = Some (nth j A dflt)) /\
      (forall e' x, 0 <= e' < e -> onp e' x -> mget nodes x = Some (V (Z.to_nat e') x)).
    Definition InvB (e : Z) (nodes : pmap D) : Prop :=
      forall x, mget nodes x <> None -> In x M \/ exists e', 0 <= e' < e /\ onp e' x.

    Lemma sibling_of_half c y : c / 2 = y / 2 -> y <> c -> y = spec_sibling c.
    Proof.
      intros Hh2 Hne. unfold spec_sibling. destruct (Z.even c) eqn:Ec.
      - apply Zeven_bool_iff in Ec. apply Zeven_ex_iff in Ec. destruct Ec as [q ->]. lia.
      - rewrite <- Z.negb_odd in Ec. apply negb_false_iff in Ec.
        apply Zodd_bool_iff in Ec. apply Zodd_ex_iff in Ec. destruct Ec as [q ->]. lia.
    Qed.

    Lemma child_known e x y nodes : 1 <= e <= h -> onp e x -> InvA e nodes -> y / 2 = x ->
      mget nodes y = Some (V (Z.to_nat (e - 1)) y).
    Proof.
      intros He Ho [IA1 IA2] Hy.
      destruct (onp_child e x ltac:(lia) Ho) as [c [Hc1 Hc2]].
      destruct (Z.eq_dec y c) as [->|Hne]; [apply IA2; [lia|exact Hc1]|].
      assert (Ey : y = spec_sibling c) by (apply sibling_of_half; [lia|exact Hne]).
      pose proof (onp_range (e - 1) c ltac:(lia) Hc1) as Hrc.
      pose proof (onp_range e x ltac:(lia) Ho) as Hrx.
      assert (E2 : 2 ^ (h - (e - 1)) = 2 * 2 ^ (h - e)).
      { replace (h - (e - 1)) with (h - e + 1) by lia. rewrite Z.pow_add_r by lia. lia. }
      assert (E3 : 2 ^ (h - (e - 1) + 1) = 2 * 2 ^ (h - e + 1)).
      { replace (h - (e - 1) + 1) with (h - e + 1 + 1) by lia. rewrite (Z.pow_add_r 2 (h - e + 1) 1) by lia. lia. }
      assert (Hry : 2 ^ (h - (e - 1)) <= y < 2 ^ (h - (e - 1) + 1)) by lia.
      assert (Hpos : forall i, In i idxs -> 0 <= i) by (intros i Hi; pose proof (Hidx i Hi); lia).
      destruct (computable_b n idxs y) eqn:Ecb.
      - apply (computable_b_spec n idxs y n_pos Hpos) in Ecb.
        destruct (computable_onp y Ecb) as [e'' [He'' Ho'']].
        pose proof (onp_range e'' y ltac:(lia) Ho'') as Hr''.
        assert (h - e'' = h - (e - 1)) by (apply (pow2_interval_unique _ _ y); lia).
        replace (e - 1) with e'' by lia. apply IA2; [lia|exact Ho''].
      - assert (Hmin : minimal n idxs y).
        { split.
          - unfold needed. rewrite Ey, spec_sibling_invol. apply (onp_computable (e - 1)); [lia|exact Hc1].
          - intros Hcy. apply (computable_b_spec n idxs y n_pos Hpos) in Hcy. congruence. }
        destruct M_spec as [_ Hm]. apply Hm in Hmin.
        destruct (pos_of y M) as [j|] eqn:Ep; [|apply pos_of_None in Ep; tauto].
        rewrite (IA1 y j Ep). f_equal. symmetry. apply val_M. exact Ep.
    Qed.

    Definition parents_ok (e : Z) (parents : list Z) : Prop :=
      StronglySorted Z.lt parents /\ forall x, In x parents <-> onp e x.

    Lemma layer_step m e nodes parents : 1 <= e <= h ->
      InvA e nodes -> InvB e nodes -> parents_ok e parents ->
      exists nodes', fill_layer D H m nodes parents = Ok nodes' /\ InvA (e + 1) nodes' /\ InvB (e + 1) nodes'.
    Proof.
      intros He HA HB [PS PM].
      destruct (fill_layer_gen m parents nodes) as [nodes' [N1 N2]].
      - apply sorted_lt_NoDup. exact PS.
      - intros p Hp. apply PM in Hp.
        pose proof (onp_range e p ltac:(lia) Hp) as Hr.
        assert (Hle : 2 ^ (h - e + 1) <= 2 ^ 31) by (apply Z.pow_le_mono_r; lia).
        change (2 ^ 31) with 2147483648 in Hle.
        split; [unfold USZ; lia|]. split.
        { exists (V (Z.to_nat (e - 1)) (2 * p)), (V (Z.to_nat (e - 1)) (2 * p + 1)).
          split; apply (child_known e p); try assumption; lia. }
        split.
        { destruct (mget nodes p) eqn:Eg; [|reflexivity]. exfalso.
          destruct (HB p) as [Hin|[e' [He' Ho']]]; [congruence| |].
          - apply (M_not_onp e p); [lia|exact Hp|exact Hin].
          - assert (e = e') by (apply (onp_level_unique e e' p); try assumption; lia). lia. }
        assert (E1 : 2 ^ (h - e + 1) = 2 * 2 ^ (h - e)) by (rewrite Z.pow_add_r by lia; lia).
        split; intros Hin; apply PM in Hin; apply onp_range in Hin; lia.
      - exists nodes'. split; [exact N1|]. destruct HA as [IA1 IA2]. split; [split|].
        + intros x j Hpx. rewrite N2.
          destruct (zmem x parents) eqn:Ez; [|apply IA1; exact Hpx]. exfalso.
          apply zmem_In in Ez. apply PM in Ez. apply (M_not_onp e x); [lia|exact Ez|].
          destruct (pos_of_Some x M j Hpx) as [P1 P2]. rewrite <- P2. apply nth_In. exact P1.
        + intros e' x He' Ho'. rewrite N2.
          destruct (zmem x parents) eqn:Ez.
          * apply zmem_In in Ez. apply PM in Ez.
            assert (e' = e) by (apply (onp_level_unique e' e x); try assumption; lia). subst e'.
            unfold hc.
            rewrite (child_known e x (2 * x) nodes) by (try assumption; try split; try assumption; lia).
            rewrite (child_known e x (2 * x + 1) nodes) by (try assumption; try split; try assumption; lia).
            f_equal. symmetry. apply val_inner; [lia|exact Ez].
          * destruct (Z.eq_dec e' e) as [->|Hne].
            -- exfalso. apply PM in Ho'. apply zmem_In in Ho'. congruence.
            -- apply IA2; [lia|exact Ho'].
        + intros x Hx. rewrite N2 in Hx.
          destruct (zmem x parents) eqn:Ez.
          * right. exists e. split; [lia|]. apply PM. apply zmem_In. exact Ez.
          * destruct (HB x Hx) as [Hin|[e' [He' Ho']]]; [left; exact Hin|right; exists e'; split; [lia|exact Ho']].
    Qed.

    Lemma map_half_sorted l : StronglySorted Z.lt l -> StronglySorted Z.le (map (fun i => i / 2) l).
    Proof.
      induction 1 as [|a r Hs IH Hf]; cbn [map]; constructor; [exact IH|].
      rewrite Forall_forall in *. intros y Hy. apply in_map_iff in Hy. destruct Hy as [z [<- Hz]].
      specialize (Hf z Hz). lia.
    Qed.

    Lemma parents_up e parents : 0 <= e -> parents_ok e parents ->
      parents_ok (e + 1) (dedup_adj (map (fun i => i / 2) parents)).
    Proof.
      intros He [PS PM]. split.
      - apply dedup_adj_sorted. apply map_half_sorted. exact PS.
      - intros x. rewrite dedup_adj_In, in_map_iff. split.
        + intros [p [<- Hp]]. apply onp_step; [exact He|]. apply PM. exact Hp.
        + intros [i [Hi ->]]. exists ((n + i) / 2 ^ e). split.
          * apply div_pow2_succ'. exact He.
          * apply PM. exists i. tauto.
    Qed.

    Lemma first_parents_ok m : 1 <= h ->
      exists ps, first_layer_parents m h idxs = Ok ps /\ parents_ok 1 ps.
    Proof.
      intros Hh1. unfold first_layer_parents, pmt_num_leafs, MAX_TREE_HEIGHT.
      destruct (31 <? h) eqn:E; [apply Z.ltb_lt in E; lia|]. cbn [obind]. fold n.
      rewrite (mapO_ok _ (fun i => (i + n) / 2)).
      2:{ intros i Hi. pose proof (Hidx i Hi). pose proof n_small. change (2 ^ 31) with 2147483648 in *.
          rewrite uadd_ok by (unfold USZ; lia). reflexivity. }
      cbn [obind]. eexists. split; [reflexivity|]. split.
      - apply dedup_adj_sorted. apply isort_asc_sorted.
      - intros x. rewrite dedup_adj_In, isort_asc_In, in_map_iff. unfold onp. change (2 ^ 1) with 2.
        split; [intros [i [Hi1 Hi2]]|intros [i [Hi1 Hi2]]]; exists i; rewrite (Z.add_comm n i) in *; split; auto.
    Qed.

    Lemma fill_loop_ok m : forall (r : nat) e nodes parents,
      Z.of_nat r = h - e + 1 -> 1 <= e ->
      InvA e nodes -> InvB e nodes -> ((1 <= r)%nat -> parents_ok e parents) ->
      exists nodes', fill_loop D H m r nodes parents = Ok nodes' /\ InvA (h + 1) nodes' /\ InvB (h + 1) nodes'.
    Proof.
      induction r; intros e nodes parents Hr He HA HB HP.
      - exists nodes. split; [reflexivity|]. replace (h + 1) with e by lia. tauto.
      - cbn [fill_loop].
        destruct (layer_step m e nodes parents ltac:(lia) HA HB (HP ltac:(lia))) as [nodes1 [N1 [N2 N3]]].
        rewrite N1. cbn [obind]. apply (IHr (e + 1)); try assumption; try lia.
        intros _. apply parents_up; [lia|]. apply HP. lia.
    Qed.

    Hypothesis Hcons : consistent D L.

    Lemma M_NoDup : NoDup M.
    Proof. apply sorted_gt_NoDup. apply M_spec. Qed.

    Lemma nodes0_get x :
      mget (rev (combine M A)) x = match pos_of x M with Some j => Some (nth j A dflt) | None => None end.
    Proof. apply mget_combine; [apply M_NoDup|exact HlenA]. Qed.

    (* the whole of try_from under the structural conditions *)
    Lemma try_from_ok m :
      exists nodes, pmt_try_from D H Deqb m (MkProof h L A) = Ok (MkPmt D h idxs nodes) /\
                    InvA (h + 1) nodes /\ InvB (h + 1) nodes.
    Proof.
      pose proof n_pos as Hn1. pose proof n_small as Hn2. change (2 ^ 31) with 2147483648 in Hn2.
      unfold pmt_try_from. cbn [ip_height ip_leafs ip_auth]. fold idxs.
      unfold pmt_num_leafs, MAX_TREE_HEIGHT.
      destruct (31 <? h) eqn:E; [apply Z.ltb_lt in E; lia|]. cbn [obind]. fold n.
      assert (Ex : existsb (fun i => n <=? i) idxs = false).
      { apply not_true_iff_false. intros Hex. apply existsb_exists in Hex. destruct Hex as [i [Hi Hni]].
        apply Z.leb_le in Hni. pose proof (Hidx i Hi). lia. }
      rewrite Ex.
      rewrite auth_indices_eq by (try assumption; unfold USZ; lia). cbn [obind]. fold M.
      assert (El : (zlen A =? zlen M) = true) by (apply Z.eqb_eq; unfold zlen; lia).
      rewrite El. cbn [negb].
      destruct (add_leafs_ok m n ltac:(lia) L (rev (combine M A))) as [nodes1 [N1 N2]].
      { intros i Hi. fold idxs in Hi. pose proof (Hidx i Hi). unfold USZ. lia. }
      { exact Hcons. }
      { intros i d d' Hin Hg. exfalso. rewrite nodes0_get in Hg.
        destruct (pos_of (i + n) M) as [j|] eqn:Ep; [|discriminate].
        apply (M_not_onp 0 (i + n)); [lia| |].
        - exists i. split; [apply in_map_iff; exists (i, d); tauto|]. rewrite Z.div_1_r. lia.
        - destruct (pos_of_Some _ _ _ Ep) as [P1 P2]. rewrite <- P2. apply nth_In. exact P1. }
      rewrite N1. cbn [obind].
      assert (HA1 : InvA 1 nodes1).
      { split.
        - intros x j Hp. rewrite N2.
          assert (Hin : In x M).
          { destruct (pos_of_Some _ _ _ Hp) as [P1 P2]. rewrite <- P2. apply nth_In. exact P1. }
          rewrite M_not_claimed by exact Hin. rewrite nodes0_get, Hp. reflexivity.
        - intros e' x He' [i [Hi ->]]. assert (e' = 0) by lia. subst e'. rewrite Z.div_1_r.
          rewrite N2. replace (n + i - n) with i by lia.
          destruct (find_leaf L i) as [d|] eqn:Ef.
          + cbn [Z.to_nat val_in]. replace (n + i - n) with i by lia. rewrite Ef. reflexivity.
          + apply find_leaf_None in Ef. tauto. }
      assert (HB1 : InvB 1 nodes1).
      { intros x Hx. rewrite N2 in Hx.
        destruct (find_leaf L (x - n)) as [d|] eqn:Ef.
        - right. exists 0. split; [lia|]. exists (x - n). split.
          + apply find_leaf_In in Ef. apply in_map_iff. exists (x - n, d). tauto.
          + rewrite Z.div_1_r. lia.
        - left. rewrite nodes0_get in Hx. destruct (pos_of x M) as [j|] eqn:Ep; [|congruence].
          destruct (pos_of_Some _ _ _ Ep) as [P1 P2]. rewrite <- P2. apply nth_In. exact P1. }
      unfold pmt_fill.
      destruct (Z.eq_dec h 0) as [Hh0|Hh0].
      - (* height 0: no round at all *)
        assert (Hfp : exists ps, first_layer_parents m h idxs = Ok ps).
        { unfold first_layer_parents, pmt_num_leafs, MAX_TREE_HEIGHT. rewrite E. cbn [obind]. fold n.
          rewrite (mapO_ok _ (fun i => (i + n) / 2)).
          - cbn [obind]. eexists. reflexivity.
          - intros i Hi. pose proof (Hidx i Hi). rewrite uadd_ok by (unfold USZ; lia). reflexivity. }
        destruct Hfp as [ps Hps]. rewrite Hps. cbn [obind].
        replace (Z.to_nat h) with O by lia. cbn [fill_loop obind].
        exists nodes1. split; [reflexivity|]. replace (h + 1) with 1 by lia. split; assumption.
      - destruct (first_parents_ok m ltac:(lia)) as [ps [P1 P2]]. rewrite P1. cbn [obind].
        destruct (fill_loop_ok m (Z.to_nat h) 1 nodes1 ps) as [nodes2 [F1 [F2 F3]]]; try assumption; try lia.
        { intros _. exact P2. }
        rewrite F1. cbn [obind]. exists nodes2. tauto.
    Qed.

    (* the root of the filled partial tree *)
    Lemma root_of_filled nodes : L <> [] -> InvA (h + 1) nodes ->
      mget nodes 1 = Some (V (Z.to_nat h) 1).
    Proof.
      intros HL [_ IA2]. destruct (nonempty_fst L HL) as [i Hi]. fold idxs in Hi.
      apply IA2; [lia|]. exists i. split; [exact Hi|].
      pose proof (Hidx i Hi). apply Z.div_unique with (r := i); [lia|]. unfold n. lia.
    Qed.

    Lemma InvA_weaken e1 e2 nodes : e1 <= e2 -> InvA e2 nodes -> InvA e1 nodes.
    Proof. intros Hle [I1 I2]. split; [exact I1|]. intros e' x He' Ho. apply I2; [lia|exact Ho]. Qed.

    Lemma child_cases e x y : 1 <= e <= h -> onp e x -> y / 2 = x ->
      onp (e - 1) y \/ exists j, pos_of y M = Some j.
    Proof.
      intros He Ho Hy.
      destruct (onp_child e x ltac:(lia) Ho) as [c [Hc1 Hc2]].
      destruct (Z.eq_dec y c) as [->|Hne]; [left; exact Hc1|].
      assert (Ey : y = spec_sibling c) by (apply sibling_of_half; [lia|exact Hne]).
      pose proof (onp_range (e - 1) c ltac:(lia) Hc1) as Hrc.
      pose proof (onp_range e x ltac:(lia) Ho) as Hrx.
      assert (E2 : 2 ^ (h - (e - 1)) = 2 * 2 ^ (h - e)).
      { replace (h - (e - 1)) with (h - e + 1) by lia. rewrite Z.pow_add_r by lia. lia. }
      assert (E3 : 2 ^ (h - (e - 1) + 1) = 2 * 2 ^ (h - e + 1)).
      { replace (h - (e - 1) + 1) with (h - e + 1 + 1) by lia. rewrite (Z.pow_add_r 2 (h - e + 1) 1) by lia. lia. }
      assert (Hry : 2 ^ (h - (e - 1)) <= y < 2 ^ (h - (e - 1) + 1)) by lia.
      assert (Hpos : forall i, In i idxs -> 0 <= i) by (intros i Hi; pose proof (Hidx i Hi); lia).
      destruct (computable_b n idxs y) eqn:Ecb.
      - left. apply (computable_b_spec n idxs y n_pos Hpos) in Ecb.
        destruct (computable_onp y Ecb) as [e'' [He'' Ho'']].
        pose proof (onp_range e'' y ltac:(lia) Ho'') as Hr''.
        assert (h - e'' = h - (e - 1)) by (apply (pow2_interval_unique _ _ y); lia).
        replace (e - 1) with e'' by lia. exact Ho''.
      - right. assert (Hmin : minimal n idxs y).
        { split.
          - unfold needed. rewrite Ey, spec_sibling_invol. apply (onp_computable (e - 1)); [lia|exact Hc1].
          - intros Hcy. apply (computable_b_spec n idxs y n_pos Hpos) in Hcy. congruence. }
        destruct M_spec as [_ Hm]. apply Hm in Hmin.
        destruct (pos_of y M) as [j|] eqn:Ep; [exists j; reflexivity|apply pos_of_None in Ep; tauto].
    Qed.

    Lemma auth_path_ok nodes : InvA (h + 1) nodes -> forall (lvl fuel : nat) e x,
      (lvl <= fuel)%nat -> Z.of_nat lvl = h - e -> 0 <= e -> onp e x ->
      mapO (fun k => match mget nodes (sibling k) with Some d => Ok d | None => Err end) (path_up fuel x) =
      Ok (sibling_path_in D H dflt M n L A (Z.to_nat h) x lvl).
    Proof.
      intros HA. induction lvl; intros fuel e x Hf Hl He Ho.
      - assert (e = h) by lia. subst e. pose proof (onp_range h x ltac:(lia) Ho) as Hr.
        replace (h - h) with 0 in Hr by lia. cbn in Hr. assert (x = 1) by lia. subst x.
        destruct fuel; reflexivity.
      - destruct fuel as [|fuel']; [lia|].
        pose proof (onp_range e x ltac:(lia) Ho) as Hr.
        assert (2 ^ 1 <= 2 ^ (h - e)) by (apply Z.pow_le_mono_r; lia). change (2 ^ 1) with 2 in *.
        cbn [path_up]. destruct (1 <? x) eqn:E1; [|apply Z.ltb_ge in E1; lia].
        cbn [mapO sibling_path_in]. rewrite sibling_spec.
        assert (Ho' : onp (e + 1) (x / 2)) by (apply onp_step; [lia|exact Ho]).
        rewrite (child_known (e + 1) (x / 2) (spec_sibling x) nodes); try lia; try assumption.
        2:{ apply (InvA_weaken (e + 1) (h + 1)); [lia|exact HA]. }
        2:{ apply spec_sibling_half. }
        cbn [obind]. rewrite (IHlvl fuel' (e + 1) (x / 2)); try lia; try assumption.
        cbn [obind]. f_equal. f_equal. f_equal. lia.
    Qed.
  End Fill.

  (* ---------------------------------------------------------------- verification, exactly *)
  Lemma minimal_list_nil n : 1 <= n -> minimal_list n [] = [].
  Proof.
    intros Hn. destruct (minimal_list_spec n [] Hn) as [_ Hm]; [intros i []|].
    destruct (minimal_list n []) as [|x r]; [reflexivity|]. exfalso.
    destruct (proj1 (Hm x) (or_introl eq_refl)) as [[_ [i [[] _]]] _].
  Qed.

  Lemma try_from_unfold m h (L : list (Z * D)) (A : list D) :
    0 <= h <= 31 -> (forall i, In i (map fst L) -> 0 <= i < 2 ^ h) ->
    length A = length (minimal_list (2 ^ h) (map fst L)) ->
    pmt_try_from D H Deqb m (MkProof h L A) =
      (do nodes1 <- add_leafs m (2 ^ h) L (rev (combine (minimal_list (2 ^ h) (map fst L)) A)) ;
       do nodes2 <- pmt_fill D H m h (map fst L) nodes1 ;
       Ok (MkPmt D h (map fst L) nodes2)).
  Proof.
    intros Hh Hidx Hlen.
    assert (Hn1 : 1 <= 2 ^ h) by (pose proof (Z.pow_pos_nonneg 2 h); lia).
    assert (Hn2 : 2 ^ h <= 2 ^ 31) by (apply Z.pow_le_mono_r; lia). change (2 ^ 31) with 2147483648 in Hn2.
    unfold pmt_try_from. cbn [ip_height ip_leafs ip_auth].
    unfold pmt_num_leafs, MAX_TREE_HEIGHT.
    destruct (31 <? h) eqn:E; [apply Z.ltb_lt in E; lia|]. cbn [obind].
    assert (Ex : existsb (fun i => 2 ^ h <=? i) (map fst L) = false).
    { apply not_true_iff_false. intros Hex. apply existsb_exists in Hex. destruct Hex as [i [Hi Hni]].
      apply Z.leb_le in Hni. pose proof (Hidx i Hi). lia. }
    rewrite Ex. rewrite auth_indices_eq by (try assumption; unfold USZ; lia). cbn [obind].
    assert (El : (zlen A =? zlen (minimal_list (2 ^ h) (map fst L))) = true) by (apply Z.eqb_eq; unfold zlen; lia).
    rewrite El. reflexivity.
  Qed.

  Lemma try_from_dec m (p : iproof D) : wf_proof D p ->
    (structure_ok D p /\
     exists nodes, pmt_try_from D H Deqb m p = Ok (MkPmt D (ip_height p) (map fst (ip_leafs p)) nodes) /\
                   InvA (ip_height p) (ip_leafs p) (ip_auth p) (ip_height p + 1) nodes) \/
    (~ structure_ok D p /\ pmt_try_from D H Deqb m p = Err).
  Proof.
    destruct p as [h L A]. unfold wf_proof, structure_ok. cbn [ip_height ip_leafs ip_auth].
    intros [Hh0 Hpos].
    destruct (Z_le_dec h 31) as [Hh31|Hh31].
    2:{ right. split; [intros [S1 _]; lia|]. unfold pmt_try_from, pmt_num_leafs, MAX_TREE_HEIGHT.
        cbn [ip_height]. destruct (31 <? h) eqn:E; [reflexivity|apply Z.ltb_ge in E; lia]. }
    assert (Hn1 : 1 <= 2 ^ h) by (pose proof (Z.pow_pos_nonneg 2 h); lia).
    assert (Hn2 : 2 ^ h <= 2 ^ 31) by (apply Z.pow_le_mono_r; lia). change (2 ^ 31) with 2147483648 in Hn2.
    destruct (existsb (fun i => 2 ^ h <=? i) (map fst L)) eqn:Ex.
    { right. split.
      - intros [_ [S2 _]]. apply existsb_exists in Ex. destruct Ex as [i [Hi Hni]].
        apply Z.leb_le in Hni. specialize (S2 i Hi). lia.
      - unfold pmt_try_from, pmt_num_leafs, MAX_TREE_HEIGHT. cbn [ip_height ip_leafs].
        destruct (31 <? h) eqn:E; [reflexivity|]. cbn [obind]. rewrite Ex. reflexivity. }
    assert (Hidx : forall i, In i (map fst L) -> 0 <= i < 2 ^ h).
    { intros i Hi. split; [apply Hpos; exact Hi|].
      destruct (Z_lt_dec i (2 ^ h)) as [Hlt|Hge]; [exact Hlt|]. exfalso.
      apply not_true_iff_false in Ex. apply Ex. apply existsb_exists. exists i. split; [exact Hi|]. apply Z.leb_le. lia. }
    destruct (Nat.eq_dec (length A) (length (minimal_list (2 ^ h) (map fst L)))) as [Hlen|Hlen].
    2:{ right. split; [intros [_ [_ [S3 _]]]; contradiction|].
        unfold pmt_try_from, pmt_num_leafs, MAX_TREE_HEIGHT. cbn [ip_height ip_leafs ip_auth].
        destruct (31 <? h) eqn:E; [reflexivity|]. cbn [obind]. rewrite Ex.
        rewrite auth_indices_eq by (try assumption; unfold USZ; lia). cbn [obind].
        destruct (zlen A =? zlen (minimal_list (2 ^ h) (map fst L))) eqn:El; [|reflexivity].
        apply Z.eqb_eq in El. unfold zlen in El. lia. }
    pose proof (try_from_unfold m h L A ltac:(lia) Hidx Hlen) as Hunf.
    assert (Hr : forall i, In i (map fst L) -> 0 <= i /\ i + 2 ^ h < USZ).
    { intros i Hi. pose proof (Hidx i Hi). unfold USZ. lia. }
    destruct (add_leafs_total m (2 ^ h) ltac:(lia) L (rev (combine (minimal_list (2 ^ h) (map fst L)) A)) Hr)
      as [[nodes1 Hok]|Herr].
    - pose proof (add_leafs_consistent m (2 ^ h) L _ nodes1 ltac:(lia) Hr Hok) as Hcons.
      left. split; [split; [exact Hh31|split; [intros i Hi; apply Hidx; exact Hi|split; assumption]]|].
      destruct (try_from_ok h L A ltac:(lia) Hidx Hlen Hcons m) as [nodes [T1 [T2 _]]].
      exists nodes. split; assumption.
    - right. split.
      + intros [_ [_ [_ S4]]].
        destruct (try_from_ok h L A ltac:(lia) Hidx Hlen S4 m) as [nodes [T1 _]].
        rewrite Hunf, Herr in T1. discriminate.
      + rewrite Hunf, Herr. reflexivity.
  Qed.

  Lemma nontrivial_leafs (p : iproof D) :
    0 <= ip_height p -> structure_ok D p -> is_trivial D p = false -> ip_leafs p <> [].
  Proof.
    destruct p as [h L A]. unfold structure_ok, is_trivial. cbn [ip_height ip_leafs ip_auth].
    intros Hh0 [_ [_ [Hlen _]]] Ht HL. subst L. cbn [map] in Hlen.
    rewrite minimal_list_nil in Hlen by (pose proof (Z.pow_pos_nonneg 2 h); lia).
    destruct A; [discriminate|discriminate].
  Qed.

  Theorem verify_iff_lemma m (p : iproof D) (root : D) : wf_proof D p ->
    (ip_verify D H Deqb m p root = Ok true <-> verify_spec D H dflt p root).
  Proof.
    intros Hwf. unfold ip_verify, verify_spec.
    destruct (is_trivial D p) eqn:Et; [split; [left; reflexivity|reflexivity]|].
    destruct (try_from_dec m p Hwf) as [[Hs [nodes [T1 T2]]]|[Hns T1]].
    - rewrite T1. unfold pmt_root. cbn [pt_nodes].
      pose proof (nontrivial_leafs p (proj1 Hwf) Hs Et) as HL.
      destruct Hs as [S1 [S2 [S3 S4]]].
      rewrite (root_of_filled (ip_height p) (ip_leafs p) (ip_auth p)) with (nodes := nodes); try assumption.
      + unfold val. split.
        * intros Hv. inversion Hv as [Hv']. apply Deqb_spec in Hv'. right. split; [repeat split; assumption|exact Hv'].
        * intros [Ht|[_ Hv]]; [discriminate|]. f_equal. apply Deqb_spec. exact Hv.
      + destruct Hwf. lia.
      + intros i Hi. split; [apply Hwf; exact Hi|apply S2; exact Hi].
    - rewrite T1. split; [discriminate|]. intros [Ht|[Hs _]]; [discriminate|contradiction].
  Qed.

  Theorem verify_total_lemma m (p : iproof D) (root : D) : wf_proof D p ->
    exists b, ip_verify D H Deqb m p root = Ok b.
  Proof.
    intros Hwf. unfold ip_verify.
    destruct (is_trivial D p); [exists true; reflexivity|].
    destruct (try_from_dec m p Hwf) as [[Hs [nodes [T1 T2]]]|[Hns T1]]; rewrite T1.
    - unfold pmt_root. destruct (mget (pt_nodes D _) 1); eexists; reflexivity.
    - exists false. reflexivity.
  Qed.

  Theorem paths_spec_lemma m (p : iproof D) : wf_proof D p ->
    (structure_ok D p /\
     ip_into_authentication_paths D H Deqb m p =
       Ok (map (fun i => sibling_path D H dflt (2 ^ ip_height p) (ip_leafs p) (ip_auth p) (Z.to_nat (ip_height p))
                                      (2 ^ ip_height p + i) (Z.to_nat (ip_height p)))
               (map fst (ip_leafs p)))) \/
    (~ structure_ok D p /\ ip_into_authentication_paths D H Deqb m p = Err).
  Proof.
    intros Hwf. unfold ip_into_authentication_paths.
    destruct (try_from_dec m p Hwf) as [[Hs [nodes [T1 T2]]]|[Hns T1]]; rewrite T1; cbn [obind].
    2:{ right. split; [exact Hns|reflexivity]. }
    left. split; [exact Hs|]. cbn [pt_leaf_indices].
    destruct Hs as [S1 [S2 [S3 S4]]]. destruct Hwf as [W1 W2].
    set (h := ip_height p) in *. set (L := ip_leafs p) in *. set (A := ip_auth p) in *.
    assert (Hidx : forall i, In i (map fst L) -> 0 <= i < 2 ^ h).
    { intros i Hi. split; [apply W2; exact Hi|apply S2; exact Hi]. }
    assert (Hn2 : 2 ^ h <= 2 ^ 31) by (apply Z.pow_le_mono_r; lia). change (2 ^ 31) with 2147483648 in Hn2.
    apply mapO_ok. intros i Hi. pose proof (Hidx i Hi) as Hii.
    unfold auth_path_for_index. cbn [pt_height pt_nodes].
    unfold pmt_num_leafs, MAX_TREE_HEIGHT. destruct (31 <? h) eqn:E; [apply Z.ltb_lt in E; lia|]. cbn [obind].
    rewrite uadd_ok by (unfold USZ; lia). cbn [obind].
    rewrite (auth_path_ok h L A ltac:(lia) Hidx S3 nodes T2 (Z.to_nat h) 64%nat 0 (i + 2 ^ h)); try lia.
    - unfold sibling_path. rewrite (Z.add_comm i). reflexivity.
    - exists i. split; [exact Hi|]. rewrite Z.div_1_r. lia.
  Qed.

  (* ---------------------------------------------------------------- honest proofs (C10) *)
  Lemma find_leaf_map (f : Z -> D) idxs i : In i idxs ->
    find_leaf (map (fun j => (j, f j)) idxs) i = Some (f i).
  Proof.
    induction idxs as [|j r IH]; [intros []|]. intros Hin. cbn [map find_leaf].
    destruct (i =? j) eqn:E; [apply Z.eqb_eq in E; subst; reflexivity|].
    apply Z.eqb_neq in E. apply IH. destruct Hin; [congruence|assumption].
  Qed.

  Lemma map_fst_pairs (f : Z -> D) idxs : map fst (map (fun j => (j, f j)) idxs) = idxs.
  Proof. induction idxs as [|j r IH]; [reflexivity|]. cbn [map fst]. now rewrite IH. Qed.

  Lemma nonempty_in (l : list Z) : l <> [] -> exists i, In i l.
  Proof. destruct l as [|i r]; [congruence|]. intros _. exists i. left. reflexivity. Qed.

  Section Complete.
    Variable leafs : list D.
    Variable h : Z.
    Variable idxs : list Z.
    Hypothesis Hh : 0 <= h <= 31.
    Hypothesis Hlen : zlen leafs = 2 ^ h.
    Hypothesis Hidx0 : forall i, In i idxs -> 0 <= i < 2 ^ h.
    Notation znth := (znth D dflt).
    Let T := spec_tree D H dflt leafs.
    Let L := map (fun i => (i, znth leafs i)) idxs.
    Let A := map (znth T) (minimal_list (2 ^ h) idxs).
    Notation M := (minimal_list (2 ^ h) (map fst L)).
    Notation V := (val_in D H dflt M (2 ^ h) L A).

    Lemma fstL : map fst L = idxs.
    Proof. apply map_fst_pairs. Qed.
    Lemma Hidx : forall i, In i (map fst L) -> 0 <= i < 2 ^ h.
    Proof. rewrite fstL. exact Hidx0. Qed.
    Lemma HlenA : length A = length M.
    Proof. rewrite fstL. unfold A. apply map_length. Qed.
    Lemma Hpow : is_pow2 (zlen leafs) = true.
    Proof. apply is_pow2_spec. exists h. split; [lia|exact Hlen]. Qed.
    Lemma T_ok : tree_ok D H dflt leafs T.
    Proof. apply spec_tree_ok. exact Hpow. Qed.

    Lemma hv_M k y j : pos_of y M = Some j -> V k y = znth T y.
    Proof.
      intros Hp. rewrite (val_M h L A Hh Hidx HlenA k y j Hp).
      destruct (pos_of_Some y M j Hp) as [P1 P2]. rewrite fstL in P1, P2.
      unfold A. rewrite (nth_indep _ dflt (znth T 0)) by (rewrite map_length; exact P1).
      rewrite map_nth, P2. reflexivity.
    Qed.

    Lemma honest_val : forall (e : nat) x, Z.of_nat e <= h -> onp h L (Z.of_nat e) x -> V e x = znth T x.
    Proof.
      destruct T_ok as [TA [TB [TC TE]]]. cbv zeta in TA, TC, TE. rewrite Hlen in TA, TC, TE.
      induction e; intros x He Ho.
      - destruct Ho as [i [Hi ->]]. cbn [Z.of_nat] in *. rewrite Z.div_1_r. rewrite fstL in Hi.
        cbn [val_in]. replace (2 ^ h + i - 2 ^ h) with i by lia.
        unfold L at 1. rewrite find_leaf_map by exact Hi. symmetry. apply TC. apply Hidx0. exact Hi.
      - pose proof (onp_range h L A Hh Hidx HlenA (Z.of_nat (S e)) x ltac:(lia) Ho) as Hr.
        assert (Hxn : 1 <= x < 2 ^ h).
        { pose proof (Z.pow_pos_nonneg 2 (h - Z.of_nat (S e))).
          assert (2 ^ (h - Z.of_nat (S e) + 1) <= 2 ^ h) by (apply Z.pow_le_mono_r; lia). lia. }
        rewrite <- (Nat2Z.id (S e)). rewrite (val_inner h L A Hh Hidx HlenA (Z.of_nat (S e)) x) by (try assumption; lia).
        replace (Z.to_nat (Z.of_nat (S e) - 1)) with e by lia.
        rewrite TE by lia.
        assert (Hc : forall y, y / 2 = x -> V e y = znth T y).
        { intros y Hy.
          destruct (child_cases h L A Hh Hidx HlenA (Z.of_nat (S e)) x y ltac:(lia) Ho Hy) as [Hoy|[j Hj]].
          - apply IHe; [lia|]. replace (Z.of_nat e) with (Z.of_nat (S e) - 1) by lia. exact Hoy.
          - apply (hv_M e y j Hj). }
        rewrite !Hc by lia. reflexivity.
    Qed.

    Lemma honest_structure : structure_ok D (MkProof h L A).
    Proof.
      unfold structure_ok. cbn [ip_height ip_leafs ip_auth].
      split; [lia|]. split; [intros i Hi; apply Hidx; exact Hi|]. split; [exact HlenA|].
      intros i d d' H1 H2. unfold L in H1, H2. apply in_map_iff in H1, H2.
      destruct H1 as [a [E1 _]]. destruct H2 as [b [E2 _]]. inversion E1. inversion E2. congruence.
    Qed.

    Lemma honest_wf : wf_proof D (MkProof h L A).
    Proof. split; cbn [ip_height ip_leafs]; [lia|]. intros i Hi. apply Hidx in Hi. lia. Qed.

    (* C10 complete *)
    Theorem complete_lemma m : idxs <> [] ->
      ip_verify D H Deqb m (MkProof h L A) (znth T 1) = Ok true.
    Proof.
      intros Hne. apply verify_iff_lemma; [exact honest_wf|]. right. split; [exact honest_structure|].
      cbn [ip_height ip_leafs ip_auth]. unfold val.
      destruct (nonempty_in idxs Hne) as [i Hi].
      apply honest_val; [lia|]. rewrite Z2Nat.id by lia.
      exists i. split; [rewrite fstL; exact Hi|].
      pose proof (Hidx0 i Hi).
      apply Z.div_unique with (r := i); lia.
    Qed.

    Lemma log2_n : Z.log2 (zlen leafs) = h.
    Proof. rewrite Hlen. apply Z.log2_pow2. lia. Qed.

    Lemma n_bounds : 1 <= 2 ^ h <= 2147483648.
    Proof.
      pose proof (Z.pow_pos_nonneg 2 h). assert (2 ^ h <= 2 ^ 31) by (apply Z.pow_le_mono_r; lia).
      change (2 ^ 31) with 2147483648 in *. lia.
    Qed.

    Lemma honest_auth m :
      mt_authentication_structure D m T idxs = Ok (map (znth T) (minimal_list (2 ^ h) idxs)).
    Proof.
      pose proof n_bounds as Hn.
      unfold mt_authentication_structure. unfold T. rewrite honest_num_leafs by exact Hpow. cbn [obind].
      rewrite Hlen. rewrite auth_indices_eq by (try assumption; unfold USZ; lia). cbn [obind].
      apply mapO_ok. intros x Hx.
      destruct (minimal_list_spec (2 ^ h) idxs ltac:(lia) Hidx0) as [_ Hm]. apply Hm in Hx.
      pose proof (minimal_range (2 ^ h) idxs x ltac:(lia) Hidx0 Hx) as Hr.
      rewrite (zget_znth D dflt); [reflexivity|]. rewrite (honest_len D H dflt leafs Hpow). rewrite Hlen. lia.
    Qed.

    (* the prover produces exactly the proof (h, claimed leafs, documented minimal structure) *)
    Lemma honest_proof_eq m : mt_inclusion_proof D true m T idxs = Ok (MkProof h L A).
    Proof.
      pose proof n_bounds as Hn.
      unfold mt_inclusion_proof. unfold T at 1. rewrite honest_height by exact Hpow. cbn [obind].
      rewrite log2_n. unfold T at 1.
      rewrite honest_indexed_leafs_fixed; try exact Hpow.
      2:{ rewrite Hlen. change (2 ^ 63) with 9223372036854775808. lia. }
      2:{ intros i Hi. apply Hidx0 in Hi. lia. }
      assert (Ef : forallb (fun i => i <? zlen leafs) idxs = true).
      { apply forallb_forall. intros i Hi. apply Z.ltb_lt. rewrite Hlen. apply Hidx0. exact Hi. }
      rewrite Ef. cbn [obind]. rewrite honest_auth. reflexivity.
    Qed.

    Lemma sibling_path_tree : forall (lvl : nat) e x, Z.of_nat lvl = h - e -> 0 <= e -> onp h L e x ->
      sibling_path_in D H dflt M (2 ^ h) L A (Z.to_nat h) x lvl = tree_path D dflt T x lvl.
    Proof.
      induction lvl; intros e x Hl He Ho; [reflexivity|].
      cbn [sibling_path_in tree_path].
      assert (Ho' : onp h L (e + 1) (x / 2)) by (apply (onp_step h L A Hidx HlenA); [lia|exact Ho]).
      f_equal.
      - replace (Z.to_nat h - S lvl)%nat with (Z.to_nat (e + 1 - 1)) by lia.
        destruct (child_cases h L A Hh Hidx HlenA (e + 1) (x / 2) (spec_sibling x) ltac:(lia) Ho' (spec_sibling_half x))
          as [Hoy|[j Hj]].
        + rewrite <- (Z2Nat.id (e + 1 - 1)) in Hoy by lia. apply honest_val; [lia|exact Hoy].
        + apply (hv_M _ _ j Hj).
      - apply (IHlvl (e + 1)); [lia|lia|exact Ho'].
    Qed.

    (* C10 paths_are_siblings: the expanded paths are the sibling paths in the tree *)
    Theorem honest_paths_lemma m :
      ip_into_authentication_paths D H Deqb m (MkProof h L A) =
      Ok (map (fun i => tree_path D dflt T (2 ^ h + i) (Z.to_nat h)) idxs).
    Proof.
      destruct (paths_spec_lemma m (MkProof h L A) honest_wf) as [[_ Hp]|[Hns _]]; [|exfalso; apply Hns; exact honest_structure].
      rewrite Hp. cbn [ip_height ip_leafs ip_auth]. rewrite fstL. f_equal.
      apply map_ext_in. intros i Hi. unfold sibling_path.
      apply (sibling_path_tree (Z.to_nat h) 0); [lia|lia|].
      exists i. split; [rewrite fstL; exact Hi|]. rewrite Z.div_1_r. reflexivity.
    Qed.
  End Complete.

  (* ---------------------------------------------------------------- soundness (C04) *)
  Section Sound.
    Variable leafs : list D.
    Variable h : Z.
    Variable L : list (Z * D).
    Variable A : list D.
    Hypothesis Hh : 0 <= h <= 31.
    Hypothesis Hlen : zlen leafs = 2 ^ h.
    Hypothesis Hidx : forall i, In i (map fst L) -> 0 <= i < 2 ^ h.
    Hypothesis Hcons : consistent D L.
    Notation znth := (znth D dflt).
    Let T := spec_tree D H dflt leafs.
    Notation M := (minimal_list (2 ^ h) (map fst L)).
    Notation W := (val_in D H dflt M (2 ^ h) L A).

    Lemma D_eq_dec (a b : D) : {a = b} + {a <> b}.
    Proof.
      destruct (Deqb a b) eqn:E; [left; apply Deqb_spec; exact E|right].
      intros Hab. apply Deqb_spec in Hab. congruence.
    Qed.

    Lemma sound_down : forall (k : nat) x, Z.of_nat k <= h ->
      2 ^ (h - Z.of_nat k) <= x < 2 ^ (h - Z.of_nat k + 1) ->
      W k x = znth T x ->
      (forall i d, In (i, d) L -> (2 ^ h + i) / 2 ^ Z.of_nat k = x -> d = znth leafs i) \/ collision D H.
    Proof.
      assert (Hpow : is_pow2 (zlen leafs) = true) by (apply is_pow2_spec; exists h; split; [lia|exact Hlen]).
      destruct (spec_tree_ok D H dflt leafs Hpow) as [TA [TB [TC TE]]]. fold T in TA, TB, TC, TE.
      cbv zeta in TA, TC, TE. rewrite Hlen in TA, TC, TE.
      pose proof (Z.pow_pos_nonneg 2 h ltac:(lia) ltac:(lia)) as Hn1.
      induction k; intros x Hk Hr HW.
      - left. intros i d Hin Hx. cbn [Z.of_nat] in *. rewrite Z.div_1_r in Hx. subst x.
        assert (Hi : In i (map fst L)) by (apply in_map_iff; exists (i, d); tauto).
        cbn [val_in] in HW. replace (2 ^ h + i - 2 ^ h) with i in HW by lia.
        destruct (find_leaf L i) as [d0|] eqn:Ef; [|apply find_leaf_None in Ef; tauto].
        apply find_leaf_In in Ef. rewrite (Hcons i d d0 Hin Ef). rewrite HW. apply TC. apply Hidx. exact Hi.
      - assert (E1 : 2 ^ (h - Z.of_nat k) = 2 * 2 ^ (h - Z.of_nat (S k))).
        { replace (h - Z.of_nat k) with (h - Z.of_nat (S k) + 1) by lia. rewrite Z.pow_add_r by lia. lia. }
        assert (E2 : 2 ^ (h - Z.of_nat k + 1) = 2 * 2 ^ (h - Z.of_nat (S k) + 1)).
        { replace (h - Z.of_nat k + 1) with (h - Z.of_nat (S k) + 1 + 1) by lia.
          rewrite (Z.pow_add_r 2 (h - Z.of_nat (S k) + 1) 1) by lia. lia. }
        assert (Hxn : 1 <= x < 2 ^ h).
        { pose proof (Z.pow_pos_nonneg 2 (h - Z.of_nat (S k)) ltac:(lia) ltac:(lia)).
          assert (2 ^ (h - Z.of_nat (S k) + 1) <= 2 ^ h) by (apply Z.pow_le_mono_r; lia). lia. }
        cbn [val_in] in HW.
        assert (Hf : find_leaf L (x - 2 ^ h) = None).
        { apply find_leaf_None. intros Hc. pose proof (Hidx _ Hc). lia. }
        rewrite Hf in HW.
        destruct (pos_of x M) as [j|] eqn:Ep.
        + left. intros i d Hin Hx. exfalso.
          assert (Hi : In i (map fst L)) by (apply in_map_iff; exists (i, d); tauto).
          destruct (minimal_list_spec (2 ^ h) (map fst L) ltac:(lia) Hidx) as [_ Hm].
          assert (HinM : In x M).
          { destruct (pos_of_Some x M j Ep) as [P1 P2]. rewrite <- P2. apply nth_In. exact P1. }
          apply Hm in HinM. pose proof (minimal_range (2 ^ h) (map fst L) x ltac:(lia) Hidx HinM) as Hrx.
          destruct HinM as [_ Hnc]. apply Hnc. split; [lia|]. exists i. split; [exact Hi|].
          exists (Z.of_nat (S k)). split; [lia|]. symmetry. exact Hx.
        + rewrite TE in HW by lia.
          destruct (D_eq_dec (W k (2 * x)) (znth T (2 * x))) as [Ea|Ea];
            [destruct (D_eq_dec (W k (2 * x + 1)) (znth T (2 * x + 1))) as [Eb|Eb]|].
          * destruct (IHk (2 * x) ltac:(lia) ltac:(lia) Ea) as [I1|Hcol]; [|right; exact Hcol].
            destruct (IHk (2 * x + 1) ltac:(lia) ltac:(lia) Eb) as [I2|Hcol]; [|right; exact Hcol].
            left. intros i d Hin Hx.
            assert (Hc : (2 ^ h + i) / 2 ^ Z.of_nat k / 2 = x).
            { rewrite div_pow2_succ' by lia. rewrite <- Hx. f_equal. f_equal. lia. }
            assert (Hcases : (2 ^ h + i) / 2 ^ Z.of_nat k = 2 * x \/ (2 ^ h + i) / 2 ^ Z.of_nat k = 2 * x + 1) by lia.
            destruct Hcases as [Hc1|Hc1]; [apply (I1 i d Hin Hc1)|apply (I2 i d Hin Hc1)].
          * right. exists (W k (2 * x)), (W k (2 * x + 1)), (znth T (2 * x)), (znth T (2 * x + 1)).
            split; [intros Hpair; inversion Hpair; contradiction|exact HW].
          * right. exists (W k (2 * x)), (W k (2 * x + 1)), (znth T (2 * x)), (znth T (2 * x + 1)).
            split; [intros Hpair; inversion Hpair; contradiction|exact HW].
    Qed.
  End Sound.

  (* an accepted non-trivial proof of the stated height against an honest root claims only actual
     leafs -- or exhibits a collision of H *)
  Theorem sound_lemma m (leafs : list D) (p : iproof D) :
    0 <= ip_height p <= 31 -> zlen leafs = 2 ^ ip_height p -> wf_proof D p ->
    is_trivial D p = false ->
    ip_verify D H Deqb m p (znth D dflt (spec_tree D H dflt leafs) 1) = Ok true ->
    (forall i d, In (i, d) (ip_leafs p) -> i < zlen leafs /\ d = znth D dflt leafs i) \/ collision D H.
  Proof.
    intros Hh Hlen Hwf Hnt Hv. apply verify_iff_lemma in Hv; [|exact Hwf].
    destruct Hv as [Ht|[[S1 [S2 [S3 S4]]] Hval]]; [congruence|].
    destruct p as [h L A]. cbn [ip_height ip_leafs ip_auth] in *.
    assert (Hidx : forall i, In i (map fst L) -> 0 <= i < 2 ^ h).
    { intros i Hi. split; [apply Hwf; exact Hi|apply S2; exact Hi]. }
    unfold val in Hval.
    destruct (sound_down leafs h L A Hh Hlen Hidx S4 (Z.to_nat h) 1) as [Hl|Hc]; try lia.
    - rewrite Z2Nat.id by lia. replace (h - h) with 0 by lia. cbn. lia.
    - exact Hval.
    - left. intros i d Hin.
      assert (Hi : In i (map fst L)) by (apply in_map_iff; exists (i, d); tauto).
      pose proof (Hidx i Hi). split; [lia|]. apply (Hl i d Hin).
      rewrite Z2Nat.id by lia. symmetry. apply Z.div_unique with (r := i); lia.
    - right. exact Hc.
  Qed.
End Verify.

(* ---------------------------------------------------------------------------------------------- *)
(* packaged statements used by props/C04.v and props/C10.v                                         *)

Lemma term_eqb_spec (a b : term) : term_eqb a b = true <-> a = b.
Proof.
  revert b. induction a as [k| |l IHl r IHr]; intros [k'| |l' r']; cbn [term_eqb];
    try (split; [discriminate|discriminate]); try (split; reflexivity).
  - rewrite Z.eqb_eq. split; [intros ->; reflexivity|intros E; inversion E; reflexivity].
  - rewrite andb_true_iff, IHl, IHr. split; [intros [-> ->]; reflexivity|intros E; inversion E; split; reflexivity].
Qed.

Section Packaged.
  Variable D : Type.
  Variable H : D -> D -> D.
  Variable Deqb : D -> D -> bool.
  Variable dflt : D.
  Hypothesis Deqb_spec : forall a b, Deqb a b = true <-> a = b.

  (* C10 complete + paths_are_siblings, for every list of in-range indices (any order, repetitions, empty) *)
  Theorem honest_proofs_lemma (leafs : list D) (h : Z) (idxs : list Z) (m : mmode) :
    0 <= h <= 31 -> zlen leafs = 2 ^ h -> (forall i, In i idxs -> 0 <= i < 2 ^ h) ->
    let T := spec_tree D H dflt leafs in
    exists p,
      mt_inclusion_proof D true m T idxs = Ok p /\
      p = MkProof h (map (fun i => (i, znth D dflt leafs i)) idxs)
                    (map (znth D dflt T) (minimal_list (2 ^ h) idxs)) /\
      mt_root D T = Ok (znth D dflt T 1) /\
      ip_verify D H Deqb m p (znth D dflt T 1) = Ok true /\
      ip_into_authentication_paths D H Deqb m p =
        Ok (map (fun i => tree_path D dflt T (2 ^ h + i) (Z.to_nat h)) idxs).
  Proof.
    intros Hh Hlen Hidx T.
    assert (Hpow : is_pow2 (zlen leafs) = true) by (apply is_pow2_spec; exists h; split; [lia|exact Hlen]).
    eexists. split; [apply (honest_proof_eq D H Deqb dflt Deqb_spec leafs h idxs Hh Hlen Hidx m)|].
    split; [reflexivity|]. split; [apply honest_root; exact Hpow|]. split.
    - destruct idxs as [|i r] eqn:Ei.
      + cbn [map]. rewrite minimal_list_nil by (pose proof (Z.pow_pos_nonneg 2 h); lia). reflexivity.
      + rewrite <- Ei in *. apply (complete_lemma D H Deqb dflt Deqb_spec leafs h idxs Hh Hlen Hidx m). congruence.
    - apply (honest_paths_lemma D H Deqb dflt Deqb_spec leafs h idxs Hh Hlen Hidx m).
  Qed.

  (* C10 auth_structure_spec on a constructed tree *)
  Theorem auth_structure_lemma (leafs : list D) (h : Z) (idxs : list Z) (m : mmode) :
    0 <= h <= 31 -> zlen leafs = 2 ^ h -> (forall i, In i idxs -> 0 <= i) ->
    let T := spec_tree D H dflt leafs in
    (forall i, In i idxs -> i < 2 ^ h) /\
      mt_authentication_structure D m T idxs = Ok (map (znth D dflt T) (minimal_list (2 ^ h) idxs)) \/
    (exists i, In i idxs /\ 2 ^ h <= i) /\ mt_authentication_structure D m T idxs = Err.
  Proof.
    intros Hh Hlen Hpos T.
    assert (Hpow : is_pow2 (zlen leafs) = true) by (apply is_pow2_spec; exists h; split; [lia|exact Hlen]).
    assert (Hn : 1 <= 2 ^ h <= 2147483648).
    { pose proof (Z.pow_pos_nonneg 2 h). assert (2 ^ h <= 2 ^ 31) by (apply Z.pow_le_mono_r; lia).
      change (2 ^ 31) with 2147483648 in *. lia. }
    destruct (existsb (fun i => 2 ^ h <=? i) idxs) eqn:Ex.
    - right. apply existsb_exists in Ex. destruct Ex as [i [Hi Hni]]. apply Z.leb_le in Hni.
      split; [exists i; tauto|].
      unfold mt_authentication_structure, T. rewrite honest_num_leafs by exact Hpow. cbn [obind]. rewrite Hlen.
      rewrite auth_indices_reject; [reflexivity|lia|unfold USZ; lia|exact Hpos|exists i; tauto].
    - left. assert (Hidx : forall i, In i idxs -> 0 <= i < 2 ^ h).
      { intros i Hi. split; [apply Hpos; exact Hi|].
        destruct (Z_lt_dec i (2 ^ h)) as [Hlt|Hge]; [exact Hlt|]. exfalso.
        apply not_true_iff_false in Ex. apply Ex. apply existsb_exists. exists i. split; [exact Hi|]. apply Z.leb_le. lia. }
      split; [intros i Hi; apply Hidx; exact Hi|].
      apply (honest_auth D H Deqb dflt Deqb_spec leafs h idxs Hh Hlen Hidx m).
  Qed.

  (* C04 total *)
  Theorem total_lemma (m : mmode) (p : iproof D) (root : D) : wf_proof D p ->
    (exists b, ip_verify D H Deqb m p root = Ok b) /\
    ((exists r, ip_into_authentication_paths D H Deqb m p = Ok r) \/
     ip_into_authentication_paths D H Deqb m p = Err).
  Proof.
    intros Hwf. split; [apply (verify_total_lemma D H Deqb dflt Deqb_spec); exact Hwf|].
    destruct (paths_spec_lemma D H Deqb dflt Deqb_spec m p Hwf) as [[_ Hp]|[_ Hp]]; rewrite Hp;
      [left; eexists; reflexivity|right; reflexivity].
  Qed.
End Packaged.

Lemma auth_indices_full (m : mmode) (n : Z) (idxs : list Z) :
  1 <= n -> 2 * n <= USZ -> (forall i, In i idxs -> 0 <= i < n) ->
  auth_structure_node_indices m n idxs = Ok (minimal_list n idxs) /\
  StronglySorted Z.gt (minimal_list n idxs) /\
  forall x, In x (minimal_list n idxs) <-> minimal n idxs x.
Proof.
  intros Hn Hn2 Hr. split; [apply auth_indices_eq; assumption|]. apply minimal_list_spec; assumption.
Qed.

(* ---------------------------------------------------------------------------------------------- *)
(* the hand-written model's constants and variant flags agree with what the translator reads from the
   current source (coq/gen/MerkleGen.v is regenerated on every run)                                 *)
Lemma model_matches_source :
  CUR_LEAF_FIXED = GEN_LEAF_CHECKED_ADD /\ CUR_CUTOFF_FIXED = GEN_CUTOFF_LOOP_GUARDS_ZERO /\
  MAX_TREE_HEIGHT = GEN_MAX_TREE_HEIGHT /\ GEN_ROOT_INDEX = 1 /\ GEN_DEFAULT_PARALLELIZATION_CUTOFF = 256.
Proof. repeat split; reflexivity. Qed.
