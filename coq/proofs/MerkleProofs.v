(* proofs/MerkleProofs.v - lemmas about model/Merkle.v against spec/MerkleSpec.v (C04, C10). *)
From Coq Require Import ZArith List Bool Lia Sorting.Sorted.
From TF Require Import Merkle MerkleSpec.
Import ListNotations.
Open Scope Z_scope.
Ltac Zify.zify_post_hook ::= Z.div_mod_to_equations.

(* ------------------------------------------------------------------------------------------ *)
(* generic list facts                                                                          *)

Lemma zlen_nonneg {A} (l : list A) : 0 <= zlen l.
Proof. unfold zlen. lia. Qed.

Lemma zget_some {A} (l : list A) (d : A) i :
  0 <= i < zlen l -> zget l i = Some (nth (Z.to_nat i) l d).
Proof.
  intros Hi. unfold zget, zlen in *.
  destruct (i <? 0) eqn:E1; [lia|].
  destruct (Z.of_nat (length l) <=? i) eqn:E2; [lia|]. cbn [orb].
  apply nth_error_nth'. lia.
Qed.

Lemma zget_none {A} (l : list A) i : ~ (0 <= i < zlen l) -> zget l i = None.
Proof.
  intros Hi. unfold zget, zlen in *.
  destruct (i <? 0) eqn:E1; [reflexivity|].
  destruct (Z.of_nat (length l) <=? i) eqn:E2; [reflexivity|]. lia.
Qed.

Lemma zget_inv {A} (l : list A) (d : A) i v :
  zget l i = Some v -> 0 <= i < zlen l /\ v = nth (Z.to_nat i) l d.
Proof.
  intros Hg.
  destruct (Z_lt_dec i 0) as [Hn|Hn]; [rewrite zget_none in Hg by lia; discriminate|].
  destruct (Z_lt_dec i (zlen l)) as [Hl|Hl]; [|rewrite zget_none in Hg by lia; discriminate].
  rewrite (zget_some l d) in Hg by lia. inversion Hg. split; [lia|reflexivity].
Qed.

Lemma zrange_length a c : length (zrange a c) = c.
Proof. revert a. induction c; intros; cbn; [reflexivity|]. now rewrite IHc. Qed.

Lemma zrange_nth a c j : (j < c)%nat -> nth j (zrange a c) 0 = a + Z.of_nat j.
Proof.
  revert a j. induction c; intros a j Hj; [lia|].
  destruct j; cbn [zrange nth]; [lia|]. rewrite IHc by lia. lia.
Qed.

Lemma zrange_In a c x : In x (zrange a c) <-> a <= x < a + Z.of_nat c.
Proof.
  revert a. induction c; intros a; cbn [zrange In]; [lia|].
  rewrite IHc. lia.
Qed.

Lemma zrange_snoc a c : zrange a (S c) = zrange a c ++ [a + Z.of_nat c].
Proof.
  revert a. induction c; intros a.
  - cbn. f_equal. lia.
  - change (zrange a (S (S c))) with (a :: zrange (a + 1) (S c)).
    rewrite IHc. cbn [zrange app]. do 2 f_equal. f_equal. lia.
Qed.

Lemma mapO_ok {A B} (f : A -> outcome B) (g : A -> B) l :
  (forall x, In x l -> f x = Ok (g x)) -> mapO f l = Ok (map g l).
Proof.
  induction l as [|x r IH]; intros Hf; [reflexivity|].
  cbn [mapO map]. rewrite (Hf x) by (left; reflexivity). cbn [obind].
  rewrite IH by (intros; apply Hf; right; assumption). reflexivity.
Qed.

(* ------------------------------------------------------------------------------------------ *)
(* powers of two                                                                               *)

Lemma is_pow2_spec n : is_pow2 n = true <-> exists h, 0 <= h /\ n = 2 ^ h.
Proof.
  unfold is_pow2. split.
  - intros Hn. apply andb_true_iff in Hn. destruct Hn as [H0 H1].
    apply Z.ltb_lt in H0. apply Z.eqb_eq in H1.
    exists (Z.log2 n). split; [apply Z.log2_nonneg|exact H1].
  - intros [h [Hh ->]]. apply andb_true_iff. split.
    + apply Z.ltb_lt. apply Z.pow_pos_nonneg; lia.
    + apply Z.eqb_eq. rewrite Z.log2_pow2 by lia. reflexivity.
Qed.

Lemma pow2_nat h : 2 ^ Z.of_nat h = Z.of_nat (2 ^ h)%nat.
Proof.
  induction h; [reflexivity|].
  rewrite Nat2Z.inj_succ, Z.pow_succ_r by lia. rewrite IHh.
  rewrite Nat.pow_succ_r'. lia.
Qed.

Section Proofs.
  Variable D : Type.
  Variable H : D -> D -> D.
  Variable Deqb : D -> D -> bool.
  Variable dflt : D.
  Hypothesis Deqb_spec : forall a b, Deqb a b = true <-> a = b.

  Notation znth := (znth D dflt).
  Notation spec_tree := (spec_tree D H dflt).
  Notation pair_up := (pair_up D H).
  Notation levels := (levels D H).

  Lemma zget_znth (l : list D) i : 0 <= i < zlen l -> zget l i = Some (znth l i).
  Proof. intros. unfold MerkleSpec.znth. now apply zget_some. Qed.

  (* ---------------------------------------------------------------------------------------- *)
  (* the specification tree satisfies, and is determined by, its defining equations            *)

  Lemma pair_up_length (k : nat) : forall l, length l = (2 * k)%nat -> length (pair_up l) = k.
  Proof.
    induction k; intros l Hl.
    - destruct l; [reflexivity|cbn in Hl; lia].
    - destruct l as [|a [|b r]]; cbn in Hl; try lia.
      cbn [MerkleSpec.pair_up length]. rewrite IHk by lia. reflexivity.
  Qed.

  Lemma pair_up_nth (k : nat) : forall l j, length l = (2 * k)%nat -> (j < k)%nat ->
    nth j (pair_up l) dflt = H (nth (2 * j) l dflt) (nth (2 * j + 1) l dflt).
  Proof.
    induction k; intros l j Hl Hj; [lia|].
    destruct l as [|a [|b r]]; cbn in Hl; try lia.
    destruct j.
    - reflexivity.
    - cbn [MerkleSpec.pair_up].
      replace (2 * S j)%nat with (S (S (2 * j))) by lia.
      replace (S (S (2 * j)) + 1)%nat with (S (S (2 * j + 1))) by lia.
      cbn [nth]. apply IHk; lia.
  Qed.

  Lemma levels_ok (h : nat) : forall l, length l = (2 ^ h)%nat ->
    let t := dflt :: levels h l in
    length t = (2 * 2 ^ h)%nat /\
    (forall j, (j < 2 ^ h)%nat -> nth (2 ^ h + j) t dflt = nth j l dflt) /\
    (forall i, (1 <= i < 2 ^ h)%nat -> nth i t dflt = H (nth (2 * i) t dflt) (nth (2 * i + 1) t dflt)).
  Proof.
    induction h; intros l Hl.
    - cbn in Hl. destruct l as [|x [|y r]]; cbn in Hl; try lia.
      cbn. split; [reflexivity|]. split.
      + intros j Hj. assert (j = 0)%nat by lia. subst. reflexivity.
      + intros i Hi. lia.
    - rewrite Nat.pow_succ_r' in Hl.
      pose proof (pair_up_length (2 ^ h) l Hl) as Hpl.
      destruct (IHh (pair_up l) Hpl) as [La [Lb Lc]].
      set (t' := dflt :: levels h (pair_up l)) in *.
      assert (Et : dflt :: levels (S h) l = t' ++ l) by reflexivity.
      cbv zeta. rewrite Et. rewrite Nat.pow_succ_r'.
      split; [rewrite app_length; lia|]. split.
      + intros j Hj. rewrite app_nth2 by lia. f_equal. lia.
      + intros i Hi. destruct (Nat.lt_ge_cases i (2 ^ h)) as [Hlt|Hge].
        * rewrite !app_nth1 by lia. apply Lc. lia.
        * rewrite app_nth1 by lia. rewrite !app_nth2 by lia.
          replace i with (2 ^ h + (i - 2 ^ h))%nat at 1 by lia.
          rewrite Lb by lia. rewrite (pair_up_nth (2 ^ h)) by lia.
          f_equal; f_equal; lia.
  Qed.

  Lemma pow2_len (leafs : list D) h :
    0 <= h -> zlen leafs = 2 ^ h -> length leafs = (2 ^ Z.to_nat h)%nat.
  Proof.
    intros Hh Hn. unfold zlen in Hn.
    rewrite <- (Z2Nat.id h) in Hn by lia. rewrite pow2_nat in Hn. lia.
  Qed.

  Lemma spec_tree_ok (leafs : list D) :
    is_pow2 (zlen leafs) = true -> tree_ok D H dflt leafs (spec_tree leafs).
  Proof.
    intros Hp. apply is_pow2_spec in Hp. destruct Hp as [h [Hh Hn]].
    pose proof (pow2_len leafs h Hh Hn) as Hl.
    unfold MerkleSpec.spec_tree. rewrite Hn, Z.log2_pow2 by lia.
    destruct (levels_ok (Z.to_nat h) leafs Hl) as [La [Lb Lc]].
    set (t := dflt :: levels (Z.to_nat h) leafs) in *.
    assert (Hnn : zlen leafs = Z.of_nat (2 ^ Z.to_nat h)) by (unfold zlen; lia).
    unfold tree_ok. cbv zeta. rewrite Hn. rewrite Hn in Hnn. split; [|split; [|split]].
    - unfold zlen. rewrite La. lia.
    - reflexivity.
    - intros j Hj. unfold MerkleSpec.znth.
      replace (Z.to_nat (2 ^ h + j)) with (2 ^ Z.to_nat h + Z.to_nat j)%nat by lia.
      apply Lb. lia.
    - intros i Hi. unfold MerkleSpec.znth.
      rewrite Lc by lia. f_equal; f_equal; lia.
  Qed.

  Lemma tree_ok_unique (leafs t1 t2 : list D) :
    tree_ok D H dflt leafs t1 -> tree_ok D H dflt leafs t2 -> t1 = t2.
  Proof.
    unfold tree_ok. cbv zeta. set (n := zlen leafs).
    intros [A1 [B1 [C1 E1]]] [A2 [B2 [C2 E2]]].
    assert (Hall : forall k : nat, forall i, 2 * n - Z.of_nat k <= i < 2 * n -> 0 <= i -> znth t1 i = znth t2 i).
    { induction k; intros i Hi Hi0; [lia|].
      destruct (Z_lt_dec i n) as [Hlt|Hge].
      - destruct (Z.eq_dec i 0) as [->|Hnz]; [congruence|].
        rewrite E1, E2 by lia. f_equal; apply IHk; lia.
      - replace i with (n + (i - n)) by lia. rewrite C1, C2 by lia. reflexivity. }
    apply (nth_ext _ _ dflt dflt).
    - unfold zlen in A1, A2. lia.
    - intros j Hj. specialize (Hall (length t1) (Z.of_nat j)).
      unfold MerkleSpec.znth in Hall. rewrite Nat2Z.id in Hall. apply Hall; unfold zlen in *; lia.
  Qed.
End Proofs.
