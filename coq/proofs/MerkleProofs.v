(* proofs/MerkleProofs.v - lemmas about model/Merkle.v against spec/MerkleSpec.v (C04, C10). *)
From Coq Require Import ZArith List Bool Lia Sorting.Sorted.
From TF Require Import Merkle MerkleSpec.
Import ListNotations.
Open Scope Z_scope.
Ltac Zify.zify_post_hook ::= Z.div_mod_to_equations.

(* ------------------------------------------------------------------------------------------ *)
(* generic list facts                                                                          *)

Lemma zlen_nonneg {A} (l : list A) : 0 <= zlen l.
Proof. unfold zlen. lia. Qed.

Lemma zget_aux_nth {A} (l : list A) : forall i, 0 <= i -> zget_aux l i = nth_error l (Z.to_nat i).
Proof.
  induction l as [|x r IH]; intros i Hi; cbn [zget_aux].
  - destruct (Z.to_nat i); reflexivity.
  - destruct (i =? 0) eqn:E.
    + apply Z.eqb_eq in E. subst. reflexivity.
    + apply Z.eqb_neq in E. rewrite IH by lia.
      replace (Z.to_nat i) with (S (Z.to_nat (i - 1))) by lia. reflexivity.
Qed.

Lemma zget_some {A} (l : list A) (d : A) i :
  0 <= i < zlen l -> zget l i = Some (nth (Z.to_nat i) l d).
Proof.
  intros Hi. unfold zget, zlen in *.
  destruct (i <? 0) eqn:E1; [lia|]. rewrite zget_aux_nth by lia.
  apply nth_error_nth'. lia.
Qed.

Lemma zget_none {A} (l : list A) i : ~ (0 <= i < zlen l) -> zget l i = None.
Proof.
  intros Hi. unfold zget, zlen in *.
  destruct (i <? 0) eqn:E1; [reflexivity|]. rewrite zget_aux_nth by lia.
  apply nth_error_None. lia.
Qed.

Lemma zget_inv {A} (l : list A) (d : A) i v :
  zget l i = Some v -> 0 <= i < zlen l /\ v = nth (Z.to_nat i) l d.
Proof.
  intros Hg.
  destruct (Z_lt_dec i 0) as [Hn|Hn]; [rewrite zget_none in Hg by lia; discriminate|].
  destruct (Z_lt_dec i (zlen l)) as [Hl|Hl]; [|rewrite zget_none in Hg by lia; discriminate].
  rewrite (zget_some l d) in Hg by lia. inversion Hg. split; [lia|reflexivity].
Qed.

Lemma overwrite_ok {A} (src : list A) : forall dst, (length src <= length dst)%nat ->
  overwrite dst src = Some (src ++ skipn (length src) dst).
Proof.
  induction src as [|s sr IH]; intros dst Hl; [destruct dst; reflexivity|].
  destruct dst as [|x dr]; cbn in Hl; [lia|].
  cbn [overwrite length skipn app]. rewrite IH by lia. reflexivity.
Qed.

Lemma write_at_ok {A} (dst : list A) : forall s src, 0 <= s ->
  (Z.to_nat s + length src <= length dst)%nat ->
  write_at dst s src = Some (firstn (Z.to_nat s) dst ++ src ++ skipn (Z.to_nat s + length src) dst).
Proof.
  induction dst as [|x r IH]; intros s src Hs Hl.
  - cbn in Hl. assert (s = 0) by lia. subst s. destruct src; cbn in Hl; [reflexivity|lia].
  - cbn [write_at]. destruct (s =? 0) eqn:E.
    + apply Z.eqb_eq in E. subst s. cbn [Z.to_nat firstn app Nat.add]. apply overwrite_ok. lia.
    + apply Z.eqb_neq in E. cbn [length] in Hl. rewrite IH by lia.
      replace (Z.to_nat s) with (S (Z.to_nat (s - 1))) by lia. reflexivity.
Qed.

Lemma zrange_length a c : length (zrange a c) = c.
Proof. revert a. induction c; intros; cbn; [reflexivity|]. now rewrite IHc. Qed.

Lemma zrange_nth a c j : (j < c)%nat -> nth j (zrange a c) 0 = a + Z.of_nat j.
Proof.
  revert a j. induction c; intros a j Hj; [lia|].
  destruct j; cbn [zrange nth]; [lia|]. rewrite IHc by lia. lia.
Qed.

Lemma zrange_In a c x : In x (zrange a c) <-> a <= x < a + Z.of_nat c.
Proof.
  revert a. induction c; intros a; cbn [zrange In]; [lia|].
  rewrite IHc. lia.
Qed.

Lemma zrange_snoc a c : zrange a (S c) = zrange a c ++ [a + Z.of_nat c].
Proof.
  revert a. induction c; intros a.
  - cbn. f_equal. lia.
  - change (zrange a (S (S c))) with (a :: zrange (a + 1) (S c)).
    rewrite IHc. cbn [zrange app]. do 2 f_equal. f_equal. lia.
Qed.

Lemma mapO_ok {A B} (f : A -> outcome B) (g : A -> B) l :
  (forall x, In x l -> f x = Ok (g x)) -> mapO f l = Ok (map g l).
Proof.
  induction l as [|x r IH]; intros Hf; [reflexivity|].
  cbn [mapO map]. rewrite (Hf x) by (left; reflexivity). cbn [obind].
  rewrite IH by (intros; apply Hf; right; assumption). reflexivity.
Qed.

(* ------------------------------------------------------------------------------------------ *)
(* powers of two                                                                               *)

Lemma is_pow2_spec n : is_pow2 n = true <-> exists h, 0 <= h /\ n = 2 ^ h.
Proof.
  unfold is_pow2. split.
  - intros Hn. apply andb_true_iff in Hn. destruct Hn as [H0 H1].
    apply Z.ltb_lt in H0. apply Z.eqb_eq in H1.
    exists (Z.log2 n). split; [apply Z.log2_nonneg|exact H1].
  - intros [h [Hh ->]]. apply andb_true_iff. split.
    + apply Z.ltb_lt. apply Z.pow_pos_nonneg; lia.
    + apply Z.eqb_eq. rewrite Z.log2_pow2 by lia. reflexivity.
Qed.

Lemma pow2_nat h : 2 ^ Z.of_nat h = Z.of_nat (2 ^ h)%nat.
Proof.
  induction h; [reflexivity|].
  rewrite Nat2Z.inj_succ, Z.pow_succ_r by lia. rewrite IHh.
  rewrite Nat.pow_succ_r'. lia.
Qed.

Section Proofs.
  Variable D : Type.
  Variable H : D -> D -> D.
  Variable dflt : D.

  Notation znth := (znth D dflt).
  Notation spec_tree := (spec_tree D H dflt).
  Notation pair_up := (pair_up D H).
  Notation levels := (levels D H).

  Lemma zget_znth (l : list D) i : 0 <= i < zlen l -> zget l i = Some (znth l i).
  Proof. intros. unfold MerkleSpec.znth. now apply zget_some. Qed.

  (* ---------------------------------------------------------------------------------------- *)
  (* the specification tree satisfies, and is determined by, its defining equations            *)

  Lemma pair_up_length (k : nat) : forall l, length l = (2 * k)%nat -> length (pair_up l) = k.
  Proof.
    induction k; intros l Hl.
    - destruct l; [reflexivity|cbn in Hl; lia].
    - destruct l as [|a [|b r]]; cbn in Hl; try lia.
      cbn [MerkleSpec.pair_up length]. rewrite IHk by lia. reflexivity.
  Qed.

  Lemma pair_up_nth (k : nat) : forall l j, length l = (2 * k)%nat -> (j < k)%nat ->
    nth j (pair_up l) dflt = H (nth (2 * j) l dflt) (nth (2 * j + 1) l dflt).
  Proof.
    induction k; intros l j Hl Hj; [lia|].
    destruct l as [|a [|b r]]; cbn in Hl; try lia.
    destruct j.
    - reflexivity.
    - cbn [MerkleSpec.pair_up].
      replace (2 * S j)%nat with (S (S (2 * j))) by lia.
      replace (S (S (2 * j)) + 1)%nat with (S (S (2 * j + 1))) by lia.
      cbn [nth]. apply IHk; lia.
  Qed.

  Lemma levels_ok (h : nat) : forall l, length l = (2 ^ h)%nat ->
    let t := dflt :: levels h l in
    length t = (2 * 2 ^ h)%nat /\
    (forall j, (j < 2 ^ h)%nat -> nth (2 ^ h + j) t dflt = nth j l dflt) /\
    (forall i, (1 <= i < 2 ^ h)%nat -> nth i t dflt = H (nth (2 * i) t dflt) (nth (2 * i + 1) t dflt)).
  Proof.
    induction h; intros l Hl.
    - cbn in Hl. destruct l as [|x [|y r]]; cbn in Hl; try lia.
      cbn. split; [reflexivity|]. split.
      + intros j Hj. assert (j = 0)%nat by lia. subst. reflexivity.
      + intros i Hi. lia.
    - rewrite Nat.pow_succ_r' in Hl.
      pose proof (pair_up_length (2 ^ h) l Hl) as Hpl.
      destruct (IHh (pair_up l) Hpl) as [La [Lb Lc]].
      set (t' := dflt :: levels h (pair_up l)) in *.
      assert (Et : dflt :: levels (S h) l = t' ++ l) by reflexivity.
      cbv zeta. rewrite Et. rewrite Nat.pow_succ_r'.
      split; [rewrite app_length; lia|]. split.
      + intros j Hj. rewrite app_nth2 by lia. f_equal. lia.
      + intros i Hi. destruct (Nat.lt_ge_cases i (2 ^ h)) as [Hlt|Hge].
        * rewrite !app_nth1 by lia. apply Lc. lia.
        * rewrite app_nth1 by lia. rewrite !app_nth2 by lia.
          replace i with (2 ^ h + (i - 2 ^ h))%nat at 1 by lia.
          rewrite Lb by lia. rewrite (pair_up_nth (2 ^ h)) by lia.
          f_equal; f_equal; lia.
  Qed.

  Lemma pow2_len (leafs : list D) h :
    0 <= h -> zlen leafs = 2 ^ h -> length leafs = (2 ^ Z.to_nat h)%nat.
  Proof.
    intros Hh Hn. unfold zlen in Hn.
    rewrite <- (Z2Nat.id h) in Hn by lia. rewrite pow2_nat in Hn. lia.
  Qed.

  Lemma spec_tree_ok (leafs : list D) :
    is_pow2 (zlen leafs) = true -> tree_ok D H dflt leafs (spec_tree leafs).
  Proof.
    intros Hp. apply is_pow2_spec in Hp. destruct Hp as [h [Hh Hn]].
    pose proof (pow2_len leafs h Hh Hn) as Hl.
    unfold MerkleSpec.spec_tree. rewrite Hn, Z.log2_pow2 by lia.
    destruct (levels_ok (Z.to_nat h) leafs Hl) as [La [Lb Lc]].
    set (t := dflt :: levels (Z.to_nat h) leafs) in *.
    assert (Hnn : zlen leafs = Z.of_nat (2 ^ Z.to_nat h)) by (unfold zlen; lia).
    unfold tree_ok. cbv zeta. rewrite Hn. rewrite Hn in Hnn. split; [|split; [|split]].
    - unfold zlen. rewrite La. lia.
    - reflexivity.
    - intros j Hj. unfold MerkleSpec.znth.
      replace (Z.to_nat (2 ^ h + j)) with (2 ^ Z.to_nat h + Z.to_nat j)%nat by lia.
      apply Lb. lia.
    - intros i Hi. unfold MerkleSpec.znth.
      rewrite Lc by lia. f_equal; f_equal; lia.
  Qed.

  Lemma tree_ok_unique (leafs t1 t2 : list D) :
    tree_ok D H dflt leafs t1 -> tree_ok D H dflt leafs t2 -> t1 = t2.
  Proof.
    unfold tree_ok. cbv zeta. set (n := zlen leafs).
    intros [A1 [B1 [C1 E1]]] [A2 [B2 [C2 E2]]].
    assert (Hall : forall k : nat, forall i, 2 * n - Z.of_nat k <= i < 2 * n -> 0 <= i -> znth t1 i = znth t2 i).
    { induction k; intros i Hi Hi0; [lia|].
      destruct (Z_lt_dec i n) as [Hlt|Hge].
      - destruct (Z.eq_dec i 0) as [->|Hnz]; [congruence|].
        rewrite E1, E2 by lia. f_equal; apply IHk; lia.
      - replace i with (n + (i - n)) by lia. rewrite C1, C2 by lia. reflexivity. }
    apply (nth_ext _ _ dflt dflt).
    - unfold zlen in A1, A2. lia.
    - intros j Hj. specialize (Hall (length t1) (Z.of_nat j)).
      unfold MerkleSpec.znth in Hall. rewrite Nat2Z.id in Hall. apply Hall; unfold zlen in *; lia.
  Qed.
End Proofs.

Section ListZ.
  Variable D : Type.
  Variable dflt : D.
  Notation znth := (znth D dflt).

  Lemma znth_app1 (a b : list D) i : 0 <= i < zlen a -> znth (a ++ b) i = znth a i.
  Proof. intros. unfold MerkleSpec.znth, zlen in *. apply app_nth1. lia. Qed.
  Lemma znth_app2 (a b : list D) i : zlen a <= i -> znth (a ++ b) i = znth b (i - zlen a).
  Proof.
    intros. unfold MerkleSpec.znth, zlen in *. rewrite app_nth2 by lia. f_equal. lia.
  Qed.
  Lemma zlen_app (a b : list D) : zlen (a ++ b) = zlen a + zlen b.
  Proof. unfold zlen. rewrite app_length. lia. Qed.
  Lemma zlen_firstn (a : list D) k : 0 <= k <= zlen a -> zlen (firstn (Z.to_nat k) a) = k.
  Proof. intros. unfold zlen in *. rewrite firstn_length. lia. Qed.
  Lemma znth_firstn (a : list D) k i : 0 <= i < k -> znth (firstn (Z.to_nat k) a) i = znth a i.
  Proof.
    intros. unfold MerkleSpec.znth.
    rewrite <- (firstn_skipn (Z.to_nat k) a) at 2.
    destruct (Z_lt_dec i (zlen a)) as [Hl|Hl].
    - rewrite app_nth1; [reflexivity|]. rewrite firstn_length. unfold zlen in Hl. lia.
    - unfold zlen in Hl. rewrite firstn_all2 by lia. rewrite skipn_all2 by lia. now rewrite app_nil_r.
  Qed.
  Lemma znth_skipn (a : list D) (k : nat) i : 0 <= i -> znth (skipn k a) i = znth a (Z.of_nat k + i).
  Proof.
    intros. unfold MerkleSpec.znth.
    replace (Z.to_nat (Z.of_nat k + i)) with (k + Z.to_nat i)%nat by lia.
    revert a. induction k; intros a; [reflexivity|].
    destruct a; cbn [skipn Nat.add nth]; [destruct (Z.to_nat i); reflexivity|]. apply IHk.
  Qed.

End ListZ.

Section Build.
  Variable D : Type.
  Variable H : D -> D -> D.
  Variable dflt : D.
  Notation znth := (znth D dflt).
  Notation spec_tree := (spec_tree D H dflt).

  Lemma write_slice_ok (nodes : list D) s src :
    0 <= s -> s + zlen src <= zlen nodes ->
    exists r, write_slice D nodes s src = Ok r /\ zlen r = zlen nodes /\
      forall i, 0 <= i < zlen nodes ->
        znth r i = if (s <=? i) && (i <? s + zlen src) then znth src (i - s) else znth nodes i.
  Proof.
    intros Hs Hb. unfold write_slice.
    destruct (s <? 0) eqn:E; [apply Z.ltb_lt in E; lia|].
    rewrite write_at_ok by (unfold zlen in *; lia).
    eexists. split; [reflexivity|].
    pose proof (zlen_nonneg src) as Hsrc.
    assert (L1 : zlen (firstn (Z.to_nat s) nodes) = s) by (apply zlen_firstn; lia).
    assert (L3 : zlen (skipn (Z.to_nat s + length src) nodes) = zlen nodes - s - zlen src).
    { unfold zlen in *. rewrite skipn_length. lia. }
    split.
    - rewrite !zlen_app, L1, L3. lia.
    - intros i Hi.
      destruct (s <=? i) eqn:E1; cbn [andb].
      + apply Z.leb_le in E1. rewrite znth_app2 by lia. rewrite L1.
        destruct (i <? s + zlen src) eqn:E2.
        * apply Z.ltb_lt in E2. rewrite znth_app1 by lia. reflexivity.
        * apply Z.ltb_ge in E2. rewrite znth_app2 by lia. rewrite znth_skipn by lia.
          f_equal. unfold zlen. lia.
      + apply Z.leb_gt in E1. rewrite znth_app1 by lia. apply znth_firstn. lia.
  Qed.

  Lemma hash_children_ok (nodes : list D) j :
    0 <= j -> 2 * j + 1 < zlen nodes ->
    hash_children D H nodes j = Ok (H (znth nodes (2 * j)) (znth nodes (2 * j + 1))).
  Proof.
    intros. unfold hash_children.
    rewrite (zget_znth D dflt) by lia. rewrite (zget_znth D dflt) by lia.
    replace (j * 2) with (2 * j) by lia. reflexivity.
  Qed.

  (* agreement of a node vector with the specification tree on the index range [lo, 2n) and at 0 *)
  Definition agree (St t : list D) (lo : Z) : Prop :=
    zlen t = zlen St /\ znth t 0 = znth St 0 /\ forall i, lo <= i < zlen St -> znth t i = znth St i.

  Lemma par_level_ok (leafs St nodes : list D) cnt :
    tree_ok D H dflt leafs St -> 1 <= cnt -> 2 * cnt <= zlen leafs ->
    agree St nodes (2 * cnt) ->
    exists nodes', par_level D H nodes cnt = Ok nodes' /\ agree St nodes' cnt.
  Proof.
    intros [A [B [C E]]] Hc Hn [G1 [G2 G3]]. cbv zeta in *. set (n := zlen leafs) in *.
    unfold par_level.
    set (g := fun i => H (znth nodes (2 * (cnt + i))) (znth nodes (2 * (cnt + i) + 1))).
    rewrite (mapO_ok _ g).
    2:{ intros x Hx. apply zrange_In in Hx. unfold g. apply hash_children_ok; lia. }
    cbn [obind].
    destruct (write_slice_ok nodes cnt (map g (zrange 0 (Z.to_nat cnt)))) as [r [R1 [R2 R3]]]; [lia| |].
    { unfold zlen at 1. rewrite map_length, zrange_length. lia. }
    exists r. split; [exact R1|].
    assert (Lm : zlen (map g (zrange 0 (Z.to_nat cnt))) = cnt).
    { unfold zlen. rewrite map_length, zrange_length. lia. }
    rewrite Lm in R3.
    split; [lia|]. split.
    - rewrite R3 by lia. destruct (cnt <=? 0) eqn:E0; [apply Z.leb_le in E0; lia|]. cbn [andb]. exact G2.
    - intros i Hi. rewrite R3 by lia.
      destruct (cnt <=? i) eqn:E1; [|apply Z.leb_gt in E1; lia]. cbn [andb].
      destruct (i <? cnt + cnt) eqn:E2.
      + apply Z.ltb_lt in E2. unfold MerkleSpec.znth at 1.
        rewrite (nth_indep _ dflt (g 0)) by (rewrite map_length, zrange_length; lia).
        rewrite map_nth. rewrite zrange_nth by lia. unfold g.
        replace (cnt + (0 + Z.of_nat (Z.to_nat (i - cnt)))) with i by lia.
        rewrite E by lia. rewrite !G3 by lia. reflexivity.
      + apply Z.ltb_ge in E2. apply G3. lia.
  Qed.

  Definition loop_inv (n cnt acc : Z) : Prop :=
    (exists k, 0 <= k /\ cnt = 2 ^ k /\ n - acc = 2 * cnt) \/ (cnt = 0 /\ n - acc = 1).

  Lemma par_loop_ok (leafs St : list D) fixed cutoff :
    tree_ok D H dflt leafs St -> (fixed = true \/ 1 <= cutoff) ->
    forall fuel nodes cnt acc,
      0 <= cnt < 2 ^ Z.of_nat fuel -> 0 <= acc ->
      loop_inv (zlen leafs) cnt acc -> agree St nodes (zlen leafs - acc) ->
      exists nodes' acc', par_loop D H fixed cutoff fuel nodes cnt acc = Ok (nodes', acc') /\
        1 <= zlen leafs - acc' <= zlen leafs /\ agree St nodes' (zlen leafs - acc').
  Proof.
    intros HS Hfc. induction fuel; intros nodes cnt acc Hc Ha Hinv Hag.
    - assert (cnt = 0) by (cbn in Hc; lia). subst cnt.
      destruct Hinv as [[k [Hk [Hk2 _]]]|[_ Hinv]].
      { pose proof (Z.pow_pos_nonneg 2 k). lia. }
      cbn [par_loop]. unfold par_guard.
      destruct Hfc as [->|Hcut].
      + rewrite andb_false_r. exists nodes, acc. split; [reflexivity|]. split; [lia|exact Hag].
      + destruct (cutoff <=? 0) eqn:E; [apply Z.leb_le in E; lia|]. cbn [andb].
        exists nodes, acc. split; [reflexivity|]. split; [lia|exact Hag].
    - cbn [par_loop].
      destruct (par_guard fixed cutoff cnt) eqn:G.
      + assert (Hc1 : 1 <= cnt).
        { unfold par_guard in G. apply andb_true_iff in G. destruct G as [G1 G2]. apply Z.leb_le in G1.
          destruct Hfc as [->|Hcut]; [apply Z.ltb_lt in G2; lia|lia]. }
        destruct Hinv as [[k [Hk [Hk2 Hk3]]]|[Hz _]]; [|lia].
        assert (Hle : 2 * cnt <= zlen leafs) by lia.
        rewrite Hk3 in Hag.
        destruct (par_level_ok leafs St nodes cnt HS Hc1 Hle Hag) as [nodes' [P1 P2]].
        rewrite P1. cbn [obind].
        apply IHfuel.
        * rewrite Nat2Z.inj_succ, Z.pow_succ_r in Hc by lia. lia.
        * lia.
        * destruct (Z.eq_dec k 0) as [->|Hk0].
          -- right. cbn in Hk2. subst cnt. cbn. lia.
          -- left. exists (k - 1). split; [lia|].
             assert (E2 : 2 ^ k = 2 * 2 ^ (k - 1)).
             { rewrite <- Z.pow_succ_r by lia. f_equal. lia. }
             rewrite Hk2, E2. split; [|lia].
             rewrite Z.mul_comm, Z.div_mul by lia. reflexivity.
        * replace (zlen leafs - (acc + cnt)) with cnt by lia. exact P2.
      + exists nodes, acc. split; [reflexivity|]. split; [|exact Hag].
        destruct Hinv as [[k [Hk [Hk2 Hk3]]]|[Hz Hz2]]; [|lia].
        pose proof (Z.pow_pos_nonneg 2 k). lia.
  Qed.

  Lemma seq_loop_ok (leafs St : list D) :
    tree_ok D H dflt leafs St ->
    forall (c : nat) nodes, Z.of_nat c + 1 <= zlen leafs -> agree St nodes (Z.of_nat c + 1) ->
      exists nodes', seq_loop D H nodes (rev (zrange 1 c)) = Ok nodes' /\ agree St nodes' 1.
  Proof.
    intros HS. pose proof HS as [A [B [C E]]]. cbv zeta in *.
    induction c; intros nodes Hc Hag.
    - exists nodes. split; [reflexivity|exact Hag].
    - rewrite zrange_snoc, rev_app_distr. cbn [rev app seq_loop].
      destruct Hag as [G1 [G2 G3]].
      set (i := 1 + Z.of_nat c).
      rewrite hash_children_ok by lia. cbn [obind].
      destruct (write_slice_ok nodes i [H (znth nodes (2 * i)) (znth nodes (2 * i + 1))]) as [r [R1 [R2 R3]]];
        [lia|unfold zlen at 1; cbn [length]; lia|].
      rewrite R1. cbn [obind]. apply IHc; [lia|].
      change (zlen [H (znth nodes (2 * i)) (znth nodes (2 * i + 1))]) with 1 in R3.
      split; [lia|]. split.
      + rewrite R3 by lia. destruct (i <=? 0) eqn:E0; [apply Z.leb_le in E0; lia|]. exact G2.
      + intros j Hj. rewrite R3 by lia.
        destruct (Z.eq_dec j i) as [->|Hne].
        * rewrite Z.leb_refl. destruct (i <? i + 1) eqn:E1; [|apply Z.ltb_ge in E1; lia]. cbn [andb].
          rewrite Z.sub_diag. unfold MerkleSpec.znth at 1. cbn [Z.to_nat nth].
          rewrite E by lia. rewrite !G3 by lia. reflexivity.
        * destruct ((i <=? j) && (j <? i + 1)) eqn:E1.
          { apply andb_true_iff in E1. destruct E1 as [E1 E2]. apply Z.leb_le in E1. apply Z.ltb_lt in E2. lia. }
          apply G3. lia.
  Qed.

  Lemma agree_eq (St t : list D) : agree St t 1 -> t = St.
  Proof.
    intros [G1 [G2 G3]]. apply (nth_ext _ _ dflt dflt).
    - unfold zlen in G1. lia.
    - intros j Hj. destruct j.
      + exact G2.
      + specialize (G3 (Z.of_nat (S j))). unfold MerkleSpec.znth in G3. rewrite Nat2Z.id in G3.
        apply G3. unfold zlen in *. lia.
  Qed.

  Lemma repeat_nth (d : D) k j : nth j (repeat d k) d = d.
  Proof. revert j. induction k; intros [|j]; cbn; auto. Qed.

  Theorem build_spec_lemma (fixed : bool) (cutoff : Z) (fuel : nat) (leafs : list D) :
    (fixed = true \/ 1 <= cutoff) -> is_pow2 (zlen leafs) = true -> zlen leafs < 2 ^ Z.of_nat fuel ->
    from_digests D H dflt fixed cutoff fuel leafs = Ok (spec_tree leafs).
  Proof.
    intros Hfc Hp Hfuel.
    pose proof (spec_tree_ok D H dflt leafs Hp) as HS.
    pose proof HS as [A [B [C E]]]. cbv zeta in *.
    apply is_pow2_spec in Hp. destruct Hp as [h [Hh Hn]].
    set (St := spec_tree leafs) in *. set (n := zlen leafs) in *.
    assert (Hn1 : 1 <= n) by (pose proof (Z.pow_pos_nonneg 2 h); lia).
    unfold from_digests. fold n.
    destruct (n =? 0) eqn:E0; [apply Z.eqb_eq in E0; lia|].
    assert (Hp2 : is_pow2 n = true) by (apply is_pow2_spec; exists h; auto).
    rewrite Hp2. cbn [negb].
    destruct (write_slice_ok (repeat dflt (Z.to_nat (2 * n))) n leafs) as [r [R1 [R2 R3]]];
      [lia|unfold zlen at 2; rewrite repeat_length; fold n; lia|].
    rewrite R1. cbn [obind].
    assert (Lr : zlen (repeat dflt (Z.to_nat (2 * n))) = 2 * n) by (unfold zlen; rewrite repeat_length; lia).
    rewrite Lr in *.
    assert (Hag0 : agree St r (n - 0)).
    { split; [lia|]. split.
      - rewrite R3 by lia. destruct (n <=? 0) eqn:E1; [apply Z.leb_le in E1; lia|]. cbn [andb].
        rewrite B. unfold MerkleSpec.znth. apply repeat_nth.
      - intros i Hi. rewrite R3 by lia. fold n.
        destruct (n <=? i) eqn:E1; [|apply Z.leb_gt in E1; lia].
        destruct (i <? n + n) eqn:E2; [|apply Z.ltb_ge in E2; lia]. cbn [andb].
        replace i with (n + (i - n)) at 2 by lia. rewrite C by lia. reflexivity. }
    destruct (par_loop_ok leafs St fixed cutoff HS Hfc fuel r (n / 2) 0) as [nodes1 [acc1 [P1 [P2 P3]]]].
    - fold n. split; [apply Z.div_pos; lia|]. apply Z.le_lt_trans with n; [|exact Hfuel].
      apply Z.div_le_upper_bound; lia.
    - lia.
    - fold n. destruct (Z.eq_dec h 0) as [->|Hh0].
      + right. cbn in Hn. rewrite Hn. cbn. lia.
      + left. exists (h - 1). split; [lia|].
        assert (E2 : 2 ^ h = 2 * 2 ^ (h - 1)).
        { rewrite <- Z.pow_succ_r by lia. f_equal. lia. }
        rewrite Hn, E2. split; [|lia]. rewrite Z.mul_comm, Z.div_mul by lia. reflexivity.
    - exact Hag0.
    - rewrite P1. cbn [obind]. fold n in P2, P3.
      destruct (n <? acc1) eqn:E3; [apply Z.ltb_lt in E3; lia|].
      destruct (seq_loop_ok leafs St HS (Z.to_nat (n - acc1 - 1)) nodes1) as [nodes2 [Q1 Q2]].
      + fold n. lia.
      + replace (Z.of_nat (Z.to_nat (n - acc1 - 1)) + 1) with (n - acc1) by lia. exact P3.
      + rewrite Q1. f_equal. apply agree_eq. exact Q2.
  Qed.
End Build.

Section Accessors.
  Variable D : Type.
  Variable H : D -> D -> D.
  Variable dflt : D.
  Notation znth := (znth D dflt).
  Notation spec_tree := (spec_tree D H dflt).

  Lemma build_rejects_lemma fixed cutoff fuel (ds : list D) :
    is_pow2 (zlen ds) = false -> from_digests D H dflt fixed cutoff fuel ds = Err.
  Proof.
    intros Hp. unfold from_digests. destruct (zlen ds =? 0); [reflexivity|]. rewrite Hp. reflexivity.
  Qed.

  (* cutoff 0 on the pinned tree: `while count >= 0` never exits *)
  Lemma par_loop_zero_diverges fuel : forall nodes acc,
    par_loop D H false 0 fuel nodes 0 acc = OutOfFuel.
  Proof.
    induction fuel; intros nodes acc; [reflexivity|].
    cbn [par_loop]. unfold par_guard. cbn [Z.leb Z.compare andb].
    unfold par_level. cbn [Z.to_nat zrange mapO obind].
    unfold write_slice. cbn [Z.ltb Z.compare].
    replace (write_at nodes 0 []) with (Some nodes) by (destruct nodes; reflexivity).
    cbn [obind]. change (0 / 2) with 0. apply IHfuel.
  Qed.

  Lemma build_cutoff_zero_diverges (d : D) fuel :
    from_digests D H dflt false 0 fuel [d] = OutOfFuel.
  Proof.
    unfold from_digests. change (zlen [d]) with 1. cbn [Z.eqb is_pow2 negb].
    change (is_pow2 1) with true. cbn [negb].
    change (write_slice D (repeat dflt (Z.to_nat (2 * 1))) 1 [d]) with (@Ok (list D) [dflt; d]).
    cbn [obind]. change (1 / 2) with 0. rewrite par_loop_zero_diverges. reflexivity.
  Qed.

  (* ---------------------------------------------------------------- accessors of an honest tree *)
  Section Honest.
    Variable leafs : list D.
    Hypothesis Hp : is_pow2 (zlen leafs) = true.
    Let n := zlen leafs.
    Let t := spec_tree leafs.

    Lemma honest_len : zlen t = 2 * n.
    Proof. destruct (spec_tree_ok D H dflt leafs Hp) as [A _]. exact A. Qed.
    Lemma honest_n_pos : 1 <= n.
    Proof.
      apply is_pow2_spec in Hp. destruct Hp as [h [Hh Hn]]. fold n in Hn.
      pose proof (Z.pow_pos_nonneg 2 h). lia.
    Qed.
    Lemma honest_pow2_2n : is_pow2 (2 * n) = true.
    Proof.
      apply is_pow2_spec in Hp. destruct Hp as [h [Hh Hn]]. apply is_pow2_spec.
      exists (h + 1). split; [lia|]. rewrite Z.pow_add_r by lia. fold n in Hn. lia.
    Qed.

    Lemma honest_num_leafs m : mt_num_leafs D m t = Ok n.
    Proof.
      unfold mt_num_leafs. rewrite honest_len, honest_pow2_2n.
      replace (2 * n / 2) with n by (rewrite Z.mul_comm, Z.div_mul; lia). destruct m; reflexivity.
    Qed.

    Lemma honest_height m : mt_height D m t = Ok (Z.log2 n).
    Proof.
      unfold mt_height. rewrite honest_num_leafs. cbn [obind]. fold n in Hp. rewrite Hp.
      pose proof honest_n_pos. destruct (n =? 0) eqn:E; [apply Z.eqb_eq in E; lia|]. destruct m; reflexivity.
    Qed.

    Lemma honest_root : mt_root D t = Ok (znth t 1).
    Proof.
      unfold mt_root. pose proof honest_n_pos. rewrite (zget_znth D dflt) by (rewrite honest_len; lia). reflexivity.
    Qed.

    Lemma honest_node i :
      mt_node D t i = if (0 <=? i) && (i <? 2 * n) then Some (znth t i) else None.
    Proof.
      unfold mt_node.
      destruct ((0 <=? i) && (i <? 2 * n)) eqn:E.
      - apply andb_true_iff in E. destruct E as [E1 E2]. apply Z.leb_le in E1. apply Z.ltb_lt in E2.
        apply (zget_znth D dflt). rewrite honest_len. lia.
      - apply zget_none. rewrite honest_len. apply andb_false_iff in E.
        destruct E as [E|E]; [apply Z.leb_gt in E|apply Z.ltb_ge in E]; lia.
    Qed.

    Lemma honest_leaf_node j : 0 <= j < n -> znth t (n + j) = znth leafs j.
    Proof. destruct (spec_tree_ok D H dflt leafs Hp) as [_ [_ [C _]]]. apply C. Qed.

    Lemma honest_leafs : mt_leafs D t = leafs.
    Proof.
      unfold mt_leafs. rewrite honest_len.
      replace (2 * n / 2) with n by (rewrite Z.mul_comm, Z.div_mul; lia).
      pose proof honest_len as Hl. unfold zlen in Hl. fold n in Hl.
      apply (nth_ext _ _ dflt dflt).
      - rewrite skipn_length. unfold n, zlen in *. lia.
      - intros j Hj. rewrite skipn_length in Hj.
        pose proof (znth_skipn D dflt t (Z.to_nat n) (Z.of_nat j)) as Hs.
        unfold MerkleSpec.znth in Hs at 1. rewrite Nat2Z.id in Hs. rewrite Hs by lia.
        rewrite Z2Nat.id by (unfold n, zlen; lia).
        rewrite honest_leaf_node by (unfold n, zlen in *; lia).
        unfold MerkleSpec.znth. rewrite Nat2Z.id. reflexivity.
    Qed.

    Hypothesis Hn63 : n <= 2 ^ 63.

    Lemma honest_leaf_fixed m i : 0 <= i ->
      mt_leaf D true m t i = Ok (if i <? n then Some (znth leafs i) else None).
    Proof.
      intros Hi. unfold mt_leaf. rewrite honest_len.
      replace (2 * n / 2) with n by (rewrite Z.mul_comm, Z.div_mul; lia).
      pose proof honest_n_pos. change (2 ^ 63) with 9223372036854775808 in Hn63.
      destruct (i <? n) eqn:E.
      - apply Z.ltb_lt in E.
        destruct (n + i <? USZ) eqn:E2; [|apply Z.ltb_ge in E2; unfold USZ in E2; lia].
        rewrite (zget_znth D dflt) by (rewrite honest_len; lia). rewrite honest_leaf_node by lia. reflexivity.
      - apply Z.ltb_ge in E. destruct (n + i <? USZ); [|reflexivity].
        rewrite zget_none by (rewrite honest_len; lia). reflexivity.
    Qed.

    (* the pinned-tree leaf accessor is exact only while first_leaf + i does not wrap *)
    Lemma honest_leaf_v0_nowrap m i : 0 <= i -> n + i < USZ ->
      mt_leaf D false m t i = Ok (if i <? n then Some (znth leafs i) else None).
    Proof.
      intros Hi Hw. unfold mt_leaf, uadd. rewrite honest_len.
      replace (2 * n / 2) with n by (rewrite Z.mul_comm, Z.div_mul; lia).
      destruct (n + i <? USZ) eqn:E2; [|apply Z.ltb_ge in E2; lia]. cbn [obind].
      destruct (i <? n) eqn:E.
      - apply Z.ltb_lt in E.
        rewrite (zget_znth D dflt) by (rewrite honest_len; lia). rewrite honest_leaf_node by lia. reflexivity.
      - apply Z.ltb_ge in E. rewrite zget_none by (rewrite honest_len; lia). reflexivity.
    Qed.

    Lemma honest_indexed_leafs_fixed m idxs : (forall i, In i idxs -> 0 <= i) ->
      mt_indexed_leafs D true m t idxs =
      if forallb (fun i => i <? n) idxs then Ok (map (fun i => (i, znth leafs i)) idxs) else Err.
    Proof.
      intros Hr. unfold mt_indexed_leafs. rewrite honest_num_leafs. cbn [obind].
      induction idxs as [|i r IH]; [reflexivity|].
      cbn [mapO forallb map]. rewrite honest_leaf_fixed by (apply Hr; left; reflexivity). cbn [obind].
      destruct (i <? n); cbn [andb obind]; [|reflexivity].
      rewrite IH by (intros; apply Hr; right; assumption).
      destruct (forallb (fun i0 => i0 <? n) r); reflexivity.
    Qed.
  End Honest.

  Lemma build_terminates_lemma fixed cutoff (leafs : list D) :
    (fixed = true \/ 1 <= cutoff) ->
    from_digests D H dflt fixed cutoff (build_fuel D leafs) leafs <> OutOfFuel.
  Proof.
    intros Hfc. destruct (is_pow2 (zlen leafs)) eqn:Hp.
    - rewrite build_spec_lemma; [discriminate|exact Hfc|exact Hp|].
      unfold build_fuel, zlen. rewrite Nat2Z.inj_succ.
      pose proof (Z.pow_gt_lin_r 2 (Z.succ (Z.of_nat (length leafs)))). lia.
    - rewrite build_rejects_lemma by exact Hp. discriminate.
  Qed.
End Accessors.

(* ---------------------------------------------------------------------------------------------- *)
(* refutation witnesses on the pinned tree (free hash)                                            *)
Definition wit_leafs : list term := map Atom [0; 1; 2; 3; 4; 5; 6; 7].
Definition wit_tree : list term := spec_tree term Node Dflt wit_leafs.

Lemma leaf_wrap_release_witness :
  mt_leaf term false Release wit_tree (2 ^ 64 - 7) = Ok (Some (znth term Dflt wit_tree 1)).
Proof. vm_compute. reflexivity. Qed.

Lemma leaf_wrap_checked_witness : mt_leaf term false Checked wit_tree (2 ^ 64 - 7) = Panic.
Proof. vm_compute. reflexivity. Qed.

Lemma indexed_leafs_wrap_release_witness :
  mt_indexed_leafs term false Release wit_tree [2 ^ 64 - 7] = Ok [(2 ^ 64 - 7, znth term Dflt wit_tree 1)].
Proof. vm_compute. reflexivity. Qed.

Lemma accessors_total_v0_refuted :
  exists (D : Type) (H : D -> D -> D) (dflt : D) (leafs : list D) (m : mmode) (i : Z),
    is_pow2 (zlen leafs) = true /\ zlen leafs <= 2 ^ 63 /\ 0 <= i < 2 ^ 64 /\
    mt_leaf D false m (spec_tree D H dflt leafs) i <>
      Ok (if i <? zlen leafs then Some (znth D dflt leafs i) else None).
Proof.
  exists term, Node, Dflt, wit_leafs, Release, (2 ^ 64 - 7).
  split; [reflexivity|]. split; [vm_compute; discriminate|]. split; [lia|].
  fold wit_tree. rewrite leaf_wrap_release_witness. vm_compute. discriminate.
Qed.

Lemma accessors_mode_dependent_v0 :
  exists (D : Type) (H : D -> D -> D) (dflt : D) (leafs : list D) (i : Z),
    is_pow2 (zlen leafs) = true /\ 0 <= i < 2 ^ 64 /\
    mt_leaf D false Release (spec_tree D H dflt leafs) i <> mt_leaf D false Checked (spec_tree D H dflt leafs) i.
Proof.
  exists term, Node, Dflt, wit_leafs, (2 ^ 64 - 7).
  split; [reflexivity|]. split; [lia|].
  fold wit_tree. rewrite leaf_wrap_release_witness, leaf_wrap_checked_witness. discriminate.
Qed.

Lemma build_terminates_v0_refuted :
  exists (D : Type) (H : D -> D -> D) (dflt : D) (cutoff : Z) (leafs : list D),
    0 <= cutoff /\ is_pow2 (zlen leafs) = true /\
    forall fuel, from_digests D H dflt false cutoff fuel leafs = OutOfFuel.
Proof.
  exists term, Node, Dflt, 0, [Atom 0]. split; [lia|]. split; [reflexivity|].
  intros fuel. apply build_cutoff_zero_diverges.
Qed.

Lemma honest_accessors (D : Type) (H : D -> D -> D) (dflt : D) (leafs : list D) (m : mmode) :
  is_pow2 (zlen leafs) = true ->
  let t := spec_tree D H dflt leafs in
  mt_num_leafs D m t = Ok (zlen leafs) /\ mt_height D m t = Ok (Z.log2 (zlen leafs)) /\
  mt_root D t = Ok (znth D dflt t 1) /\ mt_leafs D t = leafs /\
  forall i, mt_node D t i = if (0 <=? i) && (i <? 2 * zlen leafs) then Some (znth D dflt t i) else None.
Proof.
  intros Hp t. repeat split.
  - now apply honest_num_leafs.
  - now apply honest_height.
  - now apply honest_root.
  - now apply honest_leafs.
  - intros i. now apply honest_node.
Qed.

Lemma build_spec_current (D : Type) (H : D -> D -> D) (dflt : D) (cutoff : Z) (leafs : list D) :
  is_pow2 (zlen leafs) = true ->
  from_digests D H dflt true cutoff (build_fuel D leafs) leafs = Ok (spec_tree D H dflt leafs).
Proof.
  intros Hp. apply build_spec_lemma; [left; reflexivity|exact Hp|].
  unfold build_fuel, zlen. rewrite Nat2Z.inj_succ.
  pose proof (Z.pow_gt_lin_r 2 (Z.succ (Z.of_nat (length leafs)))). lia.
Qed.

(* ---------------------------------------------------------------------------------------------- *)
(* siblings, ancestors, paths                                                                      *)

Lemma land_1 x : Z.land x 1 = x mod 2.
Proof. change 1 with (Z.ones 1). rewrite Z.land_ones by lia. reflexivity. Qed.

Lemma sibling_even x : Z.even x = true -> sibling x = x + 1.
Proof.
  intros He. unfold sibling. symmetry. apply Z.add_nocarry_lxor.
  rewrite land_1. rewrite Zmod_even, He. reflexivity.
Qed.

Lemma sibling_spec x : sibling x = spec_sibling x.
Proof.
  unfold spec_sibling. destruct (Z.even x) eqn:He; [now apply sibling_even|].
  assert (He' : Z.even (x - 1) = true).
  { rewrite Z.even_sub, He. reflexivity. }
  pose proof (sibling_even (x - 1) He') as Hs. unfold sibling in *.
  replace (x - 1 + 1) with x in Hs by lia.
  rewrite <- Hs at 1. rewrite Z.lxor_assoc, Z.lxor_nilpotent, Z.lxor_0_r. reflexivity.
Qed.

Lemma spec_sibling_invol x : spec_sibling (spec_sibling x) = x.
Proof.
  unfold spec_sibling. destruct (Z.even x) eqn:He.
  - rewrite Z.even_add, He. cbn. lia.
  - rewrite Z.even_sub, He. cbn. lia.
Qed.

Lemma spec_sibling_half x : spec_sibling x / 2 = x / 2.
Proof.
  unfold spec_sibling. destruct (Z.even x) eqn:He.
  - apply Zeven_bool_iff in He. apply Zeven_ex_iff in He. destruct He as [q ->]. lia.
  - rewrite <- Z.negb_odd in He. apply negb_false_iff in He.
    apply Zodd_bool_iff in He. apply Zodd_ex_iff in He. destruct He as [q ->]. lia.
Qed.

Lemma spec_sibling_range x : 2 <= x -> 2 <= spec_sibling x /\ spec_sibling x <> x.
Proof.
  intros Hx. unfold spec_sibling. destruct (Z.even x) eqn:He; [lia|].
  rewrite <- Z.negb_odd in He. apply negb_false_iff in He.
  apply Zodd_bool_iff in He. apply Zodd_ex_iff in He. destruct He as [q ->]. lia.
Qed.

Lemma div_pow2_succ x k : 0 <= k -> x / 2 / 2 ^ k = x / 2 ^ (k + 1).
Proof.
  intros Hk. rewrite Z.div_div by (try apply Z.pow_pos_nonneg; lia).
  rewrite Z.pow_add_r by lia. f_equal. lia.
Qed.

Lemma path_up_In fuel : forall x y, 0 <= x < 2 ^ Z.of_nat fuel ->
  (In y (path_up fuel x) <-> 1 < y /\ ancestor y x).
Proof.
  unfold ancestor. induction fuel; intros x y Hx.
  - cbn in Hx. assert (x = 0) by lia. subst. cbn [path_up In]. split; [tauto|].
    intros [Hy [k [Hk ->]]]. rewrite Z.div_0_l in Hy by (pose proof (Z.pow_pos_nonneg 2 k); lia). lia.
  - cbn [path_up]. destruct (1 <? x) eqn:E.
    + apply Z.ltb_lt in E. cbn [In]. rewrite IHfuel.
      2:{ rewrite Nat2Z.inj_succ, Z.pow_succ_r in Hx by lia. lia. }
      split.
      * intros [<-|[Hy [k [Hk ->]]]].
        -- split; [lia|]. exists 0. split; [lia|]. now rewrite Z.div_1_r.
        -- split; [exact Hy|]. exists (k + 1). split; [lia|]. apply div_pow2_succ. lia.
      * intros [Hy [k [Hk ->]]]. destruct (Z.eq_dec k 0) as [->|Hk0].
        -- left. now rewrite Z.div_1_r.
        -- right. split; [exact Hy|]. exists (k - 1). split; [lia|].
           rewrite div_pow2_succ by lia. f_equal. f_equal. lia.
    + apply Z.ltb_ge in E. cbn [In]. split; [tauto|].
      intros [Hy [k [Hk ->]]]. exfalso.
      assert (x / 2 ^ k <= x).
      { apply Z.div_le_upper_bound; [apply Z.pow_pos_nonneg; lia|].
        pose proof (Z.pow_pos_nonneg 2 k). nia. }
      lia.
Qed.

(* the loop needs at most 64 iterations for a usize: more fuel changes nothing *)
Lemma path_up_fuel_indep fuel : forall x k, 0 <= x < 2 ^ Z.of_nat fuel ->
  path_up (fuel + k) x = path_up fuel x.
Proof.
  induction fuel; intros x k Hx.
  - cbn in Hx. assert (x = 0) by lia. subst. destruct k; reflexivity.
  - cbn [path_up Nat.add]. destruct (1 <? x); [|reflexivity]. f_equal. apply IHfuel.
    rewrite Nat2Z.inj_succ, Z.pow_succ_r in Hx by lia. lia.
Qed.

(* ---------------------------------------------------------------------------------------------- *)
(* sorting                                                                                         *)

Lemma insert_asc_In x l y : In y (insert_asc x l) <-> y = x \/ In y l.
Proof.
  induction l as [|a r IH]; cbn [insert_asc In]; [intuition|].
  destruct (x <=? a); cbn [In]; [intuition|]. rewrite IH. intuition.
Qed.

Lemma isort_asc_In l y : In y (isort_asc l) <-> In y l.
Proof.
  induction l as [|a r IH]; cbn [isort_asc fold_right In]; [tauto|].
  fold (isort_asc r). rewrite insert_asc_In, IH. intuition.
Qed.

Lemma insert_asc_sorted x l : StronglySorted Z.le l -> StronglySorted Z.le (insert_asc x l).
Proof.
  induction 1 as [|a r Hs IH Hf]; cbn [insert_asc].
  - constructor; constructor.
  - destruct (x <=? a) eqn:E.
    + apply Z.leb_le in E. constructor; [constructor; assumption|].
      constructor; [exact E|]. rewrite Forall_forall in *. intros z Hz. specialize (Hf z Hz). lia.
    + apply Z.leb_gt in E. constructor; [exact IH|].
      rewrite Forall_forall in *. intros z Hz. apply insert_asc_In in Hz. destruct Hz as [->|Hz]; [lia|auto].
Qed.

Lemma isort_asc_sorted l : StronglySorted Z.le (isort_asc l).
Proof.
  induction l as [|a r IH]; cbn [isort_asc fold_right]; [constructor|].
  apply insert_asc_sorted. exact IH.
Qed.

Lemma dedup_adj_In l y : In y (dedup_adj l) <-> In y l.
Proof.
  induction l as [|a r IH]; [reflexivity|].
  cbn [dedup_adj]. destruct r as [|b r'].
  - reflexivity.
  - destruct (a =? b) eqn:E.
    + apply Z.eqb_eq in E. subst b. rewrite IH. cbn [In]. intuition.
    + change (In y (a :: dedup_adj (b :: r')) <-> In y (a :: b :: r')).
      cbn [In] in *. rewrite IH. reflexivity.
Qed.

Lemma dedup_adj_sorted l : StronglySorted Z.le l -> StronglySorted Z.lt (dedup_adj l).
Proof.
  induction 1 as [|a r Hs IH Hf]; [constructor|].
  cbn [dedup_adj]. destruct r as [|b r'].
  - constructor; constructor.
  - destruct (a =? b) eqn:E; [exact IH|].
    apply Z.eqb_neq in E. constructor; [exact IH|].
    rewrite Forall_forall in *. intros z Hz. apply (proj1 (dedup_adj_In _ _)) in Hz.
    inversion Hs as [|? ? Hs' Hf']; subst. rewrite Forall_forall in Hf'.
    pose proof (Hf b (or_introl eq_refl)) as Hab.
    cbn [In] in Hz. destruct Hz as [<-|Hz]; [lia|]. specialize (Hf' z Hz). lia.
Qed.

Lemma rev_sorted_gt l : StronglySorted Z.lt l -> StronglySorted Z.gt (rev l).
Proof.
  induction 1 as [|a r Hs IH Hf]; [constructor|].
  cbn [rev]. clear Hs. revert IH. generalize (rev_involutive r). intros _.
  assert (Hf' : Forall (fun z => z > a) (rev r)).
  { rewrite Forall_forall in *. intros z Hz. apply in_rev in Hz. specialize (Hf z Hz). lia. }
  clear Hf. induction (rev r) as [|b q IHq]; intros Hq.
  - constructor; constructor.
  - cbn [app]. inversion Hq; subst. inversion Hf'; subst. constructor; [apply IHq; assumption|].
    apply Forall_app. split; [assumption|]. constructor; [assumption|constructor].
Qed.

Lemma sorted_gt_unique (l1 : list Z) : forall l2,
  StronglySorted Z.gt l1 -> StronglySorted Z.gt l2 -> (forall x, In x l1 <-> In x l2) -> l1 = l2.
Proof.
  induction l1 as [|a r IH]; intros l2 H1 H2 Heq.
  - destruct l2 as [|b q]; [reflexivity|]. exfalso. apply (Heq b). left. reflexivity.
  - destruct l2 as [|b q]; [exfalso; apply (Heq a); left; reflexivity|].
    inversion H1 as [|? ? S1 F1]; subst. inversion H2 as [|? ? S2 F2]; subst.
    rewrite Forall_forall in F1, F2.
    assert (a = b).
    { pose proof (proj1 (Heq a) (or_introl eq_refl)) as Ha. pose proof (proj2 (Heq b) (or_introl eq_refl)) as Hb.
      destruct Ha as [Ha|Ha]; [congruence|]. destruct Hb as [Hb|Hb]; [congruence|].
      specialize (F1 b Hb). specialize (F2 a Ha). lia. }
    subst b. f_equal. apply IH; try assumption.
    intros x. split; intros Hx.
    + pose proof (proj1 (Heq x) (or_intror Hx)) as Hy. destruct Hy as [<-|Hy]; [|exact Hy].
      specialize (F1 a Hx). lia.
    + pose proof (proj2 (Heq x) (or_intror Hx)) as Hy. destruct Hy as [<-|Hy]; [|exact Hy].
      specialize (F2 a Hx). lia.
Qed.

(* ---------------------------------------------------------------------------------------------- *)
(* authentication_structure_node_indices                                                           *)

Lemma uadd_ok m a b : 0 <= a -> 0 <= b -> a + b < USZ -> uadd m a b = Ok (a + b).
Proof. intros. unfold uadd. destruct (a + b <? USZ) eqn:E; [reflexivity|apply Z.ltb_ge in E; lia]. Qed.
Lemma umul_ok m a b : a * b < USZ -> umul m a b = Ok (a * b).
Proof. intros. unfold umul. destruct (a * b <? USZ) eqn:E; [reflexivity|apply Z.ltb_ge in E; lia]. Qed.

Lemma asni_loop_ok m n : 0 <= n -> 2 * n <= USZ -> forall idxs needed0 comp0,
  (forall i, In i idxs -> 0 <= i < n) ->
  asni_loop m n idxs needed0 comp0 =
    Ok (needed0 ++ flat_map (fun i => map sibling (path_up 64 (i + n))) idxs,
        comp0 ++ flat_map (fun i => path_up 64 (i + n)) idxs).
Proof.
  intros Hn Hn2. induction idxs as [|i r IH]; intros needed0 comp0 Hr.
  - cbn. now rewrite !app_nil_r.
  - cbn [asni_loop flat_map].
    assert (Hi : 0 <= i < n) by (apply Hr; left; reflexivity).
    destruct (n <=? i) eqn:E; [apply Z.leb_le in E; lia|].
    rewrite uadd_ok by lia. cbn [obind].
    rewrite IH by (intros; apply Hr; right; assumption).
    now rewrite <- !app_assoc.
Qed.

Lemma asni_loop_err m n : forall idxs needed0 comp0,
  (exists i, In i idxs /\ n <= i) -> (forall i, In i idxs -> 0 <= i) -> 0 <= n -> 2 * n <= USZ ->
  asni_loop m n idxs needed0 comp0 = Err.
Proof.
  induction idxs as [|i r IH]; intros needed0 comp0 [j [Hj Hnj]] Hpos Hn Hn2; [destruct Hj|].
  cbn [asni_loop]. destruct (n <=? i) eqn:E; [reflexivity|]. apply Z.leb_gt in E.
  assert (Hi0 : 0 <= i) by (apply Hpos; left; reflexivity).
  rewrite uadd_ok by lia. cbn [obind].
  apply IH; try assumption.
  - destruct Hj as [->|Hj]; [lia|]. exists j. split; assumption.
  - intros; apply Hpos; right; assumption.
Qed.

Lemma usz_pow : USZ = 2 ^ 64.
Proof. reflexivity. Qed.

Lemma computable_path n idxs x : 0 <= n -> 2 * n <= USZ -> (forall i, In i idxs -> 0 <= i < n) ->
  (In x (flat_map (fun i => path_up 64 (i + n)) idxs) <-> computable n idxs x).
Proof.
  intros Hn Hn2 Hr. rewrite in_flat_map. unfold computable. split.
  - intros [i [Hi Hx]]. apply path_up_In in Hx.
    2:{ specialize (Hr i Hi). change (2 ^ Z.of_nat 64) with USZ. lia. }
    destruct Hx as [Hx1 Hx2]. split; [exact Hx1|]. exists i. split; [exact Hi|].
    now rewrite Z.add_comm.
  - intros [Hx1 [i [Hi Hx2]]]. exists i. split; [exact Hi|]. apply path_up_In.
    + specialize (Hr i Hi). change (2 ^ Z.of_nat 64) with USZ. lia.
    + split; [exact Hx1|]. now rewrite Z.add_comm.
Qed.

Lemma needed_path n idxs x : 0 <= n -> 2 * n <= USZ -> (forall i, In i idxs -> 0 <= i < n) ->
  (In x (flat_map (fun i => map sibling (path_up 64 (i + n))) idxs) <-> needed n idxs x).
Proof.
  intros Hn Hn2 Hr. unfold needed. rewrite <- (computable_path n idxs) by assumption.
  rewrite !in_flat_map. split.
  - intros [i [Hi Hx]]. apply in_map_iff in Hx. destruct Hx as [y [Hy1 Hy2]].
    exists i. split; [exact Hi|]. rewrite <- Hy1, sibling_spec, spec_sibling_invol. exact Hy2.
  - intros [i [Hi Hx]]. exists i. split; [exact Hi|]. apply in_map_iff.
    exists (spec_sibling x). split; [|exact Hx]. now rewrite sibling_spec, spec_sibling_invol.
Qed.

Lemma zmem_In x l : zmem x l = true <-> In x l.
Proof.
  unfold zmem. rewrite existsb_exists. split.
  - intros [y [Hy E]]. apply Z.eqb_eq in E. now subst.
  - intros Hx. exists x. split; [exact Hx|apply Z.eqb_refl].
Qed.

Theorem auth_indices_spec m n idxs : 0 <= n -> 2 * n <= USZ -> (forall i, In i idxs -> 0 <= i < n) ->
  exists r, auth_structure_node_indices m n idxs = Ok r /\ StronglySorted Z.gt r /\
            forall x, In x r <-> minimal n idxs x.
Proof.
  intros Hn Hn2 Hr. unfold auth_structure_node_indices.
  rewrite asni_loop_ok by assumption. cbn [obind app].
  eexists. split; [reflexivity|]. split.
  - apply rev_sorted_gt. apply dedup_adj_sorted. apply isort_asc_sorted.
  - intros x. rewrite <- in_rev, dedup_adj_In, isort_asc_In, filter_In.
    rewrite needed_path by assumption. unfold minimal.
    rewrite <- (computable_path n idxs) by assumption.
    rewrite negb_true_iff. rewrite <- not_true_iff_false, zmem_In. reflexivity.
Qed.

Theorem auth_indices_reject m n idxs : 0 <= n -> 2 * n <= USZ -> (forall i, In i idxs -> 0 <= i) ->
  (exists i, In i idxs /\ n <= i) -> auth_structure_node_indices m n idxs = Err.
Proof.
  intros Hn Hn2 Hpos Hex. unfold auth_structure_node_indices.
  rewrite asni_loop_err by assumption. reflexivity.
Qed.

(* ---------------------------------------------------------------------------------------------- *)
(* the executable specification list                                                               *)

Lemma ancestor_b_spec x y : 1 <= x -> 1 <= y -> (ancestor_b x y = true <-> ancestor x y).
Proof.
  intros Hx Hy. unfold ancestor_b, ancestor. split.
  - intros Hb. apply andb_true_iff in Hb. destruct Hb as [H1 H2].
    apply Z.leb_le in H1. apply Z.eqb_eq in H2.
    exists (Z.log2 y - Z.log2 x). split; [exact H1|symmetry; exact H2].
  - intros [k [Hk Hxy]].
    assert (Hl : Z.log2 x = Z.log2 y - k).
    { rewrite Hxy. rewrite <- Z.shiftr_div_pow2 by lia.
      rewrite Z.log2_shiftr by lia.
      destruct (Z_lt_dec (Z.log2 y - k) 0) as [Hneg|Hpos]; [|lia].
      exfalso. assert (y < 2 ^ k).
      { apply Z.log2_lt_pow2; lia. }
      rewrite Z.div_small in Hxy by lia. lia. }
    replace (Z.log2 y - Z.log2 x) with k by lia.
    apply andb_true_iff. split; [apply Z.leb_le; lia|apply Z.eqb_eq; lia].
Qed.

Lemma computable_b_spec n idxs x : 1 <= n -> (forall i, In i idxs -> 0 <= i) ->
  (computable_b n idxs x = true <-> computable n idxs x).
Proof.
  intros Hn Hr. unfold computable_b, computable. rewrite andb_true_iff, Z.ltb_lt, existsb_exists.
  split.
  - intros [Hx [i [Hi Hb]]]. split; [exact Hx|]. exists i. split; [exact Hi|].
    apply ancestor_b_spec; [lia|specialize (Hr i Hi); lia|exact Hb].
  - intros [Hx [i [Hi Ha]]]. split; [exact Hx|]. exists i. split; [exact Hi|].
    apply ancestor_b_spec; [lia|specialize (Hr i Hi); lia|exact Ha].
Qed.

Lemma minimal_b_spec n idxs x : 1 <= n -> (forall i, In i idxs -> 0 <= i) ->
  (minimal_b n idxs x = true <-> minimal n idxs x).
Proof.
  intros Hn Hr. unfold minimal_b, minimal, needed.
  rewrite andb_true_iff, negb_true_iff, <- not_true_iff_false.
  rewrite !computable_b_spec by assumption. reflexivity.
Qed.

Lemma down_from_In c : forall x y, In y (down_from x c) <-> x - Z.of_nat c < y <= x.
Proof.
  induction c; intros x y; cbn [down_from In]; [lia|]. rewrite IHc. lia.
Qed.

Lemma down_from_sorted c : forall x, StronglySorted Z.gt (down_from x c).
Proof.
  induction c; intros x; cbn [down_from]; constructor; [apply IHc|].
  apply Forall_forall. intros y Hy. apply down_from_In in Hy. lia.
Qed.

Lemma filter_sorted {A} (R : A -> A -> Prop) (f : A -> bool) l :
  StronglySorted R l -> StronglySorted R (filter f l).
Proof.
  induction 1 as [|a r Hs IH Hf]; cbn [filter]; [constructor|].
  destruct (f a); [|exact IH]. constructor; [exact IH|].
  rewrite Forall_forall in *. intros y Hy. apply filter_In in Hy. apply Hf. tauto.
Qed.

Lemma ancestor_le x y : 0 <= y -> ancestor x y -> 0 <= x <= y.
Proof.
  intros Hy [k [Hk ->]]. pose proof (Z.pow_pos_nonneg 2 k).
  split; [apply Z.div_pos; lia|]. apply Z.div_le_upper_bound; [lia|nia].
Qed.

Lemma computable_range n idxs x : 1 <= n -> (forall i, In i idxs -> 0 <= i < n) ->
  computable n idxs x -> 2 <= x <= 2 * n - 1.
Proof.
  intros Hn Hr [Hx [i [Hi Ha]]]. specialize (Hr i Hi). apply ancestor_le in Ha; lia.
Qed.

Lemma minimal_range n idxs x : 1 <= n -> (forall i, In i idxs -> 0 <= i < n) ->
  minimal n idxs x -> 2 <= x <= 2 * n - 1.
Proof.
  intros Hn Hr [Hnd _]. apply computable_range in Hnd; try assumption.
  unfold spec_sibling in Hnd. destruct (Z.even x) eqn:He.
  - apply Zeven_bool_iff in He. apply Zeven_ex_iff in He. destruct He as [q ->]. lia.
  - rewrite <- Z.negb_odd in He. apply negb_false_iff in He.
    apply Zodd_bool_iff in He. apply Zodd_ex_iff in He. destruct He as [q ->]. lia.
Qed.

Lemma minimal_list_spec n idxs : 1 <= n -> (forall i, In i idxs -> 0 <= i < n) ->
  StronglySorted Z.gt (minimal_list n idxs) /\ forall x, In x (minimal_list n idxs) <-> minimal n idxs x.
Proof.
  intros Hn Hr. unfold minimal_list. split.
  - apply filter_sorted. apply down_from_sorted.
  - intros x. rewrite filter_In, down_from_In.
    rewrite minimal_b_spec by (try assumption; intros i Hi; specialize (Hr i Hi); lia).
    split; [tauto|]. intros Hm. split; [|exact Hm].
    pose proof (minimal_range n idxs x Hn Hr Hm). lia.
Qed.

(* C10 auth_structure_spec: the code's node-index list is the documented one *)
Theorem auth_indices_eq m n idxs : 1 <= n -> 2 * n <= USZ -> (forall i, In i idxs -> 0 <= i < n) ->
  auth_structure_node_indices m n idxs = Ok (minimal_list n idxs).
Proof.
  intros Hn Hn2 Hr.
  destruct (auth_indices_spec m n idxs) as [r [R1 [R2 R3]]]; [lia|assumption|assumption|].
  rewrite R1. f_equal.
  destruct (minimal_list_spec n idxs Hn Hr) as [M1 M2].
  apply sorted_gt_unique; try assumption.
  intros x. rewrite R3, M2. reflexivity.
Qed.
