(* MmrAllSizes.v - the bounded-exhaustive predicates of proofs/MmrSmall.v hold for EVERY size:
     mutation_case n = true  for all n with n < 2^63        (MmrSmall: n <= 20 by computation)
     batch_case n    = true  for all n with n + 1 < 2^63    (MmrSmall: n <= 10 by computation)
   derived from the general theorems (MmrUpdates, MmrBatch, MmrMutate, MmrBatchGen) instantiated at the free
   hash term / Node / term_eqb. *)
From Coq Require Import ZArith List Bool Lia.
From TF Require Import Word MmrIdxLocal Mmr MmrSpec MmrTerm MmrBits MmrNodes MmrProofs MmrPaths MmrUpdates MmrBatch
     MmrSmall MmrMutate MmrBatchGen.
Import ListNotations.
Open Scope Z_scope.

Lemma tl_eqb_spec a b : tl_eqb a b = true <-> a = b.
Proof. unfold tl_eqb. apply (list_deq_spec term term_eqb mmr_term_eqb_spec). Qed.
Lemma tl_eqb_refl a : tl_eqb a a = true.
Proof. apply tl_eqb_spec. reflexivity. Qed.
Lemma tll_eqb_refl : forall a, tll_eqb a a = true.
Proof. induction a as [|x a IH]; [reflexivity|]. cbn [tll_eqb]. rewrite tl_eqb_refl, IH. reflexivity. Qed.
Lemma zl_eqb_refl : forall a, zl_eqb a a = true.
Proof. unfold zl_eqb. induction a as [|x a IH]; [reflexivity|]. cbn [zlist_eqb]. rewrite Z.eqb_refl, IH. reflexivity. Qed.

Lemma changed_from_md_fun : forall a b p, changed_from p a b = md_fun term term_eqb p a b.
Proof.
  induction a as [|x a IH]; intros [|y b] p; reflexivity.
Qed.

Lemma zlength_atoms n : zlength (atoms_from 0 n) = Z.of_nat n.
Proof. unfold zlength, atoms_from. rewrite map_length, seq_length. reflexivity. Qed.

Lemma in_Zseq n x : In x (Zseq n) -> 0 <= x < Z.of_nat n.
Proof.
  unfold Zseq. intros Hin. apply in_map_iff in Hin. destruct Hin as (k & <- & Hk). apply in_seq in Hk. lia.
Qed.

Lemma Zseq_all n (P : Z -> Prop) : (forall x, 0 <= x < Z.of_nat n -> P x) -> Forall P (Zseq n).
Proof. intros HP. apply Forall_forall. intros x Hx. apply HP. apply in_Zseq. exact Hx. Qed.

Lemma md_spec_changed (old new : list term) idxs md :
  md_spec term Node Dflt old new 0 idxs md ->
  md = changed_from 0 (map (pth old) idxs) (map (pth new) idxs).
Proof.
  intros Hs. rewrite changed_from_md_fun.
  exact (md_spec_fun term Node term_eqb Dflt mmr_term_eqb_spec old new idxs 0 md Hs).
Qed.

(* ---------------------------------------------------------------- mutation_case *)
Section OneCase.
Variable n : nat.
Hypothesis Hn : Z.of_nat n < 2 ^ 63.
Notation ls := (atoms_from 0 n).
Notation idxs := (Zseq n).

Lemma Hl : zlength ls < 2 ^ 63.
Proof. rewrite zlength_atoms. exact Hn. Qed.
Lemma Hl64 : zlength ls < 2 ^ 64.
Proof. apply lt63_64. exact Hl. Qed.
Lemma Hall : Forall (fun i => 0 <= i < zlength ls) idxs.
Proof. apply Zseq_all. intros x Hx. rewrite zlength_atoms. exact Hx. Qed.

Lemma one_mutation j d : 0 <= j < Z.of_nat n ->
  (let ls' := upd ls j d in
   let new := map (pth ls') idxs in
   let old := map (pth ls) idxs in
   let lm := (j, d, pth ls j) in
   forallb (fun i =>
              match update_from_leaf_mutation term Node (pth ls i) i lm with
              | Some (ap, b) => tl_eqb ap (pth ls' i) && (b || tl_eqb (pth ls i) (pth ls' i))
              | None => false
              end) idxs &&
   match batch_update_from_leaf_mutation term Node term_eqb old idxs lm with
   | Some (aps, md) => tll_eqb aps new && zl_eqb md (changed_from 0 old new)
   | None => false
   end &&
   match batch_update_from_batch_leaf_mutation term Node term_eqb old idxs [lm] with
   | Some (aps, md) => tll_eqb aps new && zl_eqb md (changed_from 0 old new)
   | None => false
   end &&
   match acc_mutate_leaf term Node (Z.of_nat n, pspec ls) lm with
   | Some (c, pk) => (c =? Z.of_nat n) && tl_eqb pk (pspec ls')
   | None => false
   end) = true.
Proof.
  intros Hj0. cbv zeta.
  assert (Hj : 0 <= j < zlength ls) by (rewrite zlength_atoms; exact Hj0).
  unfold pth, pspec.
  apply andb_true_iff. split; [apply andb_true_iff; split; [apply andb_true_iff; split|]|].
  - apply forallb_forall. intros i Hi. apply in_Zseq in Hi. rewrite <- zlength_atoms in Hi.
    destruct (update_from_leaf_mutation_flag term Node Dflt ls i j d Hi Hj Hl) as [Hu Hsame].
    match goal with |- context [update_from_leaf_mutation ?a ?b ?c ?e ?f] =>
      replace (update_from_leaf_mutation a b c e f)
        with (Some (path term Node Dflt (upd ls j d) i, uflm_flag (zlength ls) i j)) by (symmetry; exact Hu) end.
    rewrite tl_eqb_refl. cbn [andb].
    destruct (uflm_flag (zlength ls) i j) eqn:Ef; [reflexivity|]. cbn [orb].
    rewrite (Hsame eq_refl). apply tl_eqb_refl.
  - destruct (batch_update_from_leaf_mutation_spec term Node term_eqb Dflt mmr_term_eqb_spec ls j d idxs Hj Hl Hall)
      as (md & Hb & Hmd).
    match goal with |- context [batch_update_from_leaf_mutation ?a ?b ?c ?e ?f ?g] =>
      replace (batch_update_from_leaf_mutation a b c e f g)
        with (Some (map (path term Node Dflt (upd ls j d)) idxs, md)) by (symmetry; exact Hb) end.
    rewrite tll_eqb_refl. cbn [andb].
    rewrite (md_spec_changed _ _ _ _ Hmd). unfold pth. apply zl_eqb_refl.
  - assert (Hin : inrange term ls [(j, d)]) by (constructor; [exact Hj|constructor]).
    assert (Hd : distinctb (map fst [(j, d)]) = true) by reflexivity.
    destruct (bubm_spec term Node term_eqb Dflt mmr_term_eqb_spec ls Hl [(j, d)] idxs Hin Hd Hall) as (md & Hb & Hmd).
    unfold with_proofs in Hb. cbn [map fst snd] in Hb. unfold apply_muts in Hb, Hmd. cbn [fold_left fst snd] in Hb, Hmd.
    match goal with |- context [batch_update_from_batch_leaf_mutation ?a ?b ?c ?e ?f ?g] =>
      replace (batch_update_from_batch_leaf_mutation a b c e f g)
        with (Some (map (path term Node Dflt (upd ls j d)) idxs, md)) by (symmetry; exact Hb) end.
    rewrite tll_eqb_refl. cbn [andb].
    rewrite (md_spec_changed _ _ _ _ Hmd). unfold pth. apply zl_eqb_refl.
  - unfold acc_mutate_leaf. cbn [fst snd].
    match goal with |- context [calculate_new_peaks_from_leaf_mutation ?a ?b ?c ?e ?f ?g ?h] =>
      replace (calculate_new_peaks_from_leaf_mutation a b c e f g h)
        with (Some (peaks_spec term Node Dflt (upd ls j d)))
        by (symmetry; rewrite <- (zlength_atoms n); exact (mutate_spec term Node term_eqb Dflt ls j d Hj Hl64)) end.
    cbn [obind]. rewrite Z.eqb_refl, tl_eqb_refl. reflexivity.
Qed.

Theorem mutation_case_holds : mutation_case n = true.
Proof.
  unfold mutation_case. cbv zeta. apply forallb_forall. intros j Hj. apply in_Zseq in Hj.
  cbn [forallb]. rewrite andb_true_r. apply andb_true_iff. split.
  - exact (one_mutation j (Atom 1000) Hj).
  - exact (one_mutation j (nth (Z.to_nat j) ls Dflt) Hj).
Qed.

End OneCase.

Theorem mutation_case_all (n : nat) : Z.of_nat n < 2 ^ 63 -> mutation_case n = true.
Proof. exact (mutation_case_holds n). Qed.

(* ---------------------------------------------------------------- batch_case *)
Lemma ordered_lists_spec idxs js : In js (ordered_lists idxs) ->
  (0 < length js <= 3)%nat /\ distinctb js = true /\ (forall x, In x js -> In x idxs).
Proof.
  unfold ordered_lists. intros Hin.
  apply in_app_or in Hin. destruct Hin as [Hin|Hin].
  - apply in_map_iff in Hin. destruct Hin as (i & <- & Hi). cbn [length]. split; [lia|]. split; [reflexivity|].
    intros x [<-|[]]. exact Hi.
  - apply in_app_or in Hin. destruct Hin as [Hin|Hin].
    + apply in_flat_map in Hin. destruct Hin as (i & Hi & Hin). apply in_flat_map in Hin. destruct Hin as (j & Hj & Hin).
      destruct (Z.eqb_spec i j) as [|Hne]; [contradiction|]. destruct Hin as [<-|[]].
      cbn [length]. split; [lia|]. split.
      * cbn [distinctb existsb]. rewrite (proj2 (Z.eqb_neq i j) Hne). reflexivity.
      * intros x [<-|[<-|[]]]; assumption.
    + apply in_flat_map in Hin. destruct Hin as (i & Hi & Hin). apply in_flat_map in Hin. destruct Hin as (j & Hj & Hin).
      apply in_flat_map in Hin. destruct Hin as (k & Hk & Hin).
      destruct (Z.eqb_spec i j) as [|Hij]; [contradiction|].
      destruct (Z.eqb_spec i k) as [|Hik]; [contradiction|].
      destruct (Z.eqb_spec j k) as [|Hjk]; [contradiction|]. cbn [orb] in Hin. destruct Hin as [<-|[]].
      cbn [length]. split; [lia|]. split.
      * cbn [distinctb existsb]. rewrite (proj2 (Z.eqb_neq i j) Hij), (proj2 (Z.eqb_neq i k) Hik), (proj2 (Z.eqb_neq j k) Hjk). reflexivity.
      * intros x [<-|[<-|[<-|[]]]]; assumption.
Qed.

Lemma map_fst_combine {A B : Type} : forall (a : list A) (b : list B), (length a <= length b)%nat ->
  map fst (combine a b) = a.
Proof.
  induction a as [|x a IH]; intros [|y b] Hl; cbn [length] in Hl; try reflexivity; [lia|].
  cbn [combine map fst]. rewrite IH by lia. reflexivity.
Qed.

Section BatchCase.
Variable n : nat.
Hypothesis Hn : Z.of_nat n + 1 < 2 ^ 63.
Notation ls := (atoms_from 0 n).
Notation idxs := (Zseq n).

Lemma Hn' : Z.of_nat n < 2 ^ 63.
Proof. lia. Qed.

Lemma peaks_differ (L : list term) : zlength L + 1 < 2 ^ 63 ->
  list_deq term term_eqb (peaks_spec term Node Dflt (L ++ [Atom 2000])) (peaks_spec term Node Dflt (L ++ [Atom 2001])) = false.
Proof.
  intros HL. destruct (list_deq _ _ _ _) eqn:E; [|reflexivity]. exfalso.
  apply (list_deq_spec term term_eqb mmr_term_eqb_spec) in E.
  apply (peaks_binding term Node Dflt mmr_Node_inj) in E.
  - apply app_inv_head in E. discriminate.
  - rewrite !zlength_app. reflexivity.
  - rewrite zlength_app. change (zlength [Atom 2000]) with 1. apply lt63_64. exact HL.
Qed.

Lemma one_batch js (v0 v1 v2 : term) :
  (0 < length js <= 3)%nat -> distinctb js = true -> (forall x, In x js -> 0 <= x < Z.of_nat n) ->
  (let old := map (pth ls) idxs in
   let ms := combine js [v0; v1; v2] in
   let ls' := apply_muts term ls ms in
   let new := map (pth ls') idxs in
   let lms := map (fun m => (fst m, snd m, pth ls (fst m))) ms in
   match batch_mutate_leaf_and_update_mps term Node term_eqb (Z.of_nat n, pspec ls) old idxs lms with
   | Some ((c, pk), aps, md) =>
     (c =? Z.of_nat n) && tl_eqb pk (pspec ls') && tll_eqb aps new && zl_eqb md (changed_from 0 old new)
   | None => false
   end &&
   match batch_update_from_batch_leaf_mutation term Node term_eqb old idxs lms with
   | Some (aps, md) => tll_eqb aps new && zl_eqb md (changed_from 0 old new)
   | None => false
   end &&
   match verify_batch_update term Node term_eqb (Z.of_nat n, pspec ls) (pspec (ls' ++ [Atom 2000])) [Atom 2000] lms,
         verify_batch_update term Node term_eqb (Z.of_nat n, pspec ls) (pspec (ls' ++ [Atom 2001])) [Atom 2000] lms with
   | Some true, Some false => true
   | _, _ => false
   end) = true.
Proof.
  intros Hlen Hd Hin. cbv zeta. unfold pth, pspec.
  set (ms := combine js [v0; v1; v2]).
  assert (Efst : map fst ms = js) by (apply map_fst_combine; cbn [length]; lia).
  assert (Hdm : distinctb (map fst ms) = true) by (rewrite Efst; exact Hd).
  assert (Hinr : inrange term ls ms).
  { unfold inrange. apply Forall_map with (f := fst) (P := fun i => 0 <= i < zlength ls). rewrite Efst.
    apply Forall_forall. intros x Hx. rewrite zlength_atoms. apply Hin. exact Hx. }
  pose proof (Hl n Hn') as HL. pose proof (Hall n) as HA.
  apply andb_true_iff. split; [apply andb_true_iff; split|].
  - destruct (bmlu_spec term Node term_eqb Dflt mmr_term_eqb_spec ls HL ms idxs Hinr Hdm HA) as (md & Hb & Hmd).
    unfold with_proofs in Hb. rewrite zlength_atoms in Hb.
    match goal with |- context [batch_mutate_leaf_and_update_mps ?a ?b ?c ?e ?f ?g ?h] =>
      replace (batch_mutate_leaf_and_update_mps a b c e f g h)
        with (Some ((Z.of_nat n, peaks_spec term Node Dflt (apply_muts term ls ms)),
                    map (path term Node Dflt (apply_muts term ls ms)) idxs, md)) by (symmetry; exact Hb) end.
    rewrite Z.eqb_refl, tl_eqb_refl, tll_eqb_refl. cbn [andb].
    rewrite (md_spec_changed _ _ _ _ Hmd). unfold pth. apply zl_eqb_refl.
  - destruct (bubm_spec term Node term_eqb Dflt mmr_term_eqb_spec ls HL ms idxs Hinr Hdm HA) as (md & Hb & Hmd).
    unfold with_proofs in Hb.
    match goal with |- context [batch_update_from_batch_leaf_mutation ?a ?b ?c ?e ?f ?g] =>
      replace (batch_update_from_batch_leaf_mutation a b c e f g)
        with (Some (map (path term Node Dflt (apply_muts term ls ms)) idxs, md)) by (symmetry; exact Hb) end.
    rewrite tll_eqb_refl. cbn [andb].
    rewrite (md_spec_changed _ _ _ _ Hmd). unfold pth. apply zl_eqb_refl.
  - assert (Hsum : zlength ls + zlength [Atom 2000] < 2 ^ 63) by (rewrite zlength_atoms; change (zlength [Atom 2000]) with 1; exact Hn).
    pose proof (verify_batch_update_iff term Node term_eqb Dflt mmr_term_eqb_spec ls
                  (peaks_spec term Node Dflt (apply_muts term ls ms ++ [Atom 2000])) [Atom 2000] ms Hsum Hdm Hinr) as Hv1.
    pose proof (verify_batch_update_iff term Node term_eqb Dflt mmr_term_eqb_spec ls
                  (peaks_spec term Node Dflt (apply_muts term ls ms ++ [Atom 2001])) [Atom 2000] ms Hsum Hdm Hinr) as Hv2.
    rewrite zlength_atoms in Hv1, Hv2.
    rewrite (proj2 (list_deq_spec term term_eqb mmr_term_eqb_spec _ _) eq_refl) in Hv1.
    rewrite peaks_differ in Hv2 by (rewrite zlength_apply_muts, zlength_atoms; exact Hn).
    match goal with |- match ?a with _ => _ end = true =>
      replace a with (Some true) by (symmetry; exact Hv1) end.
    match goal with |- match ?a with _ => _ end = true =>
      replace a with (Some false) by (symmetry; exact Hv2) end.
    reflexivity.
Qed.

Theorem batch_case_holds : batch_case n = true.
Proof.
  unfold batch_case. cbv zeta. apply forallb_forall. intros js Hjs.
  destruct (ordered_lists_spec _ _ Hjs) as (Hlen & Hd & Hin).
  apply (one_batch js _ _ _ Hlen Hd). intros x Hx. apply in_Zseq. apply Hin. exact Hx.
Qed.

End BatchCase.

Theorem batch_case_all (n : nat) : Z.of_nat n + 1 < 2 ^ 63 -> batch_case n = true.
Proof. exact (batch_case_holds n). Qed.
