(* MmrAppend.v - the append side of the MMR membership proofs, in general (all leaf counts < 2^63):
   node_indices_added_by_append, get_authentication_path_node_indices, get_peak_heights_and_peak_node_indices
   in terms of the block numbering bidx of MmrNodes.v; the authentication path of a leaf after an append;
   update_from_append and batch_update_from_append are exact. *)
From Coq Require Import ZArith List Bool Lia.
From TF Require Import Word MmrIdxLocal Mmr MmrSpec MmrBits MmrNodes MmrProofs MmrPaths MmrUpdates MmrBatch MmrHistory.
Import ListNotations.
Open Scope Z_scope.
Ltac Zify.zify_post_hook ::= Z.div_mod_to_equations.

(* ---------------------------------------------------------------- trailing zeros / trailing ones *)
Lemma tz_decomp x : 0 < x -> exists q, 0 <= q /\ x = (2 * q + 1) * 2 ^ tz x.
Proof.
  intros Hx. destruct x as [|p|p]; try lia. clear Hx. cbn [tz].
  induction p as [p IH|p IH|].
  - exists (Zpos p). cbn [tz_pos]. split; lia.
  - destruct IH as (q & Hq & E). exists q. split; [exact Hq|]. cbn [tz_pos].
    assert (0 <= tz_pos p) by (clear; induction p; cbn [tz_pos]; lia).
    rewrite Z.pow_add_r by lia. change (2 ^ 1) with 2. lia.
  - exists 0. cbn [tz_pos]. split; lia.
Qed.

(* n has exactly t trailing one bits: n + 1 = (2q+1) * 2^t *)
Definition tones (n : Z) (t : nat) (q : Z) : Prop := 0 <= q /\ n + 1 = (2 * q + 1) * 2 ^ Z.of_nat t.

Lemma tones_exists n : 0 <= n -> exists q, tones n (Z.to_nat (tz (n + 1))) q /\ Z.of_nat (Z.to_nat (tz (n + 1))) = tz (n + 1).
Proof.
  intros Hn. destruct (tz_decomp (n + 1) ltac:(lia)) as (q & Hq & E).
  pose proof (tz_nonneg (n + 1)). exists q. unfold tones. rewrite Z2Nat.id by lia. auto.
Qed.

Lemma p2_split (a b : nat) : 2 ^ Z.of_nat (a + b) = 2 ^ Z.of_nat a * 2 ^ Z.of_nat b.
Proof. rewrite Nat2Z.inj_add. apply Z.pow_add_r; lia. Qed.

Section Tones.
Variable n : Z.
Variable t : nat.
Variable q : Z.
Hypothesis Ht : tones n t q.

Lemma tones_div (j : nat) : (j <= t)%nat -> n / 2 ^ Z.of_nat j = (2 * q + 1) * 2 ^ Z.of_nat (t - j) - 1.
Proof.
  intros Hj. destruct Ht as [Hq E]. pose proof (p2_nat_pos j) as Hpj. pose proof (p2_nat_pos (t - j)) as Hpd.
  assert (Es : 2 ^ Z.of_nat t = 2 ^ Z.of_nat (t - j) * 2 ^ Z.of_nat j).
  { rewrite <- p2_split. f_equal. lia. }
  symmetry. apply Z.div_unique with (r := 2 ^ Z.of_nat j - 1); [lia|]. rewrite Es in E. nia.
Qed.

Lemma tones_full (j : nat) : (j <= t)%nat -> (n / 2 ^ Z.of_nat j + 1) * 2 ^ Z.of_nat j = n + 1.
Proof.
  intros Hj. rewrite tones_div by exact Hj. destruct Ht as [Hq E]. rewrite E.
  replace t with ((t - j) + j)%nat at 2 by lia. rewrite p2_split. lia.
Qed.

Lemma tones_odd (j : nat) : (j < t)%nat -> n / 2 ^ Z.of_nat j = 2 * (n / 2 ^ Z.of_nat (S j)) + 1.
Proof.
  intros Hj. rewrite !tones_div by lia. replace (t - j)%nat with (S (t - S j)) by lia. rewrite p2_S. ring.
Qed.

Lemma tones_top : n / 2 ^ Z.of_nat t = 2 * q.
Proof. rewrite tones_div by lia. rewrite Nat.sub_diag. change (2 ^ Z.of_nat 0) with 1. lia. Qed.

Lemma tones_nonneg : 0 <= n.
Proof. destruct Ht as [Hq E]. pose proof (p2_nat_pos t). nia. Qed.

Lemma tones_succ_div (j : nat) : (j <= t)%nat -> (n + 1) / 2 ^ Z.of_nat j = n / 2 ^ Z.of_nat j + 1.
Proof.
  intros Hj. rewrite <- (tones_full j Hj). rewrite Z.div_mul by (pose proof (p2_nat_pos j); lia). reflexivity.
Qed.

(* above the carry the quotients of n and n + 1 agree *)
Lemma tones_above (h : nat) : (t < h)%nat -> (n + 1) / 2 ^ Z.of_nat h = n / 2 ^ Z.of_nat h.
Proof.
  intros Hh. replace h with (t + (h - t))%nat by lia. rewrite <- !div_div_p2 by (pose proof tones_nonneg; lia).
  rewrite tones_succ_div by lia. rewrite tones_top.
  replace (h - t)%nat with (S (h - t - 1)) by lia. rewrite p2_S.
  pose proof (p2_nat_pos (h - t - 1)) as Hp.
  rewrite <- !Z.div_div by lia.
  f_equal. lia.
Qed.
End Tones.

(* ---------------------------------------------------------------- the height of the tree holding leaf i *)
Definition hchar (n i : Z) (h : nat) : Prop :=
  n / 2 ^ Z.of_nat h = i / 2 ^ Z.of_nat h + 1 /\ Z.even (i / 2 ^ Z.of_nat h) = true.

Lemma locate_char (k : nat) : forall n i, 0 <= i < n -> n < 2 ^ Z.of_nat k ->
  let '(pk, h, j) := locate_at k n i in n / 2 ^ h = i / 2 ^ h + 1 /\ Z.even (i / 2 ^ h) = true.
Proof.
  induction k as [|k IH]; intros n i Hi Hn.
  - change (2 ^ Z.of_nat 0) with 1 in Hn. lia.
  - cbn [locate_at]. cbv zeta. rewrite p2_S in Hn. pose proof (p2_nat_pos k) as Hp.
    destruct (Z.leb_spec (2 ^ Z.of_nat k) n).
    + destruct (Z.ltb_spec i (2 ^ Z.of_nat k)).
      * rewrite (Z.div_small i) by lia. split; [|reflexivity].
        symmetry. apply Z.div_unique with (r := n - 2 ^ Z.of_nat k); lia.
      * specialize (IH (n - 2 ^ Z.of_nat k) (i - 2 ^ Z.of_nat k) ltac:(lia) ltac:(lia)).
        pose proof (locate_at_bounds k (n - 2 ^ Z.of_nat k) (i - 2 ^ Z.of_nat k) ltac:(lia) ltac:(lia)) as Hb.
        destruct (locate_at k (n - 2 ^ Z.of_nat k) (i - 2 ^ Z.of_nat k)) as [[pk h] j].
        destruct Hb as (_ & Hh & _). destruct IH as [IH1 IH2].
        assert (E : 2 ^ Z.of_nat k = 2 ^ (Z.of_nat k - h) * 2 ^ h).
        { rewrite <- Z.pow_add_r by lia. f_equal. lia. }
        pose proof (p2_pos h ltac:(lia)) as Hph.
        assert (Ed : forall x, (x - 2 ^ Z.of_nat k) / 2 ^ h = x / 2 ^ h - 2 ^ (Z.of_nat k - h)).
        { intros x. rewrite E. replace (x - 2 ^ (Z.of_nat k - h) * 2 ^ h) with (x + (- 2 ^ (Z.of_nat k - h)) * 2 ^ h) by lia.
          rewrite Z.div_add by lia. lia. }
        rewrite !Ed in IH1. rewrite Ed in IH2. split; [lia|].
        rewrite Z.even_sub in IH2. rewrite (Z.even_pow 2 (Z.of_nat k - h)) in IH2 by lia.
        change (Z.even 2) with true in IH2. destruct (Z.even (i / 2 ^ h)); [reflexivity|discriminate IH2].
    + specialize (IH n i Hi ltac:(lia)). destruct (locate_at k n i) as [[pk h] j]. exact IH.
Qed.

Lemma hgt_lt64 n i : 0 <= i < n -> n < 2 ^ 64 -> (hgt n i < 64)%nat.
Proof.
  intros Hi Hn. rewrite hgt_unfold. pose proof (locate_bounds n i Hi Hn) as Hb.
  destruct (locate n i) as [[pk h] j]. cbn [fst snd]. lia.
Qed.

Lemma hgt_char n i : 0 <= i < n -> n < 2 ^ 64 -> hchar n i (hgt n i).
Proof.
  intros Hi Hn. rewrite hgt_unfold. pose proof (locate_bounds n i Hi Hn) as Hb.
  rewrite locate_at64 in *. pose proof (locate_char 64 n i Hi Hn) as Hc.
  destruct (locate_at 64 n i) as [[pk h] j]. cbn [fst snd]. unfold hchar. rewrite Z2Nat.id by lia. exact Hc.
Qed.

Lemma hchar_lt_absurd n i (h1 h2 : nat) : 0 <= i -> hchar n i h1 -> hchar n i h2 -> (h1 < h2)%nat -> False.
Proof.
  intros Hi [A1 B1] [A2 B2] Hlt.
  assert (Hn : 0 <= n).
  { destruct (Z.lt_ge_cases n 0) as [Hneg|]; [|assumption]. exfalso.
    pose proof (p2_nat_pos h1). assert (0 <= i / 2 ^ Z.of_nat h1) by (apply Z.div_pos; lia).
    assert (n / 2 ^ Z.of_nat h1 < 0) by (apply Z.div_lt_upper_bound; lia). lia. }
  replace h2 with (h1 + S (h2 - h1 - 1))%nat in A2 by lia.
  rewrite <- !div_div_p2 in A2 by lia. rewrite A1 in A2. rewrite p2_S in A2.
  pose proof (p2_nat_pos (h2 - h1 - 1)) as Hp.
  rewrite <- !Z.div_div in A2 by lia.
  pose proof (Zmod_even (i / 2 ^ Z.of_nat h1)) as Hm. rewrite B1 in Hm.
  replace ((i / 2 ^ Z.of_nat h1 + 1) / 2) with (i / 2 ^ Z.of_nat h1 / 2) in A2 by lia. lia.
Qed.

Lemma hchar_unique n i (h1 h2 : nat) : 0 <= i -> hchar n i h1 -> hchar n i h2 -> h1 = h2.
Proof.
  intros Hi C1 C2. destruct (Nat.lt_trichotomy h1 h2) as [Hl|[He|Hg]]; [|exact He|].
  - exfalso. exact (hchar_lt_absurd n i h1 h2 Hi C1 C2 Hl).
  - exfalso. exact (hchar_lt_absurd n i h2 h1 Hi C2 C1 Hg).
Qed.

Lemma hgt_intro n i (h : nat) : 0 <= i < n -> n < 2 ^ 64 -> hchar n i h -> hgt n i = h.
Proof. intros Hi Hn C. apply (hchar_unique n i); [lia|apply hgt_char; assumption|exact C]. Qed.

Lemma div_pred_pow q (m : nat) : ((2 * q + 1) * 2 ^ Z.of_nat (S m) - 1 - 1) / 2 ^ Z.of_nat (S m) = 2 * q.
Proof.
  rewrite p2_S. pose proof (p2_nat_pos m) as Hp. set (P := 2 ^ Z.of_nat m) in *.
  symmetry. apply Z.div_unique with (r := 2 * P - 2); [lia|ring].
Qed.

(* the tree of leaf i after one append: merged into the new peak iff its height is below the number of
   trailing ones of the old leaf count *)
Lemma hgt_append n (t : nat) q i : tones n t q -> 0 <= i < n -> n + 1 < 2 ^ 64 ->
  hgt n i <> t /\ hgt (n + 1) i = if (hgt n i <? t)%nat then t else hgt n i.
Proof.
  intros Ht Hi Hn. pose proof (hgt_char n i Hi ltac:(lia)) as [A B].
  set (h := hgt n i) in *.
  assert (Hne : h <> t).
  { intros E. rewrite E in A, B. rewrite (tones_top n t q Ht) in A.
    pose proof (Zmod_even (i / 2 ^ Z.of_nat t)) as Hm. rewrite B in Hm. lia. }
  split; [exact Hne|].
  apply hgt_intro; [lia|lia|].
  destruct (Nat.ltb_spec h t) as [Hlt|Hge].
  - assert (Ei : i / 2 ^ Z.of_nat t = 2 * q).
    { replace (i / 2 ^ Z.of_nat t) with (i / 2 ^ Z.of_nat h / 2 ^ Z.of_nat (t - h))
        by (rewrite div_div_p2 by lia; do 3 f_equal; lia).
      replace (i / 2 ^ Z.of_nat h) with (n / 2 ^ Z.of_nat h - 1) by lia.
      rewrite (tones_div n t q Ht h) by lia.
      replace (t - h)%nat with (S (t - h - 1)) by lia. apply div_pred_pow. }
    split.
    + rewrite (tones_succ_div n t q Ht t) by lia. rewrite (tones_top n t q Ht). lia.
    + rewrite Ei. rewrite Z.even_mul. reflexivity.
  - split; [|exact B]. rewrite (tones_above n t q Ht h) by lia. exact A.
Qed.

(* ---------------------------------------------------------------- blocks of an extended list *)
Lemma blk_app {A : Type} (ls x : list A) a (s : nat) : 0 <= a -> (a + 1) * 2 ^ Z.of_nat s <= zlength ls ->
  blk (ls ++ x) a s = blk ls a s.
Proof.
  intros Ha Hl. unfold blk. pose proof (pw_spec s) as Hpw. pose proof (p2_nat_pos s) as Hp. unfold zlength in Hl.
  rewrite skipn_app. rewrite firstn_app.
  replace (pw s - length (skipn (Z.to_nat (a * 2 ^ Z.of_nat s)) ls))%nat with 0%nat by (rewrite skipn_length; nia).
  cbn [firstn]. apply app_nil_r.
Qed.

Lemma sib_block_le x (s top : nat) : 0 <= x -> (s < top)%nat ->
  (sib (x / 2 ^ Z.of_nat s) + 1) * 2 ^ Z.of_nat s <= (x / 2 ^ Z.of_nat top + 1) * 2 ^ Z.of_nat top.
Proof.
  intros Hx Hs. pose proof (div_mono_blocks x (S s) top Hx ltac:(lia)) as Hb.
  pose proof (p2_nat_pos s) as Hp.
  rewrite divS in Hb by exact Hx. rewrite p2_S in Hb.
  unfold sib. pose proof (Zmod_even (x / 2 ^ Z.of_nat s)) as Hm. destruct (Z.even (x / 2 ^ Z.of_nat s)); nia.
Qed.

Section AppendSpec.
Variable D : Type.
Variable H : D -> D -> D.
Variable dflt : D.
Notation br := (broot D H dflt).
Notation bpath_from := (bpath_from D H dflt).

Lemma broot_app ls x a s : 0 <= a -> (a + 1) * 2 ^ Z.of_nat s <= zlength ls -> br (ls ++ x) a s = br ls a s.
Proof. intros. unfold broot. rewrite blk_app by assumption. reflexivity. Qed.

Lemma bpath_from_app_list ls x i (top : nat) : 0 <= i -> (i / 2 ^ Z.of_nat top + 1) * 2 ^ Z.of_nat top <= zlength ls ->
  forall m s, (s + m <= top)%nat -> bpath_from (ls ++ x) i s m = bpath_from ls i s m.
Proof.
  intros Hi Hb. induction m as [|m IH]; intros s Hs; [reflexivity|].
  cbn [MmrPaths.bpath_from]. rewrite IH by lia. f_equal.
  apply broot_app.
  - apply sib_nonneg. apply Z.div_pos; [lia|apply p2_nat_pos].
  - pose proof (sib_block_le i s top Hi ltac:(lia)). lia.
Qed.

Lemma broot_leaf ls x : 0 <= x < zlength ls -> br ls x 0 = nth (Z.to_nat x) ls dflt.
Proof.
  intros Hx. unfold broot, blk. cbn [MmrSpec.root]. change (2 ^ Z.of_nat 0) with 1. rewrite Z.mul_1_r.
  unfold zlength in Hx. assert (Hk' : (Z.to_nat x < length ls)%nat) by lia. clear Hx. revert Hk'.
  generalize (Z.to_nat x) as k.
  induction ls as [|y ls IH]; intros k Hk; [cbn in Hk; lia|].
  destruct k as [|k]; [reflexivity|]. cbn [skipn nth]. apply IH. cbn in Hk. lia.
Qed.

Lemma broot_new_leaf ls d : br (ls ++ [d]) (zlength ls) 0 = d.
Proof.
  rewrite broot_leaf by (rewrite zlength_app; change (zlength [d]) with 1; pose proof (zlength_nonneg ls); lia).
  unfold zlength. rewrite Nat2Z.id. rewrite app_nth2 by lia. rewrite Nat.sub_diag. reflexivity.
Qed.

(* ---------------------------------------------------------------- the peaks as blocks *)
(* peaks of a leaf count n at the bit positions below k, highest first: (height, block index) *)
Fixpoint pbl (k : nat) (n : Z) : list (nat * Z) :=
  match k with
  | O => []
  | S k' => if Z.odd (n / 2 ^ Z.of_nat k') then (k', n / 2 ^ Z.of_nat k' - 1) :: pbl k' n else pbl k' n
  end.

(* all 64 bit positions; kept behind a definition: `pbl 64 n` must never be unfolded by cbn / conversion *)
Definition pbl64 (n : Z) : list (nat * Z) := pbl 64 n.
Lemma pbl64_eq n : pbl64 n = pbl 64 n.
Proof. reflexivity. Qed.

Lemma peaks_at_blocks (k : nat) : forall full o,
  0 <= o -> o mod 2 ^ Z.of_nat k = 0 -> o <= zlength full -> zlength full - o < 2 ^ Z.of_nat k ->
  peaks_at D H dflt k (skipn (Z.to_nat o) full) = map (fun p => br full (snd p) (fst p)) (pbl k (zlength full)).
Proof.
  induction k as [|k IH]; intros full o Ho Hm Hle Hlt; [reflexivity|].
  rewrite p2_S in Hlt, Hm. pose proof (p2_nat_pos k) as Hp.
  pose proof (modp2_down k o Hm) as Hm'.
  assert (Hsl : zlength (skipn (Z.to_nat o) full) = zlength full - o).
  { unfold zlength in *. rewrite skipn_length. lia. }
  cbn [MmrSpec.peaks_at pbl]. rewrite Hsl.
  assert (Eo : o = 2 * 2 ^ Z.of_nat k * (o / (2 * 2 ^ Z.of_nat k))) by (pose proof (Z.div_mod o (2 * 2 ^ Z.of_nat k) ltac:(lia)); lia).
  set (m := o / (2 * 2 ^ Z.of_nat k)) in *.
  destruct (Z.leb_spec (2 ^ Z.of_nat k) (zlength full - o)) as [Hge|Hsm].
  - assert (Eq : zlength full / 2 ^ Z.of_nat k = 2 * m + 1).
    { symmetry. apply Z.div_unique with (r := zlength full - o - 2 ^ Z.of_nat k); lia. }
    rewrite Eq. replace (Z.odd (2 * m + 1)) with true by (rewrite Z.odd_add, Z.odd_mul; reflexivity).
    cbn [map fst snd]. f_equal.
    + rewrite skipn_blk by assumption. unfold broot. f_equal. f_equal.
      rewrite Eo. replace (2 * 2 ^ Z.of_nat k * m) with ((2 * m) * 2 ^ Z.of_nat k) by lia.
      rewrite Z.div_mul by lia. lia.
    + rewrite skipn_add.
      replace (Z.to_nat o + pw k)%nat with (Z.to_nat (o + 2 ^ Z.of_nat k)) by (pose proof (pw_spec k); lia).
      apply IH; try lia. apply modp2_step. exact Hm.
  - assert (Eq : zlength full / 2 ^ Z.of_nat k = 2 * m).
    { symmetry. apply Z.div_unique with (r := zlength full - o); lia. }
    rewrite Eq. replace (Z.odd (2 * m)) with false by (rewrite Z.odd_mul; reflexivity).
    apply IH; lia.
Qed.

Theorem peaks_spec_blocks ls : zlength ls < 2 ^ 64 ->
  peaks_spec D H dflt ls = map (fun p => br ls (snd p) (fst p)) (pbl64 (zlength ls)).
Proof.
  intros Hl. rewrite pbl64_eq. rewrite peaks_spec_eq.
  pose proof (peaks_at_blocks 64 ls 0 ltac:(lia) eq_refl (zlength_nonneg ls)) as Hp.
  cbn [Z.to_nat skipn] in Hp. apply Hp. lia.
Qed.

End AppendSpec.

Lemma in_pbl (k : nat) n h a : In (h, a) (pbl k n) <-> (h < k)%nat /\ Z.odd (n / 2 ^ Z.of_nat h) = true /\ a = n / 2 ^ Z.of_nat h - 1.
Proof.
  induction k as [|k IH]; cbn [pbl].
  - split; [contradiction|lia].
  - destruct (Z.odd (n / 2 ^ Z.of_nat k)) eqn:E.
    + cbn [In]. rewrite IH. split.
      * intros [Heq|(A & B & C)]; [inversion Heq; subst; split; [lia|split; [exact E|reflexivity]]|split; [lia|auto]].
      * intros (A & B & C). destruct (Nat.eq_dec h k) as [->|Hne]; [left; subst; reflexivity|right; split; [lia|auto]].
    + rewrite IH. split.
      * intros (A & B & C). split; [lia|auto].
      * intros (A & B & C). destruct (Nat.eq_dec h k) as [->|Hne]; [rewrite E in B; discriminate|split; [lia|auto]].
Qed.

(* the low part of the peak list when the low t bits are all set *)
Fixpoint low_pbl (t : nat) (n : Z) : list (nat * Z) :=
  match t with O => [] | S t' => (t', n / 2 ^ Z.of_nat t' - 1) :: low_pbl t' n end.

Lemma pbl_low n (t : nat) q : tones n t q -> forall j, (j <= t)%nat -> pbl j n = low_pbl j n.
Proof.
  intros Ht. induction j as [|j IH]; intros Hj; [reflexivity|].
  cbn [pbl low_pbl]. rewrite (tones_odd n t q Ht j) by lia.
  replace (Z.odd (2 * (n / 2 ^ Z.of_nat (S j)) + 1)) with true by (rewrite Z.odd_add, Z.odd_mul; reflexivity).
  rewrite IH by lia. reflexivity.
Qed.

Lemma pbl_split n (t : nat) : forall k, (t <= k)%nat -> exists hi, pbl k n = hi ++ pbl t n /\ forall p, In p hi -> (t < fst p)%nat \/ (t = fst p /\ Z.odd (n / 2 ^ Z.of_nat t) = true).
Proof.
  induction k as [|k IH]; intros Hk.
  - assert (t = 0)%nat by lia. subst. exists []. split; [reflexivity|contradiction].
  - destruct (Nat.eq_dec t (S k)) as [->|Hne]; [exists []; split; [reflexivity|contradiction]|].
    destruct (IH ltac:(lia)) as (hi & E & Hhi). cbn [pbl].
    destruct (Z.odd (n / 2 ^ Z.of_nat k)) eqn:Eo.
    + exists ((k, n / 2 ^ Z.of_nat k - 1) :: hi). split; [rewrite E; reflexivity|].
      intros p [<-|Hin]; [|exact (Hhi p Hin)]. cbn [fst].
      destruct (Nat.eq_dec t k) as [->|]; [right; auto|left; lia].
    + exists hi. split; [exact E|exact Hhi].
Qed.

(* ---------------------------------------------------------------- right_lineage_length_from_node_index at a leaf *)
Lemma co_pow2_pred (k : nat) : count_ones (2 ^ Z.of_nat k - 1) = Z.of_nat k.
Proof.
  induction k as [|k IH]; [reflexivity|]. rewrite p2_S. pose proof (p2_nat_pos k).
  replace (2 * 2 ^ Z.of_nat k - 1) with (2 * (2 ^ Z.of_nat k - 1) + 1) by lia.
  rewrite co_succ_double by lia. rewrite IH. lia.
Qed.

Lemma rll_node_fuel_eq fuel ni :
  rll_node_fuel fuel ni =
  match fuel with
  | O => None
  | S f =>
    if ni <=? 0 then None
    else let bit_width := Z.log2 ni + 1 in
         let dist := 2 ^ bit_width - ni in
         if bit_width <? dist then rll_node_fuel f (ni - 2 ^ (bit_width - 1) + 1)
         else Some (dist - 1)
  end.
Proof. destruct fuel; reflexivity. Qed.

Lemma rll_node_leaf (K : nat) : forall a fuel, 0 <= a < 2 ^ Z.of_nat K -> (K < fuel)%nat ->
  rll_node_fuel fuel (bidx a 0) = Some (tz (a + 1)).
Proof.
  induction K as [|K IH]; intros a fuel Ha Hf.
  - change (2 ^ Z.of_nat 0) with 1 in Ha. assert (a = 0) by lia. subst a.
    destruct fuel as [|f]; [lia|]. reflexivity.
  - rewrite p2_S in Ha. pose proof (p2_nat_pos K) as Hp.
    destruct (Z.lt_ge_cases a (2 ^ Z.of_nat K)) as [Hlo|Hhi]; [apply IH; lia|].
    set (a' := a - 2 ^ Z.of_nat K). assert (Ha' : 0 <= a' < 2 ^ Z.of_nat K) by (unfold a'; lia).
    assert (Ea : a = 2 ^ Z.of_nat K + a') by (unfold a'; lia).
    assert (Eb : bidx a 0 = 2 * 2 ^ Z.of_nat K + 2 * a' - count_ones a').
    { rewrite bidx_leaf by lia. rewrite Ea. rewrite co_pow2_add by lia. lia. }
    pose proof (co_le a' ltac:(lia)) as Hc1. pose proof (co_nonneg a') as Hc0.
    assert (Hlog : Z.log2 (bidx a 0) = Z.of_nat (S K)).
    { apply Z.log2_unique; [lia|]. rewrite Eb. replace (Z.succ (Z.of_nat (S K))) with (Z.of_nat (S (S K))) by lia.
      rewrite !p2_S. lia. }
    destruct fuel as [|f]; [lia|]. rewrite rll_node_fuel_eq. cbv zeta.
    destruct (Z.leb_spec (bidx a 0) 0); [lia|]. rewrite Hlog.
    replace (Z.of_nat (S K) + 1) with (Z.of_nat (S (S K))) by lia. rewrite !p2_S.
    replace (Z.of_nat (S (S K)) - 1) with (Z.of_nat (S K)) by lia. rewrite p2_S.
    destruct (Z.eq_dec a' (2 ^ Z.of_nat K - 1)) as [Eall|Hnot].
    + rewrite Eb, Eall, co_pow2_pred.
      destruct (Z.ltb_spec (Z.of_nat (S (S K))) (2 * (2 * 2 ^ Z.of_nat K) - (2 * 2 ^ Z.of_nat K + 2 * (2 ^ Z.of_nat K - 1) - Z.of_nat K))); [lia|].
      f_equal. replace (a + 1) with (2 ^ Z.of_nat (S K)) by (rewrite p2_S; lia). rewrite tz_pow2. lia.
    + pose proof (nn_mono a' (2 ^ Z.of_nat K - 1) ltac:(lia) ltac:(lia)) as Hm. unfold nn in Hm. rewrite co_pow2_pred in Hm.
      destruct (Z.ltb_spec (Z.of_nat (S (S K))) (2 * (2 * 2 ^ Z.of_nat K) - bidx a 0)); [|lia].
      replace (bidx a 0 - 2 * 2 ^ Z.of_nat K + 1) with (bidx a' 0) by (rewrite (bidx_leaf a') by lia; lia).
      rewrite IH by lia. f_equal. rewrite Ea.
      replace (2 ^ Z.of_nat K + a' + 1) with (2 ^ Z.of_nat K + (a' + 1)) by lia. symmetry. apply tz_pow2_add. lia.
Qed.

(* block (n / 2^k, k) around any leaf index below 2^63 *)
Lemma okb_any n (k : nat) : 0 <= n < 2 ^ 63 -> (k <= 63)%nat -> okb (n / 2 ^ Z.of_nat k) k.
Proof.
  intros Hn Hk. pose proof (p2_nat_pos k) as Hp. split; [apply Z.div_pos; lia|].
  assert (E : 2 ^ 63 = 2 ^ Z.of_nat (63 - k) * 2 ^ Z.of_nat k).
  { rewrite <- p2_split. f_equal. lia. }
  pose proof (p2_nat_pos (63 - k)) as Hd.
  assert (n / 2 ^ Z.of_nat k < 2 ^ Z.of_nat (63 - k)) by (apply Z.div_lt_upper_bound; lia).
  rewrite E. nia.
Qed.

Lemma tz_tones n (t : nat) q : tones n t q -> tz (n + 1) = Z.of_nat t.
Proof.
  intros [Hq E]. rewrite E. clear E. induction t as [|t' IH].
  - change (2 ^ Z.of_nat 0) with 1. rewrite Z.mul_1_r. apply tz_odd. lia.
  - rewrite p2_S. replace ((2 * q + 1) * (2 * 2 ^ Z.of_nat t')) with (2 * ((2 * q + 1) * 2 ^ Z.of_nat t')) by ring.
    rewrite tz_double by (pose proof (p2_nat_pos t'); nia). rewrite IH. lia.
Qed.

Section Added.
Variable n : Z.
Variable t : nat.
Variable q : Z.
Hypothesis Ht : tones n t q.
Hypothesis Hn : n + 1 < 2 ^ 63.

Lemma tones_t_le : (t <= 62)%nat.
Proof.
  destruct Ht as [Hq E]. destruct (Nat.le_gt_cases t 62) as [|Hgt]; [assumption|exfalso].
  assert (2 ^ 63 <= 2 ^ Z.of_nat t) by (apply p2_le; lia). nia.
Qed.

Lemma tones_n_range : 0 <= n < 2 ^ 63.
Proof. pose proof (tones_nonneg n t q Ht). lia. Qed.

Lemma added_loop_spec : forall m s, (s + m <= t)%nat ->
  added_loop m (bidx (n / 2 ^ Z.of_nat s) (Z.of_nat s)) = Some (dp_nodes_from n s m).
Proof.
  induction m as [|m IH]; intros s Hs; [reflexivity|].
  cbn [added_loop dp_nodes_from].
  pose proof (okb_lt _ _ (okb_any n (S s) tones_n_range ltac:(pose proof tones_t_le; lia))) as Hlt.
  assert (Hq : 0 <= n / 2 ^ Z.of_nat (S s)) by (apply Z.div_pos; [pose proof tones_n_range; lia|apply p2_nat_pos]).
  pose proof (bidx_right_parent s (n / 2 ^ Z.of_nat (S s)) Hq) as Hrp.
  rewrite <- (tones_odd n t q Ht s) in Hrp by lia.
  unfold add64, two64. change (2 ^ 64) with 18446744073709551616 in Hlt.
  destruct (Z.ltb_spec (bidx (n / 2 ^ Z.of_nat s) (Z.of_nat s) + 1) 18446744073709551616); [|lia].
  cbn [obind]. rewrite Hrp. rewrite IH by lia. reflexivity.
Qed.

Theorem added_spec : node_indices_added_by_append n = Some (bidx n 0 :: dp_nodes_from n 0 t).
Proof.
  unfold node_indices_added_by_append. pose proof tones_n_range as Hr.
  rewrite l2n_bidx by lia. cbn [obind]. unfold rll_node.
  assert (Hlt : n < 2 ^ Z.of_nat 63) by (change (Z.of_nat 63) with 63; lia).
  rewrite (rll_node_leaf 63 n 65 ltac:(lia) ltac:(lia)). cbn [obind].
  pose proof (tz_tones n t q Ht) as Etz.
  rewrite Etz, Nat2Z.id.
  pose proof (added_loop_spec t 0 ltac:(lia)) as Ha. change (2 ^ Z.of_nat 0) with 1 in Ha. rewrite Z.div_1_r in Ha.
  change (Z.of_nat 0) with 0 in Ha. rewrite Ha. reflexivity.
Qed.
End Added.

(* ---------------------------------------------------------------- get_authentication_path_node_indices *)
Lemma anc_lt x (s : nat) : 0 <= x -> bidx (x / 2 ^ Z.of_nat s) (Z.of_nat s) < bidx (x / 2 ^ Z.of_nat (S s)) (Z.of_nat (S s)).
Proof.
  intros Hx. rewrite (divS x s Hx). set (a := x / 2 ^ Z.of_nat s).
  assert (Ha : 0 <= a) by (apply Z.div_pos; [lia|apply p2_nat_pos]).
  pose proof (p2_nat_pos s). pose proof (Zmod_even a) as Hm.
  pose proof (bidx_left_parent s (a / 2) ltac:(lia)). pose proof (bidx_right_parent s (a / 2) ltac:(lia)).
  destruct (Z.even a).
  - replace a with (2 * (a / 2)) at 1 by lia. lia.
  - replace a with (2 * (a / 2) + 1) at 1 by lia. lia.
Qed.

Lemma anc_le x : 0 <= x -> forall m s, bidx (x / 2 ^ Z.of_nat s) (Z.of_nat s) <= bidx (x / 2 ^ Z.of_nat (s + m)) (Z.of_nat (s + m)).
Proof.
  intros Hx. induction m as [|m IH]; intros s.
  - rewrite Nat.add_0_r. lia.
  - replace (s + S m)%nat with (S s + m)%nat by lia. pose proof (IH (S s)). pose proof (anc_lt x s Hx). lia.
Qed.

Lemma auth_path_loop_eq fuel ni peak nc :
  auth_path_loop fuel ni peak nc =
  if (ni <=? nc) && negb (ni =? peak) then
    match fuel with
    | O => None
    | S f =>
      let? (_, s, p) := up_info ni in
      let? r := auth_path_loop f p peak nc in
      Some (match r with Some l => Some (s :: l) | None => None end)
    end
  else Some (if ni =? peak then Some [] else None).
Proof. destruct fuel; reflexivity. Qed.

Lemma auth_path_loop_spec x (top : nat) nc : okb (x / 2 ^ Z.of_nat top) top -> 0 <= x ->
  forall m s fuel, (s + m <= top)%nat -> (m < fuel)%nat ->
  bidx (x / 2 ^ Z.of_nat (s + m)) (Z.of_nat (s + m)) <= nc ->
  auth_path_loop fuel (bidx (x / 2 ^ Z.of_nat s) (Z.of_nat s)) (bidx (x / 2 ^ Z.of_nat (s + m)) (Z.of_nat (s + m))) nc =
  Some (Some (ap_nodes_from x s m)).
Proof.
  intros Hok Hx. induction m as [|m IH]; intros s fuel Hs Hf Hnc.
  - rewrite Nat.add_0_r in *. rewrite auth_path_loop_eq. rewrite Z.eqb_refl.
    rewrite andb_false_r. reflexivity.
  - rewrite auth_path_loop_eq.
    pose proof (anc_lt x s Hx) as Hlt. pose proof (anc_le x Hx m (S s)) as Hle.
    replace (S s + m)%nat with (s + S m)%nat in Hle by lia.
    destruct (Z.leb_spec (bidx (x / 2 ^ Z.of_nat s) (Z.of_nat s)) nc); [|lia].
    destruct (Z.eqb_spec (bidx (x / 2 ^ Z.of_nat s) (Z.of_nat s)) (bidx (x / 2 ^ Z.of_nat (s + S m)) (Z.of_nat (s + S m)))); [lia|].
    cbn [andb negb]. destruct fuel as [|f]; [lia|].
    rewrite up_info_bidx by (apply (inb_anc x s top); try assumption; lia). cbn [obind].
    rewrite <- divS by exact Hx.
    replace (s + S m)%nat with (S s + m)%nat by lia.
    rewrite IH; [reflexivity|lia|lia|]. replace (S s + m)%nat with (s + S m)%nat by lia. exact Hnc.
Qed.

(* ---------------------------------------------------------------- get_peak_heights_and_peak_node_indices *)
Definition pk_entry (p : nat * Z) : Z * Z := (Z.of_nat (fst p), bidx (snd p) (Z.of_nat (fst p))).

(* an incomplete block lies beyond the node count, a complete one within *)
Lemma bidx_beyond n (k : nat) : 0 <= n -> nn n < bidx (n / 2 ^ Z.of_nat k) (Z.of_nat k).
Proof.
  intros Hn. pose proof (p2_nat_pos k) as Hp.
  set (a := n / 2 ^ Z.of_nat k). set (r := n mod 2 ^ Z.of_nat k).
  assert (Ha : 0 <= a) by (apply Z.div_pos; lia).
  assert (Hr : 0 <= r < 2 ^ Z.of_nat k) by (apply Z.mod_pos_bound; lia).
  assert (E : n = a * 2 ^ Z.of_nat k + r) by (unfold a, r; pose proof (Z.div_mod n (2 ^ Z.of_nat k) ltac:(lia)); lia).
  rewrite bidx_formula by exact Ha. unfold nn. rewrite E at 1 2. rewrite co_split by assumption.
  pose proof (co_nonneg r). lia.
Qed.

Lemma bidx_within n a (k : nat) : 0 <= a -> (a + 1) * 2 ^ Z.of_nat k <= n -> bidx a (Z.of_nat k) <= nn n.
Proof.
  intros Ha Hle. pose proof (p2_nat_pos k) as Hp.
  assert (H1 : bidx a (Z.of_nat k) <= nn ((a + 1) * 2 ^ Z.of_nat k)).
  { rewrite bidx_formula by exact Ha. unfold nn. rewrite co_mul_pow2 by lia. pose proof (co_succ_le a Ha). lia. }
  destruct (Z.eq_dec ((a + 1) * 2 ^ Z.of_nat k) n) as [<-|Hne]; [exact H1|].
  pose proof (nn_mono ((a + 1) * 2 ^ Z.of_nat k) n ltac:(nia) ltac:(lia)). lia.
Qed.

Lemma peaks_loop_eq hn height candidate nc :
  peaks_loop hn height candidate nc =
  match hn with
  | O => Some []
  | S hn' =>
    if candidate <=? nc then None
    else let? c := sub64 candidate (2 ^ height) in
         let h' := height - 1 in
         if c <=? nc then
           let? rs := right_sibling c h' in
           let? r := peaks_loop hn' h' rs nc in Some ((h', c) :: r)
         else peaks_loop hn' h' c nc
  end.
Proof. destruct hn; reflexivity. Qed.

Lemma peaks_loop_spec n : 0 <= n < 2 ^ 63 -> forall k : nat, (k <= 63)%nat ->
  peaks_loop k (Z.of_nat k) (bidx (n / 2 ^ Z.of_nat k) (Z.of_nat k)) (nn n) = Some (map pk_entry (pbl k n)).
Proof.
  intros Hn. induction k as [|k IH]; intros Hk; [reflexivity|].
  rewrite peaks_loop_eq. cbv zeta.
  pose proof (bidx_beyond n (S k) ltac:(lia)) as Hbey.
  destruct (Z.leb_spec (bidx (n / 2 ^ Z.of_nat (S k)) (Z.of_nat (S k))) (nn n)); [lia|].
  set (a := n / 2 ^ Z.of_nat (S k)) in *.
  assert (Ha : 0 <= a) by (apply Z.div_pos; [lia|apply p2_nat_pos]).
  pose proof (bidx_lower (S k) a Ha) as Hlow. pose proof (p2_nat_pos (S k)) as Hp. pose proof (p2_nat_pos k) as Hpk.
  pose proof (bidx_left_parent k a Ha) as Hlp. pose proof (bidx_siblings k a Ha) as Hsb.
  unfold sub64. destruct (Z.leb_spec (2 ^ Z.of_nat (S k)) (bidx a (Z.of_nat (S k)))); [|lia]. cbn [obind].
  replace (bidx a (Z.of_nat (S k)) - 2 ^ Z.of_nat (S k)) with (bidx (2 * a) (Z.of_nat k)) by (rewrite p2_S; lia).
  replace (Z.of_nat (S k) - 1) with (Z.of_nat k) by lia.
  assert (Hd : n / 2 ^ Z.of_nat k = 2 * a \/ n / 2 ^ Z.of_nat k = 2 * a + 1).
  { unfold a. rewrite divS by lia. lia. }
  cbn [pbl].
  destruct Hd as [Hd|Hd].
  - rewrite Hd. replace (Z.odd (2 * a)) with false by (rewrite Z.odd_mul; reflexivity).
    pose proof (bidx_beyond n k ltac:(lia)) as Hb2. rewrite Hd in Hb2.
    destruct (Z.leb_spec (bidx (2 * a) (Z.of_nat k)) (nn n)); [lia|].
    rewrite <- Hd. apply IH. lia.
  - rewrite Hd. replace (Z.odd (2 * a + 1)) with true by (rewrite Z.odd_add, Z.odd_mul; reflexivity).
    assert (Hcomp : (2 * a + 1) * 2 ^ Z.of_nat k <= n).
    { rewrite <- Hd. pose proof (Z.div_mod n (2 ^ Z.of_nat k) ltac:(lia)). pose proof (Z.mod_pos_bound n (2 ^ Z.of_nat k) ltac:(lia)). nia. }
    pose proof (bidx_within n (2 * a) k ltac:(lia) ltac:(lia)) as Hw.
    destruct (Z.leb_spec (bidx (2 * a) (Z.of_nat k)) (nn n)); [|lia].
    pose proof (okb_lt _ _ (okb_any n (S k) Hn Hk)) as Hlt. fold a in Hlt. change (2 ^ 64) with 18446744073709551616 in Hlt.
    unfold right_sibling, shl1, add64, sub64, two64.
    destruct (Z.leb_spec 0 (Z.of_nat k + 1)); [|lia]. destruct (Z.ltb_spec (Z.of_nat k + 1) 64); [|lia].
    cbn [andb obind]. rewrite p2_succ by lia.
    destruct (Z.ltb_spec (bidx (2 * a) (Z.of_nat k) + 2 * 2 ^ Z.of_nat k) 18446744073709551616); [|lia]. cbn [obind].
    destruct (Z.leb_spec 1 (bidx (2 * a) (Z.of_nat k) + 2 * 2 ^ Z.of_nat k)); [|lia]. cbn [obind].
    replace (bidx (2 * a) (Z.of_nat k) + 2 * 2 ^ Z.of_nat k - 1) with (bidx (2 * a + 1) (Z.of_nat k)) by lia.
    rewrite <- Hd. rewrite IH by lia. cbn [obind map]. unfold pk_entry at 2. cbn [fst snd].
    rewrite Hd. replace (2 * a + 1 - 1) with (2 * a) by lia. reflexivity.
Qed.

Lemma pbl_above n (K : nat) : 0 <= n < 2 ^ Z.of_nat K -> forall k, (K <= k)%nat -> pbl k n = pbl K n.
Proof.
  intros Hn. induction k as [|k IH]; intros Hk.
  - assert (K = 0)%nat by lia. subst. reflexivity.
  - destruct (Nat.eq_dec K (S k)) as [->|Hne]; [reflexivity|]. cbn [pbl].
    rewrite Z.div_small.
    2:{ split; [lia|]. pose proof (p2_le (Z.of_nat K) (Z.of_nat k) ltac:(lia)). lia. }
    cbn [Z.odd]. apply IH. lia.
Qed.

Lemma lin_lt_pow2 (K : nat) : Z.of_nat K + 1 <= 2 ^ Z.of_nat K.
Proof. induction K as [|K IH]; [cbn; lia|]. rewrite p2_S. lia. Qed.

Theorem peak_heights_and_indices_spec n : 0 <= n < 2 ^ 63 ->
  peak_heights_and_indices n = Some (map pk_entry (pbl64 n)).
Proof.
  intros Hn. rewrite pbl64_eq. unfold peak_heights_and_indices.
  destruct (Z.eqb_spec n 0) as [->|Hn0].
  { reflexivity. }
  set (K := Z.to_nat (Z.log2 n)).
  pose proof (Z.log2_spec n ltac:(lia)) as [Hl1 Hl2]. pose proof (Z.log2_nonneg n) as Hl0.
  assert (EK : Z.log2 n = Z.of_nat K) by (unfold K; lia). rewrite EK in Hl1, Hl2.
  replace (Z.succ (Z.of_nat K)) with (Z.of_nat (S K)) in Hl2 by lia. rewrite p2_S in Hl2.
  pose proof (p2_nat_pos K) as HpK.
  assert (HK : (K <= 62)%nat).
  { destruct (Nat.le_gt_cases K 62); [assumption|exfalso].
    assert (2 ^ 63 <= 2 ^ Z.of_nat K) by (apply p2_le; lia). lia. }
  rewrite l2n_bidx by lia. cbn [obind]. unfold num_nodes, two63.
  change (2 ^ 63) with 9223372036854775808 in Hn.
  destruct (Z.ltb_spec n 9223372036854775808); [|lia]. cbn [obind]. fold (nn n).
  (* the node of the rightmost leaf *)
  pose proof (co_le (n - 1) ltac:(lia)) as Hc1. pose proof (co_nonneg (n - 1)) as Hc0.
  assert (Hb : bidx (n - 1) 0 = 2 * (n - 1) - count_ones (n - 1) + 1) by (apply bidx_leaf; lia).
  assert (Hrange : 1 <= bidx (n - 1) 0 < 2 ^ 64) by (change (2 ^ 64) with 18446744073709551616; lia).
  rewrite leftmost_ancestor_spec by exact Hrange. cbn [obind].
  assert (Htop : (let? (tp, th) :=
                    (if nn n <? 2 ^ (Z.log2 (bidx (n - 1) 0) + 1) - 1
                     then let? tp := sub64 (2 ^ (Z.log2 (bidx (n - 1) 0) + 1) - 1) (2 ^ Z.log2 (bidx (n - 1) 0)) in
                          let? th := sub64 (Z.log2 (bidx (n - 1) 0)) 1 in Some (tp, th)
                     else Some (2 ^ (Z.log2 (bidx (n - 1) 0) + 1) - 1, Z.log2 (bidx (n - 1) 0))) in Some (tp, th)) =
                 Some (bidx 0 (Z.of_nat K), Z.of_nat K)).
  { assert (Eb0 : bidx 0 (Z.of_nat K) = 2 * 2 ^ Z.of_nat K - 1) by (rewrite bidx_formula by lia; cbn [count_ones]; lia).
    destruct (Z.eq_dec n (2 ^ Z.of_nat K)) as [Epow|Hnp].
    - (* n = 2^K *)
      assert (Hco : count_ones (n - 1) = Z.of_nat K) by (rewrite Epow; apply co_pow2_pred).
      pose proof (lin_lt_pow2 K) as Hlin.
      assert (Hlog : Z.log2 (bidx (n - 1) 0) = Z.of_nat K).
      { apply Z.log2_unique; [lia|]. replace (Z.succ (Z.of_nat K)) with (Z.of_nat (S K)) by lia. rewrite p2_S. lia. }
      rewrite Hlog. replace (Z.of_nat K + 1) with (Z.of_nat (S K)) by lia. rewrite p2_S.
      assert (Enn : nn n = 2 * 2 ^ Z.of_nat K - 1).
      { unfold nn. rewrite Epow. pose proof (co_pow2_add K 0 ltac:(lia)) as Hc. rewrite Z.add_0_r in Hc. rewrite Hc. cbn [count_ones]. lia. }
      rewrite Enn. destruct (Z.ltb_spec (2 * 2 ^ Z.of_nat K - 1) (2 * 2 ^ Z.of_nat K - 1)); [lia|].
      cbn [obind]. rewrite Eb0. reflexivity.
    - (* 2^K < n < 2^(K+1) *)
      set (a' := n - 1 - 2 ^ Z.of_nat K). assert (Ha' : 0 <= a' < 2 ^ Z.of_nat K) by (unfold a'; lia).
      assert (Eco : count_ones (n - 1) = 1 + count_ones a').
      { replace (n - 1) with (2 ^ Z.of_nat K + a') by (unfold a'; lia). apply co_pow2_add. lia. }
      pose proof (co_le a' ltac:(lia)) as Hca. pose proof (co_nonneg a') as Hca0.
      assert (Hlog : Z.log2 (bidx (n - 1) 0) = Z.of_nat (S K)).
      { apply Z.log2_unique; [lia|]. replace (Z.succ (Z.of_nat (S K))) with (Z.of_nat (S (S K))) by lia. rewrite !p2_S.
        unfold a' in *. lia. }
      rewrite Hlog. replace (Z.of_nat (S K) + 1) with (Z.of_nat (S (S K))) by lia. rewrite !p2_S.
      assert (Hnn : nn n < 2 * (2 * 2 ^ Z.of_nat K) - 1).
      { unfold nn. assert (0 < count_ones n).
        { destruct n as [|p|p]; try lia. cbn [count_ones]. clear. induction p; cbn [popcount_pos]; lia. }
        lia. }
      destruct (Z.ltb_spec (nn n) (2 * (2 * 2 ^ Z.of_nat K) - 1)); [|lia].
      unfold sub64.
      destruct (Z.leb_spec (2 * 2 ^ Z.of_nat K) (2 * (2 * 2 ^ Z.of_nat K) - 1)); [|lia]. cbn [obind].
      destruct (Z.leb_spec 1 (Z.of_nat (S K))); [|lia]. cbn [obind].
      rewrite Eb0. f_equal. f_equal; lia. }
  match type of Htop with obind ?X _ = _ => destruct X as [[tp th]|] eqn:EX; [|discriminate Htop] end.
  cbn [obind] in Htop. inversion Htop; subst tp th. clear Htop.
  cbn [obind].
  (* the right sibling of the top peak *)
  assert (E1 : n / 2 ^ Z.of_nat K = 1).
  { symmetry. apply Z.div_unique with (r := n - 2 ^ Z.of_nat K); lia. }
  pose proof (bidx_siblings K 0 ltac:(lia)) as Hsb. rewrite Z.mul_0_r, Z.add_0_l in Hsb.
  assert (Eb0 : bidx 0 (Z.of_nat K) = 2 * 2 ^ Z.of_nat K - 1) by (rewrite bidx_formula by lia; cbn [count_ones]; lia).
  assert (Hp63 : 2 ^ Z.of_nat K <= 2 ^ 62) by (apply p2_le; lia). change (2 ^ 62) with 4611686018427387904 in Hp63.
  unfold right_sibling, shl1, add64, sub64, two64.
  destruct (Z.leb_spec 0 (Z.of_nat K + 1)); [|lia]. destruct (Z.ltb_spec (Z.of_nat K + 1) 64); [|lia].
  cbn [andb obind]. rewrite p2_succ by lia.
  destruct (Z.ltb_spec (bidx 0 (Z.of_nat K) + 2 * 2 ^ Z.of_nat K) 18446744073709551616); [|lia]. cbn [obind].
  destruct (Z.leb_spec 1 (bidx 0 (Z.of_nat K) + 2 * 2 ^ Z.of_nat K)); [|lia]. cbn [obind].
  replace (bidx 0 (Z.of_nat K) + 2 * 2 ^ Z.of_nat K - 1) with (bidx (n / 2 ^ Z.of_nat K) (Z.of_nat K)) by (rewrite E1; lia).
  rewrite Nat2Z.id.
  rewrite (peaks_loop_spec n ltac:(change (2 ^ 63) with 9223372036854775808; lia) K ltac:(lia)). cbn [obind].
  rewrite (pbl_above n (S K) ltac:(rewrite p2_S; lia) 64 ltac:(lia)).
  cbn [pbl]. rewrite E1. cbn [Z.odd map]. unfold pk_entry at 2. cbn [fst snd]. reflexivity.
Qed.

(* ---------------------------------------------------------------- small list / map facts *)
Lemma last_dp x : forall m s y, last_opt (y :: dp_nodes_from x s m) =
  Some (match m with O => y | S _ => bidx (x / 2 ^ Z.of_nat (s + m)) (Z.of_nat (s + m)) end).
Proof.
  induction m as [|m IH]; intros s y; [reflexivity|].
  cbn [dp_nodes_from]. change (last_opt (y :: ?a :: ?r)) with (last_opt (a :: r)).
  rewrite IH. destruct m as [|m'].
  - replace (s + 1)%nat with (S s) by lia. reflexivity.
  - replace (S s + S m')%nat with (s + S (S m'))%nat by lia. reflexivity.
Qed.

Lemma last_anc x (s m : nat) :
  last_opt (bidx (x / 2 ^ Z.of_nat s) (Z.of_nat s) :: dp_nodes_from x s m) = Some (bidx (x / 2 ^ Z.of_nat (s + m)) (Z.of_nat (s + m))).
Proof. rewrite last_dp. destruct m; [rewrite Nat.add_0_r|]; reflexivity. Qed.

Lemma last_direct x (hh : nat) : last_opt (bidx x 0 :: dp_nodes_from x 0 hh) = Some (bidx (x / 2 ^ Z.of_nat hh) (Z.of_nat hh)).
Proof.
  pose proof (last_anc x 0 hh) as Hl. change (2 ^ Z.of_nat 0) with 1 in Hl. rewrite Z.div_1_r in Hl.
  change (Z.of_nat 0) with 0 in Hl. cbn [Nat.add] in Hl. exact Hl.
Qed.

Lemma in_dp_nodes_conv x : forall m s j, (s < j <= s + m)%nat -> In (bidx (x / 2 ^ Z.of_nat j) (Z.of_nat j)) (dp_nodes_from x s m).
Proof.
  induction m as [|m IH]; intros s j Hj; [lia|]. cbn [dp_nodes_from].
  destruct (Nat.eq_dec j (S s)) as [->|Hne]; [left; reflexivity|right; apply IH; lia].
Qed.

Section Maps.
Variable D : Type.

Lemma dget_insert_zip_notin : forall (ks : list Z) (vs : list D) m k, ~ In k ks -> dget D (insert_zip D m ks vs) k = dget D m k.
Proof.
  induction ks as [|k0 ks IH]; intros vs m k Hn; [reflexivity|].
  destruct vs as [|v vs]; [reflexivity|]. cbn [insert_zip]. rewrite IH by (intros Hin; apply Hn; right; exact Hin).
  unfold dins. cbn [dget]. destruct (Z.eqb_spec k k0) as [->|]; [exfalso; apply Hn; left; reflexivity|reflexivity].
Qed.

Lemma dget_insert_zip {A : Type} (kf : A -> Z) (vf : A -> D) : forall (l : list A) m p,
  NoDup (map kf l) -> In p l -> dget D (insert_zip D m (map kf l) (map vf l)) (kf p) = Some (vf p).
Proof.
  induction l as [|x l IH]; intros m p Hnd Hin; [contradiction|].
  cbn [map insert_zip]. inversion Hnd as [|? ? Hnotin Hnd']; subst.
  destruct Hin as [->|Hin].
  - rewrite dget_insert_zip_notin by exact Hnotin. unfold dins. cbn [dget]. rewrite Z.eqb_refl. reflexivity.
  - apply IH; assumption.
Qed.
End Maps.

(* ---------------------------------------------------------------- the peaks in the map of known digests *)
Definition pk_key (p : nat * Z) : Z := bidx (snd p) (Z.of_nat (fst p)).

Lemma pbl_fst_lt (k : nat) n p : In p (pbl k n) -> (fst p < k)%nat.
Proof. destruct p as [h a]. rewrite in_pbl. cbn [fst]. lia. Qed.

Lemma pbl_okb (k : nat) n p : 0 <= n <= 2 ^ 63 -> In p (pbl k n) -> okb (snd p) (fst p).
Proof.
  destruct p as [h a]. rewrite in_pbl. cbn [fst snd]. intros Hn (Hh & Ho & ->).
  pose proof (p2_nat_pos h) as Hp.
  assert (0 <= n / 2 ^ Z.of_nat h) by (apply Z.div_pos; lia).
  assert (n / 2 ^ Z.of_nat h <> 0) by (intros E; rewrite E in Ho; discriminate).
  split; [lia|]. pose proof (Z.div_mod n (2 ^ Z.of_nat h) ltac:(lia)). pose proof (Z.mod_pos_bound n (2 ^ Z.of_nat h) ltac:(lia)). nia.
Qed.

Lemma pbl_keys_nodup n : 0 <= n <= 2 ^ 63 -> forall k, NoDup (map pk_key (pbl k n)).
Proof.
  intros Hn. induction k as [|k IH]; [constructor|]. cbn [pbl].
  destruct (Z.odd (n / 2 ^ Z.of_nat k)) eqn:Eo; [|exact IH].
  cbn [map]. constructor; [|exact IH].
  intros Hin. apply in_map_iff in Hin. destruct Hin as (p & Ek & Hp).
  pose proof (pbl_fst_lt k n p Hp) as Hlt. pose proof (pbl_okb k n p Hn Hp) as Hok.
  assert (Hok2 : okb (n / 2 ^ Z.of_nat k - 1) k).
  { apply (pbl_okb (S k) n (k, n / 2 ^ Z.of_nat k - 1) Hn). apply in_pbl. cbn [fst snd]. auto. }
  unfold pk_key in Ek. cbn [fst snd] in Ek. destruct (okb_inj _ _ _ _ Hok Hok2 Ek). lia.
Qed.

Opaque pbl64.

(* ---------------------------------------------------------------- update_from_append / batch_update_from_append *)
Section Ufa.
Variable D : Type.
Variable H : D -> D -> D.
Variable dflt : D.
Variable ls : list D.
Variable d : D.
Variable t : nat.
Variable q : Z.
Notation n := (zlength ls).
Hypothesis Ht : tones n t q.
Hypothesis Hn : n + 1 < 2 ^ 63.
Notation L' := (ls ++ [d]).
Notation br := (broot D H dflt).
Notation bpath_from := (bpath_from D H dflt).
Notation bpath := (bpath D H dflt).
Notation path := (path D H dflt).

Let Hn0 : 0 <= n < 2 ^ 63 := tones_n_range n t q Ht Hn.
Let Ht62 : (t <= 62)%nat := tones_t_le n t q Ht Hn.

(* the nodes created by the append: acc j = root of the last 2^j leaves of the new list *)
Definition acc (j : nat) : D := br L' (n / 2 ^ Z.of_nat j) j.
Definition oldpk (j : nat) : D := br ls (n / 2 ^ Z.of_nat j - 1) j.

Lemma acc_0 : acc 0 = d.
Proof. unfold acc. change (2 ^ Z.of_nat 0) with 1. rewrite Z.div_1_r. apply broot_new_leaf. Qed.

Lemma oldpk_new (j : nat) : (j < t)%nat -> br L' (n / 2 ^ Z.of_nat j - 1) j = oldpk j.
Proof.
  intros Hj. unfold oldpk. apply broot_app.
  - rewrite (tones_odd n t q Ht j Hj). assert (0 <= n / 2 ^ Z.of_nat (S j)) by (apply Z.div_pos; [lia|apply p2_nat_pos]). lia.
  - pose proof (tones_full n t q Ht j ltac:(lia)). pose proof (p2_nat_pos j). lia.
Qed.

Lemma acc_S (j : nat) : (j < t)%nat -> acc (S j) = H (oldpk j) (acc j).
Proof.
  intros Hj. unfold acc.
  assert (Hq : 0 <= n / 2 ^ Z.of_nat (S j)) by (apply Z.div_pos; [lia|apply p2_nat_pos]).
  rewrite (broot_S D H dflt) by exact Hq.
  rewrite <- (tones_odd n t q Ht j Hj).
  replace (2 * (n / 2 ^ Z.of_nat (S j))) with (n / 2 ^ Z.of_nat j - 1) by (rewrite (tones_odd n t q Ht j Hj); lia).
  rewrite oldpk_new by exact Hj. reflexivity.
Qed.

(* reversed old peaks: the merged ones first *)
Fixpoint pks (s m : nat) : list D := match m with O => [] | S m' => oldpk s :: pks (S s) m' end.

Lemma pks_snoc : forall m s, pks s (S m) = pks s m ++ [oldpk (s + m)].
Proof.
  induction m as [|m IH]; intros s.
  - cbn [pks app]. rewrite Nat.add_0_r. reflexivity.
  - change (pks s (S (S m))) with (oldpk s :: pks (S s) (S m)). rewrite IH. cbn [pks app].
    replace (S s + m)%nat with (s + S m)%nat by lia. reflexivity.
Qed.

Definition brf (p : nat * Z) : D := br ls (snd p) (fst p).

Lemma rev_low : forall j, rev (map brf (low_pbl j n)) = pks 0 j.
Proof.
  induction j as [|j IH]; [reflexivity|].
  cbn [low_pbl map rev]. rewrite IH. rewrite pks_snoc. reflexivity.
Qed.

Lemma old_peaks_rev : exists rest, rev (peaks_spec D H dflt ls) = pks 0 t ++ rest.
Proof.
  rewrite (peaks_spec_blocks D H dflt ls) by (change (2 ^ 63) with 9223372036854775808 in Hn; change (2 ^ 64) with 18446744073709551616; lia).
  rewrite pbl64_eq. destruct (pbl_split n t 64 ltac:(lia)) as (hi & E & _). rewrite E.
  rewrite (pbl_low n t q Ht t) by lia.
  fold brf. rewrite map_app, rev_app_distr. rewrite rev_low. eexists. reflexivity.
Qed.

(* the map of known digests after the merge loop has inserted the first m created nodes *)
Fixpoint ins_acc (kn : dmap D) (s m : nat) : dmap D :=
  match m with O => kn | S m' => ins_acc (dins D kn (bidx (n / 2 ^ Z.of_nat s) (Z.of_nat s)) (acc s)) (S s) m' end.

Lemma anc_neq x (j j' : nat) : 0 <= x -> (j < j')%nat -> bidx (x / 2 ^ Z.of_nat j) (Z.of_nat j) <> bidx (x / 2 ^ Z.of_nat j') (Z.of_nat j').
Proof.
  intros Hx Hlt. pose proof (anc_lt x j Hx). pose proof (anc_le x Hx (j' - S j) (S j)).
  replace (S j + (j' - S j))%nat with j' in * by lia. lia.
Qed.

Lemma dget_ins_acc_miss : forall m s kn k, (forall j, (s <= j < s + m)%nat -> k <> bidx (n / 2 ^ Z.of_nat j) (Z.of_nat j)) ->
  dget D (ins_acc kn s m) k = dget D kn k.
Proof.
  induction m as [|m IH]; intros s kn k Hk; [reflexivity|].
  cbn [ins_acc]. rewrite IH by (intros j Hj; apply Hk; lia).
  unfold dins. cbn [dget]. destruct (Z.eqb_spec k (bidx (n / 2 ^ Z.of_nat s) (Z.of_nat s))) as [E|]; [|reflexivity].
  exfalso. apply (Hk s); [lia|exact E].
Qed.

Lemma dget_ins_acc_hit : forall m s kn j, (s <= j < s + m)%nat ->
  dget D (ins_acc kn s m) (bidx (n / 2 ^ Z.of_nat j) (Z.of_nat j)) = Some (acc j).
Proof.
  induction m as [|m IH]; intros s kn j Hj; [lia|].
  cbn [ins_acc]. destruct (Nat.eq_dec j s) as [->|Hne].
  - rewrite dget_ins_acc_miss.
    + unfold dins. cbn [dget]. rewrite Z.eqb_refl. reflexivity.
    + intros j' Hj'. apply anc_neq; lia.
  - apply IH. lia.
Qed.

Definition known0 : dmap D := insert_zip D [] (map snd (map pk_entry (pbl64 n))) (peaks_spec D H dflt ls).

Lemma known0_peak (s : nat) : (s < t)%nat -> dget D known0 (bidx (n / 2 ^ Z.of_nat s - 1) (Z.of_nat s)) = Some (oldpk s).
Proof.
  intros Hs. unfold known0.
  rewrite (peaks_spec_blocks D H dflt ls) by (change (2 ^ 63) with 9223372036854775808 in Hn; change (2 ^ 64) with 18446744073709551616; lia).
  rewrite map_map. change (fun x => snd (pk_entry x)) with pk_key.
  change (bidx (n / 2 ^ Z.of_nat s - 1) (Z.of_nat s)) with (pk_key (s, n / 2 ^ Z.of_nat s - 1)).
  change (oldpk s) with ((fun p => br ls (snd p) (fst p)) (s, n / 2 ^ Z.of_nat s - 1)).
  apply dget_insert_zip.
  - rewrite pbl64_eq. apply pbl_keys_nodup. lia.
  - rewrite pbl64_eq. apply in_pbl. split; [lia|]. split; [|reflexivity].
    rewrite (tones_odd n t q Ht s Hs). rewrite Z.odd_add, Z.odd_mul. reflexivity.
Qed.

(* what a tracked proof needs from the map *)
Definition kn_ok (kn : dmap D) (h : nat) : Prop :=
  dget D kn (bidx (n / 2 ^ Z.of_nat h) (Z.of_nat h)) = Some (acc h) /\
  forall s, (h < s < t)%nat -> dget D kn (bidx (n / 2 ^ Z.of_nat s - 1) (Z.of_nat s)) = Some (oldpk s).

Lemma okb_n (j : nat) : (j <= 63)%nat -> okb (n / 2 ^ Z.of_nat j) j.
Proof. intros. apply okb_any; [exact Hn0|assumption]. Qed.

Lemma okb_pk (s : nat) : (s < t)%nat -> okb (n / 2 ^ Z.of_nat s - 1) s.
Proof.
  intros Hs. apply (pbl_okb 64 n (s, n / 2 ^ Z.of_nat s - 1) ltac:(lia)).
  apply in_pbl. split; [lia|]. split; [|reflexivity].
  rewrite (tones_odd n t q Ht s Hs). rewrite Z.odd_add, Z.odd_mul. reflexivity.
Qed.

Lemma ins_acc_ok (m h : nat) : (h < m)%nat -> (m <= t)%nat -> kn_ok (ins_acc known0 0 m) h.
Proof.
  intros Hm Hh. split.
  - apply dget_ins_acc_hit. lia.
  - intros s Hs. rewrite dget_ins_acc_miss; [apply known0_peak; lia|].
    intros j Hj E.
    destruct (okb_inj _ _ _ _ (okb_pk s ltac:(lia)) (okb_n j ltac:(lia)) E) as [-> E2].
    lia.
Qed.

(* ---- a tracked leaf *)
Section Leaf.
Variable i : Z.
Hypothesis Hi : 0 <= i < n.
Variable h : nat.
Hypothesis Hh : hgt n i = h.

Lemma Hch : hchar n i h.
Proof.
  rewrite <- Hh. apply hgt_char; [exact Hi|].
  change (2 ^ 63) with 9223372036854775808 in Hn; change (2 ^ 64) with 18446744073709551616; lia.
Qed.

Lemma leaf_path : path ls i = bpath ls i h.
Proof. destruct (path_hgt D H dflt ls i Hi ltac:(lia)) as [Hp _]. rewrite Hh in Hp. exact Hp. Qed.

Lemma leaf_hgt_new : hgt (n + 1) i = if (h <? t)%nat then t else h.
Proof.
  destruct (hgt_append n t q i Ht Hi ltac:(change (2 ^ 63) with 9223372036854775808 in Hn; change (2 ^ 64) with 18446744073709551616; lia)) as [_ Eh].
  rewrite Hh in Eh. exact Eh.
Qed.

Lemma leaf_path_new : path L' i = bpath L' i (if (h <? t)%nat then t else h).
Proof.
  assert (HL : zlength L' = n + 1) by (rewrite zlength_app; reflexivity).
  destruct (path_hgt D H dflt L' i ltac:(lia) ltac:(lia)) as [Hp _]. rewrite HL in Hp. rewrite leaf_hgt_new in Hp. exact Hp.
Qed.

Lemma leaf_h63 : (h < 63)%nat.
Proof.
  destruct Hch as [A B]. destruct (Nat.lt_ge_cases h 63) as [|Hge]; [assumption|exfalso].
  assert (2 ^ 63 <= 2 ^ Z.of_nat h) by (apply p2_le; lia).
  assert (n / 2 ^ Z.of_nat h = 0) by (apply Z.div_small; lia).
  assert (0 <= i / 2 ^ Z.of_nat h) by (apply Z.div_pos; [lia|apply p2_nat_pos]). lia.
Qed.

Lemma leaf_tree_in : (i / 2 ^ Z.of_nat h + 1) * 2 ^ Z.of_nat h <= n.
Proof.
  destruct Hch as [A B]. rewrite <- A. pose proof (p2_nat_pos h).
  pose proof (Z.div_mod n (2 ^ Z.of_nat h) ltac:(lia)). pose proof (Z.mod_pos_bound n (2 ^ Z.of_nat h) ltac:(lia)). nia.
Qed.

Lemma leaf_above (s : nat) : (h < s)%nat -> i / 2 ^ Z.of_nat s = n / 2 ^ Z.of_nat s.
Proof.
  intros Hs. destruct Hch as [A B].
  replace s with (h + S (s - h - 1))%nat by lia. rewrite <- !div_div_p2 by lia. rewrite A.
  rewrite p2_S. pose proof (p2_nat_pos (s - h - 1)). rewrite <- !Z.div_div by lia.
  f_equal. pose proof (Zmod_even (i / 2 ^ Z.of_nat h)) as Hm. rewrite B in Hm. lia.
Qed.

Lemma peak_and_height :
  get_peak_index_and_height D (path ls i) i = Some (bidx (i / 2 ^ Z.of_nat h) (Z.of_nat h), Z.of_nat h).
Proof.
  unfold get_peak_index_and_height. rewrite (get_direct_path_indices_spec D H dflt ls i Hi ltac:(lia)). rewrite Hh. cbn [obind].
  rewrite (last_direct i h). cbn [obind].
  rewrite leaf_path. unfold zlen, MmrPaths.bpath.
  rewrite bpath_from_length. reflexivity.
Qed.

Lemma peak_shl : shl1 (Z.of_nat h + 1) = Some (2 * 2 ^ Z.of_nat h).
Proof.
  pose proof leaf_h63 as Hh63.
  unfold shl1. destruct (Z.leb_spec 0 (Z.of_nat h + 1)); [|lia]. destruct (Z.ltb_spec (Z.of_nat h + 1) 64); [|lia].
  cbn [andb]. rewrite p2_succ by lia. reflexivity.
Qed.

Lemma peak_parent :
  add64 (bidx (i / 2 ^ Z.of_nat h) (Z.of_nat h)) (2 * 2 ^ Z.of_nat h) = Some (bidx (i / 2 ^ Z.of_nat (S h)) (Z.of_nat (S h))).
Proof.
  pose proof leaf_h63 as Hh63. destruct Hch as [A B].
  assert (Hq : 0 <= i / 2 ^ Z.of_nat h) by (apply Z.div_pos; [lia|apply p2_nat_pos]).
  pose proof (bidx_left_parent h (i / 2 ^ Z.of_nat h / 2) ltac:(lia)) as Hlp.
  pose proof (Zmod_even (i / 2 ^ Z.of_nat h)) as Hm. rewrite B in Hm.
  replace (2 * (i / 2 ^ Z.of_nat h / 2)) with (i / 2 ^ Z.of_nat h) in Hlp by lia.
  rewrite <- divS in Hlp by lia.
  pose proof (okb_lt _ _ (okb_any i (S h) ltac:(lia) ltac:(lia))) as Hlt. change (2 ^ 64) with 18446744073709551616 in Hlt.
  unfold add64, two64. rewrite Hlp.
  destruct (Z.ltb_spec (bidx (i / 2 ^ Z.of_nat (S h)) (Z.of_nat (S h))) 18446744073709551616); [reflexivity|lia].
Qed.

Lemma parent_added :
  zmem (bidx (i / 2 ^ Z.of_nat (S h)) (Z.of_nat (S h))) (bidx n 0 :: dp_nodes_from n 0 t) = (h <? t)%nat.
Proof.
  pose proof leaf_h63 as Hh63.
  destruct (Nat.ltb_spec h t) as [Hlt|Hge].
  - apply zmem_In. right. rewrite leaf_above by lia. apply in_dp_nodes_conv. lia.
  - apply zmem_false. intros [E|Hin].
    + change (bidx n 0) with (bidx n (Z.of_nat 0)) in E.
      destruct (okb_inj _ _ _ _ (okb_any n 0 Hn0 ltac:(lia)) (okb_any i (S h) ltac:(lia) ltac:(lia))) as [E1 _]; [|lia].
      change (2 ^ Z.of_nat 0) with 1. rewrite Z.div_1_r. exact E.
    + apply in_dp_nodes in Hin. destruct Hin as (j & Hj & E).
      destruct (okb_inj _ _ _ _ (okb_any i (S h) ltac:(lia) ltac:(lia)) (okb_n j ltac:(lia)) E) as [E1 _]. lia.
Qed.

(* not merged: the path stays *)
Lemma path_unchanged : (t < h)%nat -> path L' i = path ls i.
Proof.
  intros Hgt. rewrite leaf_path_new, leaf_path. destruct (Nat.ltb_spec h t); [lia|].
  unfold MmrPaths.bpath. apply (bpath_from_app_list D H dflt ls [d] i h ltac:(lia) leaf_tree_in). lia.
Qed.

Hypothesis Hlt : (h < t)%nat.

Lemma leaf_sib_h : sib (i / 2 ^ Z.of_nat h) = n / 2 ^ Z.of_nat h.
Proof. destruct Hch as [A B]. unfold sib. rewrite B. lia. Qed.

Lemma leaf_sib_above (s : nat) : (h < s < t)%nat -> sib (i / 2 ^ Z.of_nat s) = n / 2 ^ Z.of_nat s - 1.
Proof.
  intros Hs. rewrite leaf_above by lia. unfold sib. rewrite (tones_odd n t q Ht s ltac:(lia)).
  rewrite Z.even_add, Z.even_mul. reflexivity.
Qed.

Lemma missing_spec :
  get_authentication_path_node_indices (bidx (i / 2 ^ Z.of_nat h) (Z.of_nat h)) (bidx (n / 2 ^ Z.of_nat t) (Z.of_nat t)) (nn (n + 1)) =
  Some (Some (ap_nodes_from i h (t - h))).
Proof.
  unfold get_authentication_path_node_indices.
  assert (Ei : i / 2 ^ Z.of_nat t = n / 2 ^ Z.of_nat t) by (apply leaf_above; exact Hlt).
  pose proof (auth_path_loop_spec i t (nn (n + 1)) ltac:(rewrite Ei; apply okb_n; lia) ltac:(lia) (t - h) h 66 ltac:(lia) ltac:(lia)) as Ha.
  replace (h + (t - h))%nat with t in Ha by lia. rewrite Ei in Ha. apply Ha.
  apply bidx_within.
  - apply Z.div_pos; [lia|apply p2_nat_pos].
  - pose proof (tones_full n t q Ht t ltac:(lia)). lia.
Qed.

Lemma lookup_missing kn : kn_ok kn h ->
  lookup_all D kn (ap_nodes_from i h (t - h)) = Some (bpath_from L' i h (t - h)).
Proof.
  intros [K1 K2].
  assert (Hgen : forall m s, (h <= s)%nat -> (s + m <= t)%nat ->
            lookup_all D kn (ap_nodes_from i s m) = Some (bpath_from L' i s m)).
  { induction m as [|m IH]; intros s Hs1 Hs2; [reflexivity|].
    cbn [ap_nodes_from lookup_all MmrPaths.bpath_from].
    assert (Hd : dget D kn (bidx (sib (i / 2 ^ Z.of_nat s)) (Z.of_nat s)) = Some (br L' (sib (i / 2 ^ Z.of_nat s)) s)).
    { destruct (Nat.eq_dec s h) as [->|Hne].
      - rewrite leaf_sib_h. unfold acc in K1. exact K1.
      - rewrite leaf_sib_above by lia. rewrite K2 by lia. rewrite oldpk_new by lia. reflexivity. }
    rewrite Hd. cbn [obind]. rewrite IH by lia. reflexivity. }
  apply Hgen; lia.
Qed.

Lemma path_extended : path L' i = path ls i ++ bpath_from L' i h (t - h).
Proof.
  rewrite leaf_path_new, leaf_path. destruct (Nat.ltb_spec h t); [|lia].
  unfold MmrPaths.bpath. replace t with (h + (t - h))%nat at 1 by lia. rewrite bpath_from_app. cbn [Nat.add].
  f_equal. apply (bpath_from_app_list D H dflt ls [d] i h ltac:(lia) leaf_tree_in). lia.
Qed.

Lemma missing_mem (j : nat) : (j <= h)%nat ->
  zmem (bidx (n / 2 ^ Z.of_nat j) (Z.of_nat j)) (ap_nodes_from i h (t - h)) = (j =? h)%nat.
Proof.
  intros Hj. destruct (Nat.eqb_spec j h) as [->|Hne].
  - apply zmem_In. replace (t - h)%nat with (S (t - h - 1)) by lia. cbn [ap_nodes_from]. left. rewrite leaf_sib_h. reflexivity.
  - apply zmem_false. intros Hin. apply in_ap_nodes in Hin. destruct Hin as (s & Hs & E).
    assert (Hok : okb (sib (i / 2 ^ Z.of_nat s)) s).
    { apply (okb_sib i s t); [|lia|lia]. rewrite leaf_above by lia. apply okb_n. lia. }
    destruct (okb_inj _ _ _ _ (okb_n j ltac:(lia)) Hok E) as [E1 _]. lia.
Qed.

End Leaf.

Lemma ufa_loop_cons kn a ni added pk rp missing :
  ufa_loop D H kn a (ni :: added) (pk :: rp) missing =
  if zmem ni missing then dins D kn ni a else ufa_loop D H (dins D kn ni a) (H pk a) added rp missing.
Proof. reflexivity. Qed.

Lemma ufa_loop_spec missing (hstop : nat) : (hstop < t)%nat ->
  (forall j, (j <= hstop)%nat -> zmem (bidx (n / 2 ^ Z.of_nat j) (Z.of_nat j)) missing = (j =? hstop)%nat) ->
  forall m s kn rest, (s + m = hstop)%nat ->
  ufa_loop D H kn (acc s) (bidx (n / 2 ^ Z.of_nat s) (Z.of_nat s) :: dp_nodes_from n s (t - s)) (pks s (t - s) ++ rest) missing =
  ins_acc kn s (S m).
Proof.
  intros Hst Hmem. induction m as [|m IH]; intros s kn rest Hs.
  - replace (t - s)%nat with (S (t - S s)) by lia. cbn [dp_nodes_from pks app ins_acc]. rewrite ufa_loop_cons.
    rewrite Hmem by lia. replace (s =? hstop)%nat with true by (symmetry; apply Nat.eqb_eq; lia). reflexivity.
  - replace (t - s)%nat with (S (t - S s)) by lia. cbn [dp_nodes_from pks app]. rewrite ufa_loop_cons.
    rewrite Hmem by lia. replace (s =? hstop)%nat with false by (symmetry; apply Nat.eqb_neq; lia).
    rewrite <- acc_S by lia. rewrite IH by lia. reflexivity.
Qed.

Lemma ufa_loop_top missing (hstop : nat) rest : (hstop < t)%nat ->
  (forall j, (j <= hstop)%nat -> zmem (bidx (n / 2 ^ Z.of_nat j) (Z.of_nat j)) missing = (j =? hstop)%nat) ->
  ufa_loop D H known0 d (bidx n 0 :: dp_nodes_from n 0 t) (pks 0 t ++ rest) missing = ins_acc known0 0 (S hstop).
Proof.
  intros Hst Hmem. pose proof (ufa_loop_spec missing hstop Hst Hmem hstop 0 known0 rest ltac:(lia)) as Hu.
  rewrite acc_0 in Hu. change (2 ^ Z.of_nat 0) with 1 in Hu. rewrite Z.div_1_r in Hu. rewrite Nat.sub_0_r in Hu.
  exact Hu.
Qed.

Lemma zlength_bpath L x m : zlength (bpath L x m) = Z.of_nat m.
Proof. unfold zlength, MmrPaths.bpath. rewrite bpath_from_length. reflexivity. Qed.

Lemma ufa_leaf i (h : nat) : 0 <= i < n -> hgt n i = h ->
  update_from_append D H (path ls i) i n d (peaks_spec D H dflt ls) = Some (path L' i, (h <? t)%nat) /\
  zlength (path ls i) = Z.of_nat h /\ zlength (path L' i) = Z.of_nat (if (h <? t)%nat then t else h) /\ h <> t.
Proof.
  intros Hi Hh.
  assert (Hne : h <> t).
  { destruct (hgt_append n t q i Ht Hi ltac:(change (2 ^ 63) with 9223372036854775808 in Hn; change (2 ^ 64) with 18446744073709551616; lia)) as [Hne _].
    rewrite Hh in Hne. exact Hne. }
  split; [|split; [rewrite (leaf_path i Hi h Hh); apply zlength_bpath|split; [rewrite (leaf_path_new i Hi h Hh); apply zlength_bpath|exact Hne]]].
  unfold update_from_append. rewrite (peak_and_height i Hi h Hh). cbn [obind].
  rewrite (added_spec n t q Ht Hn). cbn [obind].
  rewrite (peak_shl i Hi h Hh). cbn [obind]. rewrite (peak_parent i Hi h Hh). cbn [obind].
  rewrite (parent_added i Hi h Hh).
  destruct (Nat.ltb_spec h t) as [Hlt|Hge]; cbn [negb].
  - rewrite (last_direct n t). cbn [obind].
    unfold add64, two64. change (2 ^ 63) with 9223372036854775808 in Hn.
    destruct (Z.ltb_spec (n + 1) 18446744073709551616); [|lia]. cbn [obind].
    unfold num_nodes, two63. destruct (Z.ltb_spec (n + 1) 9223372036854775808); [|lia]. cbn [obind].
    fold (nn (n + 1)). rewrite (missing_spec i Hi h Hh Hlt). cbn [obind].
    rewrite (peak_heights_and_indices_spec n Hn0). cbn [obind].
    change (insert_zip D [] (map snd (map pk_entry (pbl64 n))) (peaks_spec D H dflt ls)) with known0.
    destruct old_peaks_rev as (rest & Er). rewrite Er.
    rewrite (ufa_loop_top _ h rest Hlt (missing_mem i Hi h Hh Hlt)).
    rewrite (lookup_missing i Hi h Hh Hlt _ (ins_acc_ok (S h) h ltac:(lia) ltac:(lia))). cbn [obind].
    rewrite (path_extended i Hi h Hh Hlt). reflexivity.
  - rewrite (path_unchanged i Hi h Hh ltac:(lia)). reflexivity.
Qed.


(* ---- batch_update_from_append *)
Lemma bufa_loop_cons kn a c stop ni added pk rp :
  bufa_loop D H kn a c stop (ni :: added) (pk :: rp) =
  if c =? stop then dins D kn ni a else bufa_loop D H (dins D kn ni a) (H pk a) (c + 1) stop added rp.
Proof. reflexivity. Qed.

Lemma bufa_loop_spec : (1 <= t)%nat ->
  forall m s kn rest, (s + m = t - 1)%nat ->
  bufa_loop D H kn (acc s) (Z.of_nat s) (Z.of_nat t - 1)
            (bidx (n / 2 ^ Z.of_nat s) (Z.of_nat s) :: dp_nodes_from n s (t - s)) (pks s (t - s) ++ rest) =
  ins_acc kn s (S m).
Proof.
  intros Ht1. induction m as [|m IH]; intros s kn rest Hs.
  - replace (t - s)%nat with (S (t - S s)) by lia. cbn [dp_nodes_from pks app ins_acc]. rewrite bufa_loop_cons.
    destruct (Z.eqb_spec (Z.of_nat s) (Z.of_nat t - 1)); [reflexivity|lia].
  - replace (t - s)%nat with (S (t - S s)) by lia. cbn [dp_nodes_from pks app]. rewrite bufa_loop_cons.
    destruct (Z.eqb_spec (Z.of_nat s) (Z.of_nat t - 1)); [lia|].
    rewrite <- acc_S by lia. replace (Z.of_nat s + 1) with (Z.of_nat (S s)) by lia. rewrite IH by lia. reflexivity.
Qed.

Lemma bufa_loop_top rest : (1 <= t)%nat ->
  bufa_loop D H known0 d 0 (Z.of_nat t - 1) (bidx n 0 :: dp_nodes_from n 0 t) (pks 0 t ++ rest) = ins_acc known0 0 t.
Proof.
  intros Ht1. pose proof (bufa_loop_spec Ht1 (t - 1) 0 known0 rest ltac:(lia)) as Hu.
  rewrite acc_0 in Hu. change (2 ^ Z.of_nat 0) with 1 in Hu. rewrite Z.div_1_r in Hu. rewrite Nat.sub_0_r in Hu.
  change (Z.of_nat 0) with 0 in Hu. replace (S (t - 1)) with t in Hu by lia. exact Hu.
Qed.

Lemma dp_nodes_from_length x : forall m s, length (dp_nodes_from x s m) = m.
Proof. induction m; intros; cbn [dp_nodes_from length]; [reflexivity|]. rewrite IHm. reflexivity. Qed.

Notation md_spec := (md_spec D H dflt).

(* one tracked proof of the batch loop *)
Lemma bufa_leaf kn i (h : nat) : (forall h', (h' < t)%nat -> kn_ok kn h') -> 0 <= i < n -> hgt n i = h ->
  (let? (old_peak_index, old_peak_height) := get_peak_index_and_height D (path ls i) i in
   let? sh := shl1 (old_peak_height + 1) in
   let? peak_parent_index := add64 old_peak_index sh in
   Some (zmem peak_parent_index (bidx n 0 :: dp_nodes_from n 0 t), old_peak_index)) =
  Some ((h <? t)%nat, bidx (i / 2 ^ Z.of_nat h) (Z.of_nat h)) /\
  ((h <? t)%nat = true ->
   exists ext, get_authentication_path_node_indices (bidx (i / 2 ^ Z.of_nat h) (Z.of_nat h)) (bidx (n / 2 ^ Z.of_nat t) (Z.of_nat t)) (nn (n + 1)) =
               Some (Some (ap_nodes_from i h (t - h))) /\
               lookup_all D kn (ap_nodes_from i h (t - h)) = Some ext /\ path L' i = path ls i ++ ext /\ path L' i <> path ls i) /\
  ((h <? t)%nat = false -> path L' i = path ls i).
Proof.
  intros Hkn Hi Hh.
  destruct (ufa_leaf i h Hi Hh) as (_ & L1 & L2 & Hne).
  split; [|split].
  - rewrite (peak_and_height i Hi h Hh). cbn [obind].
    rewrite (peak_shl i Hi h Hh). cbn [obind]. rewrite (peak_parent i Hi h Hh). cbn [obind].
    rewrite (parent_added i Hi h Hh). reflexivity.
  - intros Hlt. apply Nat.ltb_lt in Hlt. eexists. split; [exact (missing_spec i Hi h Hh Hlt)|].
    split; [exact (lookup_missing i Hi h Hh Hlt kn (Hkn h Hlt))|]. split; [exact (path_extended i Hi h Hh Hlt)|].
    intros E. rewrite E in L2. rewrite L1 in L2. destruct (Nat.ltb_spec h t); lia.
  - intros Hge. apply Nat.ltb_ge in Hge. apply (path_unchanged i Hi h Hh). lia.
Qed.

Lemma bufa_proofs_spec kn : (forall h', (h' < t)%nat -> kn_ok kn h') ->
  forall idxs p, Forall (fun i => 0 <= i < n) idxs ->
  exists md, bufa_proofs D p (map (path ls) idxs) idxs (bidx n 0 :: dp_nodes_from n 0 t) kn
                         (bidx (n / 2 ^ Z.of_nat t) (Z.of_nat t)) (nn (n + 1)) =
             Some (map (path L') idxs, md) /\ md_spec ls L' p idxs md.
Proof.
  intros Hkn. induction idxs as [|i idxs IH]; intros p Hall.
  - exists []. split; reflexivity.
  - pose proof (Forall_inv Hall) as Hi. cbv beta in Hi.
    destruct (IH (p + 1) (Forall_inv_tail Hall)) as (md & Hr & Hmd).
    destruct (bufa_leaf kn i (hgt n i) Hkn Hi eq_refl) as (E1 & E2 & E3).
    revert E1 E2 E3. generalize (hgt n i) as h. intros h E1 E2 E3.
    cbn [map bufa_proofs].
    destruct (get_peak_index_and_height D (path ls i) i) as [[opi oph]|]; [|discriminate E1]. cbn [obind] in *.
    destruct (shl1 (oph + 1)) as [sh|]; [|discriminate E1]. cbn [obind] in *.
    destruct (add64 opi sh) as [ppi|]; [|discriminate E1]. cbn [obind] in *.
    pose proof (f_equal (fun o => match o with Some (z, _) => z | None => false end) E1) as Ez.
    pose proof (f_equal (fun o => match o with Some (_, z) => z | None => 0 end) E1) as Eo.
    cbv beta iota in Ez, Eo. rewrite Ez. subst opi. clear E1.
    destruct (h <? t)%nat eqn:Elt; cbn [negb].
    + destruct (E2 eq_refl) as (ext & M1 & M2 & M3 & M4). rewrite M1. cbn [obind]. rewrite M2. cbn [obind].
      rewrite Hr. cbn [obind]. exists (p :: md). split; [rewrite M3; reflexivity|].
      cbn [MmrUpdates.md_spec]. right. split; [exact M4|]. exists md. split; [reflexivity|exact Hmd].
    + rewrite Hr. cbn [obind]. exists md. split; [rewrite (E3 eq_refl); reflexivity|].
      cbn [MmrUpdates.md_spec]. left. split; [exact (E3 eq_refl)|exact Hmd].
Qed.

Lemma all_unchanged : t = 0%nat -> forall idxs p, Forall (fun i => 0 <= i < n) idxs ->
  map (path L') idxs = map (path ls) idxs /\ md_spec ls L' p idxs [].
Proof.
  intros Ht0. induction idxs as [|i idxs IH]; intros p Hall; [split; reflexivity|].
  pose proof (Forall_inv Hall) as Hi. cbv beta in Hi. destruct (IH (p + 1) (Forall_inv_tail Hall)) as [IH1 IH2].
  destruct (ufa_leaf i (hgt n i) Hi eq_refl) as (_ & _ & _ & Hne).
  pose proof (path_unchanged i Hi (hgt n i) eq_refl ltac:(lia)) as Hp.
  cbn [map]. split; [rewrite Hp, IH1; reflexivity|].
  cbn [MmrUpdates.md_spec]. left. split; [exact Hp|exact IH2].
Qed.

Theorem bufa_section_spec idxs : Forall (fun i => 0 <= i < n) idxs ->
  exists md, batch_update_from_append D H (map (path ls) idxs) idxs n d (peaks_spec D H dflt ls) =
             Some (map (path L') idxs, md) /\ md_spec ls L' 0 idxs md.
Proof.
  intros Hall. unfold batch_update_from_append.
  rewrite map_length. rewrite Nat.eqb_refl. cbn [negb].
  replace (forallb (fun x => x <? n) idxs) with true.
  2:{ symmetry. apply forallb_forall. intros x Hx. rewrite Forall_forall in Hall. apply Z.ltb_lt. apply (Hall x Hx). }
  cbn [negb]. rewrite (added_spec n t q Ht Hn). cbn [obind].
  assert (Ezl : zlen (bidx n 0 :: dp_nodes_from n 0 t) = Z.of_nat t + 1).
  { unfold zlen. cbn [length]. rewrite dp_nodes_from_length. lia. }
  rewrite Ezl.
  destruct (Z.eqb_spec (Z.of_nat t + 1) 1) as [E0|Hne].
  - destruct (all_unchanged ltac:(lia) idxs 0 Hall) as [A1 A2]. exists []. split; [rewrite A1; reflexivity|exact A2].
  - rewrite (peak_heights_and_indices_spec n Hn0). cbn [obind].
    change (insert_zip D [] (map snd (map pk_entry (pbl64 n))) (peaks_spec D H dflt ls)) with known0.
    destruct old_peaks_rev as (rest & Er). rewrite Er.
    replace (Z.of_nat t + 1 - 2) with (Z.of_nat t - 1) by lia.
    rewrite (bufa_loop_top rest ltac:(lia)).
    rewrite (last_direct n t). cbn [obind].
    unfold add64, two64. change (2 ^ 63) with 9223372036854775808 in Hn.
    destruct (Z.ltb_spec (n + 1) 18446744073709551616); [|lia]. cbn [obind].
    unfold num_nodes, two63. destruct (Z.ltb_spec (n + 1) 9223372036854775808); [|lia]. cbn [obind].
    fold (nn (n + 1)).
    apply bufa_proofs_spec; [|exact Hall].
    intros h' Hh'. apply ins_acc_ok; lia.
Qed.

End Ufa.

(* ---------------------------------------------------------------- the general theorems *)
Theorem update_from_append_spec (D : Type) (H : D -> D -> D) (dflt : D) (ls : list D) (d : D) (i : Z) :
  0 <= i < zlength ls -> zlength ls + 1 < 2 ^ 63 ->
  update_from_append D H (path D H dflt ls i) i (zlength ls) d (peaks_spec D H dflt ls) =
  Some (path D H dflt (ls ++ [d]) i,
        negb (zlength (path D H dflt (ls ++ [d]) i) =? zlength (path D H dflt ls i))).
Proof.
  intros Hi Hn. destruct (tones_exists (zlength ls) (zlength_nonneg ls)) as (q & Ht & _).
  destruct (ufa_leaf D H dflt ls d _ q Ht Hn i (hgt (zlength ls) i) Hi eq_refl) as (E & L1 & L2 & Hne).
  revert E L1 L2 Hne. generalize (hgt (zlength ls) i) as h. generalize (Z.to_nat (tz (zlength ls + 1))) as t.
  intros t h E L1 L2 Hne. rewrite E, L1, L2. f_equal. f_equal.
  destruct (Nat.ltb_spec h t).
  - destruct (Z.eqb_spec (Z.of_nat t) (Z.of_nat h)); [lia|reflexivity].
  - rewrite Z.eqb_refl. reflexivity.
Qed.

Theorem batch_update_from_append_spec (D : Type) (H : D -> D -> D) (dflt : D) (ls : list D) (d : D) (idxs : list Z) :
  zlength ls + 1 < 2 ^ 63 -> Forall (fun i => 0 <= i < zlength ls) idxs ->
  exists md, batch_update_from_append D H (map (path D H dflt ls) idxs) idxs (zlength ls) d (peaks_spec D H dflt ls) =
             Some (map (path D H dflt (ls ++ [d])) idxs, md) /\
             md_spec D H dflt ls (ls ++ [d]) 0 idxs md.
Proof.
  intros Hn Hall. destruct (tones_exists (zlength ls) (zlength_nonneg ls)) as (q & Ht & _).
  exact (bufa_section_spec D H dflt ls d _ q Ht Hn idxs Hall).
Qed.

Theorem append_exact_holds (D : Type) (H : D -> D -> D) (dflt : D) : append_exact D H dflt.
Proof.
  intros ls d idxs Hn Hall. destruct (batch_update_from_append_spec D H dflt ls d idxs Hn Hall) as (md & E & _).
  exists md. exact E.
Qed.

(* the history invariant, unconditionally: every tracked proof stays THE authentication path of its leaf
   through any valid history of appends, mutations and batch mutations *)
Theorem history_inv_full (D : Type) (H : D -> D -> D) (deq : D -> D -> bool) (dflt : D) :
  (forall x y, deq x y = true <-> x = y) ->
  forall (ops : list (top D)) (st : tstate D) (ls : list D),
    tinv D H dflt st ls -> zlength ls < 2 ^ 63 -> mops_valid D H dflt ls (map (terase D) ops) ->
    exists st', trun D H deq st ops = Some st' /\
                tinv D H dflt st' (run D ls (map (erase D) (map (terase D) ops))).
Proof. intros Hdeq. exact (history_inv D H deq dflt Hdeq (append_exact_holds D H dflt)). Qed.
